#!/usr/bin/env python3
"""Regenerates the seeded-change table in DESIGN.md (between the SEEDTABLE markers) from seeded/*/meta.json."""
import json, glob, os, re
V = os.path.dirname(os.path.dirname(os.path.abspath(__file__)))
rows = []
for d in sorted(glob.glob(os.path.join(V, 'seeded', '*'))):
    m = json.load(open(os.path.join(d, 'meta.json'))); v = m.get('verification', {})
    caught = [k for k, c in v.get('checks', {}).items() if c['rc'] == 1]
    missed = [k for k, c in v.get('checks', {}).items() if c['rc'] != 1]
    title = (m.get('title') or '').replace('|', '/')[:110]
    needs = (m.get('needs_to_manifest') or '')
    if isinstance(needs, list): needs = '; '.join(map(str, needs))
    needs = str(needs).replace('|', '/').replace('\n', ' ')[:150]
    rows.append('| %s | %s | %s | %s | %s | %s |' % (m['seed_id'], title, needs, 'yes' if v.get('confirmed') else 'NO', ', '.join(caught) or '—',
                                                  (m.get('first_seen') or '')))
tab = ('| id | change | needs to manifest | confirmed | caught by (quick tier) | note |\n|---|---|---|---|---|---|\n' + '\n'.join(rows))
p = os.path.join(V, 'DESIGN.md'); s = open(p).read()
if '<!-- SEEDTABLE-BEGIN -->' in s:
    s = re.sub(r'<!-- SEEDTABLE-BEGIN -->.*?<!-- SEEDTABLE-END -->', lambda _: '<!-- SEEDTABLE-BEGIN -->\n' + tab + '\n<!-- SEEDTABLE-END -->', s, flags=re.S)
else:
    s = s.replace('SEEDTABLE', '<!-- SEEDTABLE-BEGIN -->\n' + tab + '\n<!-- SEEDTABLE-END -->', 1)
open(p, 'w').write(s)
print(len(rows), 'rows')
