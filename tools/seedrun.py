#!/usr/bin/env python3
"""Confirm a candidate seeded change and run the registered check against it.

usage: tools/seedrun.py <seed-dir> <property> [--tier quick|thorough] [--no-confirm] [--props C05,C06]
  <seed-dir> holds patch.diff, demo.py, meta.json.
  1. (confirm) in a scratch worktree of /repo (under /tmp, removed afterwards): demo passes on the clean
     tree, fails with the patch, and the 59 baseline tests pass with the patch;
  2. applies the patch to /repo, runs ./vcheck <prop> for every listed property, restores /repo.
Prints one JSON line with the outcome.
"""
import sys, os, subprocess, json, tempfile, shutil, time
VERIF = os.path.dirname(os.path.dirname(os.path.abspath(__file__)))
PY = '/venv/bin/python'

def sh(cmd, cwd=None, timeout=3600):
    p = subprocess.run(cmd, shell=True, cwd=cwd, stdout=subprocess.PIPE, stderr=subprocess.STDOUT, text=True, timeout=timeout)
    return p.returncode, p.stdout

def main():
    a = sys.argv[1:]
    sd, prop = os.path.abspath(a[0]), a[1]
    tier = 'quick'; confirm = True; props = [prop]; only = False; corpus = False
    i = 2
    while i < len(a):
        if a[i] == '--tier': tier = a[i + 1]; i += 2
        elif a[i] == '--no-confirm': confirm = False; i += 1
        elif a[i] == '--confirm-only': only = True; i += 1
        elif a[i] == '--save-corpus': corpus = True; i += 1
        elif a[i] == '--props': props = a[i + 1].split(','); i += 2
        else: i += 1
    patch = os.path.join(sd, 'patch.diff'); demo = os.path.join(sd, 'demo.py')
    out = {'seed': sd, 'property': prop, 'tier': tier}
    if confirm:
        wt = tempfile.mkdtemp(prefix='wt-confirm-', dir='/tmp'); os.rmdir(wt)
        rc, o = sh('git -C /repo worktree add --detach %s HEAD' % wt)
        try:
            rc0, o0 = sh('PYTHONPATH=%s %s -B -W ignore %s' % (wt, PY, demo), cwd=wt, timeout=1800)
            rca, oa = sh('git apply %s' % patch, cwd=wt)
            rc1, o1 = sh('PYTHONPATH=%s %s -B -W ignore %s' % (wt, PY, demo), cwd=wt, timeout=1800)
            rct, ot = sh('%s -m pytest -q -p no:cacheprovider --timeout=900 2>&1 | tail -3' % PY, cwd=wt, timeout=3000)
            out['confirm'] = {'demo_clean_rc': rc0, 'apply_rc': rca, 'demo_patched_rc': rc1, 'pytest_tail': ot.strip().split('\n')[-1]}
            out['confirmed'] = (rc0 == 0 and rca == 0 and rc1 != 0 and '59 passed' in ot and 'failed' not in ot)
        finally:
            sh('git -C /repo worktree remove --force %s' % wt); shutil.rmtree(wt, ignore_errors=True)
    if only:
        print(json.dumps(out, indent=1)); return 0
    # the checks run against a scratch worktree with the change applied (VERIF_REPO), writing evidence/replays to a scratch
    # directory (VERIF_OUT): /repo itself and the committed evidence are never touched
    wt = tempfile.mkdtemp(prefix='wt-seeded-', dir='/tmp'); os.rmdir(wt)
    outdir = tempfile.mkdtemp(prefix='seedout-', dir='/tmp')
    sh('git -C /repo worktree add --detach %s HEAD' % wt)
    out['checks'] = {}
    try:
        rca, oa = sh('git apply %s' % patch, cwd=wt)
        if rca != 0:
            out['error'] = 'patch does not apply: ' + oa[-300:]
        else:
            for p in props:
                t0 = time.time()
                rc, o = sh('VERIF_REPO=%s VERIF_OUT=%s ./vcheck %s --tier %s' % (wt, outdir, p, tier), cwd=VERIF, timeout=7200)
                lines = [l for l in o.split('\n') if l.startswith('VIOLATION') or l.startswith('KNOWN-FINDING') or 'predicate fails' in l or 'first disagreement' in l]
                out['checks'][p] = {'rc': rc, 'wall': round(time.time() - t0, 1), 'lines': [l[:400] for l in lines[:6]]}
                # keep the (shrunk) failing case as a corpus entry: it is replayed first on every later run of that check
                if corpus and rc == 1:
                    import re, glob
                    for rp in glob.glob(os.path.join(outdir, 'replays', '%s-impl-violates-property-*.json' % p)):
                        try:
                            r = json.load(open(rp))
                            if r.get('suite') and r.get('input') is not None:
                                cdir = os.path.join(VERIF, 'corpus', p); os.makedirs(cdir, exist_ok=True)
                                json.dump({'suite': r['suite'], 'case': r['input'], 'from_seeded_change': os.path.basename(sd), 'what': r.get('what')},
                                          open(os.path.join(cdir, '%s.json' % os.path.basename(sd)), 'w'), indent=1)
                                out['checks'][p]['corpus'] = True
                        except Exception as e:
                            out['checks'][p]['corpus_error'] = repr(e)
    finally:
        sh('git -C /repo worktree remove --force %s' % wt); shutil.rmtree(wt, ignore_errors=True); shutil.rmtree(outdir, ignore_errors=True)
    out['caught'] = any(c['rc'] == 1 for c in out['checks'].values())
    print(json.dumps(out, indent=1))
    return 0

if __name__ == '__main__':
    sys.exit(main())
