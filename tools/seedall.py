#!/usr/bin/env python3
"""Copy candidate seeds from /tmp/seed into /verif/seeded/<prop>-<X>/ and (re)run every kept seed against its checks.
usage: tools/seedall.py import      (copy from /tmp/seed)
       tools/seedall.py run [ids..] (confirm + run the registered quick check(s); writes seeded/<id>/meta.json 'verification')"""
import sys, os, json, glob, shutil, subprocess
V = os.path.dirname(os.path.dirname(os.path.abspath(__file__)))
EXTRA = {'C03-10B': ['C03', 'C06', 'C01'], 'C16-10A': ['C16', 'C02'], 'C09-10B': ['C09', 'C01', 'C16'], 'C02-10B': ['C02', 'C14', 'C16'], 'C04-10A': ['C04', 'C13', 'C05'], 'C15-10B': ['C15', 'C16'], 'C16-10B': ['C16', 'C14'], 'C01-2A': ['C01', 'C15', 'C04'], 'C01-2B': ['C01', 'C16'], 'C03-2A': ['C03', 'C09'], 'C03-2B': ['C03', 'C06'], 'C05-2B': ['C05', 'C01'], 'C08-2A': ['C08', 'C07'],
         'C08-2B': ['C08', 'C11', 'C16', 'C01'], 'C07-2B': ['C07', 'C13'], 'C02-2A': ['C02', 'C16'], 'C02-2B': ['C02', 'C09'], 'C16-2A': ['C16', 'C15'], 'C16-2B': ['C16', 'C14', 'C01'],
         'C03-B': ['C03', 'C10', 'C16'], 'C02-B': ['C02', 'C05', 'C06'], 'C02-A': ['C02', 'C01'], 'C08-B': ['C08', 'C07'], 'C08-A': ['C08', 'C07'],
         'C10-A': ['C10', 'C16'], 'C06-B': ['C06'], 'C04-A': ['C04', 'C15'], 'C16-A': ['C16', 'C10'], 'C01-A': ['C01', 'C14'],
         'C02-3B': ['C02', 'C13'], 'C16-3B': ['C16', 'C01', 'C03'], 'C03-3A': ['C03', 'C16'], 'C04-3B': ['C04', 'C07'], 'C07-3B': ['C07', 'C04'], 'C08-3A': ['C08', 'C07'], 'C08-3B': ['C08', 'C07'],
         'C05-3A': ['C05', 'C13'], 'C06-3A': ['C06', 'C07'], 'C10-3A': ['C10', 'C15'], 'C01-3A': ['C01', 'C16'], 'C15-3B': ['C15', 'C13'], 'C04-3A': ['C04', 'C12'], 'C02-3A': ['C02', 'C10'],
         'C04-4A': ['C04', 'C14', 'C16'], 'C04-4B': ['C04', 'C13'], 'C16-4A': ['C16', 'C01'], 'C16-4B': ['C16', 'C12'], 'C05-4B': ['C05', 'C15'], 'C10-4A': ['C10', 'C14', 'C16'], 'C03-4B': ['C03', 'C06', 'C05'],
         'C05-4A': ['C05', 'C06'], 'C07-4B': ['C07', 'C08'], 'C08-4B': ['C08', 'C07'], 'C08-4A': ['C08', 'C07'], 'C09-4A': ['C09', 'C03'], 'C12-4A': ['C12', 'C16'], 'C13-4B': ['C13'], 'C01-4A': ['C01', 'C07', 'C08'], 'C01-4B': ['C01', 'C16', 'C02'], 'C02-4A': ['C02', 'C16', 'C01'], 'C02-4B': ['C02', 'C05'], 'C06-4A': ['C06'], 'C06-4B': ['C06', 'C05'], 'C01-5A': ['C01', 'C13', 'C02'], 'C01-5B': ['C01', 'C04', 'C16'], 'C02-5B': ['C02', 'C07'], 'C14-6B': ['C14', 'C12'], 'C04-6A': ['C04', 'C12'], 'C08-7A': ['C08', 'C05', 'C06'], 'C05-6B': ['C05', 'C15'], 'C08-6A': ['C08', 'C07'], 'C16-6A': ['C16', 'C15'], 'C16-6B': ['C16', 'C10']}
def sources():
    """(directory, seed id, property) of every candidate the sub-agents left under /tmp"""
    out = []
    for d in sorted(glob.glob('/tmp/seed/C??/[AB]')): out.append((d, '%s-%s' % (d.split('/')[3], d.split('/')[4]), d.split('/')[3]))
    for r, tag in (('/tmp/seed2', '2'), ('/tmp/seed3', '3'), ('/tmp/seed5', '4'), ('/tmp/seed6', '5'), ('/tmp/seed7', '6'), ('/tmp/seed8', '7'), ('/tmp/seed9', '8'), ('/tmp/seed10', '9'), ('/tmp/seed11', '10')):
        for d in sorted(glob.glob(r + '/C??/[AB]')):
            prop = d.split('/')[3]
            out.append((d, '%s-%s%s' % (prop, '4' if (prop == 'C18' and tag == '5') else '5' if (prop == 'C18' and tag == '6') else '6' if (prop == 'C18' and tag == '7') else '7' if (prop == 'C18' and tag == '8') else '8' if (prop == 'C18' and tag == '9') else '9' if (prop == 'C18' and tag == '10') else tag, d.split('/')[4]), prop))
    for x, tag in (('a', ''), ('b', '2'), ('c', '3')):
        for d in sorted(glob.glob('/tmp/seed4/C18%s/[AB]' % x)): out.append((d, 'C18-%s%s' % (tag, d.split('/')[4]), 'C18'))
    return out
def imp():
    for d, sid, prop in sources():
        if not all(os.path.exists(os.path.join(d, f)) for f in ('patch.diff', 'demo.py', 'meta.json')): continue
        out = os.path.join(V, 'seeded', sid)
        if os.path.exists(os.path.join(out, 'meta.json')): continue          # keep what earlier rounds recorded
        os.makedirs(out, exist_ok=True)
        for f in ('patch.diff', 'demo.py'):
            shutil.copy(os.path.join(d, f), os.path.join(out, f))
        meta = json.load(open(os.path.join(d, 'meta.json')))
        meta['seed_id'] = sid; meta['property'] = prop
        meta['origin'] = 'written by an independent sub-agent that saw only the property text and a scratch worktree'
        if os.path.exists(os.path.join(d, 'patch.orig.diff')):
            meta['note'] = 'patch re-based (git apply -3) onto the tree with the later fix: commits; original kept as patch.orig.diff'
            shutil.copy(os.path.join(d, 'patch.orig.diff'), os.path.join(out, 'patch.orig.diff'))
        json.dump(meta, open(os.path.join(out, 'meta.json'), 'w'), indent=1)
        print('imported', sid)
def run_one(out):
    if True:
        sid = os.path.basename(out)
        prop = sid.split('-')[0]
        props = EXTRA.get(sid, [prop])
        p = subprocess.run([os.path.join(V, 'tools', 'seedrun.py'), out, prop, '--props', ','.join(props), '--no-confirm', '--save-corpus'] if os.environ.get('SEED_FAST') else [os.path.join(V, 'tools', 'seedrun.py'), out, prop, '--props', ','.join(props), '--save-corpus'], stdout=subprocess.PIPE, stderr=subprocess.STDOUT, text=True)
        try:
            r = json.loads(p.stdout[p.stdout.index('{'):])
        except Exception:
            r = {'error': p.stdout[-500:]}
        meta = json.load(open(os.path.join(out, 'meta.json')))
        meta['verification'] = {'head_of_repo': subprocess.run('git -C /repo log --format=%h -1', shell=True, stdout=subprocess.PIPE, text=True).stdout.strip(),
                                'confirmed': r.get('confirmed', (meta.get('verification') or {}).get('confirmed')), 'confirm': r.get('confirm', (meta.get('verification') or {}).get('confirm')), 'caught': r.get('caught'),
                                'checks': {k: {'rc': v['rc'], 'wall_s': v['wall'], 'first_lines': v['lines'][:3]} for k, v in r.get('checks', {}).items()}, 'error': r.get('error')}
        json.dump(meta, open(os.path.join(out, 'meta.json'), 'w'), indent=1)
        print(sid, 'confirmed', r.get('confirmed'), 'caught-by', [k for k, v in r.get('checks', {}).items() if v['rc'] == 1], 'missed-by', [k for k, v in r.get('checks', {}).items() if v['rc'] != 1], flush=True)

def run(ids, jobs=8):
    from concurrent.futures import ThreadPoolExecutor
    outs = [o for o in sorted(glob.glob(os.path.join(V, 'seeded', '*'))) if not ids or os.path.basename(o) in ids]
    with ThreadPoolExecutor(max_workers=jobs) as ex:
        list(ex.map(run_one, outs))
if __name__ == '__main__':
    if sys.argv[1] == 'import': imp()
    else: run(sys.argv[2:])
