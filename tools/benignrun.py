#!/usr/bin/env python3
"""Run the registered quick checks against behaviour-preserving refactors (false-alarm measurement).

usage: tools/benignrun.py <dir-with-Cxx-X/patch.diff, normally /verif/benign> [ids..]   (BENIGN_ALSO=C01,C05 adds checks, BENIGN_SEEDS=0,1, BENIGN_JOBS=6)
Each patch is applied to a scratch worktree of /repo (under /tmp, removed afterwards); ./vcheck Cxx runs with VERIF_REPO pointing there.
Prints one line per patch: rc of the check for each seed and the first VIOLATION lines."""
import sys, os, subprocess, json, glob, tempfile, shutil
from concurrent.futures import ThreadPoolExecutor
V = os.path.dirname(os.path.dirname(os.path.abspath(__file__)))
def sh(cmd, cwd=None, timeout=7200):
    p = subprocess.run(cmd, shell=True, cwd=cwd, stdout=subprocess.PIPE, stderr=subprocess.STDOUT, text=True, timeout=timeout)
    return p.returncode, p.stdout
EXTRA = {}
def one(d):
    sid = os.path.basename(d); prop = sid.split('-')[0]
    wt = tempfile.mkdtemp(prefix='wt-benign-', dir='/tmp'); os.rmdir(wt)
    outdir = tempfile.mkdtemp(prefix='benout-', dir='/tmp')
    sh('git -C /repo worktree add --detach %s HEAD' % wt)
    res = {'id': sid, 'checks': {}}
    try:
        rc, o = sh('git apply %s' % os.path.join(d, 'patch.diff'), cwd=wt)
        if rc != 0: res['error'] = 'patch does not apply: ' + o[-200:]; return res
        files = sh('git diff --name-only', cwd=wt)[1].split()
        res['files'] = files
        for p in EXTRA.get(sid, [prop]) + [q for q in os.environ.get('BENIGN_ALSO', '').split(',') if q]:
            for seed in os.environ.get('BENIGN_SEEDS', '0,1').split(','):
                rc, o = sh('VERIF_SEED=%s VERIF_REPO=%s VERIF_OUT=%s ./vcheck %s --tier quick' % (seed, wt, outdir, p), cwd=V)
                lines = [l[:300] for l in o.split('\n') if l.startswith('VIOLATION') or 'predicate fails' in l or 'first disagreement' in l]
                res['checks']['%s/seed%s' % (p, seed)] = {'rc': rc, 'lines': lines[:4]}
    finally:
        sh('git -C /repo worktree remove --force %s' % wt); shutil.rmtree(wt, ignore_errors=True); shutil.rmtree(outdir, ignore_errors=True)
    print(sid, {k: v['rc'] for k, v in res['checks'].items()}, res.get('error', ''), flush=True)
    for k, v in res['checks'].items():
        for l in v['lines'][:2]: print('     ', k, l, flush=True)
    return res
if __name__ == '__main__':
    root = sys.argv[1]; ids = sys.argv[2:]
    ds = [d for d in sorted(glob.glob(os.path.join(root, 'C??-[AB]'))) if os.path.exists(os.path.join(d, 'patch.diff')) and (not ids or os.path.basename(d) in ids)]
    with ThreadPoolExecutor(max_workers=int(os.environ.get('BENIGN_JOBS', '6'))) as ex: out = list(ex.map(one, ds))
    json.dump(out, open(os.path.join(V, 'benign', 'results.json'), 'w'), indent=1)
