#!/bin/bash
# clean-tree sweep: every check, several seeds; prints one line per run and a summary.  usage: tools/sweep.sh [tier] [seeds...]
cd "$(dirname "$0")/.."
tier=${1:-quick}; shift
seeds=${@:-0 1 2}
bad=0
for c in C01 C02 C03 C04 C05 C06 C07 C08 C09 C10 C11 C12 C13 C14 C15 C16 C17 C18; do
  for s in $seeds; do
    out=$(VERIF_SEED=$s ./vcheck $c --tier $tier 2>&1); rc=$?
    echo "$out" | grep -E 'VIOLATION' ; echo "rc=$rc $(echo "$out" | tail -1)"
    [ $rc -ne 0 ] && bad=$((bad+1))
  done
done
echo "sweep done: non-zero exits = $bad"
