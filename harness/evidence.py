import json, os, time
from .paths import EVIDENCE, VERIF

TRUSTED = [
    "Lean 4.33 kernel; axioms propext, Classical.choice, Quot.sound only (audited on this run)",
    "Mathlib v4.33 as compiled in /opt/veriftools/mathlib4",
    "correspondence check (Python harness + Lean driver + comparator): differential testing, the only tie between model and code",
    "real-number idealisation: theorems are over R, the code runs IEEE doubles",
]

def write(prop, tier, seed, level, lean, ctx, wall, violations, extra_trusted=(), assumptions=(), known_seen=()):
    cov = {
        'obligations': lean['obligations'],
        'discharged': lean['discharged'],
        'checker_cmd': lean.get('checker_cmd', ''),
        'trusted_base': TRUSTED + list(extra_trusted),
        'theorems': lean['theorems'],
        'partial': lean['partial'],
        'lean_log': lean['log'],
        'lean_failed': lean['failed'],
        'evaluations': ctx.evaluations,
        'distinct_nontrivial': len(ctx.hashes),
        'rule': getattr(ctx, 'rule', ''),
        'samples': ctx.samples if ctx.samples else [{'note': 'no case generated'}],
        'traces_validated_against_impl': ctx.traces,
        'impl_predicate_evaluations': ctx.pred_evals,
        'validation_runs': ctx.validation_runs,
        'driver_lines': ctx._drv.lines if ctx._drv else 0,
        'input_distribution': dict(sorted(ctx.dist.items())),
        'disagreements': len(ctx.disagreements),
        'predicate_failures': len(ctx.pred_failures),
        'known_findings_seen': list(known_seen),
        'notes': ctx.notes,
    }
    ev = {'property_id': prop, 'tier': tier, 'seed': seed, 'level': level, 'coverage': cov,
          'assumptions': list(assumptions), 'wall_s': round(wall, 2), 'violations': violations}
    try:
        import jsonschema
        schema = json.load(open('/root/.vp/EVIDENCE.schema.json'))
        jsonschema.validate(ev, schema)
    except ImportError:
        pass
    except FileNotFoundError:
        pass
    os.makedirs(EVIDENCE, exist_ok=True)
    path = os.path.join(EVIDENCE, prop + '.json')
    with open(path + '.tmp', 'w') as f:
        json.dump(ev, f, indent=1, default=str)
    os.replace(path + '.tmp', path)
    return path
