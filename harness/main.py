"""./vcheck Cxx [--tier quick|thorough] [--replay file]

exit 0: property held on everything explored (known findings are printed, not alarms)
exit 1: VIOLATION line printed
exit 2: time-out / internal error of the machinery (never a verdict)
"""
import sys, os, json, time, importlib, traceback, glob, copy
sys.path.insert(0, os.path.dirname(os.path.dirname(os.path.abspath(__file__))))
from harness import paths, lean as leanmod, evidence
from harness.core import Ctx, Timeout, jhash

def load_known(prop):
    try:
        ks = json.load(open(paths.KNOWN))
    except FileNotFoundError:
        return []
    return [k for k in ks if k.get('property') == prop]

def write_replay(prop, kind, body):
    os.makedirs(paths.REPLAYS, exist_ok=True)
    name = '%s-%s-%s.json' % (prop, kind, jhash(body)[:10])
    path = os.path.join(paths.REPLAYS, name)
    body = dict(body)
    body.update({'property': prop, 'kind': kind,
                 'how_to_replay': './vcheck %s --replay replays/%s' % (prop, name)})
    with open(path, 'w') as f:
        json.dump(body, f, indent=1, default=str)
    return os.path.relpath(path, paths.VERIF)

def run_case(mod, ctx, suite, case):
    fn = mod.SUITES.get(suite)
    if fn is None:
        ctx.notes.append('unknown suite in corpus/replay: %s' % suite)
        return
    fn(ctx, case)

def shrink(mod, prop, failure, seed):
    """generic delta-debugging for cases carrying an `ops` list (or module-specific shrinker)"""
    if hasattr(mod, 'shrink'):
        try:
            return mod.shrink(failure)
        except Exception:
            return failure
    case = failure['case']
    if not (isinstance(case, dict) and isinstance(case.get('ops'), list)):
        return failure
    def fails(c):
        cx = Ctx(prop, 'quick', seed, 120)
        try:
            run_case(mod, cx, failure['suite'], c)
        except Exception:
            return None
        finally:
            cx.close()
        for f in cx.pred_failures:
            if f['key'] == failure['key']:
                return f
        return None
    best = failure
    changed = True
    rounds = 0
    while changed and rounds < 8:
        changed = False; rounds += 1
        ops = best['case']['ops']
        i = len(ops) - 1
        while i >= 0:
            c = copy.deepcopy(best['case']); del c['ops'][i]
            f = fails(c)
            if f is not None:
                best = f; best['shrunk_from'] = len(failure['case']['ops']); changed = True
            i -= 1
            if i >= len(best['case']['ops']):
                i = len(best['case']['ops']) - 1
    return best

def main():
    args = sys.argv[1:]
    if not args:
        print(__doc__); return 2
    prop = args[0]
    tier = os.environ.get('VERIF_TIER', 'quick')
    replay = None
    i = 1
    while i < len(args):
        if args[i] == '--tier': tier = args[i + 1]; i += 2
        elif args[i] == '--replay': replay = args[i + 1]; i += 2
        else: i += 1
    if tier not in ('quick', 'thorough'):
        tier = 'quick'
    seed = int(os.environ.get('VERIF_SEED', '0') or 0)
    t0 = time.time()
    os.chdir(paths.VERIF)
    mod = importlib.import_module('harness.props.' + prop)
    budget = getattr(mod, 'BUDGET', {}).get(tier, 900 if tier == 'quick' else 5400)
    # ---- (a) Lean stage
    try:
        lean = leanmod.lean_stage(prop, tier)
    except Exception as e:
        print('machinery error in Lean stage:', e); traceback.print_exc(); return 2
    print('[%s] lean: %d/%d obligations discharged (%s)' % (prop, lean['discharged'], lean['obligations'],
          '; '.join(lean['log'])))
    for f in lean['failed']:
        print('[%s] lean problem: %s' % (prop, f[:600]))
    if not os.path.exists(paths.DRIVER):
        print('driver binary missing: cannot run the correspondence'); return 2
    ctx = Ctx(prop, tier, seed, budget)
    ctx.rule = getattr(mod, 'RULE', '')
    known = load_known(prop)
    timed_out = False
    try:
        if replay:
            rp = json.load(open(replay))
            cases = rp.get('cases') or [{'suite': rp.get('suite'), 'case': rp.get('input')}]
            for c in cases:
                if c.get('suite'):
                    run_case(mod, ctx, c['suite'], c['case'])
        else:
            # known-finding witnesses and the corpus of past disagreements run first
            for k in known:
                w = k.get('witness')
                if w:
                    run_case(mod, ctx, w['suite'], w['case'])
            for f in sorted(glob.glob(os.path.join(paths.CORPUS, prop, '*.json'))):
                c = json.load(open(f))
                run_case(mod, ctx, c['suite'], c['case'])
            mod.generate(ctx)
    except Timeout:
        timed_out = True
        ctx.notes.append('hard time budget reached')
    except Exception as e:
        # the harness could not observe the implementation the way it can on the unchanged tree (an attribute is
        # missing, a call raises, a value has another type ...): the model/code tie is broken at this point
        tb = traceback.format_exc()
        print('harness exception while observing the implementation:', repr(e)); print(tb)
        ctx.disagreements.append({'suite': 'harness-exception', 'case': ctx.samples[-1]['case'] if ctx.samples else None,
                                  'what': 'the harness raised while driving/observing the implementation', 'diff': repr(e),
                                  'model': '', 'impl': tb[-1500:]})
    # ---- verdict
    open_keys = {k['key']: k for k in known if k.get('status') == 'open'}
    known_seen = {}
    new_fail = []
    for f in ctx.pred_failures:
        if f['key'] in open_keys:
            known_seen.setdefault(f['key'], f)
        else:
            new_fail.append(f)
    for key, f in known_seen.items():
        print('KNOWN-FINDING: property=%s %s [%s]' % (prop, open_keys[key]['what_fails'], key))
    rc = 0
    out_lines = []
    if new_fail:
        f = shrink(mod, prop, new_fail[0], seed)
        path = write_replay(prop, 'impl-violates-property',
                            {'suite': f['suite'], 'input': f['case'], 'what': f['what'], 'key': f['key'],
                             'detail': f.get('detail'), 'seed': seed, 'shrunk_from': f.get('shrunk_from'),
                             'other_failures': len(new_fail) - 1})
        out_lines.append('VIOLATION property=%s replay=%s' % (prop, path))
        print('[%s] property predicate fails on the implementation: %s' % (prop, f['what']))
        rc = 1
    elif ctx.disagreements or not lean['ok']:
        # model/code tie or a proof obligation is broken: search for a failing input
        kind = 'correspondence-broken' if ctx.disagreements else 'proof-broken'
        print('[%s] %s; searching for an input on which the property itself fails' % (prop, kind))
        found = None
        if not replay:
            sctx = Ctx(prop, 'thorough', seed + 7919, min(300 if tier == 'quick' else 1200, max(60, ctx.time_left())))
            sctx.rule = ctx.rule
            try:
                if hasattr(mod, 'search'):
                    mod.search(sctx, ctx.disagreements)
                else:
                    mod.generate(sctx)
            except Timeout:
                pass
            except Exception as e:
                ctx.notes.append('search error: %r' % (e,))
            finally:
                sctx.close()
            ctx.pred_evals += sctx.pred_evals
            for f in sctx.pred_failures:
                if f['key'] not in open_keys:
                    found = f; break
        if found:
            f = shrink(mod, prop, found, seed)
            path = write_replay(prop, 'impl-violates-property',
                                {'suite': f['suite'], 'input': f['case'], 'what': f['what'], 'key': f['key'],
                                 'detail': f.get('detail'), 'seed': seed, 'found_by': 'search after ' + kind})
            out_lines.append('VIOLATION property=%s replay=%s' % (prop, path))
        else:
            d = ctx.disagreements[0] if ctx.disagreements else None
            body = {'seed': seed, 'lean_failed': lean['failed'], 'theorems': lean['theorems'],
                    'note': 'the property is no longer shown to hold: ' +
                            ('model and implementation disagree' if d else 'a proof obligation no longer checks')}
            if d:
                body.update({'suite': d['suite'], 'input': d['case'], 'diff': d['diff'], 'what': d['what'],
                             'model': d['model'], 'impl': d['impl'],
                             'correspondence_suite': d['suite'], 'disagreements': len(ctx.disagreements)})
            path = write_replay(prop, kind, body)
            out_lines.append('VIOLATION property=%s replay=%s no-failing-input-found' % (prop, path))
            if d:
                print('[%s] first disagreement (%s): %s' % (prop, d['suite'], d['diff']))
        rc = 1
    elif timed_out and ctx.evaluations == 0:
        rc = 2
    ctx.close()
    wall = time.time() - t0
    try:
        evidence.write(prop, tier, seed, 'proof', lean, ctx, wall, 1 if rc == 1 else 0,
                       extra_trusted=getattr(mod, 'EXTRA_TRUSTED', ()),
                       assumptions=getattr(mod, 'ASSUMPTIONS', ()), known_seen=sorted(known_seen))
    except Exception as e:
        print('evidence could not be written:', repr(e)); traceback.print_exc()
        if rc == 0: rc = 2
    print('[%s] tier=%s seed=%d cases=%d distinct=%d corr=%d pred=%d disagreements=%d predfail=%d known=%d wall=%.1fs'
          % (prop, tier, seed, ctx.evaluations, len(ctx.hashes), ctx.traces, ctx.pred_evals,
             len(ctx.disagreements), len(ctx.pred_failures), len(known_seen), wall))
    for l in out_lines:
        print(l)
    return rc

if __name__ == '__main__':
    sys.exit(main())
