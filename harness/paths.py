import os
VERIF = os.path.dirname(os.path.dirname(os.path.abspath(__file__)))
REPO = os.environ.get('VERIF_REPO', '/repo')
LEAN = os.path.join(VERIF, 'lean')
DRIVER = os.path.join(LEAN, '.lake', 'build', 'bin', 'driver')
EVIDENCE = os.path.join(VERIF, 'evidence')
REPLAYS = os.path.join(VERIF, 'replays')
CORPUS = os.path.join(VERIF, 'corpus')
KNOWN = os.path.join(VERIF, 'known_findings.json')
