"""Shared by C01-C06, C16: random System descriptions, building them on the implementation,
and feeding the same description to the Lean driver.

A system description (`sd`) is plain JSON:
  {'n': rank, 'kT': float, 'dom': [L, dr] | None, 'dens': [..|None], 'diam': [..|None],
   'pairs': {'01': {'clo': [kind, hc] | None, 'pot': [kind, sigma|None, params...] | None,
                    'om': [kind, N, params...] | None}, ...}}      (keys 'ij' with i <= j)
"""
import math, json
from .implenv import np, pyPRISM
from .driver import f2h, fl, h2f
from pyPRISM.core.Space import Space

# deliberately NOT in alphabetical order and not single characters (a table that sorts or assumes 'A','B',.. shows up)
TYPES = ['poly', 'B', 'solvent', 'D4']
SPT = {Space.Real: 'R', Space.Fourier: 'F', Space.NonSpatial: 'N', None: 'N'}
SP = {'R': Space.Real, 'F': Space.Fourier, 'N': Space.NonSpatial}

# ----------------------------------------------------------------- building on the implementation
def mk_pot(spec):
    kind, sigma = spec[0], spec[1]; p = spec[2:]
    P = pyPRISM.potential
    if kind == 'hs': return P.HardSphere(sigma=sigma, high_value=p[0])
    if kind == 'exp': return P.Exponential(epsilon=p[0], alpha=p[1], sigma=sigma, high_value=p[2])
    if kind == 'lj': return P.LennardJones(epsilon=p[0], sigma=sigma)
    if kind == 'ljcut': return P.LennardJones(epsilon=p[0], sigma=sigma, rcut=p[1], shift=False)
    if kind == 'ljshift': return P.LennardJones(epsilon=p[0], sigma=sigma, rcut=p[1], shift=True)
    if kind == 'hclj': return P.HardCoreLennardJones(epsilon=p[0], sigma=sigma, high_value=p[1])
    if kind == 'wca': return P.WeeksChandlerAndersen(epsilon=p[0], sigma=sigma)
    raise ValueError(kind)

def mk_clo(spec):
    kind, hc = spec
    C = pyPRISM.closure
    # the class under its full name or under the short alias the package exports (pyPRISM.closure.PY, HNC, MSA, MS), alternating
    full = {'py': 'PercusYevick', 'hnc': 'HyperNettedChain', 'msa': 'MeanSphericalApproximation', 'ms': 'MartynovSarkisov'}[kind]
    cls = getattr(C, full if (_FLAG[0] // 2) % 2 else kind.upper())
    # the flag as user code produces it: a Python bool, or the numpy.bool_ that a comparison / np.any / np.all returns (alternating, deterministic)
    _FLAG[0] += 1
    if not hc and _FLAG[0] % 3 == 0: return cls()          # the documented default (no hard-core rule) by not passing the flag at all
    return cls(apply_hard_core=(bool(hc) if _FLAG[0] % 2 else np.bool_(bool(hc))))
_FLAG = [0]

def mk_om(spec, kgrid=None):
    kind, N = spec[0], spec[1]; p = spec[2:]
    O = pyPRISM.omega
    if kind == 'gauss': return O.Gaussian(sigma=p[0], length=N)
    if kind == 'fjc': return O.FreelyJointedChain(l=p[0], length=N)
    if kind == 'ring': return O.GaussianRing(sigma=p[0], length=N)
    if kind == 'single': return O.SingleSite()
    if kind == 'nointra': return O.NoIntra()
    if kind == 'arr': return O.FromArray(np.array(p, dtype=float))
    if kind == 'arr32': return O.FromArray(np.array(p, dtype=np.float32))          # a table kept in single precision (values are float32-representable)
    raise ValueError(kind)

def pairs_of(n):
    return [(i, j) for i in range(n) for j in range(i, n)]

def mk_domain(sd):
    """the Domain of a description: from dr, or the same grid configured through dk"""
    if sd.get('dom_from_dk'):
        return pyPRISM.Domain(length=sd['dom'][0], dk=math.pi / (sd['dom'][1] * sd['dom'][0]))
    return pyPRISM.Domain(length=sd['dom'][0], dr=sd['dom'][1])

def fresh(t):
    """an equal but NOT identical key object (labels parsed from a file, built with 'bead%d' % i ...)"""
    return (t + ' ')[:-1] if isinstance(t, str) else t

def scramble(obj):
    """the CALLER's object after it was assigned into a table: re-used for the next pair / the next study with other parameters.
    The table holds its own deep copy, so nothing of this may reach the System"""
    for attr in ('epsilon', 'alpha', 'high_value', 'rcut', 'sigma', 'length', 'N', 'l', 'lp'):
        v = getattr(obj, attr, None)
        if isinstance(v, (int, float)) and not isinstance(v, bool):
            try: setattr(obj, attr, type(v)(v * 3 + 1))
            except Exception: pass
    for attr in ('value', 'k'):
        v = getattr(obj, attr, None)
        if isinstance(v, np.ndarray) and v.dtype.kind == 'f' and v.flags.writeable:
            v[...] = -31.0

_KTPOS = [0]
def build_system(sd, types=None):
    n = sd['n']; types = list(types) if types is not None else TYPES[:n]
    kT = sd['kT']
    if sd.get('kT_type') and float(kT) == int(kT):
        kT = int(kT) if sd['kT_type'] == 'int' else getattr(np, sd['kT_type'])(int(kT))          # a whole-number temperature given as a Python / NumPy integer
    _KTPOS[0] += 1
    if sd.get('kT_assign'):
        s = pyPRISM.System(types, kT=sd['kT_assign']); s.kT = kT          # the documented attribute is (re-)assigned after construction (temperature sweeps)
    else:
        s = pyPRISM.System(types, kT) if _KTPOS[0] % 2 else pyPRISM.System(types, kT=kT)          # the documented signature System(types, kT=1.0): kT by position or by name, alternating
    if sd.get('dom') is not None:
        if sd.get('dom_from_dk'):
            s.domain = pyPRISM.Domain(length=sd['dom'][0], dk=math.pi / (sd['dom'][1] * sd['dom'][0]))      # the same grid, configured through dk
        else:
            s.domain = pyPRISM.Domain(length=sd['dom'][0], dr=sd['dom'][1])
    grp = [t for t, v in enumerate(sd['dens']) if v is not None and v == sd['dens'][0]] if sd.get('dens_group') else []
    for t in (sd.get('dens_order') or range(n)):
        v = sd['dens'][t]
        if v is not None and t not in grp[1:]: s.density[fresh(types[t])] = v
    if len(grp) >= 2: s.density[[types[t] for t in grp]] = sd['dens'][0]          # several types in ONE statement, as the last density assignment
    order = sd.get('diam_order') or list(range(n))
    for t in order:                                   # any assignment order, a type may be assigned again (the last value counts)
        if sd['diam'][t] is not None: s.diameter[fresh(types[t])] = sd['diam'][t]
    for t, v in enumerate(sd['diam']):
        if v is not None and t not in order: s.diameter[types[t]] = v
    for (i, j, v) in sd.get('sigma_override', []):
        s.diameter.sigma[types[i], types[j]] = v          # a non-additive contact distance written into the documented sigma table
    prs = [sd['pairs'].get('%d%d' % (i, j), {}) for (i, j) in pairs_of(n)]
    for key, mk, table in (('pot', mk_pot, s.potential), ('clo', mk_clo, s.closure), ('om', mk_om, s.omega)):
        specs = [pr.get(key) for pr in prs]
        if sd.get('group') and n >= 2 and specs[0] is not None and all(sp == specs[0] for sp in specs):
            # tutorial style: ONE object assigned to all pairs in one statement
            o_ = mk(specs[0]); table[types, types] = o_; scramble(o_)
        elif sd.get('share'):
            # ONE Python object per distinct specification, assigned pair by pair (U = HardSphere(); for a, b in pairs: sys.potential[a, b] = U)
            made = {}
            for (i, j), sp in zip(pairs_of(n), specs):
                if sp is None: continue
                key = json.dumps(sp)
                if key not in made: made[key] = mk(sp)
                table[types[i], types[j]] = made[key]
            for o_ in made.values(): scramble(o_)
        elif sd.get('setunset') and n >= 2 and specs[-1] is not None:
            # every pair that differs from the last specification is assigned explicitly, the rest is filled by setUnset
            for (i, j), sp in zip(pairs_of(n), specs):
                if sp is not None and sp != specs[-1]: o_ = mk(sp); table[types[i], types[j]] = o_; scramble(o_)
            if all(sp is not None for sp in specs): o_ = mk(specs[-1]); table.setUnset(o_); scramble(o_)
            else:
                for (i, j), sp in zip(pairs_of(n), specs):
                    if sp is not None and sp == specs[-1]: table[types[i], types[j]] = mk(sp)
        else:
            for (i, j), sp in zip(pairs_of(n), specs):
                if sp is None: continue
                if key == 'pot' and sd.get('late_sigma') and sp[1] is not None:
                    # the pair is first given the potential with ANOTHER contact distance; the stored object's documented attribute is then edited
                    # (sys.potential['A','B'].sigma = 1.25): the value at the time of createPRISM counts
                    o_ = mk([sp[0], sp[1] * 0.8] + list(sp[2:])); table[fresh(types[i]), fresh(types[j])] = o_; scramble(o_)
                    table[types[i], types[j]].sigma = sp[1]
                    continue
                o_ = mk(sp); table[fresh(types[i]), fresh(types[j])] = o_; scramble(o_)
    return s

def eff_dr(sd):
    """the real-space spacing the Domain of this description actually has: a Domain configured through dk derives dr = pi/(dk N),
    which can differ from the nominal dr by an ulp (and then so does every grid point)"""
    L, dr = sd['dom'][0], sd['dom'][1]
    if sd.get('dom_from_dk'):
        dk = math.pi / (dr * L)
        return float(np.pi / (dk * L))
    return dr

# ----------------------------------------------------------------- the same description for the model
def sys_lines(sd):
    n = sd['n']
    out = ['sys.new %d %s' % (n, f2h(sd['kT']))]
    out.append('sys.dom none' if sd.get('dom') is None else 'sys.dom %d %s' % (sd['dom'][0], f2h(eff_dr(sd))))
    for t, v in enumerate(sd['dens']):
        if v is not None: out.append('sys.dens %s %d' % (f2h(v), t))
    for t, v in enumerate(sd['diam']):
        if v is not None: out.append('sys.diam %s %d' % (f2h(v), t))
    for (i, j, v) in sd.get('sigma_override', []):
        out.append('sys.sigma %d %d %s' % (i, j, f2h(v)))
    for (i, j) in pairs_of(n):
        pr = sd['pairs'].get('%d%d' % (i, j), {})
        if pr.get('pot') is not None:
            sp = pr['pot']
            out.append('sys.pot %d %d %s %s %s' % (i, j, sp[0], 'N' if sp[1] is None else f2h(sp[1]), fl(sp[2:])))
        if pr.get('clo') is not None:
            out.append('sys.clo %d %d %s %d' % (i, j, pr['clo'][0], 1 if pr['clo'][1] else 0))
        if pr.get('om') is not None:
            so = pr['om']
            out.append('sys.om %d %d %s %d %s' % (i, j, 'arr' if so[0] == 'arr32' else so[0], so[1], fl(so[2:])))
    return out

def feed(drv, sd):
    for l in sys_lines(sd):
        r = drv.ask(l)
        assert r == 'ok', (l[:80], r)

# ----------------------------------------------------------------- canonical observations
def ma_tok(m):
    return '%s %d %d %s' % (SPT[m.space], m.length, m.rank, fl(m.data.reshape(-1)))

def state_tok(p):
    return 'om %s h %s c %s' % (ma_tok(p.omega), ma_tok(p.totalCorr), ma_tok(p.directCorr))

def wiring_tok(p):
    n = p.sys.rank; types = p.sys.types
    parts = []
    for (i, j) in pairs_of(n):
        c = p.sys.closure[types[i], types[j]]; U = p.sys.potential[types[i], types[j]]
        o = lambda v: 'N' if v is None else f2h(v)
        parts.append('P%d%d %s %s %s' % (i, j, o(getattr(c, 'sigma', None)), o(getattr(U, 'sigma', None)), 'N' if getattr(c, 'potential', None) is None else fl(c.potential)))
    return ' '.join(parts) + ' om ' + ma_tok(p.omega)

def cost_tok(p, y):
    return 'ok y %s c %s h %s gi %s go %s' % (fl(y), ma_tok(p.directCorr), ma_tok(p.totalCorr),
                                               fl(p.GammaIn.data.reshape(-1)), fl(p.GammaOut.data.reshape(-1)))

def err_tok(e):
    return 'ERR ValueError' if isinstance(e, ValueError) else 'ERR rejected'

def table_tok(t, n):
    types = TYPES[:n]; parts = []
    for i in range(n):
        for j in range(n):
            v = t[types[i], types[j]]
            if v is None: parts.append('N')
            else:
                a = np.atleast_1d(np.asarray(v, dtype=float))
                parts.append('[ %d %s ]' % (len(a), fl(a)))
    return 'table ' + ' '.join(parts)

def scales(tokline):
    """per-token absolute tolerances: each `[...]`/array group is compared relative to its own max"""
    return None

def group_atols(line, rtol):
    """absolute tolerance per token = rtol * (max |value| in the run of consecutive hex tokens it belongs to)"""
    toks = line.split(); at = [0.0] * len(toks)
    i = 0
    from .driver import is_hex
    while i < len(toks):
        if is_hex(toks[i]):
            j = i; m = 0.0
            while j < len(toks) and is_hex(toks[j]):
                v = h2f(toks[j])
                if math.isfinite(v): m = max(m, abs(v))
                j += 1
            for q in range(i, j): at[q] = rtol * m
            i = j
        else:
            i += 1
    return at

def wiring_atols(line, sd, k, rtol=1e-12):
    """group_atols plus, for the omega block, the conditioning of the closed forms: Gaussian / freely-jointed chains are evaluated as
    (1 - E^2 - 2E/N + 2E^(N+1)/N)/(1-E)^2, whose absolute rounding error is a few ulp / (1-E)^2 (finding F10); NumPy's and libm's
    sin/exp differ by an ulp, so model and implementation may differ by that much at small k l."""
    at = group_atols(line, rtol)
    toks = line.split()
    if 'om' not in toks: return at
    o = toks.index('om') + 4                      # om <space> <length> <rank> values...
    n = sd['n']; k = np.asarray(k, dtype=float)
    for (i, j) in pairs_of(n):
        om = sd['pairs']['%d%d' % (i, j)]['om']
        if om[0] not in ('gauss', 'fjc'): continue
        l = float(om[2]); x = k * l
        with np.errstate(all='ignore'):
            E = np.exp(-x * x / 6.0) if om[0] == 'gauss' else np.sin(x) / x
        rho = sd['dens'][i] if i == j else sd['dens'][i] + sd['dens'][j]
        extra = 4e-15 * abs(rho) / np.maximum((1.0 - E) ** 2, 1e-300)
        for q in range(len(k)):
            for (a, b) in ((i, j), (j, i)):
                t = o + q * n * n + a * n + b
                if t < len(at): at[t] += float(min(extra[q], 1e300))
    return at

# ----------------------------------------------------------------- generators
def grid_multiple(rng, dr, lo, hi):
    """a diameter that is a multiple of dr within [lo, hi]"""
    m = rng.randint(max(1, int(math.ceil(lo / dr))), max(1, int(hi / dr)))
    return m * dr

def gen_pot(rng, sigma_hint, soft_ok=True, explicit_sigma=0.25):
    kinds = ['hs', 'hs', 'exp', 'hclj', 'lj', 'ljcut', 'ljshift', 'wca'] if soft_ok else ['hs', 'hs', 'exp', 'hclj']
    kind = rng.choice(kinds)
    sig = float('%.6g' % (sigma_hint * rng.choice([1.0, 1.0, 0.9, 1.1]))) if rng.random() < explicit_sigma else None
    eps = float('%.4g' % rng.uniform(0.05, 1.2)) * rng.choice([1, 1, 1, -1])
    high = rng.choice([1e6, 1e6, 1e5, 1e7])
    if kind == 'hs': return [kind, sig, high]
    if kind == 'exp': return [kind, sig, eps, float('%.4g' % rng.uniform(0.3, 1.5)), high]
    if kind == 'lj': return [kind, sig, abs(eps)]
    if kind in ('ljcut', 'ljshift'): return [kind, sig, abs(eps), float('%.4g' % (sigma_hint * rng.uniform(1.5, 3.0)))]
    if kind == 'hclj': return [kind, sig, eps, high]
    return [kind, sig, abs(eps)]

def gen_clo(rng, pot_kind):
    kind = rng.choice(['py', 'py', 'hnc', 'hnc', 'msa', 'ms'])
    hard = pot_kind in ('hs', 'exp', 'hclj')
    if kind in ('msa', 'ms'):
        hc = True                      # documented not to work on divergent potentials without the flag
    else:
        hc = rng.random() < (0.5 if hard else 0.3)
    return [kind, hc]

def gen_om_diag(rng, L):
    c = rng.random()
    if c < 0.35: return ['single', 1]
    if c < 0.6: return ['gauss', rng.choice([2, 5, 10, 50, 100]), float('%.4g' % rng.uniform(0.6, 1.4))]
    if c < 0.75: return ['fjc', rng.choice([2, 5, 10, 40]), float('%.4g' % rng.uniform(0.6, 1.4))]
    if c < 0.85: return ['ring', rng.choice([3, 6, 20]), float('%.4g' % rng.uniform(0.6, 1.4))]
    vals = [float('%.6g' % (1.0 + 4.0 * math.exp(-0.5 * ((q + 1) / max(L, 1) * 6) ** 2) * rng.uniform(0.9, 1.1))) for q in range(L)]
    return ['arr', 0] + vals

def gen_om_off(rng, L):
    c = rng.random()
    if c < 0.6: return ['nointra', 0]
    if c < 0.8: return ['gauss', rng.choice([4, 10, 30]), float('%.4g' % rng.uniform(0.6, 1.4))]
    if c < 0.9:
        vals = [float('%.6g' % (0.5 * math.exp(-0.5 * ((q + 1) / max(L, 1) * 5) ** 2) * rng.uniform(0.9, 1.1))) for q in range(L)]
    else:
        # the cross term of two sites at a FIXED distance (a rigid bond): sin(kl)/(2kl), legitimately negative at some wavenumbers
        l = rng.uniform(0.8, 1.5); w = rng.uniform(8.0, 20.0)
        vals = [float('%.6g' % (0.5 * math.sin(w * (q + 1) / max(L, 1) * l) / (w * (q + 1) / max(L, 1) * l))) for q in range(L)]
    return ['arr', 0] + vals

def gen_system(rng, maxn=3, maxL=32, soft_ok=True, distinct=True):
    n = rng.randint(1, maxn)
    L = rng.choice([4, 6, 8, 12, 16, 20, 24, 32] + ([48, 64, 100, 128] if maxL > 32 else []))
    L = min(L, maxL)
    dr = rng.choice([0.1, 0.2, 0.25, 0.125, 0.15, 0.3])
    rmax = L * dr
    diam = [grid_multiple(rng, dr, 0.4, min(1.6, max(0.5, rmax / 2))) for _ in range(n)]
    eta = rng.uniform(0.02, 0.3)
    w = [rng.uniform(0.2, 1.0) for _ in range(n)]
    vol = sum(wi * math.pi * d ** 3 / 6 for wi, d in zip(w, diam))
    dens = [float('%.5g' % (wi * eta / vol)) for wi in w]
    sd = {'n': n, 'kT': rng.choice([1.0, 1.0, float('%.4g' % rng.uniform(0.5, 3.0))]), 'dom': [L, dr], 'dens': dens, 'diam': diam, 'pairs': {}}
    for (i, j) in pairs_of(n):
        sig = (diam[i] + diam[j]) / 2
        pot = gen_pot(rng, sig, soft_ok)
        sd['pairs']['%d%d' % (i, j)] = {'pot': pot, 'clo': gen_clo(rng, pot[0]),
                                        'om': gen_om_diag(rng, L) if i == j else gen_om_off(rng, L)}
    if n >= 2 and rng.random() < 0.2:
        t = rng.randrange(n); sd['dens'][t] = float('%.5g' % (sd['dens'][t] * rng.choice([1e-5, 3e-6])))      # one dilute component (a tracer / dilute nanocomposite); far smaller densities amplify rounding like eps/rho in h of that pair
    for key, pr in sd['pairs'].items():
        if pr['om'][0] == 'arr' and rng.random() < 0.35:
            pr['om'] = ['arr32', 0] + [float(np.float32(v)) for v in pr['om'][2:]]          # single-precision tables (PRISM.omega must still be double)
    if rng.random() < 0.12:
        sd['kT'] = float(rng.choice([2, 3, 1])); sd['kT_type'] = rng.choice(['int', 'int64', 'int32'])
    if rng.random() < 0.3: sd['kT_assign'] = rng.choice([1.0, 0.5, 3.0, sd['kT'] * 2])
    if rng.random() < 0.25: sd['dom_from_dk'] = True          # the same grid configured through dk
    if n >= 2 and rng.random() < 0.4:
        sd['diam_order'] = rng.sample(range(n), n) + ([0] if rng.random() < 0.5 else [])
    if n >= 2 and rng.random() < 0.25:
        k = rng.randint(2, n)
        for t in range(k): sd['dens'][t] = sd['dens'][0]
        sd['dens_group'] = True
    how = rng.random()
    if how > 0.7:
        sd['late_sigma'] = True          # explicit contact distances edited on the stored objects after assignment
        for (i, j) in pairs_of(n):
            pt = sd['pairs']['%d%d' % (i, j)]['pot']
            if pt[1] is None and rng.random() < 0.7: pt[1] = float('%.6g' % ((diam[i] + diam[j]) / 2 * rng.choice([1.0, 1.0, 0.9, 1.1])))
    if n >= 2 and how < 0.35:
        # the same sigma-less potential (and the same closure) for several pairs, reaching the tables as ONE object assigned pair by pair
        # or through setUnset: sigma must still come out per pair from the diameters
        p0 = sd['pairs']['00']['pot']; c0 = sd['pairs']['00']['clo']
        for (i, j) in pairs_of(n):
            if rng.random() < 0.8:
                sd['pairs']['%d%d' % (i, j)]['pot'] = [p0[0], None] + list(p0[2:]); sd['pairs']['%d%d' % (i, j)]['clo'] = list(c0)
        sd['share' if how < 0.2 else 'setunset'] = True
    return sd

def add_sigma_override(rng, sd):
    """a non-additive mixture: one cross contact distance written into the documented sigma table (diameter.sigma[a,b] = v) after the
    diameters were set.  Opt-in: only suites that take sigma from `pair_sigma` may use it."""
    n = sd['n']
    if n < 2: return sd
    i = rng.randrange(n - 1); j = rng.randrange(i + 1, n); dr = sd['dom'][1]
    sd['sigma_override'] = [[i, j, grid_multiple(rng, dr, 0.4, 1.8)]]
    return sd

def pair_sigma(sd, i, j):
    """the contact distance of pair (i, j) as the System holds it: the mean diameter unless the sigma table was overridden"""
    for (a, b, v) in sd.get('sigma_override', []):
        if (a, b) in ((i, j), (j, i)): return v
    return (sd['diam'][i] + sd['diam'][j]) / 2

def scale_length(sd, u):
    """the same system with every length multiplied by u (metres instead of reduced units ...): spacing, diameters, contact distances, ranges,
    cut-offs and bond lengths x u, number densities / u^3; tabulated omegas are per grid index and stay.  Dimensionless results are unchanged,
    real-space functions keep their values at the same grid index, cost(x u) = u cost(x)."""
    import copy
    out = copy.deepcopy(sd)
    if out.get('dom') is not None: out['dom'] = [sd['dom'][0], sd['dom'][1] * u]
    out['diam'] = [None if d is None else d * u for d in sd['diam']]
    out['dens'] = [None if v is None else v / u ** 3 for v in sd['dens']]
    for pr in out['pairs'].values():
        P = pr.get('pot')
        if P is not None:
            if P[1] is not None: P[1] = P[1] * u
            if P[0] == 'exp': P[3] = P[3] * u
            if P[0] in ('ljcut', 'ljshift'): P[3] = P[3] * u
        O = pr.get('om')
        if O is not None and O[0] in ('gauss', 'fjc', 'ring'): O[2] = O[2] * u
    if out.get('sigma_override'): out['sigma_override'] = [[i, j, v * u] for (i, j, v) in out['sigma_override']]
    out['lunit'] = u
    return out

def gen_x(rng, sd, kind=None):
    n = sd['n']; L = sd['dom'][0]
    kind = kind or rng.choice(['zero', 'small', 'moderate', 'moderate', 'asym'])
    rs = np.random.RandomState(rng.randrange(2 ** 31))
    r = (np.arange(1, L + 1) * sd['dom'][1]).reshape((-1, 1, 1))
    if kind == 'zero': g = np.zeros((L, n, n))
    else:
        amp = {'small': 0.05, 'moderate': 1.0, 'asym': 0.5}[kind]
        g = rs.normal(size=(L, n, n)) * amp * np.exp(-r / (0.4 * L * sd['dom'][1]))
        if kind != 'asym': g = (g + g.transpose(0, 2, 1)) / 2
    return [float(v) for v in (g * r).reshape(-1)]
