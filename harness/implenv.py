"""Import the real pyPRISM from the current working tree of the repository."""
import sys, os, warnings
from .paths import REPO
os.environ['PYPRISM_VERIF'] = '1'
sys.dont_write_bytecode = True
if REPO not in sys.path:
    sys.path.insert(0, REPO)
warnings.simplefilter('ignore')
import numpy as np
import pyPRISM
assert os.path.abspath(pyPRISM.__file__).startswith(os.path.abspath(REPO)), pyPRISM.__file__
