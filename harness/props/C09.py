"""C09 — Closures equal their definitions and respect core, limit and purity rules."""
import math
from ..implenv import np, pyPRISM
from ..driver import f2h, fl, h2f

RULE = ("every closure class and alias (8 names) x hard-core flag x sigma {on a grid point, between grid points, below/above the grid} x the real "
        "Domain.r grid (passed bit-exactly; ascending, or as reversed / strided views, or shuffled) x gamma families {normal, +-50 tails, zeros, tiny} x potential families {random finite, hard core 1e6, "
        "LJ-like, zero, tiny}; the returned array is compared with the Lean model (rtol 1e-12 on the scale of the data; the comparison r > sigma is bit-exact), "
        "the published relation is evaluated independently at every point, and purity probes run (inputs bit-identical after the call, second call identical, "
        "element-wise: index i unchanged when all other indices are replaced; default construction of classes and aliases; other closure objects with other sigmas configured in between); histories on ONE closure object whose potential/sigma are re-assigned or edited in place between calls. Non-trivial = at least one point in each branch or |gamma| > 5; "
        "distinct = distinct case")
EXTRA_TRUSTED = ["numpy's exp/sqrt vs libm's (Lean Float): agreement to 1e-12 relative is assumed and checked on every case",
                 "Martynov-Sarkisov: the model carries the shipped expression and the two published variants A (1983) and B (gamma*=gamma-u); "
                 "the correspondence accepts whichever the code follows, the predicate accepts A or B only"]
ASSUMPTIONS = ["finite gamma and potential arrays (the 1e6 hard-core value counts as finite)"]
CL = pyPRISM.closure
NAMES = {'PercusYevick': 'py', 'PY': 'py', 'HyperNettedChain': 'hnc', 'HNC': 'hnc',
         'MeanSphericalApproximation': 'msa', 'MSA': 'msa', 'MartynovSarkisov': 'ms', 'MS': 'ms'}

def published(kind, g, u):
    with np.errstate(all='ignore'):
        if kind == 'py': return [(np.exp(-u) - 1.0) * (1.0 + g)]
        if kind == 'hnc': return [np.exp(g - u) - 1.0 - g]
        if kind == 'msa': return [-u]
        return [np.exp(-u + np.sqrt(1 + 2 * g) - 1) - 1 - g, np.exp(np.sqrt(1 + 2 * (g - u)) - 1) - 1 - g]

def agree(a, b, scale):
    both_nan = np.isnan(a) & np.isnan(b)
    with np.errstate(all='ignore'):
        ok = (np.isfinite(a) & np.isfinite(b) & (np.abs(a - b) <= 1e-11 * (scale + np.abs(b)))) | both_nan | (a == b)
    return bool(np.all(ok))

def suite_eval(ctx, case):
    name = case['cls']; kind = NAMES[name]; hc = case['hc']
    r = np.array(case['r'], dtype=float); g = np.array(case['gamma'], dtype=float); u = np.array(case['u'], dtype=float)
    if case.get('uint'): u = np.rint(u).astype(int)          # an integer-TYPED potential array, e.g. a square well np.where(r < 1.5, -2, 0)
    if case.get('gint'): g = np.rint(g).astype(int)          # an integer-TYPED gamma (finding F19)
    sigma = case['sigma']
    if case.get('order') == 'reversed':
        # the same points as negatively strided views (r[::-1]): the relation is element-wise, no ordering of the grid is assumed
        r = r[::-1]; g = g[::-1]; u = u[::-1]
    elif case.get('order') == 'shuffled':
        pm = np.random.RandomState(case.get('probe', 0)).permutation(len(r)); r = r[pm]; g = g[pm]; u = u[pm]
    elif case.get('order') == 'strided':
        r = np.repeat(r, 2)[::2]; g = np.repeat(g, 2)[::2]; u = np.repeat(u, 2)[::2]
    c = getattr(CL, name)(hc) if case.get('positional') else getattr(CL, name)(apply_hard_core=hc)      # the flag is the first positional argument
    if case.get('default') and not hc: c = getattr(CL, name)()          # the documented default: no hard-core rule, for the class and for its alias alike
    c.sigma = sigma; c.potential = u
    if case.get('crowd'):
        # other closure objects alive and configured AFTER this one (every pair of a System has its own closure with its own sigma)
        crowd = [getattr(CL, nm)(apply_hard_core=True) for nm in ('PercusYevick', name, 'HNC', 'MSA', 'MartynovSarkisov')]
        for q, oc in enumerate(crowd): oc.sigma = sigma * (1.3 + 0.2 * q) + 0.07; oc.potential = np.full(len(r), 3.0 + q)
    r0, g0, u0 = r.copy(), g.copy(), u.copy()
    with np.errstate(all='ignore'):
        out = np.array(c.calculate(r, g), dtype=float).copy()
        out2 = np.array(c.calculate(r, g), dtype=float).copy()
    fin = out[np.isfinite(out)]
    scale = 1.0 + float(np.max(np.abs(g))) + (float(np.max(np.abs(fin))) if fin.size else 0.0)
    args = '%d %s | %s | %s | %s' % (1 if hc else 0, f2h(sigma), fl(r), fl(g), fl(u))
    impl = fl(out)
    if kind == 'ms':
        # accept whichever of {shipped, A, B} the code follows (a repair towards the literature must not alarm)
        for variant in ('ms', 'msB', 'msA'):
            m = ctx.drv.ask('clos %s %s' % (variant, args))
            from ..core import cmp_tokens
            if cmp_tokens(m, impl, 1e-12, 0.0, scale) is None: break
        else:
            m = ctx.drv.ask('clos ms ' + args)
        ctx.corr('eval', case, m, impl, rtol=1e-12, scale=scale, what='%s.calculate' % name)
        ctx.dist['ms-variant:' + variant] += 1
    else:
        ctx.corr('eval', case, ctx.drv.ask('clos %s %s' % (kind, args)), impl, rtol=1e-12, scale=scale, what='%s.calculate' % name)
    # ---- property predicate
    inside = ~(r > sigma) if hc else np.zeros(len(r), dtype=bool)
    ok = True; why = ''
    if hc and not np.array_equal(out[inside], (-1 - g)[inside]):
        ok = False; why = 'inside the core c != -1 - gamma'
    ctx.pred('eval', case, ok, '%s(hard core): %s' % (name, why), key='C09:core-branch')
    outs = ~inside
    pubs = published(kind, g, u)
    okp = any(agree(out[outs], p[outs], scale) for p in pubs)
    ctx.pred('eval', case, okp, '%s: outside the core the value differs from the published relation' % name,
             key='C09:ms-published-relation' if kind == 'ms' else 'C09:published-relation')
    # linearisation for weak potential / small gamma
    small = outs & (np.abs(g) <= 0.5) & (np.abs(u) <= 0.5)
    if np.any(small):
        K = {'py': 2.0, 'hnc': 2.0, 'msa': 0.0, 'ms': 4.0}[kind]
        with np.errstate(all='ignore'):
            lin = np.abs(out[small] + u[small]) <= K * (g[small] ** 2 + u[small] ** 2) + 1e-12
        ctx.pred('eval', case, bool(np.all(lin)), '%s does not reduce to c = -u + O(2): max |c+u| = %.3g at gamma,u ~ %.2g' %
                 (name, float(np.max(np.abs(out[small] + u[small]))), float(np.max(np.abs(g[small])))),
                 key='C09:ms-published-relation' if kind == 'ms' else 'C09:linearisation')
    # purity
    pure = np.array_equal(r, r0) and np.array_equal(g, g0) and np.array_equal(u, u0) and np.array_equal(c.potential, u0)
    same = np.array_equal(out, out2, equal_nan=True)
    ctx.pred('eval', case, pure and same, '%s modified its inputs or is not repeatable' % name, key='C09:purity')
    # element-wise: keep index i, replace everything else
    if len(r) > 1:
        i = case.get('probe', 0) % len(r)
        g2 = g + 0.37; u2 = u * 0.5 + 0.11
        g2[i] = g[i]; u2[i] = u[i]
        c2 = getattr(CL, name)(apply_hard_core=hc); c2.sigma = sigma; c2.potential = u2
        with np.errstate(all='ignore'):
            o3 = c2.calculate(r, g2)
        elt = (o3[i] == out[i]) or (np.isnan(o3[i]) and np.isnan(out[i]))
        ctx.pred('eval', case, bool(elt), '%s: value at index %d depends on other indices' % (name, i), key='C09:elementwise')

def suite_history(ctx, case):
    """ONE closure object used repeatedly while its attributes change between calls: re-assignment of .potential / .sigma,
    in-place edits of the potential array (a temperature sweep rescaling u), different gamma, different grids.  Every call must
    return the relation for the attributes as they are NOW (no state carried from earlier calls)."""
    name = case['cls']; kind = NAMES[name]; hc = case['hc']
    c = getattr(CL, name)(apply_hard_core=hc)
    r = np.array(case['r'], dtype=float); u = np.array(case['u'], dtype=float)
    c.sigma = case['sigma']; c.potential = u
    kept = []
    for step, (op, val) in enumerate(case['steps']):
        if op == 'flag':
            c.apply_hard_core = bool(val); hc = bool(val)          # the documented attribute is re-assigned on the live object
        elif op == 'assign_int': c.potential = np.array(val, dtype=int)
        elif op == 'scale_inplace':
            if c.potential.dtype.kind == 'i': c.potential = c.potential * val
            else: c.potential *= val
        elif op == 'set_inplace': c.potential[int(val[0]) % len(r):] = val[1]
        elif op == 'assign': c.potential = np.array(val, dtype=float)
        elif op == 'sigma': c.sigma = val
        elif op == 'fpe':
            # a diverged trial gamma under np.errstate(all='raise'): the caller catches the FloatingPointError and goes on with the same object
            try:
                with np.errstate(all='raise'):
                    c.calculate(r, np.full(len(r), float(val)))
            except FloatingPointError:
                pass
        g = np.array(case['gammas'][step], dtype=float)
        if case.get('feedback') and step > 0 and kept:
            g = kept[-1][0]                      # the array returned by the previous call is handed back as gamma (an iteration)
        gcopy = g.copy()
        ucur = np.array(c.potential, dtype=float).copy(); sig = c.sigma
        with np.errstate(all='ignore'):
            ret = c.calculate(r, g)
            out = np.array(ret, dtype=float).copy()
        sub = dict(case, steps=case['steps'][:step + 1])
        pure = np.array_equal(g, gcopy, equal_nan=True) and all(np.array_equal(a, b, equal_nan=True) for a, b in kept)
        ctx.pred('history', sub, pure, '%s: a call changed its gamma argument or an array returned by an earlier call' % name, key='C09:purity')
        kept.append((ret, out.copy()))
        g = gcopy
        fin = out[np.isfinite(out)]; gfin = g[np.isfinite(g)]
        scale = 1.0 + (float(np.max(np.abs(gfin))) if gfin.size else 0.0) + (float(np.max(np.abs(fin))) if fin.size else 0.0)
        if kind != 'ms':
            args = '%d %s | %s | %s | %s' % (1 if hc else 0, f2h(sig), fl(r), fl(g), fl(ucur))
            ctx.corr('history', sub, ctx.drv.ask('clos %s %s' % (kind, args)), fl(out), rtol=1e-12, scale=scale, what='%s.calculate after %s' % (name, op))
        inside = ~(r > sig) if hc else np.zeros(len(r), dtype=bool)
        okc = (not hc) or np.array_equal(out[inside], (-1 - g)[inside], equal_nan=True)
        pubs = published(kind, g, ucur)
        okp = any(agree(out[~inside], q[~inside], scale) for q in pubs)
        ctx.pred('history', sub, bool(okc) and (okp or kind == 'ms'), '%s: after %s on the same object the result is not the relation for the CURRENT potential/sigma' % (name, op),
                 key='C09:stateful')

SUITES = {'eval': suite_eval, 'history': suite_history}

def gen_case(rng, maxL):
    L = rng.choice([1, 2, 4, 8, 16, rng.randint(1, maxL)])
    dr = round(rng.choice([0.05, 0.1, 0.2, 0.25, rng.uniform(0.01, 0.5)]), 4)
    r = [float(x) for x in pyPRISM.Domain(length=L, dr=dr).r[:L]]
    sk = rng.choice(['grid', 'grid', 'between', 'below', 'above'])
    if sk == 'grid': sigma = r[rng.randrange(len(r))]
    elif sk == 'between': sigma = r[rng.randrange(len(r))] + dr * rng.uniform(0.1, 0.9)
    elif sk == 'below': sigma = r[0] * rng.uniform(0.1, 0.9)
    else: sigma = r[-1] * rng.uniform(1.1, 2.0)
    gk = rng.choice(['normal', 'normal', 'tails', 'zero', 'tiny'])
    if gk == 'normal': g = [rng.gauss(0, 1) for _ in r]
    elif gk == 'tails': g = [rng.choice([-50, 50, -20, 20, rng.gauss(0, 5)]) for _ in r]
    elif gk == 'zero': g = [0.0 for _ in r]
    else: g = [rng.gauss(0, 1e-3) for _ in r]
    uk = rng.choice(['random', 'hardcore', 'lj', 'zero', 'tiny', 'deepwell', 'infwall'])
    if uk == 'deepwell': u = [rng.choice([-800.0, -1000.0, -750.0]) if x <= sigma else rng.gauss(0, 0.5) for x in r]      # exp(-u) overflows inside the core only
    elif uk == 'infwall': u = [float('inf') if x <= sigma * rng.choice([1.0, 1.0, 1.3]) else rng.gauss(0, 0.5) for x in r]      # an infinitely high wall, also beyond the core
    elif uk == 'random': u = [rng.gauss(0, 2) for _ in r]
    elif uk == 'hardcore': u = [1e6 / rng.choice([0.5, 1.0, 2.0]) if x <= sigma else rng.gauss(0, 0.3) for x in r]
    elif uk == 'lj': u = [min(4 * ((1.0 / x) ** 12 - (1.0 / x) ** 6), 1e30) for x in r]
    elif uk == 'zero': u = [0.0 for _ in r]
    else: u = [rng.gauss(0, 1e-3) for _ in r]
    return {'cls': rng.choice(list(NAMES)), 'hc': rng.random() < 0.5, 'sigma': sigma, 'r': r, 'gamma': g, 'u': u,
            'probe': rng.randrange(1000), 'fam': [sk, gk, uk], 'default': rng.random() < 0.3, 'crowd': rng.random() < 0.5, 'order': rng.choice(['asc', 'asc', 'reversed', 'shuffled', 'strided']), 'uint': uk == 'random' and rng.random() < 0.3, 'positional': rng.random() < 0.3, 'gint': gk in ('normal', 'tails') and rng.random() < 0.15}

def gen_history(rng):
    base = gen_case(rng, 24)
    L = len(base['r'])
    steps = [['none', 0]]
    for _ in range(rng.randint(2, 5)):
        k = rng.choice(['scale_inplace', 'scale_inplace', 'set_inplace', 'assign', 'sigma', 'none', 'flag', 'flag', 'assign_int', 'fpe'])
        if k == 'scale_inplace': v = rng.choice([0.5, 2.0, 0.25, 1.7])
        elif k == 'set_inplace': v = [rng.randrange(L), rng.choice([0.0, 0.3, -0.2])]
        elif k == 'assign': v = [rng.gauss(0, 1) for _ in range(L)]
        elif k == 'assign_int': v = [rng.choice([-2, -1, 0, 0, 1, 3]) for _ in range(L)]
        elif k == 'flag': v = rng.random() < 0.5
        elif k == 'fpe': v = rng.choice([1e308, -1e308, 800.0, -1e200])
        elif k == 'sigma': v = base['r'][rng.randrange(L)] * rng.choice([1.0, 1.0, 1.3])
        else: v = 0
        steps.append([k, v])
    base['u'] = [x if abs(x) < 1e5 else 50.0 for x in base['u']]
    base['steps'] = steps
    base['gammas'] = [[rng.gauss(0, 1) for _ in range(L)] for _ in steps]
    base['feedback'] = rng.random() < 0.4
    return base

def generate(ctx):
    maxL = ctx.n(40, 300)
    for _ in range(ctx.n(150, 8000)):
        c = gen_history(ctx.rng)
        ctx.case('history', c, True, tags=['cls:' + c['cls'], 'hist:' + '+'.join(sorted(set(k for k, _ in c['steps'])))][:2])
        suite_history(ctx, c)
    for _ in range(ctx.n(1200, 60000)):
        c = gen_case(ctx.rng, maxL)
        inside = sum(1 for x in c['r'] if not x > c['sigma'])
        nontriv = (c['hc'] and 0 < inside < len(c['r'])) or max(abs(x) for x in c['gamma']) > 5
        ctx.case('eval', c, nontriv, tags=['cls:' + c['cls'], 'hc:%s' % c['hc'], 'sigma:' + c['fam'][0], 'gamma:' + c['fam'][1], 'u:' + c['fam'][2]])
        suite_eval(ctx, c)
