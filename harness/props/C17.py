"""C17 — UnitConverter conversions agree with SI constants and dimensional analysis."""
import math
from ..implenv import np, pyPRISM
from ..driver import f2h, fl, h2f
from pyPRISM.util.UnitConverter import UnitConverter

RULE = ("UnitConverters with random characteristic lengths / energies (many significant digits, magnitudes over 6 decades) in every accepted unit string {nanometer, angstrom, picometer, meter} x "
        "{kilojoule/mole, kilocalorie/mole, joule/mole, joule, electron_volt and other spellings pint accepts: kJ/mol, kJ*mol^-1, kilojoule*mole**-1, 'kJ per mol', MJ/kmol, kcal/mol, eV, J, millijoule}, SEVERAL converters alive in one process and used alternately; every documented method on scalars and arrays: must return a "
        "quantity, magnitude compared with the Lean formula model and with the textbook formula evaluated with the 2019 SI constants (rtol 1e-12), dimensionality of the result, linearity (affine for "
        "Celsius), element-wise on arrays. Non-trivial = all; distinct = distinct (converter, method, argument)")
EXTRA_TRUSTED = ["pint's unit algebra, registry and constants (compared numerically with the formula model on every run)", "2019 SI: k_B = 1.380649e-23 J/K, N_A = 6.02214076e23 /mol, e = 1.602176634e-19 C, 1 cal = 4.184 J"]
ASSUMPTIONS = ["finite numeric arguments (float, int or ndarray)"]
KB = 1.380649e-23; NA = 6.02214076e23
LEN = {'nanometer': 1e-9, 'angstrom': 1e-10, 'picometer': 1e-12, 'meter': 1.0}
EN = {'kilojoule/mole': (1e3, True), 'kilocalorie/mole': (4184.0, True), 'joule/mole': (1.0, True), 'joule': (1.0, False), 'electron_volt': (1.602176634e-19, False),
      # other spellings of the same units that pint accepts
      'kJ/mol': (1e3, True), 'kJ*mol^-1': (1e3, True), 'kilojoule*mole**-1': (1e3, True), 'kJ per mol': (1e3, True), 'MJ/kmol': (1e3, True), 'kcal/mol': (4184.0, True),
      'eV': (1.602176634e-19, False), 'J': (1.0, False), 'millijoule': (1e-3, False)}
LEN['nm'] = 1e-9
METHODS = ['toKelvin', 'toCelcius', 'toInvAngstrom', 'toInvNanometer', 'toConcentration', 'toVolumeFraction']

def si(conv):
    dcM = conv['dc'] * LEN[conv['dc_unit']]
    f, molar = EN[conv['ec_unit']]
    ecJ = conv['ec'] * f / (NA if molar else 1.0)
    return dcM, ecJ

def textbook(meth, conv, x, d=None):
    dcM, ecJ = si(conv); x = np.asarray(x, dtype=float)
    if meth == 'toKelvin': return x * ecJ / KB
    if meth == 'toCelcius': return x * ecJ / KB - 273.15
    if meth == 'toInvAngstrom': return x / (dcM * 1e10)
    if meth == 'toInvNanometer': return x / (dcM * 1e9)
    if meth == 'toConcentration': return x / ((dcM * 10.0) ** 3 * NA)
    if isinstance(d, list): d = np.array(d, dtype=float)[:x.size] if x.size > 1 else float(d[0])
    return x * math.pi * d ** 3 / 6.0

DIMS = {'toKelvin': '[temperature]', 'toCelcius': '[temperature]', 'toInvAngstrom': '1/[length]', 'toInvNanometer': '1/[length]',
        'toConcentration': '[substance]/[length]**3', 'toVolumeFraction': ''}
UNITS = {'toKelvin': 'kelvin', 'toCelcius': 'degree_Celsius', 'toInvAngstrom': '1 / angstrom', 'toInvNanometer': '1 / nanometer', 'toConcentration': 'mole / liter', 'toVolumeFraction': 'dimensionless'}

ARGNAME = {'toKelvin': 'temperature', 'toCelcius': 'temperature', 'toInvAngstrom': 'wavenumber', 'toInvNanometer': 'wavenumber', 'toConcentration': 'density', 'toVolumeFraction': 'density'}
def call(uc, meth, x, d, kw=False):
    """kw: call by the documented argument names (uc.toVolumeFraction(density=rho, diameter=d)) instead of positionally"""
    f = getattr(uc, meth)
    if meth != 'toVolumeFraction': return f(**{ARGNAME[meth]: x}) if kw else f(x)
    if isinstance(d, list): d = np.array(d, dtype=float)[:np.size(x)] if np.size(x) > 1 else float(d[0])          # one diameter per site type
    if kw == 'mixed': return f(x, diameter=d)
    return f(density=x, diameter=d) if kw else f(x, d)

def mag(q):
    return np.atleast_1d(np.asarray(q.magnitude if hasattr(q, 'magnitude') else q, dtype=float))

def suite_convert(ctx, case):
    convs = case['convs']
    def num(v, how):
        # characteristic values as they come out of an analysis: numpy scalars (array.mean(), array[i]) are numbers too
        return np.float64(v) if how == 'np' else np.array([v, v]).mean() if how == 'mean' else v
    def mk_uc(c):
        if c.get('positional'): return UnitConverter(num(c['dc'], c.get('numtype')), c['dc_unit'], 14.02, 'gram/mole', num(c['ec'], c.get('numtype')), c['ec_unit'])      # the documented positional order
        kw = dict(dc=num(c['dc'], c.get('numtype')), dc_unit=c['dc_unit'], ec=num(c['ec'], c.get('numtype')), ec_unit=c['ec_unit'])
        # arguments that equal the documented defaults (dc=1.0, 'nanometer', ec=2.48, 'kilojoule/mole') may be left out - one by one
        for key in c.get('omit', []): kw.pop(key)
        return UnitConverter(**kw)
    ucs = [mk_uc(c) for c in convs]
    drv = ctx.drv
    if case.get('rejected_first'):
        # every converter first sees calls that are rejected (a pint quantity of the wrong dimension, a string) and caught by the caller;
        # the valid calls that follow must be unaffected
        for uc in ucs:
            for bad in (lambda: uc.toKelvin(uc('2.48 kJ/mol')), lambda: uc.toCelcius(uc('1.5 nm')), lambda: uc.toInvAngstrom('abc'), lambda: uc.toVolumeFraction(uc('1 kJ/mol'), 1.0)):
                try: bad()
                except Exception: pass
    for cl in case['calls']:
        ci, meth, arg, d = cl[:4]; kw = cl[4] if len(cl) > 4 else False
        conv = convs[ci]; uc = ucs[ci]
        sub = dict(case, calls=[list(cl)])
        if isinstance(arg, list): x = np.array(arg, dtype=int) if (arg and all(isinstance(v, int) for v in arg)) else np.array(arg, dtype=float)
        else: x = arg if isinstance(arg, int) else float(arg)
        x_before = np.array(x, dtype=float).copy() if isinstance(x, np.ndarray) else None
        try:
            q = call(uc, meth, x, d, kw)
        except Exception as e:
            ctx.pred('convert', sub, False, '%s%s raised %s: %s' % (meth, ' called by argument name' if kw else '', type(e).__name__, str(e)[:100]), key='C17:raises:' + meth); continue
        if x_before is not None:
            ctx.pred('convert', sub, bool(np.array_equal(x, x_before)), '%s overwrote the array it was given' % meth, key='C17:purity')
            x = x_before.copy()
        isq = hasattr(q, 'magnitude') and hasattr(q, 'units')
        ctx.pred('convert', sub, isq, '%s did not return a quantity' % meth, key='C17:quantity')
        if not isq: continue
        m = mag(q); xs = np.atleast_1d(np.asarray(x, dtype=float))
        if xs.size == 0:
            # an empty selection (rho[rho > 1.0]) converts to an empty quantity
            ctx.pred('convert', sub, m.size == 0, '%s of an empty array returned %d values' % (meth, m.size), key='C17:elementwise'); continue
        dcM, ecJ = si(conv)
        if meth == 'toVolumeFraction':
            if isinstance(d, list): ml = ' '.join(drv.ask('uc.phi %s %s' % (f2h(dv), f2h(xv))) for dv, xv in zip((d[:xs.size] if xs.size > 1 else d[:1]), xs))
            else: ml = drv.ask('uc.phi %s %s' % (f2h(d), fl(xs)))
        else:
            code = {'toKelvin': 'K', 'toCelcius': 'C', 'toInvAngstrom': 'invA', 'toInvNanometer': 'invnm', 'toConcentration': 'conc'}[meth]
            ml = drv.ask('uc %s %s %s %s %s %s' % (code, f2h(dcM), f2h(ecJ), f2h(KB), f2h(NA), fl(xs)))
        atol = 1e-9 if meth == 'toCelcius' else 0.0
        ctx.corr('convert', sub, ml, fl(m), rtol=1e-12, atol=atol, what=meth + ' magnitude vs formula model')
        ref = np.atleast_1d(textbook(meth, conv, xs, d))
        ok = m.shape == ref.shape and bool(np.all(np.abs(m - ref) <= 1e-12 * np.abs(ref) + atol))
        ctx.pred('convert', sub, ok, '%s(%s) with dc=%r %s ec=%r %s: magnitude %r, textbook %r' % (meth, arg if not isinstance(arg, list) else 'array', conv['dc'], conv['dc_unit'], conv['ec'], conv['ec_unit'],
                 m[:2].tolist(), ref[:2].tolist()), key='C17:formula:' + meth)
        try:
            dim_ok = q.check(DIMS[meth]) if DIMS[meth] else q.dimensionless
            unit_ok = str(q.units) == UNITS[meth]
        except Exception:
            dim_ok = unit_ok = False
        ctx.pred('convert', sub, bool(dim_ok) and unit_ok, '%s returned units %s' % (meth, getattr(q, 'units', None)), key='C17:units:' + meth)
        # the SAME array object converted again after the caller changed it in place (a reused work buffer, k *= 2)
        if isinstance(x, np.ndarray) and x.dtype.kind == 'f' and x.size:
            try:
                buf = x.copy(); first = mag(call(uc, meth, buf, d)).copy()
                buf *= 2.0; buf[0] += 0.125
                second = mag(call(uc, meth, buf, d)); fresh = np.atleast_1d(textbook(meth, conv, buf.copy(), d))
                okb = second.shape == fresh.shape and bool(np.all(np.abs(second - fresh) <= 1e-12 * np.abs(fresh) + atol))
            except Exception as e:
                okb = False
            ctx.pred('convert', sub, okb, '%s: converting an array, changing it in place and converting it again returns the value of the OLD contents' % meth, key='C17:formula:' + meth)
        # 2-D tables of values in C order, Fortran order and as a transposed view: position by position the value of the flat conversion
        if xs.size >= 4 and not isinstance(d, list):
            n2 = (xs.size // 2) * 2; tab = xs[:n2].reshape(2, -1); want2 = m[:n2].reshape(2, -1)
            for nm_, arr_, w_ in (('column (n, 1)', xs.reshape(-1, 1).copy(), m.reshape(-1, 1)), ('row (1, n)', xs.reshape(1, -1).copy(), m.reshape(1, -1)), ('one-element array', xs[:1].copy(), m[:1]),
                                  ('C-ordered 2-D array', tab.copy(), want2), ('Fortran-ordered 2-D array', np.asfortranarray(tab), want2), ('transposed 2-D view', tab.T, want2.T), ('reversed view', xs[::-1], m[::-1])):
                try:
                    g_ = np.asarray(call(uc, meth, arr_, d).magnitude, dtype=float)
                    okl = g_.shape == w_.shape and bool(np.all(np.abs(g_ - w_) <= 1e-13 * np.abs(w_) + 1e-12))
                except Exception as e:
                    okl = False
                ctx.pred('convert', sub, okl, '%s of a %s is not the element-by-element conversion' % (meth, nm_), key='C17:elementwise')
        # linearity / affinity and element-wise behaviour
        a = case['a']; y = xs[::-1].copy() * 0.37 + 0.11
        try:
            if meth == 'toCelcius':
                lhs = mag(call(uc, meth, a * xs + (1 - a) * y, d)); rhs = a * mag(call(uc, meth, xs, d)) + (1 - a) * mag(call(uc, meth, y, d))
            else:
                lhs = mag(call(uc, meth, a * xs + y, d)); rhs = a * mag(call(uc, meth, xs, d)) + mag(call(uc, meth, y, d))
            sc = np.maximum(np.abs(rhs), np.abs(a) * np.abs(mag(call(uc, meth, xs, d))) + np.abs(mag(call(uc, meth, y, d)))) + 1e-300
            ctx.pred('convert', sub, bool(np.all(np.abs(lhs - rhs) <= 1e-11 * sc + 1e-9 * (meth == 'toCelcius'))), '%s is not %s' % (meth, 'affine' if meth == 'toCelcius' else 'linear'), key='C17:linear:' + meth)
            if xs.size > 1:
                each = np.array([mag(call(uc, meth, float(v), ([d[i]] if isinstance(d, list) else d)))[0] for i, v in enumerate(xs)])
                ctx.pred('convert', sub, bool(np.all(np.abs(each - m) <= 1e-13 * np.abs(m) + 1e-12)), '%s on an array differs from element-by-element conversion' % meth, key='C17:elementwise')
        except Exception as e:
            ctx.pred('convert', sub, False, '%s raised in the linearity probe: %r' % (meth, e), key='C17:raises:' + meth)

SUITES = {'convert': suite_convert}

def gen_conv(rng):
    digits = rng.choice([3, 6, 10, 12])
    if rng.random() < 0.25:
        # partially specified: some arguments are the documented defaults and are simply not passed
        c = {'dc': 1.0, 'dc_unit': 'nanometer', 'ec': 2.48, 'ec_unit': 'kilojoule/mole', 'numtype': None, 'positional': False}
        omit = rng.choice([['dc_unit'], ['dc'], ['ec_unit'], ['ec'], ['dc_unit', 'ec_unit'], ['dc', 'ec'], ['dc', 'dc_unit', 'ec'], ['dc_unit', 'ec']])
        if 'dc' not in omit: c['dc'] = float('%.6g' % (10 ** rng.uniform(-1, 1.5)))
        if 'dc_unit' not in omit: c['dc_unit'] = rng.choice(['angstrom', 'picometer', 'nanometer'])
        if 'ec' not in omit: c['ec'] = float('%.6g' % (10 ** rng.uniform(-1, 1)))
        if 'ec_unit' not in omit: c['ec_unit'] = rng.choice(['kilocalorie/mole', 'joule/mole', 'kJ/mol'])
        c['omit'] = omit
        return c
    return {'dc': float(('%%.%dg' % digits) % (10 ** rng.uniform(-1, 1.5))), 'dc_unit': rng.choice(list(LEN)[:3] if rng.random() < 0.9 else ['meter']),
            'ec': float(('%%.%dg' % digits) % (10 ** rng.uniform(-2, 2) * rng.choice([1.0, 2.4943387854]))), 'ec_unit': rng.choice(list(EN)),
            'numtype': rng.choice([None, None, 'np', 'mean']), 'positional': rng.random() < 0.3}

def generate(ctx):
    rng = ctx.rng
    base = [{'dc': 1.0, 'dc_unit': 'nanometer', 'ec': 2.48, 'ec_unit': 'kilojoule/mole'}]
    for q in range(ctx.n(60, 600)):
        convs = (base if q == 0 else []) + [gen_conv(rng) for _ in range(rng.randint(1, 3))]
        if convs[-1]['ec_unit'] == 'joule' : convs[-1]['ec'] = float('%.6g' % (convs[-1]['ec'] * 1e-21))
        if convs[-1]['dc_unit'] == 'meter': convs[-1]['dc'] = float('%.6g' % (convs[-1]['dc'] * 1e-9))
        for c in convs:
            if c['ec_unit'] in ('joule', 'J') and c['ec'] > 1e-15: c['ec'] = float('%.10g' % (c['ec'] * 1e-21))
            if c['ec_unit'] == 'millijoule' and c['ec'] > 1e-12: c['ec'] = float('%.10g' % (c['ec'] * 1e-18))
            if c['ec_unit'] in ('electron_volt', 'eV'): c['ec'] = float('%.10g' % (c['ec'] * 1e-2))
            if c['dc_unit'] == 'meter' and c['dc'] > 1e-3: c['dc'] = float('%.10g' % (c['dc'] * 1e-9))
        calls = []
        for _ in range(rng.randint(4, 10)):
            meth = rng.choice(METHODS)
            c0 = rng.random()
            if c0 < 0.03: arg = []                                                                # an empty selection
            elif c0 < 0.08: arg = rng.choice([0.0, 0, [0.0, 0.5, 1.0], [0, 1, 2]])                 # the boundary value 0 (a ramp np.linspace(0, 2, 5))
            elif c0 < 0.5: arg = float('%.8g' % (10 ** rng.uniform(-3, 2)))
            elif c0 < 0.6: arg = rng.randint(1, 40)                                              # a Python int
            elif c0 < 0.72: arg = [rng.randint(1, 40) for _ in range(rng.randint(2, 6))]          # an integer-typed array (np.arange(1, 5))
            else: arg = [float('%.8g' % (10 ** rng.uniform(-3, 2))) for _ in range(rng.randint(2, 6))]
            dd = float('%.6g' % rng.uniform(0.3, 3.0))
            if meth == 'toVolumeFraction' and rng.random() < 0.4: dd = rng.choice([0.0, [float('%.4g' % rng.uniform(0.3, 3.0)) for _ in range(6)]])
            calls.append([rng.randrange(len(convs)), meth, arg, dd, rng.choice([False, False, True, 'mixed'])])
        case = {'convs': convs, 'calls': calls, 'a': float('%.4g' % rng.uniform(-2, 3)), 'rejected_first': rng.random() < 0.4}
        ctx.case('convert', case, True, tags=['nconv:%d' % len(convs)] + ['m:' + c[1] for c in calls] + ['dcu:' + c['dc_unit'] for c in convs] + ['ecu:' + c['ec_unit'] for c in convs])
        suite_convert(ctx, case)
