"""C18 — Debyer omega equals the direct Debye sum for any thread / chunk count."""
import os, sys, tempfile, subprocess, shutil, atexit, importlib.util, ctypes, sysconfig, math
from ..implenv import np, pyPRISM
from ..driver import f2h, fl, h2f
from ..paths import REPO

RULE = ("the extension is BUILT FROM /repo's current Debyer.pyx on every run (cython + gcc -fopenmp into a scratch directory that is removed afterwards); "
        "_chunk(n, c) for every n in 0..40 x c in 0..n+4 compared EXACTLY with the Lean model (rows, refusal) and with 'the rows partition range(n) in order'; "
        "calculate() on random trajectories: 1-3 frames with their own boxes, 1-14 sites per selection, random molecule labels (not contiguous, several molecules, also shifted beyond the 32-bit range: 2^31, 2^32+5, -2^31-7, 1e12, 2^62), long trajectories of 129-300 frames each with its own box, label arrays and coordinates also as non-contiguous views, coordinates also in metres / 1e-10 m / 1e3 units with wavenumbers scaled inversely, "
        "self and cross correlations, coordinate families {wrapped into the box, centred, unwrapped random walks spanning several box lengths, collinear rods, "
        "coincident sites, separations of exactly half a box}, Domain length 2-8 from dk, num_chunks 1..n+3 (also more chunks than sites), OpenMP thread counts "
        "{1,2,3,4,8} set through libgomp; result compared with the Lean model executed on the same float32-rounded inputs and with an independent float64 "
        "Debye sum (delta_ab + C_ab <sum sin(k r)/(k r)>, nearest periodic image, sinc(0) = 1); tolerance = a float32 rounding-error bound computed from the "
        "terms themselves, never an absolute number; chunk-count, thread-count, repetition and site-order independence; (sequence) ONE Debyer object used for a loop of 2-6 calls with selections of different sizes (self and cross): every call compared with the model and the Debye sum of its own arguments. Non-trivial = more than one chunk with "
        "more than one thread; distinct = distinct case")
EXTRA_TRUSTED = ["cython/gcc/libgomp translate Debyer.pyx faithfully (the build runs on every check)",
                 "the OpenMP runtime itself (which thread runs which chunk, when) is outside the model; it is sampled with 1-8 threads and repetitions",
                 "float32 arithmetic of the implementation is compared with the double-precision model through a rounding-error bound, not bit for bit"]
ASSUMPTIONS = ["finite coordinates, positive box lengths, int64 molecule labels, at least one site in each selection"]
EPS32 = 2.0 ** -24

_state = {'mod': None, 'err': None, 'gomp': None}

def build():
    """cythonize + compile /repo's current Debyer.pyx into a scratch directory (as setup.py does: cythonize defaults, -fopenmp)"""
    if _state['mod'] is not None or _state['err'] is not None:
        return _state['mod']
    d = tempfile.mkdtemp(prefix='verif-debyer-')
    atexit.register(shutil.rmtree, d, True)
    try:
        shutil.copy(os.path.join(REPO, 'pyPRISM', 'trajectory', 'Debyer.pyx'), d)
        p = subprocess.run([sys.executable, '-m', 'cython', 'Debyer.pyx'], cwd=d, stdout=subprocess.PIPE, stderr=subprocess.STDOUT, text=True, timeout=600)
        if p.returncode != 0:
            errs = [l for l in p.stdout.splitlines() if l.startswith('Debyer.pyx:')]
            raise RuntimeError('cython: ' + '; '.join(errs[:3] or [p.stdout[-300:]]))
        so = os.path.join(d, 'Debyer' + sysconfig.get_config_var('EXT_SUFFIX'))
        cmd = ['gcc', '-O2', '-fPIC', '-shared', '-fopenmp', '-w', '-I' + np.get_include(), '-I' + sysconfig.get_paths()['include'], 'Debyer.c', '-o', so]
        p = subprocess.run(cmd, cwd=d, stdout=subprocess.PIPE, stderr=subprocess.STDOUT, text=True, timeout=900)
        if p.returncode != 0:
            raise RuntimeError('gcc: ' + p.stdout[-300:])
        spec = importlib.util.spec_from_file_location('Debyer', so)
        mod = importlib.util.module_from_spec(spec); spec.loader.exec_module(mod)
        _state['mod'] = mod
        try:
            _state['gomp'] = ctypes.CDLL('libgomp.so.1')
        except OSError:
            _state['gomp'] = None
    except Exception as e:
        _state['err'] = '%s: %s' % (type(e).__name__, str(e)[:400])
    return _state['mod']

def set_threads(n):
    if _state['gomp'] is not None:
        _state['gomp'].omp_set_num_threads(int(n))

def need_build(ctx, suite, case):
    mod = build()
    ctx.pred(suite, case, mod is not None, 'the Debyer extension cannot be built from the current Debyer.pyx, so the analyser returns nothing for any input (%s)' % _state['err'], key='C18:build')
    return mod

# ---------------------------------------------------------------- _chunk
def suite_chunk(ctx, case):
    mod = need_build(ctx, 'chunk', case)
    if mod is None: return
    n, c = case['n'], case['c']
    dom = pyPRISM.Domain(length=4, dk=0.5)
    try:
        d = mod.Debyer(domain=dom, nthreads=max(c, 1))
        rows = np.asarray(d._chunk(n, c))
        impl = ' '.join('%d %d' % (int(a), int(b)) for a, b in rows)
    except Exception:
        rows = None; impl = 'ERR rejected'
    ctx.corr('chunk', case, ctx.drv.ask('deb.chunk %d %d' % (n, c)), impl, what='_chunk(%d, %d)' % (n, c))
    if n >= 1 and c >= 1:
        ok = rows is not None and rows.shape == (c, 2)
        if ok:
            cover = [i for a, b in rows for i in range(int(a), int(b))]
            ok = cover == list(range(n))
        ctx.pred('chunk', case, ok, '_chunk(%d, %d) does not split range(%d) into consecutive pieces covering every index once: %s' % (n, c, n, impl[:80]), key='C18:chunk-partition')

# ---------------------------------------------------------------- calculate
def f32(a):
    return np.asarray(a, dtype=np.float32).astype(np.float64)

def reference(case):
    """independent float64 statement of the property, plus the float32 rounding-error bound of the shipped algorithm"""
    nb = case['nbins']; dk = float(np.float32(pyPRISM.Domain(length=nb, dk=case['dk']).dk))
    k = dk * np.arange(1, nb + 1)
    self_ = case['self']
    m1 = np.array(case['M1']); m2 = m1 if self_ else np.array(case['M2'])
    F = len(case['frames']); tot = len(m1) if self_ else len(m1) + len(m2)
    out = np.zeros(nb); bound = np.zeros(nb)
    for fr in case['frames']:
        L = f32(fr['L']); p1 = f32(fr['R1']).reshape(-1, 3); p2 = p1 if self_ else f32(fr['R2']).reshape(-1, 3)
        d = p1[:, None, :] - p2[None, :, :]
        dm = d - L * np.round(d / L)
        r = np.sqrt((dm ** 2).sum(-1))
        same = (m1[:, None] == m2[None, :])
        if self_:
            same = same & ~np.eye(len(m1), dtype=bool)
        d1 = (np.abs(d).sum(-1) + 3 * L.max())
        P = int(same.sum()) + 1
        for q, kk in enumerate(k):
            rr = np.where(r > 0, r, 1.0)
            s = np.where(r > 0, np.sin(kk * rr) / (kk * rr), 1.0)
            val = (s * same).sum() / tot
            out[q] += val + (1.0 if self_ else 0.0)
            t_abs = np.abs(kk * s)                               # |sin(kr)/r|
            per = 0.5 * kk * kk * (d1 + 3 * r) + kk + t_abs
            bound[q] += 4 * EPS32 * ((per * same).sum() + P * (t_abs * same).sum()) / (kk * tot) + 8 * EPS32 * (abs(val) + 1.0)
    return out / F, bound / F + 4 * EPS32 * (np.abs(out / F) + 1.0), k

def model_line(case):
    nb = case['nbins']; dk = float(np.float32(pyPRISM.Domain(length=nb, dk=case['dk']).dk))
    self_ = case['self']
    m1 = case['M1']; m2 = m1 if self_ else case['M2']
    parts = ['deb.calc %d %d %d %s %d %d %d' % (1 if self_ else 0, case['c'], nb, f2h(dk), len(case['frames']), len(m1), len(m2)),
             ' '.join(map(str, m1)), ' '.join(map(str, m2))]
    for fr in case['frames']:
        parts.append(fl(f32(fr['L'])) + ' ' + fl(f32(fr['R1'])) + ' ' + fl(f32(fr['R1'] if self_ else fr['R2'])))
    return ' | '.join(parts)

def run_impl(mod, case, c=None, threads=None, perm=None):
    nb = case['nbins']
    dom = pyPRISM.Domain(length=nb, dk=case['dk'])
    self_ = case['self']
    off = int(case.get('lab_off', 0))          # molecule labels are arbitrary 64-bit integers (hashed ids, chain*10**9 + i); only their equality matters
    m1 = np.array(case['M1'], dtype=np.int64) + np.int64(off); m2 = m1 if self_ else np.array(case['M2'], dtype=np.int64) + np.int64(off)
    ft = np.float32 if case.get('f32') else float          # trajectories are often stored in single precision
    p1 = np.array([np.array(fr['R1'], dtype=ft).reshape(-1, 3) for fr in case['frames']])
    p2 = p1 if self_ else np.array([np.array(fr['R2'], dtype=ft).reshape(-1, 3) for fr in case['frames']])
    box = np.array([fr['L'] for fr in case['frames']], dtype=ft)
    lv = case.get('lab_view')
    if lv and perm is None:
        # the label arrays as legal non-contiguous views: every second entry of a longer array, or a column of a per-site topology table
        def view(m, how):
            if how == 'stride2':
                big = np.empty(2 * len(m), dtype=np.int64); big[0::2] = m; big[1::2] = m[::-1] + 1; return big[0::2]
            tbl = np.empty((len(m), 3), dtype=np.int64); tbl[:, 0] = np.arange(len(m)); tbl[:, 1] = m; tbl[:, 2] = m[::-1] + 1; return tbl[:, 1]
        m1 = view(m1, lv); m2 = m1 if self_ else view(m2, lv)
        # and the coordinates as a view of a longer trajectory array (every second frame of a padded array)
        pad = np.zeros((2 * p1.shape[0],) + p1.shape[1:], dtype=p1.dtype); pad[0::2] = p1; pad[1::2] = 7.5; p1 = pad[0::2]
        if self_: p2 = p1
    if perm is not None:
        s1, s2 = perm
        p1 = p1[:, s1, :]; m1 = m1[s1]
        if self_: p2, m2 = p1, m1
        else: p2 = p2[:, s2, :]; m2 = m2[s2]
    set_threads(threads if threads is not None else case['threads'])
    d = mod.Debyer(domain=dom, nthreads=c if c is not None else case['c'])
    before = (p1.copy(), p2.copy(), m1.copy(), m2.copy(), box.copy())
    out = np.asarray(d.calculate(p1, p2, m1, m2, box, bool(self_)), dtype=float)
    pure = all(np.array_equal(a, b) for a, b in zip(before, (p1, p2, m1, m2, box)))
    return out, pure

def suite_calc(ctx, case):
    mod = need_build(ctx, 'calc', case)
    if mod is None: return
    ref, tol, k = reference(case)
    try:
        out, pure = run_impl(mod, case)
    except Exception as e:
        ctx.pred('calc', case, False, 'calculate raised %s: %s' % (type(e).__name__, str(e)[:120]), key='C18:raises'); return
    ctx.pred('calc', case, pure, 'calculate modified one of the arrays it was given', key='C18:purity')
    ml = ctx.drv.ask(model_line(case))
    ctx.corr('calc', case, ml, fl(out), atols=list(tol), what='calculate vs the Lean model on the same float32 inputs (tolerance = float32 rounding bound)')
    ok = out.shape == ref.shape and bool(np.all(np.abs(out - ref) <= tol))
    worst = int(np.argmax(np.abs(out - ref) - tol)) if out.shape == ref.shape else 0
    key = 'C18:debye-sum'
    if ok is False and case.get('fam') == 'unwrapped': key = 'C18:min-image-unwrapped'
    if ok is False and not np.all(np.isfinite(out)): key = 'C18:coincident-nan' if case.get('fam') == 'coincident' else 'C18:not-finite'
    ctx.pred('calc', case, ok, 'omega(k=%.4g) = %r, direct Debye sum %r (float32 rounding bound %.2g); %s, %d chunk(s), %d thread(s), family %s'
             % (k[worst], float(out[worst]) if out.shape == ref.shape else None, float(ref[worst]), tol[worst], 'self' if case['self'] else 'cross', case['c'], case['threads'], case.get('fam')), key=key)
    if not ok: return
    # independence of the number of chunks, of the number of threads, of repetition and of the order of the sites
    n1 = len(case['M1'])
    for c2 in case['alt_c']:
        for th in case['alt_threads']:
            o2, _ = run_impl(mod, case, c=c2, threads=th)
            ctx.pred('calc', case, o2.shape == out.shape and bool(np.all(np.abs(o2 - out) <= 2 * tol)),
                     'result depends on the split: %d chunk(s)/%d thread(s) gives %r, %d chunk(s)/%d thread(s) gives %r' % (case['c'], case['threads'], out[:2].tolist(), c2, th, o2[:2].tolist()),
                     key='C18:split-independence')
    o3, _ = run_impl(mod, case)
    ctx.pred('calc', case, bool(np.all(np.abs(o3 - out) <= 2 * tol)), 'the same call repeated gives another result', key='C18:repeatable')
    if not case['self']:
        # omega_ab = omega_ba: the two selections handed over in the other order (theorem cross_swap_symmetric)
        sw = dict(case, M1=case['M2'], M2=case['M1'], frames=[{'L': fr['L'], 'R1': fr['R2'], 'R2': fr['R1']} for fr in case['frames']])
        o5, _ = run_impl(mod, sw)
        ctx.pred('calc', case, o5.shape == out.shape and bool(np.all(np.abs(o5 - out) <= 2 * tol)), 'omega_ab differs from omega_ba (selections swapped): %r vs %r' % (out[:2].tolist(), o5[:2].tolist()),
                 key='C18:order-independence')
    rng = np.random.RandomState(case['pseed'])
    s1 = rng.permutation(n1); s2 = rng.permutation(len(case['M1'] if case['self'] else case['M2']))
    o4, _ = run_impl(mod, case, perm=(s1, s2))
    ctx.pred('calc', case, bool(np.all(np.abs(o4 - out) <= 2 * tol)), 'result depends on the order of the sites: %r vs %r' % (out[:2].tolist(), o4[:2].tolist()), key='C18:order-independence')

def suite_sequence(ctx, case):
    """ONE Debyer object used for a whole pair loop (omega_11, omega_12, omega_13, omega_22, ...): selections of different sizes,
    self and cross, one after the other; every call must be the Debye sum of ITS OWN arguments"""
    mod = need_build(ctx, 'sequence', case)
    if mod is None: return
    nb = case['nbins']
    dom = pyPRISM.Domain(length=nb, dk=case['dk'])
    set_threads(case['threads'])
    d = mod.Debyer(domain=dom, nthreads=case['c'])
    kept = []          # (array handed out, its values at that time, the arrays passed in, copies of them)
    for step, call in enumerate(case['calls']):
        sub = dict(case, calls=case['calls'][:step + 1])
        one = dict(call, nbins=nb, dk=case['dk'], c=case['c'], threads=case['threads'])
        ref, tol, k = reference(one)
        self_ = call['self']
        off = int(case.get('lab_off', 0))
        m1 = np.array(call['M1'], dtype=np.int64) + np.int64(off); m2 = m1 if self_ else np.array(call['M2'], dtype=np.int64) + np.int64(off)
        ft = np.float32 if case.get('f32') else float
        p1 = np.array([np.array(fr['R1'], dtype=ft).reshape(-1, 3) for fr in call['frames']])
        p2 = p1 if self_ else np.array([np.array(fr['R2'], dtype=ft).reshape(-1, 3) for fr in call['frames']])
        box = np.array([fr['L'] for fr in call['frames']], dtype=ft)
        given = (p1, p2, m1, m2, box); copies = tuple(a.copy() for a in given)
        try:
            ret = d.calculate(p1, p2, m1, m2, box, bool(self_))
            out = np.array(ret, dtype=float)
        except Exception as e:
            ctx.pred('sequence', sub, False, 'call #%d on one Debyer object raised %s: %s' % (step, type(e).__name__, str(e)[:100]), key='C18:raises'); return
        ctx.corr('sequence', sub, ctx.drv.ask(model_line(one)), fl(out), atols=list(tol), what='call #%d of one Debyer object vs the model' % step)
        ok = out.shape == ref.shape and bool(np.all(np.abs(out - ref) <= tol))
        ctx.pred('sequence', sub, ok, 'call #%d on one Debyer object (%s, %d x %d sites) is not the Debye sum of its own arguments: %r vs %r' %
                 (step, 'self' if self_ else 'cross', len(m1), len(m2), out[:2].tolist(), ref[:2].tolist()), key='C18:object-history')
        if not ok: return
        kept.append((ret, out.copy(), given, copies))
        # what was handed out earlier, and what was passed in, is not touched by later calls
        still = all(np.array_equal(np.asarray(r0, dtype=float), o0, equal_nan=True) for r0, o0, _, _ in kept)
        pure = all(np.array_equal(a, b) for _, _, g0, c0 in kept for a, b in zip(g0, c0))
        ctx.pred('sequence', sub, still, 'a result returned by an earlier call on the same Debyer object changed after call #%d' % step, key='C18:object-history')
        ctx.pred('sequence', sub, pure, 'an array passed to calculate was modified (call #%d)' % step, key='C18:purity')

SUITES = {'chunk': suite_chunk, 'calc': suite_calc, 'sequence': suite_sequence}

# ---------------------------------------------------------------- generators
def gen_positions(rng, fam, n, L):
    P = []
    if fam == 'wrapped':
        P = [[rng.uniform(0, L[x]) for x in range(3)] for _ in range(n)]
    elif fam == 'centred':
        P = [[rng.uniform(-L[x] / 2, L[x] / 2) for x in range(3)] for _ in range(n)]
    elif fam == 'unwrapped':
        p = [rng.uniform(0, L[x]) for x in range(3)]
        for _ in range(n):
            P.append(list(p)); p = [p[x] + rng.uniform(-1.2, 1.2) * L[x] for x in range(3)]
    elif fam == 'rod':
        ax = rng.randrange(3); step = rng.choice([1.0, 0.5, 0.37])
        P = [[(i * step if x == ax else 0.0) for x in range(3)] for i in range(n)]
    elif fam == 'coincident':
        base = [[rng.uniform(0, L[x]) for x in range(3)] for _ in range(max(1, n // 2))]
        P = [list(rng.choice(base)) for _ in range(n)]
    else:   # halfbox: separations of exactly half a box length along one axis
        ax = rng.randrange(3); o = [rng.choice([0.0, 1.0, 2.5]) for _ in range(3)]
        P = [[o[x] + (rng.choice([0, 1]) * L[x] / 2 if x == ax else rng.uniform(0, 0.4 * L[x])) for x in range(3)] for _ in range(n)]
    return [float('%.7g' % v) for p in P for v in p]

FAMS = ['wrapped', 'wrapped', 'centred', 'unwrapped', 'unwrapped', 'rod', 'coincident', 'halfbox']

LAB_OFF = [0, 0, 0, 2 ** 31, 2 ** 31 - 3, 2 ** 32 + 5, -2 ** 31 - 7, -2 ** 40, 10 ** 12, 2 ** 62]
def gen_calc(rng, big=False, many=False):
    self_ = rng.random() < 0.55
    n1 = rng.randint(1, 30 if big else 14); n2 = n1 if self_ else rng.randint(1, 30 if big else 14)
    if many: n1 = rng.randint(2, 5); n2 = n1 if self_ else rng.randint(2, 5)
    nmol = rng.randint(1, 4); labels = rng.sample(range(0, 50), nmol)
    M1 = [rng.choice(labels) for _ in range(n1)]
    M2 = M1 if self_ else [rng.choice(labels + ([77] if rng.random() < 0.2 else [])) for _ in range(n2)]
    fam = rng.choice(FAMS)
    if many: fam = rng.choice(['unwrapped', 'unwrapped', 'wrapped'])
    frames = []
    # many: a long constant-pressure trajectory (every frame has its own box)
    for _ in range(rng.choice([129, 130, 200, 257, 300]) if many else rng.randint(1, 3)):
        L = [float('%.6g' % rng.uniform(2.0, 20.0)) for _ in range(3)] if fam != 'rod' else [1000.0, 1000.0, 1000.0]
        if fam == 'halfbox': L = [float(rng.choice([2.0, 4.0, 8.0, 16.0])) for _ in range(3)]
        fr = {'L': L, 'R1': gen_positions(rng, fam, n1, L)}
        if not self_: fr['R2'] = gen_positions(rng, fam if rng.random() < 0.8 else 'wrapped', n2, L)
        frames.append(fr)
    c = rng.choice([1, 2, 3, 4, n1, n1 + 1, n1 + 3, max(1, n1 // 2), max(1, n1 - 1)])
    dk = float('%.5g' % (10 ** rng.uniform(-1.3, 0.5)))
    unit = rng.choice([1.0, 1.0, 1.0, 1e-9, 1e-10, 1e3])
    if unit != 1.0 and fam != 'rod':
        # the same configuration in other units of length (metres, angstrom-in-metres, picometres): coordinates and boxes x u, wavenumbers / u
        for fr in frames:
            for key in ('L', 'R1', 'R2'):
                if key in fr: fr[key] = [float('%.7g' % (v * unit)) for v in fr[key]]
        dk = float('%.5g' % (dk / unit))
    else: unit = 1.0
    return {'self': self_, 'unit': unit, 'lab_view': rng.choice([None, None, 'stride2', 'column']), 'M1': M1, 'M2': None if self_ else M2, 'frames': frames, 'fam': fam,
            'nbins': rng.randint(2, 3) if many else rng.randint(2, 8), 'dk': dk, 'lab_off': rng.choice(LAB_OFF),
            'c': c, 'threads': rng.choice([1, 2, 3, 4, 8]),
            'alt_c': sorted(set([1, rng.randint(1, n1 + 2), n1])), 'alt_threads': sorted(set([1, rng.choice([2, 3, 4, 8])])), 'pseed': rng.randrange(10 ** 6), 'f32': rng.random() < 0.3}

def generate(ctx):
    rng = ctx.rng
    for n in range(0, ctx.n(24, 41)):
        for c in range(0, n + 5):
            case = {'n': n, 'c': c}
            ctx.case('chunk', case, n >= 1 and c >= 2, tags=['chunks:' + ('0' if c == 0 else '1' if c == 1 else 'le-n' if c <= n else 'gt-n'), 'n:' + ('0' if n == 0 else 'pos')])
            suite_chunk(ctx, case)
    for q in range(ctx.n(40, 1200)):
        ctx.check_time()
        calls = []
        for _ in range(rng.randint(2, 6)):
            c1 = gen_calc(rng)
            calls.append({'self': c1['self'], 'M1': c1['M1'], 'M2': c1['M2'], 'frames': c1['frames'], 'fam': c1['fam']})
        if rng.random() < 0.5:
            # the usual pair loop over site types of different sizes: equal second selections, different first selections
            base = gen_calc(rng); base['self'] = False
            nB = rng.randint(2, 10); MB = [rng.choice([0, 1]) for _ in range(nB)]
            calls = []
            for nA in rng.sample(range(1, 16), 3):
                MA = [rng.choice([0, 1]) for _ in range(nA)]
                L = [10.0, 12.0, 9.0]
                fr = {'L': L, 'R1': gen_positions(rng, 'wrapped', nA, L), 'R2': gen_positions(rng, 'wrapped', nB, L)}
                calls.append({'self': False, 'M1': MA, 'M2': MB, 'frames': [fr], 'fam': 'wrapped'})
                calls.append({'self': True, 'M1': MA, 'M2': None, 'frames': [{'L': L, 'R1': fr['R1']}], 'fam': 'wrapped'})
        case = {'f32': rng.random() < 0.4, 'lab_off': rng.choice(LAB_OFF), 'calls': calls, 'nbins': rng.randint(2, 6), 'dk': float('%.5g' % (10 ** rng.uniform(-1.3, 0.5))), 'c': rng.choice([1, 2, 3, 4, 7]), 'threads': rng.choice([1, 2, 4])}
        ctx.case('sequence', case, True, tags=['sequence:%d' % len(calls), 'chunks:%d' % case['c']])
        suite_sequence(ctx, case)
    nmany = ctx.n(4, 24)
    for q in range(ctx.n(150, 8000) + nmany):
        ctx.check_time()
        case = gen_calc(rng, big=(ctx.tier != 'quick' and q % 3 == 0), many=q < nmany)
        ctx.case('calc', case, case['c'] > 1 and case['threads'] > 1,
                 tags=['fam:' + case['fam'], 'self' if case['self'] else 'cross', 'frames:%d' % len(case['frames']), 'threads:%d' % case['threads'],
                       'chunks:' + ('1' if case['c'] == 1 else 'gt-n' if case['c'] > len(case['M1']) else 'le-n'), 'mols:%d' % len(set(case['M1'])),
                       'labels:' + ('small' if case['lab_off'] == 0 else 'beyond-int32'), 'unit:%g' % case['unit'], 'label-array:%s' % (case['lab_view'] or 'contiguous')])
        suite_calc(ctx, case)
