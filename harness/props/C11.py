"""C11 — Analytic omega(k) models equal their defining pair sums and obey the sum rules."""
import math
from math import sqrt
from ..implenv import np, pyPRISM
from ..driver import f2h, fl, h2f

RULE = ("every shipped omega class and alias x chain length N (2..200 quick, ..10^4 thorough for the closed forms; Koyama <= 60, NFJC <= 12/30) x parameters in the "
        "documented range x k on a log grid 1e-4..1e3 AND every k of random Domains (from dr and from dk, incl. dk = 0.1 = NFJC quadrature nodes); the implementation "
        "is compared with the Lean model (closed form and ring loop; Koyama with the implementation's own kernel parameters) and, as the property predicate, with the "
        "defining pair sum evaluated in long double from the model's own w_tau(k), plus finiteness, <= N, k->0 / k->inf limits, element-wise, object history (same object, second grid) and input purity probes (single-k and "
        "permuted evaluation, bitwise) and ValueError for invalid Koyama parameters. Non-trivial = N >= 3 and k spans both sides of k*Rg = 1; distinct = distinct case")
EXTRA_TRUSTED = ["DiscreteKoyama: moment closed forms (kernel_base) and the bending-energy root solve are taken from the implementation as parameters B_tau, A^2_tau",
                 "NFJC: the quadrature values omega_tau(k) are not modelled; only finiteness, limits, <= N and element-wise evaluation are checked on the implementation"]
ASSUMPTIONS = ["k > 0; documented parameter ranges (Koyama: l > sigma/2, lp >= lp_min); NFJC with l = 1 (its documented unit)"]
O = pyPRISM.omega
LD = np.longdouble

def pair_sum_from_w(N, w):
    """1 + (2/N) sum_{tau=1}^{N-1} (N-tau) w_tau ; w: array (N-1, nk) in long double"""
    tau = np.arange(1, N, dtype=LD).reshape((-1, 1))
    return 1 + (2 / LD(N)) * np.sum((N - tau) * w, axis=0)

def chain_pair_sum(N, E):
    E = E.astype(LD)
    if N <= 4000:
        tau = np.arange(1, N, dtype=LD).reshape((-1, 1))
        return pair_sum_from_w(N, E.reshape((1, -1)) ** tau)
    out = []
    for e in E:
        tau = np.arange(1, N, dtype=LD)
        out.append(1 + (2 / LD(N)) * np.sum((N - tau) * e ** tau))
    return np.array(out, dtype=LD)

def judge(ctx, case, name, N, val, ref, condE=None):
    """property predicate for one evaluation; ref = defining pair sum (long double) or None"""
    ok_fin = bool(np.all(np.isfinite(val)))
    ctx.pred('eval', case, ok_fin, '%s(N=%d): non-finite omega(k)' % (name, N), key='C11:finite')
    if not ok_fin: return
    if ref is not None:
        err = np.abs(val.astype(LD) - ref)
        bad = err > 1e-9 * N
        if np.any(bad):
            i = int(np.argmax(err))
            # cancellation region of the closed form: (1-E)^2 ~ rounding of the O(1) numerator
            canc = condE is not None and bool(np.all(err[bad] <= 1e-14 / np.maximum((1 - condE[bad]) ** 2, 1e-300)))
            ctx.pred('eval', case, False, '%s(N=%d): omega(k=%.3g) = %.10g but the defining pair sum is %.10g' %
                     (name, N, float(case['k'][i]), float(val[i]), float(ref[i])),
                     key='C11:closed-form-cancellation' if canc else 'C11:pair-sum')
        else:
            ctx.pred('eval', case, True, '', key='C11:pair-sum')
    over = val > N * (1 + 1e-9)
    if np.any(over):
        canc = condE is not None and bool(np.all((val[over] - N) <= 1e-14 / np.maximum(np.array((1 - condE[over]) ** 2, dtype=float), 1e-300)))
        ctx.pred('eval', case, False, '%s(N=%d): omega = %.10g exceeds N at k = %.3g' % (name, N, float(np.max(val)), float(np.array(case['k'])[over][0])),
                 key='C11:closed-form-cancellation' if canc else 'C11:exceeds-N')
    else:
        ctx.pred('eval', case, True, '', key='C11:exceeds-N')

def elementwise(ctx, case, name, make):
    k = np.array(case['k'], dtype=float)
    full = np.array(make().calculate(k.copy()), dtype=float).copy()
    idx = [0, len(k) // 2, len(k) - 1]
    ok = True
    for i in idx:
        one = np.array(make().calculate(np.array([k[i]])), dtype=float)
        if not (one[0] == full[i] or (np.isnan(one[0]) and np.isnan(full[i]))): ok = False
    perm = np.array(make().calculate(k[::-1].copy()), dtype=float)[::-1]
    if not np.array_equal(perm, full, equal_nan=True): ok = False
    ctx.pred('eval', case, ok, '%s: value at one k depends on the other k in the array' % name, key='C11:elementwise')
    # ONE object evaluated on a second grid of the same shape and the same end points (nothing may be remembered), and purity
    if len(k) >= 3:
        obj = make()
        with np.errstate(all='ignore'):
            ret1 = obj.calculate(k.copy())
            first = np.array(ret1, dtype=float)
            k2 = k.copy(); k2[1:-1] = k2[1:-1] * 0.5 + 0.5 * k2[0]
            second = np.array(obj.calculate(k2.copy()), dtype=float)
            # the array handed out by the FIRST call still holds omega on the first grid
            ctx.pred('eval', case, bool(np.array_equal(np.asarray(ret1, dtype=float), first, equal_nan=True)), '%s: the array returned by an earlier calculate() was overwritten by a later call on the same object' % name, key='C11:stateful')
            fresh2 = np.array(make().calculate(k2.copy()), dtype=float)
            again = np.array(obj.calculate(k.copy()), dtype=float)
        okh = np.array_equal(second, fresh2, equal_nan=True) and np.array_equal(again, first, equal_nan=True) and np.array_equal(first, full, equal_nan=True)
        ctx.pred('eval', case, okh, '%s: a second evaluation of the same object on another grid of the same shape/end points differs from a fresh object' % name, key='C11:stateful')
    kk = k.copy(); kk0 = kk.copy()
    with np.errstate(all='ignore'):
        make().calculate(kk)
    ctx.pred('eval', case, np.array_equal(kk, kk0), '%s.calculate modified the wavenumber array it was given (e.g. Domain.k)' % name, key='C11:purity')

def suite_eval(ctx, case):
    name = case['cls']; N = case.get('N', 1); k = np.array(case['k'], dtype=float); p = case.get('p', {})
    drv = ctx.drv
    if name in ('Gaussian', 'FreelyJointedChain', 'FJC'):
        if name == 'Gaussian':
            make = lambda: O.Gaussian(sigma=p['sigma'], length=N); E = np.exp(-k * k * p['sigma'] ** 2 / 6.0); tag = 'gauss'; par = p['sigma']
            El = np.exp(-(k.astype(LD) ** 2) * LD(p['sigma']) ** 2 / 6)
        else:
            make = lambda: getattr(O, name)(length=N, l=p['l']); E = np.sin(k * p['l']) / (k * p['l']); tag = 'fjc'; par = p['l']
            kl = k.astype(LD) * LD(p['l']); El = np.sin(kl) / kl
        with np.errstate(all='ignore'):
            val = np.array(make().calculate(k.copy()), dtype=float)
        atols = [3e-15 / max((1 - e) ** 2, 1e-300) for e in E]
        m = drv.ask('om %s %d %s | %s' % (tag, N, f2h(par), fl(k)))
        ctx.corr('eval', case, m, fl(val), rtol=1e-11, atols=atols, what=name + '.calculate (closed form)')
        if N <= 60 and len(k) <= 40:
            ms = drv.ask('om %s.sum %d %s | %s' % (tag, N, f2h(par), fl(k)))
            ref_m = np.array([h2f(t) for t in ms.split()])
            ctx.corr('eval', case, ms, fl(np.array(chain_pair_sum(N, El), dtype=float)), rtol=1e-10, what='model pair sum vs long-double pair sum')
        judge(ctx, case, name, N, val, chain_pair_sum(N, El), condE=El)
        elementwise(ctx, case, name, make)
    elif name == 'GaussianRing':
        make = lambda: O.GaussianRing(sigma=p['sigma'], length=N)
        val = np.array(make().calculate(k.copy()), dtype=float)
        ctx.corr('eval', case, drv.ask('om ring %d %s | %s' % (N, f2h(p['sigma']), fl(k))), fl(val), rtol=1e-11, what='GaussianRing.calculate')
        kk = (k.astype(LD) ** 2) * LD(p['sigma']) ** 2
        t = np.arange(0, N, dtype=LD).reshape((-1, 1))
        w = np.exp(-kk.reshape((1, -1)) * t * (N - t) / (6 * LD(N)))          # w_0 .. w_{N-1}
        # defining double sum (1/N) sum_ij w_|i-j| = w_0 + (2/N) sum_{t>=1} (N-t) w_t
        ref = w[0] + (2 / LD(N)) * np.sum((N - t[1:]) * w[1:], axis=0) if N > 1 else w[0]
        if N <= 40 and len(k) <= 40:
            ctx.corr('eval', case, drv.ask('om ring.sum %d %s | %s' % (N, f2h(p['sigma']), fl(k))), fl(np.array(ref, dtype=float)), rtol=1e-10, what='model ring pair sum')
        judge(ctx, case, name, N, val, ref)
        elementwise(ctx, case, name, make)
    elif name in ('SingleSite', 'NoIntra', 'InterMolecular'):
        make = lambda: getattr(O, name)()
        val = np.array(make().calculate(k.copy()), dtype=float)
        ctx.corr('eval', case, drv.ask('om %s 1 0 | %s' % ('single' if name == 'SingleSite' else 'nointra', fl(k))), fl(val), what=name)
        ctx.pred('eval', case, bool(np.all(val == (1.0 if name == 'SingleSite' else 0.0))) and val.shape == k.shape, name + ' is not the constant', key='C11:constant')
    elif name == 'DiscreteKoyama':
        make = lambda: O.DiscreteKoyama(sigma=p['sigma'], l=p['l'], length=N, lp=p['lp'])
        # constructor decision (ValueError iff l <= sigma/2 or lp < lp_min) and which branch computes the bending energy
        try:
            o0 = make(); ctor = 'true'
            lpmin = o0.lp_min
        except ValueError:
            ctor = 'false'; lpmin = None
        except Exception as e:
            ctor = 'raised:' + type(e).__name__; lpmin = None
        mc = drv.ask('koyama.ctor %s %s %s' % (f2h(p['sigma']), f2h(p['l']), f2h(p['lp']))).split()
        lpmin_py = 4.0 * p['l'] ** 3 / (4.0 * p['l'] ** 2 - p['sigma'] ** 2) if p['l'] > p['sigma'] / 2.0 else None
        # lp equal to lp_min to within rounding: which side of the strict comparison it falls on is rounding, not the property
        edge = (lpmin is not None and abs(p['lp'] - lpmin) <= 1e-12 * lpmin) or (lpmin_py is not None and abs(p['lp'] - lpmin_py) <= 1e-12 * lpmin_py)
        if not edge:
            ctx.corr('eval', case, mc[0], ctor, what='DiscreteKoyama constructor accepts / ValueError')
        want = (p['l'] > p['sigma'] / 2.0) and (p['lp'] >= 4.0 * p['l'] ** 3 / (4.0 * p['l'] ** 2 - p['sigma'] ** 2) * (1 - 1e-12))
        ctx.pred('eval', case, (ctor == 'true') == want or edge, 'DiscreteKoyama(sigma=%r, l=%r, lp=%r): constructor outcome %s' % (p['sigma'], p['l'], p['lp'], ctor), key='C11:koyama-reject')
        if ctor != 'true' and not case.get('invalid'):
            ctx.dist['koyama:rejected-at-the-rounding-edge' if edge else 'koyama:rejected'] += 1; return
        if case.get('invalid'):
            try:
                make(); r = 'accepted'
            except ValueError:
                r = 'ValueError'
            except Exception as e:
                r = type(e).__name__
            ctx.pred('eval', case, r == 'ValueError', 'DiscreteKoyama(%s) with overlapping neighbours: %s' % (p, r), key='C11:koyama-reject')
            return
        if case.get('sibling'):
            # another chain with the SAME l and lp but a smaller bead diameter is evaluated first in this process (a sweep over sigma)
            sib = O.DiscreteKoyama(sigma=p['sigma'] * case['sibling'], l=p['l'], length=N, lp=p['lp'])
            sib.calculate(k[:4].copy())
        o = make()
        # which branch computed the bending energy: the linearisation is only for (lp - lp_min)/lp_min < 0.001 (a RELATIVE distance: the same
        # chain described in other units of length must take the same branch)
        lin_eps = 6.0 * (o.cos0 - 1.0 - 2.0 * o.cos1) / (1.0 + o.cos0) ** 2
        impl_lin = abs(o.epsilon - lin_eps) <= 1e-13 * max(1.0, abs(lin_eps))
        rel = (p['lp'] - lpmin_py) / lpmin_py
        if abs(rel - 0.001) > 1e-9 and not edge:
            ctx.corr('eval', case, mc[1], 'true' if impl_lin else 'false', what='DiscreteKoyama: linearised bending energy used iff (lp - lp_min)/lp_min < 0.001')
            ctx.pred('eval', case, impl_lin == (rel < 0.001), 'DiscreteKoyama(sigma=%r, l=%r, lp=%r): (lp-lp_min)/lp_min = %.4g but the %s bending energy is used' %
                     (p['sigma'], p['l'], p['lp'], rel, 'linearised' if impl_lin else 'solved'), key='C11:koyama-pair-sum')
        # the bond-angle moments the kernels are built from, against their DEFINITION: the distribution exp(-eps x) of x = cos(theta) on
        # [-1, cos0] with eps fixed by <x> = l/lp - 1, moments by numerical quadrature (independent of the closed forms and of the
        # linearisation near lp_min, whose own error is <= 0.31 ((lp - lp_min)/lp_min)^2 <= 3.1e-7)
        try:
            from scipy.integrate import quad
            from scipy.optimize import brentq
            c0_ = 1.0 - p['sigma'] ** 2 / (2.0 * p['l'] ** 2); c1_ = p['l'] / p['lp'] - 1.0
            def mom_(e_, q_):
                return quad(lambda x: x ** q_ * math.exp(-e_ * (x + 1.0)), -1.0, c0_, epsabs=1e-13, epsrel=1e-13)[0] / quad(lambda x: math.exp(-e_ * (x + 1.0)), -1.0, c0_, epsabs=1e-13, epsrel=1e-13)[0]
            e_ex = brentq(lambda e_: mom_(e_, 1) - c1_, -300.0, 300.0, xtol=1e-13, rtol=1e-13)
            c2_ex = mom_(e_ex, 2)
            okm = abs(o.cos1 - c1_) <= 1e-12 and abs(o.cos2 - c2_ex) <= 1e-6 and abs(o.epsilon - e_ex) <= 1e-6 * max(1.0, abs(e_ex))
            ctx.pred('eval', case, okm, 'DiscreteKoyama(sigma=%r, l=%r, lp=%r): bond-angle moments <cos> = %.9g, <cos^2> = %.9g, eps = %.9g differ from their definition (%.9g, %.9g, %.9g)' %
                     (p['sigma'], p['l'], p['lp'], o.cos1, o.cos2, o.epsilon, c1_, c2_ex, e_ex), key='C11:koyama-pair-sum')
        except (ValueError, OverflowError, ZeroDivisionError):
            ctx.dist['koyama:moment-reference-not-bracketed'] += 1
        val = np.array(o.calculate(k.copy()), dtype=float)
        B = []; A = []; w = []
        for n in range(1, N):
            r2, r4 = o.kernel_base(n)
            C = sqrt(0.5 * (5 - 3 * r4 / (r2 * r2))); B.append(sqrt(C * r2)); A.append(r2 * (1 - C) / 6)
            w.append(np.array(o.koyama_kernel_fourier(k=k, n=n), dtype=LD))
        ctx.corr('eval', case, drv.ask('om koyama %d | %s | %s | %s' % (N, fl(B), fl(A), fl(k))), fl(val), rtol=1e-11, scale=float(N), what='DiscreteKoyama.calculate')
        # the kernel parameters themselves (kernel_base and C, B, A^2) from (l, cos1, cos2)
        ns = list(range(1, N))[:12]
        mb = drv.ask('koyama.base %s %s %s %s' % (f2h(o.l), f2h(o.cos1), f2h(o.cos2), ' '.join(map(str, ns))))
        impl_b = []
        for n in ns:
            r2, r4 = o.kernel_base(n); C = sqrt(0.5 * (5 - 3 * r4 / (r2 * r2)))
            impl_b += [r2, r4, C, sqrt(C * r2), r2 * (1 - C) / 6]
        sc = float(max(abs(v) for v in impl_b))
        ctx.corr('eval', case, mb, fl(impl_b), rtol=1e-6, atols=[1e-9 * sc] * len(impl_b), what='DiscreteKoyama kernel_base / kernel parameters')
        judge(ctx, case, name, N, val, pair_sum_from_w(N, np.array(w)))
        # independent statement: the pair sum with the kernel parameters computed by the MODEL from the chain's (l, cos1, cos2) (no moment
        # table is read back from the object under test): a stale or shared moment table on the implementation side shows here
        allns = list(range(1, N))
        if allns:
            tb = drv.ask('koyama.base %s %s %s %s' % (f2h(o.l), f2h(o.cos1), f2h(o.cos2), ' '.join(map(str, allns)))).split()
            Bm = [h2f(tb[5 * q + 3]) for q in range(len(allns))]; Am = [h2f(tb[5 * q + 4]) for q in range(len(allns))]
            vm = np.array([h2f(t) for t in drv.ask('om koyama %d | %s | %s | %s' % (N, fl(Bm), fl(Am), fl(k))).split()])
            ctx.pred('eval', case, vm.shape == val.shape and bool(np.all(np.abs(vm - val) <= 1e-6 * N)),
                     'DiscreteKoyama(sigma=%r, l=%r, lp=%r, N=%d): omega differs from the pair sum with the kernel parameters of these arguments by %.3g%s' %
                     (p['sigma'], p['l'], p['lp'], N, float(np.max(np.abs(vm - val))) if vm.shape == val.shape else -1, ' (another chain with other sigma was evaluated before)' if case.get('sibling') else ''),
                     key='C11:koyama-pair-sum')
        lo = val[k * max(B) * N < 1e-3]; hi = val[k * min(B) > 200 * N]
        ctx.pred('eval', case, bool(np.all(np.abs(lo - N) < 1e-4 * N)) and bool(np.all(np.abs(hi - 1) < 0.02)),
                 'DiscreteKoyama(N=%d): limits: omega(k->0) = %s, omega(k->inf) = %s' % (N, lo[:1], hi[-1:]), key='C11:limits')
        elementwise(ctx, case, name, make)
    else:   # NFJC
        make = lambda: getattr(O, name)(length=N, l=1.0)
        with np.errstate(all='ignore'):
            val = np.array(make().calculate(k.copy()), dtype=float)
        kl = k.astype(LD); El = np.sin(kl) / kl
        judge(ctx, case, name, N, val, None, condE=El)
        # the value against the model's defining expression: FJC + (2/N) sum_tau (N - tau) (B_tau (E^tau - J_tau(k)) - E^tau), the integrals J over the
        # shipped range [0.1, 99.9] by a 4x finer Simpson rule (the shipped rule itself is within 2e-8 N^2 of it on the unchanged tree)
        kref = np.array([0.5, 1.0, 2.0, 3.3]); vref = np.array(make().calculate(kref.copy()), dtype=float)
        want = nfjc_reference(N, kref)
        errn = float(np.max(np.abs(vref - want) / np.abs(want)))
        ctx.pred('eval', case, errn <= 1e-7 * N * N + 1e-6, '%s(N=%d): omega differs from FJC + excluded-volume correction (integrals by a finer quadrature) by %.3g relative' % (name, N, errn), key='C11:nfjc-sum')
        good = (1 - np.array(El, dtype=float)) ** 2 > 1e-9
        lo = val[(k * N < 2e-2) & good]; hi = val[k > 500 * N]
        ctx.pred('eval', case, bool(np.all(np.abs(lo - N) < 2e-3 * N)) and bool(np.all(np.abs(hi - 1) < 0.02)),
                 'NFJC(N=%d): limits: omega(k->0) = %s, omega(k->inf) = %s' % (N, lo[:1], hi[-1:]), key='C11:limits')
        elementwise(ctx, case, name, make)

def nfjc_reference(N, k, refine=4):
    import scipy.integrate
    k = np.asarray(k, dtype=float); dx = 0.1 / refine
    x = 0.1 + np.arange(0, 998 * refine + 1) * dx
    K, X = np.meshgrid(k, x, indexing='ij')
    ZB = (1 / (np.pi * K)) * X * (np.sinc((K - X) / np.pi) - np.sin(K + X) / (K + X))
    sx = np.sin(x) / x; sX = np.sin(X) / X; sk = np.sin(k) / k; J0B = sx - np.cos(x)
    out = np.zeros_like(k)
    for tau in range(2, N):
        J0 = 2 / np.pi * scipy.integrate.simpson(sx ** tau * J0B, x=x)
        J = scipy.integrate.simpson(ZB * sX ** tau, x=x, axis=1)
        out += (N - tau) * ((sk ** tau - J) / (1 - J0) - sk ** tau)
    out *= 2.0 / N
    return out + (1 - sk ** 2 - 2.0 / N * sk + 2.0 / N * sk ** (N + 1)) / (1 - sk) ** 2

SUITES = {'eval': suite_eval}

def kgrid(rng, maxL):
    kind = rng.choice(['log', 'domain-dr', 'domain-dk', 'domain-dk0.1'])
    if kind == 'log':
        n = rng.randint(8, 30)
        return sorted(10 ** rng.uniform(-4, 3) for _ in range(n)) + [1e-4, 1e3], kind
    L = rng.choice([8, 16, 31, rng.randint(2, maxL)])
    if kind == 'domain-dr': d = pyPRISM.Domain(length=L, dr=round(10 ** rng.uniform(-2, 0), 4))
    elif kind == 'domain-dk': d = pyPRISM.Domain(length=L, dk=round(10 ** rng.uniform(-3, 0), 5))
    else: d = pyPRISM.Domain(length=L, dk=0.1)
    return [float(x) for x in d.k[:L]], kind

def gen_case(rng, maxL, maxN, tier):
    cls = rng.choice(['Gaussian', 'Gaussian', 'FreelyJointedChain', 'FJC', 'GaussianRing', 'SingleSite', 'NoIntra', 'InterMolecular',
                      'DiscreteKoyama', 'DiscreteKoyama', 'NonOverlappingFreelyJointedChain', 'NFJC'])
    k, kind = kgrid(rng, maxL)
    c = {'cls': cls, 'k': k, 'kgrid': kind}
    if cls in ('Gaussian', 'GaussianRing'):
        c['N'] = rng.choice([2, 3, 5, 10, 50, rng.randint(2, maxN)]); c['p'] = {'sigma': round(rng.uniform(0.3, 3.0), 4)}
        if cls == 'GaussianRing': c['N'] = min(c['N'], 400)
    elif cls in ('FreelyJointedChain', 'FJC'):
        c['N'] = rng.choice([2, 3, 5, 10, 50, rng.randint(2, maxN)]); c['p'] = {'l': round(rng.uniform(0.3, 3.0), 4)}
    elif cls == 'DiscreteKoyama':
        sigma = round(rng.uniform(0.5, 1.5), 3)
        if rng.random() < 0.2:
            c['invalid'] = True
            c1 = rng.random()
            if c1 < 0.2: l = sigma * rng.uniform(0.6, 1.5); lp = rng.choice([0.0, 0, -1.0])          # lp exactly zero (falsy) or negative
            elif c1 < 0.6: l = sigma / 2 * rng.uniform(0.3, 1.0); lp = 5.0
            else:
                l = sigma * rng.uniform(0.6, 1.5); lp = (4 * l ** 3) / (4 * l ** 2 - sigma ** 2) * rng.choice([rng.uniform(0.3, 0.999), 1 - 8e-4, 1 - 1e-4, 1 - 1e-6, 1 - 1e-9])
        else:
            l = sigma * rng.uniform(0.75, 1.5); lpmin = (4 * l ** 3) / (4 * l ** 2 - sigma ** 2)
            lp = lpmin * rng.choice([1.0, 1.0005, rng.uniform(1.002, 1.5), rng.uniform(1.5, 4.0)])
        # other units of length (nm vs angstrom vs m): sigma, l, lp scale together and k inversely; omega(k sigma) must not care
        u = rng.choice([1.0, 1.0, 1.0, 1e-3, 2e-3, 1e-2, 1e3, 50.0])
        sigma, l, lp = sigma * u, l * u, lp * u
        c['N'] = rng.choice([2, 3, 5, 10, rng.randint(2, 40 if tier == 'quick' else 60)]); c['p'] = {'sigma': sigma, 'l': l, 'lp': lp}
        c['k'] = [x / u for x in c['k'][:24]]
        if not c.get('invalid') and rng.random() < 0.4: c['sibling'] = rng.choice([0.9, 0.8, 0.95])
    elif cls in ('NonOverlappingFreelyJointedChain', 'NFJC'):
        c['N'] = rng.choice([2, 3, 4, 6, rng.randint(2, 12 if tier == 'quick' else 30)]); c['k'] = c['k'][:16]
    return c

def generate(ctx):
    rng = ctx.rng; maxL = ctx.n(48, 300); maxN = ctx.n(200, 10000)
    # directed: persistence lengths that are invalid for every chain (zero as float / int, negative) must be rejected
    for lp in (0.0, 0, -0.5):
        c = {'cls': 'DiscreteKoyama', 'k': [0.1, 0.5, 1.0, 2.0], 'kgrid': 'log', 'N': 5, 'p': {'sigma': 1.0, 'l': 1.0, 'lp': lp}, 'invalid': True}
        ctx.case('eval', c, True, tags=['cls:DiscreteKoyama', 'invalid-params', 'lp:%r' % lp]); suite_eval(ctx, c)
    # directed: long rings on full-length Domain grids (N * len(k) of several millions: any blocking / chunking of the pair sum must be complete)
    for N, L in ([(5000, 1024), (2100, 2048)] if ctx.quick() else [(5000, 1024), (2100, 2048), (4100, 1024), (10000, 600), (3001, 1500)]):
        c = {'cls': 'GaussianRing', 'k': [float(x) for x in pyPRISM.Domain(length=L, dr=0.1).k], 'kgrid': 'domain-dr', 'N': N, 'p': {'sigma': round(rng.uniform(0.5, 1.5), 4)}}
        ctx.case('eval', c, True, tags=['cls:GaussianRing', 'k:domain-dr', 'long-ring']); suite_eval(ctx, c)
    for _ in range(ctx.n(500, 5000)):
        c = gen_case(rng, maxL, maxN, ctx.tier)
        N = c.get('N', 1)
        nontriv = N >= 3 and min(c['k']) < 0.3 < max(c['k'])
        ctx.case('eval', c, nontriv, tags=['cls:' + c['cls'], 'k:' + c['kgrid'], 'N<=%d' % (10 ** len(str(N)))] + (['invalid-params'] if c.get('invalid') else []))
        suite_eval(ctx, c)
