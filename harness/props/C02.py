"""C02 — Solutions reproduce exact results: PY hard spheres and the dilute limit."""
import math, warnings
from ..implenv import np, pyPRISM
from ..driver import f2h, fl, h2f
from .. import sysgen as G
from . import C01
from pyPRISM.core.Space import Space

RULE = ("VALIDATION RUNS (numerical, not obligations): (wertheim) one-component hard spheres + PY (flag on/off), eta in 0.05..0.45, refinement families dr, dr/2(, dr/4) at fixed r_max, krylov: contact value "
        "(g at the first grid point outside the core), S(k) at the resolved wavenumbers of the coarsest grid, extrapolated S(0), c(r) at the fixed r of the coarsest grid compared with the Wertheim-Thiele "
        "functions EVALUATED BY THE LEAN DRIVER (wtContact, wtS0, wtC; S(k) by high-order quadrature of wtC): errors must be <= K(eta)*dr on every member (K = 2.5 x the largest ratio seen on the unchanged tree); (dilute) every shipped "
        "potential x {PY, HNC, MSA+core} x kT in {0.7, 1, 2.5} at rho = 1e-6: g vs exp(-u/kT) / 1-u/kT (0 inside a core) and second_virial vs -2 pi Int (e^{-u/kT}-1) r^2 dr on two grids; "
        "state points also reached by continuation from another temperature (the evaluated object's own system re-used) and after a diameter re-assignment; (scan) density scans re-using one System, objects created first and solved later; (cost) the rank-1 OZ reduction h(1 - rho omega c) = omega c omega on arbitrary x. Non-trivial = all; distinct = distinct case")
EXTRA_TRUSTED = C01.EXTRA_TRUSTED + ["Wertheim-Thiele closed forms (textbook); S(k) of the reference by Gauss-Legendre quadrature of the cubic c(r)"]
ASSUMPTIONS = ["fluid-range packing fractions (eta <= 0.45) on which krylov converges", "the O(dr) constant is taken from the coarsest member of the refinement family"]
BUDGET = {'quick': 1200, 'thorough': 5400}
T1 = G.TYPES[0]

def solve1(eta, dr, L, hc, kT=1.0, pot=None, clo='py', rho=None, method='krylov', d=1.0, kT_assign=False, warm=None, d_pre=None):
    """warm: the state point is reached by CONTINUATION - a PRISM object is first created and evaluated at another temperature
    `warm`, then its own system (p.sys, whose closures and potentials have been used) is set to kT and a new object is created from it;
    d_pre: the diameter is first set to another value (a size scan on one System) and then to d"""
    kT_final = kT
    if warm is not None: kT = warm
    if kT_assign:
        s = pyPRISM.System([T1]); s.kT = kT               # temperature set through the documented attribute (a sweep re-using one System)
    else:
        s = pyPRISM.System([T1], kT=kT)
    s.domain = pyPRISM.Domain(length=L, dr=dr)
    s.density[G.fresh(T1)] = rho if rho is not None else eta * 6 / math.pi / d ** 3
    if d_pre is not None: s.diameter[T1] = d_pre
    s.diameter[G.fresh(T1)] = d
    K1 = G.fresh(T1)
    s.potential[K1, K1] = pot if pot is not None else pyPRISM.potential.HardSphere()
    if pot is not None: G.scramble(pot)          # the caller's object is re-used with other parameters; the System holds its own copy
    s.closure[T1, T1] = G.mk_clo([clo, hc])
    s.omega[T1, T1] = pyPRISM.omega.SingleSite()
    p = s.createPRISM()
    if warm is not None:
        with np.errstate(all='ignore'):
            p.cost(np.zeros(L))
        s2 = p.sys; s2.kT = kT_final
        p = s2.createPRISM()
    res = C01.solve_quiet(p, None, method)
    if isinstance(res, Exception) or not res.success: return None
    _COPY[0] += 1
    if _COPY[0] % 3 == 1:
        import copy
        return copy.deepcopy(p)          # the solved object as an analysis routine receives it: a (deep) copy, the original left alone
    if _COPY[0] % 3 == 2:
        import copy
        q = copy.copy(p); return q
    return p
_COPY = [0]

def contact_misplaced(r, sigma):
    """known finding F7 (property C10): a grid point that nominally coincides with sigma but lies above it by rounding is treated as
    OUTSIDE the core; the solved fluid then has a core one grid point smaller and the calibrated constants below do not apply."""
    r = np.asarray(r)
    near = np.abs(r - sigma) <= 1e-9 * sigma
    return bool(np.any(near & (r > sigma)))

def suite_scan(ctx, case):
    """a density scan that re-uses ONE System: PRISM objects are created for several packing fractions first and solved
    afterwards (in another order); each must reproduce the Wertheim-Thiele values of ITS OWN state point"""
    etas = case['etas']; N = case['N']; dr = case['dr']
    s = pyPRISM.System([T1], kT=1.0)
    s.domain = pyPRISM.Domain(length=N, dr=dr)
    s.diameter[T1] = 1.0
    s.potential[T1, T1] = pyPRISM.potential.HardSphere(); s.closure[T1, T1] = pyPRISM.closure.PercusYevick(); s.omega[T1, T1] = pyPRISM.omega.SingleSite()
    objs = []
    for eta in etas:
        s.density[T1] = eta * 6 / math.pi
        objs.append((eta, s.createPRISM()))
    for eta, p in (objs[::-1] if case['reverse'] else objs):
        res = C01.solve_quiet(p, None, 'krylov')
        ctx.validation_runs += 1
        if isinstance(res, Exception) or not res.success:
            ctx.dist['scan:not-converged'] += 1; continue
        out = ctx.drv.ask('wt %s %s' % (f2h(eta), f2h(0.5))).split()
        contact = h2f(out[0]); S0 = h2f(out[1])
        d = p.sys.domain
        if contact_misplaced(d.r, 1.0):
            ctx.dist['scan:skipped-contact-float-noise(F7,C10)'] += 1; continue
        g = pyPRISM.calculate.pair_correlation(p)[T1, T1]
        first = int(np.argmax(d.r > 1.0 + 1e-9))
        S = pyPRISM.calculate.structure_factor(p)[T1, T1]
        k3 = d.k[:3]; y3 = S[:3]
        y0 = y3[0] * k3[1] * k3[2] / ((k3[0] - k3[1]) * (k3[0] - k3[2])) + y3[1] * k3[0] * k3[2] / ((k3[1] - k3[0]) * (k3[1] - k3[2])) + y3[2] * k3[0] * k3[1] / ((k3[2] - k3[0]) * (k3[2] - k3[1]))
        ok = abs(g[first] - contact) / contact <= (0.1 + 1.2 * eta) * dr + 1e-3 and abs(y0 - S0) <= 0.8 * dr + 1e-3
        ctx.pred('scan', case, ok, 'density scan on one System: the object created at eta=%g gives contact %.4g (exact %.4g), S(0) %.4g (exact %.4g)' % (eta, g[first], contact, y0, S0),
                 key='C02:scan')

def wt_S(eta, k, cfun):
    """S(k) = 1/(1 - rho c(k)), c(k) = 4 pi Int_0^1 c(r) r sin(kr)/k dr by 64-point Gauss-Legendre"""
    x, w = np.polynomial.legendre.leggauss(64)
    r = 0.5 * (x + 1); w = 0.5 * w
    c = cfun(r)
    ck = np.array([4 * math.pi * np.sum(w * c * r * np.sin(kk * r) / kk) for kk in k])
    return 1.0 / (1.0 - eta * 6 / math.pi * ck)

def suite_wertheim(ctx, case):
    eta = case['eta']; rmax = case['rmax']; N0 = case['N0']; hc = case['hc']; dd = case.get('d', 1.0)      # results depend on r/d, k d only
    out = ctx.drv.ask('wt %s %s' % (f2h(eta), fl(np.arange(1, N0 + 1) * rmax / N0))).split()
    contact = h2f(out[0]); S0 = h2f(out[1])
    r0 = np.arange(1, N0 + 1) * rmax / N0
    cref_all = np.array([h2f(t) for t in out[3:]])
    ins = r0 < 1.0 - 1e-9
    def cfun(r):
        toks = ctx.drv.ask('wt %s %s' % (f2h(eta), fl(r))).split()
        return np.array([h2f(t) for t in toks[3:]])
    e_contact = []; e_S = []; e_S0 = []; e_c = []; drs = []
    for N in case['Ns']:
        dr = rmax / N
        p = solve1(eta, dr * dd, N, hc, d=dd, d_pre=case.get('d_pre'))
        ctx.validation_runs += 1
        if p is None:
            ctx.dist['wertheim:not-converged'] += 1; return
        d = p.sys.domain
        if contact_misplaced(d.r, dd):
            ctx.dist['wertheim:skipped-contact-float-noise(F7,C10)'] += 1; return
        if case.get('sf_first'): pyPRISM.calculate.structure_factor(p)          # post-processing in the other order: S(k) before g(r)
        g = pyPRISM.calculate.pair_correlation(p)[T1, T1]
        first = int(np.argmax(d.r > dd * (1.0 + 1e-9)))
        e_contact.append(abs(g[first] - contact) / contact)
        Sun = pyPRISM.calculate.structure_factor(p, normalize=False)[T1, T1] / (eta * 6 / math.pi / dd ** 3)
        S = pyPRISM.calculate.structure_factor(p)[T1, T1]
        ctx.pred('wertheim', case, bool(np.allclose(S, Sun, rtol=1e-9, atol=1e-12)), 'normalised S(k) differs from the unnormalised one divided by rho', key='C02:wertheim:S(k)')
        nk = N0 // 4
        Sref = wt_S(eta, d.k[:nk] * dd, cfun)
        e_S.append(float(np.max(np.abs(S[:nk] - Sref))) / float(np.max(np.abs(Sref))))
        k3 = d.k[:3]; y3 = S[:3]
        y0 = y3[0] * k3[1] * k3[2] / ((k3[0] - k3[1]) * (k3[0] - k3[2])) + y3[1] * k3[0] * k3[2] / ((k3[1] - k3[0]) * (k3[1] - k3[2])) + y3[2] * k3[0] * k3[1] / ((k3[2] - k3[0]) * (k3[2] - k3[1]))
        e_S0.append(abs(y0 - S0))
        c = p.directCorr.get_copy(); d.MatrixArray_to_real(c)
        q = N // N0
        cr = c[T1, T1][q - 1::q][:N0]
        sel = ins & (r0 < 1.0 - 1.5 * rmax / N0)
        e_c.append(float(np.max(np.abs(cr[sel] - cref_all[sel]))) / float(np.max(np.abs(cref_all[sel]))))
        # no probability inside the core, c = 0 outside the core (PY hard spheres)
        outside = d.r > dd * (1.0 + 1e-9)
        ctx.pred('wertheim', case, float(np.max(np.abs(c[T1, T1][outside]))) <= 1e-4, 'PY hard spheres: c(r) is not zero outside the core (%.3g)' % np.max(np.abs(c[T1, T1][outside])), key='C02:c-outside')
        drs.append(dr)
    case2 = dict(case, errors={'contact': e_contact, 'S': e_S, 'S0': e_S0, 'c': e_c})
    for _n, _e in case2['errors'].items():
        for _x, _h in zip(_e, drs): RATIOS[(_n, eta)] = max(RATIOS.get((_n, eta), 0.0), _x / _h)
    # first-order criterion |error| <= K(eta) * dr at EVERY member of the family (so a defect that does not shrink with dr is caught
    # on the finer grids), + 1e-3 for the accuracy of the converged solves.  K(eta) = 2.5 x the largest error/dr observed on the
    # unchanged tree over eta in 0.05..0.45, r_max in {12.8, 16}, dr in 0.2 .. 0.025 (DESIGN.md section 9)
    K = {'contact': 0.1 + 1.2 * eta, 'S(k)': 1.0 + 50.0 * eta ** 2, 'S(0)': 0.8, 'c(r)': 3.5 / (1.0 - eta) ** 4}
    for name, errs in (('contact value', e_contact), ('S(k) at resolved k', e_S), ('S(0)', e_S0), ('c(r) inside the core', e_c)):
        Kq = K[name.split()[0]]
        ok = all(e <= Kq * h + 1e-3 for e, h in zip(errs, drs))
        ctx.pred('wertheim', case2, ok, 'eta=%g: %s is not within %.3g*dr of the Wertheim-Thiele value: errors %s for dr %s' %
                 (eta, name, Kq, ['%.3g' % e for e in errs], ['%.3g' % h for h in drs]), key='C02:wertheim:' + name.split()[0])

def mk_pot(spec):
    return G.mk_pot(spec)

def suite_dilute(ctx, case):
    kT = case['kT']; clo = case['clo']; hc = case['hc']
    errs_g = []; errs_b = []; drs = []
    for N, dr in case['grids']:
        # in the limit of vanishing density gamma = h - c -> 0 IS the solution: the self-consistency function at gamma = 0 is O(rho)
        # (<= 1.6e4 rho over all shipped potentials / closures / kT on the unchanged tree, also at rho = 1e-20); this needs no converged solve
        s0 = pyPRISM.System([T1], kT=kT); s0.domain = pyPRISM.Domain(length=N, dr=dr); s0.density[T1] = case.get('rho', 1e-6); s0.diameter[T1] = 1.0
        s0.potential[T1, T1] = mk_pot(case['pot']); s0.closure[T1, T1] = G.mk_clo([clo, hc]); s0.omega[T1, T1] = pyPRISM.omega.SingleSite()
        with np.errstate(all='ignore'):
            y0 = s0.createPRISM().cost(np.zeros(N))
        ctx.pred('dilute', case, bool(np.all(np.isfinite(y0))) and float(np.max(np.abs(y0))) <= 1e5 * case.get('rho', 1e-6),
                 '%s/%s kT=%g rho=%g: the self-consistency function at gamma = 0 is %.3g, not O(rho): the dilute limit g = exp(-u/kT) is not approached' %
                 (case['pot'][0], clo, kT, case.get('rho', 1e-6), float(np.max(np.abs(y0)))), key='C02:dilute-g')
        U = mk_pot(case['pot'])
        p = solve1(None, dr, N, hc, kT=kT, pot=U, clo=clo, rho=case.get('rho', 1e-6), kT_assign=case.get('kT_assign', False), warm=case.get('warm'))
        ctx.validation_runs += 1
        if p is None:
            ctx.dist['dilute:not-converged'] += 1; return
        d = p.sys.domain
        Uref = mk_pot(case['pot']); Uref.sigma = 1.0
        with np.errstate(all='ignore'):
            u = Uref.calculate(d.r) / kT
        if case.get('sf_first'): pyPRISM.calculate.structure_factor(p)
        g = pyPRISM.calculate.pair_correlation(p)[T1, T1]
        if clo == 'msa':
            want = np.where(d.r > 1.0, 1.0 - u, 0.0)
        else:
            with np.errstate(all='ignore'):
                want = np.exp(-u)
            if hc: want = np.where(d.r > 1.0, want, 0.0)
        fin = np.isfinite(want)
        errs_g.append(float(np.max(np.abs(g[fin] - want[fin]) / (1.0 + np.abs(want[fin])))))
        if clo != 'msa':
            B2 = pyPRISM.calculate.second_virial(p, extrapolate=True)[T1, T1]
            # reference integral on a much finer grid of the same function (the closure's g with its own core rule)
            rf = (np.arange(200000) + 0.5) * (d.r[-1] / 200000)
            with np.errstate(all='ignore'):
                uf = Uref.calculate(rf) / kT
                ff = np.exp(-uf) - 1.0
            if hc: ff = np.where(rf > 1.0, ff, -1.0)
            ff = np.where(np.isfinite(ff), ff, -1.0)
            # the reported value is -1/2 of the quadratic through h(k_1..k_3) at k = 0 (C05); the same extrapolation applied to the EXACT
            # h(k) = 4 pi Int f r sin(kr)/k dr is the reference, so that only the dr-discretisation is left (the extrapolation error depends on
            # r_max, not on dr, and would otherwise mask a first-order criterion)
            w_ = d.r[-1] / 200000
            hk = [4 * math.pi * float(np.sum(ff * rf * np.sin(kk * rf)) * w_) / kk for kk in d.k[:3]]
            k3 = d.k[:3]
            h0 = hk[0] * k3[1] * k3[2] / ((k3[0] - k3[1]) * (k3[0] - k3[2])) + hk[1] * k3[0] * k3[2] / ((k3[1] - k3[0]) * (k3[1] - k3[2])) + hk[2] * k3[0] * k3[1] / ((k3[2] - k3[0]) * (k3[2] - k3[1]))
            ref = -0.5 * h0
            vol = -2 * math.pi * float(np.sum(ff * rf * rf) * w_)
            sc_b = 2 * math.pi * float(np.sum(np.abs(ff) * rf * rf) * w_)
            ctx.pred('dilute', case, abs(ref - vol) <= 0.2 * sc_b, 'reference: the extrapolated exact h(k->0) is not the volume integral (%.4g vs %.4g)' % (ref, vol), key='C02:dilute-B2')
            errs_b.append(abs(B2 - ref) / sc_b)
        drs.append(dr)
    case2 = dict(case, errors={'g': errs_g, 'B2': errs_b})
    for _x, _h in zip(errs_b, drs): RATIOS['B2:' + case['pot'][0]] = max(RATIOS.get('B2:' + case['pot'][0], 0.0), _x / _h)
    ctx.pred('dilute', case2, max(errs_g) <= 1e-4, '%s/%s kT=%g: dilute g(r) differs from %s by %s' % (case['pot'][0], clo, kT, 'exp(-u/kT)' if clo != 'msa' else '1-u/kT', ['%.3g' % e for e in errs_g]), key='C02:dilute-g')
    if errs_b:
        ok = all(e <= 3.0 * h + 1e-3 for e, h in zip(errs_b, drs))
        ctx.pred('dilute', case2, ok, '%s/%s kT=%g: second virial is not within 3*dr (relative to Int |f| r^2) of -2 pi Int (e^{-u/kT}-1) r^2 dr (k -> 0 extrapolation of the exact transform): errors %s for dr %s' %
                 (case['pot'][0], clo, kT, ['%.3g' % e for e in errs_b], ['%.3g' % h for h in drs]), key='C02:dilute-B2')

def suite_oz(ctx, case):
    """rank-1 reduction on arbitrary x: h (1 - rho omega c) = omega c omega, S = omega + rho h"""
    sd = case['sys']; s = G.build_system(sd); p = s.createPRISM()
    with np.errstate(all='ignore'):
        y = p.cost(np.array(case['x'], dtype=float))
    if not np.all(np.isfinite(y)): return
    G.feed(ctx.drv, sd)
    if ctx.drv.ask('prism.create') == 'ok':
        res, cond0 = C01.prism_eq_residual(p)
        if cond0 <= 1e6:
            impl = G.cost_tok(p, y)
            ctx.corr('oz', case, ctx.drv.ask('prism.cost ' + fl(np.array(case['x'], dtype=float))), impl, rtol=1e-9, atols=G.group_atols(impl, 1e-7 * max(cond0, 1.0) / 10), what='one-component cost(x) vs model')
    rho = sd['dens'][0]
    om = p.omega.data[:, 0, 0] / rho; c = p.directCorr.data[:, 0, 0]; h = p.totalCorr.data[:, 0, 0]
    lhs = h * (1 - rho * om * c); rhs = om * c * om
    sc = max(1.0, float(np.max(np.abs(rhs))), float(np.max(np.abs(h))))
    cond = float(np.max(1.0 / np.abs(1 - rho * om * c)))
    if cond > 1e6: return
    ctx.pred('oz', case, float(np.max(np.abs(lhs - rhs))) <= 1e-10 * sc * cond, 'rank-1 OZ relation h(1 - rho omega c) = omega c omega violated after cost(x): %.3g' % np.max(np.abs(lhs - rhs)), key='C02:rank1-oz')
    S = pyPRISM.calculate.structure_factor(p, normalize=True)[T1, T1]
    ctx.pred('oz', case, float(np.max(np.abs(S * (1 - rho * om * c) - om))) <= 1e-9 * sc * cond, 'S (1 - rho omega c) = omega violated', key='C02:rank1-oz')

RATIOS = {}
SUITES = {'scan': suite_scan, 'wertheim': suite_wertheim, 'dilute': suite_dilute, 'oz': suite_oz}

def generate(ctx):
    rng = ctx.rng
    etas = [0.05, 0.15, 0.3, 0.45] if ctx.quick() else [0.05, 0.1, 0.15, 0.2, 0.25, 0.3, 0.35, 0.4, 0.45]
    for eta in (etas if ctx.quick() else etas + etas):
        rmax = rng.choice([12.8, 16.0, 15.4, 13.2])
        N0 = rng.choice([128, 160]) if rmax == 16.0 else 128 if rmax == 12.8 else 154 if rmax == 15.4 else 132      # 154 = 2*7*11, 132 = 4*3*11: not 5-smooth
        case = {'eta': eta, 'rmax': rmax, 'N0': N0, 'Ns': [N0, 2 * N0] + ([] if ctx.quick() else [4 * N0]), 'hc': rng.random() < 0.5, 'd': rng.choice([1.0, 0.8, 1.25, 2.0]), 'sf_first': rng.random() < 0.5}
        if rng.random() < 0.5 or eta == etas[1]: case['d_pre'] = rng.choice([0.5, 1.5, 3.0]) * case['d']          # the diameter of a size scan: set to another value first
        ctx.case('wertheim', case, True, tags=['eta:%g' % eta, 'hc:%s' % case['hc']]); suite_wertheim(ctx, case)
    for _ in range(ctx.n(3, 40)):
        case = {'etas': sorted(rng.sample([0.05, 0.1, 0.15, 0.2, 0.25, 0.3, 0.35], 3)), 'N': 128, 'dr': rng.choice([0.1, 0.125]), 'reverse': rng.random() < 0.5}
        ctx.case('scan', case, True, tags=['scan']); suite_scan(ctx, case)
    pots = [['hs', None, 1e6], ['exp', None, 0.5, 0.5, 1e6], ['exp', None, -0.4, 0.7, 1e6], ['hclj', None, 0.6, 1e6], ['lj', None, 0.7], ['ljshift', None, 1.0, 2.5], ['ljcut', None, 0.5, 2.0], ['wca', None, 1.0]]
    combos = [(p, c) for p in pots for c in ('py', 'hnc', 'msa')]
    if ctx.quick(): combos = rng.sample(combos, 10)
    else: combos = combos * 3          # every combination at three temperatures / densities / flag settings
    for pot, clo in combos:
        hard = pot[0] in ('hs', 'exp', 'hclj')
        hc = True if clo == 'msa' else (rng.random() < 0.5 if hard else False)
        if clo == 'msa' and not hard: continue
        kT = rng.choice([0.7, 1.0, 2.5])
        case = {'pot': pot, 'clo': clo, 'hc': hc, 'kT': kT, 'grids': [[128, 0.1], [256, 0.05]], 'kT_assign': rng.random() < 0.5, 'sf_first': rng.random() < 0.4, 'rho': rng.choice([1e-6, 1e-9, 1e-12, 1e-18, 1e-18, 1e-20])}
        if rng.random() < 0.5: case['warm'] = rng.choice([2.0 * kT, 0.6 * kT])          # reached by continuation from another temperature (p.sys re-used)
        ctx.case('dilute', case, True, tags=['pot:' + pot[0], 'clo:' + clo, 'kT:%g' % kT]); suite_dilute(ctx, case)
    # directed: every closure with a soft-tailed potential, the state point reached by continuation from another temperature
    for clo in ('py', 'hnc', 'msa'):
        for pot in (['exp', None, 0.5, 0.5, 1e6], ['hclj', None, 0.6, 1e6]) + (() if clo == 'msa' else (['lj', None, 0.7],)):
            kT = rng.choice([0.7, 1.0, 2.5])
            case = {'pot': pot, 'clo': clo, 'hc': True if clo == 'msa' else rng.random() < 0.5, 'kT': kT, 'grids': [[128, 0.1], [256, 0.05]], 'kT_assign': rng.random() < 0.5, 'rho': 1e-6, 'warm': rng.choice([2.0 * kT, 0.6 * kT])}
            ctx.case('dilute', case, True, tags=['pot:' + pot[0], 'clo:' + clo, 'kT:%g' % kT, 'continuation']); suite_dilute(ctx, case)
    for _ in range(ctx.n(40, 2000)):
        sd = G.gen_system(rng, maxn=1, maxL=32)
        case = {'sys': sd, 'x': G.gen_x(rng, sd, 'moderate')}
        ctx.case('oz', case, True, tags=['oz']); suite_oz(ctx, case)
