"""C10 — Potentials equal their definitions, with consistent cores, cut-offs and sigma."""
import math
from ..implenv import np, pyPRISM
from ..driver import f2h, fl, h2f

assert repr(2 ** (1.0 / 6.0)) == '1.122462048309373'      # the literal the Lean model uses for 2**(1/6)
RULE = ("all five potentials x parameter sweeps (epsilon of both signs, alpha, sigma on/off the grid, r_cut below/at/above sigma, shift, high_value) x the "
        "real Domain.r grid passed bit-exactly (plus points straddling sigma and r_cut); returned arrays compared with the Lean model (rtol 1e-12; masks bit-exact); "
        "predicate: the documented u(r) evaluated independently point by point, exact zero beyond the cut, shifted/WCA continuity across the cut, WCA >= 0, "
        "overlap value exactly on {r <= sigma}, repeatability, r unmodified, sigma defaulting through createPRISM (explicit sigma kept, else mean of diameters, "
        "System's own object not written), contact classification of the grid point nominally at sigma for sigma = every multiple of dr. "
        "Non-trivial = grid has points on both sides of sigma (and of r_cut when there is one); distinct = distinct case")
EXTRA_TRUSTED = ["2**(1.0/6.0) == 1.122462048309373 (asserted at import)", "numpy float pow vs repeated multiplication: 1e-12 relative"]
ASSUMPTIONS = ["finite positive r, sigma, alpha, r_cut"]
P = pyPRISM.potential

def make(case):
    k = case['pot']; p = case['p']
    if k == 'hs': return P.HardSphere(sigma=p['sigma'], high_value=p['high'])
    if k == 'exp': return P.Exponential(epsilon=p['eps'], alpha=p['alpha'], sigma=p['sigma'], high_value=p['high'])
    if k in ('lj', 'ljcut', 'ljshift'):
        return P.LennardJones(epsilon=p['eps'], sigma=p['sigma'], rcut=p.get('rcut'), shift=(k == 'ljshift'))
    if k == 'hclj': return P.HardCoreLennardJones(epsilon=p['eps'], sigma=p['sigma'], high_value=p['high'])
    return P.WeeksChandlerAndersen(epsilon=p['eps'], sigma=p['sigma'])

def line(case, r):
    k = case['pot']; p = case['p']
    ps = {'hs': [p.get('sigma'), p.get('high')], 'exp': [p.get('eps'), p.get('alpha'), p.get('sigma'), p.get('high')],
          'lj': [p.get('eps'), p.get('sigma')], 'ljcut': [p.get('eps'), p.get('sigma'), p.get('rcut')],
          'ljshift': [p.get('eps'), p.get('sigma'), p.get('rcut')], 'hclj': [p.get('eps'), p.get('sigma'), p.get('high')],
          'wca': [p.get('eps'), p.get('sigma')]}[k]
    return 'pot %s %s | %s' % (k, fl(ps), fl(r))

def documented(case, x):
    """the documented u(r) at one distance, written independently with math.* """
    k = case['pot']; p = case['p']; s = p['sigma']
    lj = lambda e, r: 4 * e * ((s / r) ** 12 - (s / r) ** 6)
    if k == 'hs': return 0.0 if x > s else p['high']
    if k == 'exp': return -p['eps'] * math.exp(-(x - s) / p['alpha']) if x > s else p['high']
    if k == 'lj': return lj(p['eps'], x)
    if k == 'ljcut': return 0.0 if x > p['rcut'] else lj(p['eps'], x)
    if k == 'ljshift': return 0.0 if x > p['rcut'] else lj(p['eps'], x) - lj(p['eps'], p['rcut'])
    if k == 'hclj': return p['eps'] * ((s / x) ** 12 - 2 * (s / x) ** 6) if x > s else p['high']
    rc = s * 2 ** (1.0 / 6.0)
    return 0.0 if x > rc else lj(p['eps'], x) - lj(p['eps'], rc)

def suite_eval(ctx, case):
    r = np.array(case['r'], dtype=float); r0 = r.copy()
    U = make(case)
    with np.errstate(all='ignore'):
        out = np.array(U.calculate(r), dtype=float).copy()
        out2 = np.array(U.calculate(r), dtype=float)
    # per-point absolute tolerance: the shifted forms subtract two O(eps (sigma/r)^12) numbers
    pp = case['p']; e_ = abs(pp.get('eps', 0.0)); s_ = pp['sigma']
    rc_ = pp.get('rcut') if case['pot'] != 'wca' else s_ * 2 ** (1.0 / 6.0)
    mag = lambda x: 0.0 if x == 0 else 4 * e_ * ((s_ / x) ** 12 + (s_ / x) ** 6)
    atols = [1e-12 * (mag(float(x)) + (mag(rc_) if rc_ else 0.0)) for x in r]
    ctx.corr('eval', case, ctx.drv.ask(line(case, r)), fl(out), rtol=1e-12, atols=atols, what=case['pot'] + '.calculate')
    ok = True; why = ''
    for x, v, at in zip(r, out, atols):
        d = documented(case, float(x))
        if not (v == d or abs(v - d) <= 1e-11 * max(abs(d), abs(v)) + 10 * at):
            ok = False; why = 'u(%r) = %r, documented %r' % (float(x), float(v), d); break
    ctx.pred('eval', case, ok, '%s: %s' % (case['pot'], why), key='C10:documented-u')
    k = case['pot']; p = case['p']
    if k in ('hs', 'exp', 'hclj'):
        core = ~(r > p['sigma'])
        ctx.pred('eval', case, bool(np.all(out[core] == p['high'])) and not np.any(out[~core] == p['high']) or p['high'] == 0.0,
                 '%s: overlap value not exactly on {r <= sigma}' % k, key='C10:core-set')
    if k in ('ljcut', 'ljshift', 'wca'):
        rc = p['rcut'] if k != 'wca' else p['sigma'] * 2 ** (1.0 / 6.0)
        ctx.pred('eval', case, bool(np.all(out[r > rc] == 0.0)), '%s: not exactly zero beyond r_cut' % k, key='C10:cut')
        if k in ('ljshift', 'wca'):
            pts = np.array([rc * (1 - 1e-9), rc, rc * (1 + 1e-9)])
            v = U.calculate(pts)
            scale = abs(p['eps']) * (1 + (p['sigma'] / rc) ** 12) * 50
            ctx.pred('eval', case, bool(np.all(np.abs(v) <= 1e-7 * scale)), '%s: jump %r across r_cut' % (k, [float(t) for t in v]), key='C10:continuity')
        if k == 'wca' and p['eps'] >= 0:
            ctx.pred('eval', case, bool(np.all(out >= -1e-12 * abs(p['eps']))), 'WCA negative: min %r' % float(np.min(out)), key='C10:wca-nonneg')
    ctx.pred('eval', case, np.array_equal(r, r0) and np.array_equal(out, out2, equal_nan=True), '%s modifies r or is not repeatable' % k, key='C10:purity')
    # element-wise: the same distances handed over in other legal layouts (reversed / strided views; 2-D tables in C and Fortran order, a transpose)
    # give the same value at the same element
    if len(r) >= 4 and case.get('layouts', True):
        n2 = (len(r) // 2) * 2; W = U if k != 'wca' else make(case)
        tab = r[:n2].reshape(2, -1); ref2 = out[:n2].reshape(2, -1)
        lay = [('reversed view', r[::-1], out[::-1]), ('strided view', np.repeat(r, 2)[::2], out), ('2-D C order', tab.copy(), ref2),
               ('2-D Fortran order', np.asfortranarray(tab), ref2), ('transposed 2-D view', tab.T, ref2.T)]
        for nm_, arr_, want_ in lay:
            try:
                with np.errstate(all='ignore'):
                    got_ = np.asarray(W.calculate(arr_), dtype=float)
                okl = got_.shape == want_.shape and bool(np.array_equal(got_, want_, equal_nan=True))
            except Exception as e:
                okl = False; got_ = repr(e)
            ctx.pred('eval', case, okl, '%s: evaluated on a %s the value at an element differs from the value of that distance in the 1-D grid' % (k, nm_), key='C10:elementwise')
            if not okl: break
    # a deep copy (what a PairTable stores, what a PRISM object holds) is an object of its own: re-using the ORIGINAL for the next pair
    # with other parameters must not change what the copy returns
    import copy
    V = copy.deepcopy(U)
    for attr, val in (('epsilon', 3.0 * pp.get('eps', 1.0) + 1.0), ('sigma', s_ * 1.7), ('alpha', 0.123), ('high_value', 7.0), ('rcut', 9.9)):
        if hasattr(U, attr):
            try: setattr(U, attr, val)
            except Exception: pass
    with np.errstate(all='ignore'):
        outV = np.array(V.calculate(r), dtype=float)
    ctx.pred('eval', case, bool(np.array_equal(outV, out, equal_nan=True)), '%s: a deep copy returns other values after the attributes of the original object were changed' % k, key='C10:purity')

def suite_sigma(ctx, case):
    """sigma defaulting through createPRISM and the contact rule on a real Domain"""
    L, dr = case['L'], case['dr']; d1, d2 = case['d']; kT = case['kT']
    sys_ = pyPRISM.System(['A', 'B'], kT=kT)
    PYc = lambda: pyPRISM.closure.PercusYevick(apply_hard_core=True) if case.get('hc') else pyPRISM.closure.PercusYevick()      # closures that apply their own hard core (at the mean diameter)
    sys_.domain = pyPRISM.Domain(length=L, dr=dr)
    sys_.density['A'] = 0.1; sys_.density['B'] = 0.2
    for (t, v) in case.get('pre', []):
        sys_.diameter[t] = v                      # earlier values of a size scan (any order); the final ones follow
    for t, v in (case.get('order') or [['A', d1], ['B', d2]]):
        sys_.diameter[t] = v
    sys_.omega[['A', 'B'], ['A', 'B']] = pyPRISM.omega.SingleSite()
    sys_.omega['A', 'B'] = pyPRISM.omega.NoIntra()
    how = case.get('assign', 'group')          # how the ONE sigma-less potential / closure object reaches the three pairs
    if how == 'setunset':
        sys_.closure.setUnset(PYc()); sys_.potential.setUnset(pyPRISM.potential.HardSphere())
    elif how == 'shared':
        U = pyPRISM.potential.HardSphere(); C = PYc()
        for a, b in (('A', 'A'), ('A', 'B'), ('B', 'B')):
            sys_.potential[a, b] = U; sys_.closure[a, b] = C          # one object assigned pair by pair
    elif how == 'partial+setunset':
        sys_.potential['A', 'A'] = pyPRISM.potential.HardSphere(); sys_.closure['B', 'B'] = PYc()
        sys_.closure.setUnset(PYc()); sys_.potential.setUnset(pyPRISM.potential.HardSphere())
    else:
        sys_.closure[['A', 'B'], ['A', 'B']] = PYc()
        sys_.potential[['A', 'B'], ['A', 'B']] = pyPRISM.potential.HardSphere()
    explicit = case.get('explicit')
    if explicit is not None:
        sys_.potential['A', 'B'] = pyPRISM.potential.HardSphere(sigma=explicit)
    p = sys_.createPRISM()
    r = sys_.domain.r
    ok = True; why = ''
    for (a, b, da, db) in (('A', 'A', d1, d1), ('A', 'B', d1, d2), ('B', 'B', d2, d2)):
        s = (da + db) / 2.0
        if (a, b) == ('A', 'B') and explicit is not None: s = explicit
        want = np.where(r > s, 0.0, 1e6) / kT
        got = p.sys.closure[a, b].potential
        if not np.array_equal(want, got): ok = False; why = 'pair %s-%s: closure does not see U(sigma=%r)/kT' % (a, b, s)
        if p.sys.closure[a, b].sigma != (da + db) / 2.0: ok = False; why = 'closure contact distance of %s-%s is not the mean diameter' % (a, b)
        if p.sys.potential[a, b].sigma != s: ok = False; why = 'pair %s-%s: the potential evaluated has sigma=%r, not %r' % (a, b, p.sys.potential[a, b].sigma, s)
    # the object's tables are symmetric: the pair looked up in the other order is the very same (configured) entry
    for (a, b) in (('B', 'A'),):
        if p.sys.potential[a, b] is not p.sys.potential[b, a] or p.sys.closure[a, b] is not p.sys.closure[b, a] or p.sys.potential[a, b].sigma is None or p.sys.closure[a, b].potential is None:
            ok = False; why = 'pair %s-%s looked up in the other order is not the configured entry (sigma %r)' % (a, b, p.sys.potential[a, b].sigma)
    if sys_.potential['A', 'A'].sigma is not None or sys_.closure['A', 'A'].potential is not None:
        ok = False; why = 'createPRISM wrote sigma/potential into the System\'s own objects'
    ctx.pred('sigma', case, ok, why, key='C10:sigma-default')
    # contact rule: a grid point within the system check's tolerance (1e-6) of sigma is in the core, for every pair alike
    tol = 1e-6
    for (a, b, s) in (('A', 'A', d1), ('A', 'B', (d1 + d2) / 2.0 if explicit is None else explicit), ('B', 'B', d2)):
        near = np.abs(r - s) < tol
        u = p.sys.closure[a, b].potential * kT
        if np.any(near):
            okc = bool(np.all(u[near] == 1e6))
            off = float((r[near] - s)[0])
            # the known finding F7 is about grid points that ARE the correctly rounded products (i+1)*dr and still compare above sigma;
            # a grid that is itself off by an ulp from (i+1)*dr is another matter
            idx = int(np.argmax(near))
            exact_grid = float(r[idx]) == (idx + 1) * float(dr)
            ctx.pred('sigma', dict(case, pair=a + b), okc,
                     'grid point nominally at sigma=%r (r - sigma = %.3g%s) is outside the core of pair %s-%s' % (s, off, '' if exact_grid else '; the grid point is not (i+1)*dr', a, b),
                     key='C10:contact-float-noise' if (0 < off < tol and exact_grid) else 'C10:contact')

def suite_intgrid(ctx, case):
    """grids whose dtype is not float64: Domain(dr=1) (an int spacing) has an INTEGER r array; float32 grids; the documented u(r)
    must come out whatever the dtype of the distances (identical distances -> identical values)"""
    L = case['L']; dr = case['dr']
    d = pyPRISM.Domain(length=L, dr=dr)
    grids = {'domain': d.r, 'int64': np.arange(1, L + 1) * int(dr), 'float64': (np.arange(1, L + 1) * int(dr)).astype(float)}
    U = make(case)
    ref = np.array([documented(case, float(x)) for x in grids['float64']])
    for name, r in grids.items():
        with np.errstate(all='ignore'):
            out = np.array(make(case).calculate(r), dtype=float)
        ok = out.shape == ref.shape and bool(np.all((out == ref) | (np.abs(out - ref) <= 1e-11 * np.maximum(np.abs(ref), np.abs(out)) + 1e-300)))
        ctx.pred('intgrid', case, ok, '%s on the %s grid (dtype %s) differs from the documented u(r): %r vs %r' % (case['pot'], name, r.dtype, out[:4].tolist(), ref[:4].tolist()),
                 key='C10:documented-u')
    ctx.corr('intgrid', case, ctx.drv.ask(line(case, grids['float64'])), fl(np.array(make(case).calculate(grids['domain']), dtype=float)), rtol=1e-12,
             atols=[1e-12 * (abs(x) + 1) for x in ref], what=case['pot'] + '.calculate on Domain(dr=%r).r' % dr)

def suite_objhistory(ctx, case):
    """ONE potential object evaluated repeatedly while its sigma (and for LJ its cut) is re-assigned between calls and the
    distances are given in arbitrary order: every call must return the documented u(r) for the attributes as they are NOW"""
    U = make(case)
    cur = dict(case, p=dict(case['p']))
    rs = np.random.RandomState(case['rseed'])
    for step, sig in enumerate(case['sigmas']):
        if sig is not None:
            U.sigma = sig; cur['p']['sigma'] = sig
        r = np.array(case['r'], dtype=float).copy()
        if case['order'][step] == 'shuffled': rs.shuffle(r)
        elif case['order'][step] == 'descending': r = r[::-1].copy()
        with np.errstate(all='ignore'):
            out = np.array(U.calculate(r), dtype=float)
        ref = np.array([documented(cur, float(x)) for x in r])
        pp = cur['p']; e_ = abs(pp.get('eps', 0.0)); s_ = pp['sigma']
        rc_ = pp.get('rcut') if cur['pot'] != 'wca' else s_ * 2 ** (1.0 / 6.0)
        mag = lambda x: 0.0 if x == 0 else 4 * e_ * ((s_ / x) ** 12 + (s_ / x) ** 6)
        at = np.array([1e-11 * (mag(float(x)) + (mag(rc_) if rc_ else 0.0)) for x in r])
        ok = bool(np.all((out == ref) | (np.abs(out - ref) <= 1e-11 * np.maximum(np.abs(ref), np.abs(out)) + at)))
        sub = dict(case, sigmas=case['sigmas'][:step + 1])
        ctx.pred('objhistory', sub, ok, '%s: evaluation #%d of one object (sigma now %r, distances %s) is not the documented u(r)' % (case['pot'], step, cur['p']['sigma'], case['order'][step]),
                 key='C10:documented-u')
        ctx.corr('objhistory', sub, ctx.drv.ask(line(cur, r)), fl(out), rtol=1e-12, atols=list(at), what='%s.calculate, evaluation #%d of one object' % (case['pot'], step))

SUITES = {'eval': suite_eval, 'sigma': suite_sigma, 'intgrid': suite_intgrid, 'objhistory': suite_objhistory}

def gen_eval(rng, maxL):
    L = rng.choice([2, 4, 8, 16, rng.randint(1, maxL)])
    dr = round(rng.choice([0.05, 0.1, 0.2, 0.25, rng.uniform(0.01, 0.5)]), 4)
    r = [float(x) for x in pyPRISM.Domain(length=L, dr=dr).r[:L]]
    sk = rng.choice(['grid', 'grid', 'between', 'below', 'above'])
    if sk == 'grid': sigma = r[rng.randrange(len(r))]
    elif sk == 'between': sigma = r[rng.randrange(len(r))] + dr * rng.uniform(0.1, 0.9)
    elif sk == 'below': sigma = r[0] * rng.uniform(0.3, 0.9)
    else: sigma = r[-1] * rng.uniform(1.1, 1.5)
    pot = rng.choice(['hs', 'exp', 'lj', 'ljcut', 'ljshift', 'hclj', 'wca'])
    eps = round(rng.choice([rng.uniform(0.1, 3.0), -rng.uniform(0.1, 3.0), 10 ** rng.uniform(-3, 1)]), 5)
    if pot == 'wca' and rng.random() < 0.8: eps = abs(eps)
    p = {'sigma': sigma, 'eps': eps, 'high': rng.choice([1e6, 1e5, 1e3, 50.0]), 'alpha': rng.choice([round(rng.uniform(0.1, 3.0), 4), round(rng.uniform(0.1, 3.0), 4), 2.0 ** -7, 1e-3, sigma / 2000.0])}
    if pot in ('ljcut', 'ljshift'):
        p['rcut'] = rng.choice([sigma * rng.uniform(0.5, 0.99), sigma, sigma * rng.uniform(1.01, 3.0), r[rng.randrange(len(r))], 2.5 * sigma])
    extra = [sigma * (1 - 1e-12), sigma, sigma * (1 + 1e-12)]
    if 'rcut' in p: extra += [p['rcut'] * (1 - 1e-12), p['rcut'], p['rcut'] * (1 + 1e-12)]
    if pot == 'wca': extra += [sigma * 2 ** (1.0 / 6.0), sigma * 1.12, sigma * 1.13]
    if pot in ('hs', 'exp', 'hclj') and rng.random() < 0.25: r = [0.0] + r          # grids that start AT the origin (np.linspace(0, ...)): r = 0 is inside every core
    return {'pot': pot, 'p': p, 'r': r + extra, 'fam': sk}

def generate(ctx):
    rng = ctx.rng; maxL = ctx.n(40, 300)
    for _ in range(ctx.n(1200, 60000)):
        c = gen_eval(rng, maxL)
        s = c['p']['sigma']; n_in = sum(1 for x in c['r'] if not x > s)
        ctx.case('eval', c, 0 < n_in < len(c['r']), tags=['pot:' + c['pot'], 'sigma:' + c['fam']])
        suite_eval(ctx, c)
    for _ in range(ctx.n(60, 3000)):
        c = gen_eval(rng, 8)
        L = rng.choice([4, 8, 12]); dr = rng.choice([1, 1, 2])
        c['p']['sigma'] = float(rng.choice([1, 2, 3]) * dr) + rng.choice([0.0, 0.0, 0.5])
        if 'rcut' in c['p']: c['p']['rcut'] = c['p']['sigma'] * rng.choice([1.5, 2.0, 2.5])
        case = {'pot': c['pot'], 'p': c['p'], 'L': L, 'dr': dr}
        ctx.case('intgrid', case, True, tags=['intgrid:' + c['pot']]); suite_intgrid(ctx, case)
    for _ in range(ctx.n(150, 5000)):
        c = gen_eval(rng, 16)
        k = rng.randint(2, 4)
        s0 = c['p']['sigma']
        c['sigmas'] = [None] + [float('%.6g' % (s0 * rng.choice([0.6, 0.8, 1.25, 1.5, 1.0]))) for _ in range(k - 1)]
        c['order'] = [rng.choice(['ascending', 'ascending', 'shuffled', 'descending']) for _ in range(k)]
        c['rseed'] = rng.randrange(10 ** 6)
        ctx.case('objhistory', c, True, tags=['objhistory:' + c['pot']]); suite_objhistory(ctx, c)
    # sigma defaulting and contact classification: sigma = every multiple of dr for several spacings
    for dr in ([0.1, 0.05, 0.25, 0.2] if ctx.quick() else [0.1, 0.05, 0.025, 0.25, 0.2, 0.125, 0.01, 0.3]):
        L = ctx.n(32, 128)
        for m in range(1, ctx.n(24, 100)):
            d1 = float(pyPRISM.Domain(length=L, dr=dr).r[0]) * 0 + m * dr
            d2 = (m + 2 * rng.randrange(0, 3)) * dr
            case = {'L': L, 'dr': dr, 'd': [d1, d2], 'kT': rng.choice([1.0, 0.5, 2.0]), 'explicit': rng.choice([None, None, (m + 1) * dr, 0.0, 0])}
            case['assign'] = rng.choice(['group', 'group', 'setunset', 'shared', 'partial+setunset']); case['hc'] = rng.random() < 0.4
            c0 = rng.random()
            if c0 < 0.3: case['pre'] = [['A', 3 * dr], ['B', 5 * dr]]; case['order'] = rng.choice([[['A', d1]], [['B', d2], ['A', d1]], [['A', d1], ['B', d2]]])
            if case.get('order') == [['A', d1]]: case['d'] = [d1, 5 * dr]
            elif c0 < 0.45: case['order'] = [['B', d2], ['A', d1]]
            ctx.case('sigma', case, True, tags=['sigma-suite dr=%g' % dr, 'assign:' + case['assign']])
            suite_sigma(ctx, case)
