"""C08 — to_fourier/to_real approximate the continuous 3-D radial Fourier transform."""
import math
from ..implenv import np, pyPRISM
from ..driver import f2h, fl, h2f

RULE = ("(riemann) random arrays on random Domains (lengths 3-96 incl. primes, from dr or dk, after setter histories): to_fourier / to_real compared entry by entry with the explicit Riemann sums of the 3-D "
        "transform pair with prefactors 4*pi and 1/(2 pi^2) (theorems toFourier_riemann / toReal_riemann, evaluated independently of scipy's DST) and with the Lean model; (analytic) the families Gaussian "
        "A exp(-a r^2), Yukawa A exp(-kappa r)/r, exponential A exp(-kappa r), sphere indicator, widths/amplitudes resolved by the grid, on refinement families dr, dr/2, dr/4 (also non-5-smooth lengths "
        "N0-1, N0+1 ... at fixed r_max): forward error at every fixed resolved k and backward error at every fixed r > 0 bounded by C*dr with C from the coarsest grid, decreasing under refinement; "
        "k -> 0 value vs the volume integral; the transform is reached directly, as a row of a (m, length) stack, or through MatrixArray_to_fourier/_to_real on a MatrixArray object that was used before with other contents. Non-trivial = all; distinct = distinct case")
EXTRA_TRUSTED = ["closed-form continuous transforms of the Gaussian / Yukawa / exponential / sphere families are textbook formulas used as numerical references only",
                 "scipy.fftpack.dst modelled by its documented direct sums (validated in C07 on every run)"]
ASSUMPTIONS = ["test functions resolved by the grid (width >= 4 dr) and decayed at r_max", "the O(dr) constant is taken from the coarsest member of the family"]

def fam(name, A, a):
    """(f(r), F(k), volume integral)"""
    if name == 'gauss':
        return (lambda r: A * np.exp(-a * r * r), lambda k: A * (math.pi / a) ** 1.5 * np.exp(-k * k / (4 * a)), A * (math.pi / a) ** 1.5)
    if name == 'yukawa':
        return (lambda r: A * np.exp(-a * r) / r, lambda k: 4 * math.pi * A / (k * k + a * a), 4 * math.pi * A / (a * a))
    if name == 'exp':
        return (lambda r: A * np.exp(-a * r), lambda k: 8 * math.pi * A * a / (k * k + a * a) ** 2, 8 * math.pi * A / a ** 3)
    if name == 'sphere':
        return (lambda r: A * (r < a).astype(float), lambda k: 4 * math.pi * A * (np.sin(k * a) - k * a * np.cos(k * a)) / k ** 3, 4 * math.pi * A * a ** 3 / 3)

def build(case):
    kw = {'dr': case['dr']} if case.get('dr') is not None else {'dk': case['dk']}
    d = pyPRISM.Domain(length=case['L'], **kw)
    for k, v in case.get('ops', []):
        if k == 'length': d.length = int(v)
        elif k == 'dr': d.dr = v
        else: d.dk = v
    return d

def suite_riemann(ctx, case):
    d = build(case); N = int(d.length)
    if case.get('decoy'):
        decoy = pyPRISM.Domain(length=N, dr=float(d.dr) * 0.37); decoy.dk = float(d.dk) * 1.9          # another Domain configured later
    rs = np.random.RandomState(case['aseed'])
    f = rs.normal(size=N) * np.exp(-np.arange(N) / (0.3 * N + 1)) * case.get('amp', 1.0)
    if case.get('dtype') == 'int': f = np.rint(3 * f / (np.max(np.abs(f)) + 1e-300)).astype(int)        # integer-typed samples, e.g. np.where(r <= R, 1, 0)
    elif case.get('dtype') == 'bool': f = f > 0                                                        # boolean indicator r <= R
    given = f.copy()
    dr = float(d.dr); dk = float(d.dk)
    if case.get('rejected_setter'):
        # a spacing assignment that is REJECTED (zero: the conjugate spacing cannot be formed) and caught by the caller; the grids are
        # untouched and the transforms that follow are those of the spacing the grids have
        try: d.dr = 0
        except ZeroDivisionError: pass
        try: d.dk = 0
        except ZeroDivisionError: pass
    F = d.to_fourier(f); R = d.to_real(f)
    ctx.pred('riemann', case, bool(np.array_equal(f, given)) and f.dtype == given.dtype, 'a transform modified the array it was given', key='C08:purity')
    f = np.asarray(f, dtype=float)
    r = np.arange(1, N + 1) * dr; k = np.arange(1, N + 1) * dk
    S = np.sin(np.outer(k, r - dr / 2))                     # S[j,i] = sin(k_j (r_i - dr/2))
    Fref = (4 * math.pi * dr / k) * (S @ (r * f))
    w = np.ones(N); w[-1] = 0.5
    Rref = (dk / (2 * math.pi ** 2 * r)) * (S.T @ (w * k * f))
    for name, got, ref in (('to_fourier', F, Fref), ('to_real', R, Rref)):
        sc = float(np.max(np.abs(ref))) + 1e-300
        e = float(np.max(np.abs(got - ref)))
        ctx.pred('riemann', case, e <= 1e-9 * sc, '%s is not the Riemann sum of the 3-D transform with prefactor %s and conjugate spacing dk=pi/(dr N): max diff %.3g on scale %.3g' %
                 (name, '4 pi' if name == 'to_fourier' else '1/(2 pi^2)', e, sc), key='C08:riemann-' + name)
    # model correspondence (the same definitions the theorems are about)
    drv = ctx.drv
    o = lambda v: 'N' if v is None else f2h(v)
    drv.ask('dom.new %d %s %s' % (case['L'], o(case.get('dr')), o(case.get('dk'))))
    for kk, v in case.get('ops', []):
        drv.ask('dom.set %s %s' % (kk, ('%d' % int(v)) if kk == 'length' else f2h(v)))
    ctx.corr('riemann', case, drv.ask('dom.tf ' + fl(f)), fl(F), rtol=1e-9, scale=float(np.max(np.abs(F))) + 1e-300, what='to_fourier vs model')
    ctx.corr('riemann', case, drv.ask('dom.tr ' + fl(f)), fl(R), rtol=1e-9, scale=float(np.max(np.abs(R))) + 1e-300, what='to_real vs model')

def transform(d, arr, way, via, store):
    """the same transform reached through the other public entry points: a (m, length) stack of functions (one per row), or a
    MatrixArray object that already has a past (iterated over and transformed with other contents, then given new data)"""
    if via == 'stack' or via == 'row':
        out = (d.to_fourier if way == 'F' else d.to_real)(np.array([arr, 0.5 * arr] if via == 'stack' else [arr]))
        return np.asarray(out, dtype=float)[0]
    if via == 'ma':
        from pyPRISM.core.MatrixArray import MatrixArray
        from pyPRISM.core.Space import Space
        N = len(arr); m = store.get(id(d))
        if m is None:
            store['lab'] = store.get('lab', 0) + 1
            m = store[id(d)] = MatrixArray(length=N, rank=2, space=Space.Real, types=[None, [1, 2], ['B', 'A'], [1, 0]][store['lab'] % 4])          # also integer labels that are positions of the OTHER entry
            m.data = np.random.RandomState(5).normal(size=(N, 2, 2)); m.data = m.data + m.data.transpose(0, 2, 1)
            for _ in m.iterpairs(): pass
            d.MatrixArray_to_fourier(m)
        new = np.zeros((N, 2, 2)); new[:, 0, 0] = arr; new[:, 0, 1] = new[:, 1, 0] = arr; new[:, 1, 1] = -arr
        # the data in the memory layouts users produce: C order, Fortran order, the transposed view of a (rank, rank, length) table, a block of a larger array
        lay = store['n'] = store.get('n', 0) + 1
        if lay % 4 == 1: new = np.asfortranarray(new)
        elif lay % 4 == 2: new = np.ascontiguousarray(new.transpose(2, 1, 0)).T
        elif lay % 4 == 3:
            big = np.zeros((N, 3, 3)); big[:, :2, :2] = new; new = big[:, :2, :2]
        m.data = new; m.space = Space.Real if way == 'F' else Space.Fourier
        (d.MatrixArray_to_fourier if way == 'F' else d.MatrixArray_to_real)(m)
        return np.array(m.data[:, 0, 1], dtype=float)
    return (d.to_fourier if way == 'F' else d.to_real)(arr)

def suite_analytic(ctx, case):
    name, A, a = case['fam']; f, Fh, vol = fam(name, A, a)
    via = case.get('via', 'direct'); store = {}
    rmax = case['rmax']; N0 = case['N0']
    errs_f = []; errs_b = []; errs_0 = []; drs = []
    family = [pyPRISM.Domain(length=N, dr=rmax / N) for N in case['Ns']] if case.get('family_first') else None      # all members built before any is used
    for m, N in enumerate(case['Ns']):
        dr = rmax / N
        d = family[m] if family else pyPRISM.Domain(length=N, dr=dr)
        ctx.validation_runs += 1
        nk = max(2, N0 // 4)                                  # resolved wavenumbers: the lowest quarter of the coarsest grid
        F = transform(d, f(d.r), 'F', via, store)
        kk = d.k[:nk]
        if not np.allclose(kk, (np.arange(1, nk + 1)) * math.pi / rmax, rtol=1e-9):
            ctx.pred('analytic', case, False, 'k grid of Domain(length=%d, dr=%g) is not (j+1) pi / r_max' % (N, dr), key='C08:forward'); return
        scale = max(abs(vol), 1e-300)
        errs_f.append(float(np.max(np.abs(F[:nk] - Fh(kk)))) / scale)
        # k -> 0: quadratic extrapolation of the three lowest k against the volume integral
        k3 = d.k[:3]; y3 = F[:3]
        y0 = y3[0] * k3[1] * k3[2] / ((k3[0] - k3[1]) * (k3[0] - k3[2])) + y3[1] * k3[0] * k3[2] / ((k3[1] - k3[0]) * (k3[1] - k3[2])) + y3[2] * k3[0] * k3[1] / ((k3[2] - k3[0]) * (k3[2] - k3[1]))
        z3 = Fh(k3)
        z0 = z3[0] * k3[1] * k3[2] / ((k3[0] - k3[1]) * (k3[0] - k3[2])) + z3[1] * k3[0] * k3[2] / ((k3[1] - k3[0]) * (k3[1] - k3[2])) + z3[2] * k3[0] * k3[1] / ((k3[2] - k3[0]) * (k3[2] - k3[1]))
        # the discretisation part of the k -> 0 value (the same extrapolation applied to the exact transform is the reference;
        # the exact transform itself tends to the volume integral analytically)
        errs_0.append(abs(y0 - z0) / scale)
        # backward at the fixed r of the coarsest grid (they are grid points of every member when N is a multiple of N0)
        if N % N0 == 0:
            q = N // N0
            Rb = transform(d, Fh(d.k), 'R', via, store)
            idx = np.arange(q - 1, N, q)[: max(2, N0 // 2)]
            ref = f(d.r[idx])
            sel = d.r[idx] > 2 * rmax / N0
            errs_b.append(float(np.max(np.abs(Rb[idx][sel] - ref[sel]))) / max(abs(A), 1e-300))
        drs.append(dr)
    case2 = dict(case, errs_f=errs_f, errs_b=errs_b, errs_0=errs_0)
    # first-order criterion: err(dr_m) <= C dr_m with C from the coarsest grid (x2 slack), and the error does not grow
    if name == 'sphere':
        # discontinuous f: the error is that of one cell at the jump, <= (shell of thickness dr) / (sphere volume) = 3 dr / a, not monotone
        okf = all(e <= 1.5 * 3.0 * h / a + 1e-9 for e, h in zip(errs_f, drs))
    else:
        C = max(errs_f[0] / drs[0], 1e-9 / drs[0])
        okf = all(e <= 2.0 * C * h + 1e-9 for e, h in zip(errs_f, drs)) and errs_f[-1] <= errs_f[0] * 1.05 + 1e-9 and errs_f[0] < 0.25
    ctx.pred('analytic', case2, okf, '%s(A=%g, a=%g): to_fourier does not converge to 4 pi Int f r sin(kr)/k dr like C*dr: relative errors %s for dr %s' %
             (name, A, a, ['%.3g' % e for e in errs_f], ['%.3g' % h for h in drs]), key='C08:forward')
    if name == 'sphere':
        ok0 = all(e <= 1.5 * 3.0 * h / a + 1e-9 for e, h in zip(errs_0, drs))
    else:
        C0 = max(errs_0[0] / drs[0], 1e-9 / drs[0])
        ok0 = all(e <= 2.0 * C0 * h + 1e-9 for e, h in zip(errs_0, drs)) and errs_0[0] < 0.25
    ctx.pred('analytic', case2, ok0, '%s: k -> 0 value does not tend to the volume integral: relative errors %s' % (name, ['%.3g' % e for e in errs_0]), key='C08:k-to-zero')
    if len(errs_b) >= 2 and name != 'sphere' and name != 'yukawa':
        Cb = max(errs_b[0] / drs[0], 1e-9 / drs[0])
        okb = all(e <= 2.0 * Cb * h + 1e-9 for e, h in zip(errs_b, [h for h, N in zip(drs, case['Ns']) if N % N0 == 0])) and errs_b[-1] <= errs_b[0] * 1.05 + 1e-9 and errs_b[0] < 0.25
        ctx.pred('analytic', case2, okb, '%s(A=%g, a=%g): to_real does not invert the transform like C*dr: relative errors %s' % (name, A, a, ['%.3g' % e for e in errs_b]), key='C08:backward')

SUITES = {'riemann': suite_riemann, 'analytic': suite_analytic}

def generate(ctx):
    rng = ctx.rng
    for _ in range(ctx.n(150, 6000)):
        L = rng.choice([3, 4, 5, 7, 8, 11, 13, 16, 17, 23, 31, 32, 33, 47, 64, 96, rng.randint(3, ctx.n(96, 200))])
        case = {'L': L, 'aseed': rng.randrange(10 ** 6), 'ops': [], 'amp': rng.choice([1.0, 1.0, 1.0, 1e-9, 1e-12, 1e6])}
        c0 = rng.random()
        if c0 < 0.15: case['dk'] = float('%.5g' % (10 ** rng.uniform(-3.5, -2)))          # very fine k grids (large r_max): k well below 0.01
        elif c0 < 0.25: case['dr'] = float('%.5g' % (10 ** rng.uniform(0.5, 1.5)))
        else: case['dr' if rng.random() < 0.5 else 'dk'] = float('%.5g' % (10 ** rng.uniform(-2, 0.5)))
        if rng.random() < 0.12: case.pop('dk', None); case['dr'] = rng.choice([1, 2, 3])        # integer-TYPED spacing: Domain(length, dr=1)
        elif rng.random() < 0.12: case.pop('dk', None); case['dr'] = float('%.5g' % (10 ** rng.uniform(-12, -9)))      # lengths in metres: spacings of 1e-12 .. 1e-9
        case['dtype'] = rng.choice(['float', 'float', 'float', 'int', 'bool']); case['decoy'] = rng.random() < 0.5
        case['rejected_setter'] = rng.random() < 0.15
        for _ in range(rng.choice([0, 0, 1, 2])):
            k = rng.choice(['dr', 'dk', 'length'])
            case['ops'].append([k, rng.choice([5, 9, 16, 21, 40]) if k == 'length' else float('%.5g' % (10 ** rng.uniform(-2, 0.5)))])
        ctx.case('riemann', case, True, tags=['dtype:' + case['dtype'], 'intdr' if isinstance(case.get('dr'), int) else 'floatdr', 'from:' + ('dr' if 'dr' in case else 'dk'), 'hist:%d' % len(case['ops'])]); suite_riemann(ctx, case)
    for _ in range(ctx.n(40, 1000)):
        rmax = rng.choice([20.0, 25.6, 30.0, 40.0, 800.0, 2000.0])
        N0 = rng.choice([100, 128, 160, 200, 250])
        if rmax >= 800: N0 = rng.choice([400, 500])                      # large boxes: dk = pi/r_max < 0.01
        name = rng.choice(['gauss', 'gauss', 'yukawa', 'exp', 'sphere'])
        A = float('%.3g' % (rng.choice([-1, 1]) * 10 ** rng.choice([rng.uniform(-1, 1), rng.uniform(-1, 1), rng.uniform(-12, -9), rng.uniform(5, 8)])))
        dr0 = rmax / N0
        if name == 'gauss': a = float('%.4g' % (1.0 / rng.uniform(6 * dr0, max(7 * dr0, min(rmax / 6, 60 * dr0))) ** 2))
        elif name == 'sphere': a = float('%.4g' % rng.uniform(8 * dr0, min(rmax / 4, 80 * dr0)))
        else: a = float('%.4g' % (1.0 / rng.uniform(5 * dr0, max(6 * dr0, min(rmax / 14, 40 * dr0)))))
        mode = rng.choice(['x2', 'x2', 'odd'])
        Ns = [N0, 2 * N0, 4 * N0] if mode == 'x2' else [N0, 2 * N0 + rng.choice([-1, 1]), 4 * N0 + rng.choice([-3, -1, 1, 3])]
        case = {'fam': [name, A, a], 'rmax': rmax, 'N0': N0, 'Ns': Ns, 'family_first': rng.random() < 0.5, 'via': rng.choice(['direct', 'direct', 'stack', 'row', 'ma'])}
        ctx.case('analytic', case, True, tags=['fam:' + name, 'refine:' + mode, 'via:' + case['via']]); suite_analytic(ctx, case)
