"""C03 — Hard-core exclusion: g(r) vanishes everywhere inside the contact distance."""
import math, warnings
from ..implenv import np, pyPRISM
from ..driver import f2h, fl, h2f
from .. import sysgen as G
from . import C01
from pyPRISM.core.Space import Space

RULE = ("(closure) all four closures x hard-core flag x {HardSphere, HardCoreLennardJones, Exponential, soft potentials} on real Domain grids with sigma on / between grid points, "
        "gamma normal with +-50 tails and (a quarter of the cases) 720/800 at the first grid points: inside the core c must equal -1-gamma BITWISE (flag, or PY/HNC without flag on the shipped overlap values), compared with the Lean closure model; "
        "(cost) random multi-pair systems in which only SOME pairs have cores, arbitrary x (zero/moderate/asymmetric): after every cost(x) the back-transformed c satisfies c + gamma_in = -1 "
        "and g = h+1 = y/r at every core point of every cored pair, model correspondence of the whole evaluation; (solve) solved 1-3 component objects, every scipy method: |g| <= |fun|/r inside "
        "every core; (sweep) one System edited (diameters) and re-used for createPRISM: cores follow the current diameters. Non-trivial = a cored pair next to an uncored one or non-zero gamma; distinct = distinct case")
EXTRA_TRUSTED = ["IEEE: exp(-x) = 0 for x > 745.2 (used by PY/HNC without the flag on the shipped overlap values 1e5..1e7 at kT <= 100); outside the reals, sampled"] + C01.EXTRA_TRUSTED
ASSUMPTIONS = C01.ASSUMPTIONS + ["overlap value / kT > 746 for the no-flag clause (MSA and MS are documented not to work without the flag)"]
CLO = {'py': pyPRISM.closure.PercusYevick, 'hnc': pyPRISM.closure.HyperNettedChain,
       'msa': pyPRISM.closure.MeanSphericalApproximation, 'ms': pyPRISM.closure.MartynovSarkisov}

def has_core(pr, kT):
    """does the property demand exclusion for this pair?"""
    kind, hc = pr['clo']; pk = pr['pot'][0]
    if hc: return True
    if kind in ('py', 'hnc') and pk in ('hs', 'exp', 'hclj'):
        high = pr['pot'][2] if pk == 'hs' else (pr['pot'][4] if pk == 'exp' else pr['pot'][3])
        return high / kT > 746
    return False

def core_sigma(pr, sig_diam):
    """the contact distance of the pair's core: the closure's sigma with the flag, the potential's own sigma without"""
    if pr['clo'][1]: return sig_diam
    return pr['pot'][1] if pr['pot'][1] is not None else sig_diam

def suite_closure(ctx, case):
    L, dr = case['dom']; d = pyPRISM.Domain(length=L, dr=dr)
    kind, hc = case['clo']; sigma = case['sigma']; kT = case['kT']
    U = G.mk_pot(case['pot']); U.sigma = case['pot'][1] if case['pot'][1] is not None else sigma
    with np.errstate(all='ignore'):
        u = U.calculate(d.r) / kT
    rs = np.random.RandomState(case['gseed'])
    g = rs.normal(size=L) * case['gamp']
    g[rs.randint(L)] = 50.0; g[rs.randint(L)] = -50.0
    if case.get('huge'):
        g[0] = 800.0; g[min(1, L - 1)] = 720.0          # exp(gamma) alone overflows; gamma - H/kT does not
    clo = CLO[kind](apply_hard_core=hc); clo.sigma = sigma; clo.potential = u
    with np.errstate(all='ignore'):
        c = clo.calculate(d.r, g.copy())
    ufin = np.where(np.isfinite(u), u, 1e300)
    line = 'clos %s %d %s | %s | %s | %s' % (kind, 1 if hc else 0, f2h(sigma), fl(d.r), fl(g), fl(ufin))
    with np.errstate(all='ignore'):
        ok_fin = np.isfinite(c)
    ctx.corr('closure', case, ctx.drv.ask(line), fl(np.where(ok_fin, c, 0.0)) if not np.all(ok_fin) else fl(c), rtol=1e-11, atols=[1e-13 * (1 + abs(float(gi))) for gi in g], what='closure values incl. the core branch') if np.all(ok_fin) else None
    pr = {'clo': [kind, hc], 'pot': case['pot']}
    if has_core(pr, kT):
        sg = core_sigma(pr, sigma)
        core = d.r <= sg
        want = -1.0 - g
        ok = bool(np.array_equal(c[core], want[core]))
        ctx.pred('closure', case, ok, '%s(hard_core=%s) on %s: c != -1-gamma inside the core (max |c+gamma+1| = %.3g at %d core points)' %
                 (kind, hc, case['pot'][0], float(np.max(np.abs(c[core] + g[core] + 1))) if np.any(core) else 0.0, int(np.sum(core))), key='C03:closure-core')

def suite_cost(ctx, case):
    sd = case['sys']
    s = G.build_system(sd); G.feed(ctx.drv, sd)
    p = s.createPRISM()
    assert ctx.drv.ask('prism.create') == 'ok'
    d = p.sys.domain; n = sd['n']
    for x in case['xs']:
        sub = dict(case, xs=[x]); xa = np.array(x, dtype=float)
        with np.errstate(all='ignore'):
            y = p.cost(xa.copy())
        if not np.all(np.isfinite(y)):
            ctx.dist['cost:nonfinite-skipped'] += 1; continue
        res, cond = C01.prism_eq_residual(p)
        if cond > 1e6:
            ctx.dist['cost:illconditioned-skipped'] += 1; continue
        impl = G.cost_tok(p, y)
        ctx.corr('cost', sub, ctx.drv.ask('prism.cost ' + fl(xa)), impl, rtol=1e-9, atols=G.group_atols(impl, 1e-7 * max(cond, 1.0) / 10), what='cost(x) on a system with hard cores')
        gin = xa.reshape((-1, n, n)) / d.long_r; yv = y.reshape((-1, n, n))
        for (i, j) in G.pairs_of(n):
            pr = sd['pairs']['%d%d' % (i, j)]
            if not has_core(pr, sd['kT']): continue
            sg = core_sigma(pr, (sd['diam'][i] + sd['diam'][j]) / 2)
            core = d.r <= sg
            if not np.any(core): continue
            c = d.to_real(p.directCorr.data[:, i, j]); h = d.to_real(p.totalCorr.data[:, i, j])
            sc = max(1.0, float(np.max(np.abs(c))), float(np.max(np.abs(h)))) * d.length
            e1 = float(np.max(np.abs(c[core] + gin[core, i, j] + 1)))
            e2 = float(np.max(np.abs((h[core] + 1) - yv[core, i, j] / d.r[core])))
            ctx.pred('cost', sub, e1 <= 1e-10 * sc, 'pair %d%d: c + gamma_in != -1 inside the core after cost(x): %.3g' % (i, j, e1), key='C03:cost-core')
            ctx.pred('cost', sub, e2 <= 1e-9 * sc, 'pair %d%d: g = h+1 differs from y/r inside the core after cost(x): %.3g' % (i, j, e2), key='C03:g-is-residual')

def suite_solve(ctx, case):
    sd = case['sys']
    s = G.build_system(sd); p = s.createPRISM()
    guess = np.array(case['guess'], dtype=float) if case.get('guess') is not None else None
    for b in case.get('before', []):
        # the object is inspected BEFORE it is solved (g(r) of the initial state, a structure factor): nothing of that may survive the solve
        with np.errstate(all='ignore'):
            if b == 'pc': pyPRISM.calculate.pair_correlation(p)
            elif b == 'pmf': pyPRISM.calculate.pmf(p)
            elif b == 'sf': pyPRISM.calculate.structure_factor(p)
            elif b == 'partial': C01.solve_quiet(p, guess, case['method'], maxiter=2); pyPRISM.calculate.pair_correlation(p)
    res = C01.solve_quiet(p, guess, case['method'])
    if isinstance(res, Exception) or not getattr(res, 'success', False):
        ctx.dist['solve:not-converged:' + case['method']] += 1; return
    ctx.dist['solve:converged:' + case['method']] += 1
    n = sd['n']; d = p.sys.domain
    fun = np.abs(np.asarray(res.fun, dtype=float)).reshape((-1, n, n))
    for pre in case.get('pre', []):
        if pre == 'sf': pyPRISM.calculate.structure_factor(p)
        elif pre == 'b2': pyPRISM.calculate.second_virial(p)
        elif pre == 'pmf':
            with np.errstate(all='ignore'): pyPRISM.calculate.pmf(p)
    g = pyPRISM.calculate.pair_correlation(p)
    for (i, j) in G.pairs_of(n):
        pr = sd['pairs']['%d%d' % (i, j)]
        if not has_core(pr, sd['kT']): continue
        sg = core_sigma(pr, (sd['diam'][i] + sd['diam'][j]) / 2)
        core = d.r <= sg
        if not np.any(core): continue
        gij = g[s.types[i], s.types[j]]
        bound = fun[core, i, j] / d.r[core]
        sc = max(1.0, float(np.max(np.abs(p.totalCorr.data)))) * d.length
        bad = np.abs(gij[core]) > bound + 1e-9 * sc
        ctx.pred('solve', case, not bool(np.any(bad)), 'solved %s: |g| = %.3g inside the %d%d core exceeds |fun|/r = %.3g' %
                 (case['method'], float(np.max(np.abs(gij[core]))), i, j, float(np.max(bound))), key='C03:solved-core')

def suite_sweep(ctx, case):
    """the same System object is used for a diameter sweep: after every edit the cores of the NEW PRISM object must be those of the new diameters"""
    sd = case['sys']; n = sd['n']
    s = G.build_system(sd)
    cur = dict(sd, diam=list(sd['diam']))
    for step, (t, dnew) in enumerate([(None, None)] + case['edits']):
        if t is not None:
            s.diameter[s.types[t]] = dnew; cur['diam'][t] = dnew
        p = s.createPRISM(); d = p.sys.domain
        xa = np.array(case['x'], dtype=float)
        with np.errstate(all='ignore'):
            y = p.cost(xa.copy())
        if not np.all(np.isfinite(y)): continue
        gin = xa.reshape((-1, n, n)) / d.long_r
        for (i, j) in G.pairs_of(n):
            pr = cur['pairs']['%d%d' % (i, j)]
            if not has_core(pr, cur['kT']): continue
            sg = core_sigma(pr, (cur['diam'][i] + cur['diam'][j]) / 2)
            core = d.r <= sg
            if not np.any(core): continue
            c = d.to_real(p.directCorr.data[:, i, j])
            sc = max(1.0, float(np.max(np.abs(c)))) * d.length
            e1 = float(np.max(np.abs(c[core] + gin[core, i, j] + 1)))
            ctx.pred('sweep', dict(case, edits=case['edits'][:step]), e1 <= 1e-10 * sc,
                     'pair %d%d after %d diameter edit(s) on one System: c + gamma_in != -1 inside the current core (r <= %.4g): %.3g' % (i, j, step, sg, e1), key='C03:sweep-core')

SUITES = {'closure': suite_closure, 'cost': suite_cost, 'solve': suite_solve, 'sweep': suite_sweep}

def gen_cored_system(rng, maxn, maxL):
    """systems in which some pairs have a core (flag, or PY/HNC on an overlap potential) and others do not"""
    sd = G.gen_system(rng, maxn=maxn, maxL=maxL)
    keys = sorted(sd['pairs'])
    for q, k in enumerate(keys):
        pr = sd['pairs'][k]
        mode = rng.choice(['flag', 'noflag-overlap', 'soft', 'flag'])
        if mode == 'flag':
            pr['clo'] = [rng.choice(['py', 'hnc', 'msa', 'ms']), True]
        elif mode == 'noflag-overlap':
            pk = rng.choice(['hs', 'exp', 'hclj'])
            eps = float('%.3g' % rng.uniform(0.05, 0.8))
            pr['pot'] = {'hs': ['hs', None, 1e6], 'exp': ['exp', None, eps, 0.5, 1e6], 'hclj': ['hclj', None, eps, 1e6]}[pk]
            if rng.random() < 0.3: pr['pot'][1] = float('%.6g' % ((sd['diam'][int(k[0])] + sd['diam'][int(k[1])]) / 2))
            pr['clo'] = [rng.choice(['py', 'hnc']), False]
        else:
            pr['pot'] = ['wca', None, 1.0] if rng.random() < 0.5 else ['ljshift', None, 0.5, 2.5]
            pr['clo'] = [rng.choice(['py', 'hnc']), False]
    if rng.random() < 0.15:
        # energies in units where kT is large (kT ~ 1e5: J/mol-like numbers) with correspondingly tall walls: exp(-wall/kT) must still underflow
        f = rng.choice([1e5, 3e5])
        sd['kT'] = sd['kT'] * f
        if 'kT_assign' in sd: sd['kT_assign'] = sd['kT_assign'] * f
        for pr in sd['pairs'].values():
            P = pr['pot']; pk = P[0]
            if pk == 'hs': P[2] = 1e12
            elif pk == 'exp': P[2] *= f; P[4] = 1e12
            elif pk == 'hclj': P[2] *= f; P[3] = 1e12
            elif pk in ('lj', 'wca'): P[2] *= f
            elif pk in ('ljcut', 'ljshift'): P[2] *= f
    return sd

def generate(ctx):
    rng = ctx.rng
    for _ in range(ctx.n(300, 3000)):
        L = rng.choice([8, 16, 24, 32, 55]); dr = rng.choice([0.1, 0.05, 0.2, 0.25, 0.125, 0.3, 1, 2])      # 1, 2: an int spacing makes Domain.r an INTEGER array
        kind = rng.choice(['py', 'hnc', 'msa', 'ms']); hc = rng.random() < 0.6
        c = rng.random()
        sigma = (rng.randint(1, max(1, L // 2)) * dr if c < 0.5 else float('%.6g' % (rng.uniform(0.5, 0.5 * L) * dr)))
        pot = G.gen_pot(rng, sigma, soft_ok=hc, explicit_sigma=0.0)
        if not hc and kind in ('msa', 'ms'): kind = rng.choice(['py', 'hnc'])
        case = {'dom': [L, dr], 'clo': [kind, hc], 'sigma': sigma, 'kT': rng.choice([1.0, 1.0, 0.5, 2.0, 10.0]), 'pot': pot,
                'gseed': rng.randrange(10 ** 6), 'gamp': rng.choice([0.0, 1.0, 5.0]), 'huge': rng.random() < 0.25}
        ctx.case('closure', case, case['gamp'] > 0, tags=['clo:%s%s' % (kind, '+hc' if hc else ''), 'pot:' + pot[0], 'sigma:' + ('grid' if c < 0.5 else 'off-grid')])
        suite_closure(ctx, case)
    for _ in range(ctx.n(50, 400)):
        sd = gen_cored_system(rng, 3, ctx.n(24, 64))
        if rng.random() < 0.25: sd = G.scale_length(sd, rng.choice([1e-9, 1e-10, 1e-3, 1e-7]))          # the same system with lengths in metres / cm / other units
        xs = [G.gen_x(rng, sd, k) for k in ('zero', 'moderate', rng.choice(['moderate', 'asym']))]
        case = {'sys': sd, 'xs': xs}
        cored = sum(1 for pr in sd['pairs'].values() if has_core(pr, sd['kT']))
        ctx.case('cost', case, 0 < cored, tags=C01.tags_of(sd) + ['cored-pairs:%d/%d' % (cored, len(sd['pairs']))])
        suite_cost(ctx, case)
    for _ in range(ctx.n(25, 200)):
        sd = gen_cored_system(rng, 3, 24)
        for pr in sd['pairs'].values(): pr['pot'][1] = None        # contact distances left to default
        if rng.random() < 0.3: sd = G.scale_length(sd, rng.choice([1e-9, 1e-10, 1e-3, 1e-7]))
        dr = sd['dom'][1]
        edits = [[rng.randrange(sd['n']), G.grid_multiple(rng, dr, 0.4, 2.0)] for _ in range(rng.randint(1, 3))]
        case = {'sys': sd, 'edits': edits, 'x': G.gen_x(rng, sd, 'moderate')}
        ctx.case('sweep', case, True, tags=['sweep-edits:%d' % len(edits)]); suite_sweep(ctx, case)
    methods = ['krylov', 'hybr', 'lm', 'anderson', 'broyden1', 'df-sane']
    for q in range(ctx.n(12, 100)):
        sd = C01.gen_solvable(rng, maxn=ctx.n(2, 3), maxL=ctx.n(32, 64))
        m = methods[q % len(methods)]
        case = {'sys': sd, 'method': m, 'guess': None if rng.random() < 0.7 else G.gen_x(rng, sd, 'small'),
                'pre': rng.choice([[], ['sf'], ['b2', 'sf'], ['pmf'], ['sf', 'pmf']]), 'before': rng.choice([[], [], ['pc'], ['pmf'], ['sf', 'pc'], ['partial']])}
        ctx.case('solve', case, True, tags=['method:' + m, 'rank:%d' % sd['n'], 'pre:' + '+'.join(case['pre']), 'before:' + '+'.join(case['before'])])
        suite_solve(ctx, case)
