"""C06 — Post-processing is history independent and never corrupts the solved object."""
import copy, math, warnings
from ..implenv import np, pyPRISM
from ..driver import f2h, fl, h2f
from .. import sysgen as G
from . import C01
from pyPRISM.core.Space import Space
from pyPRISM.core.MatrixArray import MatrixArray

RULE = ("2- and 3-component PRISM objects, either solved (krylov / hybr / anderson) or hand-populated with random symmetric arrays; random call histories (<= 12 quick / <= 40 thorough) over "
        "{pair_correlation, structure_factor(normalize), pmf, second_virial(extrapolate), chi(extrapolate), spinodal_condition, solvation_potential(HNC|PY), user transform of "
        "totalCorr/directCorr/omega to the other space, re-solve from own x (only while omega is in Fourier space)}; after EVERY call the return value, the three stored arrays and their space flags are "
        "compared with the Lean model, and the return value with the same call on a pristine deep copy of the solved object (= fresh identically solved object); stored arrays compared in canonical "
        "(Fourier) form with the pristine ones; no call may raise. Non-trivial = >= 3 calls incl. a space change; distinct = distinct (object, op list)")
EXTRA_TRUSTED = C01.EXTRA_TRUSTED + ["np.polyfit(k[:3], y[:3], 2)(0) modelled as the Lagrange value at 0 of the quadratic through the three points (theorem extrapolate_is_quadratic); compared with rtol 1e-7"]
ASSUMPTIONS = ["domain length >= 3 (the extrapolation uses three points)", "g > 0 where pmf is compared; 1 + C S C > 0 where the PY solvation potential is compared", "rank >= 2 for chi / spinodal / solvation"]
BUDGET = {'quick': 900, 'thorough': 5400}
T = G.TYPES

OPS = ['pc', 'sf0', 'sf1', 'pmf', 'b20', 'b21', 'chi0', 'chi1', 'spin', 'solvH', 'solvP', 'flip_h', 'flip_c', 'flip_om', 'resolve']
BADFLIPS = ['badflip_h', 'badflip_c', 'badflip_om']

def drv_line(op):
    return {'pc': 'calc.pc', 'sf0': 'calc.sf 0', 'sf1': 'calc.sf 1', 'pmf': 'calc.pmf', 'b20': 'calc.b2 0', 'b21': 'calc.b2 1',
            'chi0': 'calc.chi 0', 'chi1': 'calc.chi 1', 'spin': 'calc.spin', 'solvH': 'calc.solv 1', 'solvP': 'calc.solv 0',
            'flip_h': 'prism.flip h', 'flip_c': 'prism.flip c', 'flip_om': 'prism.flip om'}[op]

def out_tok(o, n):
    if isinstance(o, MatrixArray): return 'ma ' + G.ma_tok(o)
    return G.table_tok(o, n)

def do_op(p, op):
    """apply one op to the implementation object; returns the output (or None for flips)"""
    C = pyPRISM.calculate
    if op == 'pc': return C.pair_correlation(p)
    if op == 'sf0': return C.structure_factor(p, normalize=False)
    if op == 'sf1': return C.structure_factor(p, normalize=True)
    if op == 'pmf':
        return C.pmf(p)
    if op == 'b20': return C.second_virial(p, extrapolate=False)
    if op == 'b21': return C.second_virial(p, extrapolate=True)
    if op == 'chi0':
        with warnings.catch_warnings():
            warnings.simplefilter('ignore'); return C.chi(p, extrapolate=False)
    if op == 'chi1':
        with warnings.catch_warnings():
            warnings.simplefilter('ignore'); return C.chi(p, extrapolate=True)
    if op == 'spin': return C.spinodal_condition(p)
    if op == 'solvH': return C.solvation_potential(p, closure='HNC')
    if op == 'solvP': return C.solvation_potential(p, closure='PY')
    if op.startswith('flip_'):
        m = {'h': p.totalCorr, 'c': p.directCorr, 'om': p.omega}[op[5:]]
        if m.space == Space.Real: p.sys.domain.MatrixArray_to_fourier(m)
        else: p.sys.domain.MatrixArray_to_real(m)
        return None
    raise ValueError(op)

def canon(p):
    """the three stored arrays in Fourier space (copies)"""
    out = []
    for m in (p.omega, p.totalCorr, p.directCorr):
        c = m.get_copy()
        if c.space == Space.Real: p.sys.domain.MatrixArray_to_fourier(c)
        out.append(c.data.copy())
    return out

def vals(o, n):
    if isinstance(o, MatrixArray): return [o.data.reshape(-1)]
    out = []
    for i in range(n):
        for j in range(n):
            v = o[T[i], T[j]]
            out.append(np.array([np.nan]) if v is None else np.atleast_1d(np.asarray(v, dtype=float)))
    return out

def noise_floor(p):
    """scale below which a derived quantity is pure cancellation noise: chi / spinodal / B2 of (nearly) identical species are differences of
    O(max|stored arrays|) terms; 1e-6 of that scale, with rtol 1e-7, is an absolute tolerance of 1e-13 x scale"""
    m = 1.0
    for arr in (p.omega, p.totalCorr, p.directCorr):
        d = np.asarray(arr.data, dtype=float); f = d[np.isfinite(d)]
        if f.size: m = max(m, float(np.max(np.abs(f))))
    return 1e-6 * m

def same_vals(a, b, rtol, floor=0.0):
    if len(a) != len(b): return False, 'shape'
    for x, y in zip(a, b):
        if x.shape != y.shape: return False, 'shape'
        both = np.isfinite(x) & np.isfinite(y)
        if np.any(np.isfinite(x) != np.isfinite(y)): return False, 'nan/None pattern'
        if np.any(both):
            sc = max(float(np.max(np.abs(x[both]))), float(np.max(np.abs(y[both]))), 1e-300, floor)
            e = float(np.max(np.abs(x[both] - y[both])))
            if e > rtol * sc: return False, 'max diff %.3g on scale %.3g' % (e, sc)
    return True, ''

_KEEP = []
def make_object(case):
    """a PRISM object to post-process: solved, or hand-populated"""
    sd = case['sys']; n = sd['n']; L = sd['dom'][0]
    if n >= 2 and case.get('decoy_order', True):
        # another system of the same process that uses the SAME labels in another order (and arrays of it that stay alive)
        try:
            with warnings.catch_warnings():
                warnings.simplefilter('ignore')
                case_decoy = G.build_system(sd, types=list(reversed(T[:n]))).createPRISM()
                _KEEP[:] = [case_decoy, MatrixArray(length=3, rank=n, types=list(T[1:n]) + [T[0]])]
        except Exception:
            pass
    s = G.build_system(sd); p = s.createPRISM()
    if case['obj'][0] == 'solved':
        res = C01.solve_quiet(p, None, case['obj'][1])
        if isinstance(res, Exception) or not res.success: return None
    else:
        rs = np.random.RandomState(case['obj'][1])
        def sym(a): return (a + a.transpose(0, 2, 1)) / 2
        k = p.sys.domain.k.reshape((-1, 1, 1)); r = p.sys.domain.r.reshape((-1, 1, 1))
        p.totalCorr.data = sym(rs.normal(size=(L, n, n))) * 0.3 * np.exp(-r / 2.0); p.totalCorr.space = Space.Real
        if len(case['obj']) > 2 and case['obj'][2] == 'core':
            # the exact hard-core condition h(r <= sigma) = -1 written into the object by hand: g is exactly 0 there
            for i in range(n):
                for j in range(n):
                    p.totalCorr.data[p.sys.domain.r <= min((sd['diam'][i] + sd['diam'][j]) / 2.0, 0.35 * float(p.sys.domain.r[-1])), i, j] = -1.0
        p.directCorr.data = sym(rs.normal(size=(L, n, n))) * 0.02 / (1 + k * k); p.directCorr.space = Space.Fourier
        # written INTO the buffer the constructor allocated (its dtype is the constructor's business)
        p.omega.data[...] = sym(np.abs(rs.normal(size=(L, n, n))) + 0.5) * p.sys.density.site.data / (1 + 0.1 * k * k); p.omega.space = Space.Fourier
        class R: pass
        p.minimize_result = None
    return p

def load_model(ctx, sd, p):
    G.feed(ctx.drv, sd)
    assert ctx.drv.ask('prism.create') == 'ok'
    for which, m in (('om', p.omega), ('h', p.totalCorr), ('c', p.directCorr)):
        assert ctx.drv.ask('prism.set %s %s %s' % (which, G.SPT[m.space], fl(m.data.reshape(-1)))) == 'ok'

def suite_ops(ctx, case):
    sd = case['sys']; n = sd['n']
    p = make_object(case)
    if p is None:
        ctx.dist['object:not-converged'] += 1; return
    load_model(ctx, sd, p)
    pristine = copy.deepcopy(p)
    can0 = canon(pristine)
    scale0 = [max(1.0, float(np.max(np.abs(a)))) for a in can0]
    err_outer = np.seterr(all='ignore')          # set (not a `with` block, which would silently repair a leaked setting on exit) and compared after every call
    try:
        run_ops(ctx, case, p, pristine, can0, scale0, n)
    finally:
        np.seterr(**err_outer)

def run_ops(ctx, case, p, pristine, can0, scale0, n):
    err_mine = np.geterr()
    for step, op in enumerate(case['ops']):
        sub = dict(case, ops=case['ops'][:step + 1])
        if op.startswith('badflip_'):
            # the user transforms a stored array with a Domain of ANOTHER length (the next run's grid): the attempt fails, is caught,
            # and the object is what it was
            m = {'h': p.totalCorr, 'c': p.directCorr, 'om': p.omega}[op[8:]]
            other = pyPRISM.Domain(length=int(p.sys.domain.length) + 5, dr=0.1)
            sp_before = m.space; data_before = m.data.copy()
            try:
                (other.MatrixArray_to_fourier if m.space == Space.Real else other.MatrixArray_to_real)(m); failed = False
            except Exception:
                failed = True
            ctx.pred('ops', sub, failed and m.space == sp_before and bool(np.array_equal(m.data, data_before)),
                     'a transform of a stored array with a Domain of another length %s; the array is now flagged %s (was %s)' % ('raised' if failed else 'was accepted', m.space, sp_before), key='C06:corrupts:flag')
            if not (failed and m.space == sp_before): return
            continue
        if op == 'resolve':
            if p.minimize_result is None or p.omega.space != Space.Fourier:
                continue
            x0 = np.array(p.minimize_result.x, dtype=float)
            res = C01.solve_quiet(p, x0, 'krylov')
            if isinstance(res, Exception):
                ctx.pred('ops', sub, False, 're-solve from own solution raised %r' % (res,), key='C06:resolve'); return
            if not res.success:
                # the root finder's own convergence flag is oracle behaviour; the property speaks about successful re-solves
                ctx.dist['resolve:solver-reported-failure'] += 1; return
            ctx.dist['resolve:ok'] += 1
            ctx.drv.ask('prism.aftersolve ' + fl(np.array(res.x, dtype=float)))
            # a re-solve from the own root returns the same root to the accuracy of the two solves; from here on the
            # object is compared with the re-solved one (the model state was replaced accordingly)
            can1 = canon(p)
            for name, a0, a1, sc in zip(('omega', 'totalCorr', 'directCorr'), can0, can1, scale0):
                e = float(np.max(np.abs(a0 - a1)))
                ctx.pred('ops', sub, e <= (1e-9 if name == 'omega' else 2e-3) * sc, 'stored %s after re-solving from the own solution differs from the solved one: max diff %.3g' % (name, e),
                         key='C06:resolve-moves:' + name)
            pristine = copy.deepcopy(p); can0 = can1
            continue
        else:
            try:
                out = do_op(p, op)
            except Exception as e:
                ctx.pred('ops', sub, False, '%s raised %s: %s' % (op, type(e).__name__, str(e)[:120]), key='C06:raises:' + op.rstrip('01HP'))
                return
            # nothing process-wide is left behind either: NumPy's floating-point error handling is what it was before the call
            err_now = np.geterr(); np.seterr(**err_mine)
            ctx.pred('ops', sub, err_now == err_mine, '%s returned with NumPy\'s error handling changed to %r (later calls - a re-solve, pmf - behave differently)' % (op, err_now), key='C06:global-state')
            ctx.pred('ops', sub, all(m.data.dtype == np.float64 for m in (p.omega, p.totalCorr, p.directCorr)), 'after %s a stored array has dtype %s' % (op, [str(m.data.dtype) for m in (p.omega, p.totalCorr, p.directCorr)]), key='C06:corrupts:dtype')
            # post-processing never touches the grids of the object's own Domain (every later transform uses them)
            dm = p.sys.domain; dm0 = pristine.sys.domain
            ctx.pred('ops', sub, bool(np.array_equal(dm.k, dm0.k) and np.array_equal(dm.r, dm0.r) and np.array_equal(dm.DST_II_coeffs, dm0.DST_II_coeffs)
                                      and np.array_equal(dm.DST_III_coeffs, dm0.DST_III_coeffs)) and (dm.length, dm.dr, dm.dk) == (dm0.length, dm0.dr, dm0.dk),
                     '%s changed the r / k grids or the transform coefficients of the solved object\'s Domain' % op, key='C06:corrupts-domain')
            ml = ctx.drv.ask(drv_line(op))
            if op.startswith('flip_'):
                impl = 'ok ' + G.state_tok(p)
            else:
                impl = 'ok %s | %s' % (out_tok(out, n), G.state_tok(p))
            il = impl.replace(' nan', ' 7ff8000000000000')
            atols = G.group_atols(il.replace('7ff8000000000000', '0000000000000000'), 1e-7)
            atols = [max(t_, 1e-7 * noise_floor(pristine)) for t_ in atols]          # differences of O(scale) terms that cancel (chi of identical species) are rounding noise
            if op in ('pmf', 'solvP'):
                # -kT log(.) is ill-conditioned where its argument is ~0 (inside cores) or negative: compared only where the argument is resolved
                arg = np.exp(-out.data.reshape(-1) / p.sys.kT)
                with np.errstate(all='ignore'):
                    bad = ~(arg > 1e-6) | ~np.isfinite(out.data.reshape(-1))
                for q in np.nonzero(bad)[0]: atols[5 + int(q)] = float('inf')
                ml = ' '.join(('0000000000000000' if (5 <= i < 5 + bad.size and bad[i - 5]) else t) for i, t in enumerate(ml.split()))
                il = ' '.join(('0000000000000000' if (5 <= i < 5 + bad.size and bad[i - 5]) else t) for i, t in enumerate(il.split()))
            ctx.corr('ops', sub, ml.replace('fff8000000000000', '7ff8000000000000'), il, rtol=1e-7, atols=atols,
                     what='%s: return value and stored arrays/flags' % op)
            # history independence: the same call on the pristine copy of the solved object
            if out is not None:
                fresh = copy.deepcopy(pristine)
                with np.errstate(all='ignore'):
                    ref = do_op(fresh, op)
                a = vals(out, n); b = vals(ref, n)
                if op == 'pmf':
                    gp = pyPRISM.calculate.pair_correlation(copy.deepcopy(pristine)).data.reshape(-1)
                    mask = gp > 1e-6
                    a = [a[0][mask]]; b = [b[0][mask]]
                if op == 'solvP':
                    fin = np.isfinite(a[0]) & np.isfinite(b[0]); a = [a[0][fin]]; b = [b[0][fin]]
                ok, why = same_vals(a, b, 1e-7, noise_floor(pristine))
                ctx.pred('ops', sub, ok, '%s after history %s differs from the same call on a fresh identically solved object: %s' % (op, case['ops'][:step], why),
                         key='C06:history:' + op.rstrip('01HP'))
        # the stored arrays still describe the same solved object
        can = canon(p)
        for name, a0, a1, sc in zip(('omega', 'totalCorr', 'directCorr'), can0, can, scale0):
            e = float(np.max(np.abs(a0 - a1)))
            ctx.pred('ops', sub, e <= 1e-7 * sc * max(1, step + 1), 'stored %s changed by %s (history %s): max diff %.3g' % (name, op, case['ops'][:step], e),
                     key='C06:corrupts:' + name)

def suite_optimized(ctx, case):
    """the same histories under `python -O` (assert statements compiled out): history independence does not depend on assertions"""
    import subprocess, sys, os, json
    from ..paths import REPO
    env = dict(os.environ, VERIF_REPO=REPO, PYPRISM_VERIF='1')
    pr = subprocess.run([sys.executable, '-O', '-B', '-W', 'ignore', os.path.join(os.path.dirname(os.path.dirname(os.path.abspath(__file__))), 'optrun.py'), json.dumps(case)],
                        stdout=subprocess.PIPE, stderr=subprocess.PIPE, text=True, env=env, timeout=600)
    try:
        res = json.loads(pr.stdout.strip().split('\n')[-1])
    except Exception:
        ctx.pred('optimized', case, False, 'the -O sub-run did not finish: %s' % pr.stderr[-200:], key='C06:optimized'); return
    ctx.pred('optimized', case, res.get('optimized') and not res['failures'], 'under python -O (assertions removed): %s' % '; '.join(res['failures']), key='C06:optimized')

SUITES = {'ops': suite_ops, 'optimized': suite_optimized}

def gen_sys(rng, n, L):
    sd = C01.gen_solvable(rng, maxn=n, maxL=L)
    while sd['n'] < 2:
        sd = C01.gen_solvable(rng, maxn=n, maxL=L)
    return sd

def gen_ops(rng, maxlen, solved):
    k = rng.randint(2, maxlen)
    pool = OPS[:-1] + (['resolve'] if solved else []) + [rng.choice(BADFLIPS)]
    ops = [rng.choice(pool) for _ in range(k)]
    if solved and rng.random() < 0.3: ops.insert(rng.randrange(len(ops)), 'resolve')
    return ops

def generate(ctx):
    rng = ctx.rng
    maxlen = ctx.n(12, 40)
    # every single op after every single other op (pairs), on one hand-populated 2- and one 3-component object
    for n in (2, 3):
        sd = gen_sys(rng, n, 32)
        while sd['n'] != n: sd = gen_sys(rng, n, 32)
        base = OPS[:-1]
        for a in base:
            ops = [a] + [b for b in base if not b.startswith('flip')]
            case = {'sys': sd, 'obj': ['hand', rng.randrange(10 ** 6)], 'ops': ops}
            ctx.case('ops', case, True, tags=['rank:%d' % n, 'obj:hand', 'first:' + a]); suite_ops(ctx, case)
    for q in range(ctx.n(2, 8)):
        sd = gen_sys(rng, rng.choice([2, 3]), 24)
        case = {'sys': sd, 'obj': ['hand', rng.randrange(10 ** 6)], 'ops': ['sf0', 'pc', 'b21', 'pmf', 'flip_h', 'pc', 'chi0', 'solvH', 'pc', 'spin', 'sf1', 'pmf'], 'decoy_order': False}
        ctx.case('optimized', case, True, tags=['python -O']); suite_optimized(ctx, case)
    for q in range(ctx.n(40, 400)):
        n = rng.choice([2, 2, 3])
        sd = gen_sys(rng, n, ctx.n(32, 64))
        solved = rng.random() < 0.35
        if rng.random() < 0.3: sd['dom_from_dk'] = True
        if rng.random() < 0.3:
            # the LAST pair's omega is a single-precision table
            Lg = sd['dom'][0]; last = '%d%d' % (sd['n'] - 1, sd['n'] - 1)
            sd['pairs'][last]['om'] = ['arr32', 0] + [float(np.float32(1.0 + 3.0 * math.exp(-0.5 * ((q + 1) / Lg * 6) ** 2))) for q in range(Lg)]
        obj = ['solved', rng.choice(['krylov', 'krylov', 'hybr', 'anderson'])] if solved else ['hand', rng.randrange(10 ** 6)]
        ops = gen_ops(rng, maxlen, solved)
        case = {'sys': sd, 'obj': obj, 'ops': ops}
        nt = len(ops) >= 3 and any(o.startswith('flip') for o in ops)
        ctx.case('ops', case, nt, tags=['rank:%d' % sd['n'], 'obj:' + obj[0], 'len<=%d' % (4 * ((len(ops) + 3) // 4))] + ['op:' + o for o in set(ops)])
        suite_ops(ctx, case)
