"""C15 — Density and Diameter keep derived quantities consistent under any history."""
import math
from ..implenv import np, pyPRISM
from ..driver import f2h, h2f
from pyPRISM.core.Density import Density
from pyPRISM.core.Diameter import Diameter

RULE = ("random assignment histories (1-4 types, single keys and lists/tuples/arrays of keys, re-assignment, "
        "ints, floats, NumPy integers and 0-d arrays) applied to a real Density/Diameter and to the Lean model; after EVERY op all observables "
        "(value table, total, pair & site matrices, sigma table via both access paths, volume, check()) are compared "
        "bit-exactly (volume: rtol 1e-14 — pow vs repeated product) and the property predicate is evaluated from an independent history replay; "
        "a case is non-trivial if it has >= 2 ops and touches >= 1 type twice or uses a list key; distinct = distinct (types, op list)")
EXTRA_TRUSTED = ["Model/Density.lean is a hand transcription of Density.__setitem__/Diameter.__setitem__/check"]
ASSUMPTIONS = ["assigned values are finite positive numbers; type names are those of the type list"]
NAMES = ['poly', 'B', 'solvent', 'D4']        # not alphabetical, multi-character
# integer type labels are legal too; the label 0 is falsy, and none of them equals its position
LABELS = {'names': NAMES, 'ints0': [2, 0, 3, 1], 'ints': [7, 0, 5, 2], 'mixed': ['poly', 0, 'B', 4]}
def fresh_key(t):
    """an equal but NOT identical str object (keys typed by a user are not the objects stored in the types list)"""
    return (t + ' ')[:-1] if isinstance(t, str) else t

def opt(x):
    return 'N' if x is None else f2h(x)

def obs_dens(d, n, types):
    rho = ' '.join(opt(d[t]) for t in types)
    pair = ' '.join(f2h(d.pair.data[0, i, j]) for i in range(n) for j in range(n))
    site = ' '.join(f2h(d.site.data[0, i, j]) for i in range(n) for j in range(n))
    try:
        d.check(); chk = 'true'
    except ValueError:
        chk = 'false'
    except Exception as e:
        chk = 'raised-' + type(e).__name__
    return 'rho %s total %s pair %s site %s check %s' % (rho, f2h(d.total), pair, site, chk)

def obs_diam(d, n, types):
    dia = ' '.join(opt(d[t]) for t in types)
    vol = ' '.join(opt(d.volume[t]) for t in types)
    sig = ' '.join(opt(d[t1, t2]) for t1 in types for t2 in types)
    sig2 = ' '.join(opt(d.sigma[t1, t2]) for t1 in types for t2 in types)
    try:
        d.check(); chk = 'true'
    except ValueError:
        chk = 'false'
    except Exception as e:
        chk = 'raised-' + type(e).__name__
    return ('diam %s volume %s sigma %s check %s' % (dia, vol, sig, chk)), sig == sig2

def key_of(ts, types, style):
    names = [fresh_key(types[t]) for t in ts]
    if style == 'single':
        return names[0]
    if style == 'tuple':
        return tuple(names)
    if style == 'array':
        return np.array(names) if all(isinstance(x, str) for x in names) or all(not isinstance(x, str) for x in names) else list(names)
    if style == 'iter': return iter(list(names))          # a one-shot iterable (generator, reversed(), map()) is a legal list key
    return list(names)

def suite_history(ctx, case):
    n = case['n']; types = list(LABELS[case.get('labels', 'names')][:n])
    tc = tuple(types) if case.get('tcont') == 'tuple' else types          # the type list may be any sequence (a tuple, sys.types of another System)
    dens = Density(tc); diam = Diameter(tc)
    if case.get('others'):
        # other containers alive in the same process, with the same labels at OTHER positions (a blend and its pure components ...)
        keep = [Density(types[::-1]), Diameter(types[::-1]), Density(types[-1:]), Diameter(types[1:] + types[:1])]
        keep[0][types[-1]] = 0.123; keep[1][types[-1]] = 0.77
    drv = ctx.drv
    drv.ask('dens.new %d' % n); drv.ask('diam.new %d' % n)
    cur_r = {}; cur_d = {}; cur_s = {}          # cur_s: contact distances written straight into the sigma table (valid until one of the two diameters is assigned again)
    for k, op in enumerate(case['ops']):
        v = op['v']
        val = int(v) if op.get('int') else v
        if op.get('npint'): val = getattr(np, op['npint'])(int(v))          # a fixed-width NumPy integer (a value read from an integer array)
        if op.get('zerod'): val = np.array(val, dtype=float) if op['zerod'] == 'array' else np.squeeze(np.array([float(val), 7.0])[:1])          # a 0-d array (np.asarray(x), np.squeeze of a 1-element slice) is a number too
        key = key_of(op['ts'], types, op['style'])
        sub = dict(case); sub['upto'] = k
        if op['kind'] == 'sigma':
            a_, b_ = op['ts'][0], op['ts'][-1]
            diam.sigma[fresh_key(types[a_]), fresh_key(types[b_])] = float(v)          # a non-additive contact distance (documented attribute `sigma`)
            drv.ask('diam.sigma %d %d %s' % (a_, b_, f2h(v)))
            cur_s[(min(a_, b_), max(a_, b_))] = float(v)
        elif op['kind'] == 'dens':
            dens[key] = val
            drv.ask('dens.set %s %s' % (f2h(v), ' '.join(map(str, op['ts']))))
            for t in op['ts']: cur_r[t] = float(v)
        else:
            diam[key] = val
            drv.ask('diam.set %s %s' % (f2h(v), ' '.join(map(str, op['ts']))))
            for t in op['ts']:
                cur_d[t] = float(v)
                # the assignment recomputes the sigma of that type with every type that HAS a diameter (itself included)
                for pq in [pq for pq in cur_s if t in pq and (pq[0] if pq[1] == t else pq[1]) in cur_d]: del cur_s[pq]
        # ---- correspondence
        ctx.corr('history', sub, drv.ask('dens.obs'), obs_dens(dens, n, types), what='Density after op %d' % k)
        line, same = obs_diam(diam, n, types)
        ctx.corr('history', sub, drv.ask('diam.obs'), line, rtol=1e-14, what='Diameter after op %d' % k)
        # ---- property predicate straight on the implementation (independent replay of the history)
        ok = True; why = ''
        for a in range(n):
            for b in range(n):
                pa, pb = cur_r.get(a), cur_r.get(b)
                P = dens.pair.data[0, a, b]; S = dens.site.data[0, a, b]
                if pa is not None and pb is not None:
                    if P != pa * pb: ok = False; why = 'pair[%d,%d]=%r != %r' % (a, b, P, pa * pb)
                    want = pa if a == b else pa + pb
                    if S != want: ok = False; why = 'site[%d,%d]=%r != %r' % (a, b, S, want)
                    if dens.pair[types[a], types[b]][0] != P: ok = False; why = 'pair by-name read differs'
                else:
                    if P != 0 or S != 0: ok = False; why = 'unassigned pair/site entry touched'
                da, db = cur_d.get(a), cur_d.get(b)
                sg = diam[types[a], types[b]]
                if (min(a, b), max(a, b)) in cur_s:
                    if sg != cur_s[(min(a, b), max(a, b))]: ok = False; why = 'sigma[%d,%d]=%r is not the value written into the sigma table (%r)' % (a, b, sg, cur_s[(min(a, b), max(a, b))])
                elif da is not None and db is not None:
                    if sg != (da + db) / 2.0: ok = False; why = 'sigma[%d,%d]=%r != %r' % (a, b, sg, (da + db) / 2)
                elif sg is not None:
                    ok = False; why = 'sigma of unassigned pair is set'
        tot = 0.0
        for a in range(n):
            if a in cur_r: tot += cur_r[a]
        if abs(dens.total - tot) > 1e-12 * max(1.0, abs(tot)): ok = False; why = 'total=%r != %r' % (dens.total, tot)
        for a in range(n):
            if dens[types[a]] != cur_r.get(a): ok = False; why = 'density value table stale'
            if diam[types[a]] != cur_d.get(a): ok = False; why = 'diameter value table stale'
            vol = diam.volume[types[a]]
            if a in cur_d:
                w = math.pi * cur_d[a] ** 3 / 6.0
                if vol is None or abs(vol - w) > 1e-13 * abs(w): ok = False; why = 'volume %r != pi d^3/6 = %r' % (vol, w)
            elif vol is not None:
                ok = False; why = 'volume of unassigned type set'
        for obj, cur, nm in ((dens, cur_r, 'density'), (diam, cur_d, 'diameter')):
            try:
                obj.check(); raised = False
            except ValueError:
                raised = True
            except Exception as e:
                raised = 'a %s instead of ValueError' % type(e).__name__
            if raised != (len(cur) < n): ok = False; why = '%s.check() raised=%s with %d/%d assigned' % (nm, raised, len(cur), n)
        if not same: ok = False; why = 'Diameter[a,b] differs from sigma table'
        ctx.pred('history', sub, ok, 'derived quantity inconsistent after op %d: %s' % (k, why),
                 key='C15:derived-inconsistent')
        if not ok:
            break

SUITES = {'history': suite_history}

def gen_case(rng, max_ops):
    n = rng.choice([1, 2, 2, 3, 3, 4])
    ops = []
    for _ in range(rng.randint(1, max_ops)):
        style = rng.choice(['single', 'single', 'list', 'tuple', 'array', 'iter'])
        if style == 'single':
            ts = [rng.randrange(n)]
        else:
            ts = [rng.randrange(n) for _ in range(rng.randint(1, n + 1))]
        kind = rng.choice(['dens', 'diam', 'dens', 'diam', 'sigma'])
        if kind == 'sigma': ts = [rng.randrange(n), rng.randrange(n)]; style = 'single'
        isint = rng.random() < 0.15
        v = float(rng.randint(1, 5)) if isint else round(rng.choice([rng.uniform(0.01, 2.0), 10 ** rng.uniform(-6, 3)]), rng.randint(2, 12))
        if v <= 0: v = 0.5
        if kind == 'dens' and rng.random() < 0.08: v = 0.0; isint = False          # a component with density exactly zero is an assigned value like any other
        # sweeps: re-assignments close to (or in the dilute regime far below any absolute tolerance of) an earlier value of the same kind
        if kind == 'sigma': isint = False
        prev = [o['v'] for o in ops if o['kind'] == kind]
        c = rng.random()
        if prev and c < 0.2: v = prev[-1] * (1 + rng.choice([1e-6, -1e-6, 4e-6, 1e-9, 1e-12])); isint = False
        elif c < 0.3: v = rng.choice([1e-9, 5e-9, 2e-10, 3e-8]) * rng.choice([1.0, 1.7]); isint = False
        npint = None
        if rng.random() < 0.06:
            v = float(rng.choice([40, 1400, 2000, 3])); isint = True; npint = rng.choice(['int16', 'int32', 'int64']) if v < 100 else rng.choice(['int32', 'int64'])
        zerod = rng.choice(['array', 'squeeze']) if (npint is None and rng.random() < 0.1) else None
        ops.append({'kind': kind, 'ts': ts, 'v': v, 'style': style, 'int': isint, 'npint': npint, 'zerod': zerod})
    return {'n': n, 'ops': ops, 'tcont': rng.choice(['list', 'list', 'tuple']), 'others': rng.random() < 0.4, 'labels': rng.choice(['names', 'names', 'ints0', 'ints', 'mixed'])}

def generate(ctx):
    N = ctx.n(400, 6000)
    max_ops = ctx.n(12, 40)
    for _ in range(N):
        c = gen_case(ctx.rng, max_ops)
        touched = [t for op in c['ops'] for t in op['ts']]
        nontriv = len(c['ops']) >= 2 and (len(touched) > len(set(touched)) or any(op['style'] != 'single' for op in c['ops']))
        ctx.case('history', c, nontriv, tags=['n=%d' % c['n'], 'ops<=%d' % (4 * ((len(c['ops']) + 3) // 4))])
        for op in c['ops']:
            ctx.dist['op:%s/%s' % (op['kind'], op['style'])] += 1
        suite_history(ctx, c)
