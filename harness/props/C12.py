"""C12 — Tabulated omega is used verbatim on a matching grid and rejected otherwise."""
import os, tempfile
from ..implenv import np, pyPRISM
from ..driver import f2h, fl, h2f

RULE = ("random Domains (length 1-40 / 1-300, from dr or dk) x tabulated omega given as array (with/without k) or as one/two-column text file "
        "(incl. single-row and single-value files) x k-grid relation {equal, shifted, rescaled, truncated, extended, a table starting at k = 0, one point perturbed by a factor "
        "straddling the allclose threshold (0.3..3 x (1e-8+1e-5|k|))}; outcome (accepted / rejected) and, when accepted, the returned values are compared "
        "BITWISE with the Lean model; predicate: verbatim-or-exception, decided by an independent allclose transcription; caller-array mutation probe; single-precision tables (PRISM.omega stays the double-precision table times the site density); "
        "wrong-length one-column files pushed through createPRISM/cost; ONE omega object evaluated on a sequence of matching / non-matching grids of the same length. Non-trivial = mismatch families and straddling perturbations; distinct = distinct case")
EXTRA_TRUSTED = ["np.allclose modelled from NumPy's documentation (|a-b| <= 1e-8 + 1e-5|b|, a NaN is never close)",
                 "np.loadtxt is outside the model: the harness writes the file with repr() floats and passes the same numbers to the model"]
ASSUMPTIONS = ["finite inputs"]

def model_variant():
    return 'fixed'

def outcome(fn):
    try:
        v = fn()
        v = np.atleast_1d(np.asarray(v, dtype=float))
        return 'ok ' + fl(v)
    except Exception as e:
        return 'ERR rejected'

def expected(value, ks, kd):
    """independent statement of the property for array input"""
    if len(value) != len(kd): return None
    if ks is not None:
        if len(ks) != len(kd): return None
        for a, b in zip(ks, kd):
            if not (abs(a - b) <= 1e-8 + 1e-5 * abs(b)): return None
    return list(value)

def suite_array(ctx, case):
    kd = np.array(case['kd'], dtype=float)
    val = case['value']; ks = case['k']
    vdt = np.float32 if case.get('f32') else float          # a table read from a single-precision file / trajectory analysis
    caller = np.array(val, dtype=vdt)
    if case.get('vint'): caller = np.array(val, dtype=int)          # an integer-typed table ([1]*N, np.arange) - the k column keeps its own precision
    if case.get('frozen'): caller.setflags(write=False)          # a write-protected array: thawed and changed by the caller after the object was built
    kc = case.get('kcont', 'array')
    kobj = None if ks is None else (tuple(float(x) for x in ks) if kc == 'tuple' else [float(x) for x in ks] if kc == 'list' else np.array(ks, dtype=float))
    o = pyPRISM.omega.FromArray(caller, kobj)
    if case.get('frozen'): caller.setflags(write=True)
    caller[:] = -777.0          # later changes to the caller's array must not leak
    impl = outcome(lambda: o.calculate(kd))
    line = 'fa.calc | %s | %s | %s' % (fl(val), 'none' if ks is None else fl(ks), fl(kd))
    ctx.corr('array', case, ctx.drv.ask(line), impl, what='FromArray.calculate')
    exp = expected(val, ks, case['kd'])
    want = 'ERR rejected' if exp is None else 'ok ' + fl(exp)
    ctx.pred('array', case, impl == want, 'FromArray: got %s..., property demands %s...' % (impl[:40], want[:40]),
             key='C12:fromarray')
    # the object as the library itself holds it: a deep copy, and the copy a System's omega table stores (what createPRISM evaluates)
    import copy
    o2 = pyPRISM.omega.FromArray(np.array(val, dtype=float), None if ks is None else np.array(ks, dtype=float))
    tab = pyPRISM.PairTable(['A'], 'omega'); tab['A', 'A'] = o2
    # the stored copy is the table's own: later in-place changes to the caller's object / array do not reach it
    if hasattr(o2, 'value') and isinstance(o2.value, np.ndarray): o2.value[:] = -555.0
    if ks is not None and hasattr(o2, 'k') and isinstance(o2.k, np.ndarray): o2.k[:] = -1.0
    o2 = pyPRISM.omega.FromArray(np.array(val, dtype=float), None if ks is None else np.array(ks, dtype=float))
    # a System that holds the table and builds PRISM objects from it more than once: the table stays verbatim, every PRISM object gets table * rho_site
    if case.get('dom') and exp is not None and len(val) == case['dom'][0]:
        L, dr = case['dom']
        sy = pyPRISM.System(['A'], kT=1.0); sy.domain = pyPRISM.Domain(length=L, dr=dr) if not case.get('dom_dk') else pyPRISM.Domain(length=L, dk=case['dom_dk'])
        sy.density['A'] = 0.37; sy.diameter['A'] = 1.0
        sy.potential['A', 'A'] = pyPRISM.potential.HardSphere(); sy.closure['A', 'A'] = pyPRISM.closure.PercusYevick()
        sy.omega['A', 'A'] = pyPRISM.omega.FromArray(np.array(val, dtype=vdt), None if ks is None else np.array(ks, dtype=float))
        if bool(np.allclose(sy.domain.k, kd, rtol=0, atol=0)):
            oks = True; whys = ''
            for rep in range(3):
                try:
                    pp = sy.createPRISM()
                    if not np.array_equal(pp.omega.data[:, 0, 0], np.array(val, dtype=float) * 0.37): oks = False; whys = 'PRISM object #%d: omega is not table * rho_site' % rep
                    if pp.omega.data.dtype != np.float64: oks = False; whys = 'PRISM object #%d: omega has dtype %s (the table times the density in single precision is not the table)' % (rep, pp.omega.data.dtype)
                    if outcome(lambda: sy.omega['A', 'A'].calculate(kd)) != want: oks = False; whys = 'after createPRISM #%d the System\'s table is no longer returned verbatim' % rep
                except Exception as e:
                    oks = False; whys = 'createPRISM #%d raised %s' % (rep, type(e).__name__)
            ctx.pred('array', case, oks, 'FromArray in a System: ' + whys, key='C12:fromarray')
    for how, obj in (('deepcopy', lambda: copy.deepcopy(o2)), ('System.omega table', lambda: tab['A', 'A']), ('deepcopy of the table entry', lambda: copy.deepcopy(tab)['A', 'A'])):
        got = outcome(lambda: obj().calculate(kd))
        ctx.corr('array', case, ctx.drv.ask(line), got, what='FromArray.calculate through ' + how)
        ctx.pred('array', case, got == want, 'FromArray via %s: got %s..., property demands %s...' % (how, got[:40], want[:40]), key='C12:fromarray')

def write_file(rows):
    fd, path = tempfile.mkstemp(prefix='vp_c12_', suffix='.txt', dir='/dev/shm' if os.path.isdir('/dev/shm') else None)
    with os.fdopen(fd, 'w') as f:
        for r in rows:
            f.write(' '.join(repr(float(x)) for x in r) + '\n')
    return path

def suite_file(ctx, case):
    kd = np.array(case['kd'], dtype=float); rows = case['rows']
    path = write_file(rows)
    try:
        o = pyPRISM.omega.FromFile(path)
        impl = outcome(lambda: o.calculate(kd))
        R, C = len(rows), len(rows[0])
        # the same file NAME written again with other values (omega_AA.dat of the next study): a new FromFile object returns what the file holds now
        if impl.startswith('ok') and case.get('rewrite'):
            rows2 = [[x if (C >= 2 and q == 0) else 0.5 * x + 1.25 for q, x in enumerate(r_)] for r_ in rows]
            with open(path, 'w') as fh:
                for r_ in rows2: fh.write(' '.join(repr(float(x)) for x in r_) + '\n')
            got2 = outcome(lambda: pyPRISM.omega.FromFile(path).calculate(kd))
            want2 = 'ok ' + fl([r_[1] if C >= 2 else r_[0] for r_ in rows2])
            ctx.pred('file', case, got2 == want2, 'a file written again under the same name: a new FromFile object returns %s..., the file holds %s...' % (got2[:40], want2[:40]), key='C12:fromfile-2col' if C >= 2 else 'C12:fromfile-1col')
        flat = [x for r in rows for x in r]
        line = 'ff.calc %s %d %d | %s | %s' % ('fixed', R, C, fl(flat), fl(kd))
        ctx.corr('file', case, ctx.drv.ask(line), impl, what='FromFile.calculate')
        if C >= 2:
            exp = expected([r[1] for r in rows], [r[0] for r in rows], case['kd'])
            want = 'ERR rejected' if exp is None else 'ok ' + fl(exp)
            ctx.pred('file', case, impl == want, 'FromFile (two-column, %d row(s)): got %s..., property demands %s...' % (R, impl[:40], want[:40]),
                     key='C12:fromfile-2col' if R >= 2 else 'C12:fromfile-single-row')
        else:
            want = 'ok ' + fl([r[0] for r in rows])
            if R == len(kd):
                ok = impl == want; why = 'one-column file of matching length not returned verbatim'
            else:
                # must be rejected: by calculate, or at the latest by createPRISM / the first cost evaluation
                ok = impl == 'ERR rejected' or (impl == want and not prism_accepts(path, case))
                why = 'one-column file of wrong length (%d vs %d) produced a PRISM result' % (R, len(kd))
            ctx.pred('file', case, ok, why, key='C12:fromfile-1col')
    finally:
        os.unlink(path)

def prism_accepts(path, case):
    L, dr = case['dom']
    sys_ = pyPRISM.System(['A'], kT=1.0)
    sys_.domain = pyPRISM.Domain(dr=dr, length=L)
    sys_.density['A'] = 0.3; sys_.diameter['A'] = 1.0
    sys_.potential['A', 'A'] = pyPRISM.potential.HardSphere()
    sys_.closure['A', 'A'] = pyPRISM.closure.PercusYevick()
    sys_.omega['A', 'A'] = pyPRISM.omega.FromFile(path)
    try:
        p = sys_.createPRISM()
        y = p.cost(np.zeros(L))
        return True
    except Exception:
        return False

def suite_history(ctx, case):
    """ONE FromArray / FromFile object evaluated on a sequence of domains (a domain sweep): every evaluation must be accepted or
    rejected on its own merits - nothing may be remembered from an earlier, matching evaluation"""
    rows = case['rows']; path = None
    try:
        if case['kind'] == 'file':
            path = write_file(rows); o = pyPRISM.omega.FromFile(path)
        elif case['kind'] == 'array-k':
            o = pyPRISM.omega.FromArray(np.array([r[1] for r in rows], dtype=float), np.array([r[0] for r in rows], dtype=float))
        else:
            o = pyPRISM.omega.FromArray(np.array([r[1] for r in rows], dtype=float))
        for step, kd in enumerate(case['grids']):
            sub = dict(case, grids=case['grids'][:step + 1])
            impl = outcome(lambda: o.calculate(np.array(kd, dtype=float)))
            if case['kind'] == 'file':
                flat = [x for r in rows for x in r]
                line = 'ff.calc fixed %d %d | %s | %s' % (len(rows), 2, fl(flat), fl(kd))
            else:
                line = 'fa.calc | %s | %s | %s' % (fl([r[1] for r in rows]), 'none' if case['kind'] == 'array' else fl([r[0] for r in rows]), fl(kd))
            ctx.corr('history', sub, ctx.drv.ask(line), impl, what='evaluation #%d of the same omega object' % step)
            exp = expected([r[1] for r in rows], None if case['kind'] == 'array' else [r[0] for r in rows], kd)
            want = 'ERR rejected' if exp is None else 'ok ' + fl(exp)
            ctx.pred('history', sub, impl == want, 'evaluation #%d of one %s object: got %s..., property demands %s...' % (step, case['kind'], impl[:40], want[:40]), key='C12:history')
    finally:
        if path: os.unlink(path)

def suite_bigsys(ctx, case):
    """a two-component System on a LONG grid (> 1000 points) whose tabulated omegas agree near both ends of the grid and differ in the
    interior: every table reaches PRISM.omega as it is (times the site density), and a k column that is off at ONE interior point is refused"""
    L, dr = case['L'], case['dr']
    s = pyPRISM.System(['A', 'B'], kT=1.0); s.domain = pyPRISM.Domain(length=L, dr=dr)
    s.density['A'] = 0.3; s.density['B'] = 0.45; s.diameter[['A', 'B']] = 1.0
    s.potential[['A', 'B'], ['A', 'B']] = pyPRISM.potential.HardSphere(); s.closure[['A', 'B'], ['A', 'B']] = pyPRISM.closure.PercusYevick()
    k = s.domain.k
    base = 1.0 + 3.0 * np.exp(-(k * case['w']) ** 2)
    bump = np.zeros(L); lo = L // 3; bump[lo:lo + L // 4] = case['amp']
    tabs = {('A', 'A'): base.copy(), ('B', 'B'): base + bump, ('A', 'B'): 0.5 * base * (1 - bump)}
    kcol = {('A', 'A'): None, ('B', 'B'): None, ('A', 'B'): None}
    if case.get('badk'):
        # both like-pair tables carry a k column; the second one is off at ONE interior point (and the tables themselves are equal)
        kb = k.copy(); kb[L // 2] *= 1.0 + 1e-3; kcol[('A', 'A')] = k.copy(); kcol[('B', 'B')] = kb; tabs[('B', 'B')] = base.copy()
    for (a, b), v in tabs.items():
        s.omega[a, b] = pyPRISM.omega.FromArray(v.copy(), None if kcol[(a, b)] is None else kcol[(a, b)])
    try:
        p = s.createPRISM(); got = 'ok'
    except Exception as e:
        p = None; got = 'rejected'
    ctx.pred('bigsys', case, got == ('rejected' if case.get('badk') else 'ok'), 'two long FromArray tables in one System: createPRISM %s (k column %s)' % (got, 'off at one interior point' if case.get('badk') else 'matching'),
             key='C12:fromarray')
    if p is not None and not case.get('badk'):
        site = {('A', 'A'): 0.3, ('B', 'B'): 0.45, ('A', 'B'): 0.75}
        idx = {'A': 0, 'B': 1}
        ok = all(np.array_equal(p.omega.data[:, idx[a], idx[b]], tabs[(a, b)] * site[(a, b)]) for (a, b) in tabs)
        ctx.pred('bigsys', case, ok, 'PRISM.omega is not each table times its site density (tables that agree near both ends of a long grid are not the same table)', key='C12:fromarray')

def suite_mixed(ctx, case):
    """a two-component System in which an ANALYTIC omega with a bond length != 1 (FJC / NFJC / Gaussian) is evaluated before the tabulated pair:
    the table is checked against the Domain's own k grid - accepted verbatim when its k column is that grid, refused when it is that grid
    times the bond length"""
    L, dr = case['L'], case['dr']; l = case['l']
    def build(kfactor):
        s = pyPRISM.System(['A', 'B'], kT=1.0); s.domain = pyPRISM.Domain(length=L, dr=dr)
        s.density['A'] = 0.2; s.density['B'] = 0.3; s.diameter[['A', 'B']] = 1.0
        s.potential[['A', 'B'], ['A', 'B']] = pyPRISM.potential.HardSphere(); s.closure[['A', 'B'], ['A', 'B']] = pyPRISM.closure.PercusYevick()
        O = pyPRISM.omega
        s.omega['A', 'A'] = {'fjc': lambda: O.FreelyJointedChain(length=6, l=l), 'nfjc': lambda: O.NonOverlappingFreelyJointedChain(length=4, l=l), 'gauss': lambda: O.Gaussian(sigma=l, length=8)}[case['kind']]()
        s.omega['A', 'B'] = O.NoIntra()
        k = np.array(s.domain.k, dtype=float)
        tab = 1.0 + 2.0 * np.exp(-(k * 0.7) ** 2)
        s.omega['B', 'B'] = O.FromArray(tab.copy(), k * kfactor)
        return s, tab, k
    s, tab, k = build(1.0)
    try:
        p = s.createPRISM(); ok = bool(np.array_equal(p.omega.data[:, 1, 1], tab * 0.3)) and bool(np.array_equal(s.domain.k, k)); why = 'omega_BB is not the table times the site density, or the System\'s k grid changed'
        p2 = s.createPRISM(); ok = ok and bool(np.array_equal(p2.omega.data[:, 1, 1], tab * 0.3))
    except Exception as e:
        ok = False; why = 'createPRISM raised %s although the k column IS the Domain\'s grid' % type(e).__name__
    ctx.pred('mixed', case, ok, 'a table next to a %s omega with l = %g: %s' % (case['kind'], l, why), key='C12:fromarray')
    s, tab, k = build(l)
    try:
        s.createPRISM(); refused = False
    except Exception:
        refused = True
    ctx.pred('mixed', case, refused, 'a table whose k column is the Domain\'s grid times %g (next to a %s omega with that bond length) was accepted' % (l, case['kind']), key='C12:fromarray')

SUITES = {'array': suite_array, 'file': suite_file, 'history': suite_history, 'bigsys': suite_bigsys, 'mixed': suite_mixed}

def gen_domain(rng, maxL):
    L = rng.choice([1, 2, 3, 5, 8, 16, rng.randint(1, maxL)])
    if rng.random() < 0.5:
        dr = round(10 ** rng.uniform(-2, 0), 4); d = pyPRISM.Domain(length=L, dr=dr)
    else:
        dk = round(10 ** rng.uniform(-2, 0), 4); d = pyPRISM.Domain(length=L, dk=dk); dr = float(d.dr)
    return L, dr, [float(x) for x in d.k[:L]]

def relate(rng, kd, rel):
    k = list(kd); L = len(k)
    if rel == 'equal': return k
    if rel == 'shifted': return [x + 10 ** rng.uniform(-6, -1) for x in k]
    if rel == 'rescaled': return [x * (1 + rng.choice([-1, 1]) * 10 ** rng.uniform(-6, -1)) for x in k]
    if rel == 'truncated': return k[:max(0, L - rng.randint(1, min(3, L)))]
    if rel == 'extended': return k + [k[-1] + (i + 1) * (k[0] if L else 1.0) for i in range(rng.randint(1, 3))]
    if rel == 'prepend0': return [0.0] + k          # a table that starts at k = 0 (one point more than the grid, which starts at dk)
    if rel == 'nan':
        k[rng.randrange(L)] = float('nan'); return k
    if rel == 'perturbed':
        i = rng.randrange(L); thr = 1e-8 + 1e-5 * abs(k[i])
        k[i] = k[i] + rng.choice([-1, 1]) * thr * rng.choice([0.3, 0.9, 0.999, 1.001, 1.1, 3.0])
        return k
    return k

def generate(ctx):
    rng = ctx.rng; maxL = ctx.n(40, 300)
    for q in range(ctx.n(6, 40)):
        case = {'L': rng.choice([16, 32, 64]), 'dr': rng.choice([0.1, 0.2]), 'l': rng.choice([0.8, 1.25, 0.5, 2.0]), 'kind': ['fjc', 'nfjc', 'gauss'][q % 3]}
        ctx.case('mixed', case, True, tags=['mixed:' + case['kind']]); suite_mixed(ctx, case)
    for q in range(ctx.n(4, 20)):
        case = {'L': rng.choice([1024, 1200, 2048, 1500]), 'dr': rng.choice([0.05, 0.1]), 'w': rng.uniform(0.5, 2.0), 'amp': rng.choice([0.5, -0.3, 2.0]), 'badk': q % 2 == 1}
        ctx.case('bigsys', case, True, tags=['bigsys', 'badk' if case['badk'] else 'goodk']); suite_bigsys(ctx, case)
    for _ in range(ctx.n(120, 6000)):
        L, dr, kd = gen_domain(rng, 24)
        rows = [[k, round(rng.choice([rng.uniform(0, 30), rng.uniform(-0.5, 0.5), rng.uniform(-30, 30), 0.0, 10 ** rng.uniform(-12, -6)]), 12)] for k in kd]
        grids = [kd]
        for _ in range(rng.randint(1, 4)):
            rel = rng.choice(['equal', 'rescaled', 'rescaled', 'shifted', 'perturbed', 'truncated', 'extended'])
            g = relate(rng, kd, rel) or [kd[0]]
            if rel == 'rescaled' and rng.random() < 0.5: g = [2.0 * x for x in kd]          # same length, other spacing (Domain(dr/2))
            grids.append(g)
        if rng.random() < 0.3: rng.shuffle(grids)
        case = {'kind': rng.choice(['file', 'file', 'array-k', 'array']), 'rows': rows, 'grids': grids}
        ctx.case('history', case, True, tags=['history:' + case['kind'], 'evals:%d' % len(grids)]); suite_history(ctx, case)
    for _ in range(ctx.n(600, 30000)):
        L, dr, kd = gen_domain(rng, maxL)
        rel = rng.choice(['equal', 'equal', 'shifted', 'rescaled', 'truncated', 'extended', 'perturbed', 'perturbed', 'nan', 'prepend0'])
        kind = rng.choice(['array', 'array-nok', 'file2', 'file1'])
        if kind in ('array', 'array-nok'):
            ks = relate(rng, kd, rel) if kind == 'array' else None
            nval = len(ks) if ks is not None else (L if rel in ('equal', 'shifted', 'rescaled', 'perturbed') else len(relate(rng, kd, rel)))
            if rng.random() < 0.1: nval = max(1, nval + rng.choice([-1, 1]))
            if rel == 'prepend0' and ks is not None and rng.random() < 0.4: nval = L          # only the k column is one point too long
            case = {'kd': kd, 'k': ks, 'value': [round(rng.choice([rng.uniform(0, 30), rng.uniform(-0.5, 0.5), rng.uniform(-30, 30), 0.0, 10 ** rng.uniform(-12, -6)]), 12) for _ in range(nval)], 'rel': rel, 'kcont': rng.choice(['array', 'array', 'list', 'tuple']), 'dom': [L, dr]}
            c9 = rng.random()
            if c9 < 0.15:
                case['f32'] = True; case['value'] = [float(np.float32(v)) for v in case['value']]
            elif c9 < 0.3:
                case['vint'] = True; case['value'] = [float(int(round(v))) for v in case['value']]
            if rng.random() < 0.25: case['frozen'] = True
            ctx.case('array', case, rel != 'equal', tags=['kind:' + kind, 'rel:' + rel, 'L<=%d' % (8 * ((L + 7) // 8))])
            suite_array(ctx, case)
        else:
            ks = relate(rng, kd, rel)
            if not ks: ks = [kd[0]]
            if kind == 'file2':
                rows = [[k, round(rng.choice([rng.uniform(0, 30), rng.uniform(-0.5, 0.5), rng.uniform(-30, 30), 0.0, 10 ** rng.uniform(-12, -6)]), 12)] for k in ks]
            else:
                rows = [[round(rng.choice([rng.uniform(0, 30), rng.uniform(-0.5, 0.5), rng.uniform(-30, 30), 0.0, 10 ** rng.uniform(-12, -6)]), 12)] for _ in ks]
            case = {'kd': kd, 'rows': rows, 'rel': rel, 'dom': [L, dr], 'rewrite': rng.random() < 0.4}
            ctx.case('file', case, rel != 'equal' or len(rows) == 1, tags=['kind:' + kind, 'rel:' + rel, 'rows=1' if len(rows) == 1 else 'rows>1'])
            suite_file(ctx, case)
