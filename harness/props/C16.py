"""C16 — A PRISM object is a faithful, isolated snapshot of a fully specified System."""
import copy, math, warnings, itertools
from ..implenv import np, pyPRISM
from ..driver import f2h, fl, h2f
from .. import sysgen as G
from . import C01
from pyPRISM.core.Space import Space
import pyPRISM.core.PRISM as PRISM_mod

RULE = ("(missing) 1-3 component Systems with every single item omitted in turn (each density, diameter, potential pair, closure pair, omega pair incl. diagonal pairs, the domain) and random subsets: "
        "check/createPRISM/solve raise ValueError iff something is missing and PRISM.cost is never entered; (history) random sequences (<= 10 quick / <= 30 thorough) over {edit density / diameter / kT / "
        "domain, replace potential / closure / omega of a pair (or unset it), assign ONE potential / closure object to all pairs in one statement, in-place edit of a stored potential's sigma, createPRISM, solve} on ONE System object; after every operation the hidden "
        "object state of the System (U.sigma, closure.sigma, closure.potential per pair) and of EVERY PRISM object created so far is compared with the Lean object-store model; every new PRISM object is "
        "compared with the one of a freshly built System with the current parameters (wiring and, for solves, results) and with the value-level model; System snapshots before/after createPRISM/solve; "
        "old PRISM objects re-observed after later edits. Non-trivial = history with an edit between two creates; distinct = distinct case")
EXTRA_TRUSTED = C01.EXTRA_TRUSTED + ["copy.deepcopy / PairTable.__setitem__ copying modelled as allocation of a fresh cell (Model/SysHeap.lean); numpy array contents of omega objects are value-level"]
ASSUMPTIONS = C01.ASSUMPTIONS
BUDGET = {'quick': 900, 'thorough': 5400}
T = G.TYPES

def opt(v):
    return 'N' if v is None else f2h(v)

def sys_obs(s, n):
    parts = []
    for (i, j) in G.pairs_of(n):
        U = s.potential[T[i], T[j]]; C = s.closure[T[i], T[j]]
        us = '-' if U is None else opt(U.sigma)
        cs = '- -' if C is None else '%s %s' % (opt(getattr(C, 'sigma', None)), 'N' if getattr(C, 'potential', None) is None else str(len(C.potential)))
        parts.append('P%d%d %s %s' % (i, j, us, cs))
    return 'S ' + ' '.join(parts)

def prism_obs(k, p):
    n = p.sys.rank; parts = []
    for (i, j) in G.pairs_of(n):
        U = p.sys.potential[p.sys.types[i], p.sys.types[j]]; C = p.sys.closure[p.sys.types[i], p.sys.types[j]]
        parts.append('P%d%d %s %s %s' % (i, j, opt(getattr(U, 'sigma', None)), opt(getattr(C, 'sigma', None)), 'N' if getattr(C, 'potential', None) is None else fl(C.potential)))
    return 'Q%d ' % k + ' '.join(parts)

def snapshot(s):
    """everything observable on a System, incl. the hidden attributes of its objects"""
    n = s.rank; out = {'kT': s.kT, 'dom': None if s.domain is None else (s.domain.length, float(s.domain.dr), float(s.domain.dk))}
    out['dens'] = [s.density[t] for t in s.types]; out['diam'] = [s.diameter[t] for t in s.types]
    out['total'] = s.density.total; out['pair'] = s.density.pair.data.tolist(); out['site'] = s.density.site.data.tolist()
    for (i, j) in G.pairs_of(n):
        for name, tab in (('pot', s.potential), ('clo', s.closure), ('om', s.omega)):
            o = tab[s.types[i], s.types[j]]
            out['%s%d%d' % (name, i, j)] = None if o is None else (type(o).__name__, sorted((k, repr(np.asarray(v).tolist()) if isinstance(v, np.ndarray) else repr(v)) for k, v in vars(o).items()))
    return out

def apply_impl(s, op):
    k = op[0]
    if k == 'kT': s.kT = op[1]
    elif k == 'dom': s.domain = None if op[1] is None else pyPRISM.Domain(length=op[1], dr=op[2])
    elif k == 'domset':
        if s.domain is None: return False
        s.domain.dr = op[1]                       # IN-PLACE edit of the Domain object the System holds
    elif k == 'dens': s.density[G.fresh(T[op[1]])] = op[2]
    elif k == 'diam': s.diameter[G.fresh(T[op[1]])] = op[2]
    elif k in ('potall', 'cloall', 'pot', 'clo', 'om'):
        mk = {'potall': G.mk_pot, 'pot': G.mk_pot, 'cloall': G.mk_clo, 'clo': G.mk_clo, 'om': G.mk_om}[k]
        table = {'potall': s.potential, 'pot': s.potential, 'cloall': s.closure, 'clo': s.closure, 'om': s.omega}[k]
        if k in ('potall', 'cloall'):
            o_ = mk(op[1]); table[s.types, s.types] = o_; G.scramble(o_)
        elif op[3] is None: table[T[op[1]], T[op[2]]] = None
        else:
            # the table keeps its own copy: the caller's object is re-used afterwards with other parameters
            o_ = mk(op[3]); table[G.fresh(T[op[1]]), G.fresh(T[op[2]])] = o_; G.scramble(o_)
    elif k == 'potsigma':
        U = s.potential[T[op[1]], T[op[2]]]
        if U is None: return False
        U.sigma = op[3]
    elif k == 'omegaeval':
        # the user evaluates the System's own omega object on the current grid (to plot it, as the tutorials do): no edit at all
        O = s.omega[T[op[1]], T[op[2]]]
        if O is None or s.domain is None: return False
        with np.errstate(all='ignore'): O.calculate(s.domain.k)
    return True

def model_line(op):
    k = op[0]
    if k in ('potall', 'cloall', 'omegaeval'): return None
    if k == 'domset': return 'DOMSET'
    if k == 'kT': return 'w.op kT ' + f2h(op[1])
    if k == 'dom': return 'w.op dom none' if op[1] is None else 'w.op dom %d %s' % (op[1], f2h(op[2]))
    if k == 'dens': return 'w.op dens %s %d' % (f2h(op[2]), op[1])
    if k == 'diam': return 'w.op diam %s %d' % (f2h(op[2]), op[1])
    if k == 'pot':
        if op[3] is None: return 'w.op pot %d %d none' % (op[1], op[2])
        sp = op[3]; return 'w.op pot %d %d %s %s %s' % (op[1], op[2], sp[0], opt(sp[1]), fl(sp[2:]))
    if k == 'clo': return 'w.op clo %d %d none' % (op[1], op[2]) if op[3] is None else 'w.op clo %d %d %s %d' % (op[1], op[2], op[3][0], 1 if op[3][1] else 0)
    if k == 'om':
        if op[3] is None: return 'w.op om %d %d none' % (op[1], op[2])
        so = op[3]; return 'w.op om %d %d %s %d %s' % (op[1], op[2], so[0], so[1], fl(so[2:]))
    if k == 'potsigma': return 'w.op potsigma %d %d %s' % (op[1], op[2], opt(op[3]))
    return 'w.op create'

def track(sd, op):
    """the current description of the System (what a freshly built System with the current parameters is)"""
    k = op[0]
    if k in ('potall', 'cloall'):
        for (i, j) in G.pairs_of(sd['n']): sd['pairs'].setdefault('%d%d' % (i, j), {})['pot' if k == 'potall' else 'clo'] = copy.deepcopy(op[1])
        return
    if k == 'kT': sd['kT'] = op[1]
    elif k == 'dom': sd['dom'] = None if op[1] is None else [op[1], op[2]]
    elif k == 'domset':
        if sd.get('dom') is not None: sd['dom'] = [sd['dom'][0], op[1]]
    elif k == 'dens': sd['dens'][op[1]] = op[2]
    elif k == 'diam': sd['diam'][op[1]] = op[2]
    elif k in ('pot', 'clo', 'om'):
        i, j = sorted((op[1], op[2])); sd['pairs'].setdefault('%d%d' % (i, j), {})[k] = copy.deepcopy(op[3])
    elif k == 'potsigma':
        i, j = sorted((op[1], op[2])); pr = sd['pairs'].get('%d%d' % (i, j), {})
        if pr.get('pot') is not None: pr['pot'][1] = op[3]

def complete(sd):
    n = sd['n']
    if sd.get('dom') is None or any(v is None for v in sd['dens']) or any(v is None for v in sd['diam']): return False
    for (i, j) in G.pairs_of(n):
        pr = sd['pairs'].get('%d%d' % (i, j), {})
        if pr.get('pot') is None or pr.get('clo') is None or pr.get('om') is None: return False
    return True

class CostCounter:
    def __enter__(self):
        self.n = 0; self.orig = PRISM_mod.PRISM.cost
        me = self
        def counted(obj, x):
            me.n += 1; return me.orig(obj, x)
        PRISM_mod.PRISM.cost = counted
        return self
    def __exit__(self, *a):
        PRISM_mod.PRISM.cost = self.orig

def cost_outcome(p, x0):
    """what an existing PRISM object computes for a fixed trial input (bit for bit), or the exception it raises"""
    try:
        with warnings.catch_warnings():
            warnings.simplefilter('ignore')
            with np.errstate(all='ignore'):
                return np.asarray(p.cost(x0.copy()), dtype=float).tobytes()
    except Exception as e:
        return 'raised ' + type(e).__name__

def initial_ops(sd):
    """the op list that builds the System of a description from scratch"""
    ops = [['dom', sd['dom'][0], sd['dom'][1]]] if sd.get('dom') is not None else []
    for t, v in enumerate(sd['dens']):
        if v is not None: ops.append(['dens', t, v])
    for t, v in enumerate(sd['diam']):
        if v is not None: ops.append(['diam', t, v])
    for (i, j) in G.pairs_of(sd['n']):
        pr = sd['pairs'].get('%d%d' % (i, j), {})
        for key in ('pot', 'clo', 'om'):
            if pr.get(key) is not None: ops.append([key, i, j, copy.deepcopy(pr[key])])
    return ops

def suite_history(ctx, case):
    drv = ctx.drv; n = case['n']
    s = pyPRISM.System(T[:n], kT=case['kT'])
    assert drv.ask('w.new %d %s' % (n, f2h(case['kT']))) == 'ok'
    sd = {'n': n, 'kT': case['kT'], 'dom': None, 'dens': [None] * n, 'diam': [None] * n, 'pairs': {}}
    prisms = []; frozen = []
    for step, op in enumerate(case['ops']):
        sub = dict(case, ops=case['ops'][:step + 1])
        if op[0] in ('create', 'solve'):
            before = snapshot(s)
            with CostCounter() as cc:
                try:
                    with warnings.catch_warnings():
                        warnings.simplefilter('ignore')
                        with np.errstate(all='ignore'):
                            p = s.createPRISM() if op[0] == 'create' else s.solve(method=op[1], options={'disp': False})
                    impl = 'ok %d' % len(prisms)
                except ValueError as e:
                    p = None; impl = 'ERR ValueError'
                except Exception as e:
                    p = None; impl = 'ERR rejected'
                ncost = cc.n
            full = complete(sd)
            if op[0] == 'solve' and impl != ('ok %d' % len(prisms)) and full and ncost > 0:
                # the root finder itself failed (e.g. a singular matrix during iterations): solver behaviour, not the property
                ctx.dist['solve:raised-in-solver'] += 1; return
            ctx.corr('history', sub, drv.ask('w.op create'), impl, what='%s outcome' % op[0])
            ctx.pred('history', sub, (impl == 'ERR ValueError') == (not full), '%s on a %s System: %s' % (op[0], 'complete' if full else 'partial', impl), key='C16:check')
            if not full:
                ctx.pred('history', sub, ncost == 0, 'a calculation was started on a partial System (%d cost evaluations)' % ncost, key='C16:check')
            ctx.pred('history', sub, snapshot(s) == before, '%s modified the System' % op[0], key='C16:system-modified')
            if p is not None:
                prisms.append(p)
                # the new object vs a freshly built System with the current parameters, and vs the value-level model
                fresh = G.build_system(sd)
                with warnings.catch_warnings():
                    warnings.simplefilter('ignore'); pf = fresh.createPRISM()
                same = G.wiring_tok(p) == G.wiring_tok(pf)
                ctx.pred('history', sub, same, 'PRISM object created after the edit history differs from the one of a fresh System with the same parameters', key='C16:sweep-fresh')
                okw, whyw = C01.wiring_ok(p, sd)
                ctx.pred('history', sub, okw and float(p.sys.kT) == sd['kT'] and (p.sys.domain.length, float(p.sys.domain.dr)) == (sd['dom'][0], float(sd['dom'][1])),
                         'the new PRISM object is not wired from the System\'s current state: ' + whyw, key='C16:wiring')
                assert drv.ask('w.prism %d' % (len(prisms) - 1)) == 'ok'
                line = G.wiring_tok(p)
                ctx.corr('history', sub, drv.ask('prism.wiring'), line, rtol=1e-11, atols=G.wiring_atols(line, sd, p.sys.domain.k), what='wiring of the new PRISM object')
                if op[0] == 'solve' and p.minimize_result.success:
                    with warnings.catch_warnings():
                        warnings.simplefilter('ignore')
                        with np.errstate(all='ignore'):
                            pf2 = fresh.solve(method=op[1], options={'disp': False})
                    ctx.pred('history', sub, bool(np.allclose(p.totalCorr.data, pf2.totalCorr.data, rtol=1e-7, atol=1e-9)),
                             'solve on the edited System differs from solve on a fresh System with the same parameters', key='C16:sweep-fresh')
                    # the same, unedited System solved once more: the identical computation, so the identical result (to the last
                    # ulps) unless the first solve left something behind on the System that the second one picks up
                    with warnings.catch_warnings():
                        warnings.simplefilter('ignore')
                        with np.errstate(all='ignore'):
                            try: pr = s.solve(method=op[1], options={'disp': False})
                            except Exception: pr = None
                    again = pr is not None and bool(np.allclose(pr.totalCorr.data, p.totalCorr.data, rtol=1e-13, atol=1e-13, equal_nan=True))
                    ctx.pred('history', sub, again, 'a second solve of the unedited System differs from the first: solve carries state from one call to the next on the System', key='C16:sweep-fresh')
                    ctx.pred('history', sub, snapshot(s) == before, 'solve (repeated) modified the System', key='C16:system-modified')
                x0 =0.05 * np.sin(1.0 + 0.37 * np.arange(p.sys.rank * p.sys.rank * p.sys.domain.length))
                frozen.append((G.wiring_tok(p), p.omega.data.copy(), float(p.sys.kT), [p.sys.density[t] for t in p.sys.types], [p.sys.diameter[t] for t in p.sys.types],
                               (p.sys.domain.length, float(p.sys.domain.dr)), x0, cost_outcome(p, x0) if op[0] == 'create' else None))
        else:
            ok = apply_impl(s, op)
            if op[0] in ('potall', 'cloall'):
                # ONE object assigned to all pairs in one statement: the model receives the equivalent pair-by-pair assignments
                for (i, j) in G.pairs_of(n):
                    ml = drv.ask(model_line(['pot' if op[0] == 'potall' else 'clo', i, j, op[1]]))
            elif op[0] == 'domset':
                ml = drv.ask('w.op dom %d %s' % (sd['dom'][0], f2h(op[1]))) if (ok and sd.get('dom') is not None) else 'ERR rejected'
            elif op[0] == 'omegaeval':
                ml = 'ok' if ok else 'ERR rejected'                      # not an edit: the model's System is untouched

            else:
                ml = drv.ask(model_line(op))
            ctx.corr('history', sub, ml, 'ok' if ok else 'ERR rejected', what='edit accepted')
            if ok: track(sd, op)
        # hidden object state of the System and of every PRISM object so far
        impl_obs = sys_obs(s, n) + ' | ' + ' | '.join(prism_obs(k, p) for k, p in enumerate(prisms))
        ctx.corr('history', sub, drv.ask('w.obs'), impl_obs, rtol=1e-11, atols=G.group_atols(impl_obs, 1e-12), what='object state of the System and of all PRISM objects')
        # later edits must not reach existing PRISM objects
        for k, (p, fz) in enumerate(zip(prisms, frozen)):
            now = (G.wiring_tok(p), p.omega.data, float(p.sys.kT), [p.sys.density[t] for t in p.sys.types], [p.sys.diameter[t] for t in p.sys.types], (p.sys.domain.length, float(p.sys.domain.dr)))
            same = now[0] == fz[0] and np.array_equal(now[1], fz[1]) and now[2:] == fz[2:6]
            ctx.pred('history', sub, same, 'PRISM object #%d changed after a later System operation (%s)' % (k, op[0]), key='C16:prism-isolated')
            if fz[7] is not None and op[0] not in ('create', 'solve'):
                ctx.pred('history', sub, cost_outcome(p, fz[6]) == fz[7], 'PRISM object #%d evaluates its self-consistency function differently after a later System operation (%s)' % (k, op[0]),
                         key='C16:prism-isolated')

def suite_missing(ctx, case):
    """a full description with some items removed"""
    sd = copy.deepcopy(case['sys'])
    for item in case['missing']:
        if item[0] == 'dom': sd['dom'] = None
        elif item[0] in ('dens', 'diam'): sd[item[0]][item[1]] = None
        else: sd['pairs'][item[1]][item[0]] = None
    ops = initial_ops(sd) + [['create'], ['solve', 'krylov']] if case.get('solve') else initial_ops(sd) + [['create']]
    suite_history(ctx, {'n': sd['n'], 'kT': sd['kT'], 'ops': ops, 'missing': case['missing']})
    s = G.build_system(sd)
    try:
        s.check(); ok = True
    except ValueError: ok = False
    except Exception: ok = None
    ctx.pred('missing', case, ok == (not case['missing']), 'System.check() outcome %r with missing %s' % (ok, case['missing']), key='C16:check')
    if not case['missing']:
        # checking / creating / solving reads the System: densities, diameters, the sigma table, kT, the Domain's grids and the assigned objects' parameters stay
        import copy as _c
        def snap(z):
            ty = z.types
            return ([z.density[t] for t in ty], [z.diameter[t] for t in ty], [[z.diameter.sigma[a, b] for b in ty] for a in ty], z.kT, z.domain.length, float(z.domain.dr), z.domain.r.tolist(), z.domain.k.tolist(),
                    [[getattr(z.potential[a, b], 'sigma', None) for b in ty] for a in ty], [[getattr(z.closure[a, b], 'potential', None) is None for b in ty] for a in ty])
        s3 = G.build_system(sd); before = snap(s3)
        with warnings.catch_warnings():
            warnings.simplefilter('ignore')
            for what, fn in (('check()', s3.check), ('createPRISM()', s3.createPRISM), ('check() again', s3.check)):
                try: fn()
                except Exception: pass
                ctx.pred('missing', case, snap(s3) == before, 'System.%s changed the System (densities / diameters / sigma table / kT / grids / the potentials\' sigma)' % what, key='C16:system-modified')
    # the same description with other legal type labels (integers whose values are not their positions, 0 among them)
    for labels in ([2, 0, 5, 9], ['poly', 0, 'B', 4]):
        s2 = G.build_system(sd, types=labels[:sd['n']])
        outs = []
        for fn in (s2.check, s2.createPRISM):
            try:
                with warnings.catch_warnings():
                    warnings.simplefilter('ignore'); fn()
                outs.append('ok')
            except ValueError: outs.append('ValueError')
            except Exception as e: outs.append(type(e).__name__)
        want = 'ok' if not case['missing'] else 'ValueError'
        ctx.pred('missing', case, outs == [want, want], 'type labels %s: check()/createPRISM() -> %s with missing %s (expected %s)' % (labels[:sd['n']], outs, case['missing'], want), key='C16:check')

    if not case['missing']:
        equivalent_descriptions(ctx, case, sd)

def equivalent_descriptions(ctx, case, sd):
    """the same physical system described with other legal type labels, or with every energy (and kT) in other units, is wired into the
    same PRISM object: omega x site density, pair densities, each pair's potential / kT and contact distance, position by position"""
    from . import C04
    with warnings.catch_warnings():
        warnings.simplefilter('ignore')
        try: ref = G.build_system(sd).createPRISM()
        except Exception: return
        n = sd['n']
        def wiring(p):
            ty = p.sys.types
            return ([np.asarray(p.sys.closure[ty[i], ty[j]].potential, dtype=float) for (i, j) in G.pairs_of(n)], [p.sys.closure[ty[i], ty[j]].sigma for (i, j) in G.pairs_of(n)])
        ty0 = ref.sys.types
        mirrored = all(ref.sys.potential[ty0[i], ty0[j]] is ref.sys.potential[ty0[j], ty0[i]] and ref.sys.closure[ty0[i], ty0[j]] is ref.sys.closure[ty0[j], ty0[i]] for (i, j) in G.pairs_of(n))
        ctx.pred('missing', case, mirrored, 'a pair of the PRISM object\'s potential / closure table looked up in the other order is another object (edits through the other key order would be lost)', key='C16:wiring')
        U0, S0 = wiring(ref)
        variants = [('type labels %s' % lab[:n], sd, lab[:n]) for lab in ([1, 2, 3, 4], [1, 0, 3, 2], [2, 1, 4, 3], ['B', 'A', 'D', 'C'])]
        variants += [('all energies and kT x %g' % f, C04.scale_sd(sd, f), None) for f in (4.14e-21, 1.66e-24, 2.5e3)]
        for what, sdv, lab in variants:
            try:
                p = G.build_system(sdv, types=lab).createPRISM()
            except Exception as e:
                ctx.pred('missing', case, False, '%s: createPRISM raised %s' % (what, type(e).__name__), key='C16:wiring'); continue
            U1, S1 = wiring(p)
            ok = bool(np.array_equal(p.omega.data, ref.omega.data)) and bool(np.array_equal(p.pairDensityMatrix if hasattr(p, 'pairDensityMatrix') else p.sys.density.pair.data, ref.pairDensityMatrix if hasattr(ref, 'pairDensityMatrix') else ref.sys.density.pair.data))
            why = 'omega or the pair densities differ'
            if ok:
                for a, b in zip(U0, U1):
                    with np.errstate(all='ignore'):
                        same = (a == b) | (np.abs(a - b) <= 1e-11 * np.abs(a)) | (np.isnan(a) & np.isnan(b))
                    if a.shape != b.shape or not bool(np.all(same)): ok = False; why = 'a pair\'s potential / kT differs (%.6g vs %.6g)' % (float(a[np.argmax(~same)]) if a.shape == b.shape else 0, float(b[np.argmax(~same)]) if a.shape == b.shape else 0)
                if S0 != S1: ok = False; why = 'a closure contact distance differs'
            ctx.pred('missing', case, ok, 'the same system described with %s is wired differently: %s' % (what, why), key='C16:wiring')

SUITES = {'history': suite_history, 'missing': suite_missing}

def gen_edit(rng, sd_hint, n, L):
    dr = sd_hint['dom'][1]
    k = rng.choice(['dens', 'diam', 'diam', 'kT', 'pot', 'pot', 'clo', 'om', 'dom', 'potsigma', 'potsigma', 'unset', 'potall', 'cloall', 'omegaeval', 'omegaeval'])
    if k == 'omegaeval': i = rng.randrange(n); return ['omegaeval', i, rng.randrange(i, n)]
    if k == 'potall': return ['potall', G.gen_pot(rng, 1.0, True, explicit_sigma=0.0)]
    if k == 'cloall':
        c = rng.choice(['py', 'hnc', 'msa', 'ms']); return ['cloall', [c, True if c in ('msa', 'ms') else rng.random() < 0.5]]
    i = rng.randrange(n); j = rng.randrange(i, n)
    if k == 'dens': return ['dens', i, float('%.4g' % rng.uniform(0.02, 0.5))]
    if k == 'diam': return ['diam', i, G.grid_multiple(rng, dr, 0.4, 1.6)]
    if k == 'kT': return ['kT', float('%.3g' % rng.uniform(0.5, 3.0))]
    if k == 'pot': return ['pot', i, j, G.gen_pot(rng, 1.0, True, explicit_sigma=0.3)]
    if k == 'clo':
        c = rng.choice(['py', 'hnc', 'msa', 'ms']); return ['clo', i, j, [c, True if c in ('msa', 'ms') else rng.random() < 0.5]]
    if k == 'om': return ['om', i, j, G.gen_om_diag(rng, L) if i == j else G.gen_om_off(rng, L)]
    if k == 'dom': return rng.choice([['dom', L, rng.choice([0.1, 0.2, 0.125, 0.25])], ['domset', rng.choice([0.1, 0.2, 0.125, 0.25, 0.05])]])     # length kept so that tabulated omegas stay valid
    if k == 'potsigma': return ['potsigma', i, j, rng.choice([None, float('%.4g' % rng.uniform(0.5, 1.5))])]
    return [rng.choice(['pot', 'clo', 'om']), i, j, None]

def generate(ctx):
    rng = ctx.rng
    # --- every single item omitted in turn
    for n in (1, 2, 3):
        sd = G.gen_system(rng, maxn=n, maxL=16)
        while sd['n'] != n: sd = G.gen_system(rng, maxn=n, maxL=16)
        items = [('dom',)] + [('dens', t) for t in range(n)] + [('diam', t) for t in range(n)] + \
                [(key, '%d%d' % ij) for key in ('pot', 'clo', 'om') for ij in G.pairs_of(n)]
        for it in [None] + items:
            case = {'sys': sd, 'missing': [] if it is None else [list(it)], 'solve': rng.random() < 0.3}
            ctx.case('missing', case, True, tags=['missing:' + ('none' if it is None else it[0]), 'rank:%d' % n]); suite_missing(ctx, case)
        for _ in range(ctx.n(6, 40)):
            ms = [list(x) for x in rng.sample(items, rng.randint(2, min(5, len(items))))]
            case = {'sys': sd, 'missing': ms, 'solve': False}
            ctx.case('missing', case, True, tags=['missing:subset', 'rank:%d' % n]); suite_missing(ctx, case)
    # --- edit / create / solve histories on one System object
    for q in range(ctx.n(60, 500)):
        sd = C01.gen_solvable(rng, maxn=ctx.n(2, 3), maxL=32) if q % 3 == 0 else G.gen_system(rng, maxn=3, maxL=16)
        for pr in sd['pairs'].values():
            if rng.random() < 0.7: pr['pot'][1] = None
        n = sd['n']; L = sd['dom'][0]
        ops = initial_ops(sd)
        rng.shuffle(ops)
        m = rng.randint(2, ctx.n(10, 30)); ncreate = 0
        for _ in range(m):
            c = rng.random()
            if c < 0.3: ops.append(['create']); ncreate += 1
            elif c < 0.36 and q % 3 == 0: ops.append(['solve', rng.choice(['krylov', 'hybr'])]); ncreate += 1
            else: ops.append(gen_edit(rng, sd, n, L))
        ops.append(['create'])
        case = {'n': n, 'kT': sd['kT'], 'ops': ops}
        ctx.case('history', case, ncreate >= 1, tags=['rank:%d' % n, 'creates:%d' % min(ncreate + 1, 4)] + ['op:' + o[0] for o in ops[-m:]][:8])
        suite_history(ctx, case)
    # --- directed sweeps: a size sweep that edits the sigma of a stored explicit-sigma potential in place, and a diameter sweep in tiny steps
    for q in range(ctx.n(10, 60)):
        sd = G.gen_system(rng, maxn=2, maxL=16); n = sd['n']; L = sd['dom'][0]; dr = sd['dom'][1]
        kind = rng.choice(['wca', 'wca', 'ljshift', 'hclj', 'hs', 'exp'])
        for key, pr in sd['pairs'].items():
            sg = float('%.4g' % rng.uniform(0.6, 1.2))
            pr['pot'] = {'wca': ['wca', sg, 0.8], 'ljshift': ['ljshift', sg, 0.6, 2.2], 'hclj': ['hclj', sg, 0.4, 1e6], 'hs': ['hs', sg, 1e6], 'exp': ['exp', sg, 0.3, 0.6, 1e6]}[kind]
        ops = initial_ops(sd) + [['create']]
        for _ in range(rng.randint(2, 4)):
            i = rng.randrange(n); j = rng.randrange(i, n)
            if rng.random() < 0.6: ops.append(['potsigma', i, j, float('%.4g' % rng.uniform(0.6, 1.4))])
            else: ops.append(['diam', i, sd['diam'][i] * (1 + rng.choice([1e-6, 3e-7, -2e-6, 1e-9]))])          # a re-assignment np.isclose would call unchanged
            ops.append(['create'])
        case = {'n': n, 'kT': sd['kT'], 'ops': ops}
        ctx.case('history', case, True, tags=['rank:%d' % n, 'directed-sweep:' + kind]); suite_history(ctx, case)
