"""C01 — Converged solutions satisfy the PRISM equation and every pair's closure."""
import math, warnings
from ..implenv import np, pyPRISM
from ..driver import f2h, fl, h2f
from .. import sysgen as G
from pyPRISM.core.Space import Space

RULE = ("random Systems (1-3 site types, unequal densities/diameters, random kT, a DIFFERENT shipped closure/potential/omega per pair, lengths 4-32 quick / -128 thorough incl. "
        "non powers of two): (wiring) closure.sigma, potential.sigma, closure.potential = U(r)/kT and omega*rho_site of createPRISM compared with the Lean model; (cost) PRISM.cost(x) "
        "for zero/small/moderate/asymmetric x compared with the model's statement-for-statement cost (y, directCorr, totalCorr, GammaIn, GammaOut, flags); predicates computed from the "
        "public attributes only: matrix PRISM equation residual per k, closure relation c = phi(r, gamma_in), gamma_out = h - c, y = r(gamma_out-gamma_in); (solve) every scipy method in "
        "{krylov, hybr, lm, anderson, broyden1, df-sane} x zero/perturbed guesses: stored arrays vs cost(result.x), PRISM equation, closure residual <= slope*|fun|/r. "
        "Non-trivial = rank >= 2 or non-zero x; distinct = distinct (system, x / method)")
EXTRA_TRUSTED = ["np.linalg.inv is a parameter of the model (driver: Gauss-Jordan); tolerance 1e-7*max|out|*cond-free (systems with cond(1-Omega C) > 1e6 are skipped and counted)",
                 "scipy.optimize.root is an arbitrary oracle: nothing is assumed about it; the solve predicates quantify over whatever it returns"]
ASSUMPTIONS = ["1 - Omega C invertible at every k (well-conditioned: cond < 1e6)", "pair densities non-zero", "finite closure outputs (|gamma| moderate)"]
BUDGET = {'quick': 900, 'thorough': 5400}

def prism_eq_residual(p):
    """max over k of |H - Omega C (Omega + H)| relative to the natural scale; all from public attributes"""
    om = p.omega.data; C = p.directCorr.data
    H = p.totalCorr.data * p.sys.density.pair.data
    n = om.shape[1]
    worst = 0.0; cond = 1.0
    for l in range(om.shape[0]):
        OC = om[l] @ C[l]
        res = H[l] - OC @ (om[l] + H[l])
        A = np.eye(n) - OC
        c = np.linalg.cond(A)
        sc = max(1.0, np.max(np.abs(om[l])), np.max(np.abs(H[l])), np.max(np.abs(OC)) * max(np.max(np.abs(om[l])), np.max(np.abs(H[l]))))
        worst = max(worst, float(np.max(np.abs(res))) / (sc * max(c, 1.0)))
        cond = max(cond, c)
    return worst, cond

def closure_lipschitz(clo, r, g0, g1):
    """numerical Lipschitz constant of gamma -> closure(r, gamma) on each segment [g0_i, g1_i]"""
    L = np.zeros_like(g0)
    ts = np.linspace(0, 1, 9)
    vals = [clo.calculate(r, g0 + t * (g1 - g0)) for t in ts]
    d = np.abs(g1 - g0)
    for a, b in zip(vals[:-1], vals[1:]):
        with np.errstate(all='ignore'):
            s = np.where(d > 0, np.abs(b - a) / (d / 8 + 1e-300), 0.0)
        L = np.maximum(L, s)
    return L

def closure_preds(ctx, suite, case, p, y, key='C01:closure'):
    """c(r), h(r), gamma relations per pair, from the stored arrays"""
    d = p.sys.domain; n = p.sys.rank; types = p.sys.types
    L = d.length
    C = p.directCorr.data if p.directCorr.space == Space.Fourier else None
    H = p.totalCorr.data
    yv = np.asarray(y).reshape((L, n, n))
    ok = True; why = ''
    for (i, j) in G.pairs_of(n):
        clo = p.sys.closure[types[i], types[j]]
        c = d.to_real(C[:, i, j]) if C is not None else p.directCorr.data[:, i, j]
        h = d.to_real(H[:, i, j]) if p.totalCorr.space == Space.Fourier else H[:, i, j]
        gam = h - c
        gin = gam - yv[:, i, j] / d.r
        with np.errstate(all='ignore'):
            phi = clo.calculate(d.r, gam)
            lip = closure_lipschitz(clo, d.r, gin, gam)
        bound = lip * np.abs(yv[:, i, j]) / d.r
        sc = np.maximum(1.0, np.maximum(np.abs(c), np.abs(phi)))
        bad = np.abs(c - phi) > bound * (1 + 1e-6) + 1e-8 * sc * (1 + lip)
        bad &= np.isfinite(phi) & np.isfinite(c)
        if np.any(bad):
            q = int(np.argmax(bad))
            ok = False; why = 'pair %s-%s r=%.4g: |c - closure(h-c)| = %.3g > slope*|y|/r = %.3g' % (types[i], types[j], d.r[q], abs(c[q] - phi[q]), bound[q])
            break
    ctx.pred(suite, case, ok, 'closure relation violated: ' + why, key=key)

def wiring_ok(p, sd):
    """independent statement of the wiring of a PRISM object created from the System described by `sd`"""
    n = sd['n']; types = p.sys.types; ok = True; why = ''
    for (i, j) in G.pairs_of(n):
        pr = sd['pairs']['%d%d' % (i, j)]
        clo = p.sys.closure[types[i], types[j]]; U = p.sys.potential[types[i], types[j]]
        sig = G.pair_sigma(sd, i, j)
        want_usig = pr['pot'][1] if pr['pot'][1] is not None else sig
        Uref = G.mk_pot(pr['pot']); Uref.sigma = want_usig
        with np.errstate(all='ignore'):
            uref = Uref.calculate(p.sys.domain.r) / sd['kT']
        if not (getattr(clo, 'sigma', None) == sig and U.sigma == want_usig and getattr(clo, 'potential', None) is not None and np.allclose(clo.potential, uref, rtol=1e-12, atol=0, equal_nan=True)):
            ok = False; why = 'pair %d%d sigma %r/%r potential mismatch' % (i, j, getattr(clo, 'sigma', None), U.sigma); break
        oref = np.asarray(G.mk_om(pr['om']).calculate(p.sys.domain.k), dtype=float) * (sd['dens'][i] if i == j else sd['dens'][i] + sd['dens'][j])
        if not (np.allclose(p.omega.data[:, i, j], oref, rtol=1e-12, atol=1e-300) and np.array_equal(p.omega.data[:, i, j], p.omega.data[:, j, i])):
            ok = False; why = 'pair %d%d omega*site density mismatch' % (i, j); break
    return ok, why

def suite_wiring(ctx, case):
    sd = case['sys']
    s = G.build_system(sd, types=labels_of(case, sd['n'])); G.feed(ctx.drv, sd)
    try:
        p = s.createPRISM(); impl = 'ok'
    except Exception as e:
        p = None; impl = G.err_tok(e)
    ctx.corr('wiring', case, ctx.drv.ask('prism.create'), impl, what='createPRISM outcome')
    if p is None: return None
    line = G.wiring_tok(p)
    ctx.corr('wiring', case, ctx.drv.ask('prism.wiring'), line, rtol=1e-11, atols=G.wiring_atols(line, sd, p.sys.domain.k), what='closure.sigma / potential.sigma / U(r)/kT / omega*rho_site')
    ok, why = wiring_ok(p, sd)
    ctx.pred('wiring', case, ok and p.omega.space == Space.Fourier, 'PRISM wiring differs from the System: ' + why, key='C01:wiring')
    if case.get('second'):
        # a second PRISM object is spawned from the SAME System after kT and a diameter were changed (a scan): the first object
        # must still carry the inputs it was created with
        before = G.wiring_tok(p)
        s.kT = sd['kT'] * 2.0
        s.diameter[s.types[0]] = sd['diam'][0] + sd['dom'][1]
        with warnings.catch_warnings():
            warnings.simplefilter('ignore'); p2 = s.createPRISM()
        # ... and the second object is wired from the System as it is NOW
        import copy as _c
        sd2 = _c.deepcopy(sd); sd2['kT'] = sd['kT'] * 2.0; sd2['diam'][0] = sd['diam'][0] + sd['dom'][1]
        sd2['sigma_override'] = [e for e in sd.get('sigma_override', []) if 0 not in (e[0], e[1])]
        ok2, why2 = wiring_ok(p2, sd2)
        ctx.pred('wiring', case, ok2, 'a second PRISM object created after kT and a diameter were changed is not wired from the current System: ' + why2, key='C01:wiring')
        same = G.wiring_tok(p) == before
        ctx.pred('wiring', case, same, 'creating a second PRISM object from the same System (after changing kT and a diameter) changed the first object', key='C01:wiring')
        ctx.corr('wiring', case, ctx.drv.ask('prism.wiring'), G.wiring_tok(p), rtol=1e-11, atols=G.wiring_atols(before, sd, p.sys.domain.k), what='first PRISM object after a second one was created')
    if case.get('continue_from_psys'):
        # a continuation: the EVALUATED object's own System (p.sys) is edited (kT, a diameter) and a new PRISM object is built from it;
        # it must behave exactly like one built from a fresh System with those parameters
        L = sd['dom'][0]
        nn = sd['n']; x0 = 0.05 * np.sin(1.0 + 0.37 * np.arange(nn * nn * L))
        with warnings.catch_warnings():
            warnings.simplefilter('ignore')
            with np.errstate(all='ignore'):
                p.cost(x0.copy())
                s3 = p.sys; s3.kT = sd['kT'] * 0.8
                p3 = s3.createPRISM(); y3 = p3.cost(x0.copy())
                sdf = dict(sd, kT=sd['kT'] * 0.8); sdf.pop('kT_assign', None)
                yf = G.build_system(sdf).createPRISM().cost(x0.copy())
        okc = bool(np.allclose(y3, yf, rtol=1e-10, atol=1e-12, equal_nan=True))
        ctx.pred('wiring', case, okc, 'a PRISM object built from an evaluated object\'s own System (p.sys) after its kT was changed evaluates cost(x) differently from one built from a fresh System: max diff %.3g' %
                 (float(np.nanmax(np.abs(y3 - yf))) if np.all(np.isfinite(y3 - yf)) else float('nan')), key='C01:wiring')
    return p

INT_LABELS = {'int1': [1, 2, 3, 4], 'intperm': [1, 0, 3, 2], 'intrev': [3, 2, 1, 0], 'mixed': ['poly', 0, 2, 'B']}          # legal labels that are valid indices of OTHER positions
def labels_of(case, n):
    return None if not case.get('labels') else INT_LABELS[case['labels']][:n]

def suite_cost(ctx, case):
    sd = case['sys']
    s = G.build_system(sd, types=labels_of(case, sd['n'])); G.feed(ctx.drv, sd)
    p = s.createPRISM()
    assert ctx.drv.ask('prism.create') == 'ok'
    for xi, x in enumerate(case['xs']):
        sub = dict(case, xs=[x])
        xa = np.array(x, dtype=float)
        with np.errstate(all='ignore'):
            try:
                y = p.cost(xa.copy()); impl = G.cost_tok(p, y)
            except Exception as e:
                ctx.pred('cost', sub, False, 'cost raised %r' % (e,), key='C01:cost-raises'); return
        if not np.all(np.isfinite(y)):
            ctx.dist['cost:nonfinite-skipped'] += 1; continue
        res, cond = prism_eq_residual(p)
        if cond > 1e6:
            ctx.dist['cost:illconditioned-skipped'] += 1; continue
        ctx.corr('cost', sub, ctx.drv.ask('prism.cost ' + fl(xa)), impl, rtol=1e-9, atols=G.group_atols(impl, 1e-7 * max(cond, 1.0) / 10), what='cost(x): y, directCorr, totalCorr, GammaIn, GammaOut')
        ctx.pred('cost', sub, res <= 1e-10, 'PRISM equation H = Omega C (Omega + H) violated after cost(x): relative residual %.3g (cond %.3g)' % (res, cond), key='C01:prism-equation')
        ctx.pred('cost', sub, p.directCorr.space == Space.Fourier and p.totalCorr.space == Space.Fourier and p.GammaOut.space == Space.Real,
                 'space flags after cost: c %s h %s' % (p.directCorr.space, p.totalCorr.space), key='C01:flags')
        # closure relation on the arrays left by this evaluation: c = phi(gamma_in) exactly, gamma_out = h - c, y = r (gamma_out - gamma_in)
        closure_preds(ctx, 'cost', sub, p, y)
        d = p.sys.domain; n = p.sys.rank
        gin = xa.reshape((-1, n, n)) / d.long_r
        ok = True
        for (i, j) in G.pairs_of(n):
            c = d.to_real(p.directCorr.data[:, i, j]); h = d.to_real(p.totalCorr.data[:, i, j])
            sc = max(1.0, float(np.max(np.abs(c))), float(np.max(np.abs(h))))
            with np.errstate(all='ignore'):
                cref = p.sys.closure[s.types[i], s.types[j]].calculate(d.r, gin[:, i, j])
            ok = ok and bool(np.all(np.abs(c - cref) <= 1e-9 * sc * d.length)) and bool(np.all(np.abs((h - c) - p.GammaOut.data[:, i, j]) <= 1e-9 * sc * d.length))
            ok = ok and bool(np.all(np.abs(d.r * (p.GammaOut.data[:, i, j] - gin[:, i, j]) - y.reshape((-1, n, n))[:, i, j]) <= 1e-12 * sc * d.r[-1]))
        ctx.pred('cost', sub, ok, 'stored arrays after cost(x) do not satisfy c = closure(gamma_in), gamma_out = h - c, y = r(gamma_out - gamma_in)', key='C01:cost-relations')

def solve_quiet(p, guess, method, maxiter=None):
    with warnings.catch_warnings():
        warnings.simplefilter('ignore')
        with np.errstate(all='ignore'):
            try:
                # iteration caps: a root finder that does not converge on some random system must not stall the check
                # (non-converged solves are skipped and counted; the properties speak about converged ones)
                opts = {'krylov': {'maxiter': 250}, 'anderson': {'maxiter': 400}, 'broyden1': {'maxiter': 400}, 'df-sane': {'maxfev': 3000},
                        'hybr': {'maxfev': 6000}, 'lm': {'maxiter': 6000}}.get(method, {})
                if maxiter is not None: opts = {k: maxiter for k in opts}          # an interrupted solve (a few iterations only)
                return p.solve(guess=guess, method=method, options=dict(opts, disp=False))
            except Exception as e:
                return e

def suite_solve(ctx, case):
    sd = case['sys']
    s = G.build_system(sd)
    p = s.createPRISM()
    n = sd['n']; L = sd['dom'][0]
    guess = np.array(case['guess'], dtype=float) if case.get('guess') is not None else None
    res = solve_quiet(p, guess, case['method'])
    if isinstance(res, Exception) or not getattr(res, 'success', False):
        ctx.dist['solve:not-converged:' + case['method']] += 1; return
    ctx.dist['solve:converged:' + case['method']] += 1
    fun = np.asarray(res.fun, dtype=float)
    # (1) the arrays left on the object are those of the returned root
    q = s.createPRISM()
    with np.errstate(all='ignore'):
        yq = q.cost(np.array(res.x, dtype=float))
    q.sys.domain.MatrixArray_to_real(q.totalCorr)
    sc = max(1.0, float(np.max(np.abs(q.totalCorr.data))), float(np.max(np.abs(q.directCorr.data))))
    same = (p.totalCorr.space == Space.Real and p.directCorr.space == Space.Fourier and
            bool(np.all(np.abs(p.totalCorr.data - q.totalCorr.data) <= 1e-12 * sc)) and bool(np.all(np.abs(p.directCorr.data - q.directCorr.data) <= 1e-12 * sc)))          # one and the same evaluation, repeated on a fresh object: equal to rounding, not to solver tolerance
    ctx.pred('solve', case, same, 'after solve(method=%s) the stored totalCorr/directCorr are not those of cost(result.x): max diff h %.3g c %.3g' %
             (case['method'], float(np.max(np.abs(p.totalCorr.data - q.totalCorr.data))), float(np.max(np.abs(p.directCorr.data - q.directCorr.data)))), key='C01:solve-leaves-root')
    # model: the state after solve is afterSolve(result.x) (theorem solve_leaves_returned_root)
    G.feed(ctx.drv, sd)
    if ctx.drv.ask('prism.create') == 'ok':
        impl = 'ok ' + G.state_tok(p)
        ctx.corr('solve', case, ctx.drv.ask('prism.aftersolve ' + fl(np.array(res.x, dtype=float))), impl, rtol=1e-9,
                 atols=G.group_atols(impl, 1e-7), what='state after solve vs model afterSolve(result.x)')
    # (2) PRISM equation on the solved object (Fourier-space h needed: transform a copy)
    pc = q  # q holds cost(result.x); use p's own arrays for the property proper
    hF = p.totalCorr.get_copy(); p.sys.domain.MatrixArray_to_fourier(hF)
    class V: pass
    v = V(); v.omega = p.omega; v.directCorr = p.directCorr; v.totalCorr = hF; v.sys = p.sys
    r_, cond = prism_eq_residual(v)
    if cond <= 1e6:
        ctx.pred('solve', case, r_ <= 1e-9, 'PRISM equation violated on the solved object: relative residual %.3g' % r_, key='C01:prism-equation')
    # (3) each pair's closure, bounded by the reported residual times the local slope
    class W: pass
    w = W(); w.sys = p.sys; w.directCorr = p.directCorr; w.totalCorr = p.totalCorr
    closure_preds(ctx, 'solve', case, w, yq if same else fun, key='C01:closure')

SUITES = {'wiring': suite_wiring, 'cost': suite_cost, 'solve': suite_solve}

def tags_of(sd):
    t = ['rank:%d' % sd['n'], 'L:%d' % sd['dom'][0]] + (['group-assignment'] if sd.get('group') else [])
    for k, pr in sd['pairs'].items():
        t += ['clo:%s%s' % (pr['clo'][0], '+hc' if pr['clo'][1] else ''), 'pot:' + pr['pot'][0], 'om:' + pr['om'][0]]
    return t

def gen_solvable(rng, maxn=2, maxL=64):
    """systems on which the root finders usually converge: moderate packing, hard cores, PY/HNC/MSA"""
    n = rng.randint(1, maxn)
    L = rng.choice([32, 48, 64]) if maxL >= 64 else 32
    dr = rng.choice([0.1, 0.125, 0.2])
    diam = [G.grid_multiple(rng, dr, 0.8, 1.2) for _ in range(n)]
    eta = rng.uniform(0.03, 0.25)
    w = [rng.uniform(0.3, 1.0) for _ in range(n)]
    vol = sum(wi * math.pi * d ** 3 / 6 for wi, d in zip(w, diam))
    sd = {'n': n, 'kT': rng.choice([1.0, 1.5, 2.0]), 'dom': [L, dr], 'dens': [float('%.5g' % (wi * eta / vol)) for wi in w], 'diam': diam, 'pairs': {}}
    for (i, j) in G.pairs_of(n):
        kind = rng.choice(['hs', 'hs', 'hclj', 'exp', 'wca'])
        if kind == 'hs': pot = ['hs', None, 1e6]
        elif kind == 'hclj': pot = ['hclj', None, float('%.3g' % rng.uniform(0.05, 0.4)), 1e6]
        elif kind == 'exp': pot = ['exp', None, float('%.3g' % rng.uniform(0.05, 0.4)), 0.5, 1e6]
        else: pot = ['wca', None, 1.0]
        clo = [rng.choice(['py', 'py', 'hnc', 'msa']), True] if kind != 'wca' else [rng.choice(['py', 'hnc']), False]
        if kind != 'wca' and clo[0] in ('py', 'hnc') and rng.random() < 0.4: clo[1] = False
        om = (rng.choice([['single', 1], ['single', 1], ['gauss', 8, 1.0], ['fjc', 6, 1.0]]) if i == j else ['nointra', 0])
        sd['pairs']['%d%d' % (i, j)] = {'pot': pot, 'clo': clo, 'om': om}
    return sd

def uniformise(rng, sd):
    """tutorial style: the same potential / closure object assigned to all pairs in ONE statement (sigma left to default)"""
    keys = sorted(sd['pairs'])
    for key in ('pot', 'clo'):
        if rng.random() < 0.8:
            spec = list(sd['pairs'][keys[0]][key])
            if key == 'pot': spec[1] = None
            for k in keys: sd['pairs'][k][key] = list(spec)
    sd['group'] = True
    return sd

def gen_negative_g(rng):
    """a regime in which the converged MSA solution has g(r) < 0 outside the core (strong repulsive tail)"""
    L = rng.choice([32, 48]); dr = rng.choice([0.1, 0.125])
    return {'n': 1, 'kT': 2.0, 'dom': [L, dr], 'dens': [0.05], 'diam': [1.0],
            'pairs': {'00': {'pot': ['exp', None, float('%.3g' % -rng.uniform(8, 14)), 0.5, 1e6], 'clo': ['msa', True], 'om': ['single', 1]}}}

def generate(ctx):
    rng = ctx.rng
    for _ in range(ctx.n(60, 600)):
        sd = G.gen_system(rng, maxn=3, maxL=ctx.n(32, 128))
        if sd['n'] >= 2 and rng.random() < 0.4: uniformise(rng, sd)
        if rng.random() < 0.25: G.add_sigma_override(rng, sd)          # a non-additive mixture (diameter.sigma[a,b] = v)
        if rng.random() < 0.2: sd = G.scale_length(sd, rng.choice([1e-9, 1e-10, 1e-3, 1e-7]))          # lengths in metres / other units
        case = {'sys': sd, 'second': rng.random() < 0.4, 'continue_from_psys': rng.random() < 0.5, 'labels': rng.choice([None, None, 'int1', 'intperm', 'intrev', 'mixed'])}
        ctx.case('wiring', case, sd['n'] >= 2, tags=tags_of(sd) + (['second-prism'] if case['second'] else [])); suite_wiring(ctx, case)
    for _ in range(ctx.n(60, 500)):
        sd = G.gen_system(rng, maxn=3, maxL=ctx.n(24, 64))
        if rng.random() < 0.25: G.add_sigma_override(rng, sd)
        if rng.random() < 0.2: sd = G.scale_length(sd, rng.choice([1e-9, 1e-10, 1e-3, 1e-7]))
        xs = [G.gen_x(rng, sd, k) for k in ('zero', rng.choice(['small', 'moderate']), rng.choice(['moderate', 'asym']))]
        case = {'sys': sd, 'xs': xs, 'labels': rng.choice([None, None, 'int1', 'intperm', 'intrev', 'mixed'])}
        ctx.case('cost', case, True, tags=tags_of(sd) + ['labels:%s' % case['labels']]); suite_cost(ctx, case)
    methods = ['krylov', 'hybr', 'lm', 'anderson', 'broyden1', 'df-sane']
    for q in range(ctx.n(18, 150)):
        sd = gen_solvable(rng, maxn=ctx.n(2, 3), maxL=ctx.n(32, 64))
        if q % 9 == 4: sd = gen_negative_g(rng)
        elif sd['n'] >= 2 and rng.random() < 0.4: uniformise(rng, sd)
        m = methods[q % len(methods)]
        guess = None if rng.random() < 0.6 else G.gen_x(rng, sd, 'small')
        case = {'sys': sd, 'method': m, 'guess': guess}
        ctx.case('solve', case, True, tags=['method:' + m, 'rank:%d' % sd['n'], 'guess:' + ('zero' if guess is None else 'perturbed')])
        suite_solve(ctx, case)
