"""C05 — Every calculate.* quantity equals its definition and the cross-identities hold."""
import copy, math, warnings, itertools
from ..implenv import np, pyPRISM
from ..driver import f2h, fl, h2f
from .. import sysgen as G
from . import C01, C06
from pyPRISM.core.Space import Space
from pyPRISM.core.MatrixArray import MatrixArray

RULE = ("PRISM objects of rank 1-4, hand-populated (random symmetric totalCorr / directCorr / omega, random densities, unequal diameters, kT != 1, lengths also in units of 1e-3 .. 1e-10 (diameters ~1e-3 .. 1e-10, densities scaled accordingly), arrays initially in either space) or solved; "
        "every calculate function with every flag value is called on a fresh copy; the return value and the object's arrays/flags are compared with the Lean model, and the return value with an "
        "INDEPENDENT NumPy transcription of the definitions (theorem statements, not the code): h+1, -kT ln g, rho_site*omega + rho_pair*h (/rho_site), -h(k->0)/2, k->0 of det(I - Omega C) of each "
        "pair's 2x2 block (every pair of 3- and 4-component systems), chi weights 1/R : R : -2 with (rho/2)(Caa+Cbb-2Cab) at equal volumes, back-transform of -kT C S C / -kT ln(1+CSC), "
        "S = (I - Omega C)^-1 Omega on self-consistent objects, symmetry in the type labels, (a,b) = (b,a), quadratic extrapolation. Non-trivial = rank >= 2; distinct = distinct (object, call)")
EXTRA_TRUSTED = C06.EXTRA_TRUSTED
ASSUMPTIONS = C06.ASSUMPTIONS
T = G.TYPES
CALLS = ['pc', 'sf0', 'sf1', 'pmf', 'b20', 'b21', 'chi0', 'chi1', 'spin', 'solvH', 'solvP']

def quad0(k, y):
    """value at 0 of the quadratic through three points (Lagrange), independent of np.polyfit"""
    k0, k1, k2 = k; y0, y1, y2 = y
    return y0 * k1 * k2 / ((k0 - k1) * (k0 - k2)) + y1 * k0 * k2 / ((k1 - k0) * (k1 - k2)) + y2 * k0 * k1 / ((k2 - k0) * (k2 - k1))

def reference(p0, call):
    """the definitions, from the pristine object's arrays in canonical (Fourier) form + density/diameter/kT"""
    d = p0.sys.domain; n = p0.sys.rank; kT = p0.sys.kT
    om, hF, cF = C06.canon(p0)
    rho = np.array([p0.sys.density[t] for t in p0.sys.types], dtype=float)
    dia = np.array([p0.sys.diameter[t] for t in p0.sys.types], dtype=float)
    pair = np.outer(rho, rho); site = rho[:, None] + rho[None, :]; site[np.diag_indices(n)] = rho
    def toR(a):
        out = np.empty_like(a)
        for i in range(n):
            for j in range(n): out[:, i, j] = d.to_real(a[:, i, j])
        return out
    if call == 'pc': return [(toR(hF) + 1.0).reshape(-1)]
    if call == 'pmf':
        with np.errstate(all='ignore'):
            return [(-kT * np.log(toR(hF) + 1.0)).reshape(-1)]
    if call in ('sf0', 'sf1'):
        s = hF * pair + om
        if call == 'sf1': s = s / site
        return [s.reshape(-1)]
    if call in ('b20', 'b21'):
        out = []
        for i in range(n):
            for j in range(n):
                y = -0.5 * hF[:3, i, j]
                out.append(np.array([quad0(d.k[:3], y) if call == 'b21' else y[0]]))
        return out
    if n < 2: return 'refused'
    if call in ('chi0', 'chi1'):
        out = []
        for i in range(n):
            for j in range(n):
                if i == j: out.append(np.array([np.nan])); continue
                a, b = min(i, j), max(i, j)
                R = (dia[a] / dia[b]) ** 3
                phiA = rho[a] / (rho[a] + rho[b]); phiB = rho[b] / (rho[a] + rho[b])
                kappa = 0.5 * rho.sum() / (phiA / math.sqrt(R) + math.sqrt(R) * phiB)
                chi = kappa * (cF[:, a, a] / R + R * cF[:, b, b] - 2 * cF[:, a, b])
                out.append(np.array([quad0(d.k[:3], chi[:3])]) if call == 'chi1' else chi)
        return out
    if call == 'spin':
        out = []
        for i in range(n):
            for j in range(n):
                if i == j: out.append(np.array([np.nan])); continue
                a, b = min(i, j), max(i, j)
                det = []
                for l in range(3):
                    O = np.array([[om[l, a, a], om[l, a, b]], [om[l, a, b], om[l, b, b]]]); Cb = np.array([[cF[l, a, a], cF[l, a, b]], [cF[l, a, b], cF[l, b, b]]])
                    det.append(np.linalg.det(np.eye(2) - O @ Cb))
                out.append(np.array([quad0(d.k[:3], det)]))
        return out
    if call in ('solvH', 'solvP'):
        S = (hF * pair + om) / site
        csc = np.einsum('lij,ljk,lkm->lim', cF, S, cF)
        with np.errstate(all='ignore'):
            psi = -kT * csc if call == 'solvH' else -kT * np.log(1 + csc)
        return [toR(psi).reshape(-1)]

def suite_call(ctx, case):
    sd = case['sys']; n = sd['n']; call = case['call']
    p = C06.make_object(case)
    if p is None:
        ctx.dist['object:not-converged'] += 1; return
    for which, sp in zip(('h', 'c', 'om'), case.get('spaces', 'xxx')):
        m = {'h': p.totalCorr, 'c': p.directCorr, 'om': p.omega}[which]
        if sp in 'RF' and G.SPT[m.space] != sp:
            (p.sys.domain.MatrixArray_to_real if sp == 'R' else p.sys.domain.MatrixArray_to_fourier)(m)
    C06.load_model(ctx, sd, p)
    p0 = copy.deepcopy(p)
    try:
        with np.errstate(all='ignore'):
            out = C06.do_op(p, call)
        impl = 'ok %s | %s' % (C06.out_tok(out, n), G.state_tok(p))
    except AssertionError:
        out = None; impl = 'ERR rejected'
    except Exception as e:
        ctx.pred('call', case, False, '%s raised %s: %s' % (call, type(e).__name__, str(e)[:100]), key='C05:raises:' + call.rstrip('01HP')); return
    dm = p.sys.domain; dm0 = p0.sys.domain
    ctx.pred('call', case, bool(np.array_equal(dm.k, dm0.k) and np.array_equal(dm.r, dm0.r)), '%s changed the r / k grid of the object\'s Domain' % call, key='C05:corrupts-domain')
    ml = ctx.drv.ask(C06.drv_line(call))
    il = impl.replace(' nan', ' 7ff8000000000000')
    atols = G.group_atols(il.replace('7ff8000000000000', '0000000000000000'), 1e-7)
    atols = [max(t_, 1e-7 * C06.noise_floor(p0)) for t_ in atols]
    if out is not None and call in ('pmf', 'solvP'):
        arg = np.exp(-out.data.reshape(-1) / p.sys.kT)
        with np.errstate(all='ignore'):
            bad = ~(arg > 1e-6) | ~np.isfinite(out.data.reshape(-1))
        ml = ' '.join(('0000000000000000' if (5 <= i < 5 + bad.size and bad[i - 5]) else t) for i, t in enumerate(ml.split()))
        il = ' '.join(('0000000000000000' if (5 <= i < 5 + bad.size and bad[i - 5]) else t) for i, t in enumerate(il.split()))
    ctx.corr('call', case, ml.replace('fff8000000000000', '7ff8000000000000'), il, rtol=1e-7, atols=atols, what='%s: return value and object state' % call)
    ref = reference(p0, call)
    if ref == 'refused':
        ctx.pred('call', case, out is None, '%s accepted a one-component object' % call, key='C05:rank1'); return
    if out is None:
        ctx.pred('call', case, False, '%s refused a rank-%d object' % (call, n), key='C05:raises:' + call.rstrip('01HP')); return
    a = C06.vals(out, n)
    if call in ('pmf', 'solvP'):
        arg = np.exp(-ref[0] / p.sys.kT)
        with np.errstate(all='ignore'):
            good = (arg > 1e-6) & np.isfinite(ref[0]) & np.isfinite(a[0])
        a = [a[0][good]]; ref = [ref[0][good]]
    ok, why = C06.same_vals(a, ref, 1e-7, C06.noise_floor(p0))
    ctx.pred('call', case, ok, '%s (rank %d) differs from its definition: %s' % (call, n, why), key='C05:def:' + call.rstrip('01HP'))
    if call == 'pmf' and p0.totalCorr.space == Space.Real:
        # -kT ln g at points where g is EXACTLY zero is +infinity (not nan, which is what g < 0 gives)
        zero = (p0.totalCorr.data == -1.0).reshape(-1)
        if np.any(zero):
            got = out.data.reshape(-1)[zero]
            ctx.pred('call', case, bool(np.all(np.isposinf(got))), 'pmf where g = 0 exactly is %r, -kT ln 0 = +inf expected' % got[:3].tolist(), key='C05:def:pmf')
    # symmetry in the two type labels
    if isinstance(out, MatrixArray):
        sym = bool(np.allclose(out.data, out.data.transpose(0, 2, 1), rtol=1e-9, atol=1e-12 * (np.nanmax(np.abs(out.data)) + 1e-300), equal_nan=True))
    else:
        sym = True
        for i in range(n):
            for j in range(n):
                x, y = out[T[i], T[j]], out[T[j], T[i]]
                sym = sym and ((x is None) == (y is None)) and (x is None or bool(np.allclose(x, y, rtol=1e-9, atol=0, equal_nan=True)))
    ctx.pred('call', case, sym, '%s result is not symmetric in the two type labels' % call, key='C05:symmetric')
    # a returned MatrixArray is addressed by the SYSTEM's type labels: the pair read by name is the pair at that position
    if isinstance(out, MatrixArray):
        ty = list(p.sys.types); byname = True
        try:
            for i in range(n):
                for j in range(n):
                    byname = byname and bool(np.array_equal(out[ty[i], ty[j]], out.data[:, i, j], equal_nan=True))
        except Exception as e:
            byname = False
        ctx.pred('call', case, byname and list(out.types) == ty, '%s returns a MatrixArray whose pairs cannot be read by the system\'s type labels (labels %r)' % (call, getattr(out, 'types', None)), key='C05:labels')
    # second evaluation on the SAME object after (i) the caller modified the value it got back and (ii) the stored correlations were
    # edited in place (hand-populating the object pair by pair): the definition applies to the arrays as they are now
    if case.get('again') and n >= 1:
        try:
            with np.errstate(all='ignore'):
                if isinstance(out, MatrixArray): out.data += 1.5
                else:
                    for i in range(n):
                        v = out[T[i], T[i]]
                        if isinstance(v, np.ndarray): v += 1.5
                d = p.sys.domain
                if case['again'] == 'pair':
                    a, b = T[0], T[n - 1]
                    p.totalCorr[a, b] = p.totalCorr[a, b] * 0.5 + 0.01; p.directCorr[a, b] = p.directCorr[a, b] * 1.25
                else:
                    p.totalCorr.data *= 0.7; p.directCorr.data *= 1.1
                p1 = copy.deepcopy(p)
                out2 = C06.do_op(p, call)
            ref2 = reference(p1, call)
            a2 = C06.vals(out2, n)
            if call in ('pmf', 'solvP'):
                with np.errstate(all='ignore'):
                    good = (np.exp(-ref2[0] / p.sys.kT) > 1e-6) & np.isfinite(ref2[0]) & np.isfinite(a2[0])
                a2 = [a2[0][good]]; ref2 = [ref2[0][good]]
            ok2, why2 = C06.same_vals(a2, ref2, 1e-7, C06.noise_floor(p0))
        except Exception as e:
            ok2 = False; why2 = 'raised %s: %s' % (type(e).__name__, str(e)[:80])
        ctx.pred('call', case, ok2, '%s (rank %d), second call after the stored correlations were edited in place and the first result was modified by the caller, differs from its definition: %s' % (call, n, why2),
                 key='C05:def:' + call.rstrip('01HP'))

def suite_selfconsistent(ctx, case):
    """on solved objects: unnormalised S(k) = (I - Omega C)^-1 Omega"""
    sd = case['sys']; n = sd['n']
    p = C06.make_object(case)
    if p is None:
        ctx.dist['object:not-converged'] += 1; return
    S = pyPRISM.calculate.structure_factor(p, normalize=False).data
    om, hF, cF = C06.canon(p)
    worst = 0.0
    for l in range(S.shape[0]):
        A = np.eye(n) - om[l] @ cF[l]
        if np.linalg.cond(A) > 1e6: continue
        ref = np.linalg.solve(A, om[l])
        worst = max(worst, float(np.max(np.abs(S[l] - ref))) / max(1.0, float(np.max(np.abs(ref)))))
    ctx.pred('selfconsistent', case, worst <= 1e-6, 'S(k) != (I - Omega C)^-1 Omega on a solved object: %.3g' % worst, key='C05:sf-selfconsistent')

SUITES = {'call': suite_call, 'selfconsistent': suite_selfconsistent}

def gen_hand_sys(rng, n, L):
    """rank-n system with unequal densities and diameters, kT != 1 (only used to carry density/diameter/kT/domain)"""
    dr = rng.choice([0.1, 0.125, 0.2])
    diam = [G.grid_multiple(rng, dr, 0.6, 1.6) for _ in range(n)]
    if rng.random() < 0.25: diam = [diam[0]] * n
    sd = {'n': n, 'kT': float('%.4g' % rng.uniform(0.5, 2.5)), 'dom': [L, dr], 'dens': [float('%.5g' % rng.uniform(0.02, 0.4)) for _ in range(n)],
          'diam': diam, 'pairs': {}}
    for (i, j) in G.pairs_of(n):
        sd['pairs']['%d%d' % (i, j)] = {'pot': ['hs', None, 1e6], 'clo': ['py', True], 'om': ['single', 1] if i == j else ['nointra', 0]}
    if n >= 2 and rng.random() < 0.35:
        for t in range(rng.randint(2, n)): sd['dens'][t] = sd['dens'][0]
        sd['dens_group'] = True                                  # several densities assigned in one statement (density[['A','B']] = rho)
    if rng.random() < 0.25:
        # the same system in other units of length (micrometres, metres): lengths x u, number densities / u^3; every definition is unit-free
        u = rng.choice([1e-3, 2.5e-3, 1e-9, 1e-10])
        sd['dom'] = [L, dr * u]; sd['diam'] = [d * u for d in sd['diam']]; sd['dens'] = [float('%.5g' % (v / u ** 3)) for v in sd['dens']]; sd['lunit'] = u
    if rng.random() < 0.3: sd['kT_assign'] = 1.0
    if n >= 2 and not sd.get('dens_group') and rng.random() < 0.3: sd['dens_order'] = rng.sample(range(n), n)          # densities assigned in any order
    if n >= 2 and rng.random() < 0.5: sd['diam_order'] = rng.sample(range(n), n) + ([0] if rng.random() < 0.5 else [])
    return sd

def generate(ctx):
    rng = ctx.rng
    for q in range(ctx.n(40, 300)):
        n = rng.choice([1, 2, 2, 3, 3, 4])
        sd = gen_hand_sys(rng, n, rng.choice([8, 12, 16, 24]))
        obj = ['hand', rng.randrange(10 ** 6)] + (['core'] if rng.random() < 0.35 else [])
        spaces = ''.join(rng.choice('RF') for _ in range(3))
        if len(obj) > 2 and rng.random() < 0.7: spaces = 'R' + spaces[1:]
        for call in CALLS:
            case = {'sys': sd, 'obj': obj, 'call': call, 'spaces': spaces, 'again': rng.choice([None, 'pair', 'scale'])}
            ctx.case('call', case, n >= 2, tags=['again:%s' % case['again'], 'rank:%d' % n, 'call:' + call, 'spaces:' + spaces, 'equal-diam' if len(set(sd['diam'])) == 1 else 'unequal-diam', 'length-unit:%g' % sd.get('lunit', 1)])
            suite_call(ctx, case)
    for q in range(ctx.n(6, 40)):
        sd = C01.gen_solvable(rng, maxn=3, maxL=ctx.n(32, 64))
        obj = ['solved', rng.choice(['krylov', 'hybr'])]
        for call in rng.sample(CALLS, 4):
            case = {'sys': sd, 'obj': obj, 'call': call, 'spaces': 'xxx'}
            ctx.case('call', case, sd['n'] >= 2, tags=['rank:%d' % sd['n'], 'call:' + call, 'obj:solved']); suite_call(ctx, case)
        case = {'sys': sd, 'obj': obj}
        ctx.case('selfconsistent', case, True, tags=['rank:%d' % sd['n']]); suite_selfconsistent(ctx, case)
    # solved objects whose converged g(r) is negative somewhere (MSA with a strongly repulsive tail): S(k) vs C(k) must still hold
    for q in range(ctx.n(3, 12)):
        sd = C01.gen_negative_g(rng)
        case = {'sys': sd, 'obj': ['solved', rng.choice(['krylov', 'broyden1', 'anderson'])]}
        ctx.case('selfconsistent', case, True, tags=['rank:1', 'negative-g']); suite_selfconsistent(ctx, case)
