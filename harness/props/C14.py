"""C14 — PairTable and ValueTable behave as symmetric keyed maps with isolated values."""
import copy
from ..implenv import np, pyPRISM
from pyPRISM.core.PairTable import PairTable
from pyPRISM.core.ValueTable import ValueTable

RULE = ("random op sequences over {caller object creation, set single/list x list from a caller object, setUnset, "
        "apply in/out of place (pure function, incl. one that returns its argument unchanged), in-place mutation of a stored object, in-place mutation of the caller's object, "
        "check, iterate (3 flag combinations)} on real PairTables (1-4 types, multi-character type names) and on the Lean heap model; "
        "after EVERY op every table entry (both orders), every caller object, check() and the iteration lists are compared exactly, "
        "identity (`is`) isolation is probed, and the abstract symmetric-map spec (an independent pure replay) is compared with the implementation; "
        "ValueTable: set/setUnset/check/iteration vs model and vs a dict replay (integer values incl. 0, and NumPy-array values). Non-trivial = >= 3 ops incl. >= 1 mutation after a multi-pair set; "
        "distinct = distinct (n, op list)")
EXTRA_TRUSTED = ["Model/Tables.lean: deepcopy = fresh cell, in-place change = write through the reference; stored objects are lists of ints, in half of the cases wrapped in an object with nested mutable state (only a deep copy isolates those)",
                 "apply() is exercised with pure functions only (the property's 'leaves the original untouched' presupposes that)"]
ASSUMPTIONS = ["symmetric=True tables (the default and the only kind the library creates)"]
NAMES = ['poly', 'B', 'solvent', 'D4']
# integer labels are legal type names too (the falsy 0 among them; none equals its position)
LABELS = {'names': NAMES, 'ints0': [2, 0, 3, 1], 'ints': [7, 0, 5, 2], 'mixed': ['poly', 0, 'B', 4]}

class Box(object):
    """a value with NESTED mutable state (like a potential object holding an array): only a deep copy isolates it"""
    def __init__(self, items): self.items = list(items); self.meta = {'hist': [list(items)]}
    def __eq__(self, other): return isinstance(other, Box) and self.items == other.items
    def __ne__(self, other): return not self.__eq__(other)
    def __len__(self): return len(self.items)
    def __iter__(self): return iter(self.items)
    def __getitem__(self, k): return self.items[k]

def vshow(v):
    if v is None: return 'N'
    if isinstance(v, Box): v = v.items
    return 'e' if len(v) == 0 else ','.join(str(int(e)) for e in v)

def mut_inplace(obj, kind, x):
    if kind == 'same': return
    if isinstance(obj, Box): obj = obj.items
    if kind == 'push': obj.append(x)
    elif kind == 'set0':
        if len(obj): obj[0] = x
    else:
        obj[:] = [e + x for e in obj]

def pure(kind, x):
    def f(v):
        if v is None: return None
        if kind == 'same': return v          # the function passes its input through
        wrap = Box if isinstance(v, Box) else (lambda t: t)
        v = list(v)
        if kind == 'push': return wrap(list(v) + [x])
        if kind == 'set0': return wrap(([x] + list(v[1:])) if len(v) else [])
        return wrap([e + x for e in v])
    return f

def keyfor(idx, types, style):
    names = [types[i] for i in idx]
    if style == 'single': return names[0]
    if style == 'tuple': return tuple(names)
    if style == 'array': return np.array(names) if (all(isinstance(x, str) for x in names) or not any(isinstance(x, str) for x in names)) else names
    if style == 'iter': return iter(list(names))          # a one-shot iterable (generator, reversed(), map()) is a legal list key
    return names

def observe(tables, objs, types):
    n = len(types); parts = []
    for T, tab in enumerate(tables):
        vals = ' '.join(vshow(tab[types[i], types[j]]) for i in range(n) for j in range(n))
        try:
            tab.check(); chk = 'true'
        except ValueError:
            chk = 'false'
        parts.append('T%d %s check %s' % (T, vals, chk))
    return '%s objs %s' % (' '.join(parts), ' '.join(vshow(o) for o in objs))

class Spec:
    """abstract spec: per table a map from unordered pairs to immutable values"""
    def __init__(self, n):
        self.n = n; self.tabs = [{}]; self.objs = []
    def key(self, a, b): return (min(a, b), max(a, b))
    def apply(self, op):
        k = op['op']; f = None
        if k == 'obj': self.objs.append(tuple(op['v']))
        elif k == 'mutobj': self.objs[op['k']] = tuple(pure(op['kind'], op['x'])(list(self.objs[op['k']])))
        elif k == 'set':
            for i in op['is']:
                for j in op['js']:
                    self.tabs[op['T']][self.key(i, j)] = self.objs[op['k']]
        elif k == 'unset':
            for i in range(self.n):
                for j in range(i, self.n):
                    self.tabs[op['T']].setdefault((i, j), self.objs[op['k']])
        elif k == 'applyin':
            t = self.tabs[op['T']]
            for kk in list(t): t[kk] = tuple(pure(op['kind'], op['x'])(list(t[kk])))
        elif k == 'applyout':
            t = self.tabs[op['T']]
            self.tabs.append({kk: tuple(pure(op['kind'], op['x'])(list(v))) for kk, v in t.items()})
        elif k == 'mutate':
            t = self.tabs[op['T']]; kk = self.key(op['i'], op['j'])
            if kk in t: t[kk] = tuple(pure(op['kind'], op['x'])(list(t[kk])))
    def observe(self):
        parts = []
        for T, t in enumerate(self.tabs):
            vals = ' '.join(vshow(t.get(self.key(i, j))) for i in range(self.n) for j in range(self.n))
            parts.append('T%d %s check %s' % (T, vals, 'true' if len(t) == self.n * (self.n + 1) // 2 else 'false'))
        return '%s objs %s' % (' '.join(parts), ' '.join(vshow(o) for o in self.objs))

def suite_pt(ctx, case):
    n = case['n']; types = list(LABELS[case.get('labels', 'names')][:n])
    tables = [PairTable(types, 't0')]; objs = []
    drv = ctx.drv; drv.ask('pt.new %d' % n)
    spec = Spec(n)
    for step, op in enumerate(case['ops']):
        k = op['op']; sub = {'n': n, 'ops': case['ops'][:step + 1]}
        if k == 'obj':
            objs.append(Box(op['v']) if case.get('nested') else list(op['v'])); drv.ask('pt.obj ' + ' '.join(map(str, op['v'])))
        elif k == 'mutobj':
            mut_inplace(objs[op['k']], op['kind'], op['x']); drv.ask('pt.mutobj %d %s %d' % (op['k'], op['kind'], op['x']))
        elif k == 'set':
            tables[op['T']][keyfor(op['is'], types, op['s1']), keyfor(op['js'], types, op['s2'])] = objs[op['k']]
            drv.ask('pt.set %d %d | %s | %s' % (op['T'], op['k'], ' '.join(map(str, op['is'])), ' '.join(map(str, op['js']))))
        elif k == 'unset':
            # setUnset fills ONLY pairs never assigned: an assigned pair still holds the very object it held before (a reference the user read
            # back earlier stays live)
            tb = tables[op['T']]
            held = {(a, b): tb[types[a], types[b]] for a in range(n) for b in range(n) if tb[types[a], types[b]] is not None}
            tb.setUnset(objs[op['k']]); drv.ask('pt.unset %d %d' % (op['T'], op['k']))
            ctx.pred('pairtable', sub, all(tb[types[a], types[b]] is o for (a, b), o in held.items()), 'setUnset replaced the object stored at a pair that was already assigned', key='C14:setunset-touches-assigned')
        elif k == 'applyin':
            r = tables[op['T']].apply(pure(op['kind'], op['x']), inplace=True)
            ctx.pred('pairtable', sub, r is tables[op['T']], 'apply(inplace=True) did not return the table itself', key='C14:apply-return')
            drv.ask('pt.applyin %d %s %d' % (op['T'], op['kind'], op['x']))
        elif k == 'applyout':
            r = tables[op['T']].apply(pure(op['kind'], op['x']), inplace=False)
            ctx.pred('pairtable', sub, r is not tables[op['T']], 'apply(inplace=False) returned the original table', key='C14:apply-return')
            tables.append(r); drv.ask('pt.applyout %d %s %d' % (op['T'], op['kind'], op['x']))
        elif k == 'mutate':
            o = tables[op['T']][types[op['i']], types[op['j']]]
            if o is not None: mut_inplace(o, op['kind'], op['x'])
            drv.ask('pt.mutate %d %d %d %s %d' % (op['T'], op['i'], op['j'], op['kind'], op['x']))
        spec.apply(op)
        impl = observe(tables, objs, types)
        ctx.corr('pairtable', sub, drv.ask('pt.obs'), impl, what='state after op %d (%s)' % (step, k))
        ok = impl == spec.observe()
        why = 'table state differs from the abstract symmetric map after op %d (%s)' % (step, k)
        # identity probes: distinct unordered pairs never share an object, nor with the caller's objects
        if ok:
            seen = {}
            for T, tab in enumerate(tables):
                for i in range(n):
                    for j in range(i, n):
                        o = tab[types[i], types[j]]
                        if o is None: continue
                        if tab[types[j], types[i]] is not o and tab[types[j], types[i]] != o:
                            ok = False; why = '(a,b) and (b,a) differ'
                        if id(o) in seen:
                            ok = False; why = 'object shared between %s and %s' % (seen[id(o)], (T, i, j))
                        seen[id(o)] = (T, i, j)
                        if any(o is c for c in objs):
                            ok = False; why = 'stored object is the caller\'s object at %s' % ((T, i, j),)
        ctx.pred('pairtable', sub, ok, why, key='C14:pairtable-map', detail={'impl': impl, 'spec': spec.observe()})
        if not ok: return
    # iteration order (all flag combinations)
    for full, diag in ((0, 1), (1, 1), (0, 0), (1, 0)):
        got = list(tables[0].iterpairs(full=bool(full), diagonal=bool(diag)))
        line = ' '.join('%d:%d' % (i, j) for (i, j), _, _ in got)
        ctx.corr('pairtable', {'n': n, 'ops': case['ops'], 'iter': [full, diag]}, drv.ask('pt.iter %d %d %d' % (n, full, diag)), line, what='iterpairs order')
        want = [(i, j) for i in range(n) for j in range(n) if (full or (i <= j if diag else i < j))]
        ok = [(i, j) for (i, j), _, _ in got] == want and all(tt == (types[i], types[j]) and (v is tables[0][tt[0], tt[1]]) for (i, j), tt, v in got)
        ctx.pred('pairtable', {'n': n, 'ops': case['ops'], 'iter': [full, diag]}, ok, 'iterpairs(full=%d,diagonal=%d) wrong' % (full, diag), key='C14:iterpairs')

def suite_vt(ctx, case):
    n = case['n']; types = list(LABELS[case.get('labels', 'names')][:n])
    vt = ValueTable(types, 'v'); drv = ctx.drv; drv.ask('vt.new %d' % n)
    cur = {}
    for step, op in enumerate(case['ops']):
        sub = {'n': n, 'ops': case['ops'][:step + 1]}
        arr = case.get('arr')
        mk = (lambda v: np.array([v, v + 1.0])) if arr else (lambda v: v)
        if op['op'] == 'set':
            vt[keyfor(op['ts'], types, op['style'])] = mk(op['v'])
            drv.ask('vt.set %d %s' % (op['v'], ' '.join(map(str, op['ts']))))
            for t in op['ts']: cur[t] = op['v']
        else:
            vt.setUnset(mk(op['v'])); drv.ask('vt.unset %d' % op['v'])
            for t in range(n): cur.setdefault(t, op['v'])
        try:
            vt.check(); chk = 'true'
        except ValueError as e:
            chk = 'false' if 'not fully specified' in str(e) or 'not' in str(e).lower() and 'ambiguous' not in str(e) else 'raised:' + str(e)[:40]
        rd = (lambda v: None if v is None else int(v[0])) if arr else (lambda v: v)
        it = [(i, t, rd(v)) for i, t, v in vt]
        line = '%s check %s' % (' '.join('%d:%s' % (i, 'N' if v is None else str(v)) for i, t, v in it), chk)
        ctx.corr('valuetable', sub, drv.ask('vt.obs'), line)
        ok = [(i, t, v) for i, t, v in it] == [(i, types[i], cur.get(i)) for i in range(n)] and \
            all(rd(vt[types[i]]) == cur.get(i) for i in range(n)) and (chk == 'true') == (len(cur) == n) and chk in ('true', 'false')
        ctx.pred('valuetable', sub, ok, 'ValueTable differs from a keyed map after op %d' % step, key='C14:valuetable-map')
        if not ok: return

def suite_nonsym(ctx, case):
    """PairTable(symmetric=False): apply(inplace=False) leaves the original untouched and shares nothing with it"""
    n = case['n']; types = list(LABELS[case.get('labels', 'names')][:n])
    t = PairTable(types, 'x', symmetric=False)
    want = {}
    for (i, j, v) in case['sets']:
        t[types[i], types[j]] = list(v); want[(i, j)] = list(v)
    before = {(i, j): copy.deepcopy(t[types[i], types[j]]) for i in range(n) for j in range(n)}
    ok = all(before[(i, j)] == want.get((i, j)) for i in range(n) for j in range(n))
    ctx.pred('nonsym', case, ok, 'non-symmetric table: (a,b) does not hold exactly what was assigned to (a,b)', key='C14:nonsym')
    t2 = t.apply(lambda v: None if v is None else [e + 7 for e in v], inplace=False)
    same = all(t[types[i], types[j]] == before[(i, j)] for i in range(n) for j in range(n))
    for i in range(n):
        for j in range(n):
            o = t2[types[i], types[j]]
            if isinstance(o, list): o.append(99)                      # mutate everything the new table holds
    same2 = all(t[types[i], types[j]] == before[(i, j)] for i in range(n) for j in range(n))
    ctx.pred('nonsym', case, same and same2, 'apply(inplace=False) on a non-symmetric table changed the original table (or shares objects / rows with it)', key='C14:nonsym')

def mk_value(kind, seed):
    rs = np.random.RandomState(seed)
    if kind == 'float': return float(rs.uniform(-3, 3))
    if kind == 'nested': return [[float(rs.uniform()), 2.0], {'a': [1.0, float(rs.uniform())]}]
    if kind == 'ndarray': return rs.normal(size=5)
    if kind == 'view': return rs.normal(size=10)[::-2]                       # a negatively strided view
    if kind == 'masked': return np.ma.masked_array([1.5, np.inf, float(rs.uniform()), 3.0], mask=[False, True, False, False])      # tabulated data with masked (invalid) points
    if kind == 'objarr':
        a = np.empty(2, dtype=object); a[0] = [1.0, float(rs.uniform())]; a[1] = {'w': [2.0]}; return a          # an object array of mutable items
    if kind == 'int': return int(rs.randint(-5, 5))
    return (float(rs.uniform()), [1.0, 2.0])

def same_value(a, b):
    if type(a) is not type(b): return False
    if isinstance(a, np.ma.MaskedArray):
        return bool(np.array_equal(np.ma.getmaskarray(a), np.ma.getmaskarray(b))) and bool(np.array_equal(a.filled(0.0), b.filled(0.0)))
    if isinstance(a, np.ndarray):
        if a.dtype != b.dtype or a.shape != b.shape: return False
        return all(same_value(x, y) for x, y in zip(a, b)) if a.dtype == object else bool(np.array_equal(a, b))
    if isinstance(a, (list, tuple)): return len(a) == len(b) and all(same_value(x, y) for x, y in zip(a, b))
    if isinstance(a, dict): return a.keys() == b.keys() and all(same_value(a[k], b[k]) for k in a)
    return a == b

def mutate(v):
    """change a value in place as deeply as possible"""
    if isinstance(v, np.ma.MaskedArray): v.mask = np.ma.nomask; v.data[...] = -9.0
    elif isinstance(v, np.ndarray) and v.dtype == object:
        for x in v: mutate(x)
    elif isinstance(v, np.ndarray): v[...] = -9.0
    elif isinstance(v, list):
        for x in v: mutate(x)
        v.append(-9.0)
    elif isinstance(v, dict):
        for x in v.values(): mutate(x)
        v['zz'] = -9.0
    elif isinstance(v, tuple):
        for x in v: mutate(x)

def suite_valuekinds(ctx, case):
    """the value a table holds is EXACTLY the value assigned (same class, same content, masks included), whatever kind of object it is;
    it is nobody else's object: mutating the caller's value, or what another pair / type holds, does not reach it"""
    n = case['n']; types = list(LABELS['names'][:n]); kind = case['kind']
    for tname in ('pair', 'value'):
        tab = PairTable(types, 'x') if tname == 'pair' else ValueTable(types, 'x')
        keys = [(types[i], types[j]) for i in range(n) for j in range(i, n)] if tname == 'pair' else [types[i] for i in range(n)]
        rd = (lambda k: tab[k[0], k[1]]) if tname == 'pair' else (lambda k: tab[k])
        how = case['how']
        v = mk_value(kind, case['seed']); pristine = copy.deepcopy(v)
        if how == 'group':
            if tname == 'pair': tab[types, types] = v
            else: tab[types] = v
        elif how == 'setunset': tab.setUnset(v)
        else:
            for k in keys:
                if tname == 'pair': tab[k[0], k[1]] = v
                else: tab[k] = v
        ok = all(same_value(rd(k), pristine) for k in keys); why = 'the stored value is not the value assigned (class %s -> %s)' % (type(pristine).__name__, type(rd(keys[0])).__name__)
        # independence of the copies is stated for PairTable (a ValueTable holds numbers; it keeps the object it is given)
        if ok and tname == 'pair':
            mutate(v)
            ok = all(same_value(rd(k), pristine) for k in keys); why = 'changing the caller\'s object afterwards changed the stored value'
        if ok and tname == 'pair' and len(keys) >= 2:
            mutate(rd(keys[0]))
            ok = all(same_value(rd(k), pristine) for k in keys[1:]); why = 'changing what one %s holds changed what another holds' % ('pair' if tname == 'pair' else 'type')
        ctx.pred('valuekinds', case, ok, '%sTable, value kind %s, assigned by %s: %s' % ('Pair' if tname == 'pair' else 'Value', kind, how, why), key='C14:value-kinds')

SUITES = {'pairtable': suite_pt, 'valuetable': suite_vt, 'nonsym': suite_nonsym, 'valuekinds': suite_valuekinds}

def idx_list(rng, n, style):
    if style == 'single': return [rng.randrange(n)]
    return [rng.randrange(n) for _ in range(rng.randint(1, n + 1))]

def gen_pt(rng, max_ops):
    n = rng.choice([1, 2, 3, 3, 4]); ops = [{'op': 'obj', 'v': [rng.randrange(50) for _ in range(rng.randint(0, 3))]}]
    nobj, ntab = 1, 1
    for _ in range(rng.randint(2, max_ops)):
        k = rng.choice(['obj', 'set', 'set', 'set', 'unset', 'applyin', 'applyout', 'mutate', 'mutate', 'mutobj'])
        kind = rng.choice(['push', 'set0', 'add']); x = rng.randrange(1, 90)
        if k in ('applyin', 'applyout') and rng.random() < 0.35: kind = 'same'
        if k == 'obj':
            ops.append({'op': 'obj', 'v': [rng.randrange(50) for _ in range(rng.randint(0, 3))]}); nobj += 1
        elif k == 'set':
            s1 = rng.choice(['single', 'list', 'tuple', 'array', 'iter']); s2 = rng.choice(['single', 'list', 'tuple', 'array'])
            ops.append({'op': 'set', 'T': rng.randrange(ntab), 'k': rng.randrange(nobj), 'is': idx_list(rng, n, s1), 'js': idx_list(rng, n, s2), 's1': s1, 's2': s2})
        elif k == 'unset':
            ops.append({'op': 'unset', 'T': rng.randrange(ntab), 'k': rng.randrange(nobj)})
        elif k in ('applyin', 'applyout'):
            if k == 'applyout' and ntab >= 3: k = 'applyin'
            ops.append({'op': k, 'T': rng.randrange(ntab), 'kind': kind, 'x': x})
            if k == 'applyout': ntab += 1
        elif k == 'mutate':
            ops.append({'op': 'mutate', 'T': rng.randrange(ntab), 'i': rng.randrange(n), 'j': rng.randrange(n), 'kind': kind, 'x': x})
        else:
            ops.append({'op': 'mutobj', 'k': rng.randrange(nobj), 'kind': kind, 'x': x})
    return {'n': n, 'ops': ops, 'nested': rng.random() < 0.5, 'labels': rng.choice(['names', 'names', 'ints0', 'ints', 'mixed'])}

def gen_vt(rng, max_ops):
    n = rng.choice([1, 2, 3, 4]); ops = []
    for _ in range(rng.randint(1, max_ops)):
        if rng.random() < 0.25: ops.append({'op': 'unset', 'v': rng.choice([0, rng.randrange(1000)])})
        else:
            style = rng.choice(['single', 'list', 'tuple', 'array', 'iter'])
            ops.append({'op': 'set', 'ts': idx_list(rng, n, style), 'style': style, 'v': rng.choice([0, 0, rng.randrange(1000), rng.randrange(1000)])})
    return {'n': n, 'ops': ops, 'arr': rng.random() < 0.35, 'labels': rng.choice(['names', 'names', 'ints0', 'ints', 'mixed'])}

def generate(ctx):
    for kind in ('float', 'int', 'nested', 'ndarray', 'view', 'masked', 'objarr', 'tuple'):
        for how in ('single', 'group', 'setunset'):
            case = {'n': ctx.rng.choice([2, 3]), 'kind': kind, 'how': how, 'seed': ctx.rng.randrange(10 ** 6)}
            ctx.case('valuekinds', case, True, tags=['valuekind:' + kind, 'how:' + how]); suite_valuekinds(ctx, case)
    for _ in range(ctx.n(30, 200)):
        rng = ctx.rng; n = rng.choice([2, 3, 4])
        sets = [[rng.randrange(n), rng.randrange(n), [rng.randrange(50) for _ in range(rng.randint(1, 3))]] for _ in range(rng.randint(1, n * n))]
        case = {'n': n, 'sets': sets, 'labels': rng.choice(['names', 'ints0'])}
        ctx.case('nonsym', case, True, tags=['nonsym']); suite_nonsym(ctx, case)
    max_ops = ctx.n(12, 40)
    for _ in range(ctx.n(500, 6000)):
        c = gen_pt(ctx.rng, max_ops)
        kinds = [o['op'] for o in c['ops']]
        multi = any(o['op'] == 'set' and (len(set(o['is'])) > 1 or len(set(o['js'])) > 1) for o in c['ops']) or 'unset' in kinds
        nontriv = len(c['ops']) >= 3 and multi and ('mutate' in kinds or 'mutobj' in kinds)
        ctx.case('pairtable', c, nontriv, tags=['pt:n=%d' % c['n']] + ['op:' + k for k in kinds])
        suite_pt(ctx, c)
    for _ in range(ctx.n(200, 2000)):
        c = gen_vt(ctx.rng, max_ops)
        ctx.case('valuetable', c, len(c['ops']) >= 2, tags=['vt:n=%d' % c['n']])
        suite_vt(ctx, c)
