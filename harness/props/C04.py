"""C04 — Results are invariant under physically meaningless reformulations of the input."""
import copy, math, itertools, warnings
from ..implenv import np, pyPRISM
from ..driver import f2h, fl, h2f
from .. import sysgen as G
from . import C01
from pyPRISM.core.Space import Space

RULE = ("metamorphic relations on the IMPLEMENTATION, at the level of a single cost evaluation (exact to rounding, arbitrary x, no convergence needed) and on converged solves: "
        "(perm) every permutation of the type list of random 2-4 component systems with a different closure/potential/omega per pair: cost(pi.sys)(pi.x) = pi.cost(sys)(x), all stored arrays permuted; "
        "renaming the types (strings, integers whose values differ from their positions); (split) a 1-component system vs its split into 2-3 labelled species with identical interactions, ratios 0.1-0.9 and tracer-level fractions 1e-6..1e-3: monatomic (SingleSite/NoIntra) and homopolymer -> symmetric diblock "
        "halves with the exact block omegas (cross omega normalised by 1/(N_A+N_B)), also next to a solvent species (rank 3): cost(split)(lift x) = lift cost(x); (scale) every energy parameter and kT multiplied by s in 1e-2..1e2, kT given to the "
        "constructor or assigned afterwards: cost identical, pmf multiplied by s; the permuted/split/scaled descriptions are also fed to the Lean model (cost correspondence). "
        "(solve) g, S, pmf of the paired converged solutions agree to the accuracy of the two solves. Non-trivial = all; distinct = distinct case")
EXTRA_TRUSTED = C01.EXTRA_TRUSTED
ASSUMPTIONS = C01.ASSUMPTIONS
BUDGET = {'quick': 900, 'thorough': 5400}
T = G.TYPES

def permute_sd(sd, perm):
    """new type k is old type perm[k]"""
    n = sd['n']
    out = dict(sd, dens=[sd['dens'][perm[k]] for k in range(n)], diam=[sd['diam'][perm[k]] for k in range(n)], pairs={})
    for (i, j) in G.pairs_of(n):
        a, b = sorted((perm[i], perm[j]))
        out['pairs']['%d%d' % (i, j)] = copy.deepcopy(sd['pairs']['%d%d' % (a, b)])
    return out

def run_cost(sd, x, kT_assign=None, types=None):
    s = G.build_system(sd)
    if kT_assign is not None: s.kT = kT_assign
    p = s.createPRISM()
    # the System goes on to the next state point of a scan (all objects are created first, evaluated later): the object already created is a snapshot
    for t in s.types: s.density[t] = s.density[t] * 1.7 + 0.013
    s.kT = 7.7
    with np.errstate(all='ignore'):
        y = p.cost(np.array(x, dtype=float))
    n = sd['n']
    return p, y.reshape((-1, n, n))

def close_arr(a, b, rtol=1e-8):
    sc = max(1.0, float(np.max(np.abs(a))), float(np.max(np.abs(b))))
    return bool(np.all(np.isfinite(a)) and np.all(np.isfinite(b)) and float(np.max(np.abs(a - b))) <= rtol * sc), float(np.max(np.abs(a - b))) if np.all(np.isfinite(a - b)) else float('inf')

def model_cost(ctx, suite, case, sd, x, p, y):
    """the transformed description goes through the Lean model as well"""
    G.feed(ctx.drv, sd)
    if ctx.drv.ask('prism.create') != 'ok': return
    res, cond = C01.prism_eq_residual(p)
    if cond > 1e6 or not np.all(np.isfinite(y)): return
    impl = G.cost_tok(p, y.reshape(-1))
    ctx.corr(suite, case, ctx.drv.ask('prism.cost ' + fl(x)), impl, rtol=1e-9, atols=G.group_atols(impl, 1e-7 * max(cond, 1.0) / 10), what='cost on the reformulated system')

def suite_perm(ctx, case):
    sd = case['sys']; n = sd['n']; perm = case['perm']; L = sd['dom'][0]
    x = np.array(case['x'], dtype=float).reshape((L, n, n))
    p0, y0 = run_cost(sd, x.reshape(-1))
    if not np.all(np.isfinite(y0)): ctx.dist['nonfinite-skipped'] += 1; return
    _, cond = C01.prism_eq_residual(p0)
    if cond > 1e5: ctx.dist['illconditioned-skipped'] += 1; return
    sd2 = permute_sd(sd, perm)
    ix = np.ix_(range(L), perm, perm)
    x2 = x[ix]
    p1, y1 = run_cost(sd2, x2.reshape(-1))
    ok, e = close_arr(y1, y0[ix], 1e-8 * cond)
    ctx.pred('perm', case, ok, 'cost(pi.sys)(pi.x) != pi.cost(sys)(x) for pi=%s: max diff %.3g' % (perm, e), key='C04:perm-cost')
    for name in ('totalCorr', 'directCorr', 'omega'):
        ok, e = close_arr(getattr(p1, name).data, getattr(p0, name).data[ix], 1e-8 * cond)
        ctx.pred('perm', case, ok, '%s of the permuted system is not the permuted %s (pi=%s): %.3g' % (name, name, perm, e), key='C04:perm-arrays')
    model_cost(ctx, 'perm', case, sd2, x2.reshape(-1), p1, y1)
    # renaming: same system with other type names
    s = G.build_system(sd)
    names = case.get('names') or ['poly', 'solv', 'X9', 'zz'][:n]
    names = names[:n]
    def build_named(lst, order):
        """a System whose type list is the list OBJECT `lst`; position q of the list carries the species `order[q]` of `sd`"""
        z = pyPRISM.System(lst, kT=sd['kT']); z.domain = G.mk_domain(sd)
        for q in range(n):
            z.density[lst[q]] = sd['dens'][order[q]]; z.diameter[lst[q]] = sd['diam'][order[q]]
        for (i, j) in G.pairs_of(n):
            a, b = sorted((order[i], order[j])); pr = sd['pairs']['%d%d' % (a, b)]
            z.potential[lst[i], lst[j]] = G.mk_pot(pr['pot']); z.closure[lst[i], lst[j]] = G.mk_clo(pr['clo']); z.omega[lst[i], lst[j]] = G.mk_om(pr['om'])
        return z
    ident = list(range(n))
    s2 = build_named(list(names), ident)
    with np.errstate(all='ignore'):
        y2 = s2.createPRISM().cost(x.reshape(-1).copy()).reshape((L, n, n))
    ctx.pred('perm', case, bool(np.array_equal(y2, y0)), 'renaming the types changed cost(x)', key='C04:rename')
    # ONE list object that is edited in place between two studies (types[:] = new names; types.reverse()) and re-used for the next System
    lst = list(G.TYPES[:n])
    with np.errstate(all='ignore'):
        try:
            build_named(lst, ident).createPRISM().cost(x.reshape(-1).copy())
            lst[:] = names
            y3 = build_named(lst, ident).createPRISM().cost(x.reshape(-1).copy()).reshape((L, n, n))
            lst.reverse(); rev = ident[::-1]
            y4 = build_named(lst, rev).createPRISM().cost(x[np.ix_(range(L), rev, rev)].reshape(-1).copy()).reshape((L, n, n))
            ok3 = bool(np.array_equal(y3, y0)); ok4, e4 = close_arr(y4, y0[np.ix_(range(L), rev, rev)], 1e-8 * cond); why = 'max diff %.3g' % e4
        except Exception as e:
            ok3 = ok4 = False; why = 'raised %s: %s' % (type(e).__name__, str(e)[:80])
    ctx.pred('perm', case, ok3 and ok4, 'a type list edited in place (renamed, then reversed) and re-used for the next System does not give the renamed / permuted result: ' + why, key='C04:rename')

def chain_E(k, sigma, chain='gauss'):
    if chain == 'fjc': return np.sin(k * sigma) / (k * sigma)          # rigid bonds: the cross-block omega has NEGATIVE lobes
    return np.exp(-k * k * sigma * sigma / 6.0)

def block_omegas(k, sigma, M, chain='gauss'):
    """exact omegas of the two halves (M beads each) of a Gaussian / freely-jointed chain of N = 2M beads"""
    E = chain_E(k, sigma, chain); N = 2 * M
    def intra(m):
        s = np.zeros_like(k)
        for a in range(m):
            for b in range(m): s += E ** abs(a - b)
        return s / m
    cross = np.zeros_like(k)
    for a in range(M):
        for b in range(M, N): cross += E ** (b - a)
    return intra(N), intra(M), cross / N

def suite_split(ctx, case):
    base = case['base']; L, dr = base['dom']; ratios = case['ratios']; m = len(ratios)
    d = pyPRISM.Domain(length=L, dr=dr)
    rho = base['dens'][0]; dia = base['diam'][0]
    pr = base['pairs']['00']
    if case['kind'] == 'diblock':
        M = case['M']; sigma = case['sigma']
        wtot, wAA, wAB = block_omegas(d.k, sigma, M, case.get('chain', 'gauss'))
        base = copy.deepcopy(base); base['pairs']['00']['om'] = ['arr', 0] + [float(v) for v in wtot]
    x1 = np.array(case['x'], dtype=float)
    p0, y0 = run_cost(base, x1)
    if not np.all(np.isfinite(y0)): ctx.dist['nonfinite-skipped'] += 1; return
    _, cond = C01.prism_eq_residual(p0)
    if cond > 1e5: ctx.dist['illconditioned-skipped'] += 1; return
    sd = {'n': m, 'kT': base['kT'], 'dom': [L, dr], 'dens': [rho * q for q in ratios], 'diam': [dia] * m, 'pairs': {}}
    for (i, j) in G.pairs_of(m):
        if case['kind'] == 'diblock':
            om = ['arr', 0] + [float(v) for v in (wAA if i == j else wAB)]
        else:
            om = copy.deepcopy(pr['om']) if i == j else ['nointra', 0]
        sd['pairs']['%d%d' % (i, j)] = {'pot': copy.deepcopy(pr['pot']), 'clo': copy.deepcopy(pr['clo']), 'om': om}
    xl = np.repeat(x1.reshape((L, 1, 1)), m, axis=1).repeat(m, axis=2)
    p1, y1 = run_cost(sd, xl.reshape(-1))
    want = np.repeat(y0.reshape((L, 1, 1)), m, axis=1).repeat(m, axis=2)
    ok, e = close_arr(y1, want, 1e-8 * cond)
    ctx.pred('split', case, ok, 'cost of the %s split (ratios %s) is not the lifted cost of the unsplit system: max diff %.3g' % (case['kind'], ratios, e), key='C04:split-cost')
    h0 = p0.totalCorr.data[:, 0, 0]; c0 = p0.directCorr.data[:, 0, 0]
    okh = all(close_arr(p1.totalCorr.data[:, i, j], h0, 1e-8 * cond)[0] for i in range(m) for j in range(m))
    okc = all(close_arr(p1.directCorr.data[:, i, j], c0, 1e-8 * cond)[0] for i in range(m) for j in range(m))
    ctx.pred('split', case, okh and okc, 'h_ab / c_ab of the split system differ from h / c of the unsplit one', key='C04:split-arrays')
    model_cost(ctx, 'split', case, sd, xl.reshape(-1), p1, y1)

def scale_sd(sd, s):
    out = copy.deepcopy(sd); out['kT'] = sd['kT'] * s
    for pr in out['pairs'].values():
        k = pr['pot'][0]; P = pr['pot']
        if k == 'hs': P[2] *= s
        elif k == 'exp': P[2] *= s; P[4] *= s
        elif k in ('lj', 'wca'): P[2] *= s
        elif k in ('ljcut', 'ljshift'): P[2] *= s
        elif k == 'hclj': P[2] *= s; P[3] *= s
    return out

def suite_scale(ctx, case):
    sd = case['sys']; s = case['s']; n = sd['n']; L = sd['dom'][0]
    x = np.array(case['x'], dtype=float)
    p0, y0 = run_cost(sd, x)
    if not np.all(np.isfinite(y0)): ctx.dist['nonfinite-skipped'] += 1; return
    _, cond = C01.prism_eq_residual(p0)
    if cond > 1e5: ctx.dist['illconditioned-skipped'] += 1; return
    sd2 = scale_sd(sd, s)
    whole = float(sd2['kT']).is_integer() and sd2['kT'] >= 1
    for mode in ('ctor', 'assign') + (('ctor as a Python int', 'ctor as numpy.int64', 'assign as a Python int') if whole else ()):
        # a whole-number kT typed as an integer (kT=2) is the same temperature as 2.0
        if mode == 'ctor': p1, y1 = run_cost(sd2, x)
        elif mode == 'assign': p1, y1 = run_cost(dict(sd2, kT=1.0), x, kT_assign=sd2['kT'])
        elif mode == 'ctor as a Python int': p1, y1 = run_cost(dict(sd2, kT_type='int'), x)
        elif mode == 'ctor as numpy.int64': p1, y1 = run_cost(dict(sd2, kT_type='int64'), x)
        else: p1, y1 = run_cost(dict(sd2, kT=1.0), x, kT_assign=int(sd2['kT']))
        ok, e = close_arr(y1, y0, 1e-9 * cond)
        ctx.pred('scale', case, ok, 'cost changed when every energy and kT were multiplied by %g (kT via %s): %.3g' % (s, mode, e), key='C04:scale-cost')
        # pmf of identical arrays scales by s
        for q in (p0, p1):
            if q.totalCorr.space == Space.Fourier: q.sys.domain.MatrixArray_to_real(q.totalCorr)
        with np.errstate(all='ignore'):
            w0 = pyPRISM.calculate.pmf(p0).data; w1 = pyPRISM.calculate.pmf(p1).data
        g = p0.totalCorr.data + 1.0
        mask = (g > 1e-3) & np.isfinite(w0) & np.isfinite(w1)
        if np.any(mask):
            e = float(np.max(np.abs(w1[mask] - s * w0[mask]) / (np.abs(s * w0[mask]) + 1e-6 * s)))
            ctx.pred('scale', case, e <= 1e-5, 'pmf of the scaled system is not %g x pmf (kT via %s): rel %.3g' % (s, mode, e), key='C04:scale-pmf')
        p0.sys.domain.MatrixArray_to_fourier(p0.totalCorr)
    model_cost(ctx, 'scale', case, sd2, x, *run_cost(sd2, x))

def solved(sd, method='krylov'):
    s = G.build_system(sd); p = s.createPRISM()
    res = C01.solve_quiet(p, None, method)
    if isinstance(res, Exception) or not res.success: return None, None
    return p, float(np.max(np.abs(res.fun)))

def suite_solve(ctx, case):
    """converged solves of paired systems: g and S agree to the accuracy of the two solves"""
    sd = case['sys']; kind = case['kind']; n = sd['n']
    p0, f0 = solved(sd)
    if p0 is None: ctx.dist['solve:not-converged'] += 1; return
    if kind == 'perm':
        perm = case['perm']; sd2 = permute_sd(sd, perm)
        sel = lambda a: a[np.ix_(range(a.shape[0]), perm, perm)]
    else:
        sd2 = scale_sd(sd, case['s']); sel = lambda a: a
    p1, f1 = solved(sd2)
    if p1 is None: ctx.dist['solve:not-converged'] += 1; return
    ctx.dist['solve:paired-converged'] += 1
    g0 = pyPRISM.calculate.pair_correlation(p0).data; g1 = pyPRISM.calculate.pair_correlation(p1).data
    S0 = pyPRISM.calculate.structure_factor(p0).data; S1 = pyPRISM.calculate.structure_factor(p1).data
    tol = 1e-4 + 1e3 * (f0 + f1)
    e = float(np.max(np.abs(g1 - sel(g0)))); eS = float(np.max(np.abs(S1 - sel(S0))))
    ok = e <= tol and eS <= tol * max(1.0, float(np.max(np.abs(S0))))
    if not ok:
        # the non-linear equations can have several roots, and which one krylov reaches from gamma = 0 depends on the order of the
        # unknowns.  The property is about the solutions: the transformed FIRST solution must solve the SECOND system equally well.
        # If it does, the two solves simply found different roots (counted, not a violation); if it does not, equivariance is broken.
        L = sd['dom'][0]
        x0 = np.asarray(p0.minimize_result.x, dtype=float).reshape((L, n, n))
        with np.errstate(all='ignore'):
            y = G.build_system(sd2).createPRISM().cost(sel(x0).reshape(-1).copy())
        f01 = float(np.max(np.abs(y))) if np.all(np.isfinite(y)) else float('inf')
        if f01 <= 1e-7 + 100 * f0:
            ctx.dist['solve:paired-solves-found-different-roots'] += 1; return
        ctx.pred('solve', case, False, 'paired solves (%s) disagree: dg=%.3g dS=%.3g (residuals %.2g, %.2g) and the transformed first solution is not a solution of the second system (residual %.3g)' % (kind, e, eS, f0, f1, f01), key='C04:solve-' + kind)
        return
    ctx.pred('solve', case, ok, 'paired solves (%s) disagree: dg=%.3g dS=%.3g (residuals %.2g, %.2g)' % (kind, e, eS, f0, f1), key='C04:solve-' + kind)

def suite_split_solvent(ctx, case):
    """a homopolymer P in a solvent S  vs  its two labelled halves A|B in S (a rank-3 system with a non-zero cross omega)"""
    base = copy.deepcopy(case['base']); L, dr = base['dom']; M = case['M']; sigma = case['sigma']
    d = pyPRISM.Domain(length=L, dr=dr)
    wtot, wAA, wAB = block_omegas(d.k, sigma, M, case.get('chain', 'gauss'))
    base['pairs']['00']['om'] = ['arr', 0] + [float(v) for v in wtot]
    x2 = np.array(case['x'], dtype=float).reshape((L, 2, 2)); x2 = (x2 + x2.transpose(0, 2, 1)) / 2
    p0, y0 = run_cost(base, x2.reshape(-1))
    if not np.all(np.isfinite(y0)): ctx.dist['nonfinite-skipped'] += 1; return
    _, cond = C01.prism_eq_residual(p0)
    if cond > 1e5: ctx.dist['illconditioned-skipped'] += 1; return
    rp, rs = base['dens']; PP = base['pairs']['00']; PS = base['pairs']['01']; SS = base['pairs']['11']
    sd = {'n': 3, 'kT': base['kT'], 'dom': [L, dr], 'dens': [rp / 2, rp / 2, rs], 'diam': [base['diam'][0], base['diam'][0], base['diam'][1]], 'pairs': {}}
    src = {'00': PP, '01': PP, '11': PP, '02': PS, '12': PS, '22': SS}
    for k, pr in src.items():
        om = (['arr', 0] + [float(v) for v in (wAA if k in ('00', '11') else wAB)]) if k in ('00', '01', '11') else copy.deepcopy(pr['om'])
        sd['pairs'][k] = {'pot': copy.deepcopy(pr['pot']), 'clo': copy.deepcopy(pr['clo']), 'om': om}
    mp = [0, 0, 1]
    lift = lambda a: a[np.ix_(range(L), mp, mp)]
    p1, y1 = run_cost(sd, lift(x2).reshape(-1))
    ok, e = close_arr(y1, lift(y0), 1e-8 * cond)
    ctx.pred('split3', case, ok, 'cost of (A|B halves + solvent) is not the lifted cost of (homopolymer + solvent): max diff %.3g' % e, key='C04:split-cost')
    ok2 = close_arr(p1.totalCorr.data, lift(p0.totalCorr.data), 1e-8 * cond)[0] and close_arr(p1.directCorr.data, lift(p0.directCorr.data), 1e-8 * cond)[0]
    ctx.pred('split3', case, ok2, 'h_ab / c_ab of the split system differ from the unsplit ones', key='C04:split-arrays')
    model_cost(ctx, 'split3', case, sd, lift(x2).reshape(-1), p1, y1)

SUITES = {'perm': suite_perm, 'split': suite_split, 'split3': suite_split_solvent, 'scale': suite_scale, 'solve': suite_solve}

def gen_base1(rng, L):
    """a one-component base system"""
    dr = rng.choice([0.1, 0.125, 0.2]); dia = G.grid_multiple(rng, dr, 0.8, 1.2)
    eta = rng.uniform(0.05, 0.3)
    kind = rng.choice(['hs', 'hclj', 'exp', 'wca', 'ljshift'])
    pot = {'hs': ['hs', None, 1e6], 'hclj': ['hclj', None, 0.3, 1e6], 'exp': ['exp', None, 0.3, 0.5, 1e6], 'wca': ['wca', None, 1.0], 'ljshift': ['ljshift', None, 0.4, 2.5]}[kind]
    clo = [rng.choice(['py', 'hnc', 'msa']), True] if kind in ('hs', 'hclj', 'exp') else [rng.choice(['py', 'hnc']), False]
    om = rng.choice([['single', 1], ['single', 1], ['gauss', 6, 1.0]])
    return {'n': 1, 'kT': rng.choice([1.0, 1.5]), 'dom': [L, dr], 'dens': [float('%.5g' % (eta * 6 / math.pi / dia ** 3))], 'diam': [dia],
            'pairs': {'00': {'pot': pot, 'clo': clo, 'om': om}}}

def generate(ctx):
    rng = ctx.rng
    for _ in range(ctx.n(40, 400)):
        sd = G.gen_system(rng, maxn=4, maxL=ctx.n(20, 48))
        while sd['n'] < 2: sd = G.gen_system(rng, maxn=4, maxL=ctx.n(20, 48))
        perms = [list(q) for q in itertools.permutations(range(sd['n']))][1:]
        for perm in (perms if not ctx.quick() else [rng.choice(perms)]):
            case = {'sys': sd, 'perm': perm, 'x': G.gen_x(rng, sd, 'moderate'),
                    'names': rng.choice([None, [2, 0, 1, 3], [1, 0, 3, 2], [10, 11, 12, 13], ['b', 'a', 'd', 'c']])}
            ctx.case('perm', case, True, tags=['perm:rank%d' % sd['n']] + C01.tags_of(sd)[:1]); suite_perm(ctx, case)
    for _ in range(ctx.n(40, 400)):
        L = rng.choice([12, 16, 24, 32])
        base = gen_base1(rng, L)
        m = rng.choice([2, 2, 3])
        cuts = sorted((rng.uniform(0.1, 0.9) if rng.random() < 0.7 else 10 ** rng.uniform(-6, -3)) for _ in range(m - 1)); ratios = [b - a for a, b in zip([0.0] + cuts, cuts + [1.0])]
        ratios = [float('%.4g' % q) for q in ratios]; ratios[-1] = 1.0 - sum(ratios[:-1])
        if min(ratios) <= 0: ratios = [0.5] * 2 if m == 2 else [0.3, 0.3, 0.4]
        kind = rng.choice(['monatomic', 'monatomic', 'diblock'])
        case = {'base': base, 'ratios': ratios, 'kind': kind, 'x': G.gen_x(rng, base, 'moderate')}
        if kind == 'diblock':
            case['ratios'] = [0.5, 0.5]; case['M'] = rng.choice([1, 2, 3, 4]); case['sigma'] = float('%.3g' % rng.uniform(0.7, 1.3)); case['chain'] = rng.choice(['gauss', 'fjc'])
        else:
            base['pairs']['00']['om'] = ['single', 1]
        ctx.case('split', case, True, tags=['split:' + kind, 'parts:%d' % len(case['ratios'])]); suite_split(ctx, case)
    for _ in range(ctx.n(25, 250)):
        L = rng.choice([12, 16, 24]); dr = rng.choice([0.1, 0.125, 0.2])
        b1 = gen_base1(rng, L); b2 = gen_base1(rng, L)
        base = {'n': 2, 'kT': b1['kT'], 'dom': [L, b1['dom'][1]], 'dens': [b1['dens'][0] * 0.5, b2['dens'][0] * 0.3], 'diam': [b1['diam'][0], G.grid_multiple(rng, b1['dom'][1], 0.6, 1.2)],
                'pairs': {'00': b1['pairs']['00'], '11': dict(b2['pairs']['00'], om=['single', 1]),
                          '01': {'pot': copy.deepcopy(b2['pairs']['00']['pot']), 'clo': copy.deepcopy(b2['pairs']['00']['clo']), 'om': ['nointra', 0]}}}
        case = {'base': base, 'M': rng.choice([1, 2, 3, 4]), 'sigma': float('%.3g' % rng.uniform(0.7, 1.3)), 'x': G.gen_x(rng, base, 'moderate'), 'chain': rng.choice(['gauss', 'fjc'])}
        ctx.case('split3', case, True, tags=['split:diblock+solvent']); suite_split_solvent(ctx, case)
    # directed: every potential family with a finite tail, in energy units far from 1 (J per particle, J/mol)
    for kind in ('exp', 'exp-', 'hclj', 'lj', 'ljshift', 'ljcut', 'wca'):
        for s in (1e-6, 1.66e-21, 2.5e3):
            sd = gen_base1(rng, 24)
            pot = {'exp': ['exp', None, 0.4, 0.6, 1e6], 'exp-': ['exp', None, -0.3, 0.4, 1e6], 'hclj': ['hclj', None, 0.5, 1e6], 'lj': ['lj', None, 0.6], 'ljshift': ['ljshift', None, 0.5, 2.5],
                   'ljcut': ['ljcut', None, 0.5, 2.0], 'wca': ['wca', None, 0.8]}[kind]
            sd['pairs']['00']['pot'] = pot
            sd['pairs']['00']['clo'] = [rng.choice(['py', 'hnc']), pot[0] in ('exp', 'hclj')]
            case = {'sys': sd, 's': s, 'x': G.gen_x(rng, sd, 'moderate')}
            ctx.case('scale', case, True, tags=['scale:units', 'pot:' + pot[0]]); suite_scale(ctx, case)
    for _ in range(ctx.n(40, 400)):
        sd = G.gen_system(rng, maxn=2, maxL=ctx.n(20, 48))
        s = float('%.3g' % (10 ** rng.uniform(-2, 2)))
        if rng.random() < 0.3: s = rng.choice([1e-6, 1.66e-21, 4.14e-21, 1e6, 2.5e3])          # the same physics in other energy units (J per particle, J/mol, K)
        elif rng.random() < 0.3: sd['kT'] = 1.0; sd.pop('kT_type', None); s = float(rng.choice([2, 3, 4, 300]))          # whole-number temperatures (also typed as integers, see suite_scale)
        case = {'sys': sd, 's': s, 'x': G.gen_x(rng, sd, 'moderate')}
        ctx.case('scale', case, True, tags=['scale:%s' % ('up' if s > 1 else 'down')] + ['pot:' + pr['pot'][0] for pr in sd['pairs'].values()]); suite_scale(ctx, case)
    for q in range(ctx.n(4, 40)):
        sd = C01.gen_solvable(rng, maxn=ctx.n(2, 3), maxL=ctx.n(32, 64))
        while sd['n'] < 2: sd = C01.gen_solvable(rng, maxn=ctx.n(2, 3), maxL=ctx.n(32, 64))
        if q % 2 == 0:
            perms = [list(x) for x in itertools.permutations(range(sd['n']))][1:]
            case = {'sys': sd, 'kind': 'perm', 'perm': rng.choice(perms)}
        else:
            case = {'sys': sd, 'kind': 'scale', 's': float('%.3g' % (10 ** rng.uniform(-1, 1)))}
        ctx.case('solve', case, True, tags=['solve:' + case['kind']]); suite_solve(ctx, case)
