"""C07 — Real/Fourier transforms are exact mutual inverses on every reachable Domain."""
import math
from ..implenv import np, pyPRISM
from ..driver import f2h, fl, h2f
from pyPRISM.core.MatrixArray import MatrixArray
from pyPRISM.core.Space import Space
from scipy.fftpack import dst as scipy_dst

RULE = ("Domains built from dr or from dk (lengths 1-64 quick / 1-300 thorough incl. primes and 2^m +- 1, spacings log-uniform 1e-3..10) followed by random "
        "histories of dr/dk/length assignments (<= 8 quick / <= 30 thorough); after EVERY assignment length, dr, dk, len(r), len(k), r, k and the coefficient arrays are "
        "compared with the Lean model and with a freshly constructed Domain(length, dr); to_fourier/to_real of random / spiky / smooth arrays are compared with the "
        "model's direct DST sums (and the sums with scipy.fftpack.dst), round trips both ways, linearity, (m, length) stacks row by row; MatrixArray versions (plain and IdentityMatrixArray objects given other contents; objects iterated/transformed earlier with other data and then re-assigned) for rank 1-4 with every space flag and memory layout (C, Fortran, transposed pair-table view, sub-block view) and type-label lists (default, permuted, renamed - several arrays of one rank in one process) "
        "(pairwise identical transform, symmetry, flag flip, ValueError iff already in the target space, round trip). Non-trivial = history with >= 1 setter or a "
        "non-power-of-two length; distinct = distinct case")
EXTRA_TRUSTED = ["scipy.fftpack.dst(type=2/3) modelled by SciPy's documented direct sums; validated against SciPy on every run (suite dst); FFT rounding vs direct sum: rtol 1e-9*max|out|"]
ASSUMPTIONS = ["non-zero finite spacings, positive lengths (the constructor/setters do not validate them)", "finite array data"]
SP = {'R': Space.Real, 'F': Space.Fourier, 'N': Space.NonSpatial}
SPT = {Space.Real: 'R', Space.Fourier: 'F', Space.NonSpatial: 'N', None: 'N'}

def errkind(e):
    return 'ERR ValueError' if isinstance(e, ValueError) else 'ERR rejected'

def obs(d):
    return '%d %s %s r %s k %s' % (d.length, f2h(d.dr), f2h(d.dk), fl(d.r), fl(d.k))

def build(case):
    kw = {}
    if case.get('dr') is not None: kw['dr'] = case['dr']
    if case.get('dk') is not None: kw['dk'] = case['dk']
    return pyPRISM.Domain(length=case['L'], **kw)

def new_line(case):
    o = lambda v: 'N' if v is None else f2h(v)
    return 'dom.new %d %s %s' % (case['L'], o(case.get('dr')), o(case.get('dk')))

def apply_ops(ctx, suite, case, d, upto=None):
    """apply the setter history to the implementation and the model, comparing after every step"""
    drv = ctx.drv
    ops = case.get('ops', [])
    for n, (kind, v) in enumerate(ops):
        if kind == 'length':
            d.length = int(v); drv.ask('dom.set length %d' % int(v))
        elif kind == 'dr':
            d.dr = v; drv.ask('dom.set dr ' + f2h(v))
        else:
            d.dk = v; drv.ask('dom.set dk ' + f2h(v))
        sub = dict(case); sub['ops'] = ops[:n + 1]
        ctx.corr(suite, sub, drv.ask('dom.obs'), obs(d), rtol=1e-13, what='state after %s setter' % kind)
        fresh_pred(ctx, suite, sub, d)
    return d

def fresh_pred(ctx, suite, case, d):
    L = int(d.length)
    ok = len(d.r) == L and len(d.k) == L
    ctx.pred(suite, case, ok, 'grid sizes len(r)=%d len(k)=%d differ from length=%d' % (len(d.r), len(d.k), L), key='C07:grid-size')
    if not ok:
        return
    f = pyPRISM.Domain(length=L, dr=float(d.dr))
    i = np.arange(1, L + 1)
    def same(a, b):
        a = np.asarray(a, dtype=float); b = np.asarray(b, dtype=float)
        return a.shape == b.shape and bool(np.all(np.abs(a - b) <= 1e-12 * np.maximum(np.abs(a), np.abs(b))))
    good = (same(d.dk, f.dk) and same(d.r, f.r) and same(d.k, f.k) and same(d.DST_II_coeffs, f.DST_II_coeffs)
            and same(d.DST_III_coeffs, f.DST_III_coeffs) and d.long_r.shape == (L, 1, 1) and same(d.long_r.reshape(-1), f.r)
            and same(d.r, i * float(d.dr)) and same(d.k, i * float(d.dk))
            and abs(float(d.dk) * float(d.dr) * L - math.pi) <= 1e-12 * math.pi)
    ctx.pred(suite, case, good, 'domain differs from a fresh Domain(length=%d, dr=%r): dk=%r vs %r' % (L, float(d.dr), float(d.dk), float(f.dk)),
             key='C07:fresh')

def suite_setters(ctx, case):
    drv = ctx.drv
    try:
        d = build(case); impl = 'ok'
    except Exception as e:
        d = None; impl = errkind(e)
    ctx.corr('setters', case, drv.ask(new_line(case)), impl, what='constructor')
    both = (case.get('dr') is None) == (case.get('dk') is None)
    ctx.pred('setters', case, (impl == 'ERR ValueError') == both, 'constructor outcome %s with dr=%r dk=%r' % (impl, case.get('dr'), case.get('dk')),
             key='C07:constructor')
    if d is None:
        return
    ctx.corr('setters', dict(case, ops=[]), drv.ask('dom.obs'), obs(d), rtol=1e-13, what='state after constructor')
    fresh_pred(ctx, 'setters', dict(case, ops=[]), d)
    apply_ops(ctx, 'setters', case, d)
    if case.get('decoy'):
        decoy = pyPRISM.Domain(length=int(d.length), dr=float(d.dr) * 0.37); decoy.dk = float(d.dk) * 1.9
    ctx.corr('setters', case, drv.ask('dom.coef'), 'c2 %s c3 %s' % (fl(d.DST_II_coeffs), fl(d.DST_III_coeffs)), rtol=1e-13, what='DST coefficient arrays')

def mk_array(kind, L, seed):
    rng = np.random.RandomState(seed)
    if kind == 'normal': return rng.normal(size=L)
    if kind == 'spike':
        a = np.zeros(L); a[rng.randint(L)] = rng.choice([-1, 1]) * 10 ** rng.uniform(-2, 2); return a
    if kind == 'smooth':
        x = np.arange(1, L + 1) / float(L); return np.exp(-3 * x) * np.cos(7 * x) * rng.uniform(0.5, 2)
    if kind == 'wide': return rng.normal(size=L) * 10 ** rng.uniform(-6, 6, size=L)
    if kind == 'int': return rng.randint(-3, 4, size=L)                  # integer-typed samples (e.g. np.where(r <= R, 1, 0))
    if kind == 'bool': return rng.uniform(size=L) < 0.5                  # boolean indicator (r <= R)
    return np.ones(L)

def suite_transform(ctx, case):
    drv = ctx.drv
    d = build(case); drv.ask(new_line(case))
    # the history is applied silently here (suite `setters` compares the states); a stale spacing shows up below
    for kind, v in case.get('ops', []):
        if kind == 'length': d.length = int(v); drv.ask('dom.set length %d' % int(v))
        elif kind == 'dr': d.dr = v; drv.ask('dom.set dr ' + f2h(v))
        else: d.dk = v; drv.ask('dom.set dk ' + f2h(v))
    L = int(d.length)
    if case.get('decoy'):
        # a second Domain (same length, other spacing) is built and re-spaced AFTER d was configured: Domains are independent objects
        decoy = pyPRISM.Domain(length=L, dr=float(d.dr) * 0.37); decoy.dk = float(d.dk) * 1.9
        decoy2 = pyPRISM.Domain(length=L + 3, dr=0.05)
    if case.get('glue'):
        # the Domain is USED by the rest of the library before the transforms: every omega class is evaluated on its k grid and every
        # potential class on its r grid (what PRISM.__init__ does with the System's Domain).  A Domain lends its grids, it does not give them away.
        O = pyPRISM.omega; P = pyPRISM.potential; sg = 30.0 * float(d.dr)
        users = [lambda: O.Gaussian(sigma=0.8, length=7).calculate(d.k), lambda: O.FreelyJointedChain(length=6, l=0.8).calculate(d.k), lambda: O.GaussianRing(sigma=1.3, length=5).calculate(d.k),
                 lambda: O.NonOverlappingFreelyJointedChain(length=4, l=1.1).calculate(d.k), lambda: O.DiscreteKoyama(sigma=1.0, l=0.9, length=5, lp=1.6).calculate(d.k),
                 lambda: O.SingleSite().calculate(d.k), lambda: O.NoIntra().calculate(d.k), lambda: O.FromArray(np.ones(L), d.k).calculate(d.k),
                 lambda: P.HardSphere(sigma=sg).calculate(d.r), lambda: P.LennardJones(epsilon=0.7, sigma=sg).calculate(d.r), lambda: P.LennardJones(epsilon=0.7, sigma=sg, rcut=2.5 * sg, shift=True).calculate(d.r),
                 lambda: P.WeeksChandlerAndersen(epsilon=1.0, sigma=sg).calculate(d.r), lambda: P.HardCoreLennardJones(epsilon=0.5, sigma=sg).calculate(d.r), lambda: P.Exponential(epsilon=0.5, alpha=0.4 * sg, sigma=sg).calculate(d.r)]
        for u_ in users:
            try:
                with np.errstate(all='ignore'): u_()
            except Exception:
                pass
        fresh_pred(ctx, 'transform', case, d)
    f = mk_array(case['akind'], L, case['aseed']); g = mk_array('normal', L, case['aseed'] + 1); a = case.get('a', 1.7)
    f_given = f.copy()
    try:
        F = d.to_fourier(f); fb = d.to_real(F); R = d.to_real(f); Fb = d.to_fourier(R)
    except Exception as e:
        ctx.pred('transform', case, False, 'transform raised %r' % (e,), key='C07:transform-raises'); return
    ok = len(F) == L and len(R) == L
    ctx.pred('transform', case, ok, 'transform output length %d/%d vs %d' % (len(F), len(R), L), key='C07:grid-size')
    if not ok: return
    ctx.pred('transform', case, bool(np.array_equal(f, f_given)) and f.dtype == f_given.dtype, 'a transform modified the array it was given', key='C07:purity')
    f = np.asarray(f, dtype=float)
    mf = drv.ask('dom.tf ' + fl(f)); mr = drv.ask('dom.tr ' + fl(f))
    ctx.corr('transform', case, mf, fl(F), rtol=1e-9, scale=float(np.max(np.abs(F))) + 1e-300, what='to_fourier vs model direct sum')
    ctx.corr('transform', case, mr, fl(R), rtol=1e-9, scale=float(np.max(np.abs(R))) + 1e-300, what='to_real vs model direct sum')
    sc = float(np.max(np.abs(f))) + 1e-300
    # conditioning of the round trip through the 1/k, 1/r weights grows like L; 1e-10*L*max|f| is far below any real defect (>= 1e-3)
    tol = 1e-11 * max(L, 10) * sc
    ctx.pred('transform', case, float(np.max(np.abs(fb - f))) <= tol, 'to_real(to_fourier(f)) != f: max err %.3g (scale %.3g)' % (np.max(np.abs(fb - f)), sc), key='C07:roundtrip')
    ctx.pred('transform', case, float(np.max(np.abs(Fb - f))) <= tol, 'to_fourier(to_real(F)) != F: max err %.3g (scale %.3g)' % (np.max(np.abs(Fb - f)), sc), key='C07:roundtrip')
    # a stack of functions, one per row (shape (m, length)): every row is transformed along the grid axis like the 1-D array
    if case.get('stack'):
        rows = [f, g, a * f - g][:case['stack']]
        try:
            SF = np.asarray(d.to_fourier(np.array(rows))); SR = np.asarray(d.to_real(np.array(rows)))
            oks = SF.shape == (len(rows), L) and SR.shape == (len(rows), L)
            for q, row in enumerate(rows):
                wF = d.to_fourier(row); wR = d.to_real(row)
                oks = oks and bool(np.all(np.abs(SF[q] - wF) <= 1e-12 * (np.max(np.abs(wF)) + 1e-300))) and bool(np.all(np.abs(SR[q] - wR) <= 1e-12 * (np.max(np.abs(wR)) + 1e-300)))
        except Exception as e:
            oks = False
        ctx.pred('transform', case, bool(oks), 'a (%d, length) stack of functions is not transformed row by row along the grid axis' % len(rows), key='C07:stack')
    # linearity
    for name, T in (('to_fourier', d.to_fourier), ('to_real', d.to_real)):
        lhs = T(a * f + g); rhs = a * T(f) + T(g)
        s2 = float(np.max(np.abs(rhs))) + 1e-300
        ctx.pred('transform', case, float(np.max(np.abs(lhs - rhs))) <= 1e-10 * s2, '%s not linear: %.3g' % (name, np.max(np.abs(lhs - rhs))), key='C07:linear')

def suite_dst(ctx, case):
    """validation of the DST definition in the trusted base: model direct sums vs scipy.fftpack.dst"""
    x = mk_array(case['akind'], case['L'], case['aseed'])
    for t, name in ((2, 'dst2'), (3, 'dst3')):
        y = scipy_dst(x, type=t)
        ctx.corr('dst', case, ctx.drv.ask(name + ' ' + fl(x)), fl(y), rtol=1e-10, scale=float(np.max(np.abs(y))) + 1e-300, what=name + ' vs scipy')
    ctx.validation_runs += 1

def suite_ma(ctx, case):
    drv = ctx.drv
    d = build(case); drv.ask(new_line(case))
    L = int(d.length); n = case['rank']
    rng = np.random.RandomState(case['aseed'])
    data = rng.normal(size=(L, n, n)); data = data + data.transpose(0, 2, 1)
    if case.get('zero'): data = np.zeros((L, n, n))                      # a freshly allocated (all-zero) MatrixArray
    for dirn in case['dirs']:
        lay = case.get('layout', 'C')
        if lay == 'F': arr = np.asfortranarray(data.copy())
        elif lay == 'T': arr = np.ascontiguousarray(data.transpose(2, 1, 0)).T          # view of a (rank, rank, length) pair table
        elif lay == 'sub':
            big = np.zeros((L, n + 1, n + 1)); big[:, :n, :n] = data; arr = big[:, :n, :n]  # sub-block view of a larger array
        else: arr = data.copy()
        tys = case.get('types')
        if case.get('mkind') == 'identity':
            # an IdentityMatrixArray that no longer holds the identity (I -= X, I[a,b] = f, I.data = ...) is a MatrixArray like any other
            from pyPRISM.core.IdentityMatrixArray import IdentityMatrixArray
            m = IdentityMatrixArray(length=L, rank=n, space=SP[case['sp']], types=None if tys is None else list(tys))
            if case.get('fill') == 'inplace': m.data[...] = arr
            else: m.data = arr
        else:
            m = MatrixArray(length=L, rank=n, data=arr, space=SP[case['sp']], types=None if tys is None else list(tys))
        if case.get('reassign') and case['sp'] != 'N':
            # the object has a past: it was iterated over and transformed with OTHER contents, then given new data (what PRISM.cost does with GammaIn every iteration)
            keepdata = m.data
            m.data = rng.normal(size=(L, n, n)); m.data = m.data + m.data.transpose(0, 2, 1)
            for _ in m.iterpairs(): pass
            (d.MatrixArray_to_real if case['sp'] == 'F' else d.MatrixArray_to_fourier)(m)
            m.data = keepdata; m.space = SP[case['sp']]
        if case.get('failed_first') and case['sp'] != 'N' and L >= 2:
            # a transform that FAILS (a Domain whose length does not match the array) and is caught: the array and its flag are what they were
            dbad = pyPRISM.Domain(length=L + 1, dr=0.1); keep = m.data.copy()
            try:
                (dbad.MatrixArray_to_fourier if case['sp'] == 'R' else dbad.MatrixArray_to_real)(m); failed = False
            except Exception:
                failed = True
            ctx.pred('ma', case, failed and SPT[m.space] == case['sp'] and bool(np.array_equal(m.data, keep)),
                     'a transform with a Domain of another length %s; afterwards the array is flagged %s (was %s)' % ('raised' if failed else 'was accepted', SPT[m.space], case['sp']), key='C07:ma-space-guard')
            m.space = SP[case['sp']]
        before = m.data.copy(); sp0 = case['sp']
        seq = []
        for step, way in enumerate(dirn):
            try:
                (d.MatrixArray_to_fourier if way == 'F' else d.MatrixArray_to_real)(m); impl = '%s %s' % (SPT[m.space], fl(m.data.reshape(-1)))
                raised = None
            except Exception as e:
                impl = errkind(e); raised = e
            line = 'dom.ma %s %d %d %s %s' % (way, L, n, sp0, fl(before.reshape(-1)))
            sub = dict(case, dirs=[dirn[:step + 1]])
            ctx.corr('ma', sub, drv.ask(line), impl, rtol=1e-9, scale=float(np.max(np.abs(m.data))) + 1e-300, what='MatrixArray_to_%s' % way)
            must_refuse = (sp0 == way)
            ctx.pred('ma', sub, (isinstance(raised, ValueError)) == must_refuse,
                     'MatrixArray_to_%s on a %s array: %s' % (way, sp0, 'raised %r' % raised if raised else 'accepted'), key='C07:ma-space-guard')
            if raised is not None:
                ctx.pred('ma', sub, bool(np.array_equal(m.data, before)) and SPT[m.space] == sp0, 'refused transform changed the array', key='C07:ma-space-guard')
                continue
            T = d.to_fourier if way == 'F' else d.to_real
            good = SPT[m.space] == way and m.data.shape == (L, n, n)
            for i in range(n):
                for j in range(n):
                    want = T(before[:, i, j])
                    good = good and bool(np.allclose(m.data[:, i, j], want, rtol=1e-12, atol=1e-12 * (np.max(np.abs(want)) + 1e-300)))
                    good = good and bool(np.array_equal(m.data[:, i, j], m.data[:, j, i]))
            ctx.pred('ma', sub, good, 'MatrixArray_to_%s: pair functions not transformed identically / not symmetric / flag %s' % (way, SPT[m.space]), key='C07:ma-pairs')
            seq.append(way)
            if len(seq) >= 2 and seq[-1] != seq[-2]:
                tol = 1e-11 * max(L, 10) * (float(np.max(np.abs(prev2))) + 1e-300)
                # two steps back the array was `data2`
                ctx.pred('ma', sub, float(np.max(np.abs(m.data - prev2))) <= tol, 'MatrixArray round trip error %.3g' % np.max(np.abs(m.data - prev2)), key='C07:roundtrip')
            prev2 = before
            before = m.data.copy(); sp0 = SPT[m.space]

SUITES = {'setters': suite_setters, 'transform': suite_transform, 'dst': suite_dst, 'ma': suite_ma}

def gen_len(rng, maxL):
    c = rng.random()
    if c < 0.25: return rng.choice([1, 2, 3, 4, 5, 7, 8])
    if c < 0.5:
        m = rng.choice([8, 16, 32, 64, 128, 256]); return max(1, min(maxL, m + rng.choice([-1, 0, 1])))
    if c < 0.65: return rng.choice([p for p in (11, 13, 17, 31, 37, 61, 97, 127, 211, 251) if p <= maxL] or [7])
    return rng.randint(1, maxL)

def gen_spacing(rng):
    c = rng.random()
    if c < 0.35: return rng.choice([0.1, 0.05, 0.025, 0.3, 0.7, 0.01, 0.2, 1.0])
    if c < 0.45: return rng.choice([1, 2, 1, 3])                         # integer-TYPED spacings (Domain(length, dr=1))
    return float('%.5g' % (10 ** rng.uniform(-3, 1)))

def gen_dom(rng, maxL, maxops):
    case = {'L': gen_len(rng, maxL)}
    case['dr' if rng.random() < 0.5 else 'dk'] = gen_spacing(rng)
    ops = []
    last = {'dr': case.get('dr'), 'dk': case.get('dk')}
    for _ in range(rng.choice([0, 0, 1, 1, 2, 3, rng.randint(0, maxops)])):
        k = rng.choice(['dr', 'dk', 'length', 'length'])
        if k == 'length': v = gen_len(rng, maxL)
        else:
            c = rng.random()
            if c < 0.2 and last[k] is not None: v = last[k] * (1 + rng.choice([1e-6, -3e-6, 8e-6, 1e-9]))    # a genuine change below np.isclose's default tolerances
            elif c < 0.3: v = float('%.4g' % (10 ** rng.uniform(-10, -8)))                                   # tiny absolute spacings
            else: v = gen_spacing(rng)
            last[k] = v; last['dk' if k == 'dr' else 'dr'] = None
        ops.append([k, v])
    case['ops'] = ops; case['decoy'] = rng.random() < 0.4
    return case

def cur_len(case):
    L = case['L']
    for k, v in case['ops']:
        if k == 'length': L = int(v)
    return L

def generate(ctx):
    rng = ctx.rng
    maxL = ctx.n(64, 300); maxops = ctx.n(8, 30)
    # constructor decision table
    for dr, dk in ((None, None), (0.1, 0.2), (0.1, None), (None, 0.1)):
        case = {'L': 16, 'dr': dr, 'dk': dk, 'ops': []}
        ctx.case('setters', case, True, tags=['ctor:%s%s' % ('dr' if dr else '-', 'dk' if dk else '-')]); suite_setters(ctx, case)
    # the finding-F1 / F2 witnesses are part of every run
    for case in ({'L': 100, 'dr': 0.1, 'ops': [['length', 200]]}, {'L': 7, 'dr': 0.3, 'ops': []}, {'L': 10, 'dk': 0.7, 'ops': [['length', 9], ['dr', 0.3]]}):
        ctx.case('setters', case, True, tags=['witness']); suite_setters(ctx, case)
        tc = dict(case, akind='normal', aseed=1); ctx.case('transform', tc, True, tags=['witness']); suite_transform(ctx, tc)
    for _ in range(ctx.n(250, 8000)):
        case = gen_dom(rng, maxL, maxops)
        nt = bool(case['ops']) or (case['L'] & (case['L'] - 1)) != 0
        ctx.case('setters', case, nt, tags=['from:' + ('dr' if 'dr' in case else 'dk'), 'nops:%d' % min(len(case['ops']), 5)] +
                 ['op:' + k for k, _ in case['ops'][:6]])
        suite_setters(ctx, case)
    for _ in range(ctx.n(150, 5000)):
        case = gen_dom(rng, min(maxL, ctx.n(48, 160)), 4)
        case['akind'] = rng.choice(['normal', 'normal', 'spike', 'smooth', 'wide', 'ones', 'int', 'bool']); case['aseed'] = rng.randrange(10 ** 6)
        case['a'] = float('%.4g' % rng.uniform(-3, 3)); case['decoy'] = rng.random() < 0.5
        case['stack'] = rng.choice([0, 0, 1, 2, 3]); case['glue'] = rng.random() < 0.3
        L = cur_len(case)
        ctx.case('transform', case, True, tags=['akind:' + case['akind'], 'L<=%d' % (16 * ((L + 15) // 16)), 'hist' if case['ops'] else 'nohist'])
        suite_transform(ctx, case)
    for _ in range(ctx.n(30, 200)):
        case = {'L': gen_len(rng, ctx.n(64, 256)), 'akind': rng.choice(['normal', 'spike', 'smooth']), 'aseed': rng.randrange(10 ** 6)}
        ctx.case('dst', case, True, tags=['dst']); suite_dst(ctx, case)
    for _ in range(ctx.n(80, 3000)):
        case = gen_dom(rng, ctx.n(24, 64), 0)
        case['rank'] = rng.randint(1, 4); case['sp'] = rng.choice(['R', 'R', 'F', 'F', 'N']); case['aseed'] = rng.randrange(10 ** 6)
        case['dirs'] = [rng.choice(['F', 'R', 'FR', 'RF', 'FF', 'RR', 'FRF', 'RFR'])]
        case['layout'] = rng.choice(['C', 'C', 'F', 'T', 'sub'])
        case['zero'] = rng.random() < 0.15
        case['mkind'] = rng.choice(['plain', 'plain', 'identity']); case['fill'] = rng.choice(['assign', 'inplace']); case['reassign'] = rng.random() < 0.3; case['failed_first'] = rng.random() < 0.3
        # type labels: default letters, a permutation of them, or other names (several arrays of one rank with different labels in one process)
        case['types'] = rng.choice([None, None, rng.sample(['A', 'B', 'C', 'D'][:case['rank']], case['rank']), ['poly', 'B', 'solvent', 'D4'][:case['rank']],
                                    [1, 0, 3, 2][:case['rank']] if case['rank'] != 3 else [2, 0, 1], [10, 20, 30, 40][:case['rank']], [1, 2, 3, 4][:case['rank']]])      # integer labels that are not their positions
        ctx.case('ma', case, True, tags=['zero' if case['zero'] else 'nonzero', 'kind:' + case['mkind'], 'reassigned' if case['reassign'] else 'fresh', 'rank:%d' % case['rank'], 'sp:' + case['sp'], 'dirs:' + case['dirs'][0], 'layout:' + case['layout']])
        suite_ma(ctx, case)
