"""C13 — MatrixArray arithmetic matches per-matrix linear algebra without aliasing."""
import operator
from ..implenv import np, pyPRISM
from ..driver import f2h, fl, h2f
from pyPRISM.core.MatrixArray import MatrixArray
from pyPRISM.core.IdentityMatrixArray import IdentityMatrixArray
from pyPRISM.core.Space import Space

RULE = ("random op sequences over MatrixArray objects (rank 1-5, length 1-64 quick / thorough, every operator {+,-,*,/} x operand kind "
        "{MatrixArray same length, length-1 NonSpatial MatrixArray, scalar, (L,1,1) array, (n,n) array, (n,) vector (also with length == rank), (L,n,n) array, the scalar 1.0} x {in-place, out-of-place}, "
        "dot/@/@=, invert (in/out of place), get_copy, pair assignment/reading by type name incl. unknown names, all 9 space-flag pairs); after EVERY op "
        "all objects (shape, flag, data, np.shares_memory classes) are compared with the Lean heap model and with an independent per-matrix NumPy shadow; "
        "non-trivial = >= 3 ops incl. >= 1 in-place op and >= 2 live objects; distinct = distinct op list")
EXTRA_TRUSTED = ["np.linalg.inv is a parameter of the model (driver: Gauss-Jordan with partial pivoting); invert_spec assumes it returns an inverse",
                 "einsum/LAPACK rounding vs the model's left-to-right sums: compared with rtol 1e-11 (elementwise ops: bit-exact), inverses 1e-8*scale"]
ASSUMPTIONS = ["well-conditioned data (cond < 1e4 at every invert)", "operands of equal rank; right operand length equals the left one's or is 1"]
SP = {'R': Space.Real, 'F': Space.Fourier, 'N': Space.NonSpatial}
SPT = {Space.Real: 'R', Space.Fourier: 'F', Space.NonSpatial: 'N', None: 'N'}
OPS = {'add': (operator.add, operator.iadd), 'sub': (operator.sub, operator.isub),
       'mul': (operator.mul, operator.imul), 'div': (operator.truediv, operator.itruediv)}
NAMES = ['A', 'B', 'C', 'D', 'E']

def observe(objs):
    parts = []
    for k, o in enumerate(objs):
        a = next(k2 for k2 in range(k + 1) if np.shares_memory(objs[k2].data, o.data))
        parts.append('O%d %d %d %s a%d %s' % (k, o.length, o.rank, SPT[o.space], a, fl(o.data.reshape(-1))))
    return ' '.join(parts)

def rhs_py(objs, r, L, n):
    kind = r[0]
    if kind == 'obj': return objs[r[1]]
    if kind == 'scalar': return r[1]
    a = np.array(r[1], dtype=float)
    if kind == 'pp': return a.reshape((-1, 1, 1))
    if kind == 'pm': return a.reshape((n, n))
    if kind == 'vec': return a.reshape((n,))
    return a.reshape((L, n, n))

def rhs_line(r):
    if r[0] == 'obj': return 'obj %d' % r[1]
    if r[0] == 'scalar': return 'scalar ' + f2h(r[1])
    return r[0] + ' ' + fl(r[1])

def rhs_shadow(shadow, r, L, n):
    if r[0] == 'obj': return shadow[r[1]][0]
    if r[0] == 'scalar': return r[1]
    a = np.array(r[1], dtype=float)
    if r[0] == 'pp': return a.reshape((-1, 1, 1))
    if r[0] == 'pm': return a.reshape((n, n))
    if r[0] == 'vec': return a.reshape((n,))
    return a.reshape((L, n, n))

def space_ok(a, b):
    return a == b or a == 'N' or b == 'N'

def suite_ops(ctx, case):
    drv = ctx.drv; drv.ask('ma.reset')
    objs = []; shadow = []     # shadow: (data copy, space token)
    scale = 1.0
    for step, op in enumerate(case['ops']):
        sub = {'ops': case['ops'][:step + 1]}
        k = op['op']; impl_out = 'ok'; exp_refused = False; tol = 1e-11
        try:
            if k == 'new':
                L, n = op['L'], op['n']
                types = [NAMES[q] for q in op.get('perm', list(range(n)))]
                if op.get('identity'):
                    o = IdentityMatrixArray(length=L, rank=n, space=SP[op['sp']], types=types)
                    data = np.array([np.eye(n)] * L)
                else:
                    data = np.array(op['data'], dtype=float).reshape((L, n, n))
                    if op.get('zeros_then_fill'):
                        o = MatrixArray(length=L, rank=n, space=SP[op['sp']], types=types); o.data[:] = data
                    else:
                        arr_ = data.astype(int) if op.get('intdata') else data.copy()
                        lay_ = op.get('layout')          # the data in the memory layouts users hand over: Fortran order, transposed (rank, rank, length) table, block of a larger array
                        if lay_ == 'F': arr_ = np.asfortranarray(arr_)
                        elif lay_ == 'T': arr_ = np.ascontiguousarray(arr_.transpose(2, 1, 0)).T
                        elif lay_ == 'sub':
                            big_ = np.zeros((L, n + 1, n + 1), dtype=arr_.dtype); big_[:, :n, :n] = arr_; arr_ = big_[:, :n, :n]
                        o = MatrixArray(length=L, rank=n, data=arr_, space=SP[op['sp']], types=types)
                objs.append(o); shadow.append((data.copy(), op['sp']))
                line = 'ma.new %d %d %s %s' % (L, n, op['sp'], fl(data.reshape(-1)))
            elif k == 'binop':
                A = objs[op['k']]; L, n = A.length, A.rank
                if op['rhs'][0] == 'full': L = len(op['rhs'][1]) // (n * n)          # the right operand may span more grid points than a length-1 left one
                rhs = rhs_py(objs, op['rhs'], L, n)
                if op['rhs'][0] == 'obj':
                    exp_refused = not space_ok(shadow[op['k']][1], shadow[op['rhs'][1]][1])
                if op.get('shortleft') and op['inplace']: exp_refused = True
                line = 'ma.binop %s %d %d %s' % (op['f'], op['k'], 1 if op['inplace'] else 0, rhs_line(op['rhs']))
                sd = OPS[op['f']][0](shadow[op['k']][0], rhs_shadow(shadow, op['rhs'], L, n))
                if op['inplace']:
                    r = OPS[op['f']][1](A, rhs)
                    ctx.pred('ops', sub, r is A, 'in-place operator did not return self', key='C13:inplace-return')
                    shadow[op['k']] = (sd, shadow[op['k']][1])
                else:
                    r = OPS[op['f']][0](A, rhs)
                    objs.append(r); shadow.append((sd, shadow[op['k']][1]))
            elif k == 'dot':
                A, B = objs[op['k1']], objs[op['k2']]
                exp_refused = not space_ok(shadow[op['k1']][1], shadow[op['k2']][1])
                line = 'ma.dot %d %d %d' % (op['k1'], op['k2'], 1 if op['inplace'] else 0)
                sa, sb = shadow[op['k1']][0], shadow[op['k2']][0]
                sd = np.array([sa[l] @ sb[l] for l in range(sa.shape[0])])
                if op['inplace']:
                    r = operator.imatmul(A, B) if op.get('operator') else A.dot(B, inplace=True)
                    ctx.pred('ops', sub, r is A, 'in-place dot did not return self', key='C13:inplace-return')
                    shadow[op['k1']] = (sd, shadow[op['k1']][1])
                else:
                    r = (A @ B) if op.get('operator') else A.dot(B)
                    objs.append(r); shadow.append((sd, shadow[op['k1']][1]))
            elif k == 'invert':
                A = objs[op['k']]
                line = 'ma.inv %d %d' % (op['k'], 1 if op['inplace'] else 0)
                sa = shadow[op['k']][0]
                sd = np.array([np.linalg.inv(sa[l]) for l in range(sa.shape[0])])
                tol = 1e-8
                if op['inplace']:
                    r = A.invert(inplace=True)
                    ctx.pred('ops', sub, r is A, 'invert(inplace=True) did not return self', key='C13:inplace-return')
                    shadow[op['k']] = (sd, shadow[op['k']][1])
                else:
                    r = A.invert()
                    objs.append(r); shadow.append((sd, shadow[op['k']][1]))
                    # A.dot(A.invert()) is the identity
                    P = A.dot(r).data
                    okI = np.allclose(P, np.array([np.eye(A.rank)] * A.length), atol=1e-8)
                    ctx.pred('ops', sub, okI, 'A.dot(A.invert()) is not the identity', key='C13:invert')
            elif k == 'copy':
                r = objs[op['k']].get_copy(); objs.append(r); shadow.append((shadow[op['k']][0].copy(), shadow[op['k']][1]))
                line = 'ma.copy %d' % op['k']
            elif k == 'setpair':
                A = objs[op['k']]; n = A.rank
                nm = lambda i: A.types[i] if i < n else 'zz%d' % i
                exp_refused = op['i'] >= n or op['j'] >= n
                aug = op.get('aug') if not exp_refused else None
                newv = np.array(op['v'], dtype=float)
                if aug:      # augmented assignment / read-modify-write through the returned pair function: A[a,b] += v
                    oldv = shadow[op['k']][0][:, op['i'], op['j']]
                    newv = oldv + newv if aug in ('iadd', 'rmw') else oldv * newv
                line = 'ma.setpair %d %d %d %s' % (op['k'], op['i'], op['j'], fl(newv))
                if aug == 'iadd': A[nm(op['i']), nm(op['j'])] += np.array(op['v'], dtype=float)
                elif aug == 'imul': A[nm(op['i']), nm(op['j'])] *= np.array(op['v'], dtype=float)
                elif aug == 'rmw':
                    view = A[nm(op['i']), nm(op['j'])]; view += np.array(op['v'], dtype=float); A[nm(op['i']), nm(op['j'])] = view
                else: A[nm(op['i']), nm(op['j'])] = np.array(op['v'], dtype=float)
                sd = shadow[op['k']][0].copy(); sd[:, op['i'], op['j']] = newv; sd[:, op['j'], op['i']] = newv
                shadow[op['k']] = (sd, shadow[op['k']][1])
        except AssertionError:
            impl_out = 'ERR rejected'
        except ValueError:
            impl_out = 'ERR ValueError'
        mo = drv.ask(line)
        ctx.corr('ops', sub, mo, impl_out, what='outcome of op %d (%s)' % (step, k))
        refused = impl_out != 'ok'
        what = 'op %d (%s): refused=%s but the space/type rule says refused=%s' % (step, k, refused, exp_refused)
        if k == 'setpair' and exp_refused:
            ctx.pred('ops', sub, impl_out == 'ERR ValueError', 'unknown type name did not raise ValueError', key='C13:unknown-type')
        else:
            ctx.pred('ops', sub, refused == exp_refused, what, key='C13:space-rule')
        # --- everything observable, after every op
        scale = max([1.0] + [float(np.max(np.abs(o.data))) for o in objs if np.all(np.isfinite(o.data))])
        ctx.corr('ops', sub, drv.ask('ma.obs'), observe(objs), rtol=tol, scale=scale, what='all objects after op %d (%s)' % (step, k))
        ok = len(objs) == len(shadow); why = 'object count'
        for kk, (o, (sd, sp)) in enumerate(zip(objs, shadow)):
            if o.data.shape != sd.shape or SPT[o.space] != sp or (o.length, o.rank) != sd.shape[:2]:
                ok = False; why = 'object %d: shape/space %s %s vs %s %s' % (kk, o.data.shape, SPT[o.space], sd.shape, sp); break
            if not np.allclose(o.data, sd, rtol=tol, atol=tol * scale, equal_nan=True):
                ok = False; why = 'object %d differs from the per-matrix NumPy reference by %.3g' % (kk, float(np.max(np.abs(o.data - sd)))); break
            for k2 in range(kk):
                if np.shares_memory(o.data, objs[k2].data):
                    ok = False; why = 'objects %d and %d share memory' % (k2, kk)
        ctx.pred('ops', sub, ok, 'after op %d (%s): %s' % (step, k, why), key='C13:per-matrix-algebra')
        if not ok: return
        # reading by type names, either order
        if objs and k in ('setpair', 'binop', 'dot') and impl_out == 'ok':
            A = objs[-1] if k != 'setpair' else objs[op['k']]
            n = A.rank; i, j = (op.get('i', 0) % n, op.get('j', n - 1) % n)
            g1 = A[A.types[i], A.types[j]]; kk = objs.index(A)
            ctx.corr('ops', sub, drv.ask('ma.getpair %d %d %d' % (kk, i, j)), fl(g1), rtol=tol, scale=scale, what='A[a,b]')
            sym = k != 'setpair' or np.array_equal(A[A.types[j], A.types[i]], g1)
            ctx.pred('ops', sub, sym, 'A[a,b] != A[b,a] after assignment', key='C13:setitem-symmetric')
    # integers are not type names (unless the type list contains them): a position used as a key is an unknown type
    if objs:
        A = objs[0]
        for key in (0, np.int64(A.rank - 1)):
            before = A.data.copy()
            try:
                A[key, A.types[0]]; r1 = 'no error'
            except ValueError:
                r1 = 'ERR ValueError'
            except Exception as e:
                r1 = 'raised ' + type(e).__name__
            try:
                A[A.types[0], key] = np.zeros(A.length); r2 = 'no error'
            except ValueError:
                r2 = 'ERR ValueError'
            except Exception as e:
                r2 = 'raised ' + type(e).__name__
            ctx.pred('ops', {'ops': case['ops'], 'read': 'intkey'}, r1 == 'ERR ValueError' and r2 == 'ERR ValueError' and bool(np.array_equal(A.data, before, equal_nan=True)),
                     'an integer position used as a type name: read -> %s, assignment -> %s (ValueError expected, nothing written)' % (r1, r2), key='C13:unknown-type')
    # unknown type on read
    if objs:
        A = objs[0]
        try:
            A['nope', A.types[0]]; r = 'no error'
        except ValueError:
            r = 'ERR ValueError'
        ctx.corr('ops', {'ops': case['ops'], 'read': 'unknown'}, drv.ask('ma.getpair 0 %d 0' % (A.rank + 3)), r)
        ctx.pred('ops', {'ops': case['ops'], 'read': 'unknown'}, r == 'ERR ValueError', 'reading an unknown type did not raise ValueError', key='C13:unknown-type')

SUITES = {'ops': suite_ops}

def rnd_matrix(rng, L, n):
    d = []
    for l in range(L):
        for i in range(n):
            for j in range(n):
                d.append(round((2.0 + rng.random() if i == j else 0.0) + rng.uniform(-0.4, 0.4), 6))
    return d

def gen_case(rng, max_ops, maxL):
    n = rng.choice([1, 2, 2, 3, 3, 4, 5]); L = rng.choice([1, 2, 3, 5, 8, n, n, rng.randint(1, maxL)])     # length == rank is a broadcasting trap
    ops = []; meta = []     # meta: (L, space, cond_ok)
    def new(L_, sp=None, identity=False):
        sp = sp or rng.choice(['R', 'F', 'N'])
        o = {'op': 'new', 'L': L_, 'n': n, 'sp': sp}
        if rng.random() < 0.4: o['perm'] = rng.sample(range(n), n)      # this object's type labels are a permutation of the others'
        if identity: o['identity'] = True
        else:
            o['data'] = rnd_matrix(rng, L_, n); o['zeros_then_fill'] = rng.random() < 0.3
            if not o['zeros_then_fill']: o['layout'] = rng.choice(['C', 'C', 'F', 'T', 'sub'])
        ops.append(o); meta.append([L_, sp, 0, identity])
    new(L); new(L, sp=rng.choice([meta[0][1], meta[0][1], 'R', 'F', 'N']))
    if rng.random() < 0.6: new(1, sp=rng.choice(['N', 'N', 'R', 'F']))      # length-1 operands (density-like), in every space
    if rng.random() < 0.3: new(L, identity=True)
    for _ in range(rng.randint(1, max_ops)):
        full = [i for i, m in enumerate(meta) if m[0] == L]
        k = rng.choice(full)
        c = rng.choice(['binop', 'binop', 'binop', 'dot', 'invert', 'copy', 'setpair'])
        if c == 'binop':
            f = rng.choice(['add', 'sub', 'mul', 'div'])
            kind = rng.choice(['obj', 'obj', 'scalar', 'scalar', 'pp', 'pm', 'vec', 'full'])
            if kind == 'obj': rhs = ['obj', rng.randrange(len(meta))]
            elif kind == 'scalar': rhs = ['scalar', rng.choice([1.0, 1.0, round(rng.uniform(0.5, 3.0), 4), round(rng.uniform(0.5, 3.0), 4)])]
            elif kind == 'vec': rhs = ['vec', [round(rng.uniform(0.5, 2.0), 4) for _ in range(n)]]
            elif kind == 'pp': rhs = ['pp', [round(rng.uniform(0.5, 2.0), 4) for _ in range(L)]]
            elif kind == 'pm': rhs = ['pm', [round(rng.uniform(0.5, 2.0), 4) for _ in range(n * n)]]
            else: rhs = ['full', [round(rng.uniform(0.5, 2.0), 4) for _ in range(L * n * n)]]
            if f == 'div' and rhs[0] == 'obj' and (meta[rhs[1]][2] > 0 or meta[rhs[1]][3]): f = 'mul'   # avoid dividing by processed (maybe tiny) data
            inplace = rng.random() < 0.5
            ops.append({'op': 'binop', 'f': f, 'k': k, 'rhs': rhs, 'inplace': inplace})
            refused = rhs[0] == 'obj' and not space_ok(meta[k][1], meta[rhs[1]][1])
            if not refused:
                if inplace: meta[k][2] += 1
                else: meta.append([L, meta[k][1], meta[k][2] + 1, False])
        elif c == 'dot':
            k2 = rng.choice(full); inplace = rng.random() < 0.4
            ops.append({'op': 'dot', 'k1': k, 'k2': k2, 'inplace': inplace, 'operator': rng.random() < 0.4})
            if space_ok(meta[k][1], meta[k2][1]):
                if inplace: meta[k][2] += 1
                else: meta.append([L, meta[k][1], meta[k][2] + meta[k2][2] + 1, False])
        elif c == 'invert':
            fresh = [i for i in full if meta[i][2] == 0]
            if not fresh: continue
            k = rng.choice(fresh); inplace = rng.random() < 0.4
            ops.append({'op': 'invert', 'k': k, 'inplace': inplace})
            if inplace: meta[k][2] += 1
            else: meta.append([L, meta[k][1], 1])
        elif c == 'copy':
            ops.append({'op': 'copy', 'k': k}); meta.append(list(meta[k]))
        else:
            i, j = rng.randrange(n), rng.randrange(n)
            if rng.random() < 0.1: i = n + rng.randrange(2)
            ops.append({'op': 'setpair', 'k': k, 'i': i, 'j': j, 'v': [round(rng.uniform(-1, 1), 5) for _ in range(L)], 'aug': rng.choice([None, None, 'iadd', 'imul', 'rmw'])})
            if i < n: meta[k][2] += 1
    return {'ops': ops}

def gen_int_case(rng):
    """integer-typed storage (a MatrixArray built from an integer array): invert / dot / copy must still be the per-matrix operations"""
    n = rng.choice([1, 2, 3, 4]); L = rng.choice([1, 2, 3, 5])
    sp = rng.choice(['R', 'F', 'N'])
    idata = [float(3 if (q // n) % n == q % n else (q * 7 + L) % 2) for q in range(L * n * n)]
    ops = [{'op': 'new', 'L': L, 'n': n, 'sp': sp, 'data': idata, 'intdata': True, 'zeros_then_fill': False},
           {'op': 'new', 'L': L, 'n': n, 'sp': sp, 'data': rnd_matrix(rng, L, n), 'zeros_then_fill': False}]
    for _ in range(rng.randint(1, 3)):
        k = rng.choice(['invert', 'invert', 'dot', 'copy', 'binop'])
        if k == 'invert': ops.append({'op': 'invert', 'k': 0, 'inplace': False})
        elif k == 'dot': ops.append({'op': 'dot', 'k1': rng.choice([0, 1]), 'k2': rng.choice([0, 1]), 'inplace': False, 'operator': rng.random() < 0.5})
        elif k == 'copy': ops.append({'op': 'copy', 'k': 0})
        else: ops.append({'op': 'binop', 'f': rng.choice(['add', 'mul', 'sub']), 'k': 0, 'rhs': ['scalar', rng.choice([0.5, 2.5])], 'inplace': False})
    if rng.random() < 0.5: ops.append({'op': 'invert', 'k': 0, 'inplace': True})
    return {'ops': ops}

def gen_shortleft_case(rng):
    """the short operand on the LEFT (rho.pair * H): out of place the result is the broadcast over the grid, in place numpy refuses"""
    n = rng.choice([1, 2, 3]); L = rng.choice([2, 3, 5, 8])
    spL = rng.choice(['R', 'F', 'N']); spS = rng.choice(['N', 'N', spL])
    ops = [{'op': 'new', 'L': 1, 'n': n, 'sp': spS, 'data': rnd_matrix(rng, 1, n), 'zeros_then_fill': False},
           {'op': 'new', 'L': L, 'n': n, 'sp': spL, 'data': rnd_matrix(rng, L, n), 'zeros_then_fill': False}]
    for _ in range(rng.randint(1, 3)):
        kind = rng.choice(['obj', 'pp', 'full'])
        rhs = ['obj', 1] if kind == 'obj' else (['pp', [round(rng.uniform(0.5, 2.0), 4) for _ in range(L)]] if kind == 'pp' else ['full', [round(rng.uniform(0.5, 2.0), 4) for _ in range(L * n * n)]])
        ops.append({'op': 'binop', 'f': rng.choice(['add', 'sub', 'mul', 'div']), 'k': 0, 'rhs': rhs, 'inplace': rng.random() < 0.3, 'shortleft': True})
    return {'ops': ops}

def gen_tinydiv_case(rng):
    """division by (and of) very small but non-zero numbers (pair densities of dilute species are ~1e-12): no clamping, no floor"""
    n = rng.choice([1, 2, 3]); L = rng.choice([1, 2, 4])
    sc = 10 ** rng.uniform(-14, -9)
    ops = [{'op': 'new', 'L': L, 'n': n, 'sp': 'F', 'data': rnd_matrix(rng, L, n), 'zeros_then_fill': False},
           {'op': 'new', 'L': 1, 'n': n, 'sp': 'N', 'data': [abs(x) * sc + sc for x in rnd_matrix(rng, 1, n)], 'zeros_then_fill': False},
           {'op': 'new', 'L': L, 'n': n, 'sp': 'F', 'data': [x * sc for x in rnd_matrix(rng, L, n)], 'zeros_then_fill': False}]
    ops.append({'op': 'binop', 'f': 'div', 'k': 0, 'rhs': ['obj', 1], 'inplace': rng.random() < 0.5})
    ops.append({'op': 'binop', 'f': 'div', 'k': 2, 'rhs': rng.choice([['obj', 1], ['scalar', sc], ['pm', [sc * (1 + q) for q in range(n * n)]]]), 'inplace': rng.random() < 0.5})
    ops.append({'op': 'binop', 'f': 'mul', 'k': 0, 'rhs': ['obj', 1], 'inplace': False})
    return {'ops': ops}

def gen_identity_case(rng):
    """the way PRISM.cost uses it: an IdentityMatrixArray that is changed (in place or not) and then inverted"""
    n = rng.choice([1, 2, 3, 4]); L = rng.choice([1, 2, 3, 5, 8])
    sp = rng.choice(['R', 'F', 'N'])
    ops = [{'op': 'new', 'L': L, 'n': n, 'sp': sp, 'identity': True},
           {'op': 'new', 'L': L, 'n': n, 'sp': sp, 'data': [round(x * 0.2, 5) for x in rnd_matrix(rng, L, n)], 'zeros_then_fill': False}]
    for _ in range(rng.randint(1, 3)):
        k = rng.choice(['scale', 'sub', 'add', 'div'])
        if k == 'scale': ops.append({'op': 'binop', 'f': 'mul', 'k': 0, 'rhs': ['scalar', rng.choice([4.0, 0.5, 2.5])], 'inplace': True})
        elif k == 'div': ops.append({'op': 'binop', 'f': 'div', 'k': 0, 'rhs': ['scalar', rng.choice([4.0, 0.5, 2.5])], 'inplace': True})
        elif k == 'sub': ops.append({'op': 'binop', 'f': 'sub', 'k': 0, 'rhs': ['obj', 1], 'inplace': rng.random() < 0.7})
        else: ops.append({'op': 'binop', 'f': 'add', 'k': 0, 'rhs': ['pm', [round(rng.uniform(0.0, 0.1), 4) for _ in range(n * n)]], 'inplace': True})
    live = 2 + sum(1 for o in ops[2:] if not o['inplace'])
    ops.append({'op': 'invert', 'k': rng.choice([0, live - 1]), 'inplace': rng.random() < 0.5})
    return {'ops': ops}

def gen_tinyinv_case(rng):
    """well-conditioned matrices whose ENTRIES are small (1e-3 .. 1e-8: determinants far below any absolute threshold) or large,
    inverted in and out of place and multiplied with their inverse"""
    n = rng.choice([1, 2, 3, 4, 5]); L = rng.choice([1, 2, 4])
    sc = 10 ** rng.choice([-3, -4, -5, -6, -7, -8, 3, 5])
    data = [float('%.6g' % (v * sc)) for v in rnd_matrix(rng, L, n)]
    ops = [{'op': 'new', 'L': L, 'n': n, 'sp': rng.choice(['R', 'F', 'N']), 'data': data}]
    ops.append({'op': 'invert', 'k': 0, 'inplace': False})
    ops.append({'op': 'copy', 'k': 0})
    ops.append({'op': 'invert', 'k': 2, 'inplace': True})
    return {'ops': ops}

def generate(ctx):
    max_ops = ctx.n(10, 30); maxL = ctx.n(16, 64)
    for q in range(ctx.n(250, 3000)):
        c = gen_tinyinv_case(ctx.rng) if q % 12 == 7 else gen_identity_case(ctx.rng) if q % 6 == 5 else (gen_int_case(ctx.rng) if q % 12 == 3 else (gen_shortleft_case(ctx.rng) if q % 12 == 9 else (gen_tinydiv_case(ctx.rng) if q % 12 == 1 else gen_case(ctx.rng, max_ops, maxL))))
        kinds = [o['op'] for o in c['ops']]
        nontriv = len(c['ops']) >= 5 and any(o.get('inplace') for o in c['ops'])
        tags = ['rank=%d' % c['ops'][0]['n']]
        for o in c['ops']:
            t = o['op']
            if t == 'binop': t = 'binop:%s/%s/%s' % (o['f'], o['rhs'][0], 'in' if o['inplace'] else 'out')
            elif t in ('dot', 'invert'): t = '%s/%s' % (t, 'in' if o['inplace'] else 'out')
            tags.append('op:' + t)
        ctx.case('ops', c, nontriv, tags=tags)
        suite_ops(ctx, c)
