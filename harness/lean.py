"""Lean stage: build, textual scan, axiom audit (and leanchecker in the thorough tier)."""
import os, re, subprocess, glob, time
from .paths import LEAN

ALLOWED_AXIOMS = {'propext', 'Classical.choice', 'Quot.sound'}
FORBIDDEN = re.compile(r'\bsorry\b|\badmit\b|^\s*axiom\s|\bnative_decide\b|\bbv_decide\b|'
                       r'\bimplemented_by\b|\bunsafe\s|maxHeartbeats\s+0\b', re.M)

def strip_comments(src):
    out = []; i = 0; depth = 0; n = len(src)
    while i < n:
        if src.startswith('/-', i):
            depth += 1; i += 2; continue
        if depth and src.startswith('-/', i):
            depth -= 1; i += 2; continue
        if depth:
            if src[i] == '\n': out.append('\n')
            i += 1; continue
        if src.startswith('--', i):
            j = src.find('\n', i)
            i = n if j < 0 else j
            continue
        if src[i] == '"':
            j = i + 1
            while j < n and src[j] != '"':
                j += 2 if src[j] == '\\' else 1
            out.append('""'); i = j + 1; continue
        out.append(src[i]); i += 1
    return ''.join(out)

def scan():
    hits = []
    for f in sorted(glob.glob(os.path.join(LEAN, '**', '*.lean'), recursive=True)):
        if os.sep + '.lake' + os.sep in f or os.sep + '.audit' + os.sep in f:
            continue
        body = strip_comments(open(f).read())
        for m in FORBIDDEN.finditer(body):
            line = body.count('\n', 0, m.start()) + 1
            hits.append('%s:%d:%s' % (os.path.relpath(f, LEAN), line, m.group(0).strip()))
    return hits

def theorems_of(prop):
    """Property theorems = every `theorem` in lean/Proofs/Props/<prop>.lean (namespace aware)."""
    path = os.path.join(LEAN, 'Proofs', 'Props', prop + '.lean')
    if not os.path.exists(path):
        return []
    body = strip_comments(open(path).read())
    ns = []; names = []
    for line in body.split('\n'):
        m = re.match(r'\s*namespace\s+(\S+)', line)
        if m: ns.append(m.group(1)); continue
        m = re.match(r'\s*end\s+(\S+)\s*$', line)
        if m and ns and ns[-1] == m.group(1): ns.pop(); continue
        m = re.match(r'\s*(?:@\[[^\]]*\]\s*)?(?:private\s+|protected\s+)?theorem\s+(\S+)', line)
        if m:
            names.append('.'.join(ns + [m.group(1)]))
    return names

def run(cmd, timeout):
    t0 = time.time()
    p = subprocess.run(cmd, cwd=LEAN, shell=True, stdout=subprocess.PIPE, stderr=subprocess.STDOUT,
                       text=True, timeout=timeout)
    return p.returncode, p.stdout, time.time() - t0

def lean_stage(prop, tier):
    """The Lean stage, repeated once if it fails: several checks may run at the same time on one machine (lake builds into one
    directory), and a proof that really is broken fails twice."""
    res = lean_stage_once(prop, tier)
    if not res['ok']:
        time.sleep(3.0)
        first = res
        res = lean_stage_once(prop, tier)
        res['log'].insert(0, 'first attempt failed (%s); repeated' % '; '.join(x[:80] for x in first['failed'][:2]))
    return res

def locked_build(build):
    """lake builds serialised across concurrently running checks (advisory lock next to the package)"""
    import fcntl
    with open(os.path.join(LEAN, '.verif-build.lock'), 'w') as lk:
        fcntl.flock(lk, fcntl.LOCK_EX)
        try:
            return run(build, 3000)
        finally:
            fcntl.flock(lk, fcntl.LOCK_UN)

def lean_stage_once(prop, tier):
    """returns dict(ok, obligations, discharged, theorems, failed, checker_cmd, log, partial)"""
    res = dict(ok=True, obligations=0, discharged=0, theorems=[], failed=[], log=[], partial=[])
    mod = 'Proofs.Props.' + prop
    build = 'lake build Model driver ' + mod
    cmds = [build]
    rc, out, dt = locked_build(build)
    res['log'].append('build rc=%d %.1fs' % (rc, dt))
    if rc != 0:
        res['ok'] = False
        res['failed'].append('lake build: ' + out[-1500:])
    hits = scan()
    if hits:
        res['ok'] = False
        res['failed'].append('forbidden tokens: ' + '; '.join(hits[:10]))
    names = theorems_of(prop)
    res['theorems'] = names
    res['obligations'] = len(names)
    res['partial'] = [n for n in names if n.endswith('_partial')]
    if not names:
        res['ok'] = False
        res['failed'].append('no property theorems found for ' + prop)
    os.makedirs(os.path.join(LEAN, '.audit'), exist_ok=True)
    af = os.path.join(LEAN, '.audit', '%s.%d.lean' % (prop, os.getpid()))          # one file per process: checks of one property may run concurrently
    with open(af, 'w') as f:
        f.write('import %s\n' % mod)
        for n in names:
            f.write('#print axioms %s\n' % n)
    audit = 'lake env lean .audit/%s' % os.path.basename(af)
    # a stable copy for the command recorded in the evidence (replaced atomically; never read by a running check)
    with open(af + '.tmp', 'w') as f: f.write(open(af).read())
    os.replace(af + '.tmp', os.path.join(LEAN, '.audit', prop + '.lean'))
    cmds.append('lake env lean .audit/%s.lean' % prop)
    if rc == 0:
        try:
            rc2, out2, dt2 = run(audit, 1200)
        finally:
            try: os.unlink(af)
            except OSError: pass
        res['log'].append('audit rc=%d %.1fs' % (rc2, dt2))
        seen = {}
        for m in re.finditer(r"'([^']+)' depends on axioms: \[([^\]]*)\]", out2.replace('\n', ' ')):
            seen[m.group(1)] = {a.strip() for a in m.group(2).split(',') if a.strip()}
        for m in re.finditer(r"'([^']+)' does not depend on any axioms", out2):
            seen[m.group(1)] = set()
        for n in names:
            if n in seen and seen[n] <= ALLOWED_AXIOMS:
                res['discharged'] += 1
            else:
                res['ok'] = False
                res['failed'].append('theorem %s: %s' % (n, 'axioms %s' % sorted(seen[n]) if n in seen else 'not checked'))
        if rc2 != 0 and res['ok']:
            res['ok'] = False
            res['failed'].append('audit failed: ' + out2[-800:])
    if tier == 'thorough' and rc == 0:
        chk = 'lake env leanchecker ' + mod
        cmds.append(chk)
        try:
            rc3, out3, dt3 = run(chk, 1800)
            res['log'].append('leanchecker rc=%d %.1fs' % (rc3, dt3))
            if rc3 != 0:
                res['ok'] = False
                res['failed'].append('leanchecker: ' + out3[-800:])
        except subprocess.TimeoutExpired:
            res['log'].append('leanchecker timed out (not counted)')
    res['checker_cmd'] = 'cd lean && ' + ' && '.join(cmds)
    return res
