"""A few post-processing histories executed by an interpreter started with -O (assert statements removed): the library's results may
not depend on whether assertions are compiled in.  Run as a sub-process by the C06 check; prints one JSON line."""
import sys, os, json, copy
if __name__ == '__main__':
    sys.path.insert(0, os.path.dirname(os.path.dirname(os.path.abspath(__file__))))
    from harness.implenv import np, pyPRISM
    from harness.props import C06
    case = json.loads(sys.argv[1])
    out = {'optimized': not __debug__, 'failures': []}
    p = C06.make_object(case)
    if p is None:
        print(json.dumps(out)); sys.exit(0)
    pristine = copy.deepcopy(p); n = case['sys']['n']
    old = np.seterr(all='ignore')
    for step, op in enumerate(case['ops']):
        try:
            got = C06.do_op(p, op)
            ref = C06.do_op(copy.deepcopy(pristine), op)
        except Exception as e:
            out['failures'].append('%s raised %s' % (op, type(e).__name__)); break
        if got is None: continue
        a = C06.vals(got, n); b = C06.vals(ref, n)
        if op in ('pmf', 'solvP'):
            fin = np.isfinite(a[0]) & np.isfinite(b[0]); a = [a[0][fin]]; b = [b[0][fin]]
        ok, why = C06.same_vals(a, b, 1e-7, C06.noise_floor(pristine))
        if not ok: out['failures'].append('%s after %s: %s' % (op, case['ops'][:step], why)); break
    print(json.dumps(out))
