"""Regenerates MANIFEST.json from the table below (run by hand after editing)."""
import json, os, sys
HERE = os.path.dirname(os.path.dirname(os.path.abspath(__file__)))
BASE = "cd /repo && /venv/bin/python -m pytest -ra -q -p no:cacheprovider --timeout=900 --continue-on-collection-errors"
NOTE = ("Trusted: Lean 4.33 kernel with axioms {propext, Classical.choice, Quot.sound} (audited every run with #print axioms; "
        "no sorry/native_decide/bv_decide/user axioms - scanned every run); Mathlib v4.33; the hand-written Lean model is tied to /repo "
        "only by the differential correspondence check (sampled, generators and tolerances in DESIGN.md 2.4); theorems are over the reals, "
        "the code runs IEEE doubles; externals (SciPy DST/root, LAPACK inv, polyfit, allclose, loadtxt, deepcopy, pint) are modelled, not verified.")
CLAIMED = {
 'C15': ("Lean theorems by induction over arbitrary assignment histories (density_inv, diameter_inv, *_set_rho, *_check_iff, sphereVol_eq; setSigma_read / setSigma_frame / setSigma_overwritten_by_diameter for direct writes into the sigma table: read back from both orders, nothing else touched, replaced by the mean when one of the two diameters is assigned again) about a "
         "loop-for-loop model of Density/Diameter.__setitem__; the model is executed on Float by the driver and compared bit-exactly with the real "
         "objects after every op of random histories; the invariant is also evaluated directly on the implementation.",
         "4 C15", "Lean 4 proof (induction over op lists) + differential correspondence"),
 'C14': ("Lean refinement theorem (refines_abstract_map: for every finite op history the heap-level PairTable machine - deepcopy = fresh cell, "
         "in-place change = write through a reference, caller objects are cells - simulates the abstract symmetric map), with corollaries read_symmetric, "
         "broadcast_isolated, caller_mutation_invisible, setUnset_keeps_assigned (an assigned pair keeps referring to the very same object after setUnset), check_iff_unset, iterpairs_exact/sorted/nodup and the ValueTable map laws; the same model runs in the "
         "driver and is compared with real PairTables/ValueTables after every op of random histories incl. identity (`is`) probes, with string, integer (0 among them) and mixed type labels, list / tuple / array / one-shot-iterator keys; non-symmetric tables are probed for apply(inplace=False) isolation.",
         "4 C14", "Lean 4 proof (heap-level refinement by induction over op lists) + differential correspondence"),
 'C13': ("Lean theorems about the MatrixArray model: binop_pointwise/binop_ok_iff (every operator x operand kind incl. per-column vectors, element for element, incl. length-1 broadcast), binop_short_left (a length-1 LEFT operand out of place is stretched to the right operand's length; in place it is refused), "
         "dot_is_matrix_mul/dot_is_Matrix_mul (Mathlib Matrix product per grid point), invert_spec (identity, under the external inverse's specification), "
         "setPair_symmetric/getPair_either_order/unknown_type_error, space_rule (decision table), and at object level (explicit buffer store) reachable_inv "
         "(distinct objects never share a buffer, any op sequence), outOfPlace_fresh, inPlace_only_left, inplace_eq_outofplace, inplace_seq_eq_outofplace_seq, "
         "inPlace_rebind_frame; the model (with Gauss-Jordan for inv) runs in the driver and is compared after every op with the real objects (values, flags, "
         "np.shares_memory classes) and with a per-matrix NumPy shadow.",
         "4 C13", "Lean 4 proof (value-level algebra + object-store invariants by induction) + differential correspondence"),
 'C12': ("Lean theorems about the FromArray/FromFile model: allclose_iff (NumPy's documented test, exactly), fromArray_ok_iff, fromArray_verbatim, "
         "fromArray_wrong_length_rejected, fromArray_k_mismatch_rejected, fromFile_twocol_ok_iff, fromFile_verbatim, fromFile_wrong_length_rejected, and the negation "
         "witness shipped_single_row_accepted for the repaired defect F11; the model decides accept/reject and the returned values BITWISE against the real classes "
         "on random domains and k-grid relations incl. perturbations straddling the allclose threshold, both file layouts, single-row/single-value files.",
         "4 C12", "Lean 4 proof (decision logic stated outright) + bit-exact differential correspondence"),
 'C01': ("Lean theorems about a statement-for-statement model of System.createPRISM / PRISM.cost / solve (Model/Prism.lean), for EVERY x (hence every returned root; no convergence assumption), "
         "every rank, grid length, closure/potential/omega mix: prism_equation_of_cost (the arrays left by cost satisfy H = Omega C (Omega + H) exactly at every wavenumber where the external inverse "
         "inverted 1 - Omega C; kernel-checked matrix algebra), closure_relation_of_cost (stored c(r) = the pair's own closure of gamma_in, gamma_out = h - c via the DST inverse theorem and linearity, "
         "y = r(gamma_out - gamma_in)), closure_residual_bound (|c - closure(h-c)| <= K |y|/r for the closure's local Lipschitz constant K) with slope_core / slope_py (equality) / slope_msa (0) / "
         "slope_hnc (mean-value bound), cost_total (no evaluation raises on a well-formed object), cost_overwrites / cost_trace_last / solve_leaves_returned_root (whatever the root finder evaluated before, "
         "the state after solve is cost(x_last) then totalCorr -> real; 'last evaluated = returned' is the one oracle assumption, sampled for six scipy methods), invOn_satisfiable (non-vacuity). "
         "The model runs in the driver (Gauss-Jordan for inv) and is compared with createPRISM wiring, cost(x) and the post-solve state of the real code; PRISM-equation and closure residuals are "
         "evaluated on the implementation from public attributes only.",
         "4 C01", "Lean 4 proof (matrix algebra, DST inverse, mean-value theorem, induction over evaluation traces) + differential correspondence"),
 'C02': ("PARTIAL. The full statement (the numerically solved g, S, c converge to the Wertheim-Thiele / dilute-limit functions with an error <= const*dr) is NOT proved: it needs a stability analysis of the "
         "discretised non-linear integral equation for which Mathlib has no theory; that part is validated numerically. Proved (Lean, all named ..._partial): rank1_oz_partial and rank1_from_cost_partial (what a "
         "one-component cost evaluation stores satisfies h(1 - rho omega c) = omega c omega, S(1 - rho omega c) = omega: pins site vs pair density and the sign conventions of c and gamma), "
         "dilute_fixed_point_partial / dilute_gamma_zero_partial (Filter.Tendsto as rho -> 0: gamma = 0 is the fixed point), dilute_gamma_order_rho_partial (|h - c| <= 2 rho c^2 for rho|c| <= 1/2: the self-consistency function at gamma = 0 is O(rho), checked on the implementation for densities down to 1e-20), dilute_closures_partial (there g = e^{-u/kT} for PY/HNC, 1 - u/kT for MSA, 0 inside a "
         "flagged core), b2_riemann_partial (the reported -h(k0)/2 is the Riemann sum of -2 pi Int f r^2 dr up to sin(k0 s)/(k0 s)), wertheim_contact_consistent_partial (-c(1^-) = (1+eta/2)/(1-eta)^2) and wertheim_compressibility_consistent_partial (1 - 24 eta Int_0^1 c r^2 dr = (1+2 eta)^2/(1-eta)^4 = 1/S(0), a "
         "kernel-checked interval integral): the reference values the harness compares against are mutually consistent. Validation runs on the implementation: PY hard spheres eta = 0.05..0.45 on refinement "
         "families (contact value, S(k), S(0), c(r) against the references evaluated by the Lean driver, |error| <= K(eta)*dr on every member), every shipped potential x {PY, HNC, MSA} in the dilute limit "
         "(g and second virial), and the rank-1 reduction after arbitrary cost(x) with model correspondence.",
         "4 C02", "Lean 4 proof of the algebraic/limit/reference-consistency parts (partial) + numerical validation runs of the convergence claim"),
 'C03': ("Lean theorems for EVERY evaluation of the self-consistency function (arbitrary x, other pairs, densities, omega all universally quantified): hardcore_flag_exact (c + gamma = -1 at every "
         "r <= sigma, all four closures), py_noflag_core / hnc_noflag_core / noflag_core_bound (without the flag the miss is exactly e^{-H/kT}(1+gamma) resp. e^{gamma-H/kT}), "
         "potential_core_agrees_with_closure_core, core_g_eq_residual (inside a flagged core the stored real-space c satisfies c + gamma_in = -1 and g = h+1 IS y/r; uses the DST inverse theorem), "
         "core_g_bound (|g| <= |y|/r), core_g_noflag_py / core_g_noflag_hnc (without the flag the stored g differs from y/r by exactly e^{-u}(1+gamma) resp. e^{gamma-u}), core_g_eq_residual_any (the mirrored entries j < i that the closure loop never visits). The float fact exp(-x)=0 for x>745 is outside the reals and sampled. The closure/cost model is compared with the real closures (gamma up to +-50, "
         "sigma on/off grid) and PRISM.cost on systems in which only some pairs have cores; c = -1-gamma bitwise, g = y/r after every cost(x), |g| <= |fun|/r on solved objects and core-follows-diameter on "
         "re-used Systems are evaluated on the implementation.",
         "4 C03", "Lean 4 proof (closure algebra + DST inverse through the cost model) + differential correspondence"),
 'C04': ("Lean theorems about the cost model itself (Model/Prism.lean), for every rank, grid and trial input: cost_perm_equivariant (for EVERY relabelling of the site types, symmetric x and omega: the directCorr, totalCorr "
         "and residual y a cost evaluation leaves on the relabelled object are the relabelled arrays of the original - so roots correspond), cost_split_lifts (for ANY number of labelled species with densities summing to rho and ANY "
         "symmetric Omega whose rows sum to rho_a omega - monatomic A/A' with any ratio, diblock halves with the 1/(N_A+N_B) cross convention - every labelled pair of the split system gets exactly the unsplit c, h and y for the lifted "
         "input), cost_ignores_kT / cost_energy_scaling with potential_homogeneous (all seven shipped potential kinds) and closure_input_invariant (U_s/(s kT) = U/kT), pmf_scales; supporting: matrix_map_perm, Hmap_symm, "
         "prism_solution_unique, cost_totalCorr_is_Hmap, split_lifts, monatomic_rows, closure_stage_local, transform_stage_local. The inverse used by the code is a parameter (hypothesis: it inverted 1 - Omega C). "
         "Metamorphic relations are evaluated on the implementation at the level of a single cost evaluation for arbitrary x (exact to rounding: all permutations, renaming incl. integer labels, splits into 2-3 species incl. "
         "tracer fractions and diblock halves next to a solvent, energy scale 1e-2..1e2 with kT via constructor or assignment) and on converged solves; the reformulated systems also go through the Lean model.",
         "4 C04", "Lean 4 proof (equivariance / lifting of the whole cost evaluation: matrix conjugation, block algebra, DST inverse, homogeneity) + metamorphic differential checks"),
 'C05': ("Lean theorems about a statement-for-statement model of the seven calculate functions (Model/Calculate.lean), for every rank, every flag value and arrays stored in either space: "
         "pair_correlation_def (h+1), pmf_def (-kT ln g, claimed where g > 0: Real.log is totalised; +inf at g = 0 and nan below are compared on the implementation), structure_factor_def (rho_pair h + Omega, /rho_site when normalised), second_virial_def, chi_def with chi_weights (linear in C with weights "
         "1/R : R : -2, prefactor independent of C) and chi_equal_volumes ((rho/2)(Caa+Cbb-2Cab)), spinodal_def with spinodal_is_det (the eight-term expression = det(1 - Omega C) of the pair's symmetric "
         "2x2 block, every pair a<b of any rank; Matrix.det_fin_two), solvation_def (-kT CSC / -kT ln(1+CSC) with S as returned by structure_factor; the PY form where 1+CSC > 0), extrapolate_is_quadratic (value at 0 of every quadratic "
         "through the three points) and extrap0_grid (= 3y0 - 3y1 + y2 on the Domain grid), sf_of_selfconsistent and sf_after_cost ((1 - Omega C) S = Omega for the structure factor returned after ANY cost evaluation), structure_factor_symmetric, pair_correlation_symmetric, (a,b) = (b,a) for the tables, "
         "chi_refused_rank_one, ensureFourier/ensureReal_total (no call is refused because of the space). The model is compared call by call with the real functions on rank 1-4 objects; an independent "
         "NumPy transcription of the definitions is evaluated on the implementation.",
         "4 C05", "Lean 4 proof (entry-wise definitions, 2x2 determinant, Lagrange interpolation) + differential correspondence"),
 'C06': ("Lean theorems: the only way a calculate call or a user transform changes the object is by moving one stored array to the other space (Step; pair_correlation/pmf/second_virial/chi/spinodal/"
         "structure_factor_steps, flip_is_step); such a move preserves the canonical (Fourier) form of every stored array (ensureFourier_canon, ensureReal_canon, roundtrip_RF/FR from the DST inverse "
         "theorems), hence so does EVERY finite history (history_preserves_canon, calls_preserve_canon - induction over ReflTransGen Step); what the formulas read is determined by the canonical form "
         "(ensureFourier_eq_canon, ensureReal_of_canon, reads_history_free), hence the returned values are the same for any two objects with the same canonical arrays: pair_correlation/pmf/second_virial/chi/spinodal/structure_factor_history_free; after solve the arrays are those of the last evaluated point "
         "(C01.solve_leaves_returned_root); solvation_steps; cost_eq_of_static and resolve_returns_same_state (a later solve whose last evaluation is again at x* leaves EXACTLY the same object, whatever "
         "happened in between - 'a root finder started on its own root evaluates last at that root' is the oracle assumption, sampled). Random call histories (<= 12 / <= 40 calls, 2-3 components, solved and hand-populated objects, re-solves) are run on the real object and on the model, comparing every return value, "
         "stored array and flag after every call, and every return value with the same call on a pristine copy.",
         "4 C06", "Lean 4 proof (state-machine invariant by induction over call histories) + differential correspondence"),
 'C07': ("Lean theorems about the Domain model, for EVERY length N >= 1, every non-zero spacing, every finite dr/dk/length setter history and every array: "
         "construct_ok_iff, reachable_fresh (induction over histories: the state equals the fresh Domain(length, dr) and dk*dr*length = pi), grid_size/grid_r/grid_k, "
         "toFourier_linear, toReal_linear, toReal_toFourier and toFourier_toReal (from the kernel-checked DST orthogonality relations: dst3(dst2 x) = dst2(dst3 x) = 2N x), "
         "maToFourier/maToReal_error_iff and _ok_iff (ValueError iff already in the target space), maToFourier/maToReal_spec (pairwise identical transform, symmetry, flag), ma_roundtrip; "
         "negation witness length_setter_stale for the repaired defect F1. The model is compared with real Domains after every setter of random histories, its direct DST sums with "
         "scipy.fftpack.dst and with to_fourier/to_real; freshness, grid shape, round trips, linearity and the MatrixArray clauses are evaluated on the implementation.",
         "4 C07", "Lean 4 proof (trigonometric orthogonality, induction over setter histories) + differential correspondence"),
 'C08': ("Lean theorems, for every length N >= 1 and every reachable Domain: toFourier_riemann and toReal_riemann (the transforms ARE the half-cell-offset Riemann sums of F(k) = (4 pi/k) Int f r sin(kr) dr and "
         "f(r) = (1/(2 pi^2 r)) Int F k sin(kr) dk, last k-term half weight: pins the two prefactors individually and the conjugate spacing dk = pi/(dr N)), toFourier_error_bound (for r f(r) continuous, bounded "
         "by M0 and M1-Lipschitz: |to_fourier(f)(k_j) - (4 pi/k_j) Int_0^rmax f r sin(k_j r) dr| <= (4 pi/k_j) rmax (M1 + M0 k_j/2) dr; via interval integrals, riemann_cell_bound, sine_quadrature_first_order), "
         "k_to_zero (Filter.Tendsto to the Riemann sum of the volume integral), toFourier_length_unit with scaleDom_inv (the same samples on a grid in another unit of length, spacing u dr and dk/u, transform to u^3 times the values: no absolute length enters), toReal_phase_bound (the half-cell offset of the backward transform costs at most dr/2 times the discrete moment (dk/(2 pi^2 r)) Sum k^2 |F|). PARTIAL: the k-quadrature/truncation part of the backward error and the closed-form transforms of the reference families are not proved (textbook "
         "references, used numerically). The Riemann-sum identities are evaluated on the implementation independently of scipy's DST for random arrays/domains/setter histories; the analytic families are run "
         "on refinement families dr, dr/2, dr/4 (incl. non-5-smooth lengths) with a first-order criterion forward, backward and at k -> 0.",
         "4 C08", "Lean 4 proof (Riemann-sum identities, interval-integral error bound, limit) + differential/analytic validation; partial (backward bound)"),
 'C09': ("Lean theorems about the closure model: py/hnc/msa/msA/msB_eq_published, core_branch (all closures, every r <= sigma), py/hnc/msa_linearises "
         "(|c+u| <= 2(gamma^2+u^2) on |gamma|,|u| <= 1/2), msA/msB_linearises (the two published Martynov-Sarkisov forms, |c+u| <= 12(gamma^2+u^2) on |gamma|,|u| <= 1/4), elementwise, closureAt_length_unit (distance and contact distance in another unit of length: same value), and for the shipped Martynov-Sarkisov expression ms_shipped_formula plus the negation witness "
         "ms_shipped_not_zero_at_zero (known finding F6, pinned by a baseline test); the model is compared with all 8 classes/aliases on the real grid with bit-exact masks; "
         "published relations, purity/element-wise probes and call HISTORIES (a closure object called repeatedly, also with its own previous output as gamma, must return what a fresh object returns and leave its arguments alone) are evaluated on the implementation.",
         "4 C09", "Lean 4 proof (algebraic laws, exp inequalities) + differential correspondence"),
 'C10': ("Lean theorems about the potential model: hardSphere/exponential/hclj_def, hard_core_set (one common core set {r <= sigma}), lj_def, lj_zero_beyond_cut, "
         "lj_cut_inside, lj_shifted_zero_at_cut, lj_shifted_continuous (ContinuousOn (0,inf)), wca_inside (= 4 eps ((sigma/r)^6 - 1/2)^2), wca_nonneg, wca_zero_beyond, "
         "wca_continuous, hardSphere/exponential/ljCore/lennardJones/hcLennardJones/wca_length_unit (every length - distance, sigma, range, cut-off - multiplied by u > 0: the same energy), contact_in_core_exact_real, and for the contact rule the negation witness contact_rule_exact_fails next to contact_in_core_tol (known finding F7); "
         "the model is compared with the five classes on real grids with bit-exact masks; documented u(r), cut/continuity/sign, sigma defaulting through createPRISM and the "
         "contact classification for sigma = every multiple of dr are evaluated on the implementation.",
         "4 C10", "Lean 4 proof (piecewise definitions, continuity, algebra) + differential correspondence"),
 'C11': ("Lean theorems about the omega model: closed_form_is_pair_sum (all N >= 1, E != 1), gaussian_E_pos_lt_one, fjc_E_lt_one, gaussian/fjc_is_pair_sum (every k > 0), "
         "omega_le_N, gaussian/fjc_le_N, gaussian_tendsto_N, gaussian_tendsto_one, fjc_tendsto_N (Filter.Tendsto), ring_is_pair_sum, ring_le_N, ring_at_zero, singleSite_one, "
         "noIntra_zero; PARTIAL for Koyama/NFJC (kernels are parameters): koyama_is_pair_sum_partial, koyama_le_N_partial, koyama_limit_values_partial, nfjc_is_pair_sum_partial, "
         "koyama_ctor_ok_iff / koyama_lpmin_pos / koyama_params_ok, koyama_lpmin_units / koyama_decisions_unit_free (the same chain in other units of length is accepted alike and takes the same bending-energy branch) (the constructor's accept/reject decision and the derived parameters of an accepted chain), and the negation witness koyama_shipped_limit for the repaired loop defect; float cancellation of the closed form at small k is outside the reals (known finding F10). "
         "The model is compared with every class/alias on log grids and real Domain k grids; the long-double pair sum, finiteness, <= N, limits, element-wise and ValueError "
         "predicates are evaluated on the implementation.",
         "4 C11", "Lean 4 proof (induction, geometric sums, limits) + differential correspondence; partial for Koyama/NFJC kernels"),
 'C16': ("Lean theorems, value level (Model/Prism.lean): check_iff_complete, createPRISM_error_iff (ValueError exactly when a density, diameter, potential, closure, omega or the domain is missing, and then "
         "nothing is built), snapshot_wiring (rank, kT, domain, per pair closure class/flag, closure sigma = Diameter table, potential sigma = own or default, closure.potential = U(r)/kT on the r grid, "
         "omega = omega(k) rho_site on the k grid, symmetric, Fourier), explicit_sigma_kept, sigma_table_override_used (a non-additive contact distance written into diameter.sigma[i,j] is the closure's core edge and the default potential sigma of that pair, every other pair keeps its value). Object level (Model/SysHeap.lean: potentials/closures are cells of an explicit store, PairTable assignment and deepcopy(sys) allocate, "
         "PRISM.__init__ writes only its copies): step_isolated, later_edits_do_not_reach_prism and reachable_inv (induction over ARBITRARY operation sequences: no cell owned by an existing PRISM object ever "
         "changes, System references and PRISM-owned cells stay disjoint), snapshot_wiring_values (with C15's invariants: closure sigma = (d_a+d_b)/2, omega scaled by rho_a / rho_a+rho_b), create_does_not_write_system (the System's meaning absSys is unchanged by createPRISM), sweep_equals_fresh (the PRISM created after any "
         "history is createPRISM of the System's current meaning), create_refused_iff, explicit_sigma_kept (an explicitly given sigma, also 0, is used as it is), create_cells_agree and prism_objects_always_agree (every PRISM object, at every moment of every history, holds in its private potential / closure objects exactly what its value-level state says, so what an existing object computes cannot change through later System operations), step_abs and history_refines_spec (REFINEMENT: under the abstraction absSys every store-level history is the corresponding history of the plain value-level System, for arbitrary operation lists), and the negation witness aliased_create_changes_system for the variant that iterates the caller's table. The store model "
         "runs in the driver and is compared after EVERY operation of random edit/create/solve histories with the hidden object state of the real System and of every PRISM object created so far (histories include in-place edits of the System's Domain object, one-statement group assignments, setUnset, ONE object assigned pair by pair, evaluations of the System's own omega objects by the user, several PRISM objects per System); every existing PRISM object must also evaluate its self-consistency function bit-identically after every later System operation; the wiring statement is also evaluated independently on every new PRISM object; after every converged solve the unedited System is solved a second time and must give the identical result and remain unchanged (no state carried from one solve to the next).",
         "4 C16", "Lean 4 proof (decision logic + object-store invariant by induction over operation histories) + differential correspondence"),
 'C17': ("Lean theorems at formula level (Model/UnitConv.lean): kelvin_formula/linear, celsius_offset (K - 273.15) and celsius_affine, inv_angstrom_formula/linear, inv_nanometer_is_ten_inv_angstrom, "
         "concentration_formula/linear (rho*/(d_c^3 N_A) in mol/L), volume_fraction_formula (rho* (4/3) pi (d/2)^3 = rho* pi d^3/6) and linear, elementwise. The Lean content is small and said to be small: "
         "pint's unit algebra, registry and constants are trusted and compared numerically on every run. Every documented method is called on scalars and arrays for random characteristic lengths/energies with "
         "up to 12 significant digits in every accepted unit string, with several converters alive in one process; result type, magnitude (formula model and independent textbook formula with the 2019 SI "
         "constants, rtol 1e-12), units/dimensionality, linearity/affinity and element-wise behaviour are evaluated on the implementation.",
         "4 C17", "Lean 4 proof (formula algebra, small) + differential correspondence with pint"),
 'C18': ("Lean theorems about the Debyer model (Model/Debyer.lean: _chunk, the row-per-thread accumulation, gather, rescale, frame average), over the reals for EVERY number of chunks, sites, molecules, frames and every box: "
         "chunk_rows_partition / chunk_rows_cover_once (the rows of _chunk(n, c) cover every index exactly once, also for c > n), chunk_refused_iff, gathered_eq, chunk_count_independent and debyer_chunk_count_independent "
         "(the result does not depend on the number of chunks), cross_is_debye_sum (1/(N_a+N_b) sum over intramolecular pairs of Mathlib's Real.sinc(k r)), self_is_debye_sum (1 + 1/N sum over i != j; the loops visit i < j and double) and "
         "self_is_full_double_sum (the i = j terms are the Kronecker delta), debyer_is_frame_average, cross/self_order_independent (any permutation of the sites), cross_swap_symmetric (omega_ab = omega_ba), frameOmega_length_unit with miComp/miDist/pairTerm_scale (coordinates and boxes x u, wavenumbers / u: every frame value unchanged - no absolute length, e.g. no coincidence threshold, enters), miComp_nearest_image (the folded separation is the distance to the NEAREST "
         "periodic image for every separation and box) with the negation witness miCompShipped_not_nearest and miComp_eq_shipped for the repaired rule; and for ANY scalar type (also the Float the driver executes): schedule_row, "
         "frameOmega_renameMol / debyer_renameMol (any injective renaming of the molecule labels - shifted beyond 2^31, hashed - leaves the executed result unchanged), schedule_independent, stream_gives_chunkAcc, any_interleaving_gives_chunkAcc (every interleaving of the per-chunk update streams leaves the model's chunk sums in the shared table: thread count and timing cannot change what is gathered). "
         "PARTIAL where the truth is in the runtime: float32 rounding is compared through an error bound computed from the terms, and the OpenMP runtime itself (a data race introduced by a code change) is outside any executable model; it is sampled with 1-8 "
         "threads, repetitions and chunk counts on every run. The extension is built from /repo's current Debyer.pyx on every run (cython + gcc -fopenmp into a scratch directory); results are compared with the Lean model on the same float32-rounded inputs and with an independent float64 Debye sum.",
         "4 C18", "Lean 4 proof (finite sums, partition of the index range, interleavings) + differential correspondence with the freshly built extension; partial for float32 rounding and the OpenMP runtime"),
}
NA = {
}
def main():
    props = [json.loads(l) for l in open(os.path.join(HERE, 'properties.jsonl'))]
    checks = []; na = []
    for p in props:
        pid = p['id']
        if pid in CLAIMED:
            text, ref, tech = CLAIMED[pid]
            checks.append({
                'property_id': pid,
                'quick_cmd': './vcheck %s --tier quick' % pid,
                'thorough_cmd': './vcheck %s --tier thorough' % pid,
                'evidence_file': 'evidence/%s.json' % pid,
                'replay_cmd_template': './vcheck %s --replay {path}' % pid,
                'engine': 'lean4-proof+correspondence',
                'level_claimed': {'category': 'proof', 'text': text, 'design_ref': 'DESIGN.md section ' + ref},
                'level_note': NOTE,
                'technique': tech})
        else:
            na.append({'property_id': pid, 'reason': NA.get(pid, 'check not built yet in this round (work in progress; see DESIGN.md section 7 build order)')})
    m = {'version': 1,
         'setup_cmd': 'cd lean && lake build Model Proofs driver',
         'hooks': {'guard': 'PYPRISM_VERIF', 'enable': 'env PYPRISM_VERIF=1 (set by ./vcheck; no source hook exists in /repo, every observable is reachable through the public API)',
                   'baseline_off_cmd': BASE, 'source_commits': [], 'add_only': True},
         'engines': [{'name': 'lean4-proof+correspondence', 'path': 'vcheck', 'serves_properties': sorted(CLAIMED),
                      'kind_free_text': 'Lean 4 theorems about a scalar-polymorphic executable model (lean/), tied to /repo by differential execution (harness/)'}],
         'checks': checks, 'not_applicable': na,
         'notes': 'See DESIGN.md. Fix commits in /repo are listed in known_findings.json (status fixed).'}
    json.dump(m, open(os.path.join(HERE, 'MANIFEST.json'), 'w'), indent=1)
    try:
        import jsonschema
        jsonschema.validate(m, json.load(open('/root/.vp/MANIFEST.schema.json')))
        print('MANIFEST.json valid; claimed:', sorted(CLAIMED))
    except ImportError:
        pass
if __name__ == '__main__':
    main()
