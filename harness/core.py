"""Context shared by all property modules: counters, comparators, failure records."""
import hashlib, json, math, random, time, collections
from .driver import Driver, is_hex, h2f, f2h

class Timeout(Exception):
    pass

def jhash(obj):
    return hashlib.sha1(json.dumps(obj, sort_keys=True, default=str).encode()).hexdigest()

def close(a, b, rtol, atol):
    if a == b:
        return True
    if math.isnan(a) and math.isnan(b):
        return True
    if math.isinf(a) or math.isinf(b) or math.isnan(a) or math.isnan(b):
        return False
    return abs(a - b) <= atol + rtol * max(abs(a), abs(b))

def cmp_tokens(model, impl, rtol=0.0, atol=0.0, scale=None, atols=None):
    """Compare two canonical lines token by token.  Hex-double tokens are compared with
    |a-b| <= atol + rtol*max(|a|,|b|) (+ rtol*scale when a common scale is given); everything
    else must be identical.  Returns None if equal, else a short description."""
    mt, it = model.split(), impl.split()
    if len(mt) != len(it):
        return 'token count %d (model) vs %d (impl)' % (len(mt), len(it))
    for n, (a, b) in enumerate(zip(mt, it)):
        if a == b:
            continue
        if is_hex(a) and is_hex(b):
            x, y = h2f(a), h2f(b)
            extra = rtol * scale if scale else 0.0
            if close(x, y, rtol, atol + extra + (atols[n] if atols is not None and n < len(atols) else 0.0)):
                continue
            return 'token %d: model %r vs impl %r' % (n, x, y)
        return 'token %d: model %s vs impl %s' % (n, a, b)
    return None

class Ctx:
    def __init__(self, prop, tier, seed, budget_s):
        self.prop, self.tier, self.seed = prop, tier, seed
        self.rng = random.Random(seed)
        self.t0 = time.time()
        self.deadline = self.t0 + budget_s
        self.evaluations = 0
        self.hashes = set()
        self.samples = []
        self.dist = collections.Counter()
        self.disagreements = []
        self.pred_failures = []
        self.fail_by_key = {}
        self.traces = 0
        self.pred_evals = 0
        self.validation_runs = 0
        self.notes = []
        self._drv = None
        self.sample_cap = 6
    # -- driver
    @property
    def drv(self):
        if self._drv is None:
            self._drv = Driver()
        return self._drv
    def close(self):
        if self._drv is not None:
            self._drv.close()
    # -- bookkeeping
    def quick(self):
        return self.tier == 'quick'
    def n(self, q, t):
        return q if self.tier == 'quick' else t
    def check_time(self):
        if time.time() > self.deadline:
            raise Timeout()
    def time_left(self):
        return self.deadline - time.time()
    def case(self, suite, case, nontrivial=True, tags=()):
        """register one generated case"""
        self.check_time()
        self.evaluations += 1
        self.dist['suite:' + suite] += 1
        for t in tags:
            self.dist[t] += 1
        if nontrivial:
            self.hashes.add(jhash([suite, case]))
        if len(self.samples) < self.sample_cap and not any(s['suite'] == suite for s in self.samples):
            self.samples.append({'suite': suite, 'case': case})
    def corr(self, suite, case, model, impl, rtol=0.0, atol=0.0, scale=None, what='', atols=None):
        """one correspondence comparison: canonical model line vs canonical impl line"""
        self.traces += 1
        d = cmp_tokens(model, impl, rtol, atol, scale, atols)
        if d is not None:
            self.dist['DISAGREE:' + suite] += 1
            if len(self.disagreements) < 50:
                self.disagreements.append({'suite': suite, 'case': case, 'what': what, 'diff': d,
                                           'model': model[:2000], 'impl': impl[:2000]})
            return False
        return True
    def pred(self, suite, case, ok, what, key=None, detail=None):
        """one evaluation of the property predicate on the implementation"""
        self.pred_evals += 1
        if not ok:
            self.dist['PREDFAIL:' + suite] += 1
            self.fail_by_key[key] = self.fail_by_key.get(key, 0) + 1
            if self.fail_by_key[key] <= 20:
                self.pred_failures.append({'suite': suite, 'case': case, 'what': what, 'key': key,
                                           'detail': detail})
        return ok
