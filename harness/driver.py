"""Line protocol to the native Lean driver (lean/.lake/build/bin/driver)."""
import struct, subprocess, math, os, select
from .paths import DRIVER

def f2h(x):
    return '%016x' % struct.unpack('<Q', struct.pack('<d', float(x)))[0]

def h2f(s):
    return struct.unpack('<d', struct.pack('<Q', int(s, 16)))[0]

def fl(xs):
    return ' '.join(f2h(x) for x in xs)

def is_hex(tok):
    return len(tok) == 16 and all(c in '0123456789abcdef' for c in tok)

class Driver:
    def __init__(self):
        self.p = subprocess.Popen([DRIVER], stdin=subprocess.PIPE, stdout=subprocess.PIPE,
                                  text=True, bufsize=1)
        self.lines = 0
        self.log = open(os.environ['VERIF_DRVLOG'], 'w') if os.environ.get('VERIF_DRVLOG') else None
    def ask(self, line):
        assert '\n' not in line
        if self.log: self.log.write(line + '\n'); self.log.flush()
        self.p.stdin.write(line + '\n')
        self.p.stdin.flush()
        # one answer line per request, so nothing is buffered here; a model that does not answer is reported, not waited for
        if not select.select([self.p.stdout], [], [], float(os.environ.get('VERIF_DRV_TIMEOUT', '300')))[0]:
            self.p.kill()
            raise RuntimeError('model driver gave no answer within the time limit on: ' + line[:200])
        out = self.p.stdout.readline()
        if not out:
            raise RuntimeError('driver died on: ' + line[:200])
        self.lines += 1
        return out.rstrip('\n')
    def ask_all(self, lines):
        return [self.ask(l) for l in lines]
    def floats(self, line):
        out = self.ask(line)
        return [h2f(t) for t in out.split()]
    def close(self):
        try:
            self.p.stdin.close(); self.p.wait(timeout=5)
        except Exception:
            self.p.kill()
