import Proofs.Lemmas.CostSpec
import Proofs.Props.C09
import Mathlib.Analysis.Calculus.MeanValue
import Mathlib.Analysis.SpecialFunctions.ExpDeriv
/-!
# C01 — Converged solutions satisfy the PRISM equation and every pair's closure

The theorems are about *every* evaluation `cost x` (hence about whatever `x*` a root finder
returns — no convergence assumption): the arrays the evaluation leaves on the object satisfy
the matrix PRISM equation exactly, and each pair's closure relation up to the residual `y`
times the closure's local slope.
-/
open Finset Real Matrix

namespace C01

variable {inv : ℕ → Array ℝ → Array ℝ} {p q : Prism ℝ} {x : Array ℝ}

/-- per-grid-point matrices of a MatrixArray -/
def mat (n : ℕ) (A : MA ℝ) (l : ℕ) : Matrix (Fin n) (Fin n) ℝ := Matrix.of fun i j => A.at l i.1 j.1

/-- the pair-density scaled total correlation `H_ab = ρ_a ρ_b h_ab` at one wavenumber -/
def matH (n : ℕ) (pairD h : MA ℝ) (l : ℕ) : Matrix (Fin n) (Fin n) ℝ :=
  Matrix.of fun i j => pairD.at 0 i.1 j.1 * h.at l i.1 j.1

/-- **PRISM equation.**  After any successful `cost x`, at every wavenumber `k_l` at which the
external inverse did invert `1 − Ω Ĉ` and the pair densities are non-zero, the stored arrays
satisfy `H = Ω Ĉ (Ω + H)` exactly, with `Ω` the stored (site-density scaled) ω and
`H = ρ_pair · totalCorr`. -/
theorem prism_equation_of_cost (w : PWf p) (hc : p.cost inv x = .ok q) {l : ℕ} (hl : l < p.dom.length)
    (hinv : InvOn inv p.n fun i j => (if i = j then 1 else 0) - ∑ k ∈ range p.n, p.omega.at l i k * q.directCorr.at l k j)
    (hρ : ∀ i j, i < p.n → j < p.n → p.pairD.at 0 i j ≠ 0) :
    matH p.n p.pairD q.totalCorr l
      = mat p.n p.omega l * mat p.n q.directCorr l * (mat p.n p.omega l + matH p.n p.pairD q.totalCorr l) := by
  obtain ⟨T⟩ := cost_trace inv p q x hc
  set n := p.n with hn
  -- the inverse hypothesis, transported to the matrix the code actually inverts
  have hflat : flatF n (T.ioc.at l) = flatF n (fun i j => (if i = j then 1 else 0) - ∑ k ∈ range n, p.omega.at l i k * q.directCorr.at l k j) := by
    apply flatF_congr; intro i j hi hj
    rw [T.ioc_at w hl hi hj, T.oc_at w hl hi hj, T.hq_c]
  have hM : mat n (T.ioc.invert inv) l * (1 - mat n p.omega l * mat n q.directCorr l) = 1 := by
    unfold InvOn at hinv
    convert hinv using 2
    · ext i j
      simp only [mat, Matrix.of_apply]
      rw [invert_at inv T.ioc (by rw [T.ioc_meta.1]; exact hl) (by rw [T.ioc_meta.2]; exact i.2) (by rw [T.ioc_meta.2]; exact j.2),
        T.ioc_meta.2, hflat]
    · ext i j
      simp only [mat, Matrix.sub_apply, Matrix.one_apply, Matrix.mul_apply, Matrix.of_apply, Fin.ext_iff, Finset.sum_range]
  -- the stored H is M (ΩC) Ω
  have hH : matH n p.pairD q.totalCorr l = mat n (T.ioc.invert inv) l * (mat n p.omega l * mat n q.directCorr l) * mat n p.omega l := by
    ext i j
    simp only [matH, mat, Matrix.mul_apply, Matrix.of_apply]
    rw [T.hq_h, T.h_at w hl i.2 j.2, mul_div_cancel₀ _ (hρ i j i.2 j.2), T.t2_at hl i.2 j.2, Finset.sum_range]
    apply Finset.sum_congr rfl; intro k _
    rw [T.t1_at w hl i.2 k.2, Finset.sum_range]
    congr 1
    apply Finset.sum_congr rfl; intro m _
    rw [T.oc_at w hl m.2 k.2, Finset.sum_range, T.hq_c]
  rw [hH]
  exact prism_equation (mat n p.omega l) (mat n q.directCorr l) (mat n (T.ioc.invert inv) l) hM

/-- the real-space direct correlation of the stored (Fourier-space) `directCorr` -/
noncomputable def cReal (q : Prism ℝ) (l i j : ℕ) : ℝ := (q.dom.toReal (q.directCorr.pair (loI i j) (hiI i j)))[l]!
/-- the real-space total correlation of the stored (Fourier-space) `totalCorr` -/
noncomputable def hReal (q : Prism ℝ) (l i j : ℕ) : ℝ := (q.dom.toReal (q.totalCorr.pair (loI i j) (hiI i j)))[l]!
/-- the pair's own closure at grid point `l` as a function of γ -/
noncomputable def phi (p : Prism ℝ) (l i j : ℕ) (γ : ℝ) : ℝ :=
  closureAt (p.cloK (loI i j) (hiI i j)).1 (p.cloK (loI i j) (hiI i j)).2 (p.cloSigma (loI i j) (hiI i j))
    (((l : ℝ) + 1) * p.dom.dr) γ ((p.u (loI i j) (hiI i j))[l]!)

/-- **Closure relations of one evaluation.**  On a reachable domain, for every pair and every grid
distance: the stored `c(r)` is the pair's own closure of `γ_in`; `γ_out = h − c`; and the
returned residual is `y = r (γ_out − γ_in)`. -/
theorem closure_relation_of_cost (hd : C07.DInv p.dom) (hc : p.cost inv x = .ok q)
    {l i j : ℕ} (hl : l < p.dom.length) (hi : i < p.n) (hj : j < p.n) :
    cReal q l i j = phi p l i j (q.gammaIn.at l (loI i j) (hiI i j)) ∧
    q.gammaOut.at l i j = hReal q l i j - cReal q l i j ∧
    q.y[(l * p.n + i) * p.n + j]! = (((l : ℝ) + 1) * p.dom.dr) * (q.gammaOut.at l i j - q.gammaIn.at l i j) := by
  obtain ⟨T⟩ := cost_trace inv p q x hc
  have hlo := loI_lt hi hj; have hhi := hiI_lt hi hj
  have hcR : cReal q l i j = T.cR.at l (loI i j) (hiI i j) := by
    unfold cReal
    rw [T.hq_dom, T.hq_c]
    rw [C07.toReal_congr p.dom (T.cF.pair (loI i j) (hiI i j)) (p.dom.toFourier (T.cR.pair (loI i j) (hiI i j))) (by
      intro m hm
      rw [C07.pair_get _ _ _ _ (by rw [T.cF_meta.1]; exact hm), T.cF_at hm hlo hhi]) l hl]
    rw [C07.toReal_toFourier p.dom hd _ l hl, C07.pair_get _ _ _ _ (by rw [T.cR_meta.1]; exact hl)]
  refine ⟨?_, ?_, ?_⟩
  · rw [hcR, T.cR_at hl hlo hhi, T.hq_gi]
    have h1 : loI (loI i j) (hiI i j) = loI i j := loI_of_le (loI_le_hiI i j)
    have h2 : hiI (loI i j) (hiI i j) = hiI i j := hiI_of_le (loI_le_hiI i j)
    unfold phi; rw [h1, h2]
  · rw [T.hq_go, T.go_at hl hi hj, hcR]
    unfold hReal; rw [T.hq_dom, T.hq_h]
    -- toReal (H - C) = toReal H - toReal C, by linearity
    have hlin := C07.toReal_linear p.dom hd.1 (-1) (T.cF.pair (loI i j) (hiI i j)) (T.h.pair (loI i j) (hiI i j))
      (T.goF.pair (loI i j) (hiI i j)) (by
        intro m hm
        rw [C07.pair_get _ _ _ _ (by rw [T.goF_meta.1]; exact hm), C07.pair_get _ _ _ _ (by rw [T.cF_meta.1]; exact hm),
          C07.pair_get _ _ _ _ (by rw [T.h_meta.1]; exact hm), T.goF_at hm hlo hhi]; ring) l hl
    rw [hlin]
    rw [C07.toReal_congr p.dom (T.cF.pair (loI i j) (hiI i j)) (p.dom.toFourier (T.cR.pair (loI i j) (hiI i j))) (by
      intro m hm
      rw [C07.pair_get _ _ _ _ (by rw [T.cF_meta.1]; exact hm), T.cF_at hm hlo hhi]) l hl]
    rw [C07.toReal_toFourier p.dom hd _ l hl, C07.pair_get _ _ _ _ (by rw [T.cR_meta.1]; exact hl)]
    ring
  · rw [T.y_at hl hi hj, T.hq_go, T.hq_gi]

/-- **Closure residual in terms of the solver residual.**  For a pair `i ≤ j`, if the pair's
closure is `K`-Lipschitz in γ on the segment between `γ_in` and `γ_out` at that distance, then the
stored `c(r)` and `h(r)` violate the closure relation by at most `K·|y|/r`. -/
theorem closure_residual_bound (hd : C07.DInv p.dom) (hc : p.cost inv x = .ok q)
    {l i j : ℕ} (hl : l < p.dom.length) (hij : i ≤ j) (hj : j < p.n) (K : ℝ)
    (hK : |phi p l i j (q.gammaIn.at l i j) - phi p l i j (q.gammaOut.at l i j)| ≤ K * |q.gammaIn.at l i j - q.gammaOut.at l i j|)
    (hdr : 0 < p.dom.dr) :
    |cReal q l i j - phi p l i j (hReal q l i j - cReal q l i j)|
      ≤ K * |q.y[(l * p.n + i) * p.n + j]!| / (((l : ℝ) + 1) * p.dom.dr) := by
  have hi : i < p.n := lt_of_le_of_lt hij hj
  obtain ⟨h1, h2, h3⟩ := closure_relation_of_cost hd hc hl hi hj
  rw [loI_of_le hij, hiI_of_le hij] at h1
  have hr : 0 < ((l : ℝ) + 1) * p.dom.dr := by positivity
  rw [← h2, h1, h3, abs_mul, abs_of_pos hr]
  calc |phi p l i j (q.gammaIn.at l i j) - phi p l i j (q.gammaOut.at l i j)|
      ≤ K * |q.gammaIn.at l i j - q.gammaOut.at l i j| := hK
    _ = K * ((↑l + 1) * p.dom.dr * |q.gammaOut.at l i j - q.gammaIn.at l i j|) / ((↑l + 1) * p.dom.dr) := by
        rw [abs_sub_comm]; field_simp

/-! ### the closures' local slopes (what "times the closure's local slope" means, pair by pair) -/

/-- inside a flagged core the closure has slope exactly 1 in γ -/
theorem slope_core (k : CKind) (σ r u a b : ℝ) (hr : r ≤ σ) :
    closureAt k true σ r a u - closureAt k true σ r b u = -(a - b) := by
  unfold closureAt
  have : ¬ σ < r := not_lt.mpr hr
  simp [this]

/-- Percus–Yevick is linear in γ: slope `e^{-u} - 1` (equality, not only a bound) -/
theorem slope_py (hc : Bool) (σ r u a b : ℝ) (hout : hc = false ∨ σ < r) :
    closureAt .py hc σ r a u - closureAt .py hc σ r b u = (Real.exp (-u) - 1) * (a - b) := by
  unfold closureAt closureFormula
  rcases hout with h | h
  · subst h; simp; ring
  · simp [h]; ring

/-- MSA does not depend on γ outside the core: slope 0, the closure is met exactly -/
theorem slope_msa (hc : Bool) (σ r u a b : ℝ) (hout : hc = false ∨ σ < r) :
    closureAt .msa hc σ r a u - closureAt .msa hc σ r b u = 0 := by
  unfold closureAt closureFormula
  rcases hout with h | h
  · subst h; simp
  · simp [h]

/-- HNC: the slope between `a` and `b` is at most the larger of the end-point slopes
`|e^{a-u} - 1|`, `|e^{b-u} - 1|` (mean-value theorem, the derivative is monotone) -/
theorem slope_hnc (hc : Bool) (σ r u a b : ℝ) (hout : hc = false ∨ σ < r) :
    |closureAt .hnc hc σ r a u - closureAt .hnc hc σ r b u|
      ≤ max |Real.exp (a - u) - 1| |Real.exp (b - u) - 1| * |a - b| := by
  have hform : ∀ g, closureAt .hnc hc σ r g u = Real.exp (g - u) - 1 - g := by
    intro g; unfold closureAt closureFormula
    rcases hout with h | h
    · subst h; simp
    · simp [h]
  rw [hform, hform]
  set K := max |Real.exp (a - u) - 1| |Real.exp (b - u) - 1| with hK
  have hder : ∀ t, HasDerivAt (fun g => Real.exp (g - u) - 1 - g) (Real.exp (t - u) - 1) t := by
    intro t
    have h1 : HasDerivAt (fun g : ℝ => Real.exp (g - u)) (Real.exp (t - u)) t := by
      have := ((hasDerivAt_id' t).sub_const u).exp
      rw [mul_one] at this; exact this
    exact (h1.sub_const 1).fun_sub (hasDerivAt_id' t)
  have hbound : ∀ t ∈ Set.uIcc a b, ‖Real.exp (t - u) - 1‖ ≤ K := by
    intro t ht
    rw [Real.norm_eq_abs, abs_le]
    rcases Set.mem_uIcc.mp ht with ⟨h1, h2⟩ | ⟨h1, h2⟩
    · constructor
      · have : Real.exp (a - u) ≤ Real.exp (t - u) := Real.exp_le_exp.mpr (by linarith)
        have : -K ≤ Real.exp (a - u) - 1 := by
          have := neg_abs_le (Real.exp (a - u) - 1); have := le_max_left |Real.exp (a - u) - 1| |Real.exp (b - u) - 1|; linarith
        linarith
      · have : Real.exp (t - u) ≤ Real.exp (b - u) := Real.exp_le_exp.mpr (by linarith)
        have : Real.exp (b - u) - 1 ≤ K := by
          have := le_abs_self (Real.exp (b - u) - 1); have := le_max_right |Real.exp (a - u) - 1| |Real.exp (b - u) - 1|; linarith
        linarith
    · constructor
      · have : Real.exp (b - u) ≤ Real.exp (t - u) := Real.exp_le_exp.mpr (by linarith)
        have : -K ≤ Real.exp (b - u) - 1 := by
          have := neg_abs_le (Real.exp (b - u) - 1); have := le_max_right |Real.exp (a - u) - 1| |Real.exp (b - u) - 1|; linarith
        linarith
      · have : Real.exp (t - u) ≤ Real.exp (a - u) := Real.exp_le_exp.mpr (by linarith)
        have : Real.exp (a - u) - 1 ≤ K := by
          have := le_abs_self (Real.exp (a - u) - 1); have := le_max_left |Real.exp (a - u) - 1| |Real.exp (b - u) - 1|; linarith
        linarith
  have := Convex.norm_image_sub_le_of_norm_hasDerivWithin_le (f := fun g => Real.exp (g - u) - 1 - g)
    (f' := fun t => Real.exp (t - u) - 1) (s := Set.uIcc a b) (C := K)
    (fun t _ => (hder t).hasDerivWithinAt) hbound (convex_uIcc a b) Set.right_mem_uIcc Set.left_mem_uIcc
  simpa [Real.norm_eq_abs, abs_sub_comm] using this

/-! ### `cost` never raises on a well-formed object, and forgets earlier evaluations -/

/-- every `cost` evaluation succeeds on a well-formed object whose ω is in Fourier space -/
theorem cost_total (w : PWf p) (hom : p.omega.space = .fourier) (hpd : p.pairD.space = .nonspatial)
    (inv : ℕ → Array ℝ → Array ℝ) (x : Array ℝ) : ∃ q, p.cost inv x = .ok q := by
  unfold Prism.cost
  simp only [bind, Except.bind, pure, Except.pure]
  have e1 : ∀ g, p.dom.maToFourier (p.closureStep g) = .ok ((p.closureStep g).mapPairs .fourier p.dom.toFourier) := by
    intro g; unfold Dom.maToFourier
    have : (p.closureStep g).space = .real := rfl
    simp [this]
  rw [e1]; simp only
  have e2 : ∀ B : MA ℝ, B.space = .fourier → ∃ R, p.omega.dot B = .ok R ∧ R.space = .fourier := by
    intro B hB; unfold MA.dot; simp [spaceOK, hom, hB]
  obtain ⟨oc, hoc, hocs⟩ := e2 _ (C07.mapPairs_meta _ .fourier p.dom.toFourier).2.2
  rw [hoc]; simp only
  have e3 : ∃ R, (MA.identity p.dom.length p.n Space.fourier : MA ℝ).binop (· - ·) (.ma oc) = .ok R ∧ R.space = .fourier := by
    unfold MA.binop; simp [Operand.spaceOK, spaceOK, hocs, MA.identity]
  obtain ⟨ioc, hioc, hiocs⟩ := e3
  rw [hioc]; simp only
  have e4 : ∃ R, (ioc.invert inv).dot oc = .ok R ∧ R.space = .fourier := by
    unfold MA.dot
    have : (ioc.invert inv).space = .fourier := hiocs
    simp [spaceOK, this, hocs]
  obtain ⟨t1, ht1, ht1s⟩ := e4
  rw [ht1]; simp only
  have e5 : ∃ R, t1.dot p.omega = .ok R ∧ R.space = .fourier := by
    unfold MA.dot; simp [spaceOK, ht1s, hom]
  obtain ⟨t2, ht2, ht2s⟩ := e5
  rw [ht2]; simp only
  have e6 : ∃ R, t2.binop (· / ·) (.ma p.pairD) = .ok R ∧ R.space = .fourier := by
    unfold MA.binop; simp [Operand.spaceOK, spaceOK, ht2s, hpd]
  obtain ⟨hh, hhh, hhs⟩ := e6
  rw [hhh]; simp only
  have e7 : ∃ R, hh.binop (· - ·) (.ma ((p.closureStep (MA.build p.dom.length p.n Space.real fun l i j =>
      x[(l * p.n + i) * p.n + j]! / p.dom.r[l]!)).mapPairs .fourier p.dom.toFourier)) = .ok R ∧ R.space = .fourier := by
    unfold MA.binop
    have := (C07.mapPairs_meta (p.closureStep (MA.build p.dom.length p.n Space.real fun l i j =>
      x[(l * p.n + i) * p.n + j]! / p.dom.r[l]!)) .fourier p.dom.toFourier).2.2
    simp [Operand.spaceOK, spaceOK, hhs, this]
  obtain ⟨goF, hgoF, hgoFs⟩ := e7
  rw [hgoF]; simp only
  have e8 : ∃ R, p.dom.maToReal goF = .ok R := by
    unfold Dom.maToReal; simp [hgoFs]
  obtain ⟨go, hgo⟩ := e8
  rw [hgo]
  exact ⟨_, rfl⟩

/-- the static part of a PRISM object: everything `cost` reads -/
def SameStatic (p p' : Prism ℝ) : Prop :=
  p'.n = p.n ∧ p'.dom = p.dom ∧ p'.pairD = p.pairD ∧ p'.omega = p.omega ∧ p'.cloK = p.cloK ∧ p'.cloSigma = p.cloSigma ∧ p'.u = p.u
    ∧ p'.kT = p.kT ∧ p'.siteD = p.siteD ∧ p'.total = p.total ∧ p'.rho = p.rho ∧ p'.diam = p.diam ∧ p'.potSigma = p.potSigma

theorem cost_static (hc : p.cost inv x = .ok q) : SameStatic p q := by
  unfold Prism.cost at hc
  simp only [bind, Except.bind, pure, Except.pure] at hc
  repeat' (split at hc; · cases hc)
  cases hc
  exact ⟨rfl, rfl, rfl, rfl, rfl, rfl, rfl, rfl, rfl, rfl, rfl, rfl, rfl⟩

/-- **the arrays on the object are those of the last evaluated point only**: evaluating `cost` at
`x₂` after any earlier successful evaluation gives exactly the state of evaluating at `x₂` directly -/
theorem cost_overwrites {x₁ x₂ : Array ℝ} {q₁ : Prism ℝ} (h₁ : p.cost inv x₁ = .ok q₁) :
    q₁.cost inv x₂ = p.cost inv x₂ := by
  unfold Prism.cost at h₁
  simp only [bind, Except.bind, pure, Except.pure] at h₁
  repeat' (split at h₁; · cases h₁)
  cases h₁
  rfl

/-- for every finite trace of evaluation points a root finder may visit, the final state only
depends on the last one -/
theorem cost_trace_last (xs : List (Array ℝ)) (xlast : Array ℝ) (p₀ : Prism ℝ)
    (hall : ∀ p' x', SameStatic p₀ p' → ∃ q', p'.cost inv x' = .ok q') :
    ∃ pm, SameStatic p₀ pm ∧ pm.cost inv xlast = p₀.cost inv xlast ∧
      (xs.foldlM (fun s x => s.cost inv x) p₀ : Except Err (Prism ℝ)) = .ok pm := by
  induction xs generalizing p₀ with
  | nil => exact ⟨p₀, ⟨rfl, rfl, rfl, rfl, rfl, rfl, rfl, rfl, rfl, rfl, rfl, rfl, rfl⟩, rfl, rfl⟩
  | cons x xs ih =>
    obtain ⟨q, hq⟩ := hall p₀ x ⟨rfl, rfl, rfl, rfl, rfl, rfl, rfl, rfl, rfl, rfl, rfl, rfl, rfl⟩
    have hs := cost_static hq
    have hall' : ∀ p' x', SameStatic q p' → ∃ q', p'.cost inv x' = .ok q' := by
      intro p' x' hp'
      apply hall p' x'
      obtain ⟨a1, a2, a3, a4, a5, a6, a7, a8, a9, a10, a11, a12, a13⟩ := hs
      obtain ⟨b1, b2, b3, b4, b5, b6, b7, b8, b9, b10, b11, b12, b13⟩ := hp'
      exact ⟨b1.trans a1, b2.trans a2, b3.trans a3, b4.trans a4, b5.trans a5, b6.trans a6, b7.trans a7, b8.trans a8,
        b9.trans a9, b10.trans a10, b11.trans a11, b12.trans a12, b13.trans a13⟩
    obtain ⟨pm, hpm, hlast, hfold⟩ := ih q hall'
    refine ⟨pm, ?_, ?_, ?_⟩
    · obtain ⟨a1, a2, a3, a4, a5, a6, a7, a8, a9, a10, a11, a12, a13⟩ := hs
      obtain ⟨b1, b2, b3, b4, b5, b6, b7, b8, b9, b10, b11, b12, b13⟩ := hpm
      exact ⟨b1.trans a1, b2.trans a2, b3.trans a3, b4.trans a4, b5.trans a5, b6.trans a6, b7.trans a7, b8.trans a8,
        b9.trans a9, b10.trans a10, b11.trans a11, b12.trans a12, b13.trans a13⟩
    · rw [hlast, cost_overwrites hq]
    · simp only [List.foldlM_cons, bind, Except.bind, hq]
      exact hfold

/-- **solve leaves the arrays of the last evaluated point**: whatever points `x₁ … x_m` the root
finder evaluated before, the last evaluation is at `x*`, the point it returns (since the repair of finding
F18 `solve` performs this evaluation itself after `scipy.optimize.root` returns; before, it was an assumption
on the external solver that fails for `method='lm'`), so the state after
`solve` is exactly `cost x*` followed by `totalCorr → real space`; nothing of the earlier iterates
survives. -/
theorem solve_leaves_returned_root (xs : List (Array ℝ)) (xstar : Array ℝ) (p₀ : Prism ℝ)
    (hall : ∀ p' x', SameStatic p₀ p' → ∃ q', p'.cost inv x' = .ok q') :
    p₀.solve inv (xs ++ [xstar]) = p₀.afterSolve inv xstar := by
  obtain ⟨pm, _, hlast, hfold⟩ := cost_trace_last xs xstar p₀ hall
  unfold Prism.solve Prism.afterSolve
  rw [List.foldlM_append, hfold]
  simp only [List.foldlM_cons, List.foldlM_nil, bind, Except.bind, pure, Except.pure]
  rw [hlast]
  cases p₀.cost inv xstar <;> rfl

/-- non-vacuity of the inverse hypothesis: Mathlib's matrix inverse meets `InvOn` at every
matrix with non-zero determinant -/
theorem invOn_satisfiable (n : ℕ) (f : ℕ → ℕ → ℝ) (hdet : (Matrix.of fun (i j : Fin n) => f i.1 j.1).det ≠ 0) :
    ∃ inv : ℕ → Array ℝ → Array ℝ, InvOn inv n f := by
  let A : Matrix (Fin n) (Fin n) ℝ := Matrix.of fun i j => f i.1 j.1
  refine ⟨fun _ _ => tab (n * n) fun idx => if h : idx / n < n ∧ idx % n < n then A⁻¹ ⟨idx / n, h.1⟩ ⟨idx % n, h.2⟩ else 0, ?_⟩
  unfold InvOn
  have : (Matrix.of fun (i j : Fin n) => (tab (n * n) fun idx =>
      if h : idx / n < n ∧ idx % n < n then A⁻¹ ⟨idx / n, h.1⟩ ⟨idx % n, h.2⟩ else 0)[i.1 * n + j.1]!) = A⁻¹ := by
    ext i j
    simp only [Matrix.of_apply]
    rw [tab_get _ _ _ (flat2_lt i.2 j.2)]
    have h1 : (i.1 * n + j.1) / n = i.1 := flat2_div j.2
    have h2 : (i.1 * n + j.1) % n = j.1 := flat2_mod j.2
    simp [h1, h2]
  rw [this]
  exact Matrix.nonsing_inv_mul A (Ne.isUnit hdet)

end C01
