import Proofs.RealInst
import Mathlib.Topology.Algebra.Order.Field
/-!
# C10 — Potentials equal their definitions, with consistent cores, cut-offs and sigma

Model: `Model/Potential.lean` at `α := ℝ` (value at one distance; the array version is the
element-wise map, compared with the implementation by the correspondence).
-/
namespace C10

/-! ## the hard-core family: overlap value exactly on `{r ≤ σ}`, documented tail outside -/

theorem hardSphere_def (σ high r : ℝ) : hardSphere σ high r = if r ≤ σ then high else 0 := by
  unfold hardSphere; by_cases h : σ < r
  · simp [h, not_le.mpr h]
  · simp [h, le_of_not_gt h]

theorem exponential_def (ε a σ high r : ℝ) :
    exponentialPot ε a σ high r = if r ≤ σ then high else -ε * Real.exp (-(r - σ) / a) := by
  unfold exponentialPot; by_cases h : σ < r
  · simp [h, not_le.mpr h]
  · simp [h, le_of_not_gt h]

theorem hclj_def (ε σ high r : ℝ) :
    hcLennardJones ε σ high r = if r ≤ σ then high else ε * ((σ / r) ^ 12 - 2 * (σ / r) ^ 6) := by
  unfold hcLennardJones; by_cases h : σ < r
  · simp [h, not_le.mpr h]
  · simp [h, le_of_not_gt h]

/-- the three hard-core potentials put the overlap value on one and the same set, `{r ≤ σ}` —
the set on which the closures apply the core condition (C09.core_branch) -/
theorem hard_core_set (ε a σ high r : ℝ) (h : r ≤ σ) :
    hardSphere σ high r = high ∧ exponentialPot ε a σ high r = high ∧ hcLennardJones ε σ high r = high := by
  rw [hardSphere_def, exponential_def, hclj_def]; simp [h]

/-! ## Lennard-Jones with cut and shift -/

theorem lj_def (ε σ r : ℝ) : lennardJones ε σ none false r = 4 * ε * ((σ / r) ^ 12 - (σ / r) ^ 6) := by
  simp [lennardJones, ljCore]

theorem lj_zero_beyond_cut (ε σ rc : ℝ) (shift : Bool) (r : ℝ) (h : rc < r) :
    lennardJones ε σ (some rc) shift r = 0 := by
  simp [lennardJones, h]

theorem lj_cut_inside (ε σ rc r : ℝ) (h : r ≤ rc) :
    lennardJones ε σ (some rc) false r = 4 * ε * ((σ / r) ^ 12 - (σ / r) ^ 6) ∧
    lennardJones ε σ (some rc) true r =
      4 * ε * ((σ / r) ^ 12 - (σ / r) ^ 6) - 4 * ε * ((σ / rc) ^ 12 - (σ / rc) ^ 6) := by
  simp [lennardJones, ljCore, not_lt.mpr h]

/-- the shifted potential vanishes *at* the cut, so the two pieces agree there -/
theorem lj_shifted_zero_at_cut (ε σ rc : ℝ) : lennardJones ε σ (some rc) true rc = 0 := by
  simp [lennardJones]

/-- … and it is continuous on `(0, ∞)` -/
theorem lj_shifted_continuous (ε σ rc : ℝ) :
    ContinuousOn (fun r => lennardJones ε σ (some rc) true r) (Set.Ioi 0) := by
  have hg : ContinuousOn (fun r : ℝ => ljCore ε σ r - ljCore ε σ rc) (Set.Ioi 0) := by
    unfold ljCore
    simp only [Lit_ofNat, powN_real]
    apply ContinuousOn.sub _ continuousOn_const
    apply ContinuousOn.mul continuousOn_const
    have hd : ContinuousOn (fun r : ℝ => σ / r) (Set.Ioi 0) :=
      continuousOn_const.div continuousOn_id (fun x hx => ne_of_gt hx)
    exact (hd.pow 12).sub (hd.pow 6)
  have : (fun r => lennardJones ε σ (some rc) true r) =
      fun r => if r ≤ rc then ljCore ε σ r - ljCore ε σ rc else 0 := by
    funext r; unfold lennardJones
    by_cases h : rc < r
    · simp [h, not_le.mpr h]
    · simp [h, le_of_not_gt h]
  rw [this]
  rw [continuousOn_iff_continuous_domRestrict] at hg ⊢
  have h1 : Continuous fun x : Set.Ioi (0:ℝ) => (x : ℝ) := continuous_subtype_val
  have := Continuous.if_le (f := fun x : Set.Ioi (0:ℝ) => (x : ℝ)) (g := fun _ => rc)
    (f' := fun x : Set.Ioi (0:ℝ) => ljCore ε σ x - ljCore ε σ rc) (g' := fun _ => (0:ℝ))
    hg continuous_const h1 continuous_const
    (by intro x hx; show ljCore ε σ x - ljCore ε σ rc = 0; have : (x:ℝ) = rc := hx; rw [this]; ring)
  exact this

/-! ## WCA -/

theorem root6two_pow : ((2:ℝ) ^ ((1:ℝ) / 6)) ^ 6 = 2 := by
  rw [← Real.rpow_natCast, ← Real.rpow_mul (by norm_num)]
  norm_num

/-- inside the cut the WCA potential is `4ε((σ/r)⁶ − ½)²` … -/
theorem wca_inside (ε σ r : ℝ) (hσ : 0 < σ) (h : r ≤ σ * (2:ℝ) ^ ((1:ℝ) / 6)) :
    wca ε σ r = 4 * ε * ((σ / r) ^ 6 - 1 / 2) ^ 2 := by
  unfold wca
  simp only [Transc_root6two]
  rw [(lj_cut_inside ε σ _ r h).2]
  have hc : (σ / (σ * (2:ℝ) ^ ((1:ℝ) / 6))) ^ 6 = 1 / 2 := by
    have hpos : (0:ℝ) < (2:ℝ) ^ ((1:ℝ) / 6) := Real.rpow_pos_of_pos (by norm_num) _
    rw [div_mul_eq_div_div, div_self (ne_of_gt hσ), div_pow, one_pow, root6two_pow]
  have hc12 : (σ / (σ * (2:ℝ) ^ ((1:ℝ) / 6))) ^ 12 = 1 / 4 := by
    have : (σ / (σ * (2:ℝ) ^ ((1:ℝ) / 6))) ^ 12 = ((σ / (σ * (2:ℝ) ^ ((1:ℝ) / 6))) ^ 6) ^ 2 := by ring
    rw [this, hc]; norm_num
  rw [hc, hc12]
  have : (σ / r) ^ 12 = ((σ / r) ^ 6) ^ 2 := by ring
  rw [this]; ring

/-- … hence non-negative for `ε ≥ 0` at every distance -/
theorem wca_nonneg (ε σ r : ℝ) (hε : 0 ≤ ε) (hσ : 0 < σ) : 0 ≤ wca ε σ r := by
  by_cases h : r ≤ σ * (2:ℝ) ^ ((1:ℝ) / 6)
  · rw [wca_inside ε σ r hσ h]; positivity
  · unfold wca; simp only [Transc_root6two]
    rw [lj_zero_beyond_cut _ _ _ _ _ (not_le.mp h)]

theorem wca_zero_beyond (ε σ r : ℝ) (h : σ * (2:ℝ) ^ ((1:ℝ) / 6) < r) : wca ε σ r = 0 := by
  unfold wca; simp only [Transc_root6two]; exact lj_zero_beyond_cut _ _ _ _ _ h

theorem wca_continuous (ε σ : ℝ) : ContinuousOn (fun r => wca ε σ r) (Set.Ioi 0) := by
  unfold wca; exact lj_shifted_continuous ε σ _

/-! ## the contact rule -/

/-- in exact arithmetic a grid point `m·dr` that equals `σ = m·dr` is inside the core … -/
theorem contact_in_core_exact_real (m : ℕ) (dr high : ℝ) : hardSphere ((m:ℝ) * dr) high ((m:ℝ) * dr) = high := by
  rw [hardSphere_def]; simp

/-- … but the shipped *exact* comparison does **not** implement "within the tolerance `tol`
of σ ⇒ contact": a point `tol/2` above σ is outside the core (negation witness for finding
F7; with IEEE rounding `7·0.1 = 0.7000000000000001 > 0.7` is such a point) -/
theorem contact_rule_exact_fails (σ tol high : ℝ) (htol : 0 < tol) (hh : high ≠ 0) :
    ∃ r, |r - σ| ≤ tol ∧ hardSphere σ high r ≠ high := by
  refine ⟨σ + tol / 2, ?_, ?_⟩
  · rw [add_sub_cancel_left, abs_of_pos (by linarith)]; linarith
  · rw [hardSphere_def]
    have : ¬ (σ + tol / 2 ≤ σ) := by linarith
    simp [this]; exact fun h => hh h.symm

/-- the tolerance form the property asks for would put every such point in the core -/
theorem contact_in_core_tol (σ tol high r : ℝ) (h : |r - σ| ≤ tol) :
    hardSphere (σ + tol) high r = high := by
  rw [hardSphere_def]
  have := (abs_le.mp h).2
  have h2 : r ≤ σ + tol := by linarith
  simp [h2]

/-! non-vacuity -/
example : (1.0:ℝ) ≤ 1 * (2:ℝ) ^ ((1:ℝ) / 6) := by
  have : (1:ℝ) ≤ (2:ℝ) ^ ((1:ℝ) / 6) := Real.one_le_rpow (by norm_num) (by norm_num)
  linarith

/-! ## the unit of length is a convention: every length (distance, contact distance, range, cut-off) multiplied by `u > 0` -/

theorem hardSphere_length_unit (u : ℝ) (hu : 0 < u) (σ high r : ℝ) : hardSphere (u * σ) high (u * r) = hardSphere σ high r := by
  unfold hardSphere; simp only [mul_lt_mul_iff_right₀ hu]

theorem exponential_length_unit (u : ℝ) (hu : 0 < u) (ε a σ high r : ℝ) :
    exponentialPot ε (u * a) (u * σ) high (u * r) = exponentialPot ε a σ high r := by
  unfold exponentialPot; simp only [mul_lt_mul_iff_right₀ hu, Transc_exp]
  have : -(u * r - u * σ) / (u * a) = -(r - σ) / a := by
    rw [← mul_sub, ← mul_neg, mul_div_mul_left _ _ hu.ne']
  rw [this]

theorem ljCore_length_unit (u : ℝ) (hu : 0 < u) (ε σ r : ℝ) : ljCore ε (u * σ) (u * r) = ljCore ε σ r := by
  unfold ljCore; rw [mul_div_mul_left _ _ hu.ne']

theorem lennardJones_length_unit (u : ℝ) (hu : 0 < u) (ε σ : ℝ) (rcut : Option ℝ) (shift : Bool) (r : ℝ) :
    lennardJones ε (u * σ) (rcut.map (u * ·)) shift (u * r) = lennardJones ε σ rcut shift r := by
  unfold lennardJones
  cases rcut with
  | none => simp only [Option.map_none]; exact ljCore_length_unit u hu ε σ r
  | some rc =>
    simp only [Option.map_some, mul_lt_mul_iff_right₀ hu, ljCore_length_unit u hu]

theorem hcLennardJones_length_unit (u : ℝ) (hu : 0 < u) (ε σ high r : ℝ) :
    hcLennardJones ε (u * σ) high (u * r) = hcLennardJones ε σ high r := by
  unfold hcLennardJones; simp only [mul_lt_mul_iff_right₀ hu, mul_div_mul_left _ _ hu.ne']

/-- WCA: the cut-off `2^{1/6} σ` scales with `σ`, so nothing else has to be told -/
theorem wca_length_unit (u : ℝ) (hu : 0 < u) (ε σ r : ℝ) : wca ε (u * σ) (u * r) = wca ε σ r := by
  unfold wca
  have := lennardJones_length_unit u hu ε σ (some (σ * Transc.root6two)) true r
  simp only [Option.map_some] at this
  rw [← this, mul_assoc]

end C10
