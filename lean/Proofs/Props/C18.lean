import Proofs.Lemmas.Debyer
import Mathlib.Analysis.SpecialFunctions.Trigonometric.Sinc
/-!
# C18 — Debyer omega equals the direct Debye sum for any thread / chunk count

Model: `Model/Debyer.lean` (the chunked, row-per-thread accumulation of `Debyer.pyx`).  The theorems are over `ℝ`
(what the loops compute, for every number of chunks, sites, molecules, frames and every box) except the schedule
theorems, which hold for ANY scalar type — also for the `Float` instance the driver executes.
What is not a theorem: the float32 rounding of the implementation (compared through an error bound on every run) and
the OpenMP runtime itself.
-/
open Finset

namespace C18

/-! ### the chunk rows -/

/-- `_chunk(n, c)` splits `range n` into consecutive pieces that cover every index exactly once:
summing ANY function row by row gives the sum over `range n` (all `n`, all `c ≥ 1`, also `c > n`) -/
theorem chunk_rows_partition {M : Type} [AddCommMonoid M] (n c : ℕ) (hc : 0 < c) (f : ℕ → M) :
    ∑ t ∈ range c, ∑ i ∈ Ico (chunkRow n c t).1 (chunkRow n c t).2, f i = ∑ i ∈ range n, f i :=
  chunk_rows_sum n c hc f

/-- every index lies in exactly one row -/
theorem chunk_rows_cover_once (n c : ℕ) (hc : 0 < c) (i : ℕ) (hi : i < n) :
    ((range c).filter fun t => (chunkRow n c t).1 ≤ i ∧ i < (chunkRow n c t).2).card = 1 := by
  have h := chunk_rows_partition (M := ℕ) n c hc (fun j => if j = i then 1 else 0)
  rw [Finset.sum_ite_eq' (range n) i, if_pos (mem_range.mpr hi)] at h
  rw [Finset.card_filter]
  have e : ∀ t ∈ range c, (if (chunkRow n c t).1 ≤ i ∧ i < (chunkRow n c t).2 then 1 else 0)
      = ∑ j ∈ Ico (chunkRow n c t).1 (chunkRow n c t).2, if j = i then 1 else 0 := by
    intro t _
    rw [Finset.sum_ite_eq' (Ico _ _) i]
    simp only [mem_Ico]
  rw [Finset.sum_congr rfl e, h]

/-- `_chunk` is refused exactly for no indices or no chunks -/
theorem chunk_refused_iff (n c : ℕ) : chunkOK n c = false ↔ n = 0 ∨ c = 0 := by
  unfold chunkOK; simp; omega

/-! ### what one frame computes -/

/-- the pair terms the loops visit, as one finite sum -/
noncomputable def visited (self : Bool) (F : DebFrame ℝ) (k : ℝ) : ℝ :=
  ∑ i ∈ range F.n1, ∑ j ∈ Ico (jStart self i) F.n2, pairTerm F k i j

theorem rowAcc_eq (self : Bool) (F : DebFrame ℝ) (k : ℝ) (i : ℕ) (a : ℝ) :
    rowAcc self F k i a = a + ∑ j ∈ Ico (jStart self i) F.n2, pairTerm F k i j := by
  unfold rowAcc
  rw [accRange_add, Ico_add_sub]

theorem chunkAcc_eq (self : Bool) (F : DebFrame ℝ) (k : ℝ) (i0 i1 : ℕ) :
    chunkAcc self F k i0 i1 = ∑ i ∈ Ico i0 i1, ∑ j ∈ Ico (jStart self i) F.n2, pairTerm F k i j := by
  unfold chunkAcc
  rw [accRange_add_fun i0 (i1 - i0) (fun i a => rowAcc self F k i a) _ (fun i a => rowAcc_eq self F k i a), Ico_add_sub]
  simp

/-- the gathered rows of `thread_omega` are the sum over ALL sites of the first selection, whatever the number of chunks -/
theorem gathered_eq (self : Bool) (c : ℕ) (hc : 0 < c) (F : DebFrame ℝ) (k : ℝ) :
    accRange 0 c (fun a t => a + chunkAcc self F k (chunkRow F.n1 c t).1 (chunkRow F.n1 c t).2) (Lit.ofNat 0)
      = visited self F k := by
  rw [accRange_add]
  simp only [Lit_ofNat, Nat.cast_zero, zero_add, ← Finset.range_eq_Ico, chunkAcc_eq]
  exact chunk_rows_partition F.n1 c hc _

theorem frameOmega_eq (self : Bool) (c : ℕ) (hc : 0 < c) (dk : ℝ) (F : DebFrame ℝ) (q : ℕ) :
    frameOmega self c dk F q =
      if self then 2 * (visited true F (dk * (q + 1 : ℕ)) / (dk * (q + 1 : ℕ) * (F.n1 : ℝ))) + 1
      else visited false F (dk * (q + 1 : ℕ)) / (dk * (q + 1 : ℕ) * ((F.n1 + F.n2 : ℕ) : ℝ)) := by
  unfold frameOmega
  dsimp only
  rw [gathered_eq self c hc]
  cases self <;> simp

/-- **the result does not depend on the number of chunks the work is split into** -/
theorem chunk_count_independent (self : Bool) (c c' : ℕ) (hc : 0 < c) (hc' : 0 < c') (dk : ℝ) (F : DebFrame ℝ) (q : ℕ) :
    frameOmega self c dk F q = frameOmega self c' dk F q := by
  rw [frameOmega_eq self c hc, frameOmega_eq self c' hc']

/-! ### the Debye sum -/

/-- one term of the Debye sum: `sin(k r)/(k r)` (Mathlib's `Real.sinc`, value 1 at coincidence) for sites of one molecule -/
noncomputable def debyeTerm (F : DebFrame ℝ) (k : ℝ) (i j : ℕ) : ℝ :=
  if F.M1 i = F.M2 j then Real.sinc (k * miDist (F.R1 i) (F.R2 j) F.L) else 0

theorem miDist_nonneg (p q L : ℕ → ℝ) : 0 ≤ miDist p q L := by
  unfold miDist; simp only [Transc_sqrt]; exact Real.sqrt_nonneg _

theorem sincTerm_eq (k r : ℝ) (hk : k ≠ 0) (hr : 0 ≤ r) : sincTerm k r = k * Real.sinc (k * r) := by
  unfold sincTerm
  simp only [Lit_ofNat, Nat.cast_zero, Transc_sin]
  split
  · rename_i h
    rw [Real.sinc_of_ne_zero (mul_ne_zero hk (ne_of_gt h))]
    field_simp
  · have : r = 0 := le_antisymm (not_lt.mp ‹_›) hr
    simp [this]

theorem pairTerm_eq (F : DebFrame ℝ) (k : ℝ) (hk : k ≠ 0) (i j : ℕ) : pairTerm F k i j = k * debyeTerm F k i j := by
  unfold pairTerm debyeTerm
  split
  · exact sincTerm_eq k _ hk (miDist_nonneg _ _ _)
  · simp

/-- cross correlation: `omega_ab(k) = 1/(N_a+N_b) · Σ_{i∈a} Σ_{j∈b} [same molecule] sin(k r_ij)/(k r_ij)` -/
theorem cross_is_debye_sum (c : ℕ) (hc : 0 < c) (dk : ℝ) (hdk : dk ≠ 0) (F : DebFrame ℝ) (q : ℕ) :
    frameOmega false c dk F q
      = (1 / ((F.n1 + F.n2 : ℕ) : ℝ)) * ∑ i ∈ range F.n1, ∑ j ∈ range F.n2, debyeTerm F (dk * (q + 1 : ℕ)) i j := by
  have hk : dk * (q + 1 : ℕ) ≠ 0 := mul_ne_zero hdk (by positivity)
  rw [frameOmega_eq false c hc]
  simp only [Bool.false_eq_true, if_false, visited, jStart, ← Finset.range_eq_Ico]
  simp only [pairTerm_eq F _ hk, ← Finset.mul_sum]
  by_cases hN : ((F.n1 + F.n2 : ℕ) : ℝ) = 0
  · simp [hN]
  · field_simp

/-- the two selections are the same one (a self correlation is asked for with the same arrays twice) -/
structure SelfFrame (F : DebFrame ℝ) : Prop where
  n : F.n2 = F.n1
  M : F.M2 = F.M1
  R : F.R2 = F.R1

theorem miComp_symm (a b L : ℝ) : miComp a b L = miComp b a L := by
  unfold miComp; simp only [absS_eq, abs_sub_comm a b]

theorem debyeTerm_symm (F : DebFrame ℝ) (hF : SelfFrame F) (k : ℝ) (i j : ℕ) : debyeTerm F k i j = debyeTerm F k j i := by
  unfold debyeTerm miDist
  rw [hF.M, hF.R, miComp_symm (F.R1 i 0), miComp_symm (F.R1 i 1), miComp_symm (F.R1 i 2)]
  simp only [eq_comm]

/-- self correlation: `omega_aa(k) = 1 + 1/N_a · Σ_{i ≠ j} [same molecule] sin(k r_ij)/(k r_ij)` — the loops visit `i < j`
only and double -/
theorem self_is_debye_sum (c : ℕ) (hc : 0 < c) (dk : ℝ) (hdk : dk ≠ 0) (F : DebFrame ℝ) (hF : SelfFrame F) (q : ℕ) :
    frameOmega true c dk F q
      = 1 + (1 / (F.n1 : ℝ)) * ∑ i ∈ range F.n1, ∑ j ∈ (range F.n1).erase i, debyeTerm F (dk * (q + 1 : ℕ)) i j := by
  have hk : dk * (q + 1 : ℕ) ≠ 0 := mul_ne_zero hdk (by positivity)
  rw [frameOmega_eq true c hc]
  simp only [if_true, visited, jStart, hF.n]
  simp only [pairTerm_eq F _ hk, ← Finset.mul_sum]
  rw [← two_mul_upper_eq_offdiag F.n1 _ (debyeTerm_symm F hF _)]
  by_cases hN : (F.n1 : ℝ) = 0
  · simp [hN]
  · field_simp; ring

theorem miComp_self (a L : ℝ) : miComp a a L = 0 := by
  unfold miComp
  simp only [absS_eq, sub_self, abs_zero, zero_div, zero_add, HasFloor_floor, dec_eq]
  have : ⌊((5 : ℕ) : ℝ) / (10 : ℝ) ^ 1⌋ = 0 := by
    rw [Int.floor_eq_iff]; norm_num
  rw [this]; simp

/-- equivalently, with the `i = j` terms (`sinc 0 = 1`) playing the part of the Kronecker delta:
`omega_aa(k) = 1/N_a · Σ_{i,j} [same molecule] sin(k r_ij)/(k r_ij)` -/
theorem self_is_full_double_sum (c : ℕ) (hc : 0 < c) (dk : ℝ) (hdk : dk ≠ 0) (F : DebFrame ℝ) (hF : SelfFrame F) (hn : 0 < F.n1) (q : ℕ) :
    frameOmega true c dk F q
      = (1 / (F.n1 : ℝ)) * ∑ i ∈ range F.n1, ∑ j ∈ range F.n1, debyeTerm F (dk * (q + 1 : ℕ)) i j := by
  rw [self_is_debye_sum c hc dk hdk F hF q]
  have hdiag : ∀ i, debyeTerm F (dk * (q + 1 : ℕ)) i i = 1 := by
    intro i
    unfold debyeTerm miDist
    rw [hF.M, hF.R]
    simp [miComp_self]
  have : ∀ i ∈ range F.n1, ∑ j ∈ range F.n1, debyeTerm F (dk * (q + 1 : ℕ)) i j
      = 1 + ∑ j ∈ (range F.n1).erase i, debyeTerm F (dk * (q + 1 : ℕ)) i j := by
    intro i hi
    rw [Finset.sum_erase_eq_sub hi, hdiag i]; ring
  rw [Finset.sum_congr rfl this, Finset.sum_add_distrib]
  have hN : (F.n1 : ℝ) ≠ 0 := by exact_mod_cast (ne_of_gt hn)
  simp only [Finset.sum_const, card_range, nsmul_eq_mul, mul_one]
  field_simp

/-- `calculate` averages the frames -/
theorem debyer_is_frame_average (self : Bool) (c : ℕ) (dk : ℝ) (nF : ℕ) (frame : ℕ → DebFrame ℝ) (q : ℕ) :
    debyer self c dk nF frame q = (∑ f ∈ range nF, frameOmega self c dk (frame f) q) / (nF : ℝ) := by
  unfold debyer
  rw [accRange_add]
  simp only [Lit_ofNat, Nat.cast_zero, zero_add, Finset.range_eq_Ico]

/-- the whole `calculate` is independent of the number of chunks -/
theorem debyer_chunk_count_independent (self : Bool) (c c' : ℕ) (hc : 0 < c) (hc' : 0 < c') (dk : ℝ) (nF : ℕ)
    (frame : ℕ → DebFrame ℝ) (q : ℕ) : debyer self c dk nF frame q = debyer self c' dk nF frame q := by
  rw [debyer_is_frame_average, debyer_is_frame_average]
  congr 1
  exact Finset.sum_congr rfl fun f _ => chunk_count_independent self c c' hc hc' dk (frame f) q

/-! ### the order of the sites -/

/-- the same trajectory with the sites of the two selections listed in another order -/
def relabel (F : DebFrame ℝ) (σ1 σ2 : Equiv.Perm ℕ) : DebFrame ℝ :=
  { F with M1 := fun i => F.M1 (σ1 i), M2 := fun j => F.M2 (σ2 j), R1 := fun i => F.R1 (σ1 i), R2 := fun j => F.R2 (σ2 j) }

/-- `σ` permutes the first `n` indices among themselves -/
def PermOn (σ : Equiv.Perm ℕ) (n : ℕ) : Prop := ∀ i, i < n ↔ σ i < n

theorem cross_order_independent (c : ℕ) (hc : 0 < c) (dk : ℝ) (F : DebFrame ℝ) (σ1 σ2 : Equiv.Perm ℕ)
    (h1 : PermOn σ1 F.n1) (h2 : PermOn σ2 F.n2) (q : ℕ) :
    frameOmega false c dk (relabel F σ1 σ2) q = frameOmega false c dk F q := by
  rw [frameOmega_eq false c hc, frameOmega_eq false c hc]
  simp only [Bool.false_eq_true, if_false]
  have : visited false (relabel F σ1 σ2) (dk * (q + 1 : ℕ)) = visited false F (dk * (q + 1 : ℕ)) := by
    unfold visited
    simp only [jStart, Bool.false_eq_true, if_false, ← Finset.range_eq_Ico]
    show ∑ i ∈ range F.n1, ∑ j ∈ range F.n2, pairTerm (relabel F σ1 σ2) _ i j = _
    apply Finset.sum_equiv σ1 (by intro i; simp only [mem_range]; exact h1 i)
    intro i _
    apply Finset.sum_equiv σ2 (by intro j; simp only [mem_range]; exact h2 j)
    intro j _
    rfl
  rw [this]; rfl

theorem self_order_independent (c : ℕ) (hc : 0 < c) (dk : ℝ) (hdk : dk ≠ 0) (F : DebFrame ℝ) (hF : SelfFrame F) (σ : Equiv.Perm ℕ)
    (h : PermOn σ F.n1) (q : ℕ) :
    frameOmega true c dk (relabel F σ σ) q = frameOmega true c dk F q := by
  have hF' : SelfFrame (relabel F σ σ) := ⟨hF.n, by simp [relabel, hF.M], by simp [relabel, hF.R]⟩
  rw [self_is_debye_sum c hc dk hdk _ hF', self_is_debye_sum c hc dk hdk F hF]
  congr 2
  show ∑ i ∈ range F.n1, ∑ j ∈ (range F.n1).erase i, debyeTerm (relabel F σ σ) _ i j = _
  apply Finset.sum_equiv σ (by intro i; simp only [mem_range]; exact h i)
  intro i _
  apply Finset.sum_equiv σ (by
    intro j; simp only [mem_erase, mem_range, ne_eq, EmbeddingLike.apply_eq_iff_eq]
    rw [h j])
  intro j _
  rfl

/-- the same two selections handed over in the other order -/
def swapSel (F : DebFrame ℝ) : DebFrame ℝ :=
  { F with n1 := F.n2, n2 := F.n1, M1 := F.M2, M2 := F.M1, R1 := F.R2, R2 := F.R1 }

theorem miDist_symm (p q L : ℕ → ℝ) : miDist p q L = miDist q p L := by
  unfold miDist
  rw [miComp_symm (p 0), miComp_symm (p 1), miComp_symm (p 2)]

/-- `omega_ab = omega_ba`: which selection is passed first does not matter for a cross correlation -/
theorem cross_swap_symmetric (c : ℕ) (hc : 0 < c) (dk : ℝ) (F : DebFrame ℝ) (q : ℕ) :
    frameOmega false c dk (swapSel F) q = frameOmega false c dk F q := by
  rw [frameOmega_eq false c hc, frameOmega_eq false c hc]
  simp only [Bool.false_eq_true, if_false]
  have hv : visited false (swapSel F) (dk * (q + 1 : ℕ)) = visited false F (dk * (q + 1 : ℕ)) := by
    unfold visited
    simp only [jStart, Bool.false_eq_true, if_false, ← Finset.range_eq_Ico]
    show ∑ i ∈ range F.n2, ∑ j ∈ range F.n1, pairTerm (swapSel F) _ i j = _
    rw [Finset.sum_comm]
    apply Finset.sum_congr rfl; intro i _
    apply Finset.sum_congr rfl; intro j _
    unfold pairTerm swapSel
    simp only [eq_comm (a := F.M2 j), miDist_symm (F.R2 j)]
  rw [hv]
  show _ / (_ * ((F.n2 + F.n1 : ℕ) : ℝ)) = _
  rw [Nat.add_comm F.n2 F.n1]

/-! ### the unit of length is a convention (real numbers) -/

/-- the same frame with every coordinate and box length multiplied by `u` -/
noncomputable def scaleLen (u : ℝ) (F : DebFrame ℝ) : DebFrame ℝ :=
  { F with R1 := fun i x => u * F.R1 i x, R2 := fun j x => u * F.R2 j x, L := fun x => u * F.L x }

theorem miComp_scale (u : ℝ) (hu : 0 < u) (a b L : ℝ) : miComp (u * a) (u * b) (u * L) = u * miComp a b L := by
  unfold miComp
  simp only [absS_eq, HasFloor_floor, dec_eq]
  rw [← mul_sub, abs_mul, abs_of_pos hu, mul_div_mul_left _ _ hu.ne']
  ring

theorem miDist_scale (u : ℝ) (hu : 0 < u) (p q L : ℕ → ℝ) :
    miDist (fun x => u * p x) (fun x => u * q x) (fun x => u * L x) = u * miDist p q L := by
  unfold miDist
  simp only [miComp_scale u hu, Transc_sqrt]
  rw [show u * miComp (p 0) (q 0) (L 0) * (u * miComp (p 0) (q 0) (L 0)) + u * miComp (p 1) (q 1) (L 1) * (u * miComp (p 1) (q 1) (L 1))
        + u * miComp (p 2) (q 2) (L 2) * (u * miComp (p 2) (q 2) (L 2))
      = u ^ 2 * (miComp (p 0) (q 0) (L 0) * miComp (p 0) (q 0) (L 0) + miComp (p 1) (q 1) (L 1) * miComp (p 1) (q 1) (L 1)
        + miComp (p 2) (q 2) (L 2) * miComp (p 2) (q 2) (L 2)) by ring]
  rw [Real.sqrt_mul (sq_nonneg u), Real.sqrt_sq hu.le]

theorem pairTerm_scale (u : ℝ) (hu : 0 < u) (F : DebFrame ℝ) (k : ℝ) (i j : ℕ) :
    pairTerm (scaleLen u F) (k / u) i j = pairTerm F k i j / u := by
  unfold pairTerm scaleLen
  dsimp only
  split
  · rw [miDist_scale u hu]
    unfold sincTerm
    simp only [Lit_ofNat, Nat.cast_zero, Transc_sin]
    by_cases hr : 0 < miDist (F.R1 i) (F.R2 j) F.L
    · rw [if_pos (mul_pos hu hr), if_pos hr]
      rw [show k / u * (u * miDist (F.R1 i) (F.R2 j) F.L) = k * miDist (F.R1 i) (F.R2 j) F.L by field_simp]
      field_simp
    · have : ¬ 0 < u * miDist (F.R1 i) (F.R2 j) F.L := fun h => hr (by
        rcases (mul_pos_iff.mp h) with ⟨_, h2⟩ | ⟨h1, _⟩
        · exact h2
        · exact absurd hu (not_lt.mpr h1.le))
      rw [if_neg this, if_neg hr]
  · simp

/-- **coordinates in metres, ångström or reduced units give the same ω̂**: multiply every coordinate and box length by
`u > 0` and divide the wavenumber spacing by `u` — every frame value is unchanged (pair distances below any absolute
threshold in the new unit included: there is no absolute length in the computation). -/
theorem frameOmega_length_unit (u : ℝ) (hu : 0 < u) (self : Bool) (c : ℕ) (hc : 0 < c) (dk : ℝ) (F : DebFrame ℝ) (q : ℕ) :
    frameOmega self c (dk / u) (scaleLen u F) q = frameOmega self c dk F q := by
  rw [frameOmega_eq self c hc, frameOmega_eq self c hc]
  have hk : dk / u * ((q + 1 : ℕ) : ℝ) = dk * ((q + 1 : ℕ) : ℝ) / u := by ring
  have hv : ∀ s, visited s (scaleLen u F) (dk / u * ((q + 1 : ℕ) : ℝ)) = visited s F (dk * ((q + 1 : ℕ) : ℝ)) / u := by
    intro s
    unfold visited
    rw [hk]
    simp only [pairTerm_scale u hu]
    show ∑ i ∈ range F.n1, ∑ j ∈ Ico (jStart s i) F.n2, _ = _
    rw [Finset.sum_div]
    apply Finset.sum_congr rfl; intro i _
    rw [Finset.sum_div]
  rw [hv true, hv false, hk]
  have hn1 : (scaleLen u F).n1 = F.n1 := rfl
  have hn2 : (scaleLen u F).n2 = F.n2 := rfl
  rw [hn1, hn2]
  have hu' : u ≠ 0 := hu.ne'
  split
  · congr 2
    by_cases hd : dk * ((q + 1 : ℕ) : ℝ) * (F.n1 : ℝ) = 0
    · rw [hd]; rw [show dk * ((q + 1 : ℕ) : ℝ) / u * (F.n1 : ℝ) = (dk * ((q + 1 : ℕ) : ℝ) * (F.n1 : ℝ)) / u by ring, hd]; simp
    · field_simp
  · by_cases hd : dk * ((q + 1 : ℕ) : ℝ) * ((F.n1 + F.n2 : ℕ) : ℝ) = 0
    · rw [hd]; rw [show dk * ((q + 1 : ℕ) : ℝ) / u * ((F.n1 + F.n2 : ℕ) : ℝ) = (dk * ((q + 1 : ℕ) : ℝ) * ((F.n1 + F.n2 : ℕ) : ℝ)) / u by ring, hd]; simp
    · field_simp

/-! ### molecule labels are names: only their equality matters (any scalar type, also `Float`) -/

section
variable {α : Type} [Add α] [Sub α] [Mul α] [Div α] [Neg α] [Lit α] [Transc α] [HasFloor α] [LT α] [DecidableLT α]

/-- the same frame with every molecule label renamed by `f` -/
def renameMol (f : ℕ → ℕ) (F : DebFrame α) : DebFrame α := { F with M1 := fun i => f (F.M1 i), M2 := fun j => f (F.M2 j) }

theorem pairTerm_renameMol (f : ℕ → ℕ) (hf : Function.Injective f) (F : DebFrame α) (k : α) (i j : ℕ) :
    pairTerm (renameMol f F) k i j = pairTerm F k i j := by
  unfold pairTerm renameMol
  simp only [hf.eq_iff]

/-- **renaming the molecules changes nothing**: for every injective renaming of the labels (labels shifted beyond 2³¹, hashed
ids, any order, contiguous or not), every chunk count and every wavenumber, `_calculate` returns the same number — executed
arithmetic, not only the real-number value. -/
theorem frameOmega_renameMol (f : ℕ → ℕ) (hf : Function.Injective f) (self : Bool) (c : ℕ) (dk : α) (F : DebFrame α) (q : ℕ) :
    frameOmega self c dk (renameMol f F) q = frameOmega self c dk F q := by
  have hrow : ∀ k i a, rowAcc self (renameMol f F) k i a = rowAcc self F k i a := by
    intro k i a; unfold rowAcc; simp only [pairTerm_renameMol (α := α) f hf]; rfl
  have hchunk : ∀ k i0 i1, chunkAcc self (renameMol f F) k i0 i1 = chunkAcc self F k i0 i1 := by
    intro k i0 i1; unfold chunkAcc; simp only [hrow]
  unfold frameOmega
  simp only [hchunk]
  rfl

theorem debyer_renameMol (f : ℕ → ℕ) (hf : Function.Injective f) (self : Bool) (c : ℕ) (dk : α) (nframes : ℕ)
    (frame : ℕ → DebFrame α) (q : ℕ) :
    debyer self c dk nframes (fun t => renameMol f (frame t)) q = debyer self c dk nframes frame q := by
  unfold debyer
  simp only [frameOmega_renameMol (α := α) f hf]
end

/-! ### schedules: every interleaving of the per-chunk update streams (any scalar type, also `Float`) -/

section
variable {α : Type} [Add α] [Sub α] [Mul α] [Div α] [Neg α] [Lit α] [Transc α] [HasFloor α] [LT α] [DecidableLT α]

/-- after ANY schedule, row `t` holds its old value plus, in order, exactly the increments addressed to `t` -/
theorem schedule_row (us : List (ℕ × α)) (tbl : ℕ → α) (t : ℕ) :
    execSchedule tbl us t = ((us.filter fun u => u.1 = t).map Prod.snd).foldl (· + ·) (tbl t) := by
  induction us generalizing tbl with
  | nil => rfl
  | cons u us ih =>
    unfold execSchedule at ih ⊢
    rw [List.foldl_cons, ih]
    by_cases h : u.1 = t
    · simp [List.filter_cons, h, schedStep]
    · have h' : ¬ t = u.1 := fun e => h e.symm
      simp [List.filter_cons, h, h', schedStep]

/-- two schedules that contain, for every chunk, the same updates in the same order (i.e. two interleavings of the same
per-chunk streams) leave the same table: the result cannot depend on how the runtime interleaves the threads -/
theorem schedule_independent (us us' : List (ℕ × α)) (tbl : ℕ → α)
    (h : ∀ t, (us.filter fun u => u.1 = t) = (us'.filter fun u => u.1 = t)) :
    execSchedule tbl us = execSchedule tbl us' := by
  funext t; rw [schedule_row, schedule_row, h t]

theorem foldl_range_eq_accRange {β : Type} (n : ℕ) (f : β → ℕ → β) (a : β) : (List.range n).foldl f a = accRange 0 n f a := by
  induction n with
  | zero => rfl
  | succ n ih => rw [List.range_succ, List.foldl_append, ih]; simp [accRange]

/-- executing the update stream of chunk `t` leaves in row `t` exactly what the model's chunk loop computes -/
theorem stream_gives_chunkAcc (self : Bool) (F : DebFrame α) (k : α) (t i0 i1 : ℕ) (tbl : ℕ → α) (h0 : tbl t = Lit.ofNat 0) :
    execSchedule tbl (chunkStream self F k t i0 i1) t = chunkAcc self F k i0 i1 := by
  rw [schedule_row]
  have hall : (chunkStream self F k t i0 i1).filter (fun u => u.1 = t) = chunkStream self F k t i0 i1 := by
    rw [List.filter_eq_self]
    intro u hu
    unfold chunkStream at hu
    simp only [List.mem_flatMap, List.mem_map, List.mem_range] at hu
    obtain ⟨_, _, _, _, rfl⟩ := hu
    simp
  rw [hall, h0]
  unfold chunkStream chunkAcc
  rw [List.map_flatMap, List.foldl_flatMap, foldl_range_eq_accRange, accRange_shift i0]
  congr 1
  funext a di
  unfold rowAcc
  rw [List.map_map, List.foldl_map, foldl_range_eq_accRange, accRange_shift (jStart self (i0 + di))]
  rfl

/-- so for ANY interleaving `us` of the chunk streams (per chunk: its own stream, in program order), the shared table
ends with the model's `chunkAcc` in every row — thread count and timing cannot change what is gathered -/
theorem any_interleaving_gives_chunkAcc (self : Bool) (F : DebFrame α) (k : α) (c : ℕ) (us : List (ℕ × α))
    (h : ∀ t < c, (us.filter fun u => u.1 = t) = chunkStream self F k t (chunkRow F.n1 c t).1 (chunkRow F.n1 c t).2) :
    ∀ t < c, execSchedule (fun _ => Lit.ofNat 0) us t = chunkAcc self F k (chunkRow F.n1 c t).1 (chunkRow F.n1 c t).2 := by
  intro t ht
  rw [schedule_row, h t ht, ← stream_gives_chunkAcc self F k t _ _ (fun _ => Lit.ofNat 0) rfl, schedule_row]
  congr 2
  symm
  rw [List.filter_eq_self]
  intro u hu
  unfold chunkStream at hu
  simp only [List.mem_flatMap, List.mem_map, List.mem_range] at hu
  obtain ⟨_, _, _, _, rfl⟩ := hu
  simp
end

/-! ### minimum image -/

/-- the folded separation is the separation to the NEAREST periodic image, for every separation and every box length -/
theorem miComp_nearest_image (a b L : ℝ) (hL : 0 < L) :
    (∀ n : ℤ, |miComp a b L| ≤ |a - b + n * L|) ∧ ∃ n : ℤ, |miComp a b L| = |a - b + n * L| := by
  unfold miComp
  simp only [absS_eq, HasFloor_floor, dec_eq]
  set d := |a - b| with hd
  set m : ℤ := ⌊d / L + ((5 : ℕ) : ℝ) / (10 : ℝ) ^ 1⌋ with hm
  have h5 : ((5 : ℕ) : ℝ) / (10 : ℝ) ^ 1 = 1 / 2 := by norm_num
  have hlo : (m : ℝ) ≤ d / L + 1 / 2 := by rw [hm, h5]; exact Int.floor_le _
  have hhi : d / L + 1 / 2 < (m : ℝ) + 1 := by rw [hm, h5]; exact Int.lt_floor_add_one _
  have hx1 : d - L * m ≥ -(L / 2) := by
    have := mul_le_mul_of_nonneg_left hlo (le_of_lt hL)
    have e : L * (d / L + 1 / 2) = d + L / 2 := by field_simp
    linarith
  have hx2 : d - L * m < L / 2 := by
    have := mul_lt_mul_of_pos_left hhi hL
    have e : L * (d / L + 1 / 2) = d + L / 2 := by field_simp
    linarith
  have habs : |d - L * m| ≤ L / 2 := abs_le.mpr ⟨by linarith, le_of_lt hx2⟩
  -- any other image is at least as far
  have hfar : ∀ j : ℤ, |d - L * m| ≤ |d - L * m + j * L| := by
    intro j
    by_cases hj : j = 0
    · simp [hj]
    · have hj1 : (1 : ℝ) ≤ |(j : ℝ)| := by
        have : (1 : ℤ) ≤ |j| := Int.one_le_abs hj
        exact_mod_cast this
      have h1 : |(j : ℝ) * L| = |(j : ℝ)| * L := by rw [abs_mul, abs_of_pos hL]
      have h2 : |(j : ℝ) * L| - |d - L * m| ≤ |d - L * m + j * L| := by
        have := abs_sub_abs_le_abs_sub ((j : ℝ) * L) (-(d - L * m))
        rw [abs_neg, sub_neg_eq_add] at this
        rw [add_comm]; exact this
      nlinarith [hj1, hL, habs, h1, h2]
  rcases abs_cases (a - b) with ⟨he, _⟩ | ⟨he, _⟩
  · -- a - b = d
    have hab : a - b = d := by rw [hd]; exact he.symm
    refine ⟨fun n => ?_, ⟨-m, ?_⟩⟩
    · have := hfar (m + n)
      rw [hab]; convert this using 2; push_cast; ring
    · rw [hab]; congr 1; push_cast; ring
  · have hab : a - b = -d := by rw [hd]; linarith
    refine ⟨fun n => ?_, ⟨m, ?_⟩⟩
    · have := hfar (m - n)
      rw [hab, ← abs_neg (-d + n * L)]; convert this using 2; push_cast; ring
    · rw [hab, ← abs_neg (-d + (m : ℝ) * L)]; congr 1; ring

/-- the rule as shipped before the repair (`if dx > L/2: dx = dx - L`, one fold only) -/
noncomputable def miCompShipped (a b L : ℝ) : ℝ := if L / 2 < |a - b| then |a - b| - L else |a - b|

/-- negation witness (finding F16): for a separation of 2.3 box lengths the shipped rule returns 1.3, the nearest image is at 0.3 -/
theorem miCompShipped_not_nearest : ∃ a b L : ℝ, 0 < L ∧ ∃ n : ℤ, |a - b + n * L| < |miCompShipped a b L| := by
  refine ⟨23 / 10, 0, 1, by norm_num, -2, ?_⟩
  unfold miCompShipped
  norm_num [abs_of_pos]

/-- the repair changes nothing for separations below one and a half box lengths (every wrapped trajectory) -/
theorem miComp_eq_shipped (a b L : ℝ) (hL : 0 < L) (h : |a - b| < 3 / 2 * L) : |miComp a b L| = |miCompShipped a b L| := by
  unfold miComp miCompShipped
  simp only [absS_eq, HasFloor_floor, dec_eq]
  have h5 : ((5 : ℕ) : ℝ) / (10 : ℝ) ^ 1 = 1 / 2 := by norm_num
  rw [h5]
  have hd : 0 ≤ |a - b| := abs_nonneg _
  by_cases hc : L / 2 < |a - b|
  · have : ⌊|a - b| / L + 1 / 2⌋ = 1 := by
      rw [Int.floor_eq_iff]
      constructor
      · have : 1 / 2 < |a - b| / L := by rw [lt_div_iff₀ hL]; linarith
        push_cast; linarith
      · have : |a - b| / L < 3 / 2 := by rw [div_lt_iff₀ hL]; linarith
        push_cast; linarith
    rw [this, if_pos hc]; simp
  · rw [if_neg hc]
    rcases eq_or_lt_of_le (not_lt.mp hc) with he | hlt
    · have : ⌊|a - b| / L + 1 / 2⌋ = 1 := by
        rw [he, Int.floor_eq_iff]; constructor
        · have : L / 2 / L = 1 / 2 := by field_simp
          push_cast; linarith
        · have : L / 2 / L = 1 / 2 := by field_simp
          push_cast; linarith
      rw [this, he]; push_cast
      rw [show L / 2 - L * 1 = -(L / 2) by ring, abs_neg]
    · have : ⌊|a - b| / L + 1 / 2⌋ = 0 := by
        rw [Int.floor_eq_iff]; constructor
        · have : 0 ≤ |a - b| / L := div_nonneg hd (le_of_lt hL)
          push_cast; linarith
        · have : |a - b| / L < 1 / 2 := by rw [div_lt_iff₀ hL]; linarith
          push_cast; linarith
      rw [this]; simp

/-! ### non-vacuity -/

/-- a two-site self frame: the hypotheses of the theorems above are satisfiable -/
noncomputable def exFrame : DebFrame ℝ :=
  { n1 := 2, n2 := 2, M1 := fun _ => 0, M2 := fun _ => 0, R1 := fun i x => if x = 2 then (i : ℝ) else 0,
    R2 := fun i x => if x = 2 then (i : ℝ) else 0, L := fun _ => 10 }

example : SelfFrame exFrame := ⟨rfl, rfl, rfl⟩
example : PermOn (Equiv.swap 0 1) exFrame.n1 := by
  intro i
  show i < 2 ↔ (Equiv.swap 0 1) i < 2
  rcases Nat.lt_or_ge i 2 with h | h
  · interval_cases i <;> simp
  · rw [Equiv.swap_apply_of_ne_of_ne (by omega) (by omega)]
example : chunkRow 5 4 0 = (0, 2) ∧ chunkRow 5 4 1 = (2, 4) ∧ chunkRow 5 4 2 = (4, 5) ∧ chunkRow 5 4 3 = (0, 0) := by decide

end C18
