import Proofs.Props.C01
import Proofs.Props.C08
import Mathlib.Analysis.SpecialFunctions.Integrals.Basic
/-!
# C02 — Solutions reproduce exact results: PY hard spheres and the dilute limit   (PARTIAL)

FULL statement (not proved): the numerically solved g(r), S(k), c(r) converge to the Wertheim–Thiele
functions and to the dilute-limit forms with an error `≤ const · dr` that shrinks under refinement.
A proof needs a stability analysis of the discretised non-linear integral equation; Mathlib has no theory
of the PY equation.  That part is *validated numerically* by the harness (refinement families).

Proved here (all `…_partial`): the rank-1 reduction of what `cost` leaves on the object (pins site vs
pair density and the sign conventions), the `ρ → 0` fixed point, what each closure gives there, and the
mutual consistency of the analytic reference values the harness compares against.
-/
open Finset Real

namespace C02

/-- rank 1: the PRISM equation `ρ²h = ρω c (ρω + ρ²h)` is the Ornstein–Zernike relation
`h (1 − ρ ω c) = ω c ω`, and the structure factor `S = ω + ρ h` satisfies `S (1 − ρ ω c) = ω` -/
theorem rank1_oz_partial (ρ ω c h : ℝ) (hρ : ρ ≠ 0) (heq : ρ ^ 2 * h = ρ * ω * c * (ρ * ω + ρ ^ 2 * h)) :
    h * (1 - ρ * ω * c) = ω * c * ω ∧ (ω + ρ * h) * (1 - ρ * ω * c) = ω := by
  have h1 : h = ω * c * (ω + ρ * h) := by
    have : ρ ^ 2 * h = ρ ^ 2 * (ω * c * (ω + ρ * h)) := by rw [heq]; ring
    exact mul_left_cancel₀ (pow_ne_zero 2 hρ) this
  constructor
  · linear_combination h1
  · linear_combination ρ * h1

/-- the same for what a one-component `cost` evaluation stores (via `C01.prism_equation_of_cost`) -/
theorem rank1_from_cost_partial {inv : ℕ → Array ℝ → Array ℝ} {p q : Prism ℝ} {x : Array ℝ}
    (w : PWf p) (hn : p.n = 1) (hc : p.cost inv x = .ok q) {l : ℕ} (hl : l < p.dom.length)
    (hinv : InvOn inv p.n fun i j => (if i = j then 1 else 0) - ∑ k ∈ range p.n, p.omega.at l i k * q.directCorr.at l k j)
    (hρ : p.pairD.at 0 0 0 ≠ 0) :
    p.pairD.at 0 0 0 * q.totalCorr.at l 0 0 =
      p.omega.at l 0 0 * q.directCorr.at l 0 0 * (p.omega.at l 0 0 + p.pairD.at 0 0 0 * q.totalCorr.at l 0 0) := by
  have hρ' : ∀ i j, i < p.n → j < p.n → p.pairD.at 0 i j ≠ 0 := by
    intro i j hi hj
    have hi0 : i = 0 := by omega
    have hj0 : j = 0 := by omega
    subst hi0; subst hj0; exact hρ
  have h := C01.prism_equation_of_cost w hc hl hinv hρ'
  have h00 := congrFun (congrFun h ⟨0, by omega⟩) ⟨0, by omega⟩
  simp only [C01.matH, C01.mat, Matrix.of_apply, Matrix.mul_apply, Matrix.add_apply] at h00
  have e : ∀ f : Fin p.n → ℝ, ∑ i : Fin p.n, f i = f ⟨0, by omega⟩ := by
    intro f
    have : (Finset.univ : Finset (Fin p.n)) = {⟨0, by omega⟩} := by
      ext a; simp only [Finset.mem_univ, Finset.mem_singleton, true_iff]; apply Fin.ext; have := a.2; simp; omega
    rw [this, Finset.sum_singleton]
  rw [e, e] at h00
  simpa using h00

/-- **dilute limit of the matrix step**: for fixed closure output `c`, `h(ρ) = ω c ω / (1 − ρ ω c) → ω c ω` as `ρ → 0` -/
theorem dilute_fixed_point_partial (ω c : ℝ) :
    Filter.Tendsto (fun ρ : ℝ => ω * c * ω / (1 - ρ * ω * c)) (nhds 0) (nhds (ω * c * ω)) := by
  have h1 : Filter.Tendsto (fun ρ : ℝ => 1 - ρ * ω * c) (nhds 0) (nhds 1) := by
    have : Continuous fun ρ : ℝ => 1 - ρ * ω * c := by continuity
    simpa using this.tendsto 0
  have h2 := Filter.Tendsto.div (tendsto_const_nhds (x := ω * c * ω) (f := nhds (0 : ℝ))) h1 one_ne_zero
  rw [div_one] at h2
  exact h2

/-- for single-site molecules (`ω = 1`) `γ_out = h − c → 0` at `γ_in = 0`: `γ ≡ 0` is the fixed point of the `ρ → 0` map -/
theorem dilute_gamma_zero_partial (c : ℝ) :
    Filter.Tendsto (fun ρ : ℝ => 1 * c * 1 / (1 - ρ * 1 * c) - c) (nhds 0) (nhds 0) := by
  have := (dilute_fixed_point_partial 1 c).sub_const c
  simpa using this

/-- … and it is reached at first order in the density: `|γ_out| = |h − c| ≤ 2 ρ c²` as soon as `ρ|c| ≤ 1/2`.  (The harness evaluates the
self-consistency function at `γ = 0` for densities down to 1e-20 and requires it to be `O(ρ)`; a rearrangement of the matrix step
that cancels catastrophically at small `ρ` fails that without any solve.) -/
theorem dilute_gamma_order_rho_partial (ρ c : ℝ) (h : |ρ * c| ≤ 1 / 2) :
    |1 * c * 1 / (1 - ρ * 1 * c) - c| ≤ 2 * |ρ| * c ^ 2 := by
  have hpos : (1 : ℝ) / 2 ≤ 1 - ρ * c := by
    have := (abs_le.mp h).2; linarith
  have hne : 1 - ρ * c ≠ 0 := by linarith
  have e : 1 * c * 1 / (1 - ρ * 1 * c) - c = ρ * c ^ 2 / (1 - ρ * c) := by
    have h1 : (1 - ρ * 1 * c) = (1 - ρ * c) := by ring
    rw [h1, one_mul, mul_one, div_sub' hne, div_left_inj' hne]
    ring
  rw [e, abs_div, abs_mul, abs_of_pos (by linarith : (0 : ℝ) < 1 - ρ * c), abs_of_nonneg (sq_nonneg c)]
  rw [div_le_iff₀ (by linarith)]
  have hnn : 0 ≤ |ρ| * c ^ 2 := mul_nonneg (abs_nonneg _) (sq_nonneg _)
  nlinarith

/-- and at `γ = 0` the closures give the dilute-limit forms: `g = 1 + c = e^{-u/kT}` (PY, HNC), `1 − u/kT` (MSA),
`0` inside a flagged core -/
theorem dilute_closures_partial (u σ r : ℝ) :
    1 + closureAt .py false σ r 0 u = Real.exp (-u) ∧ 1 + closureAt .hnc false σ r 0 u = Real.exp (-u) ∧
    1 + closureAt .msa false σ r 0 u = 1 - u ∧
    (r ≤ σ → ∀ k, 1 + closureAt k true σ r 0 u = 0) ∧ (σ < r → 1 + closureAt .msa true σ r 0 u = 1 - u) := by
  refine ⟨?_, ?_, ?_, ?_, ?_⟩
  · simp [closureAt, closureFormula]
  · simp [closureAt, closureFormula]
  · simp [closureAt, closureFormula]; ring
  · intro h k; rw [C09.core_branch k σ r 0 u h]; ring
  · intro h; simp [closureAt, closureFormula, h]; ring

/-- the reported second virial coefficient without extrapolation, `−ĥ(k₀)/2`, for a real-space `h` with samples `f_i`
(in the dilute limit `f = e^{-u/kT} − 1`) is `−2π dr Σ r_i f_i sin(k₀ s_i)/k₀`, `s_i = r_i − dr/2`: the Riemann sum of
`−2π ∫ f r² dr` up to the factor `sin(k₀ s)/(k₀ s)` (→ 1 as `k₀ → 0`, `C08.k_to_zero`) -/
theorem b2_riemann_partial (d : Dom ℝ) (hd : C07.DInv d) (f : Array ℝ) :
    -(1/2 : ℝ) * (d.toFourier f)[0]! =
      -(2 * π * d.dr) * ∑ i ∈ range d.length, (((i : ℝ) + 1) * d.dr) * f[i]! *
        (Real.sin (d.dk * ((((i : ℝ) + 1) * d.dr) - d.dr / 2)) / d.dk) := by
  have hdk0 : d.dk ≠ 0 := by
    obtain ⟨hN, hdr, hdk⟩ := hd
    have hNr : (d.length : ℝ) ≠ 0 := by exact_mod_cast hN.ne'
    rw [hdk]; exact div_ne_zero pi_ne_zero (mul_ne_zero hdr hNr)
  rw [C08.toFourier_riemann d hd f 0 hd.1]
  simp only [Nat.cast_zero, zero_add, one_mul]
  rw [Finset.mul_sum, Finset.mul_sum, Finset.mul_sum]
  apply Finset.sum_congr rfl; intro i _
  field_simp; ring

/-- the analytic reference values are mutually consistent: the contact value is `−c(1⁻)` (continuity of `γ` across
the core edge, where `g = 0` inside and `c = 0` outside) -/
theorem wertheim_contact_consistent_partial (η : ℝ) (hη : η ≠ 1) : -wtC η 1 = wtContact η := by
  have h1 : (1 - η) ≠ 0 := sub_ne_zero.mpr (Ne.symm hη)
  unfold wtC wtLam1 wtLam2 wtContact
  simp only [Lit_ofNat, powN_real]; push_cast
  field_simp
  ring

/-- … and `1 − ρ ĉ(0) = 1 − 24 η ∫₀¹ c(r) r² dr = (1+2η)²/(1−η)⁴ = 1/S(0)` -/
theorem wertheim_compressibility_consistent_partial (η : ℝ) (hη : η ≠ 1) (hη2 : 1 + 2 * η ≠ 0) :
    1 - 24 * η * (∫ r in (0 : ℝ)..1, wtC η r * r ^ 2) = 1 / wtS0 η := by
  have h1 : (1 - η) ≠ 0 := sub_ne_zero.mpr (Ne.symm hη)
  have hint : (∫ r in (0 : ℝ)..1, wtC η r * r ^ 2) = -(wtLam1 η / 3 + 6 * η * wtLam2 η / 4 + η * wtLam1 η / 2 / 6) := by
    have e : ∀ r : ℝ, wtC η r * r ^ 2 = -(wtLam1 η * r ^ 2 + 6 * η * wtLam2 η * r ^ 3 + η * wtLam1 η / 2 * r ^ 5) := by
      intro r; unfold wtC; simp only [Lit_ofNat, powN_real]; push_cast; ring
    simp_rw [e]
    rw [intervalIntegral.integral_neg, intervalIntegral.integral_add, intervalIntegral.integral_add,
      intervalIntegral.integral_const_mul, intervalIntegral.integral_const_mul, intervalIntegral.integral_const_mul,
      integral_pow, integral_pow, integral_pow]
    · norm_num; ring
    · exact (continuous_const.mul (continuous_pow 2)).intervalIntegrable _ _
    · exact (continuous_const.mul (continuous_pow 3)).intervalIntegrable _ _
    · exact ((continuous_const.mul (continuous_pow 2)).add (continuous_const.mul (continuous_pow 3))).intervalIntegrable _ _
    · exact (continuous_const.mul (continuous_pow 5)).intervalIntegrable _ _
  rw [hint]
  unfold wtLam1 wtLam2 wtS0
  simp only [Lit_ofNat, powN_real]; push_cast
  field_simp
  ring

/-- the values at a concrete packing fraction (η = 0.3): contact value 2.3469…, `S(0)` 0.0938… -/
example : wtContact (3/10 : ℝ) = 115 / 49 ∧ wtS0 (3/10 : ℝ) = 2401 / 25600 := by
  unfold wtContact wtS0; simp only [Lit_ofNat, powN_real]; push_cast; constructor <;> norm_num

end C02
