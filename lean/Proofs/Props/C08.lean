import Proofs.Props.C07
import Proofs.Riemann
import Mathlib.Analysis.SpecialFunctions.Trigonometric.Deriv
import Mathlib.Analysis.Calculus.Deriv.Slope
/-!
# C08 — to_fourier / to_real approximate the continuous 3-D radial Fourier transform

`toFourier_riemann` / `toReal_riemann` rewrite the transforms as the half-cell-offset Riemann sums of
`F(k) = (4π/k) ∫ f(r) r sin(kr) dr` and `f(r) = (1/(2π² r)) ∫ F(k) k sin(kr) dk`: they pin the two prefactors
`4π` and `1/(2π²)` *individually* (a compensating pair would break both) and the conjugate spacing.
`toFourier_error_bound` is the first-order accuracy statement, linear in `dr` at fixed `r_max` and `k`.
The closed-form transforms of the Gaussian / Yukawa / exponential / sphere families are textbook inputs
used only as numerical references by the harness.
-/
open Finset Real

namespace C08

/-- **forward transform as a Riemann sum with the 3-D prefactor 4π** -/
theorem toFourier_riemann (d : Dom ℝ) (hd : C07.DInv d) (f : Array ℝ) (j : ℕ) (hj : j < d.length) :
    (d.toFourier f)[j]! =
      (4 * π * d.dr / (((j : ℝ) + 1) * d.dk)) *
        ∑ i ∈ range d.length, (((i : ℝ) + 1) * d.dr) * f[i]! * Real.sin ((((j : ℝ) + 1) * d.dk) * ((((i : ℝ) + 1) * d.dr) - d.dr / 2)) := by
  obtain ⟨hN, hdr, hdk⟩ := hd
  have hNr : (d.length : ℝ) ≠ 0 := by exact_mod_cast hN.ne'
  rw [C07.toFourier_entry d f j hj, dst2_entry d.length _ j hj]
  have hterm : ∀ i ∈ range d.length,
      (tab d.length fun i => d.c2 i * f[i]!)[i]! * Real.sin ((2 * (i : ℝ) + 1) * ((j : ℝ) + 1) * (π / (2 * d.length)))
      = (2 * π * d.dr) * ((((i : ℝ) + 1) * d.dr) * f[i]! * Real.sin ((((j : ℝ) + 1) * d.dk) * ((((i : ℝ) + 1) * d.dr) - d.dr / 2))) := by
    intro i hi
    rw [tab_get _ _ _ (mem_range.mp hi)]
    have harg : (2 * (i : ℝ) + 1) * ((j : ℝ) + 1) * (π / (2 * d.length)) = (((j : ℝ) + 1) * d.dk) * ((((i : ℝ) + 1) * d.dr) - d.dr / 2) := by
      rw [hdk]; field_simp; ring
    rw [harg]
    simp only [Dom.c2, Lit_ofNat, Transc_pi]; push_cast; ring
  rw [Finset.sum_congr rfl hterm, ← Finset.mul_sum]
  have : ((j : ℝ) + 1) ≠ 0 := by positivity
  have hdk0 : d.dk ≠ 0 := by rw [hdk]; exact div_ne_zero pi_ne_zero (mul_ne_zero hdr hNr)
  field_simp; ring

/-- **backward transform as a Riemann sum with the 3-D prefactor 1/(2π²)** (last term half weight) -/
theorem toReal_riemann (d : Dom ℝ) (hd : C07.DInv d) (F : Array ℝ) (i : ℕ) (hi : i < d.length) :
    (d.toReal F)[i]! =
      (d.dk / (2 * π ^ 2 * (((i : ℝ) + 1) * d.dr))) *
        ∑ j ∈ range d.length, TrigSums.w d.length j *
          ((((j : ℝ) + 1) * d.dk) * F[j]! * Real.sin ((((j : ℝ) + 1) * d.dk) * ((((i : ℝ) + 1) * d.dr) - d.dr / 2))) := by
  obtain ⟨hN, hdr, hdk⟩ := hd
  have hNr : (d.length : ℝ) ≠ 0 := by exact_mod_cast hN.ne'
  rw [C07.toReal_entry d F i hi, dst3_entry d.length hN _ i hi]
  have hterm : ∀ j ∈ range d.length,
      TrigSums.w d.length j * ((tab d.length fun j => d.c3 j * F[j]!)[j]! * Real.sin ((2 * (i : ℝ) + 1) * ((j : ℝ) + 1) * (π / (2 * d.length))))
      = (d.dk / (4 * π ^ 2)) * (TrigSums.w d.length j * ((((j : ℝ) + 1) * d.dk) * F[j]! *
          Real.sin ((((j : ℝ) + 1) * d.dk) * ((((i : ℝ) + 1) * d.dr) - d.dr / 2)))) := by
    intro j hj
    rw [tab_get _ _ _ (mem_range.mp hj)]
    have harg : (2 * (i : ℝ) + 1) * ((j : ℝ) + 1) * (π / (2 * d.length)) = (((j : ℝ) + 1) * d.dk) * ((((i : ℝ) + 1) * d.dr) - d.dr / 2) := by
      rw [hdk]; field_simp; ring
    rw [harg]
    simp only [Dom.c3, Lit_ofNat, Transc_pi]; push_cast; field_simp
  rw [Finset.sum_congr rfl hterm, ← Finset.mul_sum]
  have hi1 : ((i : ℝ) + 1) ≠ 0 := by positivity
  have key : ∀ S : ℝ, 2 * (d.dk / (4 * π ^ 2) * S) / (((i : ℝ) + 1) * d.dr) = d.dk / (2 * π ^ 2 * (((i : ℝ) + 1) * d.dr)) * S := by
    intro S; field_simp; ring
  exact key _

theorem w_nonneg (N j : ℕ) : 0 ≤ TrigSums.w N j := by unfold TrigSums.w; split <;> norm_num

/-- **the half-cell offset of the backward transform costs at most `dr/2` times a first moment**: `to_real(F)(r_i)` differs
from the exact-phase sine sum `(dk/(2π² r_i)) Σ' k_j F_j sin(k_j r_i)` — the Riemann sum in `k` of the continuous inverse
transform `(1/(2π² r)) ∫ F k sin(kr) dk` on the grid's own wavenumbers — by at most `(dr/2)·(dk/(2π² r_i)) Σ' k_j² |F_j|`.
For transforms that decay (so that the moment stays bounded as `k_max = π/dr` grows) this is the `O(dr)` error of the backward
transform at fixed `r`. -/
theorem toReal_phase_bound (d : Dom ℝ) (hd : C07.DInv d) (hdr : 0 < d.dr) (hdk : 0 < d.dk) (F : Array ℝ) (i : ℕ) (hi : i < d.length) :
    |(d.toReal F)[i]! - (d.dk / (2 * π ^ 2 * (((i : ℝ) + 1) * d.dr))) *
        ∑ j ∈ range d.length, TrigSums.w d.length j * ((((j : ℝ) + 1) * d.dk) * F[j]! * Real.sin ((((j : ℝ) + 1) * d.dk) * (((i : ℝ) + 1) * d.dr)))|
      ≤ (d.dr / 2) * ((d.dk / (2 * π ^ 2 * (((i : ℝ) + 1) * d.dr))) *
        ∑ j ∈ range d.length, TrigSums.w d.length j * ((((j : ℝ) + 1) * d.dk) ^ 2 * |F[j]!|)) := by
  rw [toReal_riemann d hd F i hi, ← mul_sub, ← Finset.sum_sub_distrib, abs_mul]
  have hpre : 0 < d.dk / (2 * π ^ 2 * (((i : ℝ) + 1) * d.dr)) := by positivity
  rw [abs_of_pos hpre]
  suffices hmain : |∑ j ∈ range d.length, (TrigSums.w d.length j * ((((j : ℝ) + 1) * d.dk) * F[j]! * Real.sin ((((j : ℝ) + 1) * d.dk) * ((((i : ℝ) + 1) * d.dr) - d.dr / 2)))
          - TrigSums.w d.length j * ((((j : ℝ) + 1) * d.dk) * F[j]! * Real.sin ((((j : ℝ) + 1) * d.dk) * (((i : ℝ) + 1) * d.dr))))|
      ≤ d.dr / 2 * ∑ j ∈ range d.length, TrigSums.w d.length j * ((((j : ℝ) + 1) * d.dk) ^ 2 * |F[j]!|) by
    calc _ ≤ d.dk / (2 * π ^ 2 * (((i : ℝ) + 1) * d.dr)) * (d.dr / 2 * ∑ j ∈ range d.length, TrigSums.w d.length j * ((((j : ℝ) + 1) * d.dk) ^ 2 * |F[j]!|)) :=
          mul_le_mul_of_nonneg_left hmain hpre.le
      _ = _ := by ring
  rw [Finset.mul_sum]
  calc |∑ j ∈ range d.length, (TrigSums.w d.length j * ((((j : ℝ) + 1) * d.dk) * F[j]! * Real.sin ((((j : ℝ) + 1) * d.dk) * ((((i : ℝ) + 1) * d.dr) - d.dr / 2)))
          - TrigSums.w d.length j * ((((j : ℝ) + 1) * d.dk) * F[j]! * Real.sin ((((j : ℝ) + 1) * d.dk) * (((i : ℝ) + 1) * d.dr))))|
      ≤ ∑ j ∈ range d.length, |TrigSums.w d.length j * ((((j : ℝ) + 1) * d.dk) * F[j]! * Real.sin ((((j : ℝ) + 1) * d.dk) * ((((i : ℝ) + 1) * d.dr) - d.dr / 2)))
          - TrigSums.w d.length j * ((((j : ℝ) + 1) * d.dk) * F[j]! * Real.sin ((((j : ℝ) + 1) * d.dk) * (((i : ℝ) + 1) * d.dr)))| :=
        Finset.abs_sum_le_sum_abs _ _
    _ ≤ ∑ j ∈ range d.length, d.dr / 2 * (TrigSums.w d.length j * ((((j : ℝ) + 1) * d.dk) ^ 2 * |F[j]!|)) := by
        apply Finset.sum_le_sum
        intro j _
        have hw := w_nonneg d.length j
        have hk : 0 < ((j : ℝ) + 1) * d.dk := by positivity
        rw [← mul_sub, ← mul_sub, abs_mul, abs_mul, abs_mul, abs_of_nonneg hw, abs_of_pos hk]
        have hsin : |Real.sin ((((j : ℝ) + 1) * d.dk) * ((((i : ℝ) + 1) * d.dr) - d.dr / 2)) - Real.sin ((((j : ℝ) + 1) * d.dk) * (((i : ℝ) + 1) * d.dr))|
            ≤ (((j : ℝ) + 1) * d.dk) * (d.dr / 2) := by
          calc _ ≤ |(((j : ℝ) + 1) * d.dk) * ((((i : ℝ) + 1) * d.dr) - d.dr / 2) - (((j : ℝ) + 1) * d.dk) * (((i : ℝ) + 1) * d.dr)| := Real.abs_sin_sub_sin_le _ _
            _ = (((j : ℝ) + 1) * d.dk) * (d.dr / 2) := by
                rw [← mul_sub, abs_mul, abs_of_pos hk]; congr 1
                rw [show (((i : ℝ) + 1) * d.dr - d.dr / 2 - ((i : ℝ) + 1) * d.dr) = -(d.dr / 2) by ring, abs_neg, abs_of_pos (by positivity)]
        calc TrigSums.w d.length j * ((((j : ℝ) + 1) * d.dk) * |F[j]!| * |Real.sin ((((j : ℝ) + 1) * d.dk) * ((((i : ℝ) + 1) * d.dr) - d.dr / 2)) - Real.sin ((((j : ℝ) + 1) * d.dk) * (((i : ℝ) + 1) * d.dr))|)
            ≤ TrigSums.w d.length j * ((((j : ℝ) + 1) * d.dk) * |F[j]!| * ((((j : ℝ) + 1) * d.dk) * (d.dr / 2))) := by
              apply mul_le_mul_of_nonneg_left _ hw
              apply mul_le_mul_of_nonneg_left hsin (by positivity)
          _ = d.dr / 2 * (TrigSums.w d.length j * ((((j : ℝ) + 1) * d.dk) ^ 2 * |F[j]!|)) := by ring

/-- **first-order accuracy of the forward transform.**  Let `g(r) = r f(r)` be continuous, bounded by `M₀` and
`M₁`-Lipschitz, and let the array hold the samples `f(r_i)`.  Then at every grid wavenumber `k_j`
`|to_fourier(f)(k_j) − (4π/k_j) ∫₀^{r_max} f(r) r sin(k_j r) dr| ≤ (4π/k_j) · r_max · (M₁ + M₀ k_j / 2) · dr`:
a constant (at fixed `r_max`, `k`) times `dr`, so it halves when `dr` is halved. -/
theorem toFourier_error_bound (d : Dom ℝ) (hd : C07.DInv d) (hdr : 0 < d.dr) (hdk : 0 < d.dk)
    (g : ℝ → ℝ) (hg : Continuous g) (M0 M1 : ℝ) (hM0 : ∀ x, |g x| ≤ M0) (hM1 : ∀ x y, |g x - g y| ≤ M1 * |x - y|)
    (f : Array ℝ) (hf : ∀ i < d.length, (((i : ℝ) + 1) * d.dr) * f[i]! = g (((i : ℝ) + 1) * d.dr))
    (j : ℕ) (hj : j < d.length) :
    |(d.toFourier f)[j]! - (4 * π / (((j : ℝ) + 1) * d.dk)) * ∫ r in (0 : ℝ)..(d.length * d.dr), g r * Real.sin ((((j : ℝ) + 1) * d.dk) * r)|
      ≤ (4 * π / (((j : ℝ) + 1) * d.dk)) * (d.length * d.dr * ((M1 + M0 * (((j : ℝ) + 1) * d.dk) / 2) * d.dr)) := by
  set k : ℝ := ((j : ℝ) + 1) * d.dk with hk
  have hkpos : 0 < k := by positivity
  rw [toFourier_riemann d hd f j hj]
  have hsum : ∑ i ∈ range d.length, (((i : ℝ) + 1) * d.dr) * f[i]! * Real.sin (k * ((((i : ℝ) + 1) * d.dr) - d.dr / 2))
      = ∑ n ∈ range d.length, g (((n : ℝ) + 1) * d.dr) * Real.sin (k * (((n : ℝ) + 1) * d.dr - d.dr / 2)) := by
    apply Finset.sum_congr rfl; intro i hi; rw [hf i (mem_range.mp hi)]
  rw [hsum]
  have hq := sine_quadrature_first_order g hg M0 M1 k d.dr d.length hdr hkpos.le hM0 hM1
  have hpre : 4 * π * d.dr / k = (4 * π / k) * d.dr := by ring
  rw [hpre, mul_assoc, ← mul_sub, abs_mul, abs_of_pos (show 0 < 4 * π / k by positivity)]
  apply mul_le_mul_of_nonneg_left _ (by positivity)
  rw [abs_sub_comm]; exact hq

/-- **k → 0**: the value the forward Riemann sum tends to is `4π dr Σ r_i f_i (r_i − dr/2)`, the Riemann sum
of the volume integral `4π ∫ f r² dr` -/
theorem k_to_zero (dr : ℝ) (N : ℕ) (rf s : ℕ → ℝ) :
    Filter.Tendsto (fun κ : ℝ => (4 * π * dr / κ) * ∑ i ∈ range N, rf i * Real.sin (κ * s i))
      (nhdsWithin 0 {0}ᶜ) (nhds (4 * π * dr * ∑ i ∈ range N, rf i * s i)) := by
  have hone : ∀ i, Filter.Tendsto (fun κ : ℝ => Real.sin (κ * s i) / κ) (nhdsWithin 0 {0}ᶜ) (nhds (s i)) := by
    intro i
    have hder : HasDerivAt (fun κ : ℝ => Real.sin (κ * s i)) (s i) 0 := by
      have h1 : HasDerivAt (fun κ : ℝ => κ * s i) (s i) 0 := by simpa using (hasDerivAt_id' (0 : ℝ)).mul_const (s i)
      have := h1.sin
      simpa using this
    have := hder.tendsto_slope_zero
    simpa [slope_def_field, div_eq_inv_mul] using this
  have hsum : Filter.Tendsto (fun κ : ℝ => ∑ i ∈ range N, rf i * (Real.sin (κ * s i) / κ)) (nhdsWithin 0 {0}ᶜ)
      (nhds (∑ i ∈ range N, rf i * s i)) :=
    tendsto_finset_sum _ fun i _ => (hone i).const_mul (rf i)
  have := hsum.const_mul (4 * π * dr)
  refine this.congr' ?_
  filter_upwards [self_mem_nhdsWithin] with κ hκ
  rw [Finset.mul_sum, Finset.mul_sum]
  apply Finset.sum_congr rfl; intro i _
  have : κ ≠ 0 := hκ
  field_simp

/-- non-vacuity: a bounded Lipschitz `g` exists (`g = sin`: `M₀ = 1`, `M₁ = 1`) -/
example : (∀ x : ℝ, |Real.sin x| ≤ 1) ∧ (∀ x y : ℝ, |Real.sin x - Real.sin y| ≤ 1 * |x - y|) :=
  ⟨Real.abs_sin_le_one, fun x y => by rw [one_mul]; exact Real.abs_sin_sub_sin_le x y⟩

/-! ### the unit of length: a Domain with spacing `u·dr` (hence `dk/u`) -/

/-- the same grid in another unit of length -/
noncomputable def scaleDom (u : ℝ) (d : Dom ℝ) : Dom ℝ := ⟨d.length, u * d.dr, d.dk / u⟩

theorem scaleDom_inv (u : ℝ) (hu : u ≠ 0) (d : Dom ℝ) (hd : C07.DInv d) : C07.DInv (scaleDom u d) := by
  obtain ⟨hN, hdr, hdk⟩ := hd
  refine ⟨hN, mul_ne_zero hu hdr, ?_⟩
  show d.dk / u = π / (u * d.dr * d.length)
  rw [hdk]; field_simp

/-- **forward transform under a change of the unit of length**: the same samples on the grid `u·r` transform to `u³` times the
transform on `r`, at the wavenumbers `k/u` — the behaviour of a volume integral `∫ f d³r`; in particular no absolute length
enters `to_fourier` -/
theorem toFourier_length_unit (u : ℝ) (hu : u ≠ 0) (d : Dom ℝ) (hd : C07.DInv d) (f : Array ℝ) (j : ℕ) (hj : j < d.length) :
    ((scaleDom u d).toFourier f)[j]! = u ^ 3 * (d.toFourier f)[j]! := by
  rw [toFourier_riemann _ (scaleDom_inv u hu d hd) f j hj, toFourier_riemann d hd f j hj]
  obtain ⟨hN, hdr, hdk⟩ := hd
  show (4 * π * (u * d.dr) / (((j : ℝ) + 1) * (d.dk / u))) *
      ∑ i ∈ range d.length, (((i : ℝ) + 1) * (u * d.dr)) * f[i]! * Real.sin ((((j : ℝ) + 1) * (d.dk / u)) * ((((i : ℝ) + 1) * (u * d.dr)) - (u * d.dr) / 2)) = _
  have harg : ∀ i : ℕ, (((j : ℝ) + 1) * (d.dk / u)) * ((((i : ℝ) + 1) * (u * d.dr)) - (u * d.dr) / 2)
      = (((j : ℝ) + 1) * d.dk) * ((((i : ℝ) + 1) * d.dr) - d.dr / 2) := by
    intro i; field_simp
  simp only [harg]
  have hterm : ∀ i ∈ range d.length, (((i : ℝ) + 1) * (u * d.dr)) * f[i]! * Real.sin ((((j : ℝ) + 1) * d.dk) * ((((i : ℝ) + 1) * d.dr) - d.dr / 2))
      = u * ((((i : ℝ) + 1) * d.dr) * f[i]! * Real.sin ((((j : ℝ) + 1) * d.dk) * ((((i : ℝ) + 1) * d.dr) - d.dr / 2))) := by
    intro i _; ring
  rw [Finset.sum_congr rfl hterm, ← Finset.mul_sum]
  have hj1 : ((j : ℝ) + 1) ≠ 0 := by positivity
  have hNr : (d.length : ℝ) ≠ 0 := by exact_mod_cast hN.ne'
  have hdk0 : d.dk ≠ 0 := by rw [hdk]; exact div_ne_zero pi_ne_zero (mul_ne_zero hdr hNr)
  generalize (∑ i ∈ range d.length, (((i : ℝ) + 1) * d.dr) * f[i]! * Real.sin ((((j : ℝ) + 1) * d.dk) * ((((i : ℝ) + 1) * d.dr) - d.dr / 2))) = S
  field_simp

end C08
