import Proofs.Props.C01
import Proofs.Props.C10
/-!
# C03 — Hard-core exclusion: g(r) vanishes everywhere inside the contact distance

For every evaluation of the self-consistency function (arbitrary `x`, arbitrary other pairs,
densities, ω — all universally quantified): inside a flagged core `c + γ = −1` exactly, hence
the stored `g = h + 1` equals `y / r` there; without the flag PY/HNC miss `−1 − γ` by exactly
`e^{−H/kT}(1+γ)` resp. `e^{γ − H/kT}` (which underflows to 0 for the shipped `high_value`s — the
float fact is in the trusted base and sampled).
-/
open Finset Real

namespace C03

/-- the hard-core flag, all four closures, every γ, u: `c + γ = −1` at every `r ≤ σ` -/
theorem hardcore_flag_exact (kind : CKind) (σ r γ u : ℝ) (h : r ≤ σ) : closureAt kind true σ r γ u + γ = -1 := by
  rw [C09.core_branch kind σ r γ u h]; ring

/-- PY without the flag on a potential of height `H/kT`: the miss is exactly `e^{-H/kT}(1+γ)` -/
theorem py_noflag_core (σ r γ u : ℝ) : closureAt .py false σ r γ u + γ + 1 = Real.exp (-u) * (1 + γ) := by
  unfold closureAt closureFormula; simp; ring

/-- HNC without the flag: the miss is exactly `e^{γ - H/kT}` -/
theorem hnc_noflag_core (σ r γ u : ℝ) : closureAt .hnc false σ r γ u + γ + 1 = Real.exp (γ - u) := by
  unfold closureAt closureFormula; simp

/-- the misses are bounded by `e^{-H/kT}` times a γ-dependent factor: they vanish as the core height grows -/
theorem noflag_core_bound (σ r γ u : ℝ) :
    |closureAt .py false σ r γ u + γ + 1| = Real.exp (-u) * |1 + γ| ∧
    |closureAt .hnc false σ r γ u + γ + 1| = Real.exp (-u) * Real.exp γ := by
  constructor
  · rw [py_noflag_core, abs_mul, abs_of_pos (Real.exp_pos _)]
  · rw [hnc_noflag_core, abs_of_pos (Real.exp_pos _), ← Real.exp_add]; congr 1; ring

/-- the hard-core potentials put the overlap value on exactly the set `{r ≤ σ}` the closures' masks use -/
theorem potential_core_agrees_with_closure_core (ε a σ high r : ℝ) (h : r ≤ σ) :
    hardSphere σ high r = high ∧ exponentialPot ε a σ high r = high ∧ hcLennardJones ε σ high r = high :=
  C10.hard_core_set ε a σ high r h

variable {inv : ℕ → Array ℝ → Array ℝ} {p q : Prism ℝ} {x : Array ℝ}

/-- **inside every flagged core, for every evaluation**: the real-space `c` left on the object satisfies
`c + γ_in = −1`, and the stored `g = h + 1` *is* the residual `y / r` — independently of all other
pairs, the densities, ω and the trial γ. -/
theorem core_g_eq_residual (hd : C07.DInv p.dom) (hc : p.cost inv x = .ok q)
    {l i j : ℕ} (hl : l < p.dom.length) (hij : i ≤ j) (hj : j < p.n)
    (hflag : (p.cloK i j).2 = true) (hcore : ((l : ℝ) + 1) * p.dom.dr ≤ p.cloSigma i j) (hdr : 0 < p.dom.dr) :
    C01.cReal q l i j + q.gammaIn.at l i j = -1 ∧
    C01.hReal q l i j + 1 = q.y[(l * p.n + i) * p.n + j]! / (((l : ℝ) + 1) * p.dom.dr) := by
  have hi : i < p.n := lt_of_le_of_lt hij hj
  obtain ⟨h1, h2, h3⟩ := C01.closure_relation_of_cost hd hc hl hi hj
  rw [loI_of_le hij, hiI_of_le hij] at h1
  have hcv : C01.cReal q l i j = -1 - q.gammaIn.at l i j := by
    rw [h1]; unfold C01.phi
    rw [loI_of_le hij, hiI_of_le hij, hflag]
    exact C09.core_branch _ _ _ _ _ hcore
  have hr : ((l : ℝ) + 1) * p.dom.dr ≠ 0 := by positivity
  refine ⟨by rw [hcv]; ring, ?_⟩
  rw [h3, mul_div_cancel_left₀ _ hr, h2, hcv]; ring

/-- the bound in the property: `|g| ≤ |y| / r` at every grid point inside a flagged core -/
theorem core_g_bound (hd : C07.DInv p.dom) (hc : p.cost inv x = .ok q)
    {l i j : ℕ} (hl : l < p.dom.length) (hij : i ≤ j) (hj : j < p.n)
    (hflag : (p.cloK i j).2 = true) (hcore : ((l : ℝ) + 1) * p.dom.dr ≤ p.cloSigma i j) (hdr : 0 < p.dom.dr) :
    |C01.hReal q l i j + 1| ≤ |q.y[(l * p.n + i) * p.n + j]!| / (((l : ℝ) + 1) * p.dom.dr) := by
  rw [(core_g_eq_residual hd hc hl hij hj hflag hcore hdr).2, abs_div,
    abs_of_pos (show 0 < ((l : ℝ) + 1) * p.dom.dr by positivity)]

/-- without the flag, on a pair whose potential is `H/kT` inside the core (PY): the stored `g`
differs from `y / r` by exactly the (underflowing) factor `e^{-H/kT}(1 + γ_in)` -/
theorem core_g_noflag_py (hd : C07.DInv p.dom) (hc : p.cost inv x = .ok q)
    {l i j : ℕ} (hl : l < p.dom.length) (hij : i ≤ j) (hj : j < p.n)
    (hk : p.cloK i j = (.py, false)) (hdr : 0 < p.dom.dr) :
    C01.hReal q l i j + 1 = q.y[(l * p.n + i) * p.n + j]! / (((l : ℝ) + 1) * p.dom.dr)
      + Real.exp (-(p.u i j)[l]!) * (1 + q.gammaIn.at l i j) := by
  have hi : i < p.n := lt_of_le_of_lt hij hj
  obtain ⟨h1, h2, h3⟩ := C01.closure_relation_of_cost hd hc hl hi hj
  rw [loI_of_le hij, hiI_of_le hij] at h1
  have hcv : C01.cReal q l i j = Real.exp (-(p.u i j)[l]!) * (1 + q.gammaIn.at l i j) - q.gammaIn.at l i j - 1 := by
    rw [h1]; unfold C01.phi
    rw [loI_of_le hij, hiI_of_le hij, hk]
    have := py_noflag_core (p.cloSigma i j) (((l : ℝ) + 1) * p.dom.dr) (q.gammaIn.at l i j) ((p.u i j)[l]!)
    linarith
  have hr : ((l : ℝ) + 1) * p.dom.dr ≠ 0 := by positivity
  rw [h3, mul_div_cancel_left₀ _ hr, h2, hcv]; ring

/-- HNC without the flag: the stored `g` differs from `y / r` by exactly `e^{γ_in − u}` (which underflows to 0 for the
shipped wall heights) -/
theorem core_g_noflag_hnc (hd : C07.DInv p.dom) (hc : p.cost inv x = .ok q)
    {l i j : ℕ} (hl : l < p.dom.length) (hij : i ≤ j) (hj : j < p.n)
    (hk : p.cloK i j = (.hnc, false)) (hdr : 0 < p.dom.dr) :
    C01.hReal q l i j + 1 = q.y[(l * p.n + i) * p.n + j]! / (((l : ℝ) + 1) * p.dom.dr)
      + Real.exp (q.gammaIn.at l i j - (p.u i j)[l]!) := by
  have hi : i < p.n := lt_of_le_of_lt hij hj
  obtain ⟨h1, h2, h3⟩ := C01.closure_relation_of_cost hd hc hl hi hj
  rw [loI_of_le hij, hiI_of_le hij] at h1
  have hcv : C01.cReal q l i j = Real.exp (q.gammaIn.at l i j - (p.u i j)[l]!) - q.gammaIn.at l i j - 1 := by
    rw [h1]; unfold C01.phi
    rw [loI_of_le hij, hiI_of_le hij, hk]
    have := hnc_noflag_core (p.cloSigma i j) (((l : ℝ) + 1) * p.dom.dr) (q.gammaIn.at l i j) ((p.u i j)[l]!)
    linarith
  have hr : ((l : ℝ) + 1) * p.dom.dr ≠ 0 := by positivity
  rw [h3, mul_div_cancel_left₀ _ hr, h2, hcv]; ring

/-- **the mirrored entries too**: for ANY ordered pair `(i, j)` — also `j < i`, the lower triangle that the closure loop never
visits — the stored `g` inside the flagged core of the unordered pair `{i, j}` is the residual at `(i, j)` over `r`; the
trial γ read is the one of the upper-triangle entry. -/
theorem core_g_eq_residual_any (hd : C07.DInv p.dom) (hc : p.cost inv x = .ok q)
    {l i j : ℕ} (hl : l < p.dom.length) (hi : i < p.n) (hj : j < p.n)
    (hflag : (p.cloK (loI i j) (hiI i j)).2 = true)
    (hcore : ((l : ℝ) + 1) * p.dom.dr ≤ p.cloSigma (loI i j) (hiI i j)) (hdr : 0 < p.dom.dr) :
    C01.cReal q l i j + q.gammaIn.at l (loI i j) (hiI i j) = -1 ∧
    C01.hReal q l i j + 1 = q.y[(l * p.n + i) * p.n + j]! / (((l : ℝ) + 1) * p.dom.dr)
      + (q.gammaIn.at l i j - q.gammaIn.at l (loI i j) (hiI i j)) := by
  obtain ⟨h1, h2, h3⟩ := C01.closure_relation_of_cost hd hc hl hi hj
  have hcv : C01.cReal q l i j = -1 - q.gammaIn.at l (loI i j) (hiI i j) := by
    rw [h1]; unfold C01.phi
    rw [hflag]
    exact C09.core_branch _ _ _ _ _ hcore
  have hr : ((l : ℝ) + 1) * p.dom.dr ≠ 0 := by positivity
  refine ⟨by rw [hcv]; ring, ?_⟩
  rw [h3, mul_div_cancel_left₀ _ hr, h2, hcv]; ring

/-- non-vacuity: a flagged core point exists on a concrete grid (`dr = 0.1`, `σ = 1`, `l = 4`) -/
example : ((4 : ℕ) + 1 : ℝ) * (1/10) ≤ 1 := by norm_num

end C03
