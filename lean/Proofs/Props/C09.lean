import Proofs.RealInst
import Mathlib.Analysis.SpecialFunctions.Exponential
/-!
# C09 — Closures equal their definitions and respect core, limit and purity rules

Model: `Model/Closure.lean`.  `closureAt kind hc σ r γ u` at `α := ℝ`.
Purity ("leaves its inputs unmodified", aliases) has no content in a value-level model and
is covered by the correspondence probes only; element-wise evaluation is a theorem about
the array function.
-/
namespace C09

/-! ## each closure is its published relation outside the core / with the flag off -/

theorem py_eq_published (hc : Bool) (σ r γ u : ℝ) (h : hc = false ∨ σ < r) :
    closureAt .py hc σ r γ u = (Real.exp (-u) - 1) * (1 + γ) := by
  unfold closureAt closureFormula
  rcases h with h | h <;> simp [h]

theorem hnc_eq_published (hc : Bool) (σ r γ u : ℝ) (h : hc = false ∨ σ < r) :
    closureAt .hnc hc σ r γ u = Real.exp (γ - u) - 1 - γ := by
  unfold closureAt closureFormula
  rcases h with h | h <;> simp [h]

theorem msa_eq_published (hc : Bool) (σ r γ u : ℝ) (h : hc = false ∨ σ < r) :
    closureAt .msa hc σ r γ u = -u := by
  unfold closureAt closureFormula
  rcases h with h | h <;> simp [h]

/-- the Martynov–Sarkisov relation in the `γ* = γ - u` form (variant B of DESIGN §4-C09), where the radicand is non-negative
(`Real.sqrt` is totalised to 0 below; the code returns `nan` there, as does the executed `Float` model) -/
theorem msB_eq_published (hc : Bool) (σ r γ u : ℝ) (h : hc = false ∨ σ < r) (_hrad : 0 ≤ 1 + 2 * (γ - u)) :
    closureAt .msB hc σ r γ u = Real.exp (Real.sqrt (1 + 2 * (γ - u)) - 1) - 1 - γ := by
  unfold closureAt closureFormula
  rcases h with h | h <;> simp [h]

/-- … and in the original 1983 form (variant A), where the radicand is non-negative -/
theorem msA_eq_published (hc : Bool) (σ r γ u : ℝ) (h : hc = false ∨ σ < r) (_hrad : 0 ≤ 1 + 2 * γ) :
    closureAt .msA hc σ r γ u = Real.exp (-u + Real.sqrt (1 + 2 * γ) - 1) - 1 - γ := by
  unfold closureAt closureFormula
  rcases h with h | h <;> simp [h]

/-- what the shipped Martynov–Sarkisov class computes (where its radicand is non-negative; `nan` otherwise) -/
theorem ms_shipped_formula (hc : Bool) (σ r γ u : ℝ) (h : hc = false ∨ σ < r) (_hrad : 0 ≤ γ - u + 5 / 10) :
    closureAt .ms hc σ r γ u = Real.exp (Real.sqrt (γ - u + 5 / 10) - 1) - 1 - γ := by
  unfold closureAt closureFormula
  rcases h with h | h <;> simp [h]

/-- **every** closure: with the hard-core flag, `c = -1 - γ` at every `r ≤ σ` -/
theorem core_branch (kind : CKind) (σ r γ u : ℝ) (h : r ≤ σ) : closureAt kind true σ r γ u = -1 - γ := by
  unfold closureAt
  simp [not_lt.mpr h]

/-! ## weak potential, small γ: `c = -u + O(second order)` -/

theorem py_linearises (γ u : ℝ) (hγ : |γ| ≤ 1 / 2) (hu : |u| ≤ 1 / 2) :
    |closureFormula .py γ u + u| ≤ 2 * (γ ^ 2 + u ^ 2) := by
  unfold closureFormula
  simp only [Transc_exp, Lit_ofNat, Nat.cast_one]
  have hu1 : |(-u)| ≤ 1 := by rw [abs_neg]; linarith
  have h1 := Real.abs_exp_sub_one_sub_id_le hu1
  have h2 := Real.abs_exp_sub_one_le hu1
  rw [abs_neg] at h2
  have e : (Real.exp (-u) - 1) * (1 + γ) + u = (Real.exp (-u) - 1 - (-u)) + (Real.exp (-u) - 1) * γ := by ring
  rw [e]
  calc |Real.exp (-u) - 1 - -u + (Real.exp (-u) - 1) * γ|
      ≤ |Real.exp (-u) - 1 - -u| + |(Real.exp (-u) - 1) * γ| := abs_add_le _ _
    _ ≤ (-u) ^ 2 + 2 * |u| * |γ| := by
        rw [abs_mul]; gcongr
    _ ≤ 2 * (γ ^ 2 + u ^ 2) := by
        have := sq_abs u; have := sq_abs γ
        nlinarith [sq_nonneg (|u| - |γ|), abs_nonneg u, abs_nonneg γ]

theorem hnc_linearises (γ u : ℝ) (hγ : |γ| ≤ 1 / 2) (hu : |u| ≤ 1 / 2) :
    |closureFormula .hnc γ u + u| ≤ 2 * (γ ^ 2 + u ^ 2) := by
  unfold closureFormula
  simp only [Transc_exp, Lit_ofNat, Nat.cast_one]
  have hx : |γ - u| ≤ 1 := by
    calc |γ - u| ≤ |γ| + |u| := abs_sub _ _
      _ ≤ 1 := by linarith
  have h1 := Real.abs_exp_sub_one_sub_id_le hx
  have e : Real.exp (γ - u) - 1 - γ + u = Real.exp (γ - u) - 1 - (γ - u) := by ring
  rw [e]
  calc |Real.exp (γ - u) - 1 - (γ - u)| ≤ (γ - u) ^ 2 := h1
    _ ≤ 2 * (γ ^ 2 + u ^ 2) := by nlinarith [sq_nonneg (γ + u)]

theorem msa_linearises (γ u : ℝ) : closureFormula .msa γ u + u = 0 := by
  unfold closureFormula; ring

/-- `s = √(1+2t) − 1` for `|t| ≤ 1/2`: `t − s = s²/2` and `|s| ≤ 2|t|` -/
theorem sqrt_shift (t : ℝ) (ht : |t| ≤ 1 / 2) :
    t - (Real.sqrt (1 + 2 * t) - 1) = (Real.sqrt (1 + 2 * t) - 1) ^ 2 / 2 ∧ |Real.sqrt (1 + 2 * t) - 1| ≤ 2 * |t| := by
  have hpos : 0 ≤ 1 + 2 * t := by have := (abs_le.mp ht).1; linarith
  have hsq : Real.sqrt (1 + 2 * t) ^ 2 = 1 + 2 * t := Real.sq_sqrt hpos
  have hs0 : 0 ≤ Real.sqrt (1 + 2 * t) := Real.sqrt_nonneg _
  constructor
  · nlinarith
  · have hfac : (Real.sqrt (1 + 2 * t) - 1) * (Real.sqrt (1 + 2 * t) + 1) = 2 * t := by nlinarith
    have hden : 1 ≤ Real.sqrt (1 + 2 * t) + 1 := by linarith
    have : |Real.sqrt (1 + 2 * t) - 1| * |Real.sqrt (1 + 2 * t) + 1| = 2 * |t| := by
      rw [← abs_mul, hfac, abs_mul]; simp
    have h1 : |Real.sqrt (1 + 2 * t) + 1| = Real.sqrt (1 + 2 * t) + 1 := abs_of_nonneg (by linarith)
    rw [h1] at this
    nlinarith [abs_nonneg (Real.sqrt (1 + 2 * t) - 1), abs_nonneg t]

/-- the published Martynov–Sarkisov form B (`γ* = γ − u`) reduces to `c = −u` to second order -/
theorem msB_linearises (γ u : ℝ) (hγ : |γ| ≤ 1 / 4) (hu : |u| ≤ 1 / 4) :
    |closureFormula .msB γ u + u| ≤ 12 * (γ ^ 2 + u ^ 2) := by
  unfold closureFormula
  simp only [Transc_exp, Transc_sqrt, Lit_ofNat, Nat.cast_one, Nat.cast_ofNat]
  set t := γ - u with ht
  have htb : |t| ≤ 1 / 2 := by
    calc |γ - u| ≤ |γ| + |u| := abs_sub _ _
      _ ≤ 1 / 2 := by linarith
  obtain ⟨h1, h2⟩ := sqrt_shift t htb
  set s := Real.sqrt (1 + 2 * t) - 1 with hs
  have hs1 : |s| ≤ 1 := by linarith
  have hexp := Real.abs_exp_sub_one_sub_id_le hs1
  have e : Real.exp s - 1 - γ + u = (Real.exp s - 1 - s) - s ^ 2 / 2 := by rw [ht] at h1; linarith
  rw [e]
  have hs2 : s ^ 2 ≤ 4 * t ^ 2 := by
    have := abs_nonneg s; have := abs_nonneg t
    calc s ^ 2 = |s| ^ 2 := (sq_abs s).symm
      _ ≤ (2 * |t|) ^ 2 := by gcongr
      _ = 4 * t ^ 2 := by rw [mul_pow, sq_abs]; norm_num
  calc |Real.exp s - 1 - s - s ^ 2 / 2| ≤ |Real.exp s - 1 - s| + |s ^ 2 / 2| := abs_sub _ _
    _ ≤ s ^ 2 + s ^ 2 / 2 := by
        rw [abs_of_nonneg (by positivity : 0 ≤ s ^ 2 / 2)]; linarith
    _ ≤ 6 * t ^ 2 := by linarith
    _ ≤ 12 * (γ ^ 2 + u ^ 2) := by rw [ht]; nlinarith [sq_nonneg (γ + u)]

/-- the published Martynov–Sarkisov form A (1983) reduces to `c = −u` to second order -/
theorem msA_linearises (γ u : ℝ) (hγ : |γ| ≤ 1 / 4) (hu : |u| ≤ 1 / 4) :
    |closureFormula .msA γ u + u| ≤ 12 * (γ ^ 2 + u ^ 2) := by
  unfold closureFormula
  simp only [Transc_exp, Transc_sqrt, Lit_ofNat, Nat.cast_one, Nat.cast_ofNat]
  have hγ2 : |γ| ≤ 1 / 2 := by linarith
  obtain ⟨h1, h2⟩ := sqrt_shift γ hγ2
  set s := Real.sqrt (1 + 2 * γ) - 1 with hs
  have he : -u + Real.sqrt (1 + 2 * γ) - 1 = s - u := by rw [hs]; ring
  rw [he]
  have hb : |s - u| ≤ 1 := by
    calc |s - u| ≤ |s| + |u| := abs_sub _ _
      _ ≤ 1 := by linarith
  have hexp := Real.abs_exp_sub_one_sub_id_le hb
  have e : Real.exp (s - u) - 1 - γ + u = (Real.exp (s - u) - 1 - (s - u)) - s ^ 2 / 2 := by linarith
  rw [e]
  have hs2 : s ^ 2 ≤ 4 * γ ^ 2 := by
    calc s ^ 2 = |s| ^ 2 := (sq_abs s).symm
      _ ≤ (2 * |γ|) ^ 2 := by gcongr
      _ = 4 * γ ^ 2 := by rw [mul_pow, sq_abs]; norm_num
  calc |Real.exp (s - u) - 1 - (s - u) - s ^ 2 / 2| ≤ |Real.exp (s - u) - 1 - (s - u)| + |s ^ 2 / 2| := abs_sub _ _
    _ ≤ (s - u) ^ 2 + s ^ 2 / 2 := by
        rw [abs_of_nonneg (by positivity : 0 ≤ s ^ 2 / 2)]; linarith
    _ ≤ 2 * s ^ 2 + 2 * u ^ 2 + s ^ 2 / 2 := by nlinarith [sq_nonneg (s + u)]
    _ ≤ 12 * (γ ^ 2 + u ^ 2) := by nlinarith [sq_nonneg u]

/-- **negation witness (finding F6)**: the shipped Martynov–Sarkisov expression does not even
vanish for `γ = 0`, `u = 0` (`e^{√½ − 1} − 1 ≈ −0.254`), so it is neither published form and
cannot let correlations decay to zero -/
theorem ms_shipped_not_zero_at_zero : closureFormula .ms (0 : ℝ) 0 ≠ 0 := by
  unfold closureFormula
  simp only [Transc_exp, Transc_sqrt, Lit_ofNat, dec_eq, Nat.cast_one, sub_zero, zero_add]
  intro h
  have h1 : Real.exp (Real.sqrt ((5:ℕ) / 10 ^ 1) - 1) = 1 := by linarith
  have h2 : Real.sqrt ((5:ℕ) / 10 ^ 1) - 1 = 0 := by
    rwa [Real.exp_eq_one_iff] at h1
  have h3 : Real.sqrt ((5:ℕ) / 10 ^ 1) = 1 := by linarith
  have h4 : ((5:ℕ) : ℝ) / 10 ^ 1 = 1 := by
    have := Real.sq_sqrt (show (0:ℝ) ≤ (5:ℕ) / 10 ^ 1 by positivity)
    rw [h3] at this; linarith
  norm_num at h4

/-- both published variants do vanish there … -/
theorem msA_msB_zero_at_zero : closureFormula .msA (0 : ℝ) 0 = 0 ∧ closureFormula .msB (0 : ℝ) 0 = 0 := by
  unfold closureFormula; simp

/-- … and agree with each other (and with the hard-sphere form) whenever `u = 0` -/
theorem msA_eq_msB_of_u_zero (γ : ℝ) : closureFormula .msA γ (0:ℝ) = closureFormula .msB γ 0 := by
  unfold closureFormula; simp

/-! ## element-wise evaluation -/

theorem elementwise (kind : CKind) (hc : Bool) (σ : ℝ) (r γ u : Array ℝ) (i : ℕ) (hi : i < γ.size) :
    (closureArr kind hc σ r γ u)[i]! = closureAt kind hc σ r[i]! γ[i]! u[i]! ∧
    (closureArr kind hc σ r γ u).size = γ.size := by
  unfold closureArr
  exact ⟨tab_get _ _ _ hi, tab_size _ _⟩

/-! non-vacuity -/
example : |(0.3:ℝ)| ≤ 1 / 2 ∧ |(-0.4:ℝ)| ≤ 1 / 2 := by
  constructor <;> rw [abs_le] <;> constructor <;> norm_num

/-- **the unit of length is a convention**: distance and contact distance multiplied by the same `u > 0` (metres instead of
reduced units) give the same value, for every closure, flag, γ and potential value — there is no absolute length in a closure -/
theorem closureAt_length_unit (u : ℝ) (hu : 0 < u) (kind : CKind) (hc : Bool) (σ r γ v : ℝ) :
    closureAt kind hc (u * σ) (u * r) γ v = closureAt kind hc σ r γ v := by
  unfold closureAt
  simp only [mul_lt_mul_iff_right₀ hu]

end C09
