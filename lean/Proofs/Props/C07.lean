import Proofs.Dst2
import Proofs.Lemmas.MAarith
/-!
# C07 — Real/Fourier transforms are exact mutual inverses on every reachable Domain

Model: `Model/Domain.lean` (`Dom`, the three setters, grids, `toFourier`, `toReal`, the
MatrixArray loops).  All statements are over `ℝ`, for every length `N ≥ 1`, every non-zero
spacing, every finite setter history and every array.
-/
open Finset Real

namespace C07

/-! ## construction and setter histories -/

/-- exactly one of `dr`, `dk` must be given; otherwise `ValueError` -/
theorem construct_ok_iff (L : ℕ) (dr dk : Option ℝ) :
    (∃ d, Dom.construct L dr dk = .ok d) ↔ (dr.isSome ≠ dk.isSome) := by
  cases dr <;> cases dk <;> simp [Dom.construct]

theorem construct_error (L : ℕ) (dr dk : Option ℝ) (h : dr.isSome = dk.isSome) :
    Dom.construct L dr dk = .error .valueError := by
  cases dr <;> cases dk <;> simp_all [Dom.construct]

/-- a domain is *fresh* when it is what `Domain(length, dr=dr)` builds -/
def Fresh (d : Dom ℝ) : Prop := d = Dom.ofDr d.length d.dr

/-- admissible setter arguments: non-zero spacings, positive lengths -/
def OpOK : DomOp ℝ → Prop
  | .setDr v => v ≠ 0
  | .setDk v => v ≠ 0
  | .setLength n => 0 < n

/-- the invariant carried through every history -/
def DInv (d : Dom ℝ) : Prop := 0 < d.length ∧ d.dr ≠ 0 ∧ d.dk = π / (d.dr * d.length)

theorem dinv_ofDr (L : ℕ) (hL : 0 < L) (s : ℝ) (hs : s ≠ 0) : DInv (Dom.ofDr L s) :=
  ⟨hL, hs, by simp [Dom.ofDr, conj]⟩

theorem dinv_ofDk (L : ℕ) (hL : 0 < L) (s : ℝ) (hs : s ≠ 0) : DInv (Dom.ofDk L s) := by
  have hLr : (L : ℝ) ≠ 0 := by exact_mod_cast hL.ne'
  refine ⟨hL, ?_, ?_⟩
  · simp only [Dom.ofDk, conj, Transc_pi, Lit_ofNat]; exact div_ne_zero pi_ne_zero (mul_ne_zero hs hLr)
  · simp only [Dom.ofDk, conj, Transc_pi, Lit_ofNat]
    field_simp

theorem dinv_step (d : Dom ℝ) (h : DInv d) (op : DomOp ℝ) (hop : OpOK op) : DInv (d.step op) := by
  obtain ⟨hL, hdr, hdk⟩ := h
  have hLr : (d.length : ℝ) ≠ 0 := by exact_mod_cast hL.ne'
  cases op with
  | setDr v => exact ⟨hL, hop, by simp [Dom.step, conj]⟩
  | setDk v =>
    refine ⟨hL, ?_, ?_⟩
    · simp only [Dom.step, conj, Transc_pi, Lit_ofNat]; exact div_ne_zero pi_ne_zero (mul_ne_zero hop hLr)
    · simp only [Dom.step, conj, Transc_pi, Lit_ofNat]
      have : v ≠ 0 := hop
      field_simp
  | setLength n => exact ⟨hop, hdr, by simp [Dom.step, conj]⟩

theorem dinv_run (ops : List (DomOp ℝ)) (d : Dom ℝ) (h : DInv d) (hops : ∀ op ∈ ops, OpOK op) :
    DInv (d.run ops) := by
  induction ops generalizing d with
  | nil => exact h
  | cons op ops ih =>
    simp only [Dom.run, List.foldl_cons]
    exact ih _ (dinv_step d h op (hops op (by simp))) (fun o ho => hops o (by simp [ho]))

theorem fresh_of_dinv (d : Dom ℝ) (h : DInv d) : Fresh d := by
  obtain ⟨_, _, hdk⟩ := h
  unfold Fresh Dom.ofDr conj
  cases d; simp_all

/-- **the conjugate spacing is never stale**: however the domain was configured (from `dr`
or from `dk`, then any finite sequence of `dr` / `dk` / `length` assignments), it equals the
freshly constructed `Domain(length, dr)`, and `dk·dr·length = π`. -/
theorem reachable_fresh (L : ℕ) (hL : 0 < L) (s : ℝ) (hs : s ≠ 0) (fromDk : Bool)
    (ops : List (DomOp ℝ)) (hops : ∀ op ∈ ops, OpOK op) :
    let d := (if fromDk then Dom.ofDk L s else Dom.ofDr L s).run ops
    Fresh d ∧ d.dk * d.dr * d.length = π ∧ 0 < d.length := by
  intro d
  have hi : DInv d := by
    apply dinv_run _ _ _ hops
    cases fromDk
    · exact dinv_ofDr L hL s hs
    · exact dinv_ofDk L hL s hs
  refine ⟨fresh_of_dinv d hi, ?_, hi.1⟩
  obtain ⟨hL', hdr, hdk⟩ := hi
  have hLr : (d.length : ℝ) ≠ 0 := by exact_mod_cast hL'.ne'
  rw [hdk]; field_simp

/-- non-vacuity: a concrete mixed history meets the hypotheses -/
example : ∀ op ∈ [DomOp.setDk (0.05 : ℝ), .setLength 200, .setDr 0.1, .setLength 7], OpOK op := by
  intro op h; simp at h; rcases h with rfl | rfl | rfl | rfl <;> simp [OpOK] <;> norm_num

/-- negation witness for the `length` setter as shipped before the repair (finding F1):
`Domain(100, dr=0.1); length = 200` is **not** the fresh `Domain(200, dr=0.1)` -/
theorem length_setter_stale :
    ¬ Fresh ((Dom.ofDr 100 (1/10 : ℝ)).stepShipped (.setLength 200)) := by
  unfold Fresh Dom.stepShipped Dom.ofDr conj
  simp only [Transc_pi, Lit_ofNat, Dom.mk.injEq, true_and]
  intro h
  have hp := pi_pos
  have : π / (1 / 10 * (100 : ℕ)) = π / 10 := by push_cast; ring
  rw [this] at h
  have : π / (1 / 10 * (200 : ℕ)) = π / 20 := by push_cast; ring
  rw [this] at h
  linarith

/-! ## grids -/

theorem grid_size (d : Dom ℝ) : d.r.size = d.length ∧ d.k.size = d.length := by
  simp [Dom.r, Dom.k]

theorem grid_r (d : Dom ℝ) (i : ℕ) (hi : i < d.length) : d.r[i]! = ((i : ℝ) + 1) * d.dr := by
  unfold Dom.r; rw [tab_get _ _ _ hi]; simp

theorem grid_k (d : Dom ℝ) (j : ℕ) (hj : j < d.length) : d.k[j]! = ((j : ℝ) + 1) * d.dk := by
  unfold Dom.k; rw [tab_get _ _ _ hj]; simp

/-! ## the transforms -/

theorem toFourier_size (d : Dom ℝ) (f : Array ℝ) : (d.toFourier f).size = d.length := by simp [Dom.toFourier]
theorem toReal_size (d : Dom ℝ) (F : Array ℝ) : (d.toReal F).size = d.length := by simp [Dom.toReal]

theorem toFourier_entry (d : Dom ℝ) (f : Array ℝ) (j : ℕ) (hj : j < d.length) :
    (d.toFourier f)[j]! = (dst2 d.length (tab d.length fun i => d.c2 i * f[i]!))[j]! / (((j : ℝ) + 1) * d.dk) := by
  unfold Dom.toFourier; simp only; rw [tab_get _ _ _ hj]; simp

theorem toReal_entry (d : Dom ℝ) (F : Array ℝ) (i : ℕ) (hi : i < d.length) :
    (d.toReal F)[i]! = (dst3 d.length (tab d.length fun j => d.c3 j * F[j]!))[i]! / (((i : ℝ) + 1) * d.dr) := by
  unfold Dom.toReal; simp only; rw [tab_get _ _ _ hi]; simp

/-- `to_fourier` is linear -/
theorem toFourier_linear (d : Dom ℝ) (a : ℝ) (f g s : Array ℝ)
    (hs : ∀ i < d.length, s[i]! = a * f[i]! + g[i]!) (j : ℕ) (hj : j < d.length) :
    (d.toFourier s)[j]! = a * (d.toFourier f)[j]! + (d.toFourier g)[j]! := by
  rw [toFourier_entry d s j hj, toFourier_entry d f j hj, toFourier_entry d g j hj]
  set N := d.length
  have h1 := dst2_add N (tab N fun i => a * (d.c2 i * f[i]!)) (tab N fun i => d.c2 i * g[i]!)
    (tab N fun i => d.c2 i * s[i]!) (by
      intro k hk; rw [tab_get _ _ _ hk, tab_get _ _ _ hk, tab_get _ _ _ hk, hs k hk]; ring) j hj
  have h2 := dst2_smul N a (tab N fun i => d.c2 i * f[i]!) (tab N fun i => a * (d.c2 i * f[i]!))
    (by intro k hk; rw [tab_get _ _ _ hk, tab_get _ _ _ hk]) j hj
  rw [h1, h2]; ring

/-- `to_real` is linear -/
theorem toReal_linear (d : Dom ℝ) (hN : 0 < d.length) (a : ℝ) (F G S : Array ℝ)
    (hs : ∀ j < d.length, S[j]! = a * F[j]! + G[j]!) (i : ℕ) (hi : i < d.length) :
    (d.toReal S)[i]! = a * (d.toReal F)[i]! + (d.toReal G)[i]! := by
  rw [toReal_entry d S i hi, toReal_entry d F i hi, toReal_entry d G i hi]
  set N := d.length
  have h1 := dst3_add N hN (tab N fun j => a * (d.c3 j * F[j]!)) (tab N fun j => d.c3 j * G[j]!)
    (tab N fun j => d.c3 j * S[j]!) (by
      intro k hk; rw [tab_get _ _ _ hk, tab_get _ _ _ hk, tab_get _ _ _ hk, hs k hk]; ring) i hi
  have h2 := dst3_smul N hN a (tab N fun j => d.c3 j * F[j]!) (tab N fun j => a * (d.c3 j * F[j]!))
    (by intro k hk; rw [tab_get _ _ _ hk, tab_get _ _ _ hk]) i hi
  rw [h1, h2]; ring

/-- **`to_real(to_fourier(f)) = f`** on every reachable domain, for every array -/
theorem toReal_toFourier (d : Dom ℝ) (h : DInv d) (f : Array ℝ) (i : ℕ) (hi : i < d.length) :
    (d.toReal (d.toFourier f))[i]! = f[i]! := by
  obtain ⟨hN, hdr, hdk⟩ := h
  have hNr : (d.length : ℝ) ≠ 0 := by exact_mod_cast hN.ne'
  have hdk0 : d.dk ≠ 0 := by rw [hdk]; exact div_ne_zero pi_ne_zero (mul_ne_zero hdr hNr)
  rw [toReal_entry d _ i hi]
  have h1 := dst3_smul d.length hN (d.dk / (4 * π * π)) (dst2 d.length (tab d.length fun i => d.c2 i * f[i]!))
    (tab d.length fun j => d.c3 j * (d.toFourier f)[j]!)
    (by
      intro k hk
      rw [tab_get _ _ _ hk, toFourier_entry d f k hk]
      have : ((k : ℝ) + 1) ≠ 0 := by positivity
      simp only [Dom.c3, Lit_ofNat, Transc_pi]; push_cast; field_simp) i hi
  rw [h1, dst3_dst2 d.length hN _ i hi, tab_get _ _ _ hi]
  have : ((i : ℝ) + 1) ≠ 0 := by positivity
  simp only [Dom.c2, Lit_ofNat, Transc_pi]; push_cast
  rw [hdk]; field_simp; ring

/-- **`to_fourier(to_real(F)) = F`** on every reachable domain, for every array -/
theorem toFourier_toReal (d : Dom ℝ) (h : DInv d) (F : Array ℝ) (j : ℕ) (hj : j < d.length) :
    (d.toFourier (d.toReal F))[j]! = F[j]! := by
  obtain ⟨hN, hdr, hdk⟩ := h
  have hNr : (d.length : ℝ) ≠ 0 := by exact_mod_cast hN.ne'
  have hdk0 : d.dk ≠ 0 := by rw [hdk]; exact div_ne_zero pi_ne_zero (mul_ne_zero hdr hNr)
  rw [toFourier_entry d _ j hj]
  have h1 := dst2_smul d.length (2 * π * d.dr) (dst3 d.length (tab d.length fun j => d.c3 j * F[j]!))
    (tab d.length fun i => d.c2 i * (d.toReal F)[i]!)
    (by
      intro k hk
      rw [tab_get _ _ _ hk, toReal_entry d F k hk]
      have : ((k : ℝ) + 1) ≠ 0 := by positivity
      simp only [Dom.c2, Lit_ofNat, Transc_pi]; push_cast; field_simp) j hj
  rw [h1, dst2_dst3 d.length hN _ j hj, tab_get _ _ _ hj]
  have : ((j : ℝ) + 1) ≠ 0 := by positivity
  simp only [Dom.c3, Lit_ofNat, Transc_pi]; push_cast
  rw [hdk]; field_simp; ring

/-- non-vacuity of `DInv`: `Domain(7, dr=0.3)` (a length that is not a power of two) -/
example : DInv (Dom.ofDr 7 (3/10 : ℝ)) := dinv_ofDr 7 (by norm_num) _ (by norm_num)

/-! ## MatrixArray versions -/

/-- refused ⇔ already in the target space (`ValueError`) -/
theorem maToFourier_error_iff (d : Dom ℝ) (A : MA ℝ) :
    d.maToFourier A = .error .valueError ↔ A.space = .fourier := by
  unfold Dom.maToFourier; split <;> simp_all

theorem maToReal_error_iff (d : Dom ℝ) (A : MA ℝ) :
    d.maToReal A = .error .valueError ↔ A.space = .real := by
  unfold Dom.maToReal; split <;> simp_all

theorem maToFourier_ok_iff (d : Dom ℝ) (A : MA ℝ) :
    (∃ B, d.maToFourier A = .ok B) ↔ A.space ≠ .fourier := by
  unfold Dom.maToFourier; split <;> simp_all

theorem maToReal_ok_iff (d : Dom ℝ) (A : MA ℝ) :
    (∃ B, d.maToReal A = .ok B) ↔ A.space ≠ .real := by
  unfold Dom.maToReal; split <;> simp_all

theorem pair_get (A : MA ℝ) (i j l : ℕ) (hl : l < A.length) : (A.pair i j)[l]! = A.at l i j := by
  unfold MA.pair; rw [tab_get _ _ _ hl]

/-- every entry of the result is the transform of the stored upper-triangle pair function -/
theorem mapPairs_at (A : MA ℝ) (sp : Space) (T : Array ℝ → Array ℝ) {l i j : ℕ}
    (hl : l < A.length) (hi : i < A.rank) (hj : j < A.rank) :
    (A.mapPairs sp T).at l i j = (T (A.pair (min i j) (max i j)))[l]! := by
  unfold MA.mapPairs
  simp only
  rw [build_at _ _ _ _ hl hi hj]
  by_cases h : i ≤ j
  · simp only [if_pos h, min_eq_left h, max_eq_right h]
    rw [tab_get _ _ _ (flat2_lt hi hj), flat2_div hj, flat2_mod hj, if_pos h]
  · have h' : j ≤ i := by omega
    simp only [if_neg h, min_eq_right h', max_eq_left h']
    rw [tab_get _ _ _ (flat2_lt hj hi), flat2_div hi, flat2_mod hi, if_pos h']

theorem mapPairs_meta (A : MA ℝ) (sp : Space) (T : Array ℝ → Array ℝ) :
    (A.mapPairs sp T).length = A.length ∧ (A.mapPairs sp T).rank = A.rank ∧ (A.mapPairs sp T).space = sp := by
  simp [MA.mapPairs]

/-- the result is symmetric in the two type labels, whatever the input -/
theorem mapPairs_symmetric (A : MA ℝ) (sp : Space) (T : Array ℝ → Array ℝ) {l i j : ℕ}
    (hl : l < A.length) (hi : i < A.rank) (hj : j < A.rank) :
    (A.mapPairs sp T).at l i j = (A.mapPairs sp T).at l j i := by
  rw [mapPairs_at A sp T hl hi hj, mapPairs_at A sp T hl hj hi, min_comm, max_comm]

def MA.Symm (A : MA ℝ) : Prop := ∀ l i j, l < A.length → i < A.rank → j < A.rank → A.at l i j = A.at l j i

/-- for a symmetric MatrixArray **every** pair function is transformed by the same 1-d
transform, the space flag is flipped, shape kept -/
theorem maToFourier_spec (d : Dom ℝ) (A B : MA ℝ) (hA : MA.Symm A)
    (h : d.maToFourier A = .ok B) {l i j : ℕ} (hl : l < A.length) (hi : i < A.rank) (hj : j < A.rank) :
    B.at l i j = (d.toFourier (A.pair i j))[l]! ∧ B.space = .fourier ∧ B.length = A.length ∧ B.rank = A.rank ∧
      B.at l i j = B.at l j i := by
  unfold Dom.maToFourier at h
  split at h
  · cases h
  · cases h
    refine ⟨?_, rfl, rfl, rfl, mapPairs_symmetric A _ _ hl hi hj⟩
    rw [mapPairs_at A _ _ hl hi hj]
    by_cases hij : i ≤ j
    · rw [min_eq_left hij, max_eq_right hij]
    · have hji : j ≤ i := by omega
      rw [min_eq_right hji, max_eq_left hji]
      have : A.pair j i = A.pair i j := by
        unfold MA.pair; apply tab_congr; intro k hk; exact hA k j i hk hj hi
      rw [this]

theorem maToReal_spec (d : Dom ℝ) (A B : MA ℝ) (hA : MA.Symm A)
    (h : d.maToReal A = .ok B) {l i j : ℕ} (hl : l < A.length) (hi : i < A.rank) (hj : j < A.rank) :
    B.at l i j = (d.toReal (A.pair i j))[l]! ∧ B.space = .real ∧ B.length = A.length ∧ B.rank = A.rank ∧
      B.at l i j = B.at l j i := by
  unfold Dom.maToReal at h
  split at h
  · cases h
  · cases h
    refine ⟨?_, rfl, rfl, rfl, mapPairs_symmetric A _ _ hl hi hj⟩
    rw [mapPairs_at A _ _ hl hi hj]
    by_cases hij : i ≤ j
    · rw [min_eq_left hij, max_eq_right hij]
    · have hji : j ≤ i := by omega
      rw [min_eq_right hji, max_eq_left hji]
      have : A.pair j i = A.pair i j := by
        unfold MA.pair; apply tab_congr; intro k hk; exact hA k j i hk hj hi
      rw [this]

/-- the transforms read only the first `length` entries of their argument -/
theorem toReal_congr (d : Dom ℝ) (F G : Array ℝ) (h : ∀ j < d.length, F[j]! = G[j]!) (i : ℕ) (hi : i < d.length) :
    (d.toReal F)[i]! = (d.toReal G)[i]! := by
  rw [toReal_entry d F i hi, toReal_entry d G i hi]
  congr 3
  apply tab_congr; intro j hj; rw [h j hj]

theorem toFourier_congr (d : Dom ℝ) (f g : Array ℝ) (h : ∀ i < d.length, f[i]! = g[i]!) (j : ℕ) (hj : j < d.length) :
    (d.toFourier f)[j]! = (d.toFourier g)[j]! := by
  rw [toFourier_entry d f j hj, toFourier_entry d g j hj]
  congr 3
  apply tab_congr; intro i hi; rw [h i hi]

/-- **MatrixArray round trip**: on a reachable domain, a symmetric MatrixArray that is not
marked Fourier goes to Fourier space and back to exactly itself, flag `Real` -/
theorem ma_roundtrip (d : Dom ℝ) (hd : DInv d) (A : MA ℝ) (hA : MA.Symm A) (hlen : A.length = d.length)
    (hs : A.space ≠ .fourier) :
    ∃ B C, d.maToFourier A = .ok B ∧ d.maToReal B = .ok C ∧ C.space = .real ∧
      ∀ l i j, l < A.length → i < A.rank → j < A.rank → C.at l i j = A.at l i j := by
  obtain ⟨B, hB⟩ := (maToFourier_ok_iff d A).mpr hs
  have hBm : B.length = A.length ∧ B.rank = A.rank ∧ B.space = .fourier := by
    unfold Dom.maToFourier at hB; split at hB
    · cases hB
    · cases hB; exact ⟨rfl, rfl, rfl⟩
  have hBs : B.space ≠ .real := by rw [hBm.2.2]; decide
  obtain ⟨C, hC⟩ := (maToReal_ok_iff d B).mpr hBs
  have hBsym : MA.Symm B := by
    intro l i j hl hi hj
    rw [hBm.1] at hl; rw [hBm.2.1] at hi hj
    exact (maToFourier_spec d A B hA hB hl hi hj).2.2.2.2
  refine ⟨B, C, hB, hC, ?_, ?_⟩
  · unfold Dom.maToReal at hC; split at hC
    · cases hC
    · cases hC; rfl
  · intro l i j hl hi hj
    have hl' : l < B.length := by rw [hBm.1]; exact hl
    have hi' : i < B.rank := by rw [hBm.2.1]; exact hi
    have hj' : j < B.rank := by rw [hBm.2.1]; exact hj
    rw [(maToReal_spec d B C hBsym hC hl' hi' hj').1]
    have hld : l < d.length := by rw [← hlen]; exact hl
    rw [toReal_congr d (B.pair i j) (d.toFourier (A.pair i j)) (by
      intro m hm
      have hmB : m < B.length := by rw [hBm.1, hlen]; exact hm
      have hmA : m < A.length := by rw [hlen]; exact hm
      rw [pair_get B i j m hmB, (maToFourier_spec d A B hA hB hmA hi hj).1]) l hld]
    rw [toReal_toFourier d hd _ l hld, pair_get A i j l hl]

end C07
