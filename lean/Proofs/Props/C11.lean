import Proofs.Lemmas.PairSum
import Proofs.Lemmas.WSum
import Mathlib.Analysis.SpecialFunctions.Trigonometric.Sinc
import Mathlib.Analysis.SpecialFunctions.Trigonometric.Bounds
/-!
# C11 — Analytic ω(k) models equal their defining pair sums and obey the sum rules

Model: `Model/Omega.lean` at `α := ℝ`.  The Gaussian and freely-jointed chains share the closed
form `chainClosedForm N E`; the theorems below identify it with the defining pair sum for
every `N ≥ 1` and every `E ≠ 1`, show `E < 1` for every `k > 0`, bound it by `N` and take the
limits.  Koyama and NFJC are **partial**: their kernels `w_τ(k)` (moment closed forms, bending
energy root, Simpson quadratures) are parameters; what is proved is the chain-sum structure.
Float-level cancellation of the closed form at `k ≲ 1e-3` (finding F10) is outside the reals.
-/
open Finset Filter Topology

namespace C11

/-! ## bridges between the model's definitions and the lemma library -/

theorem chainPairSum_eq (N : ℕ) (E : ℝ) : chainPairSum N E = pairSum N E / N := by
  unfold chainPairSum pairSum
  simp only [sumTo_eq_sum, powN_real, Lit_ofNat]

theorem chainClosedForm_eq (N : ℕ) (E : ℝ) :
    chainClosedForm N E = (1 - E * E - 2 * E / N + 2 * E ^ (N + 1) / N) / (1 - E) ^ 2 := by
  unfold chainClosedForm
  simp only [powN_real, Lit_ofNat, Nat.cast_one, Nat.cast_ofNat]

theorem pairSum_eq_W (N : ℕ) (E : ℝ) : pairSum N E = pairSumW N (fun t => E ^ t) := rfl

/-! ## Gaussian and freely-jointed chains -/

/-- **the shipped closed form is the defining pair sum** `(1/N) Σ_{i,j<N} E^{|i-j|}` -/
theorem closed_form_is_pair_sum (N : ℕ) (hN : 0 < N) (E : ℝ) (hE : E ≠ 1) :
    chainClosedForm N E = chainPairSum N E := by
  rw [chainClosedForm_eq, chainPairSum_eq]; exact closed_form_eq_pair_sum N hN E hE

theorem gaussian_E_pos_lt_one (σ k : ℝ) (hσ : σ ≠ 0) (hk : k ≠ 0) : 0 < gaussianE σ k ∧ gaussianE σ k < 1 := by
  unfold gaussianE
  simp only [Transc_exp, Lit_ofNat]
  refine ⟨Real.exp_pos _, ?_⟩
  rw [Real.exp_lt_one_iff]
  have : 0 < k * k * σ * σ := by
    have h1 : 0 < k * k := mul_self_pos.mpr hk
    have h2 : 0 < σ * σ := mul_self_pos.mpr hσ
    nlinarith
  have e : -k * k * σ * σ / (6:ℕ) = -(k * k * σ * σ) / 6 := by push_cast; ring
  rw [e]; linarith

theorem fjcE_eq_sinc (l k : ℝ) (h : k * l ≠ 0) : fjcE l k = Real.sinc (k * l) := by
  unfold fjcE; simp only [Transc_sin]; rw [Real.sinc_of_ne_zero h]

theorem fjc_E_lt_one (l k : ℝ) (h : k * l ≠ 0) : fjcE l k < 1 ∧ |fjcE l k| ≤ 1 := by
  rw [fjcE_eq_sinc l k h]
  refine ⟨?_, Real.abs_sinc_le_one _⟩
  rw [Real.sinc_of_ne_zero h]
  rcases lt_or_gt_of_ne h with hneg | hpos
  · have : Real.sin (-(k * l)) < -(k * l) := Real.sin_lt (by linarith)
    rw [Real.sin_neg] at this
    rw [div_lt_one_of_neg hneg]; linarith
  · rw [div_lt_one hpos]; exact Real.sin_lt hpos

/-- finite and equal to the pair sum at every `k > 0` of every grid (Gaussian) -/
theorem gaussian_is_pair_sum (σ : ℝ) (N : ℕ) (hN : 0 < N) (k : ℝ) (hσ : σ ≠ 0) (hk : k ≠ 0) :
    omegaGaussian σ N k = chainPairSum N (gaussianE σ k) :=
  closed_form_is_pair_sum N hN _ (ne_of_lt (gaussian_E_pos_lt_one σ k hσ hk).2)

theorem fjc_is_pair_sum (l : ℝ) (N : ℕ) (hN : 0 < N) (k : ℝ) (h : k * l ≠ 0) :
    omegaFJC l N k = chainPairSum N (fjcE l k) :=
  closed_form_is_pair_sum N hN _ (ne_of_lt (fjc_E_lt_one l k h).1)

/-- any pair sum with `|w_τ| ≤ 1` is at most `N` (in absolute value) -/
theorem pairSumW_le (N : ℕ) (w : ℕ → ℝ) (hw : ∀ t, |w t| ≤ 1) : |pairSumW N w| ≤ N * N := by
  unfold pairSumW
  calc |∑ i ∈ range N, ∑ j ∈ range N, w (if i ≤ j then j - i else i - j)|
      ≤ ∑ i ∈ range N, |∑ j ∈ range N, w (if i ≤ j then j - i else i - j)| := abs_sum_le_sum_abs _ _
    _ ≤ ∑ i ∈ range N, ∑ j ∈ range N, |w (if i ≤ j then j - i else i - j)| :=
        Finset.sum_le_sum fun i _ => abs_sum_le_sum_abs _ _
    _ ≤ ∑ _i ∈ range N, ∑ _j ∈ range N, (1:ℝ) :=
        Finset.sum_le_sum fun i _ => Finset.sum_le_sum fun j _ => hw _
    _ = N * N := by simp

/-- **never exceeds N** -/
theorem omega_le_N (N : ℕ) (hN : 0 < N) (E : ℝ) (hE : |E| ≤ 1) : chainPairSum N E ≤ N := by
  rw [chainPairSum_eq, pairSum_eq_W]
  have h := pairSumW_le N (fun t => E ^ t) (fun t => by rw [abs_pow]; exact pow_le_one₀ (abs_nonneg _) hE)
  have hNr : (0:ℝ) < N := by exact_mod_cast hN
  rw [div_le_iff₀ hNr]
  exact (abs_le.mp h).2

theorem gaussian_le_N (σ : ℝ) (N : ℕ) (hN : 0 < N) (k : ℝ) (hσ : σ ≠ 0) (hk : k ≠ 0) : omegaGaussian σ N k ≤ N := by
  rw [gaussian_is_pair_sum σ N hN k hσ hk]
  have := gaussian_E_pos_lt_one σ k hσ hk
  exact omega_le_N N hN _ (by rw [abs_of_pos this.1]; exact le_of_lt this.2)

theorem fjc_le_N (l : ℝ) (N : ℕ) (hN : 0 < N) (k : ℝ) (h : k * l ≠ 0) : omegaFJC l N k ≤ N := by
  rw [fjc_is_pair_sum l N hN k h]; exact omega_le_N N hN _ (fjc_E_lt_one l k h).2

/-- the pair sum is a polynomial in `E`, hence continuous -/
theorem pairSum_continuous (N : ℕ) : Continuous fun E : ℝ => pairSum N E / N := by
  unfold pairSum; fun_prop

theorem pairSum_at_one (N : ℕ) (hN : 0 < N) : pairSum N 1 / N = N := by
  have : (N:ℝ) ≠ 0 := by exact_mod_cast hN.ne'
  unfold pairSum; simp
  first | done | field_simp

theorem pairSum_at_zero (N : ℕ) (hN : 0 < N) : pairSum N 0 / N = 1 := by
  rw [pairSum_eq_W, pairSumW_eq]
  have : ∑ t ∈ range (N - 1), ((N - (t + 1) : ℕ) : ℝ) * (0:ℝ) ^ (t + 1) = 0 := by
    apply Finset.sum_eq_zero; intro t _; simp
  rw [this]
  have : (N:ℝ) ≠ 0 := by exact_mod_cast hN.ne'
  field_simp; simp

/-- **k → 0**: ω → N (Gaussian; the closed form is evaluated at `k ≠ 0`) -/
theorem gaussian_tendsto_N (σ : ℝ) (hσ : σ ≠ 0) (N : ℕ) (hN : 0 < N) :
    Tendsto (omegaGaussian σ N) (𝓝[≠] 0) (𝓝 N) := by
  have hE : Tendsto (gaussianE σ) (𝓝 0) (𝓝 1) := by
    have : Continuous (gaussianE σ) := by unfold gaussianE; simp only [Transc_exp, Lit_ofNat]; fun_prop
    have h0 : gaussianE σ 0 = 1 := by unfold gaussianE; simp
    rw [← h0]; exact this.tendsto 0
  have hP : Tendsto (fun k => pairSum N (gaussianE σ k) / N) (𝓝 0) (𝓝 N) := by
    have := ((pairSum_continuous N).tendsto 1).comp hE
    rwa [pairSum_at_one N hN] at this
  refine (hP.mono_left nhdsWithin_le_nhds).congr' ?_
  filter_upwards [self_mem_nhdsWithin] with k hk
  rw [gaussian_is_pair_sum σ N hN k hσ hk, chainPairSum_eq]

/-- **k → ∞**: ω → 1 (Gaussian) -/
theorem gaussian_tendsto_one (σ : ℝ) (hσ : σ ≠ 0) (N : ℕ) (hN : 0 < N) :
    Tendsto (omegaGaussian σ N) atTop (𝓝 1) := by
  have hE : Tendsto (gaussianE σ) atTop (𝓝 0) := by
    unfold gaussianE; simp only [Transc_exp, Lit_ofNat]
    apply Real.tendsto_exp_atBot.comp
    have hs : 0 < σ * σ / 6 := by have := mul_self_pos.mpr hσ; positivity
    have : (fun k : ℝ => -k * k * σ * σ / (6:ℕ)) = fun k => -((σ * σ / 6) * (k * k)) := by
      funext k; push_cast; ring
    rw [this]
    apply tendsto_neg_atTop_atBot.comp
    exact (tendsto_id.atTop_mul_atTop₀ tendsto_id).const_mul_atTop hs
  have hP : Tendsto (fun k => pairSum N (gaussianE σ k) / N) atTop (𝓝 1) := by
    have := ((pairSum_continuous N).tendsto 0).comp hE
    rwa [pairSum_at_zero N hN] at this
  refine hP.congr' ?_
  filter_upwards [eventually_gt_atTop 0] with k hk
  rw [gaussian_is_pair_sum σ N hN k hσ (ne_of_gt hk), chainPairSum_eq]

/-- **k → 0**: ω → N (freely jointed chain) -/
theorem fjc_tendsto_N (l : ℝ) (hl : l ≠ 0) (N : ℕ) (hN : 0 < N) :
    Tendsto (omegaFJC l N) (𝓝[≠] 0) (𝓝 N) := by
  have hS : Tendsto (fun k => Real.sinc (k * l)) (𝓝 0) (𝓝 1) := by
    have : Continuous fun k : ℝ => Real.sinc (k * l) := Real.continuous_sinc.comp (by fun_prop)
    have h0 : Real.sinc (0 * l) = 1 := by simp
    rw [← h0]; exact this.tendsto 0
  have hP : Tendsto (fun k => pairSum N (Real.sinc (k * l)) / N) (𝓝 0) (𝓝 N) := by
    have := ((pairSum_continuous N).tendsto 1).comp hS
    rwa [pairSum_at_one N hN] at this
  refine (hP.mono_left nhdsWithin_le_nhds).congr' ?_
  filter_upwards [self_mem_nhdsWithin] with k hk
  have hkl : k * l ≠ 0 := mul_ne_zero hk hl
  rw [fjc_is_pair_sum l N hN k hkl, chainPairSum_eq, fjcE_eq_sinc l k hkl]

/-! ## Gaussian ring -/

/-- the shipped single loop equals the defining double sum `(1/N) Σ_{i,j} w_{|i-j|}` -/
theorem ring_is_pair_sum (σ : ℝ) (N : ℕ) (hN : 0 < N) (k : ℝ) : omegaRing σ N k = ringPairSum σ N k := by
  unfold omegaRing ringPairSum
  simp only [sumTo_eq_sum, Lit_ofNat]
  have hsym : ∀ t, 0 < t → t < N → ringTerm σ N k t = ringTerm σ N k (N - t) := by
    intro t _ ht
    unfold ringTerm
    have : N - (N - t) = t := by omega
    rw [this]; simp only [Lit_ofNat]; congr 1; ring
  have : ∑ i ∈ range N, ∑ j ∈ range N, ringTerm σ N k (if i ≤ j then j - i else i - j)
      = ∑ _i ∈ range N, ∑ t ∈ range N, ringTerm σ N k t := by
    apply Finset.sum_congr rfl
    intro i hi
    exact ring_row_sum N _ hsym i (mem_range.mp hi)
  rw [this]
  simp only [Finset.sum_const, card_range, nsmul_eq_mul]
  have : (N:ℝ) ≠ 0 := by exact_mod_cast hN.ne'
  field_simp

theorem ring_le_N (σ : ℝ) (N : ℕ) (k : ℝ) : omegaRing σ N k ≤ N := by
  unfold omegaRing; rw [sumTo_eq_sum]
  calc ∑ i ∈ range N, ringTerm σ N k i ≤ ∑ _i ∈ range N, (1:ℝ) := by
        apply Finset.sum_le_sum; intro i _
        unfold ringTerm; simp only [Transc_exp, Lit_ofNat]
        rw [Real.exp_le_one_iff]
        have : 0 ≤ σ * σ * (k * k) * (i:ℝ) * ((N - i : ℕ):ℝ) / (6 * (N:ℝ)) := by
          have := mul_self_nonneg σ; have := mul_self_nonneg k; positivity
        have e : -(σ * σ) * (k * k) * (i:ℝ) * ((N - i : ℕ):ℝ) / ((6:ℕ) * (N:ℝ)) =
            -(σ * σ * (k * k) * (i:ℝ) * ((N - i : ℕ):ℝ) / (6 * (N:ℝ))) := by push_cast; ring
        rw [e]; linarith
    _ = N := by simp

theorem ring_at_zero (σ : ℝ) (N : ℕ) : omegaRing σ N 0 = N := by
  unfold omegaRing ringTerm; rw [sumTo_eq_sum]; simp

/-! ## single site / no intramolecular correlation -/
theorem singleSite_one (k : ℝ) : omegaSingleSite k = 1 := by simp [omegaSingleSite]
theorem noIntra_zero (k : ℝ) : omegaNoIntra k = 0 := by simp [omegaNoIntra]

/-! ## Koyama and NFJC: chain-sum structure (kernels are parameters) -/

/-- `1 + (2/N) Σ_{τ=1}^{N-1} (N-τ) w_τ` is the pair sum `(1/N) Σ_{i,j} w_{|i-j|}` with `w_0 = 1` -/
theorem koyama_is_pair_sum_partial (N : ℕ) (hN : 0 < N) (B Asq : ℕ → ℝ) (k : ℝ) :
    omegaKoyama N B Asq k =
      pairSumW N (fun t => if t = 0 then 1 else koyamaKernel (B t) (Asq t) k) / N := by
  rw [pairSumW_eq]
  unfold omegaKoyama
  simp only [sumTo_eq_sum, Lit_ofNat, Nat.cast_one, Nat.cast_ofNat, if_true]
  have : (N:ℝ) ≠ 0 := by exact_mod_cast hN.ne'
  have e : ∑ t ∈ range (N - 1), ((N - (t + 1) : ℕ):ℝ) * (if t + 1 = 0 then 1 else koyamaKernel (B (t + 1)) (Asq (t + 1)) k)
      = ∑ t ∈ range (N - 1), ((N - (t + 1) : ℕ):ℝ) * koyamaKernel (B (t + 1)) (Asq (t + 1)) k := by
    apply Finset.sum_congr rfl; intro t _; simp
  rw [e]; field_simp; ring

/-- with kernels bounded by 1 the Koyama ω never exceeds N -/
theorem koyama_le_N_partial (N : ℕ) (hN : 0 < N) (B Asq : ℕ → ℝ) (k : ℝ)
    (hw : ∀ t, |koyamaKernel (B t) (Asq t) k| ≤ 1) : omegaKoyama N B Asq k ≤ N := by
  rw [koyama_is_pair_sum_partial N hN]
  have h := pairSumW_le N (fun t => if t = 0 then 1 else koyamaKernel (B t) (Asq t) k)
    (fun t => by by_cases h : t = 0 <;> simp [h, hw t])
  have hNr : (0:ℝ) < N := by exact_mod_cast hN
  rw [div_le_iff₀ hNr]
  exact (abs_le.mp h).2

/-- where every kernel equals 1 (the `k → 0` limit) ω equals `N`; where every kernel vanishes
(the `k → ∞` limit) ω equals 1 -/
theorem koyama_limit_values_partial (N : ℕ) (hN : 0 < N) (B Asq : ℕ → ℝ) (k : ℝ) :
    ((∀ t, koyamaKernel (B t) (Asq t) k = 1) → omegaKoyama N B Asq k = N) ∧
    ((∀ t, koyamaKernel (B t) (Asq t) k = 0) → omegaKoyama N B Asq k = 1) := by
  have hNr : (N:ℝ) ≠ 0 := by exact_mod_cast hN.ne'
  constructor
  · intro h
    rw [koyama_is_pair_sum_partial N hN]
    have : (fun t => if t = 0 then (1:ℝ) else koyamaKernel (B t) (Asq t) k) = fun t => (1:ℝ) ^ t := by
      funext t; by_cases ht : t = 0 <;> simp [ht, h t]
    rw [this, ← pairSum_eq_W]; exact pairSum_at_one N hN
  · intro h
    rw [koyama_is_pair_sum_partial N hN]
    have : (fun t => if t = 0 then (1:ℝ) else koyamaKernel (B t) (Asq t) k) = fun t => (0:ℝ) ^ t := by
      funext t; by_cases ht : t = 0 <;> simp [ht, h t]
    rw [this, ← pairSum_eq_W]; exact pairSum_at_zero N hN

lemma sum_succ_cast (M : ℕ) : ∑ t ∈ range M, ((t + 1 : ℕ):ℝ) = (M:ℝ) * ((M:ℝ) + 1) / 2 := by
  induction M with
  | zero => simp
  | succ M ih => rw [Finset.sum_range_succ, ih]; push_cast; ring

/-- **negation witness (finding F8, repaired)**: the loop as shipped covered only `N-1` sites;
with all kernels equal to 1 it gives `1 + (N-1)(N-2)/N`, which is not `N` -/
theorem koyama_shipped_limit (N : ℕ) (hN : 2 ≤ N) (B Asq : ℕ → ℝ) (k : ℝ)
    (h : ∀ t, koyamaKernel (B t) (Asq t) k = 1) :
    omegaKoyamaShipped N B Asq k = 1 + ((N:ℝ) - 1) * ((N:ℝ) - 2) / N ∧ omegaKoyamaShipped N B Asq k ≠ N := by
  have hN0 : 0 < N := by omega
  have hNr : (N:ℝ) ≠ 0 := by exact_mod_cast hN0.ne'
  have hval : omegaKoyamaShipped N B Asq k = 1 + ((N:ℝ) - 1) * ((N:ℝ) - 2) / N := by
    unfold omegaKoyamaShipped
    simp only [sumTo_eq_sum, Lit_ofNat, h, mul_one, Nat.cast_one, Nat.cast_ofNat]
    have hs : ∑ t ∈ range (N - 2), ((N - 1 - (t + 1) : ℕ):ℝ) = ((N:ℝ) - 1) * ((N:ℝ) - 2) / 2 := by
      obtain ⟨M, rfl⟩ : ∃ M, N = M + 2 := ⟨N - 2, by omega⟩
      simp only [Nat.add_sub_cancel]
      have : ∀ t ∈ range M, ((M + 2 - 1 - (t + 1) : ℕ):ℝ) = ((M - t : ℕ) : ℝ) := by
        intro t _; congr 1; omega
      rw [Finset.sum_congr rfl this]
      have hr : ∑ t ∈ range M, ((M - t : ℕ):ℝ) = ∑ t ∈ range M, ((t + 1 : ℕ):ℝ) := by
        rw [← Finset.sum_range_reflect]
        apply Finset.sum_congr rfl; intro t ht
        have := mem_range.mp ht
        congr 1; omega
      rw [hr]
      rw [sum_succ_cast]; push_cast; ring
    rw [hs]; field_simp; ring
  refine ⟨hval, ?_⟩
  rw [hval]
  intro hc
  have h2 : (2:ℝ) ≤ N := by exact_mod_cast hN
  field_simp at hc
  nlinarith

/-- NFJC: the correction sum turns the ideal chain's pair sum into the pair sum with
`w_1 = e` and `w_τ = ω_τ` for `τ ≥ 2` (quadrature values are parameters) -/
theorem nfjc_is_pair_sum_partial (N : ℕ) (hN : 0 < N) (wτ : ℕ → ℝ) (e : ℝ) :
    omegaNFJC N wτ e (pairSumW N (fun t => e ^ t) / N) =
      pairSumW N (fun t => if t ≤ 1 then e ^ t else wτ t) / N := by
  rw [pairSumW_eq, pairSumW_eq]
  unfold omegaNFJC
  simp only [sumTo_eq_sum, Lit_ofNat, powN_real, Nat.cast_ofNat]
  have hNr : (N:ℝ) ≠ 0 := by exact_mod_cast hN.ne'
  -- split off τ = 1 in both separation sums
  rcases Nat.lt_or_ge N 2 with h1 | h2
  · have : N = 1 := by omega
    subst this; simp
  · obtain ⟨M, rfl⟩ : ∃ M, N = M + 2 := ⟨N - 2, by omega⟩
    simp only [Nat.add_sub_cancel, show M + 2 - 1 = M + 1 by omega]
    rw [Finset.sum_range_succ', Finset.sum_range_succ']
    simp only [Nat.zero_add, pow_zero, pow_one, le_refl, if_true, Nat.le_refl]
    have e1 : ∀ t ∈ range M, ((M + 2 - (t + 1 + 1) : ℕ):ℝ) * (if t + 1 + 1 ≤ 1 then e ^ (t + 1 + 1) else wτ (t + 1 + 1))
        = ((M + 2 - (t + 2) : ℕ):ℝ) * wτ (t + 2) := by
      intro t _
      have : ¬ (t + 1 + 1 ≤ 1) := by omega
      simp [this]
    rw [Finset.sum_congr rfl e1]
    have e2 : ∑ t ∈ range M, ((M + 2 - (t + 2) : ℕ):ℝ) * (wτ (t + 2) - e ^ (t + 2))
        = ∑ t ∈ range M, ((M + 2 - (t + 2) : ℕ):ℝ) * wτ (t + 2) - ∑ t ∈ range M, ((M + 2 - (t + 1 + 1) : ℕ):ℝ) * e ^ (t + 1 + 1) := by
      rw [← Finset.sum_sub_distrib]; apply Finset.sum_congr rfl; intro t _; ring
    rw [e2]
    have h0 : (if (0:ℕ) ≤ 1 then (1:ℝ) else wτ 0) = 1 := by simp
    rw [h0]
    generalize ∑ t ∈ range M, ((M + 2 - (t + 2) : ℕ):ℝ) * wτ (t + 2) = S1
    generalize ∑ t ∈ range M, ((M + 2 - (t + 1 + 1) : ℕ):ℝ) * e ^ (t + 1 + 1) = S2
    field_simp
    ring

/-! ## DiscreteKoyama: constructor decision and kernel parameters -/

/-- the constructor accepts exactly when `l > σ/2` and `lp ≥ lp_min = 4l³/(4l² − σ²)`; otherwise `ValueError` -/
theorem koyama_ctor_ok_iff (σ l lp : ℝ) :
    koyamaCtorOK σ l lp = true ↔ (σ / 2 < l ∧ 4 * l ^ 3 / (4 * l ^ 2 - σ ^ 2) ≤ lp) := by
  unfold koyamaCtorOK koyamaLpMin
  simp only [Lit_ofNat, powN_real, Nat.cast_ofNat]
  by_cases h1 : σ / 2 < l
  · by_cases h2 : lp < 4 * l ^ 3 / (4 * l ^ 2 - σ ^ 2)
    · simp [h1, h2]
    · simp [h1, h2]; exact not_lt.mp h2
  · simp [h1]

/-- for positive `σ`, `l > σ/2` the minimum persistence length is positive (the denominator `4l² − σ²` is) -/
theorem koyama_lpmin_pos (σ l : ℝ) (hσ : 0 < σ) (hl : σ / 2 < l) : 0 < koyamaLpMin σ l := by
  unfold koyamaLpMin
  simp only [Lit_ofNat, powN_real, Nat.cast_ofNat]
  have hl0 : 0 < l := by linarith
  have : 0 < 4 * l ^ 2 - σ ^ 2 := by nlinarith
  positivity

/-- `lp_min` is a length: in other units of length it scales like one -/
theorem koyama_lpmin_units (σ l u : ℝ) (hu : 0 < u) (hd : 4 * l ^ 2 - σ ^ 2 ≠ 0) :
    koyamaLpMin (u * σ) (u * l) = u * koyamaLpMin σ l := by
  unfold koyamaLpMin
  simp only [Lit_ofNat, powN_real, Nat.cast_ofNat]
  have hd' : 4 * (u * l) ^ 2 - (u * σ) ^ 2 ≠ 0 := by
    have : 4 * (u * l) ^ 2 - (u * σ) ^ 2 = u ^ 2 * (4 * l ^ 2 - σ ^ 2) := by ring
    rw [this]; exact mul_ne_zero (pow_ne_zero _ hu.ne') hd
  field_simp

/-- **the same chain described in other units of length is accepted / rejected alike and takes the same bending-energy branch**
(the near-freely-jointed test is the RELATIVE distance `(lp − lp_min)/lp_min < 0.001`; an absolute one would not be unit-free) -/
theorem koyama_decisions_unit_free (σ l lp u : ℝ) (hu : 0 < u) (hσ : 0 < σ) (hl : σ / 2 < l) :
    koyamaCtorOK (u * σ) (u * l) (u * lp) = koyamaCtorOK σ l lp ∧
    koyamaLinearised (u * σ) (u * l) (u * lp) = koyamaLinearised σ l lp := by
  have hl0 : 0 < l := by linarith
  have hd : 4 * l ^ 2 - σ ^ 2 ≠ 0 := by have : 0 < 4 * l ^ 2 - σ ^ 2 := by nlinarith
                                        exact this.ne'
  have hm := koyama_lpmin_units σ l u hu hd
  have hpos := koyama_lpmin_pos σ l hσ hl
  constructor
  · unfold koyamaCtorOK
    rw [hm]
    have e1 : (u * σ / Lit.ofNat 2 < u * l) ↔ (σ / Lit.ofNat 2 < l) := by
      simp only [Lit_ofNat, Nat.cast_ofNat]
      rw [mul_div_assoc]; exact mul_lt_mul_iff_right₀ hu
    have e2 : (u * lp < u * koyamaLpMin σ l) ↔ (lp < koyamaLpMin σ l) := mul_lt_mul_iff_right₀ hu
    simp only [e1, e2]
  · unfold koyamaLinearised
    rw [hm]
    have e : (u * lp - u * koyamaLpMin σ l) / (u * koyamaLpMin σ l) = (lp - koyamaLpMin σ l) / koyamaLpMin σ l := by
      field_simp
    rw [e]

/-- the kernel parameters are admissible (`B > 0`, `A² ≥ 0` — the hypotheses of the `…_partial` theorems above) exactly when
the moments satisfy `r2 > 0` and `r2² ≤ r4 < (5/3) r2²`, i.e. `0 < C ≤ 1` -/
theorem koyama_params_ok (r2 r4 : ℝ) (h2 : 0 < r2) (hlo : r2 ^ 2 ≤ r4) (hhi : 3 * r4 < 5 * r2 ^ 2) :
    0 < (koyamaParams r2 r4).2.1 ∧ 0 ≤ (koyamaParams r2 r4).2.2 := by
  unfold koyamaParams
  simp only [Transc_sqrt, Lit_ofNat, dec_eq, Nat.cast_ofNat, Nat.cast_one]
  have hr : 0 < r2 * r2 := by positivity
  have hq1 : 1 ≤ r4 / (r2 * r2) := by rw [le_div_iff₀ hr]; nlinarith
  have hq2 : r4 / (r2 * r2) < 5 / 3 := by rw [div_lt_iff₀ hr]; nlinarith
  set x := (5 : ℝ) / 10 ^ 1 * (5 - 3 * (r4 / (r2 * r2))) with hx
  have hx0 : 0 < x := by rw [hx]; norm_num; linarith
  have hx1 : x ≤ 1 := by rw [hx]; norm_num; linarith
  have hC0 : 0 < Real.sqrt x := Real.sqrt_pos.mpr hx0
  have hC1 : Real.sqrt x ≤ 1 := by rw [← Real.sqrt_one]; exact Real.sqrt_le_sqrt hx1
  have e : (5 : ℝ) / 10 ^ 1 * (5 - 3 * r4 / (r2 * r2)) = x := by rw [hx]; ring
  rw [e]
  constructor
  · exact Real.sqrt_pos.mpr (by positivity)
  · have : 0 ≤ 1 - Real.sqrt x := by linarith
    positivity

/-! non-vacuity -/
example : (1.0:ℝ) ≠ 0 ∧ (0.5:ℝ) * 1.0 ≠ 0 := by norm_num
example : (0:ℝ) < 1 ∧ (1:ℝ) ^ 2 ≤ 1.2 ∧ 3 * (1.2:ℝ) < 5 * 1 ^ 2 := by norm_num

end C11
