import Proofs.Lemmas.MAarith
import Mathlib.Data.Matrix.Mul
/-!
# C13 — MatrixArray arithmetic matches per-matrix linear algebra without aliasing

Value level (`Model/MatrixArray.lean`): `+ - * /` are element-wise for every operand kind,
`dot` is the matrix product at every grid point, `invert` applies the external `inv`
matrix by matrix, pair assignment is symmetric, unknown types give `ValueError`, the space
rule is the stated decision table.  Object level (`Model/MAHeap.lean`): out-of-place
results live in a fresh buffer, in-place element-wise operators write only the left
operand's buffer, distinct objects never share a buffer — for every operation sequence.
-/
open Finset

namespace C13

/-! ## value level -/

/-- the space rule: accepted ⇔ equal flags or one of them NonSpatial (all 9 pairs) -/
theorem space_rule (a b : Space) : spaceOK a b = true ↔ (a = b ∨ a = .nonspatial ∨ b = .nonspatial) := by
  cases a <;> cases b <;> simp [spaceOK]

/-- `+ - * /` with any operand kind: accepted ⇔ the operand is not a MatrixArray of the other space -/
theorem binop_ok_iff (f : ℝ → ℝ → ℝ) (A : MA ℝ) (o : Operand ℝ) :
    (∃ R, A.binop f o = .ok R) ↔ (∀ B, o = .ma B → spaceOK A.space B.space = true) := by
  unfold MA.binop
  cases o <;> simp [Operand.spaceOK]
  rename_i B
  by_cases h : spaceOK A.space B.space = true <;> simp [h]

/-- element for element: `(A ∘ o)[l,i,j] = A[l,i,j] ∘ o[l,i,j]`, shape and flag of the left operand -/
theorem binop_pointwise (f : ℝ → ℝ → ℝ) (A R : MA ℝ) (o : Operand ℝ) (h : A.binop f o = .ok R)
    {l i j : ℕ} (hl : l < A.length) (hi : i < A.rank) (hj : j < A.rank) :
    R.at l i j = f (A.at l i j) (o.at A.rank l i j) ∧ R.length = A.length ∧ R.rank = A.rank ∧ R.space = A.space := by
  unfold MA.binop at h
  split at h
  · cases h
    exact ⟨build_at _ _ _ _ hl hi hj, rfl, rfl, rfl⟩
  · cases h

/-- **a length-1 left operand** (the density arrays) combined out of place with a longer right operand is broadcast over the
right operand's grid: the result has the right operand's length and `R[l,i,j] = A[0,i,j] ∘ o[l,i,j]` -/
theorem binop_short_left (f : ℝ → ℝ → ℝ) (A R : MA ℝ) (o : Operand ℝ) (hA : A.length = 1) (hn : 1 < o.len A.rank)
    (h : (A.stretch (o.len A.rank)).binop f o = .ok R) {l i j : ℕ} (hl : l < o.len A.rank) (hi : i < A.rank) (hj : j < A.rank) :
    R.length = o.len A.rank ∧ R.rank = A.rank ∧ R.space = A.space ∧ R.at l i j = f (A.at 0 i j) (o.at A.rank l i j) := by
  have hs : A.stretch (o.len A.rank) = MA.build (o.len A.rank) A.rank A.space fun _ i j => A.at 0 i j := by
    unfold MA.stretch; rw [if_pos ⟨hA, hn⟩]
  rw [hs] at h
  obtain ⟨h1, h2, h3, h4⟩ := binop_pointwise f _ R o h (l := l) (i := i) (j := j) hl hi hj
  simp only [build_length, build_rank, build_space] at h1 h2 h3 h4
  refine ⟨h2, h3, h4, ?_⟩
  rw [h1, build_at _ _ _ _ hl hi hj]

/-- operand kinds: scalar, per-grid-point array, per-matrix array, full array, MatrixArray
(a length-1 MatrixArray such as `density.pair` is broadcast over the grid) -/
theorem operand_at_ma (B : MA ℝ) (n l i j : ℕ) :
    (Operand.ma B).at n l i j = B.at (if B.length = 1 then 0 else l) i j := rfl

/-- `dot` is the matrix product at every grid point -/
theorem dot_is_matrix_mul (A B R : MA ℝ) (h : A.dot B = .ok R)
    {l i k : ℕ} (hl : l < A.length) (hi : i < A.rank) (hk : k < A.rank) :
    R.at l i k = ∑ j ∈ range A.rank, A.at l i j * B.at l j k := by
  unfold MA.dot at h
  split at h
  · cases h
    rw [build_at _ _ _ _ hl hi hk, sumTo_eq_sum]
  · cases h

/-- the same, phrased with Mathlib's `Matrix` product -/
theorem dot_is_Matrix_mul (A B R : MA ℝ) (h : A.dot B = .ok R) {l : ℕ} (hl : l < A.length) :
    (Matrix.of fun (i k : Fin A.rank) => R.at l i k) =
      (Matrix.of fun (i j : Fin A.rank) => A.at l i j) * (Matrix.of fun (j k : Fin A.rank) => B.at l j k) := by
  ext i k
  simp only [Matrix.of_apply, Matrix.mul_apply]
  rw [dot_is_matrix_mul A B R h hl i.2 k.2, ← Fin.sum_univ_eq_sum_range (fun j => A.at l i j * B.at l j k)]

theorem dot_ok_iff (A B : MA ℝ) : (∃ R, A.dot B = .ok R) ↔ spaceOK A.space B.space = true := by
  unfold MA.dot; cases h : spaceOK A.space B.space <;> simp

/-- the flattened matrix handed to the external inverse at grid point `l` -/
def flatAt (A : MA ℝ) (l : ℕ) : Array ℝ := tab (A.rank * A.rank) fun idx => A.at l (idx / A.rank) (idx % A.rank)

theorem invert_at (inv : ℕ → Array ℝ → Array ℝ) (A : MA ℝ) {l i j : ℕ} (hl : l < A.length) (hi : i < A.rank)
    (hj : j < A.rank) : (A.invert inv).at l i j = (inv A.rank (flatAt A l))[i * A.rank + j]! := by
  unfold MA.invert
  rw [build_at _ _ _ _ hl hi hj]; rfl

theorem flatAt_get (A : MA ℝ) (l : ℕ) {i j : ℕ} (hi : i < A.rank) (hj : j < A.rank) :
    (flatAt A l)[i * A.rank + j]! = A.at l i j := by
  unfold flatAt
  rw [tab_get _ _ _ (flat2_lt hi hj), flat2_div hj, flat2_mod hj]

/-- **invert**: if the external routine returns a right inverse of each matrix (its
specification), then `A.dot(A.invert())` is the identity MatrixArray, element for element. -/
theorem invert_spec (inv : ℕ → Array ℝ → Array ℝ) (A R : MA ℝ)
    (hinv : ∀ l, l < A.length → ∀ i k, i < A.rank → k < A.rank →
      ∑ j ∈ range A.rank, (flatAt A l)[i * A.rank + j]! * (inv A.rank (flatAt A l))[j * A.rank + k]! =
        if i = k then 1 else 0)
    (h : A.dot (A.invert inv) = .ok R) {l i k : ℕ} (hl : l < A.length) (hi : i < A.rank) (hk : k < A.rank) :
    R.at l i k = (MA.identity A.length A.rank A.space : MA ℝ).at l i k := by
  rw [dot_is_matrix_mul A _ R h hl hi hk]
  unfold MA.identity
  rw [build_at _ _ _ _ hl hi hk]
  simp only [Lit_ofNat, Nat.cast_one, Nat.cast_zero]
  rw [← hinv l hl i k hi hk]
  apply Finset.sum_congr rfl
  intro j hj
  have hj' : j < A.rank := mem_range.mp hj
  rw [invert_at inv A hl hj' hk, flatAt_get A l hi hj']

/-- inverting never needs a space check and keeps shape and flag -/
theorem invert_shape (inv : ℕ → Array ℝ → Array ℝ) (A : MA ℝ) :
    (A.invert inv).length = A.length ∧ (A.invert inv).rank = A.rank ∧ (A.invert inv).space = A.space :=
  ⟨rfl, rfl, rfl⟩

/-- assigning a pair function writes `(a,b)` **and** `(b,a)`, and nothing else -/
theorem setPair_symmetric (A R : MA ℝ) (i j : ℕ) (v : Array ℝ) (h : A.setPair i j v = .ok R)
    {l a b : ℕ} (hl : l < A.length) (ha : a < A.rank) (hb : b < A.rank) :
    R.at l a b = if (a = i ∧ b = j) ∨ (a = j ∧ b = i) then v[l]! else A.at l a b := by
  unfold MA.setPair at h
  split at h
  · cases h; exact build_at _ _ _ _ hl ha hb
  · cases h

/-- reading either order returns what was assigned -/
theorem getPair_either_order (A R : MA ℝ) (i j : ℕ) (v : Array ℝ) (h : A.setPair i j v = .ok R)
    (hi : i < A.rank) (hj : j < A.rank) {l : ℕ} (hl : l < A.length) :
    (∃ g, R.getPair i j = .ok g ∧ g[l]! = v[l]!) ∧ (∃ g, R.getPair j i = .ok g ∧ g[l]! = v[l]!) := by
  have hr : R.rank = A.rank ∧ R.length = A.length := by
    unfold MA.setPair at h; split at h
    · cases h; exact ⟨rfl, rfl⟩
    · cases h
  have e1 := setPair_symmetric A R i j v h hl hi hj
  have e2 := setPair_symmetric A R i j v h hl hj hi
  simp at e1 e2
  unfold MA.getPair
  rw [hr.1, hr.2]
  simp only [hi, hj, and_self, if_true]
  exact ⟨⟨_, rfl, by rw [tab_get _ _ _ hl]; exact e1⟩, ⟨_, rfl, by rw [tab_get _ _ _ hl]; exact e2⟩⟩

/-- unknown type names (positions outside the type list) raise ValueError, on write and on read -/
theorem unknown_type_error (A : MA ℝ) (i j : ℕ) (v : Array ℝ) (h : ¬ (i < A.rank ∧ j < A.rank)) :
    A.setPair i j v = .error .valueError ∧ A.getPair i j = .error .valueError := by
  unfold MA.setPair MA.getPair; simp [h]

/-- `IdentityMatrixArray` is the identity at every grid point -/
theorem identity_at (L n : ℕ) (s : Space) {l i j : ℕ} (hl : l < L) (hi : i < n) (hj : j < n) :
    (MA.identity L n s : MA ℝ).at l i j = if i = j then 1 else 0 := by
  unfold MA.identity; rw [build_at _ _ _ _ hl hi hj]; simp

/-! ## object level -/

/-- distinct Python objects own distinct buffers, all allocated -/
structure HInv (h : MH ℝ) : Prop where
  lt : ∀ o ∈ h.objs, o.ref < h.next
  nodup : (h.objs.map (·.ref)).Nodup

theorem hinv_init : HInv (MH.init : MH ℝ) := ⟨by simp [MH.init], by simp [MH.init]⟩

lemma hinv_alloc (h : MH ℝ) (hi : HInv h) (A : MA ℝ) : HInv (h.alloc A) := by
  refine ⟨?_, ?_⟩
  · intro o ho
    simp only [MH.alloc, List.mem_append, List.mem_singleton] at ho
    show o.ref < h.next + 1
    rcases ho with ho | rfl
    · have := hi.lt o ho; omega
    · simp
  · simp only [MH.alloc, List.map_append, List.map_singleton]
    rw [List.nodup_append]
    refine ⟨hi.nodup, List.nodup_singleton _, ?_⟩
    intro a ha b hb
    simp at hb; subst hb
    obtain ⟨o, ho, rfl⟩ := List.mem_map.mp ha
    have := hi.lt o ho; omega

lemma hinv_writeBuf (h : MH ℝ) (hi : HInv h) (k : ℕ) (A : MA ℝ) : HInv (h.writeBuf k A) := by
  unfold MH.writeBuf; split
  · exact hi
  · exact ⟨hi.lt, hi.nodup⟩

lemma hinv_rebind (h : MH ℝ) (hi : HInv h) (k : ℕ) (A : MA ℝ) : HInv (h.rebind k A) := by
  refine ⟨?_, ?_⟩
  · intro o ho
    show o.ref < h.next + 1
    simp only [MH.rebind] at ho
    rw [List.mem_iff_getElem] at ho
    obtain ⟨n, hn, rfl⟩ := ho
    rw [List.getElem_modify]
    simp only [List.length_modify] at hn
    split
    · simp
    · have := hi.lt _ (List.getElem_mem hn); omega
  · simp only [MH.rebind]
    rw [List.nodup_iff_injective_getElem]
    intro ⟨a, ha⟩ ⟨b, hb⟩ hab
    simp only [List.length_map, List.length_modify] at ha hb
    simp only [List.getElem_map, List.getElem_modify] at hab
    have hnd := hi.nodup
    rw [List.nodup_iff_injective_getElem] at hnd
    ext; simp only
    by_cases ca : k = a <;> by_cases cb : k = b
    · omega
    · rw [if_pos ca, if_neg cb] at hab
      have := hi.lt _ (List.getElem_mem hb); simp at hab; omega
    · rw [if_neg ca, if_pos cb] at hab
      have := hi.lt _ (List.getElem_mem ha); simp at hab; omega
    · rw [if_neg ca, if_neg cb] at hab
      have := @hnd ⟨a, by simpa using ha⟩ ⟨b, by simpa using hb⟩ (by simpa using hab)
      simpa using this

/-- the invariant holds after every operation … -/
theorem step_inv (inv : ℕ → Array ℝ → Array ℝ) (h h' : MH ℝ) (hi : HInv h) (op : MOp ℝ)
    (hs : h.step inv op = .ok h') : HInv h' := by
  cases op with
  | new A => simp [MH.step] at hs; subst hs; exact hinv_alloc h hi A
  | binop f k rhs ip =>
    simp only [MH.step] at hs
    split at hs
    · cases ip
      · simp only [Bool.false_eq_true, if_false] at hs
        split at hs
        · cases hs
        · cases hs; exact hinv_alloc h hi _
      · simp only [if_true] at hs
        split at hs
        · cases hs
        · split at hs
          · cases hs
          · cases hs; exact hinv_writeBuf h hi _ _
    · cases hs
  | dot k1 k2 ip =>
    simp only [MH.step] at hs
    split at hs
    · split at hs
      · cases hs
      · simp at hs; subst hs
        split
        · exact hinv_rebind h hi _ _
        · exact hinv_alloc h hi _
    · cases hs
  | invert k ip =>
    simp only [MH.step] at hs
    split at hs
    · simp at hs; subst hs
      split
      · exact hinv_rebind h hi _ _
      · exact hinv_alloc h hi _
    · cases hs
  | getCopy k =>
    simp only [MH.step] at hs
    split at hs
    · simp at hs; subst hs; exact hinv_alloc h hi _
    · cases hs
  | setPair k i j v =>
    simp only [MH.step] at hs
    split at hs
    · split at hs
      · cases hs
      · simp at hs; subst hs; exact hinv_writeBuf h hi _ _
    · cases hs

/-- … hence in every reachable state (any finite sequence of operations, failed ones skipped) -/
theorem reachable_inv (inv : ℕ → Array ℝ → Array ℝ) (ops : List (MOp ℝ)) :
    HInv (ops.foldl (fun h op => match h.step inv op with | .ok h' => h' | .error _ => h) (MH.init : MH ℝ)) := by
  suffices H : ∀ h : MH ℝ, HInv h →
      HInv (ops.foldl (fun h op => match h.step inv op with | .ok h' => h' | .error _ => h) h) from H _ hinv_init
  induction ops with
  | nil => intro h hi; exact hi
  | cons op ops ih =>
    intro h hi
    simp only [List.foldl_cons]
    apply ih
    cases hs : h.step inv op with
    | ok h' => exact step_inv inv h h' hi op hs
    | error e => exact hi

/-- **out-of-place operations and `get_copy`**: the result is a *new* object whose buffer did
not exist before; every existing buffer and every existing object is untouched. -/
theorem outOfPlace_fresh (inv : ℕ → Array ℝ → Array ℝ) (h h' : MH ℝ) (hi : HInv h) (op : MOp ℝ)
    (hs : h.step inv op = .ok h')
    (hop : (∃ A, op = .new A) ∨ (∃ f k r, op = .binop f k r false) ∨ (∃ a b, op = .dot a b false) ∨
      (∃ k, op = .invert k false) ∨ (∃ k, op = .getCopy k)) :
    (∀ r, r < h.next → h'.cell r = h.cell r) ∧
    (∃ o, h'.objs = h.objs ++ [o] ∧ o.ref = h.next) ∧
    (∀ k A, h.view k = some A → h'.view k = some A) := by
  have key : ∀ R : MA ℝ, h' = h.alloc R →
      (∀ r, r < h.next → h'.cell r = h.cell r) ∧ (∃ o, h'.objs = h.objs ++ [o] ∧ o.ref = h.next) := by
    intro R e; subst e
    refine ⟨?_, ⟨_, rfl, rfl⟩⟩
    intro r hr; have : r ≠ h.next := by omega
    simp [MH.alloc, upd, this]
  have hview : ∀ R : MA ℝ, h' = h.alloc R → HInv h → ∀ k A, h.view k = some A → h'.view k = some A := by
    intro R e hi k A hv; subst e
    unfold MH.view at hv ⊢
    cases ho : h.objs[k]? with
    | none => simp [ho] at hv
    | some o =>
      have hk : k < h.objs.length := (List.getElem?_eq_some_iff.mp ho).1
      have : (h.alloc R).objs[k]? = some o := by
        simp only [MH.alloc]; rw [List.getElem?_append_left hk]; exact ho
      rw [this]; simp only [ho] at hv
      have hlt := hi.lt o (List.mem_of_getElem? ho)
      have hne : o.ref ≠ h.next := by omega
      simpa [MH.alloc, upd, hne] using hv
  -- every case allocates
  have hal : ∃ R : MA ℝ, h' = h.alloc R := by
    rcases hop with ⟨A, rfl⟩ | ⟨f, k, r, rfl⟩ | ⟨a, b, rfl⟩ | ⟨k, rfl⟩ | ⟨k, rfl⟩
    · simp [MH.step] at hs; exact ⟨A, hs.symm⟩
    · simp only [MH.step, Bool.false_eq_true, if_false] at hs
      split at hs
      · split at hs
        · cases hs
        · simp at hs; exact ⟨_, hs.symm⟩
      · cases hs
    · simp only [MH.step] at hs
      split at hs
      · split at hs
        · cases hs
        · simp at hs; exact ⟨_, hs.symm⟩
      · cases hs
    · simp only [MH.step] at hs
      split at hs
      · simp at hs; exact ⟨_, hs.symm⟩
      · cases hs
    · simp only [MH.step] at hs
      split at hs
      · simp at hs; exact ⟨_, hs.symm⟩
      · cases hs
  obtain ⟨R, e⟩ := hal
  exact ⟨(key R e).1, (key R e).2, hview R e hi⟩

/-! ### in-place operators -/

lemma view_writeBuf_self (h : MH ℝ) (k : ℕ) (A R : MA ℝ) (hv : h.view k = some A)
    (hR : R.length = A.length ∧ R.rank = A.rank ∧ R.space = A.space) : (h.writeBuf k R).view k = some R := by
  unfold MH.view at hv ⊢
  unfold MH.writeBuf
  cases ho : h.objs[k]? with
  | none => simp [ho] at hv
  | some o =>
    simp only [ho] at hv ⊢
    cases hc : h.cell o.ref with
    | none => simp [hc] at hv
    | some d =>
      simp only [hc, Option.map_some, Option.some.injEq] at hv
      subst hv
      obtain ⟨h1, h2, h3⟩ := hR
      simp only at h1 h2 h3
      cases R; simp_all [upd]

lemma view_writeBuf_other (h : MH ℝ) (hi : HInv h) (k k' : ℕ) (hk : k' ≠ k) (R : MA ℝ) :
    (h.writeBuf k R).view k' = h.view k' := by
  unfold MH.writeBuf
  cases ho : h.objs[k]? with
  | none => rfl
  | some o =>
    unfold MH.view
    simp only
    cases ho' : h.objs[k']? with
    | none => rfl
    | some o' =>
      simp only
      have hne : o'.ref ≠ o.ref := by
        intro e
        have hnd := hi.nodup
        rw [List.nodup_iff_injective_getElem] at hnd
        obtain ⟨hk1, e1⟩ := List.getElem?_eq_some_iff.mp ho
        obtain ⟨hk2, e2⟩ := List.getElem?_eq_some_iff.mp ho'
        have := @hnd ⟨k', by simpa using hk2⟩ ⟨k, by simpa using hk1⟩ (by simp [e1, e2, e])
        exact hk (by simpa using this)
      simp [upd, hne]

/-- **in-place `+= -= *= /=`**: no object is created, only the left operand's buffer is
written, the left operand now holds exactly the out-of-place result, and every *other*
object still shows the same values. -/
theorem inPlace_only_left (inv : ℕ → Array ℝ → Array ℝ) (h h' : MH ℝ) (hi : HInv h) (f : BinOp) (k : ℕ)
    (r : Rhs ℝ) (hs : h.step inv (.binop f k r true) = .ok h') :
    h'.objs = h.objs ∧ h'.next = h.next ∧
    (∀ o, h.objs[k]? = some o → ∀ r', r' ≠ o.ref → h'.cell r' = h.cell r') ∧
    (∀ k', k' ≠ k → h'.view k' = h.view k') ∧
    (∃ A o R, h.view k = some A ∧ h.rhs r = some o ∧ ¬ (A.length = 1 ∧ 1 < o.len A.rank) ∧ A.binop f.fn o = .ok R ∧ h'.view k = some R) := by
  simp only [MH.step, if_true] at hs
  split at hs
  · rename_i A o hA ho
    split at hs
    · cases hs
    rename_i hns
    split at hs
    · cases hs
    · rename_i R hR
      simp at hs; subst hs
      refine ⟨?_, ?_, ?_, ?_, ?_⟩
      · unfold MH.writeBuf; split <;> rfl
      · unfold MH.writeBuf; split <;> rfl
      · intro o' ho' r' hr'
        unfold MH.writeBuf; rw [ho']; simp [upd, hr']
      · intro k' hk'; exact view_writeBuf_other h hi k k' hk' R
      · refine ⟨A, o, R, hA, ho, hns, hR, ?_⟩
        apply view_writeBuf_self h k A R hA
        unfold MA.binop at hR
        split at hR
        · cases hR; exact ⟨rfl, rfl, rfl⟩
        · cases hR
  · cases hs

/-- the same operator out of place yields a new object holding the *same* value: in-place
and out-of-place versions compute the same MatrixArray -/
theorem inplace_eq_outofplace (inv : ℕ → Array ℝ → Array ℝ) (h h1 h2 : MH ℝ) (hi : HInv h) (f : BinOp) (k : ℕ)
    (r : Rhs ℝ) (hs1 : h.step inv (.binop f k r true) = .ok h1) (hs2 : h.step inv (.binop f k r false) = .ok h2) :
    h1.view k = h2.view h.objs.length := by
  obtain ⟨_, _, _, _, A, o, R, hA, ho, hns, hR, hv⟩ := inPlace_only_left inv h h1 hi f k r hs1
  have hst : A.stretch (o.len A.rank) = A := by unfold MA.stretch; rw [if_neg hns]
  simp only [MH.step, hA, ho, Bool.false_eq_true, if_false, hst, hR] at hs2
  simp at hs2; subst hs2
  rw [hv]
  unfold MH.view MH.alloc
  simp [upd]

/-- a whole sequence of in-place element-wise operators with array/scalar operands leaves in
the object exactly the value obtained by chaining the out-of-place operators -/
theorem inplace_seq_eq_outofplace_seq (inv : ℕ → Array ℝ → Array ℝ) (ops : List (BinOp × Operand ℝ))
    (h : MH ℝ) (hi : HInv h) (k : ℕ) (A : MA ℝ) (hA : h.view k = some A)
    (hlit : ∀ p ∈ ops, ∀ B, p.2 ≠ .ma B) (hlen : ∀ p ∈ ops, ¬ (A.length = 1 ∧ 1 < p.2.len A.rank)) :
    ∃ h', ops.foldl (fun (acc : Except Err (MH ℝ)) p => acc.bind fun h => h.step inv (.binop p.1 k (.lit p.2) true)) (.ok h) = .ok h' ∧
      ∃ R, ops.foldl (fun (acc : Except Err (MA ℝ)) p => acc.bind fun X => X.binop p.1.fn p.2) (.ok A) = .ok R ∧
        h'.view k = some R := by
  induction ops generalizing h A with
  | nil => exact ⟨h, rfl, A, rfl, hA⟩
  | cons p ops ih =>
    simp only [List.foldl_cons]
    have hok : ∃ R, A.binop p.1.fn p.2 = .ok R := by
      rw [binop_ok_iff]; intro B hB; exact absurd hB (hlit p (by simp) B)
    obtain ⟨R, hR⟩ := hok
    have hns := hlen p (by simp)
    have hstep : h.step inv (.binop p.1 k (.lit p.2) true) = .ok (h.writeBuf k R) := by
      simp only [MH.step, hA, MH.rhs, if_true, if_neg hns, hR]
    have hi' : HInv (h.writeBuf k R) := hinv_writeBuf h hi k R
    have hv' : (h.writeBuf k R).view k = some R := by
      obtain ⟨_, _, _, _, A', o', R', hA', ho', _, hR', hv⟩ := inPlace_only_left inv h _ hi p.1 k (.lit p.2) hstep
      rw [hA] at hA'; cases hA'
      simp [MH.rhs] at ho'; subst ho'
      rw [hR] at hR'; cases hR'
      exact hv
    have hRm : R.length = A.length ∧ R.rank = A.rank := by
      unfold MA.binop at hR; split at hR
      · cases hR; exact ⟨rfl, rfl⟩
      · cases hR
    obtain ⟨h', e1, R2, e2, e3⟩ := ih (h.writeBuf k R) hi' R hv' (fun q hq => hlit q (by simp [hq]))
      (fun q hq => by rw [hRm.1, hRm.2]; exact hlen q (by simp [hq]))
    refine ⟨h', ?_, R2, ?_, e3⟩
    · simp only [Except.bind, hstep]; exact e1
    · simp only [Except.bind, hR]; exact e2

/-- **in-place `dot`, `@=`, `invert(inplace=True)`** rebind the left operand to a fresh
buffer: no existing buffer is written, so every other object is untouched. -/
theorem inPlace_rebind_frame (inv : ℕ → Array ℝ → Array ℝ) (h h' : MH ℝ) (hi : HInv h) (op : MOp ℝ)
    (hs : h.step inv op = .ok h') (hop : (∃ a b, op = .dot a b true) ∨ (∃ k, op = .invert k true)) :
    (∀ r, r < h.next → h'.cell r = h.cell r) ∧ h'.objs.length = h.objs.length := by
  have key : ∀ k (R : MA ℝ), h' = h.rebind k R →
      (∀ r, r < h.next → h'.cell r = h.cell r) ∧ h'.objs.length = h.objs.length := by
    intro k R e; subst e
    refine ⟨?_, by simp [MH.rebind]⟩
    intro r hr; have : r ≠ h.next := by omega
    simp [MH.rebind, upd, this]
  rcases hop with ⟨a, b, rfl⟩ | ⟨k, rfl⟩
  · simp only [MH.step] at hs
    split at hs
    · split at hs
      · cases hs
      · simp at hs; exact key _ _ hs.symm
    · cases hs
  · simp only [MH.step] at hs
    split at hs
    · simp at hs; exact key _ _ hs.symm
    · cases hs

/-! ### non-vacuity -/
example : spaceOK .real .fourier = false ∧ spaceOK .nonspatial .fourier = true := by decide
example : HInv ((MH.init : MH ℝ).alloc (MA.identity 2 2 .real)) := hinv_alloc _ hinv_init _

end C13
