import Proofs.Props.C05
import Proofs.Props.C01
/-!
# C06 — Post-processing is history independent and never corrupts the solved object

State = the three stored arrays (`omega`, `totalCorr`, `directCorr`) with their space flags.
`canonF d X` is `X` moved to Fourier space.  Every `calculate.*` call and every user transform
changes the object only by moving one stored array to the other space (`Step`), such a move
preserves the canonical form of every array (`step_canon`, from the DST inverse theorem), hence
so does every finite call history (`history_preserves_canon`); the values returned are entry-wise
formulas of the moved arrays (C05), and those are determined by the canonical form
(`ensureReal_of_canon`, `ensureFourier_eq_canon`).
-/
open Finset Real

namespace C06

/-- entry-wise equality of MatrixArrays (same shape, same flag, same entries) -/
def Eqv (A B : MA ℝ) : Prop :=
  A.length = B.length ∧ A.rank = B.rank ∧ A.space = B.space ∧
    ∀ l i j, l < A.length → i < A.rank → j < A.rank → A.at l i j = B.at l i j

theorem Eqv.refl (A : MA ℝ) : Eqv A A := ⟨rfl, rfl, rfl, fun _ _ _ _ _ _ => rfl⟩
theorem Eqv.symm {A B : MA ℝ} (h : Eqv A B) : Eqv B A :=
  ⟨h.1.symm, h.2.1.symm, h.2.2.1.symm, fun l i j hl hi hj => (h.2.2.2 l i j (h.1 ▸ hl) (h.2.1 ▸ hi) (h.2.1 ▸ hj)).symm⟩
theorem Eqv.trans {A B C : MA ℝ} (h1 : Eqv A B) (h2 : Eqv B C) : Eqv A C :=
  ⟨h1.1.trans h2.1, h1.2.1.trans h2.2.1, h1.2.2.1.trans h2.2.2.1, fun l i j hl hi hj =>
    (h1.2.2.2 l i j hl hi hj).trans (h2.2.2.2 l i j (h1.1 ▸ hl) (h1.2.1 ▸ hi) (h1.2.1 ▸ hj))⟩

/-- the array in canonical (Fourier) form -/
noncomputable def canonF (d : Dom ℝ) (A : MA ℝ) : MA ℝ := if A.space = .real then A.mapPairs .fourier d.toFourier else A

/-- a stored array the post-processing can work with: symmetric, on the domain's grid, marked Real or Fourier -/
structure GoodArr (d : Dom ℝ) (n : ℕ) (A : MA ℝ) : Prop where
  symm : C07.MA.Symm A
  len : A.length = d.length
  rank : A.rank = n
  spatial : A.space = .real ∨ A.space = .fourier

/-- `ensureFourier` *computes* the canonical form -/
theorem ensureFourier_eq_canon {d : Dom ℝ} {A B : MA ℝ} (h : ensureFourier d A = .ok B) : B = canonF d A := by
  unfold canonF
  rcases C05.ensureFourier_cases h with ⟨hs, rfl⟩ | ⟨hs, rfl⟩
  · rw [if_pos hs]
  · rw [if_neg hs]

theorem canonF_idem (d : Dom ℝ) (A : MA ℝ) : canonF d (canonF d A) = canonF d A := by
  unfold canonF
  by_cases h : A.space = .real
  · have : (A.mapPairs Space.fourier d.toFourier).space ≠ .real := by
      rw [(C07.mapPairs_meta A .fourier d.toFourier).2.2]; decide
    rw [if_pos h, if_neg this]
  · rw [if_neg h, if_neg h]

theorem mapPairs_good (d : Dom ℝ) (n : ℕ) (A : MA ℝ) (g : GoodArr d n A) (sp : Space) (hsp : sp = .real ∨ sp = .fourier)
    (T : Array ℝ → Array ℝ) : GoodArr d n (A.mapPairs sp T) := by
  obtain ⟨a, b, c⟩ := C07.mapPairs_meta A sp T
  refine ⟨?_, by rw [a]; exact g.len, by rw [b]; exact g.rank, by rw [c]; exact hsp⟩
  intro l i j hl hi hj
  rw [a] at hl; rw [b] at hi hj
  exact C07.mapPairs_symmetric A sp T hl hi hj

/-- Fourier → Real → Fourier is the identity on good arrays (entry-wise) -/
theorem roundtrip_RF (d : Dom ℝ) (hd : C07.DInv d) (n : ℕ) (A : MA ℝ) (g : GoodArr d n A) :
    Eqv ((A.mapPairs .real d.toReal).mapPairs .fourier d.toFourier) { A with space := .fourier } := by
  set B := A.mapPairs .real d.toReal with hB
  obtain ⟨a, b, c⟩ := C07.mapPairs_meta A .real d.toReal
  obtain ⟨a', b', c'⟩ := C07.mapPairs_meta B .fourier d.toFourier
  refine ⟨by rw [a', a], by rw [b', b], by rw [c'], ?_⟩
  intro l i j hl hi hj
  rw [a', a] at hl; rw [b', b] at hi hj
  rw [C07.mapPairs_at B _ _ (by rw [a]; exact hl) (by rw [b]; exact hi) (by rw [b]; exact hj)]
  have hld : l < d.length := by rw [← g.len]; exact hl
  have hmin : min i j < A.rank := by rcases min_choice i j with h | h <;> rw [h] <;> assumption
  have hmax : max i j < A.rank := by rcases max_choice i j with h | h <;> rw [h] <;> assumption
  rw [C07.toFourier_congr d (B.pair (min i j) (max i j)) (d.toReal (A.pair (min i j) (max i j))) (by
    intro m hm
    have hmA : m < A.length := by rw [g.len]; exact hm
    rw [C07.pair_get B _ _ m (by rw [a]; exact hmA), C07.mapPairs_at A _ _ hmA hmin hmax, min_eq_left (min_le_max), max_eq_right (min_le_max)]) l hld]
  rw [C07.toFourier_toReal d hd _ l hld, C07.pair_get A _ _ l hl]
  show A.at l (min i j) (max i j) = A.at l i j
  rcases le_total i j with h | h
  · rw [min_eq_left h, max_eq_right h]
  · rw [min_eq_right h, max_eq_left h]; exact g.symm l j i hl hj hi

/-- Real → Fourier → Real is the identity on good arrays (entry-wise) -/
theorem roundtrip_FR (d : Dom ℝ) (hd : C07.DInv d) (n : ℕ) (A : MA ℝ) (g : GoodArr d n A) :
    Eqv ((A.mapPairs .fourier d.toFourier).mapPairs .real d.toReal) { A with space := .real } := by
  set B := A.mapPairs .fourier d.toFourier with hB
  obtain ⟨a, b, c⟩ := C07.mapPairs_meta A .fourier d.toFourier
  obtain ⟨a', b', c'⟩ := C07.mapPairs_meta B .real d.toReal
  refine ⟨by rw [a', a], by rw [b', b], by rw [c'], ?_⟩
  intro l i j hl hi hj
  rw [a', a] at hl; rw [b', b] at hi hj
  rw [C07.mapPairs_at B _ _ (by rw [a]; exact hl) (by rw [b]; exact hi) (by rw [b]; exact hj)]
  have hld : l < d.length := by rw [← g.len]; exact hl
  have hmin : min i j < A.rank := by rcases min_choice i j with h | h <;> rw [h] <;> assumption
  have hmax : max i j < A.rank := by rcases max_choice i j with h | h <;> rw [h] <;> assumption
  rw [C07.toReal_congr d (B.pair (min i j) (max i j)) (d.toFourier (A.pair (min i j) (max i j))) (by
    intro m hm
    have hmA : m < A.length := by rw [g.len]; exact hm
    rw [C07.pair_get B _ _ m (by rw [a]; exact hmA), C07.mapPairs_at A _ _ hmA hmin hmax, min_eq_left (min_le_max), max_eq_right (min_le_max)]) l hld]
  rw [C07.toReal_toFourier d hd _ l hld, C07.pair_get A _ _ l hl]
  show A.at l (min i j) (max i j) = A.at l i j
  rcases le_total i j with h | h
  · rw [min_eq_left h, max_eq_right h]
  · rw [min_eq_right h, max_eq_left h]; exact g.symm l j i hl hj hi

/-- moving a stored array to real space does not change its canonical form -/
theorem ensureReal_canon {d : Dom ℝ} (hd : C07.DInv d) {n : ℕ} {A B : MA ℝ} (g : GoodArr d n A)
    (h : ensureReal d A = .ok B) : GoodArr d n B ∧ Eqv (canonF d B) (canonF d A) := by
  rcases C05.ensureReal_cases h with ⟨hs, rfl⟩ | ⟨hs, rfl⟩
  · refine ⟨mapPairs_good d n A g .real (Or.inl rfl) _, ?_⟩
    have h1 : (A.mapPairs Space.real d.toReal).space = .real := (C07.mapPairs_meta A .real d.toReal).2.2
    have h2 : A.space ≠ .real := by rw [hs]; decide
    unfold canonF; rw [if_pos h1, if_neg h2]
    have := roundtrip_RF d hd n A g
    exact Eqv.trans this (show Eqv { A with space := .fourier } A from ⟨rfl, rfl, hs.symm, fun _ _ _ _ _ _ => rfl⟩)
  · exact ⟨g, Eqv.refl _⟩

/-- moving a stored array to Fourier space does not change its canonical form -/
theorem ensureFourier_canon {d : Dom ℝ} {n : ℕ} {A B : MA ℝ} (g : GoodArr d n A)
    (h : ensureFourier d A = .ok B) : GoodArr d n B ∧ Eqv (canonF d B) (canonF d A) := by
  have hB := ensureFourier_eq_canon h
  refine ⟨?_, by rw [hB, canonF_idem]; exact Eqv.refl _⟩
  rcases C05.ensureFourier_cases h with ⟨hs, rfl⟩ | ⟨hs, rfl⟩
  · exact mapPairs_good d n A g .fourier (Or.inr rfl) _
  · exact g

/-- the real-space array a call works with is determined by the canonical form -/
theorem ensureReal_of_canon {d : Dom ℝ} (hd : C07.DInv d) {n : ℕ} {A B : MA ℝ} (g : GoodArr d n A)
    (h : ensureReal d A = .ok B) : Eqv B ((canonF d A).mapPairs .real d.toReal) := by
  rcases C05.ensureReal_cases h with ⟨hs, hBA⟩ | ⟨hs, hBA⟩
  · rw [hBA]
    have h2 : A.space ≠ .real := by rw [hs]; decide
    unfold canonF; rw [if_neg h2]; exact Eqv.refl _
  · rw [hBA]
    have hr : A.space = .real := by rcases g.spatial with h' | h'; exact h'; exact absurd h' hs
    unfold canonF; rw [if_pos hr]
    exact (Eqv.trans (roundtrip_FR d hd n A g) (show Eqv { A with space := .real } A from ⟨rfl, rfl, hr.symm, fun _ _ _ _ _ _ => rfl⟩)).symm

/-! ## steps and histories -/

inductive Which | om | h | c
  deriving DecidableEq

def get (p : Prism ℝ) : Which → MA ℝ
  | .om => p.omega | .h => p.totalCorr | .c => p.directCorr
def set (p : Prism ℝ) (w : Which) (B : MA ℝ) : Prism ℝ :=
  match w with
  | .om => { p with omega := B } | .h => { p with totalCorr := B } | .c => { p with directCorr := B }

theorem get_set (p : Prism ℝ) (w w' : Which) (B : MA ℝ) : get (set p w B) w' = if w' = w then B else get p w' := by
  cases w <;> cases w' <;> simp [get, set]
@[simp] theorem set_dom (p : Prism ℝ) (w : Which) (B : MA ℝ) : (set p w B).dom = p.dom := by cases w <;> rfl
@[simp] theorem set_n (p : Prism ℝ) (w : Which) (B : MA ℝ) : (set p w B).n = p.n := by cases w <;> rfl

/-- the only way post-processing (and a user transform) changes the object: one stored array is moved to the other space -/
inductive Step : Prism ℝ → Prism ℝ → Prop
  | toF (p : Prism ℝ) (w : Which) (B : MA ℝ) (h : ensureFourier p.dom (get p w) = .ok B) : Step p (set p w B)
  | toR (p : Prism ℝ) (w : Which) (B : MA ℝ) (h : ensureReal p.dom (get p w) = .ok B) : Step p (set p w B)

def Good (p : Prism ℝ) : Prop := C07.DInv p.dom ∧ ∀ w, GoodArr p.dom p.n (get p w)
def SameCanon (p q : Prism ℝ) : Prop := q.dom = p.dom ∧ q.n = p.n ∧ ∀ w, Eqv (canonF p.dom (get q w)) (canonF p.dom (get p w))

theorem step_canon {p q : Prism ℝ} (g : Good p) (s : Step p q) : Good q ∧ SameCanon p q := by
  cases s with
  | toF w B h =>
    obtain ⟨gB, eB⟩ := ensureFourier_canon (g.2 w) h
    refine ⟨⟨by simpa using g.1, ?_⟩, by simp, by simp, ?_⟩
    · intro w'; rw [get_set, set_dom, set_n]; split
      · exact gB
      · exact g.2 w'
    · intro w'; rw [get_set]; split
      · rename_i e; subst e; exact eB
      · exact Eqv.refl _
  | toR w B h =>
    obtain ⟨gB, eB⟩ := ensureReal_canon g.1 (g.2 w) h
    refine ⟨⟨by simpa using g.1, ?_⟩, by simp, by simp, ?_⟩
    · intro w'; rw [get_set, set_dom, set_n]; split
      · exact gB
      · exact g.2 w'
    · intro w'; rw [get_set]; split
      · rename_i e; subst e; exact eB
      · exact Eqv.refl _

/-- **every finite history of array moves leaves the canonical form of all three stored arrays unchanged** -/
theorem history_preserves_canon {p q : Prism ℝ} (g : Good p) (h : Relation.ReflTransGen Step p q) : Good q ∧ SameCanon p q := by
  induction h with
  | refl => exact ⟨g, rfl, rfl, fun _ => Eqv.refl _⟩
  | tail _ s ih =>
    obtain ⟨g', c'⟩ := ih
    obtain ⟨g'', c''⟩ := step_canon g' s
    refine ⟨g'', c''.1.trans c'.1, c''.2.1.trans c'.2.1, fun w => ?_⟩
    have := c''.2.2 w
    rw [c'.1] at this
    exact Eqv.trans this (c'.2.2 w)

/-! ## every calculate function is a finite sequence of such steps -/

open Relation in
theorem pair_correlation_steps {p q : Prism ℝ} {g : MA ℝ} (h : p.pairCorrelation = .ok (q, g)) : ReflTransGen Step p q := by
  obtain ⟨hR, h1, rfl, _⟩ := C05.pair_correlation_def h
  exact ReflTransGen.single (Step.toR p .h hR h1)

open Relation in
theorem pmf_steps {p q : Prism ℝ} {g : MA ℝ} (h : p.pmf = .ok (q, g)) : ReflTransGen Step p q := by
  obtain ⟨g', h1, _⟩ := C05.pmf_def h
  exact pair_correlation_steps h1

open Relation in
theorem second_virial_steps {p q : Prism ℝ} {ex : Bool} {n' : ℕ} {t : ℕ → ℕ → Option (Array ℝ)}
    (h : p.secondVirial ex = .ok (q, .table n' t)) : ReflTransGen Step p q := by
  obtain ⟨hF, h1, rfl, _⟩ := C05.second_virial_def h
  exact ReflTransGen.single (Step.toF p .h hF h1)

open Relation in
theorem chi_steps {p q : Prism ℝ} {ex : Bool} {n' : ℕ} {t : ℕ → ℕ → Option (Array ℝ)}
    (h : p.chi ex = .ok (q, .table n' t)) : ReflTransGen Step p q := by
  obtain ⟨_, cF, h1, rfl, _⟩ := C05.chi_def h
  exact ReflTransGen.single (Step.toF p .c cF h1)

open Relation in
theorem spinodal_steps {p q : Prism ℝ} {n' : ℕ} {t : ℕ → ℕ → Option (Array ℝ)}
    (h : p.spinodal = .ok (q, .table n' t)) : ReflTransGen Step p q := by
  obtain ⟨_, cF, omF, h1, h2, rfl, _⟩ := C05.spinodal_def h
  exact ReflTransGen.tail (ReflTransGen.single (Step.toF p .c cF h1)) (Step.toF (set p .c cF) .om omF h2)

open Relation in
theorem structure_factor_steps {p q : Prism ℝ} {nz : Bool} {s : MA ℝ} (w : PWf p) (hsite : p.siteD.length = 1)
    (h : p.structureFactor nz = .ok (q, s)) : ReflTransGen Step p q := by
  obtain ⟨hF, omF, h1, h2, rfl, _⟩ := C05.structure_factor_def w hsite h
  exact ReflTransGen.tail (ReflTransGen.single (Step.toF p .h hF h1)) (Step.toF (set p .h hF) .om omF h2)

open Relation in
/-- `solvation_potential`: three moves to Fourier space, then the two of `structure_factor` -/
theorem solvation_steps {p q : Prism ℝ} {hnc : Bool} {out : MA ℝ} (w : PWf p) (hsite : p.siteD.length = 1)
    (h : p.solvation hnc = .ok (q, out)) : ReflTransGen Step p q := by
  obtain ⟨_, cF, hF, omF, S, cs, csc, psi, h1, h2, h3, h4, _⟩ := C05.solvation_def h
  have s1 : Step p (set p .c cF) := Step.toF p .c cF h1
  have s2 : Step (set p .c cF) (set (set p .c cF) .h hF) := Step.toF _ .h hF h2
  have s3 : Step (set (set p .c cF) .h hF) (set (set (set p .c cF) .h hF) .om omF) := Step.toF _ .om omF h3
  have e : (set (set (set p .c cF) .h hF) .om omF) = ({ p with directCorr := cF, totalCorr := hF, omega := omF } : Prism ℝ) := rfl
  have w' : PWf ({ p with directCorr := cF, totalCorr := hF, omega := omF } : Prism ℝ) := by
    obtain ⟨a, b, _, _⟩ := C05.ensureFourier_meta h3
    exact ⟨by simpa using a.trans w.om_len, by simpa using b.trans w.om_rank, w.pair_len, w.pair_rank⟩
  have s4 := structure_factor_steps w' (by simpa using hsite) h4
  rw [← e] at s4
  exact (ReflTransGen.tail (ReflTransGen.tail (ReflTransGen.single s1) s2) s3).trans s4

/-- a user-initiated transform of a stored array to the other space is a step as well -/
theorem flip_is_step (p : Prism ℝ) (w : Which) (B : MA ℝ)
    (h : (if (get p w).space = .real then p.dom.maToFourier (get p w) else p.dom.maToReal (get p w)) = .ok B)
    (hsp : (get p w).space = .real ∨ (get p w).space = .fourier) : Step p (set p w B) := by
  rcases hsp with hs | hs
  · rw [if_pos hs] at h
    exact Step.toF p w B (by unfold ensureFourier; rw [if_pos hs]; exact h)
  · have : (get p w).space ≠ .real := by rw [hs]; decide
    rw [if_neg this] at h
    exact Step.toR p w B (by unfold ensureReal; rw [if_pos hs]; exact h)

/-- **never corrupts**: after any of the calls the canonical form of ω, ĥ, ĉ is what it was -/
theorem calls_preserve_canon {p q : Prism ℝ} (g : Good p) (h : Relation.ReflTransGen Step p q) :
    ∀ w, Eqv (canonF p.dom (get q w)) (canonF p.dom (get p w)) := (history_preserves_canon g h).2.2.2

/-- **history independence of what the calls read**: two objects with the same canonical arrays hand the same
real-space / Fourier-space arrays to the formulas of C05 (which are entry-wise functions of them) -/
theorem reads_history_free {d : Dom ℝ} (hd : C07.DInv d) {n : ℕ} {A A' B B' : MA ℝ} (g : GoodArr d n A) (g' : GoodArr d n A')
    (hc : canonF d A = canonF d A') :
    (ensureFourier d A = .ok B → ensureFourier d A' = .ok B' → B = B') ∧
    (ensureReal d A = .ok B → ensureReal d A' = .ok B' → Eqv B B') := by
  constructor
  · intro h h'; rw [ensureFourier_eq_canon h, ensureFourier_eq_canon h', hc]
  · intro h h'
    have e := ensureReal_of_canon hd g h
    have e' := ensureReal_of_canon hd g' h'
    rw [hc] at e
    exact Eqv.trans e e'.symm

/-! ## the returned values are history independent, function by function

Two objects that describe the same solved state (same domain, densities, … and the same canonical arrays) return the same
values, whatever calls and transforms either of them went through (`history_preserves_canon` supplies the premise). -/

theorem pair_correlation_history_free {p p' q q' : Prism ℝ} {g g' : MA ℝ} (hd : C07.DInv p.dom) (hdom : p'.dom = p.dom)
    (gd : GoodArr p.dom p.n p.totalCorr) (gd' : GoodArr p.dom p.n p'.totalCorr)
    (hc : canonF p.dom p.totalCorr = canonF p.dom p'.totalCorr)
    (h : p.pairCorrelation = .ok (q, g)) (h' : p'.pairCorrelation = .ok (q', g')) : Eqv g g' := by
  obtain ⟨hR, h1, _, a1, a2, a3, a4⟩ := C05.pair_correlation_def h
  obtain ⟨hR', h1', _, b1, b2, b3, b4⟩ := C05.pair_correlation_def h'
  rw [hdom] at h1'
  have e := (reads_history_free hd gd gd' hc (B := hR) (B' := hR')).2 h1 h1'
  refine ⟨by rw [a1, b1]; exact e.1, by rw [a2, b2]; exact e.2.1, by rw [a3, b3]; exact e.2.2.1, ?_⟩
  intro l i j hl hi hj
  rw [a1] at hl; rw [a2] at hi hj
  rw [a4 l i j hl hi hj, b4 l i j (e.1 ▸ hl) (e.2.1 ▸ hi) (e.2.1 ▸ hj), e.2.2.2 l i j hl hi hj]

theorem pmf_history_free {p p' q q' : Prism ℝ} {w w' : MA ℝ} (hd : C07.DInv p.dom) (hdom : p'.dom = p.dom) (hkT : p'.kT = p.kT)
    (gd : GoodArr p.dom p.n p.totalCorr) (gd' : GoodArr p.dom p.n p'.totalCorr)
    (hc : canonF p.dom p.totalCorr = canonF p.dom p'.totalCorr)
    (h : p.pmf = .ok (q, w)) (h' : p'.pmf = .ok (q', w')) : Eqv w w' := by
  obtain ⟨g, h1, a1, a2, a3, a4⟩ := C05.pmf_entry_model h
  obtain ⟨g', h1', b1, b2, b3, b4⟩ := C05.pmf_entry_model h'
  have e := pair_correlation_history_free hd hdom gd gd' hc h1 h1'
  refine ⟨by rw [a2, b2]; exact e.1, by rw [a3, b3]; exact e.2.1, by rw [a1, b1], ?_⟩
  intro l i j hl hi hj
  rw [a2] at hl; rw [a3] at hi hj
  rw [a4 l i j hl hi hj, b4 l i j (e.1 ▸ hl) (e.2.1 ▸ hi) (e.2.1 ▸ hj), e.2.2.2 l i j hl hi hj, hkT]

theorem second_virial_history_free {p p' q q' : Prism ℝ} {ex : Bool} {n1 n2 : ℕ} {t t' : ℕ → ℕ → Option (Array ℝ)}
    (hdom : p'.dom = p.dom) (hn : p'.n = p.n) (hL : 3 ≤ p.dom.length)
    (gd : GoodArr p.dom p.n p.totalCorr)
    (hc : canonF p.dom p.totalCorr = canonF p.dom p'.totalCorr)
    (h : p.secondVirial ex = .ok (q, .table n1 t)) (h' : p'.secondVirial ex = .ok (q', .table n2 t')) :
    n1 = n2 ∧ ∀ i j, i < p.n → j < p.n → t i j = t' i j := by
  obtain ⟨hF, h1, _, a1, a2⟩ := C05.second_virial_def h
  obtain ⟨hF', h1', _, b1, b2⟩ := C05.second_virial_def h'
  rw [hdom] at h1'
  have e : hF = hF' := by rw [ensureFourier_eq_canon h1, ensureFourier_eq_canon h1', hc]
  refine ⟨by rw [a1, b1, hn], ?_⟩
  intro i j hi hj
  rw [a2 i j hi hj, b2 i j (hn ▸ hi) (hn ▸ hj), e, hdom]

theorem chi_history_free {p p' q q' : Prism ℝ} {ex : Bool} {n1 n2 : ℕ} {t t' : ℕ → ℕ → Option (Array ℝ)}
    (hdom : p'.dom = p.dom) (hn : p'.n = p.n) (hρ : p'.rho = p.rho) (hdi : p'.diam = p.diam) (htot : p'.total = p.total)
    (hc : canonF p.dom p.directCorr = canonF p.dom p'.directCorr)
    (h : p.chi ex = .ok (q, .table n1 t)) (h' : p'.chi ex = .ok (q', .table n2 t')) :
    n1 = n2 ∧ ∀ i j, i < p.n → j < p.n → i ≠ j → t i j = t' i j := by
  obtain ⟨_, cF, h1, _, a1, a2⟩ := C05.chi_def h
  obtain ⟨_, cF', h1', _, b1, b2⟩ := C05.chi_def h'
  rw [hdom] at h1'
  have e : cF = cF' := by rw [ensureFourier_eq_canon h1, ensureFourier_eq_canon h1', hc]
  refine ⟨by rw [a1, b1, hn], ?_⟩
  intro i j hi hj hij
  rw [(a2 i j hi hj hij).1, (b2 i j (hn ▸ hi) (hn ▸ hj) hij).1, e, hdom]
  have hchi : ∀ a b l, p'.chiAt cF' a b l = p.chiAt cF' a b l := by
    intro a b l; unfold Prism.chiAt; rw [hρ, hdi, htot]
  simp only [hchi]

theorem spinodal_history_free {p p' q q' : Prism ℝ} {n1 n2 : ℕ} {t t' : ℕ → ℕ → Option (Array ℝ)}
    (hdom : p'.dom = p.dom) (hn : p'.n = p.n) (hsite : p'.siteD = p.siteD)
    (hc : canonF p.dom p.directCorr = canonF p.dom p'.directCorr) (ho : canonF p.dom p.omega = canonF p.dom p'.omega)
    (h : p.spinodal = .ok (q, .table n1 t)) (h' : p'.spinodal = .ok (q', .table n2 t')) :
    n1 = n2 ∧ ∀ i j, i < p.n → j < p.n → i ≠ j → t i j = t' i j := by
  obtain ⟨_, cF, omF, h1, h2, _, a1, a2⟩ := C05.spinodal_def h
  obtain ⟨_, cF', omF', h1', h2', _, b1, b2⟩ := C05.spinodal_def h'
  rw [hdom] at h1' h2'
  have e : cF = cF' := by rw [ensureFourier_eq_canon h1, ensureFourier_eq_canon h1', hc]
  have e2 : omF = omF' := by rw [ensureFourier_eq_canon h2, ensureFourier_eq_canon h2', ho]
  refine ⟨by rw [a1, b1, hn], ?_⟩
  intro i j hi hj hij
  rw [(a2 i j hi hj hij).1, (b2 i j (hn ▸ hi) (hn ▸ hj) hij).1, e, e2, hdom]
  have hs : ∀ a b l, p'.spinodalAt cF' omF' a b l = p.spinodalAt cF' omF' a b l := by
    intro a b l; unfold Prism.spinodalAt; rw [hsite]
  simp only [hs]

theorem structure_factor_history_free {p p' q q' : Prism ℝ} {nz : Bool} {s s' : MA ℝ}
    (w : PWf p) (w' : PWf p') (hs1 : p.siteD.length = 1) (hdom : p'.dom = p.dom) (hpair : p'.pairD = p.pairD) (hsite : p'.siteD = p.siteD)
    (hc : canonF p.dom p.totalCorr = canonF p.dom p'.totalCorr) (ho : canonF p.dom p.omega = canonF p.dom p'.omega)
    (hlen : ∀ B, ensureFourier p.dom p.omega = .ok B → ∀ H, ensureFourier p.dom p.totalCorr = .ok H → H.length ≤ B.length)
    (h : p.structureFactor nz = .ok (q, s)) (h' : p'.structureFactor nz = .ok (q', s')) : Eqv s s' := by
  obtain ⟨hF, omF, h1, h2, _, a1, a2, a3, a4⟩ := C05.structure_factor_def w hs1 h
  obtain ⟨hF', omF', h1', h2', _, b1, b2, b3, b4⟩ := C05.structure_factor_def w' (by rw [hsite]; exact hs1) h'
  rw [hdom] at h1' h2'
  have e : hF = hF' := by rw [ensureFourier_eq_canon h1, ensureFourier_eq_canon h1', hc]
  have e2 : omF = omF' := by rw [ensureFourier_eq_canon h2, ensureFourier_eq_canon h2', ho]
  subst e; subst e2
  refine ⟨by rw [a1, b1], by rw [a2, b2], by rw [a3, b3], ?_⟩
  intro l i j hl hi hj
  rw [a1] at hl; rw [a2] at hi hj
  have hlo : l < omF.length := lt_of_lt_of_le hl (hlen omF h2 hF h1)
  rw [a4 l i j hl hi hj hlo, b4 l i j hl hi hj hlo, hpair, hsite]

/-! ## re-solving from the own solution -/

/-- `cost` reads only the static part of the object: two objects that agree on it give the same evaluation -/
theorem cost_eq_of_static {inv : ℕ → Array ℝ → Array ℝ} {p p' : Prism ℝ} (h : C01.SameStatic p p') (x : Array ℝ) :
    p'.cost inv x = p.cost inv x := by
  obtain ⟨h1, h2, h3, h4, h5, h6, h7, h8, h9, h10, h11, h12, h13⟩ := h
  cases p; cases p'
  simp only at h1 h2 h3 h4 h5 h6 h7 h8 h9 h10 h11 h12 h13
  subst h1 h2 h3 h4 h5 h6 h7 h8 h9 h10 h11 h12 h13
  rfl

theorem totalToReal_static {q q' : Prism ℝ} (h : q.totalToReal = .ok q') : C01.SameStatic q q' := by
  unfold Prism.totalToReal at h
  split at h
  · simp only [bind, Except.bind, pure, Except.pure] at h
    split at h
    · cases h
    · cases h; exact ⟨rfl, rfl, rfl, rfl, rfl, rfl, rfl, rfl, rfl, rfl, rfl, rfl, rfl⟩
  · simp only [pure, Except.pure] at h; cases h; exact ⟨rfl, rfl, rfl, rfl, rfl, rfl, rfl, rfl, rfl, rfl, rfl, rfl, rfl⟩

/-- **re-solving from the own solution**: if the object was solved with returned point `x*`, then any later `solve`
whose last evaluation is again at `x*` (a root finder started on its own root) leaves **exactly** the same object — whatever
calculate calls and transforms happened in between is irrelevant, because `cost` overwrites every dynamic array -/
theorem resolve_returns_same_state {inv : ℕ → Array ℝ → Array ℝ} {p q : Prism ℝ} {xstar : Array ℝ}
    (h : p.afterSolve inv xstar = .ok q) : q.afterSolve inv xstar = .ok q := by
  unfold Prism.afterSolve at h ⊢
  simp only [bind, Except.bind] at h ⊢
  split at h
  · cases h
  · rename_i c hc
    have hs : C01.SameStatic p q := by
      have a := C01.cost_static hc
      have b := totalToReal_static h
      obtain ⟨a1, a2, a3, a4, a5, a6, a7, a8, a9, a10, a11, a12, a13⟩ := a
      obtain ⟨b1, b2, b3, b4, b5, b6, b7, b8, b9, b10, b11, b12, b13⟩ := b
      exact ⟨b1.trans a1, b2.trans a2, b3.trans a3, b4.trans a4, b5.trans a5, b6.trans a6, b7.trans a7, b8.trans a8,
        b9.trans a9, b10.trans a10, b11.trans a11, b12.trans a12, b13.trans a13⟩
    rw [cost_eq_of_static hs, hc]
    exact h

end C06
