import Proofs.Lemmas.CostSpec
import Proofs.Props.C01
import Mathlib.LinearAlgebra.Matrix.Determinant.Basic
import Mathlib.LinearAlgebra.Matrix.Notation
/-!
# C05 — Every calculate.* quantity equals its definition and the cross-identities hold

Model: `Model/Calculate.lean`.  Each function is unfolded into (i) the stored arrays moved to the
space it works in (`ensureFourier` / `ensureReal`) and (ii) an entry-wise formula of those arrays.
-/
open Finset Real Matrix

namespace C05

/-! ## the space-moving step -/

theorem ensureFourier_cases {d : Dom ℝ} {A B : MA ℝ} (h : ensureFourier d A = .ok B) :
    (A.space = .real ∧ B = A.mapPairs .fourier d.toFourier) ∨ (A.space ≠ .real ∧ B = A) := by
  unfold ensureFourier at h
  split at h
  · left; exact ⟨‹_›, maToFourier_eq h⟩
  · right; cases h; exact ⟨‹_›, rfl⟩

theorem ensureReal_cases {d : Dom ℝ} {A B : MA ℝ} (h : ensureReal d A = .ok B) :
    (A.space = .fourier ∧ B = A.mapPairs .real d.toReal) ∨ (A.space ≠ .fourier ∧ B = A) := by
  unfold ensureReal at h
  split at h
  · left; exact ⟨‹_›, maToReal_eq h⟩
  · right; cases h; exact ⟨‹_›, rfl⟩

/-- no call is refused merely because an array is in the other space -/
theorem ensureFourier_total (d : Dom ℝ) (A : MA ℝ) : ∃ B, ensureFourier d A = .ok B := by
  unfold ensureFourier Dom.maToFourier
  by_cases h : A.space = .real <;> simp [h]

theorem ensureReal_total (d : Dom ℝ) (A : MA ℝ) : ∃ B, ensureReal d A = .ok B := by
  unfold ensureReal Dom.maToReal
  by_cases h : A.space = .fourier <;> simp [h]

theorem ensureFourier_meta {d : Dom ℝ} {A B : MA ℝ} (h : ensureFourier d A = .ok B) :
    B.length = A.length ∧ B.rank = A.rank ∧ (A.space = .real → B.space = .fourier) ∧ (A.space ≠ .real → B.space = A.space) := by
  rcases ensureFourier_cases h with ⟨hs, rfl⟩ | ⟨hs, rfl⟩
  · obtain ⟨a, b, c⟩ := C07.mapPairs_meta A .fourier d.toFourier
    exact ⟨a, b, fun _ => c, fun h' => absurd hs h'⟩
  · exact ⟨rfl, rfl, fun h' => absurd h' hs, fun _ => rfl⟩

theorem ensureReal_meta {d : Dom ℝ} {A B : MA ℝ} (h : ensureReal d A = .ok B) :
    B.length = A.length ∧ B.rank = A.rank ∧ (A.space = .fourier → B.space = .real) ∧ (A.space ≠ .fourier → B.space = A.space) := by
  rcases ensureReal_cases h with ⟨hs, rfl⟩ | ⟨hs, rfl⟩
  · obtain ⟨a, b, c⟩ := C07.mapPairs_meta A .real d.toReal
    exact ⟨a, b, fun _ => c, fun h' => absurd hs h'⟩
  · exact ⟨rfl, rfl, fun h' => absurd h' hs, fun _ => rfl⟩

/-! ## definitions, function by function -/

variable {p q : Prism ℝ}

/-- `pair_correlation = h + 1` on the real-space total correlation -/
theorem pair_correlation_def {g : MA ℝ} (h : p.pairCorrelation = .ok (q, g)) :
    ∃ hR, ensureReal p.dom p.totalCorr = .ok hR ∧ q = { p with totalCorr := hR } ∧
      g.length = hR.length ∧ g.rank = hR.rank ∧ g.space = hR.space ∧
      ∀ l i j, l < hR.length → i < hR.rank → j < hR.rank → g.at l i j = hR.at l i j + 1 := by
  unfold Prism.pairCorrelation at h
  simp only [bind, Except.bind, pure, Except.pure] at h
  split at h; · cases h
  rename_i hR hhR
  split at h; · cases h
  rename_i g' hg
  cases h
  refine ⟨hR, hhR, rfl, ?_⟩
  rw [binop_eq hg]
  refine ⟨rfl, rfl, rfl, ?_⟩
  intro l i j hl hi hj
  rw [build_at _ _ _ _ hl hi hj]; simp [Operand.at]

/-- structural lemma about the MODEL (not a claim about the code for `g ≤ 0`): the model applies its scalar `log` to every entry of `g` -/
theorem pmf_entry_model {w : MA ℝ} (h : p.pmf = .ok (q, w)) :
    ∃ g, p.pairCorrelation = .ok (q, g) ∧ w.space = .real ∧ w.length = g.length ∧ w.rank = g.rank ∧
      ∀ l i j, l < g.length → i < g.rank → j < g.rank → w.at l i j = -p.kT * Real.log (g.at l i j) := by
  unfold Prism.pmf at h
  simp only [bind, Except.bind, pure, Except.pure] at h
  split at h; · cases h
  rename_i v hv
  obtain ⟨q', g⟩ := v
  cases h
  refine ⟨g, hv, rfl, rfl, rfl, ?_⟩
  intro l i j hl hi hj
  rw [build_at _ _ _ _ hl hi hj]; simp

/-- `pmf = -kT ln g` entry by entry, **wherever `g > 0`**.  (Mathlib's `Real.log` is totalised — `log 0 = 0`, `log x = log |x|` for
`x < 0` — while the code returns `+inf` at `g = 0` and `nan` for `g < 0`; those two branches are not claimed here: they are
compared on the implementation, `+inf` exactly where `g` is exactly zero.) -/
theorem pmf_def {w : MA ℝ} (h : p.pmf = .ok (q, w)) :
    ∃ g, p.pairCorrelation = .ok (q, g) ∧ w.space = .real ∧ w.length = g.length ∧ w.rank = g.rank ∧
      ∀ l i j, l < g.length → i < g.rank → j < g.rank → 0 < g.at l i j → w.at l i j = -p.kT * Real.log (g.at l i j) := by
  obtain ⟨g, a, b, c, d, e⟩ := pmf_entry_model h
  exact ⟨g, a, b, c, d, fun l i j hl hi hj _ => e l i j hl hi hj⟩

/-- `structure_factor = ρ_pair·ĥ + Ω` (with `Ω = ρ_site·ω` the stored array), divided by `ρ_site` when normalised -/
theorem structure_factor_def {nz : Bool} {s : MA ℝ} (w : PWf p) (hsite : p.siteD.length = 1)
    (h : p.structureFactor nz = .ok (q, s)) :
    ∃ hF omF, ensureFourier p.dom p.totalCorr = .ok hF ∧ ensureFourier p.dom p.omega = .ok omF ∧
      q = { p with totalCorr := hF, omega := omF } ∧ s.length = hF.length ∧ s.rank = hF.rank ∧ s.space = hF.space ∧
      ∀ l i j, l < hF.length → i < hF.rank → j < hF.rank → l < omF.length →
        s.at l i j = (if nz then (hF.at l i j * p.pairD.at 0 i j + omF.at l i j) / p.siteD.at 0 i j
                      else hF.at l i j * p.pairD.at 0 i j + omF.at l i j) := by
  unfold Prism.structureFactor at h
  simp only [bind, Except.bind, pure, Except.pure] at h
  split at h; · cases h
  rename_i hF hhF
  split at h; · cases h
  rename_i omF homF
  split at h; · cases h
  rename_i a ha
  split at h; · cases h
  rename_i b hb
  have ha' := binop_eq ha
  have hb' := binop_eq hb
  have hbat : ∀ l i j, l < hF.length → i < hF.rank → j < hF.rank → l < omF.length →
      b.at l i j = hF.at l i j * p.pairD.at 0 i j + omF.at l i j := by
    intro l i j hl hi hj hlo
    rw [hb', ha']
    simp only [build_length, build_rank]
    rw [build_at _ _ _ _ hl hi hj, build_at _ _ _ _ hl hi hj]
    simp only [Operand.at, w.pair_len, if_true]
    rw [bcast_idx hlo]
  cases nz
  · simp only [Bool.false_eq_true, if_false] at h ⊢
    cases h
    refine ⟨hF, omF, hhF, homF, rfl, ?_, ?_, ?_, hbat⟩ <;> rw [hb', ha'] <;> rfl
  · simp only [if_true] at h ⊢
    split at h; · cases h
    rename_i c hc
    cases h
    have hc' := binop_eq hc
    refine ⟨hF, omF, hhF, homF, rfl, ?_, ?_, ?_, ?_⟩
    · rw [hc', hb', ha']; rfl
    · rw [hc', hb', ha']; rfl
    · rw [hc', hb', ha']; rfl
    · intro l i j hl hi hj hlo
      have hbl : b.length = hF.length := by rw [hb', ha']; rfl
      have hbr : b.rank = hF.rank := by rw [hb', ha']; rfl
      rw [hc', build_at _ _ _ _ (by rw [hbl]; exact hl) (by rw [hbr]; exact hi) (by rw [hbr]; exact hj)]
      simp only [Operand.at, hsite, if_true]
      rw [hbat l i j hl hi hj hlo]

/-- `second_virial = -ĥ(k→0)/2`: lowest wavenumber, or the three-point extrapolation -/
theorem second_virial_def {ex : Bool} {t : ℕ → ℕ → Option (Array ℝ)} {n' : ℕ} (h : p.secondVirial ex = .ok (q, .table n' t)) :
    ∃ hF, ensureFourier p.dom p.totalCorr = .ok hF ∧ q = { p with totalCorr := hF } ∧ n' = p.n ∧
      ∀ i j, i < p.n → j < p.n →
        t i j = some #[if ex then extrap0 p.dom (tab 3 fun l => -(1/2 : ℝ) * hF.at l i j) else -(1/2 : ℝ) * hF.at 0 i j] := by
  unfold Prism.secondVirial at h
  simp only [bind, Except.bind, pure, Except.pure] at h
  split at h; · cases h
  rename_i hF hhF
  cases h
  refine ⟨hF, hhF, rfl, rfl, ?_⟩
  intro i j hi hj
  simp only [hi, hj, and_self, if_true]
  have hd : (dec 5 1 : ℝ) = 1 / 2 := by simp; norm_num
  rw [hd]
  cases ex
  · simp only [Bool.false_eq_true, if_false]; rw [tab_get _ _ 0 (by norm_num)]
  · simp only [if_true]

/-! ## χ -/

/-- `χ_ab(k)` is linear in the direct correlations with weights in the ratio `1/R : R : −2`,
`R = v_a / v_b` the site-volume ratio; the prefactor does not depend on `C` -/
theorem chi_weights (c : MA ℝ) (a b l : ℕ) :
    p.chiAt c a b l =
      (1 / (p.rho a / (p.rho a + p.rho b) / Real.sqrt (sphereVol (p.diam a) / sphereVol (p.diam b))
            + Real.sqrt (sphereVol (p.diam a) / sphereVol (p.diam b)) * (p.rho b / (p.rho a + p.rho b))) * (1/2) * p.total)
      * (c.at l a a / (sphereVol (p.diam a) / sphereVol (p.diam b)) + (sphereVol (p.diam a) / sphereVol (p.diam b)) * c.at l b b - 2 * c.at l a b) := by
  unfold Prism.chiAt
  simp only [Transc_sqrt, Lit_ofNat, dec_eq]
  norm_num

/-- equal site volumes: `χ_ab = (ρ/2)(C_aa + C_bb − 2 C_ab)` -/
theorem chi_equal_volumes (c : MA ℝ) (a b l : ℕ) (hd : p.diam a = p.diam b) (hv : sphereVol (p.diam b) ≠ (0 : ℝ))
    (hρ : p.rho a + p.rho b ≠ 0) :
    p.chiAt c a b l = p.total / 2 * (c.at l a a + c.at l b b - 2 * c.at l a b) := by
  rw [chi_weights, hd, div_self hv, Real.sqrt_one]
  have : p.rho a / (p.rho a + p.rho b) / 1 + 1 * (p.rho b / (p.rho a + p.rho b)) = 1 := by field_simp
  rw [this]; ring

/-- `chi(extrapolate)`: refused for one component; pairs `i ≠ j`, the same value for `(a,b)` and `(b,a)` -/
theorem chi_def {ex : Bool} {t : ℕ → ℕ → Option (Array ℝ)} {n' : ℕ} (h : p.chi ex = .ok (q, .table n' t)) :
    1 < p.n ∧ ∃ cF, ensureFourier p.dom p.directCorr = .ok cF ∧ q = { p with directCorr := cF } ∧ n' = p.n ∧
      ∀ i j, i < p.n → j < p.n → i ≠ j →
        t i j = (if ex then some #[extrap0 p.dom (tab 3 fun l => p.chiAt cF (loI i j) (hiI i j) l)]
                 else some (tab cF.length fun l => p.chiAt cF (loI i j) (hiI i j) l)) ∧ t i j = t j i := by
  unfold Prism.chi at h
  simp only [bind, Except.bind, pure, Except.pure] at h
  split at h
  · cases h
  · rename_i hn
    split at h; · cases h
    rename_i cF hcF
    cases h
    refine ⟨by omega, cF, hcF, rfl, rfl, ?_⟩
    intro i j hi hj hij
    have hji : j ≠ i := fun e => hij e.symm
    simp only [hi, hj, hij, hji, ne_eq, not_false_eq_true, and_self, if_true]
    rw [loI_comm j i, hiI_comm j i]
    refine ⟨?_, ?_⟩ <;> first | trivial | rfl

theorem chi_refused_rank_one {ex : Bool} (h1 : p.n ≤ 1) : p.chi ex = .error .assertion := by
  unfold Prism.chi
  simp [h1, bind, Except.bind, throw, throwThe, MonadExceptOf.throw]

/-! ## spinodal condition -/

/-- **the eight-term expression is `det(1 − Ω C)` of the pair's symmetric 2×2 block**, for every pair
`a < b` of a system of any rank — `Ω` the stored (site-density scaled) ω block -/
theorem spinodal_is_det (c om : MA ℝ) (a b l : ℕ)
    (hAA : p.siteD.at 0 a a ≠ 0) (hAB : p.siteD.at 0 a b ≠ 0) (hBB : p.siteD.at 0 b b ≠ 0) :
    p.spinodalAt c om a b l =
      (1 - !![om.at l a a, om.at l a b; om.at l a b, om.at l b b] * !![c.at l a a, c.at l a b; c.at l a b, c.at l b b]).det := by
  unfold Prism.spinodalAt
  simp only [Lit_ofNat, Matrix.det_fin_two, Matrix.sub_apply, Matrix.one_apply_eq, Matrix.mul_apply, Fin.sum_univ_two,
    Matrix.of_apply, Matrix.cons_val', Matrix.cons_val_zero, Matrix.cons_val_one, Matrix.one_apply_ne, ne_eq]
  simp
  field_simp
  ring

/-- `spinodal_condition`: every pair `i ≠ j` of a system of any rank gets the `k → 0` extrapolation of its own
block determinant; the stored ω is only read -/
theorem spinodal_def {t : ℕ → ℕ → Option (Array ℝ)} {n' : ℕ} (h : p.spinodal = .ok (q, .table n' t)) :
    1 < p.n ∧ ∃ cF omF, ensureFourier p.dom p.directCorr = .ok cF ∧ ensureFourier p.dom p.omega = .ok omF ∧
      q = { p with directCorr := cF, omega := omF } ∧ n' = p.n ∧
      ∀ i j, i < p.n → j < p.n → i ≠ j →
        t i j = some #[extrap0 p.dom (tab 3 fun l => p.spinodalAt cF omF (loI i j) (hiI i j) l)] ∧ t i j = t j i := by
  unfold Prism.spinodal at h
  simp only [bind, Except.bind, pure, Except.pure] at h
  split at h
  · cases h
  · rename_i hn
    split at h; · cases h
    rename_i cF hcF
    split at h; · cases h
    rename_i omF homF
    cases h
    refine ⟨by omega, cF, omF, hcF, homF, rfl, rfl, ?_⟩
    intro i j hi hj hij
    have hji : j ≠ i := fun e => hij e.symm
    simp only [hi, hj, hij, hji, ne_eq, not_false_eq_true, and_self, if_true]
    rw [loI_comm j i, hiI_comm j i]
    refine ⟨?_, ?_⟩ <;> first | trivial | rfl

/-! ## solvation potential -/

/-- `solvation_potential`: the back-transform of `−kT·(Ĉ S Ĉ)` (HNC) or `−kT·ln(1 + Ĉ S Ĉ)` (PY), entry by
entry in Fourier space, with `S` exactly what `structure_factor(normalize=True)` returns.  The PY form is claimed only where the argument
of the logarithm is positive (`Real.log` is totalised outside; the code gives `nan` / `-inf` there) -/
theorem solvation_def {hnc : Bool} {out : MA ℝ} (h : p.solvation hnc = .ok (q, out)) :
    1 < p.n ∧ ∃ cF hF omF S cs csc psi,
      ensureFourier p.dom p.directCorr = .ok cF ∧ ensureFourier p.dom p.totalCorr = .ok hF ∧ ensureFourier p.dom p.omega = .ok omF ∧
      ({ p with directCorr := cF, totalCorr := hF, omega := omF } : Prism ℝ).structureFactor true = .ok (q, S) ∧
      cF.dot S = .ok cs ∧ cs.dot cF = .ok csc ∧ p.dom.maToReal psi = .ok out ∧
      psi.length = csc.length ∧ psi.rank = csc.rank ∧
      ∀ l i j, l < csc.length → i < csc.rank → j < csc.rank → (hnc = false → 0 < 1 + csc.at l i j) →
        psi.at l i j = (if hnc then csc.at l i j * -p.kT else Real.log (1 + csc.at l i j) * -p.kT) := by
  unfold Prism.solvation at h
  simp only [bind, Except.bind, pure, Except.pure] at h
  split at h
  · cases h
  · rename_i hn
    split at h; · cases h
    rename_i cF hcF
    split at h; · cases h
    rename_i hF hhF
    split at h; · cases h
    rename_i omF homF
    split at h; · cases h
    rename_i v hv
    obtain ⟨p2, S⟩ := v
    split at h; · cases h
    rename_i cs hcs
    split at h; · cases h
    rename_i csc hcsc
    split at h; · cases h
    rename_i o ho
    cases h
    refine ⟨by omega, cF, hF, omF, S, cs, csc, _, hcF, hhF, homF, hv, hcs, hcsc, ho, ?_, ?_, ?_⟩
    · cases hnc <;> rfl
    · cases hnc <;> rfl
    · intro l i j hl hi hj _
      cases hnc
      · simp only [Bool.false_eq_true, if_false]; rw [build_at _ _ _ _ hl hi hj]; simp
      · simp only [if_true]; rw [build_at _ _ _ _ hl hi hj]

/-! ## extrapolation -/

/-- the value returned for `k → 0` is `p(0)` for **every** quadratic `p` through the three points
(hence for the unique one): with `y_j = α + β k_j + γ k_j²` at three distinct abscissae, `quadAt0 = α` -/
theorem extrapolate_is_quadratic (k0 k1 k2 α β γ : ℝ) (h01 : k0 ≠ k1) (h02 : k0 ≠ k2) (h12 : k1 ≠ k2) :
    quadAt0 k0 k1 k2 (α + β * k0 + γ * k0 ^ 2) (α + β * k1 + γ * k1 ^ 2) (α + β * k2 + γ * k2 ^ 2) = α := by
  unfold quadAt0
  have a1 : k0 - k1 ≠ 0 := sub_ne_zero.mpr h01
  have a2 : k0 - k2 ≠ 0 := sub_ne_zero.mpr h02
  have a3 : k1 - k2 ≠ 0 := sub_ne_zero.mpr h12
  have b1 : k1 - k0 ≠ 0 := sub_ne_zero.mpr h01.symm
  have b2 : k2 - k0 ≠ 0 := sub_ne_zero.mpr h02.symm
  have b3 : k2 - k1 ≠ 0 := sub_ne_zero.mpr h12.symm
  field_simp
  ring

/-- on the Domain's grid `k_j = (j+1) dk` the extrapolated value is `3 y₀ − 3 y₁ + y₂` -/
theorem extrap0_grid (d : Dom ℝ) (hL : 3 ≤ d.length) (hdk : d.dk ≠ 0) (y : Array ℝ) :
    extrap0 d y = 3 * y[0]! - 3 * y[1]! + y[2]! := by
  unfold extrap0 quadAt0
  simp only
  rw [C07.grid_k d 0 (by omega), C07.grid_k d 1 (by omega), C07.grid_k d 2 (by omega)]
  push_cast
  field_simp
  ring

/-! ## cross identities -/

/-- on self-consistent objects (`H = ΩC(Ω+H)` as `cost` leaves them) the unnormalised structure factor
`Ω + H` equals `(1 − ΩC)⁻¹ Ω` -/
theorem sf_of_selfconsistent {n : ℕ} (Ω C M : Matrix (Fin n) (Fin n) ℝ) (hM : M * (1 - Ω * C) = 1) :
    Ω + M * (Ω * C) * Ω = M * Ω := sf_selfconsistent Ω C M hM

/-- symmetric stored arrays give a symmetric structure factor -/
theorem structure_factor_symmetric {nz : Bool} {s : MA ℝ} (w : PWf p) (hsite : p.siteD.length = 1)
    (h : p.structureFactor nz = .ok (q, s))
    (hh : ∀ B, ensureFourier p.dom p.totalCorr = .ok B → C07.MA.Symm B)
    (ho : ∀ B, ensureFourier p.dom p.omega = .ok B → C07.MA.Symm B ∧ B.length = s.length ∧ B.rank = s.rank)
    (hp : ∀ i j, p.pairD.at 0 i j = p.pairD.at 0 j i) (hs : ∀ i j, p.siteD.at 0 i j = p.siteD.at 0 j i) :
    C07.MA.Symm s := by
  obtain ⟨hF, omF, h1, h2, _, hl, hr, _, hat⟩ := structure_factor_def w hsite h
  obtain ⟨ho1, ho2, ho3⟩ := ho omF h2
  intro l i j hl' hi hj
  rw [hl] at hl'; rw [hr] at hi hj
  have hlo : l < omF.length := by rw [ho2, hl]; exact hl'
  rw [hat l i j hl' hi hj hlo, hat l j i hl' hj hi hlo, hh hF h1 l i j hl' hi hj, hp i j, hs i j,
    ho1 l i j hlo (by rw [ho3, hr]; exact hi) (by rw [ho3, hr]; exact hj)]

/-- **the identity linking S(k) to C(k), on the object itself**: after any successful `cost` evaluation (in particular at a
root) the unnormalised structure factor that `structure_factor(normalize=False)` returns satisfies `(1 − Ω Ĉ) S = Ω` at every
wavenumber, i.e. `S = (1 − Ω Ĉ)⁻¹ Ω` -/
theorem sf_after_cost {inv : ℕ → Array ℝ → Array ℝ} {p q q2 : Prism ℝ} {x : Array ℝ} {s : MA ℝ} (w : PWf p) (hsite : p.siteD.length = 1)
    (hom : p.omega.space = .fourier) (hc : p.cost inv x = .ok q) (hs : q.structureFactor false = .ok (q2, s))
    {l : ℕ} (hl : l < p.dom.length)
    (hinv : InvOn inv p.n fun i j => (if i = j then 1 else 0) - ∑ k ∈ range p.n, p.omega.at l i k * q.directCorr.at l k j)
    (hρ : ∀ i j, i < p.n → j < p.n → p.pairD.at 0 i j ≠ 0) :
    (1 - C01.mat p.n p.omega l * C01.mat p.n q.directCorr l) * C01.mat p.n s l = C01.mat p.n p.omega l := by
  obtain ⟨T⟩ := cost_trace inv p q x hc
  have hst := C01.cost_static hc
  have wq : PWf q := by
    obtain ⟨a1, a2, a3, a4, _⟩ := hst
    exact ⟨by rw [a4, a2]; exact w.om_len, by rw [a4, a1]; exact w.om_rank, by rw [a3]; exact w.pair_len, by rw [a3, a1]; exact w.pair_rank⟩
  have hsq : q.siteD.length = 1 := by rw [hst.2.2.2.2.2.2.2.2.1]; exact hsite
  obtain ⟨hF, omF, h1, h2, _, b1, b2, _, b4⟩ := structure_factor_def wq hsq hs
  -- both stored arrays are already in Fourier space: nothing is moved
  have hhF : hF = q.totalCorr := by
    rcases ensureFourier_cases h1 with ⟨hsR, _⟩ | ⟨_, e⟩
    · exfalso
      have : q.totalCorr.space = .fourier := by
        rw [T.hq_h, binop_eq T.hh, build_space, dot_eq T.ht2, build_space, dot_eq T.ht1, build_space]
        show T.ioc.space = .fourier
        rw [binop_eq T.hioc]; rfl
      rw [this] at hsR; cases hsR
    · exact e
  have homF : omF = p.omega := by
    rcases ensureFourier_cases h2 with ⟨hsR, _⟩ | ⟨_, e⟩
    · exfalso; rw [T.hq_om, hom] at hsR; cases hsR
    · rw [e, T.hq_om]
  have hS : C01.mat p.n s l = C01.mat p.n p.omega l + C01.matH p.n p.pairD q.totalCorr l := by
    ext i j
    simp only [C01.mat, C01.matH, Matrix.of_apply, Matrix.add_apply]
    have hl1 : l < hF.length := by rw [hhF, T.hq_h, T.h_meta.1]; exact hl
    have hi1 : i.1 < hF.rank := by rw [hhF, T.hq_h, T.h_meta.2]; exact i.2
    have hj1 : j.1 < hF.rank := by rw [hhF, T.hq_h, T.h_meta.2]; exact j.2
    have hlo : l < omF.length := by rw [homF, w.om_len]; exact hl
    have := b4 l i.1 j.1 hl1 hi1 hj1 hlo
    simp only [Bool.false_eq_true, if_false] at this
    rw [this, hhF, homF, hst.2.2.1]; ring
  have hP := C01.prism_equation_of_cost w hc hl hinv hρ
  rw [hS]
  set Ω := C01.mat p.n p.omega l
  set C := C01.mat p.n q.directCorr l
  set H := C01.matH p.n p.pairD q.totalCorr l
  calc (1 - Ω * C) * (Ω + H) = Ω + H - Ω * C * (Ω + H) := by noncomm_ring
    _ = Ω + H - H := by rw [← hP]
    _ = Ω := by abel

/-- symmetric stored arrays give a symmetric `g(r)` (and hence pmf): both orders of the type labels agree -/
theorem pair_correlation_symmetric {g : MA ℝ} (h : p.pairCorrelation = .ok (q, g))
    (hsym : ∀ B, ensureReal p.dom p.totalCorr = .ok B → C07.MA.Symm B) : C07.MA.Symm g := by
  obtain ⟨hR, h1, _, a1, a2, _, a4⟩ := pair_correlation_def h
  intro l i j hl hi hj
  rw [a1] at hl; rw [a2] at hi hj
  rw [a4 l i j hl hi hj, a4 l j i hl hj hi, hsym hR h1 l i j hl hi hj]

end C05
