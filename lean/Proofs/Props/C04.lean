import Proofs.Props.C01
import Mathlib.LinearAlgebra.Matrix.NonsingularInverse
import Mathlib.LinearAlgebra.Matrix.Permutation
/-!
# C04 — Results are invariant under physically meaningless reformulations of the input

`cost` is composed of three stages (C01 `CostTrace`): a per-pair real-space closure step, a
per-pair transform, and a per-wavenumber matrix map `(Ω, Ĉ) ↦ (1 − ΩĈ)⁻¹ ΩĈ Ω`.  The first two
act on each (unordered) pair separately (`C01.closure_relation_of_cost` reads only the pair's own
data), so relabelling can only matter in the matrix map — which is conjugation-equivariant
(`matrix_map_perm`).  Species splitting is the statement `split_lifts`; energy scaling is
homogeneity of every shipped potential.
-/
open Finset Real Matrix

namespace C04

variable {n : Type} [Fintype n] [DecidableEq n]

/-- the per-wavenumber matrix map of `cost`: `H = (1 − ΩC)⁻¹ ΩC Ω` (pair-density scaled total correlation) -/
noncomputable def Hmap (Ω C : Matrix n n ℝ) : Matrix n n ℝ := (1 - Ω * C)⁻¹ * (Ω * C) * Ω

/-- **permutation equivariance**: relabelling the site types by any permutation `σ` permutes the result accordingly -/
theorem matrix_map_perm (σ : n ≃ n) (Ω C : Matrix n n ℝ) :
    Hmap (Ω.submatrix σ σ) (C.submatrix σ σ) = (Hmap Ω C).submatrix σ σ := by
  unfold Hmap
  have h1 : (Ω.submatrix σ σ) * (C.submatrix σ σ) = (Ω * C).submatrix σ σ := (Matrix.submatrix_mul_equiv Ω C σ σ σ)
  have h2 : (1 : Matrix n n ℝ) - (Ω * C).submatrix σ σ = (1 - Ω * C).submatrix σ σ := by
    ext i j; simp [Matrix.sub_apply, Matrix.one_apply]
  rw [h1, h2, Matrix.inv_submatrix_equiv, Matrix.submatrix_mul_equiv, Matrix.submatrix_mul_equiv]

/-- element-wise operations with a permuted partner commute with the permutation (`/ρ_pair`, `− Ĉ`) -/
theorem elementwise_perm (σ : n ≃ n) (f : ℝ → ℝ → ℝ) (A B : Matrix n n ℝ) :
    (Matrix.of fun i j => f (A.submatrix σ σ i j) (B.submatrix σ σ i j)) = (Matrix.of fun i j => f (A i j) (B i j)).submatrix σ σ := by
  ext i j; simp

/-- uniqueness: when `1 − ΩC` is invertible the PRISM equation has exactly one solution, the one `cost` computes -/
theorem prism_solution_unique (Ω C H : Matrix n n ℝ) (hdet : IsUnit (1 - Ω * C).det) (hH : H = Ω * C * (Ω + H)) :
    H = Hmap Ω C := by
  unfold Hmap
  have h1 : (1 - Ω * C) * H = Ω * C * Ω := by
    have : (1 - Ω * C) * H = H - Ω * C * H := by noncomm_ring
    rw [this]; nth_rewrite 1 [hH]; noncomm_ring
  calc H = (1 - Ω * C)⁻¹ * ((1 - Ω * C) * H) := by rw [← Matrix.mul_assoc, Matrix.nonsing_inv_mul _ hdet, Matrix.one_mul]
    _ = (1 - Ω * C)⁻¹ * (Ω * C) * Ω := by rw [h1]; noncomm_ring

/-- the tie to the code model: what a successful `cost` evaluation stores as `totalCorr` **is** `Hmap` of the stored ω and
the stored Fourier-space `directCorr` (at every wavenumber where `1 − ΩĈ` is invertible and the external inverse inverted
it) — so `matrix_map_perm` and `split_lifts` are statements about the arrays on the object -/
theorem cost_totalCorr_is_Hmap {inv : ℕ → Array ℝ → Array ℝ} {p q : Prism ℝ} {x : Array ℝ} (w : PWf p) (hc : p.cost inv x = .ok q)
    {l : ℕ} (hl : l < p.dom.length)
    (hinv : InvOn inv p.n fun i j => (if i = j then 1 else 0) - ∑ k ∈ range p.n, p.omega.at l i k * q.directCorr.at l k j)
    (hρ : ∀ i j, i < p.n → j < p.n → p.pairD.at 0 i j ≠ 0)
    (hdet : IsUnit (1 - C01.mat p.n p.omega l * C01.mat p.n q.directCorr l).det) :
    C01.matH p.n p.pairD q.totalCorr l = Hmap (C01.mat p.n p.omega l) (C01.mat p.n q.directCorr l) :=
  prism_solution_unique _ _ _ hdet (C01.prism_equation_of_cost w hc hl hinv hρ)

/-- **species splitting.**  Let the one-component functions satisfy `h = ω c (ω + ρ h)` (the rank-1 PRISM
equation with `Ω₁ = ρ ω`, `H₁ = ρ² h`).  Label the sites by `n` species with densities `ρ_a`, `Σ ρ_a = ρ`, and let
`Ω` be any symmetric matrix whose rows sum to `ρ_a ω` (monatomic `A/A'`: `diag ρ_a`; the two halves of a
symmetric diblock with the exact block ω's and the cross convention `1/(N_A+N_B)`).  Then `C_ab = c`,
`H_ab = ρ_a ρ_b h` satisfy the `n`-component PRISM equation: every labelled pair sees the unsplit `h` and `c`. -/
theorem split_lifts (ρa : n → ℝ) (ρ ω c h : ℝ) (Ω : Matrix n n ℝ)
    (hsum : ∑ a, ρa a = ρ) (hsymm : Ω.IsSymm) (hrow : ∀ a, ∑ b, Ω a b = ρa a * ω)
    (h1 : h = ω * c * (ω + ρ * h)) :
    (Matrix.of fun a b => ρa a * ρa b * h) =
      Ω * (Matrix.of fun _ _ => c) * (Ω + Matrix.of fun a b => ρa a * ρa b * h) := by
  ext a d
  simp only [Matrix.mul_apply, Matrix.of_apply, Matrix.add_apply]
  have hΩC : ∑ e, Ω a e * c = ρa a * ω * c := by
    rw [← Finset.sum_mul, hrow a]
  simp_rw [hΩC]
  rw [← Finset.mul_sum, Finset.sum_add_distrib]
  have hcol : ∑ b, Ω b d = ρa d * ω := by
    have : ∀ b, Ω b d = Ω d b := fun b => by rw [← Matrix.transpose_apply Ω, hsymm.eq]
    simp_rw [this]; exact hrow d
  have hH : ∑ b, ρa b * ρa d * h = ρ * ρa d * h := by
    rw [← hsum, Finset.sum_mul, Finset.sum_mul]
  rw [hcol, hH]
  have : ρa a * ρa d * h = ρa a * ρa d * (ω * c * (ω + ρ * h)) := by rw [← h1]
  rw [this]; ring

/-- the code's site-density convention gives the required row sums for a monatomic split:
`Ω_ab = ρ^site_ab ω_ab` with `ω_aa = 1`, `ω_ab = 0` is `diag ρ_a` -/
theorem monatomic_rows (ρa : n → ℝ) :
    let Ω : Matrix n n ℝ := Matrix.of fun a b => (if a = b then ρa a else ρa a + ρa b) * (if a = b then 1 else 0)
    Ω.IsSymm ∧ ∀ a, ∑ b, Ω a b = ρa a * 1 := by
  intro Ω
  constructor
  · ext a b
    simp only [Ω, Matrix.transpose_apply, Matrix.of_apply]
    by_cases h : a = b
    · subst h; rfl
    · have : ¬ b = a := fun e => h e.symm
      simp [h, this]
  · intro a
    simp only [Ω, Matrix.of_apply]
    rw [Finset.sum_eq_single a]
    · simp
    · intro b _ hb; have : ¬ a = b := fun e => hb e.symm; simp [this]
    · intro ha; exact absurd (Finset.mem_univ a) ha

/-! ## the other two stages of `cost` act on each unordered pair separately -/

/-- **closure stage is local to the pair**: the real-space closure output of pair `(i,j)` at grid point `l` is a function of
that pair's own closure class, flag, contact distance, potential value and of `x` at `(l, lo, hi)` only — relabelling the
types moves this data along with the pair and cannot mix pairs -/
theorem closure_stage_local {inv : ℕ → Array ℝ → Array ℝ} {p p' q q' : Prism ℝ} {x x' : Array ℝ}
    (T : CostTrace inv p q x) (T' : CostTrace inv p' q' x')
    {l i j i' j' : ℕ} (hl : l < p.dom.length) (hl' : l < p'.dom.length) (hi : i < p.n) (hj : j < p.n) (hi' : i' < p'.n) (hj' : j' < p'.n)
    (hdr : p'.dom.dr = p.dom.dr)
    (hK : p'.cloK (loI i' j') (hiI i' j') = p.cloK (loI i j) (hiI i j))
    (hσ : p'.cloSigma (loI i' j') (hiI i' j') = p.cloSigma (loI i j) (hiI i j))
    (hu : (p'.u (loI i' j') (hiI i' j'))[l]! = (p.u (loI i j) (hiI i j))[l]!)
    (hx : x'[(l * p'.n + loI i' j') * p'.n + hiI i' j']! = x[(l * p.n + loI i j) * p.n + hiI i j]!) :
    T'.cR.at l i' j' = T.cR.at l i j := by
  rw [T.cR_at hl hi hj, T'.cR_at hl' hi' hj', hK, hσ, hu, hdr,
    T.gin_at hl (loI_lt hi hj) (hiI_lt hi hj), T'.gin_at hl' (loI_lt hi' hj') (hiI_lt hi' hj'), hx, hdr]

/-- **transform stage is local to the pair**: the stored Fourier-space `directCorr` of a pair is the 1-d transform of that
pair's own real-space function -/
theorem transform_stage_local {inv : ℕ → Array ℝ → Array ℝ} {p q : Prism ℝ} {x : Array ℝ} (T : CostTrace inv p q x)
    {l i j : ℕ} (hl : l < p.dom.length) (hi : i < p.n) (hj : j < p.n) :
    q.directCorr.at l i j = (p.dom.toFourier (T.cR.pair i j))[l]! ∧ q.directCorr.at l i j = q.directCorr.at l j i := by
  rw [T.hq_c]; exact ⟨T.cF_at hl hi hj, T.cF_symm hl hi hj⟩

/-! ## energy scaling -/

/-- scale the energy parameters (`ε`, `high_value`) of a potential object; lengths (`σ`, `α`, `r_cut`) stay -/
noncomputable def scaleE (s : ℝ) (P : PotSpec ℝ) : PotSpec ℝ :=
  match P.kind with
  | .hs => { P with p := #[s * P.p[0]!] }
  | .exp => { P with p := #[s * P.p[0]!, P.p[1]!, s * P.p[2]!] }
  | .lj => { P with p := #[s * P.p[0]!] }
  | .ljcut => { P with p := #[s * P.p[0]!, P.p[1]!] }
  | .ljshift => { P with p := #[s * P.p[0]!, P.p[1]!] }
  | .hclj => { P with p := #[s * P.p[0]!, s * P.p[1]!] }
  | .wca => { P with p := #[s * P.p[0]!] }

/-- every shipped potential is homogeneous of degree 1 in its energy parameters -/
theorem potential_homogeneous (s : ℝ) (P : PotSpec ℝ) (σ r : ℝ) : (scaleE s P).eval σ r = s * P.eval σ r := by
  unfold scaleE PotSpec.eval
  cases hk : P.kind <;> simp only [hk] <;>
    simp [hardSphere, exponentialPot, lennardJones, ljCore, hcLennardJones, wca] <;>
    (try ring1) <;> (try (split <;> ring1)) <;> (try (split <;> (try ring1) <;> (split <;> ring1)))

/-- hence multiplying every energy parameter and `kT` by the same factor leaves what the closures see,
`U(r)/kT`, unchanged — and with it `cost`, every root and every structural result -/
theorem closure_input_invariant (s : ℝ) (hs : s ≠ 0) (P : PotSpec ℝ) (σ r kT : ℝ) :
    (scaleE s P).eval σ r / (s * kT) = P.eval σ r / kT := by
  rw [potential_homogeneous]; field_simp

/-- … and multiplies potentials of mean force by that factor: `−(s kT) ln g = s (−kT ln g)` -/
theorem pmf_scales (s kT g : ℝ) : -(s * kT) * Real.log g = s * (-kT * Real.log g) := by ring

end C04
