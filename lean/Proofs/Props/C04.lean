import Proofs.Props.C01
import Proofs.Props.C02
import Mathlib.LinearAlgebra.Matrix.NonsingularInverse
import Mathlib.LinearAlgebra.Matrix.Permutation
/-!
# C04 — Results are invariant under physically meaningless reformulations of the input

`cost` is composed of three stages (C01 `CostTrace`): a per-pair real-space closure step, a
per-pair transform, and a per-wavenumber matrix map `(Ω, Ĉ) ↦ (1 − ΩĈ)⁻¹ ΩĈ Ω`.  The first two
act on each (unordered) pair separately (`C01.closure_relation_of_cost` reads only the pair's own
data), so relabelling can only matter in the matrix map — which is conjugation-equivariant
(`matrix_map_perm`).  Species splitting is the statement `split_lifts`; energy scaling is
homogeneity of every shipped potential.
-/
open Finset Real Matrix

namespace C04

variable {n : Type} [Fintype n] [DecidableEq n]

/-- the per-wavenumber matrix map of `cost`: `H = (1 − ΩC)⁻¹ ΩC Ω` (pair-density scaled total correlation) -/
noncomputable def Hmap (Ω C : Matrix n n ℝ) : Matrix n n ℝ := (1 - Ω * C)⁻¹ * (Ω * C) * Ω

/-- **permutation equivariance**: relabelling the site types by any permutation `σ` permutes the result accordingly -/
theorem matrix_map_perm (σ : n ≃ n) (Ω C : Matrix n n ℝ) :
    Hmap (Ω.submatrix σ σ) (C.submatrix σ σ) = (Hmap Ω C).submatrix σ σ := by
  unfold Hmap
  have h1 : (Ω.submatrix σ σ) * (C.submatrix σ σ) = (Ω * C).submatrix σ σ := (Matrix.submatrix_mul_equiv Ω C σ σ σ)
  have h2 : (1 : Matrix n n ℝ) - (Ω * C).submatrix σ σ = (1 - Ω * C).submatrix σ σ := by
    ext i j; simp [Matrix.sub_apply, Matrix.one_apply]
  rw [h1, h2, Matrix.inv_submatrix_equiv, Matrix.submatrix_mul_equiv, Matrix.submatrix_mul_equiv]

/-- element-wise operations with a permuted partner commute with the permutation (`/ρ_pair`, `− Ĉ`) -/
theorem elementwise_perm (σ : n ≃ n) (f : ℝ → ℝ → ℝ) (A B : Matrix n n ℝ) :
    (Matrix.of fun i j => f (A.submatrix σ σ i j) (B.submatrix σ σ i j)) = (Matrix.of fun i j => f (A i j) (B i j)).submatrix σ σ := by
  ext i j; simp

/-- uniqueness: when `1 − ΩC` is invertible the PRISM equation has exactly one solution, the one `cost` computes -/
theorem prism_solution_unique (Ω C H : Matrix n n ℝ) (hdet : IsUnit (1 - Ω * C).det) (hH : H = Ω * C * (Ω + H)) :
    H = Hmap Ω C := by
  unfold Hmap
  have h1 : (1 - Ω * C) * H = Ω * C * Ω := by
    have : (1 - Ω * C) * H = H - Ω * C * H := by noncomm_ring
    rw [this]; nth_rewrite 1 [hH]; noncomm_ring
  calc H = (1 - Ω * C)⁻¹ * ((1 - Ω * C) * H) := by rw [← Matrix.mul_assoc, Matrix.nonsing_inv_mul _ hdet, Matrix.one_mul]
    _ = (1 - Ω * C)⁻¹ * (Ω * C) * Ω := by rw [h1]; noncomm_ring

/-- the tie to the code model: what a successful `cost` evaluation stores as `totalCorr` **is** `Hmap` of the stored ω and
the stored Fourier-space `directCorr` (at every wavenumber where `1 − ΩĈ` is invertible and the external inverse inverted
it) — so `matrix_map_perm` and `split_lifts` are statements about the arrays on the object -/
theorem cost_totalCorr_is_Hmap {inv : ℕ → Array ℝ → Array ℝ} {p q : Prism ℝ} {x : Array ℝ} (w : PWf p) (hc : p.cost inv x = .ok q)
    {l : ℕ} (hl : l < p.dom.length)
    (hinv : InvOn inv p.n fun i j => (if i = j then 1 else 0) - ∑ k ∈ range p.n, p.omega.at l i k * q.directCorr.at l k j)
    (hρ : ∀ i j, i < p.n → j < p.n → p.pairD.at 0 i j ≠ 0)
    (hdet : IsUnit (1 - C01.mat p.n p.omega l * C01.mat p.n q.directCorr l).det) :
    C01.matH p.n p.pairD q.totalCorr l = Hmap (C01.mat p.n p.omega l) (C01.mat p.n q.directCorr l) :=
  prism_solution_unique _ _ _ hdet (C01.prism_equation_of_cost w hc hl hinv hρ)

/-- **species splitting.**  Let the one-component functions satisfy `h = ω c (ω + ρ h)` (the rank-1 PRISM
equation with `Ω₁ = ρ ω`, `H₁ = ρ² h`).  Label the sites by `n` species with densities `ρ_a`, `Σ ρ_a = ρ`, and let
`Ω` be any symmetric matrix whose rows sum to `ρ_a ω` (monatomic `A/A'`: `diag ρ_a`; the two halves of a
symmetric diblock with the exact block ω's and the cross convention `1/(N_A+N_B)`).  Then `C_ab = c`,
`H_ab = ρ_a ρ_b h` satisfy the `n`-component PRISM equation: every labelled pair sees the unsplit `h` and `c`. -/
theorem split_lifts (ρa : n → ℝ) (ρ ω c h : ℝ) (Ω : Matrix n n ℝ)
    (hsum : ∑ a, ρa a = ρ) (hsymm : Ω.IsSymm) (hrow : ∀ a, ∑ b, Ω a b = ρa a * ω)
    (h1 : h = ω * c * (ω + ρ * h)) :
    (Matrix.of fun a b => ρa a * ρa b * h) =
      Ω * (Matrix.of fun _ _ => c) * (Ω + Matrix.of fun a b => ρa a * ρa b * h) := by
  ext a d
  simp only [Matrix.mul_apply, Matrix.of_apply, Matrix.add_apply]
  have hΩC : ∑ e, Ω a e * c = ρa a * ω * c := by
    rw [← Finset.sum_mul, hrow a]
  simp_rw [hΩC]
  rw [← Finset.mul_sum, Finset.sum_add_distrib]
  have hcol : ∑ b, Ω b d = ρa d * ω := by
    have : ∀ b, Ω b d = Ω d b := fun b => by rw [← Matrix.transpose_apply Ω, hsymm.eq]
    simp_rw [this]; exact hrow d
  have hH : ∑ b, ρa b * ρa d * h = ρ * ρa d * h := by
    rw [← hsum, Finset.sum_mul, Finset.sum_mul]
  rw [hcol, hH]
  have : ρa a * ρa d * h = ρa a * ρa d * (ω * c * (ω + ρ * h)) := by rw [← h1]
  rw [this]; ring

/-- the code's site-density convention gives the required row sums for a monatomic split:
`Ω_ab = ρ^site_ab ω_ab` with `ω_aa = 1`, `ω_ab = 0` is `diag ρ_a` -/
theorem monatomic_rows (ρa : n → ℝ) :
    let Ω : Matrix n n ℝ := Matrix.of fun a b => (if a = b then ρa a else ρa a + ρa b) * (if a = b then 1 else 0)
    Ω.IsSymm ∧ ∀ a, ∑ b, Ω a b = ρa a * 1 := by
  intro Ω
  constructor
  · ext a b
    simp only [Ω, Matrix.transpose_apply, Matrix.of_apply]
    by_cases h : a = b
    · subst h; rfl
    · have : ¬ b = a := fun e => h e.symm
      simp [h, this]
  · intro a
    simp only [Ω, Matrix.of_apply]
    rw [Finset.sum_eq_single a]
    · simp
    · intro b _ hb; have : ¬ a = b := fun e => hb e.symm; simp [this]
    · intro ha; exact absurd (Finset.mem_univ a) ha

/-! ## the other two stages of `cost` act on each unordered pair separately -/

/-- **closure stage is local to the pair**: the real-space closure output of pair `(i,j)` at grid point `l` is a function of
that pair's own closure class, flag, contact distance, potential value and of `x` at `(l, lo, hi)` only — relabelling the
types moves this data along with the pair and cannot mix pairs -/
theorem closure_stage_local {inv : ℕ → Array ℝ → Array ℝ} {p p' q q' : Prism ℝ} {x x' : Array ℝ}
    (T : CostTrace inv p q x) (T' : CostTrace inv p' q' x')
    {l i j i' j' : ℕ} (hl : l < p.dom.length) (hl' : l < p'.dom.length) (hi : i < p.n) (hj : j < p.n) (hi' : i' < p'.n) (hj' : j' < p'.n)
    (hdr : p'.dom.dr = p.dom.dr)
    (hK : p'.cloK (loI i' j') (hiI i' j') = p.cloK (loI i j) (hiI i j))
    (hσ : p'.cloSigma (loI i' j') (hiI i' j') = p.cloSigma (loI i j) (hiI i j))
    (hu : (p'.u (loI i' j') (hiI i' j'))[l]! = (p.u (loI i j) (hiI i j))[l]!)
    (hx : x'[(l * p'.n + loI i' j') * p'.n + hiI i' j']! = x[(l * p.n + loI i j) * p.n + hiI i j]!) :
    T'.cR.at l i' j' = T.cR.at l i j := by
  rw [T.cR_at hl hi hj, T'.cR_at hl' hi' hj', hK, hσ, hu, hdr,
    T.gin_at hl (loI_lt hi hj) (hiI_lt hi hj), T'.gin_at hl' (loI_lt hi' hj') (hiI_lt hi' hj'), hx, hdr]

/-- **transform stage is local to the pair**: the stored Fourier-space `directCorr` of a pair is the 1-d transform of that
pair's own real-space function -/
theorem transform_stage_local {inv : ℕ → Array ℝ → Array ℝ} {p q : Prism ℝ} {x : Array ℝ} (T : CostTrace inv p q x)
    {l i j : ℕ} (hl : l < p.dom.length) (hi : i < p.n) (hj : j < p.n) :
    q.directCorr.at l i j = (p.dom.toFourier (T.cR.pair i j))[l]! ∧ q.directCorr.at l i j = q.directCorr.at l j i := by
  rw [T.hq_c]; exact ⟨T.cF_at hl hi hj, T.cF_symm hl hi hj⟩

/-! ## energy scaling -/

/-- scale the energy parameters (`ε`, `high_value`) of a potential object; lengths (`σ`, `α`, `r_cut`) stay -/
noncomputable def scaleE (s : ℝ) (P : PotSpec ℝ) : PotSpec ℝ :=
  match P.kind with
  | .hs => { P with p := #[s * P.p[0]!] }
  | .exp => { P with p := #[s * P.p[0]!, P.p[1]!, s * P.p[2]!] }
  | .lj => { P with p := #[s * P.p[0]!] }
  | .ljcut => { P with p := #[s * P.p[0]!, P.p[1]!] }
  | .ljshift => { P with p := #[s * P.p[0]!, P.p[1]!] }
  | .hclj => { P with p := #[s * P.p[0]!, s * P.p[1]!] }
  | .wca => { P with p := #[s * P.p[0]!] }

/-- every shipped potential is homogeneous of degree 1 in its energy parameters -/
theorem potential_homogeneous (s : ℝ) (P : PotSpec ℝ) (σ r : ℝ) : (scaleE s P).eval σ r = s * P.eval σ r := by
  unfold scaleE PotSpec.eval
  cases hk : P.kind <;> simp only [hk] <;>
    simp [hardSphere, exponentialPot, lennardJones, ljCore, hcLennardJones, wca] <;>
    (try ring1) <;> (try (split <;> ring1)) <;> (try (split <;> (try ring1) <;> (split <;> ring1)))

/-- hence multiplying every energy parameter and `kT` by the same factor leaves what the closures see,
`U(r)/kT`, unchanged — and with it `cost`, every root and every structural result -/
theorem closure_input_invariant (s : ℝ) (hs : s ≠ 0) (P : PotSpec ℝ) (σ r kT : ℝ) :
    (scaleE s P).eval σ r / (s * kT) = P.eval σ r / kT := by
  rw [potential_homogeneous]; field_simp

/-- `cost` never reads `kT` (it enters only through `closure.potential = U/kT`, fixed at construction): changing the stored
`kT` alone changes nothing but that field -/
theorem cost_ignores_kT {inv : ℕ → Array ℝ → Array ℝ} (p q : Prism ℝ) (k' : ℝ) (x : Array ℝ) (h : p.cost inv x = .ok q) :
    ({ p with kT := k' } : Prism ℝ).cost inv x = .ok { q with kT := k' } := by
  unfold Prism.cost at h ⊢
  simp only [bind, Except.bind, pure, Except.pure, Prism.closureStep] at h ⊢
  split at h; · cases h
  split at h; · cases h
  split at h; · cases h
  split at h; · cases h
  split at h; · cases h
  split at h; · cases h
  split at h; · cases h
  split at h; · cases h
  cases h
  rfl

/-- **energy scaling, whole evaluation**: two objects that differ only by the factor `s` in every energy parameter and in
`kT` hold the same `closure.potential` arrays (`closure_input_invariant`), hence every `cost` evaluation — and so every root
and every structural result — is identical; only the stored `kT` (used by `pmf` and the solvation potential) differs -/
theorem cost_energy_scaling {inv : ℕ → Array ℝ → Array ℝ} (p q : Prism ℝ) (s : ℝ) (x : Array ℝ) (h : p.cost inv x = .ok q) :
    ∃ q', ({ p with kT := s * p.kT } : Prism ℝ).cost inv x = .ok q' ∧ q'.y = q.y ∧ q'.totalCorr = q.totalCorr ∧ q'.directCorr = q.directCorr ∧
      q'.kT = s * q.kT := by
  refine ⟨_, cost_ignores_kT p q (s * p.kT) x h, rfl, rfl, rfl, ?_⟩
  have := (C01.cost_static h).2.2.2.2.2.2.2.1
  simp [this]

/-- … and multiplies potentials of mean force by that factor: `−(s kT) ln g = s (−kT ln g)` -/
theorem pmf_scales (s kT g : ℝ) : -(s * kT) * Real.log g = s * (-kT * Real.log g) := by ring

/-! ## permutation equivariance of the whole `cost` evaluation -/

/-- for symmetric `Ω`, `C` the matrix map of `cost` gives a symmetric `H` -/
theorem Hmap_symm (Ω C : Matrix n n ℝ) (hΩ : Ωᵀ = Ω) (hC : Cᵀ = C) (hdet : IsUnit (1 - Ω * C).det) :
    (Hmap Ω C)ᵀ = Hmap Ω C := by
  unfold Hmap
  set A := 1 - Ω * C with hA
  set B := 1 - C * Ω with hB
  have hAT : Aᵀ = B := by
    rw [hA, hB, Matrix.transpose_sub, Matrix.transpose_one, Matrix.transpose_mul, hΩ, hC]
  have hdetB : IsUnit B.det := by rw [← hAT, Matrix.det_transpose]; exact hdet
  set X := Ω * C * Ω with hX
  have hcomm : A * X = X * B := by rw [hA, hB, hX]; noncomm_ring
  have key : A⁻¹ * X = X * B⁻¹ := by
    calc A⁻¹ * X = A⁻¹ * X * (B * B⁻¹) := by rw [Matrix.mul_nonsing_inv _ hdetB, Matrix.mul_one]
      _ = A⁻¹ * (X * B) * B⁻¹ := by noncomm_ring
      _ = A⁻¹ * (A * X) * B⁻¹ := by rw [hcomm]
      _ = (A⁻¹ * A) * X * B⁻¹ := by noncomm_ring
      _ = X * B⁻¹ := by rw [Matrix.nonsing_inv_mul _ hdet, Matrix.one_mul]
  have hXT : Xᵀ = X := by
    rw [hX, Matrix.transpose_mul, Matrix.transpose_mul, hΩ, hC, Matrix.mul_assoc]
  have e1 : A⁻¹ * (Ω * C) * Ω = A⁻¹ * X := by rw [hX]; noncomm_ring
  rw [e1, Matrix.transpose_mul, hXT, Matrix.transpose_nonsing_inv, hAT, key]

/-- a relabelling of the `m` site types: new type `i` is old type `σ i` -/
structure Relabel (m : ℕ) where
  σ : ℕ → ℕ
  τ : ℕ → ℕ
  σ_lt : ∀ i, i < m → σ i < m
  τ_lt : ∀ i, i < m → τ i < m
  στ : ∀ i, i < m → σ (τ i) = i
  τσ : ∀ i, i < m → τ (σ i) = i

/-- the permutation of `Fin m` a relabelling induces -/
def Relabel.equiv {m : ℕ} (P : Relabel m) : Fin m ≃ Fin m where
  toFun i := ⟨P.σ i.1, P.σ_lt i.1 i.2⟩
  invFun i := ⟨P.τ i.1, P.τ_lt i.1 i.2⟩
  left_inv i := Fin.ext (P.τσ i.1 i.2)
  right_inv i := Fin.ext (P.στ i.1 i.2)

/-- `p'` is the PRISM object of the relabelled system: every per-pair datum moved along with its pair -/
structure Relabelled (p p' : Prism ℝ) (P : Relabel p.n) : Prop where
  hn : p'.n = p.n
  hdom : p'.dom = p.dom
  hom : ∀ l i j, l < p.dom.length → i < p.n → j < p.n → p'.omega.at l i j = p.omega.at l (P.σ i) (P.σ j)
  hpair : ∀ i j, i < p.n → j < p.n → p'.pairD.at 0 i j = p.pairD.at 0 (P.σ i) (P.σ j)
  hK : ∀ i j, i < p.n → j < p.n → p'.cloK (loI i j) (hiI i j) = p.cloK (loI (P.σ i) (P.σ j)) (hiI (P.σ i) (P.σ j))
  hσ : ∀ i j, i < p.n → j < p.n → p'.cloSigma (loI i j) (hiI i j) = p.cloSigma (loI (P.σ i) (P.σ j)) (hiI (P.σ i) (P.σ j))
  hu : ∀ l i j, l < p.dom.length → i < p.n → j < p.n →
    (p'.u (loI i j) (hiI i j))[l]! = (p.u (loI (P.σ i) (P.σ j)) (hiI (P.σ i) (P.σ j)))[l]!


theorem lohi_perm {m : ℕ} (P : Relabel m) (i j : ℕ) :
    (loI (P.σ (loI i j)) (P.σ (hiI i j)) = loI (P.σ i) (P.σ j)) ∧ (hiI (P.σ (loI i j)) (P.σ (hiI i j)) = hiI (P.σ i) (P.σ j)) := by
  by_cases h : i ≤ j
  · rw [loI_of_le h, hiI_of_le h]; exact ⟨rfl, rfl⟩
  · have h' : j ≤ i := by omega
    have e1 : loI i j = j := by unfold loI; rw [if_neg h]
    have e2 : hiI i j = i := by unfold hiI; rw [if_neg h]
    rw [e1, e2, loI_comm, hiI_comm]; exact ⟨rfl, rfl⟩

/-- **`cost` is equivariant under every relabelling of the site types** (symmetric trial `x`, symmetric stored ω):
if `p'` is the relabelled object and `x'` the relabelled input, then every array the evaluation leaves on `p'` — the
Fourier-space `directCorr`, `totalCorr` and the returned residual `y` — is the relabelled array of `p`.  In particular
`x` is a root for `p` iff the relabelled `x` is a root for `p'`. -/
theorem cost_perm_equivariant {inv : ℕ → Array ℝ → Array ℝ} {p p' q q' : Prism ℝ} {x x' : Array ℝ}
    (P : Relabel p.n) (R : Relabelled p p' P) (w : PWf p) (w' : PWf p') (hd : C07.DInv p.dom)
    (hc : p.cost inv x = .ok q) (hc' : p'.cost inv x' = .ok q')
    (hx : ∀ l i j, l < p.dom.length → i < p.n → j < p.n → x'[(l * p.n + i) * p.n + j]! = x[(l * p.n + P.σ i) * p.n + P.σ j]!)
    (hxs : ∀ l i j, l < p.dom.length → i < p.n → j < p.n → x[(l * p.n + i) * p.n + j]! = x[(l * p.n + j) * p.n + i]!)
    (hΩs : ∀ l i j, l < p.dom.length → i < p.n → j < p.n → p.omega.at l i j = p.omega.at l j i)
    (hρs : ∀ i j, i < p.n → j < p.n → p.pairD.at 0 i j = p.pairD.at 0 j i)
    (hρ : ∀ i j, i < p.n → j < p.n → p.pairD.at 0 i j ≠ 0)
    (hinv : ∀ l, l < p.dom.length → InvOn inv p.n fun i j => (if i = j then 1 else 0) - ∑ k ∈ range p.n, p.omega.at l i k * q.directCorr.at l k j)
    (hinv' : ∀ l, l < p.dom.length → InvOn inv p'.n fun i j => (if i = j then 1 else 0) - ∑ k ∈ range p'.n, p'.omega.at l i k * q'.directCorr.at l k j)
    (hdet : ∀ l, l < p.dom.length → IsUnit (1 - C01.mat p.n p.omega l * C01.mat p.n q.directCorr l).det)
    {l i j : ℕ} (hl : l < p.dom.length) (hi : i < p.n) (hj : j < p.n) :
    q'.directCorr.at l i j = q.directCorr.at l (P.σ i) (P.σ j) ∧
    q'.totalCorr.at l i j = q.totalCorr.at l (P.σ i) (P.σ j) ∧
    q'.y[(l * p.n + i) * p.n + j]! = q.y[(l * p.n + P.σ i) * p.n + P.σ j]! := by
  obtain ⟨T⟩ := cost_trace inv p q x hc
  obtain ⟨T'⟩ := cost_trace inv p' q' x' hc'
  have hn := R.hn; have hdom := R.hdom
  have hL : p'.dom.length = p.dom.length := by rw [hdom]
  -- (1) closure stage, entry-wise, for every grid point and pair
  have hcR : ∀ m a b, m < p.dom.length → a < p.n → b < p.n → T'.cR.at m a b = T.cR.at m (P.σ a) (P.σ b) := by
    intro m a b hm ha hb
    have hlo := loI_lt ha hb; have hhi := hiI_lt ha hb
    refine closure_stage_local T T' hm (by rw [hL]; exact hm) (P.σ_lt a ha) (P.σ_lt b hb) (by rw [hn]; exact ha) (by rw [hn]; exact hb)
      (by rw [hdom]) (R.hK a b ha hb) (R.hσ a b ha hb) (R.hu m a b hm ha hb) ?_
    rw [hn, hx m (loI a b) (hiI a b) hm hlo hhi]
    -- x is symmetric, so reading (σ lo, σ hi) or the sorted pair of (σ a, σ b) is the same
    by_cases hab : a ≤ b
    · rw [loI_of_le hab, hiI_of_le hab]
      by_cases hs : P.σ a ≤ P.σ b
      · rw [loI_of_le hs, hiI_of_le hs]
      · have hs' : P.σ b ≤ P.σ a := by omega
        rw [loI_comm, hiI_comm, loI_of_le hs', hiI_of_le hs']
        exact hxs m _ _ hm (P.σ_lt a ha) (P.σ_lt b hb)
    · have hba : b ≤ a := by omega
      have e1 : loI a b = b := by unfold loI; rw [if_neg hab]
      have e2 : hiI a b = a := by unfold hiI; rw [if_neg hab]
      rw [e1, e2]
      by_cases hs : P.σ a ≤ P.σ b
      · rw [loI_of_le hs, hiI_of_le hs]
        exact hxs m _ _ hm (P.σ_lt b hb) (P.σ_lt a ha)
      · have hs' : P.σ b ≤ P.σ a := by omega
        rw [loI_comm, hiI_comm, loI_of_le hs', hiI_of_le hs']
  -- (2) transform stage
  have hcF : ∀ m a b, m < p.dom.length → a < p.n → b < p.n → q'.directCorr.at m a b = q.directCorr.at m (P.σ a) (P.σ b) := by
    intro m a b hm ha hb
    rw [(transform_stage_local T' (by rw [hL]; exact hm) (by rw [hn]; exact ha) (by rw [hn]; exact hb)).1,
      (transform_stage_local T hm (P.σ_lt a ha) (P.σ_lt b hb)).1, hdom]
    apply C07.toFourier_congr p.dom _ _ _ m hm
    intro k hk
    rw [C07.pair_get _ _ _ _ (by rw [T'.cR_meta.1, hL]; exact hk), C07.pair_get _ _ _ _ (by rw [T.cR_meta.1]; exact hk)]
    exact hcR k a b hk ha hb
  -- (3) matrix stage
  have hH : ∀ m a b, m < p.dom.length → a < p.n → b < p.n → q'.totalCorr.at m a b = q.totalCorr.at m (P.σ a) (P.σ b) := by
    intro m a b hm ha hb
    have e := P.equiv
    have hΩ' : C01.mat p.n p'.omega m = (C01.mat p.n p.omega m).submatrix P.equiv P.equiv := by
      ext u v; simp only [C01.mat, Matrix.of_apply, Matrix.submatrix_apply, Relabel.equiv, Equiv.coe_fn_mk]
      exact R.hom m u.1 v.1 hm u.2 v.2
    have hC' : C01.mat p.n q'.directCorr m = (C01.mat p.n q.directCorr m).submatrix P.equiv P.equiv := by
      ext u v; simp only [C01.mat, Matrix.of_apply, Matrix.submatrix_apply, Relabel.equiv, Equiv.coe_fn_mk]
      exact hcF m u.1 v.1 hm u.2 v.2
    have h1 := cost_totalCorr_is_Hmap w hc hm (hinv m hm) hρ (hdet m hm)
    have hρ' : ∀ u v, u < p'.n → v < p'.n → p'.pairD.at 0 u v ≠ 0 := by
      intro u v hu hv; rw [hn] at hu hv; rw [R.hpair u v hu hv]; exact hρ _ _ (P.σ_lt u hu) (P.σ_lt v hv)
    have hdet' : IsUnit (1 - C01.mat p'.n p'.omega m * C01.mat p'.n q'.directCorr m).det := by
      rw [hn, hΩ', hC', Matrix.submatrix_mul_equiv]
      have : (1 : Matrix (Fin p.n) (Fin p.n) ℝ) - (C01.mat p.n p.omega m * C01.mat p.n q.directCorr m).submatrix P.equiv P.equiv
          = (1 - C01.mat p.n p.omega m * C01.mat p.n q.directCorr m).submatrix P.equiv P.equiv := by
        ext u v; simp [Matrix.sub_apply, Matrix.one_apply]
      rw [this, Matrix.det_submatrix_equiv_self]; exact hdet m hm
    have h2 := cost_totalCorr_is_Hmap w' hc' (by rw [hL]; exact hm) (hinv' m hm) hρ' hdet'
    have h2' : C01.matH p.n p'.pairD q'.totalCorr m = Hmap (C01.mat p.n p'.omega m) (C01.mat p.n q'.directCorr m) := by
      have := h2; rw [hn] at this; exact this
    rw [hΩ', hC', matrix_map_perm, ← h1] at h2'
    have h3 := congrFun (congrFun h2' ⟨a, ha⟩) ⟨b, hb⟩
    simp only [C01.matH, Matrix.of_apply, Matrix.submatrix_apply, Relabel.equiv, Equiv.coe_fn_mk] at h3
    rw [R.hpair a b ha hb] at h3
    exact mul_left_cancel₀ (hρ _ _ (P.σ_lt a ha) (P.σ_lt b hb)) h3
  refine ⟨hcF l i j hl hi hj, hH l i j hl hi hj, ?_⟩
  -- (4) back-transform and residual
  have hHsym : ∀ m a b, m < p.dom.length → a < p.n → b < p.n → q.totalCorr.at m a b = q.totalCorr.at m b a := by
    intro m a b hm ha hb
    have h1 := cost_totalCorr_is_Hmap w hc hm (hinv m hm) hρ (hdet m hm)
    have hΩT : (C01.mat p.n p.omega m)ᵀ = C01.mat p.n p.omega m := by
      ext u v; simp only [C01.mat, Matrix.transpose_apply, Matrix.of_apply]; exact hΩs m v.1 u.1 hm v.2 u.2
    have hCT : (C01.mat p.n q.directCorr m)ᵀ = C01.mat p.n q.directCorr m := by
      ext u v; simp only [C01.mat, Matrix.transpose_apply, Matrix.of_apply]
      exact (transform_stage_local T hm v.2 u.2).2
    have hs := Hmap_symm _ _ hΩT hCT (hdet m hm)
    rw [← h1] at hs
    have h3 := congrFun (congrFun hs ⟨a, ha⟩) ⟨b, hb⟩
    simp only [C01.matH, Matrix.transpose_apply, Matrix.of_apply] at h3
    rw [hρs b a hb ha] at h3
    exact (mul_left_cancel₀ (hρ a b ha hb) h3).symm
  have hgoF : ∀ m a b, m < p.dom.length → a < p.n → b < p.n → T'.goF.at m a b = T.goF.at m (P.σ a) (P.σ b) := by
    intro m a b hm ha hb
    rw [T'.goF_at (by rw [hL]; exact hm) (by rw [hn]; exact ha) (by rw [hn]; exact hb), T.goF_at hm (P.σ_lt a ha) (P.σ_lt b hb),
      ← T'.hq_h, ← T.hq_h, ← T'.hq_c, ← T.hq_c, hH m a b hm ha hb, hcF m a b hm ha hb]
  have hgoFsym : ∀ m a b, m < p.dom.length → a < p.n → b < p.n → T.goF.at m a b = T.goF.at m b a := by
    intro m a b hm ha hb
    rw [T.goF_at hm ha hb, T.goF_at hm hb ha, ← T.hq_h, hHsym m a b hm ha hb, T.cF_symm hm ha hb]
  have hgo : T'.go.at l i j = T.go.at l (P.σ i) (P.σ j) := by
    rw [T'.go_at (by rw [hL]; exact hl) (by rw [hn]; exact hi) (by rw [hn]; exact hj), T.go_at hl (P.σ_lt i hi) (P.σ_lt j hj), hdom]
    apply C07.toReal_congr p.dom _ _ _ l hl
    intro k hk
    have hlo := loI_lt hi hj; have hhi := hiI_lt hi hj
    rw [C07.pair_get _ _ _ _ (by rw [T'.goF_meta.1, hL]; exact hk), C07.pair_get _ _ _ _ (by rw [T.goF_meta.1]; exact hk),
      hgoF k _ _ hk hlo hhi]
    -- (σ lo, σ hi) versus the sorted pair of (σ i, σ j): equal up to a swap, and goF is symmetric
    by_cases hab : i ≤ j
    · rw [loI_of_le hab, hiI_of_le hab]
      by_cases hs : P.σ i ≤ P.σ j
      · rw [loI_of_le hs, hiI_of_le hs]
      · have hs' : P.σ j ≤ P.σ i := by omega
        rw [loI_comm, hiI_comm, loI_of_le hs', hiI_of_le hs']
        exact hgoFsym k _ _ hk (P.σ_lt i hi) (P.σ_lt j hj)
    · have hba : j ≤ i := by omega
      have e1 : loI i j = j := by unfold loI; rw [if_neg hab]
      have e2 : hiI i j = i := by unfold hiI; rw [if_neg hab]
      rw [e1, e2]
      by_cases hs : P.σ i ≤ P.σ j
      · rw [loI_of_le hs, hiI_of_le hs]
        exact hgoFsym k _ _ hk (P.σ_lt j hj) (P.σ_lt i hi)
      · have hs' : P.σ j ≤ P.σ i := by omega
        rw [loI_comm, hiI_comm, loI_of_le hs', hiI_of_le hs']
  have hy' := T'.y_at (l := l) (i := i) (j := j) (by rw [hL]; exact hl) (by rw [hn]; exact hi) (by rw [hn]; exact hj)
  rw [hn] at hy'
  rw [hy', T.y_at hl (P.σ_lt i hi) (P.σ_lt j hj), hgo, hdom]
  congr 2
  rw [T'.gin_at (by rw [hL]; exact hl) (by rw [hn]; exact hi) (by rw [hn]; exact hj), T.gin_at hl (P.σ_lt i hi) (P.σ_lt j hj), hn,
    hx l i j hl hi hj, hdom]


/-! ## species splitting at the level of the whole `cost` evaluation -/

/-- `p'` (rank `m`) is a labelled split of the one-component object `p`: species densities `ρ_a` summing to `ρ`, every
pair carries the base pair's closure / potential / contact distance, and the stored ω matrix is symmetric with row sums
`ρ_a · ω` (`ω = Ω_base / ρ`) -/
structure SplitOf (p p' : Prism ℝ) (ρa : ℕ → ℝ) (ρ : ℝ) : Prop where
  hn1 : p.n = 1
  hdom : p'.dom = p.dom
  hρ : ∑ a ∈ range p'.n, ρa a = ρ
  hρ0 : ρ ≠ 0
  hρa : ∀ a, a < p'.n → ρa a ≠ 0
  hpair : p.pairD.at 0 0 0 = ρ ^ 2
  hpair' : ∀ a b, a < p'.n → b < p'.n → p'.pairD.at 0 a b = ρa a * ρa b
  hsym : ∀ l a b, l < p.dom.length → a < p'.n → b < p'.n → p'.omega.at l a b = p'.omega.at l b a
  hrow : ∀ l a, l < p.dom.length → a < p'.n → ∑ b ∈ range p'.n, p'.omega.at l a b = ρa a * (p.omega.at l 0 0 / ρ)
  hK : ∀ a b, a < p'.n → b < p'.n → p'.cloK (loI a b) (hiI a b) = p.cloK 0 0
  hσ : ∀ a b, a < p'.n → b < p'.n → p'.cloSigma (loI a b) (hiI a b) = p.cloSigma 0 0
  hu : ∀ l a b, l < p.dom.length → a < p'.n → b < p'.n → (p'.u (loI a b) (hiI a b))[l]! = (p.u 0 0)[l]!

/-- **splitting one species into labelled species changes nothing**: for the lifted trial input (`x'_{ab} = x` for every
labelled pair) every labelled pair of the split system gets exactly the unsplit `ĉ`, `ĥ` and residual `y` — for every
number of labels and every split ratio.  In particular the lifted root of the unsplit system is a root of the split one,
and `g_AA = g_AB = g_BB = g`. -/
theorem cost_split_lifts {inv : ℕ → Array ℝ → Array ℝ} {p p' q q' : Prism ℝ} {x x' : Array ℝ} {ρa : ℕ → ℝ} {ρ : ℝ}
    (S : SplitOf p p' ρa ρ) (w : PWf p) (w' : PWf p') (hd : C07.DInv p.dom)
    (hc : p.cost inv x = .ok q) (hc' : p'.cost inv x' = .ok q')
    (hx : ∀ l a b, l < p.dom.length → a < p'.n → b < p'.n → x'[(l * p'.n + a) * p'.n + b]! = x[(l * p.n + 0) * p.n + 0]!)
    (hinv : ∀ l, l < p.dom.length → InvOn inv p.n fun i j => (if i = j then 1 else 0) - ∑ k ∈ range p.n, p.omega.at l i k * q.directCorr.at l k j)
    (hinv' : ∀ l, l < p.dom.length → InvOn inv p'.n fun i j => (if i = j then 1 else 0) - ∑ k ∈ range p'.n, p'.omega.at l i k * q'.directCorr.at l k j)
    (hdet' : ∀ l, l < p.dom.length → IsUnit (1 - C01.mat p'.n p'.omega l * C01.mat p'.n q'.directCorr l).det)
    {l a b : ℕ} (hl : l < p.dom.length) (ha : a < p'.n) (hb : b < p'.n) :
    q'.directCorr.at l a b = q.directCorr.at l 0 0 ∧
    q'.totalCorr.at l a b = q.totalCorr.at l 0 0 ∧
    q'.y[(l * p'.n + a) * p'.n + b]! = q.y[(l * p.n + 0) * p.n + 0]! := by
  obtain ⟨T⟩ := cost_trace inv p q x hc
  obtain ⟨T'⟩ := cost_trace inv p' q' x' hc'
  have hL : p'.dom.length = p.dom.length := by rw [S.hdom]
  have h0 : (0 : ℕ) < p.n := by rw [S.hn1]; norm_num
  have hlo0 : loI 0 0 = 0 := rfl
  have hhi0 : hiI 0 0 = 0 := rfl
  have hcR : ∀ m c e, m < p.dom.length → c < p'.n → e < p'.n → T'.cR.at m c e = T.cR.at m 0 0 := by
    intro m c e hm hc1 he
    refine closure_stage_local T T' hm (by rw [hL]; exact hm) h0 h0 hc1 he (by rw [S.hdom]) ?_ ?_ ?_ ?_
    · rw [hlo0, hhi0]; exact S.hK c e hc1 he
    · rw [hlo0, hhi0]; exact S.hσ c e hc1 he
    · rw [hlo0, hhi0]; exact S.hu m c e hm hc1 he
    · rw [hlo0, hhi0]; exact hx m _ _ hm (loI_lt hc1 he) (hiI_lt hc1 he)
  have hcF : ∀ m c e, m < p.dom.length → c < p'.n → e < p'.n → q'.directCorr.at m c e = q.directCorr.at m 0 0 := by
    intro m c e hm hc1 he
    rw [(transform_stage_local T' (by rw [hL]; exact hm) hc1 he).1, (transform_stage_local T hm h0 h0).1, S.hdom]
    apply C07.toFourier_congr p.dom _ _ _ m hm
    intro k hk
    rw [C07.pair_get _ _ _ _ (by rw [T'.cR_meta.1, hL]; exact hk), C07.pair_get _ _ _ _ (by rw [T.cR_meta.1]; exact hk)]
    exact hcR k c e hk hc1 he
  have hH : ∀ m c e, m < p.dom.length → c < p'.n → e < p'.n → q'.totalCorr.at m c e = q.totalCorr.at m 0 0 := by
    intro m c e hm hc1 he
    -- the base relation h = ω c (ω + ρ h)
    have hb := C02.rank1_from_cost_partial w S.hn1 hc hm (hinv m hm) (by rw [S.hpair]; exact pow_ne_zero 2 S.hρ0)
    set Ωb := p.omega.at m 0 0 with hΩb
    set cb := q.directCorr.at m 0 0 with hcb
    set hh := q.totalCorr.at m 0 0 with hhh
    rw [S.hpair] at hb
    have hbase : hh = (Ωb / ρ) * cb * ((Ωb / ρ) + ρ * hh) := by
      have hρ0 := S.hρ0
      have : ρ ^ 2 * hh = ρ ^ 2 * ((Ωb / ρ) * cb * ((Ωb / ρ) + ρ * hh)) := by rw [hb]; field_simp
      exact mul_left_cancel₀ (pow_ne_zero 2 hρ0) this
    -- the lifted arrays solve the split system's PRISM equation
    have hlift := split_lifts (n := Fin p'.n) (fun u => ρa u.1) ρ (Ωb / ρ) cb hh (C01.mat p'.n p'.omega m)
      (by rw [← S.hρ, Finset.sum_range]) (by
        ext u v; simp only [C01.mat, Matrix.transpose_apply, Matrix.of_apply]; exact S.hsym m v.1 u.1 hm v.2 u.2)
      (by intro u; have := S.hrow m u.1 hm u.2; rw [Finset.sum_range] at this; simpa [C01.mat] using this) hbase
    have hC' : C01.mat p'.n q'.directCorr m = Matrix.of fun _ _ => cb := by
      ext u v; simp only [C01.mat, Matrix.of_apply]; exact hcF m u.1 v.1 hm u.2 v.2
    have hρ' : ∀ u v, u < p'.n → v < p'.n → p'.pairD.at 0 u v ≠ 0 := by
      intro u v hu hv; rw [S.hpair' u v hu hv]; exact mul_ne_zero (S.hρa u hu) (S.hρa v hv)
    have h2 := cost_totalCorr_is_Hmap w' hc' (by rw [hL]; exact hm) (hinv' m hm) hρ' (hdet' m hm)
    have huniq := prism_solution_unique (C01.mat p'.n p'.omega m) (C01.mat p'.n q'.directCorr m)
      (Matrix.of fun (u v : Fin p'.n) => ρa u.1 * ρa v.1 * hh) (hdet' m hm) (by rw [hC']; exact hlift)
    rw [← h2] at huniq
    have h3 := congrFun (congrFun huniq ⟨c, hc1⟩) ⟨e, he⟩
    simp only [C01.matH, Matrix.of_apply] at h3
    rw [S.hpair' c e hc1 he] at h3
    exact (mul_left_cancel₀ (mul_ne_zero (S.hρa c hc1) (S.hρa e he)) h3).symm
  refine ⟨hcF l a b hl ha hb, hH l a b hl ha hb, ?_⟩
  have hgoF : ∀ m c e, m < p.dom.length → c < p'.n → e < p'.n → T'.goF.at m c e = T.goF.at m 0 0 := by
    intro m c e hm hc1 he
    rw [T'.goF_at (by rw [hL]; exact hm) hc1 he, T.goF_at hm h0 h0, ← T'.hq_h, ← T.hq_h, ← T'.hq_c, ← T.hq_c,
      hH m c e hm hc1 he, hcF m c e hm hc1 he]
  have hgo : T'.go.at l a b = T.go.at l 0 0 := by
    rw [T'.go_at (by rw [hL]; exact hl) ha hb, T.go_at hl h0 h0, S.hdom]
    apply C07.toReal_congr p.dom _ _ _ l hl
    intro k hk
    rw [C07.pair_get _ _ _ _ (by rw [T'.goF_meta.1, hL]; exact hk), C07.pair_get _ _ _ _ (by rw [T.goF_meta.1]; exact hk)]
    exact hgoF k _ _ hk (loI_lt ha hb) (hiI_lt ha hb)
  rw [T'.y_at (by rw [hL]; exact hl) ha hb, T.y_at hl h0 h0, hgo, S.hdom]
  congr 2
  rw [T'.gin_at (by rw [hL]; exact hl) ha hb, T.gin_at hl h0 h0, hx l a b hl ha hb, S.hdom]

end C04
