import Proofs.Lemmas.CostSpec
import Proofs.Lemmas.HeapCells
import Proofs.Props.C15
/-!
# C16 — A PRISM object is a faithful, isolated snapshot of a fully specified System

Value level (`Model/Prism.lean`): `createPRISM` succeeds iff nothing is missing (otherwise `ValueError`,
and no array is ever built), and its result is wired exactly from the System's state at that moment.
Object level (`Model/SysHeap.lean`): potentials and closures are cells in a store; creating a PRISM
object allocates private copies and writes only those, so (i) the System is unchanged, (ii) no later
System operation can reach an existing PRISM object, (iii) the System's meaning evolves exactly like
the plain value-level specification — hence a PRISM created after any edit history equals the one of
a freshly built System with the current parameters.
-/
open Finset Real

namespace C16

/-! ## completeness check -/

theorem tableFull_iff {β} (n : ℕ) (t : ℕ → ℕ → Option β) :
    tableFull n t = true ↔ ∀ i j, i < n → j < n → i ≤ j → t i j ≠ none := by
  unfold tableFull
  simp only [List.all_eq_true, List.mem_range, Bool.or_eq_true, decide_eq_true_eq, Option.isSome_iff_ne_none]
  constructor
  · intro h i j hi hj hij
    rcases h i hi j hj with h' | h'
    · omega
    · exact h'
  · intro h i hi j hj
    by_cases hij : i ≤ j
    · right; exact h i j hi hj hij
    · left; omega

/-- `System.check()` passes iff every density, diameter, potential, closure, ω and the domain is present -/
theorem check_iff_complete (s : Sys ℝ) :
    s.check = true ↔
      (∀ t, t < s.dens.n → s.dens.rho t ≠ none) ∧ (∀ t, t < s.diam.n → s.diam.diam t ≠ none) ∧
      (∀ i j, i < s.n → j < s.n → i ≤ j → s.pot i j ≠ none ∧ s.clo i j ≠ none ∧ s.om i j ≠ none) ∧ s.dom ≠ none := by
  unfold Sys.check Dens.check Diam.check
  simp only [Bool.and_eq_true, tableFull_iff, List.all_eq_true, List.mem_range, Option.isSome_iff_ne_none]
  constructor
  · rintro ⟨⟨⟨⟨⟨h1, h2⟩, h3⟩, h4⟩, h5⟩, h6⟩
    exact ⟨h1, h5, fun i j hi hj hij => ⟨h2 i j hi hj hij, h3 i j hi hj hij, h4 i j hi hj hij⟩, h6⟩
  · rintro ⟨h1, h5, h, h6⟩
    exact ⟨⟨⟨⟨⟨h1, fun i j hi hj hij => (h i j hi hj hij).1⟩, fun i j hi hj hij => (h i j hi hj hij).2.1⟩,
      fun i j hi hj hij => (h i j hi hj hij).2.2⟩, h5⟩, h6⟩

/-- **`createPRISM` raises `ValueError` exactly when something is missing** — and then nothing is computed;
otherwise it returns a PRISM object -/
theorem createPRISM_error_iff (s : Sys ℝ) :
    (s.createPRISM = .error .valueError ↔ s.check = false) ∧ (s.check = true → ∃ p, s.createPRISM = .ok p) := by
  have hok : s.check = true → ∃ p, s.createPRISM = .ok p := by
    intro hc
    unfold Sys.createPRISM
    rw [if_pos hc]
    have hd : s.dom.isSome = true := by
      unfold Sys.check at hc; simp only [Bool.and_eq_true] at hc; exact hc.2
    obtain ⟨d, hd'⟩ := Option.isSome_iff_exists.mp hd
    rw [hd']
    simp only
    unfold MA.binop
    simp [Operand.spaceOK, spaceOK, MA.ofMat, MA.ofPairs]
  refine ⟨⟨?_, ?_⟩, hok⟩
  · intro h
    by_contra hc
    rw [Bool.not_eq_false] at hc
    obtain ⟨p, hp⟩ := hok hc
    rw [hp] at h; cases h
  · intro hc
    unfold Sys.createPRISM
    simp [hc]

/-! ## wiring -/

/-- **the PRISM object is wired from the System's state at that moment**: rank, `kT`, domain; per pair the
closure class and flag, the closure's contact distance (the Diameter table's σ_ab), the potential's own σ when
given else the same default, `closure.potential = U_ab(r)/kT` on the domain's r grid, and `omega = ω_ab(k)·ρ^site_ab`
on the domain's k grid, marked Fourier -/
theorem snapshot_wiring (s : Sys ℝ) (p : Prism ℝ) (d : Dom ℝ) (hd : s.dom = some d) (h : s.createPRISM = .ok p)
    (hsite : ∀ a b, s.dens.site a b = s.dens.site b a) :
    p.n = s.n ∧ p.kT = s.kT ∧ p.dom = d ∧ p.omega.space = .fourier ∧ p.omega.length = d.length ∧ p.omega.rank = s.n ∧
    (∀ i j, i ≤ j →
      p.cloSigma i j = (s.diam.sigma i j).getD 0 ∧
      p.cloK i j = (s.clo i j).getD (.py, false) ∧
      (∀ P, s.pot i j = some P →
        p.potSigma i j = (match P.sigma with | some v => v | none => (s.diam.sigma i j).getD 0) ∧
        p.u i j = tab d.length fun l => P.eval (p.potSigma i j) (d.r[l]!) / s.kT)) ∧
    (∀ l i j, l < d.length → i < s.n → j < s.n → i ≤ j → ∀ O, s.om i j = some O →
      p.omega.at l i j = O.eval (d.k[l]!) l * s.dens.site i j ∧ p.omega.at l j i = p.omega.at l i j) := by
  unfold Sys.createPRISM at h
  split at h
  · rw [hd] at h
    simp only at h
    split at h
    · cases h
    · rename_i om hom
      cases h
      have hom' := binop_eq hom
      refine ⟨rfl, rfl, rfl, ?_, ?_, ?_, ?_, ?_⟩
      · rw [hom']; rfl
      · rw [hom']; rfl
      · rw [hom']; rfl
      · intro i j hij
        simp only [loI_of_le hij, hiI_of_le hij, Lit_ofNat, Nat.cast_zero, true_and]
        intro P hP
        simp [hP] <;> (cases P.sigma <;> simp)
      · intro l i j hl hi hj hij O hO
        have key : ∀ a b, a < s.n → b < s.n → om.at l a b =
            (match s.om (loI a b) (hiI a b) with | some O => tab d.length fun l => O.eval d.k[l]! l | none => #[])[l]! * s.dens.site a b := by
          intro a b ha hb
          rw [hom']
          simp only [ofPairs_length, ofPairs_rank]
          rw [build_at _ _ _ _ hl ha hb, ofPairs_at _ _ _ _ hl ha hb]
          simp only [Operand.at, MA.ofMat, build_length, if_true]
          rw [build_at _ _ _ _ (by norm_num) ha hb]
          cases s.om (loI a b) (hiI a b) <;> rfl
        constructor
        · rw [key i j hi hj, loI_of_le hij, hiI_of_le hij, hO, tab_get _ _ _ hl]
        · rw [key i j hi hj, key j i hj hi, loI_comm j i, hiI_comm j i]
          rw [hsite j i]
  · cases h

/-- with the Density / Diameter invariants of C15 (which hold after *every* assignment history) the wiring reads: each
pair's closure sees the arithmetic mean of the two site diameters, and ω is scaled by `ρ_a` on the diagonal and `ρ_a + ρ_b`
off the diagonal -/
theorem snapshot_wiring_values (s : Sys ℝ) (p : Prism ℝ) (d : Dom ℝ) (hd : s.dom = some d) (h : s.createPRISM = .ok p)
    (hρ : C15.DInv s.dens) (hσ : C15.SInv s.diam) (hn1 : s.dens.n = s.n) (hn2 : s.diam.n = s.n)
    (hsite : ∀ a b, s.dens.site a b = s.dens.site b a)
    {i j : ℕ} (hi : i < s.n) (hj : j < s.n) (hij : i ≤ j) (di dj ri rj : ℝ)
    (hdi : s.diam.diam i = some di) (hdj : s.diam.diam j = some dj) (hri : s.dens.rho i = some ri) (hrj : s.dens.rho j = some rj) :
    p.cloSigma i j = (di + dj) / 2 ∧
    ∀ l, l < d.length → ∀ O, s.om i j = some O → p.omega.at l i j = O.eval (d.k[l]!) l * (if i = j then ri else ri + rj) := by
  obtain ⟨_, _, _, _, _, _, hpair, hom⟩ := snapshot_wiring s p d hd h hsite
  constructor
  · rw [(hpair i j hij).1, hσ.sigma_ok i j di dj (by rw [hn2]; exact hi) (by rw [hn2]; exact hj) hdi hdj]; rfl
  · intro l hl O hO
    rw [(hom l i j hl hi hj hij O hO).1, hρ.site_ok i j ri rj (by rw [hn1]; exact hi) (by rw [hn1]; exact hj) hri hrj]

/-! ## object level: isolation -/

theorem setSym_some {β} (f : ℕ → ℕ → Option β) (i j : ℕ) (v : Option β) (a b : ℕ) (r : β)
    (h : setSym f i j v a b = some r) : v = some r ∨ f a b = some r := by
  unfold setSym at h; split at h
  · left; exact h
  · right; exact h

theorem copyPair_spec (s : SysH ℝ) (d : Dom ℝ) (acc : CopyAcc ℝ) (ij : ℕ × ℕ) :
    (copyPair s d acc ij).st.next = acc.st.next + 2 ∧
    (∀ r, r < acc.st.next → (copyPair s d acc ij).st.pot r = acc.st.pot r ∧ (copyPair s d acc ij).st.clo r = acc.st.clo r) ∧
    (copyPair s d acc ij).owned = (acc.st.next + 1) :: acc.st.next :: acc.owned := by
  obtain ⟨i, j⟩ := ij
  unfold copyPair Store.allocPot Store.allocClo
  refine ⟨by rfl, ?_, by rfl⟩
  intro r hr
  have h1 : r ≠ acc.st.next := by omega
  have h2 : r ≠ acc.st.next + 1 := by omega
  constructor <;> simp [upd, h1, h2]

theorem copyFold_spec (s : SysH ℝ) (d : Dom ℝ) (l : List (ℕ × ℕ)) (acc : CopyAcc ℝ) :
    let acc' := l.foldl (copyPair s d) acc
    acc.st.next ≤ acc'.st.next ∧
    (∀ r, r < acc.st.next → acc'.st.pot r = acc.st.pot r ∧ acc'.st.clo r = acc.st.clo r) ∧
    (∀ r ∈ acc'.owned, r ∈ acc.owned ∨ (acc.st.next ≤ r ∧ r < acc'.st.next)) := by
  induction l generalizing acc with
  | nil => exact ⟨Nat.le_refl _, fun _ _ => ⟨rfl, rfl⟩, fun r hr => Or.inl hr⟩
  | cons ij l ih =>
    simp only [List.foldl_cons]
    obtain ⟨h1, h2, h3⟩ := copyPair_spec s d acc ij
    obtain ⟨g1, g2, g3⟩ := ih (copyPair s d acc ij)
    refine ⟨by omega, ?_, ?_⟩
    · intro r hr
      obtain ⟨a, b⟩ := g2 r (by omega)
      obtain ⟨a', b'⟩ := h2 r hr
      exact ⟨a.trans a', b.trans b'⟩
    · intro r hr
      rcases g3 r hr with h | ⟨h, h'⟩
      · rw [h3] at h
        simp only [List.mem_cons] at h
        rcases h with h | h | h
        · right; omega
        · right; omega
        · left; exact h
      · right; omega

/-- the invariant of every reachable world: System references point into the store; the cells a PRISM object
owns are in the store and are **not** referenced by the System -/
structure WInv (w : World ℝ) : Prop where
  sysPot : ∀ i j r, w.sys.potR i j = some r → r < w.st.next
  sysClo : ∀ i j r, w.sys.cloR i j = some r → r < w.st.next
  own : ∀ q ∈ w.prisms, ∀ r ∈ q.owned, r < w.st.next ∧ (∀ i j, w.sys.potR i j ≠ some r) ∧ (∀ i j, w.sys.cloR i j ≠ some r)

theorem winv_init (n : ℕ) (kT : ℝ) : WInv (World.init n kT) := by
  refine ⟨?_, ?_, ?_⟩
  · intro i j r h; simp [World.init, SysH.init] at h
  · intro i j r h; simp [World.init, SysH.init] at h
  · intro q hq; simp [World.init] at hq

/-- one operation: the invariant is kept, existing PRISM objects stay in the world, and **no cell owned by an
existing PRISM object changes** -/
theorem step_isolated (w : World ℝ) (hw : WInv w) (op : SOp ℝ) :
    WInv (w.step op).1 ∧ (∀ q ∈ w.prisms, q ∈ (w.step op).1.prisms) ∧
    (∀ q ∈ w.prisms, ∀ r ∈ q.owned, (w.step op).1.st.pot r = w.st.pot r ∧ (w.step op).1.st.clo r = w.st.clo r) := by
  cases op with
  | setKT v => exact ⟨⟨hw.sysPot, hw.sysClo, hw.own⟩, fun _ h => h, fun _ _ _ _ => ⟨rfl, rfl⟩⟩
  | setDom d => exact ⟨⟨hw.sysPot, hw.sysClo, hw.own⟩, fun _ h => h, fun _ _ _ _ => ⟨rfl, rfl⟩⟩
  | setDens ts v => exact ⟨⟨hw.sysPot, hw.sysClo, hw.own⟩, fun _ h => h, fun _ _ _ _ => ⟨rfl, rfl⟩⟩
  | setDiam ts v => exact ⟨⟨hw.sysPot, hw.sysClo, hw.own⟩, fun _ h => h, fun _ _ _ _ => ⟨rfl, rfl⟩⟩
  | setOm i j O => exact ⟨⟨hw.sysPot, hw.sysClo, hw.own⟩, fun _ h => h, fun _ _ _ _ => ⟨rfl, rfl⟩⟩
  | setPot i j P =>
    cases P with
    | none =>
      refine ⟨⟨?_, hw.sysClo, ?_⟩, fun _ h => h, fun _ _ _ _ => ⟨rfl, rfl⟩⟩
      · intro a b r h
        rcases setSym_some _ _ _ _ _ _ _ h with h' | h'
        · cases h'
        · exact hw.sysPot a b r h'
      · intro q hq r hr
        obtain ⟨h1, h2, h3⟩ := hw.own q hq r hr
        refine ⟨h1, ?_, h3⟩
        intro a b h
        rcases setSym_some _ _ _ _ _ _ _ h with h' | h'
        · cases h'
        · exact h2 a b h'
    | some P =>
      simp only [World.step, Store.allocPot]
      refine ⟨⟨?_, ?_, ?_⟩, fun _ h => h, ?_⟩
      · intro a b r h
        rcases setSym_some _ _ _ _ _ _ _ h with h' | h'
        · cases h'; simp
        · have := hw.sysPot a b r h'; simp; omega
      · intro a b r h; have := hw.sysClo a b r h; simp; omega
      · intro q hq r hr
        obtain ⟨h1, h2, h3⟩ := hw.own q hq r hr
        refine ⟨by simp; omega, ?_, h3⟩
        intro a b h
        rcases setSym_some _ _ _ _ _ _ _ h with h' | h'
        · cases h'; omega
        · exact h2 a b h'
      · intro q hq r hr
        have := (hw.own q hq r hr).1
        have hne : r ≠ w.st.next := by omega
        constructor <;> simp [upd, hne]
  | setClo i j C =>
    cases C with
    | none =>
      refine ⟨⟨hw.sysPot, ?_, ?_⟩, fun _ h => h, fun _ _ _ _ => ⟨rfl, rfl⟩⟩
      · intro a b r h
        rcases setSym_some _ _ _ _ _ _ _ h with h' | h'
        · cases h'
        · exact hw.sysClo a b r h'
      · intro q hq r hr
        obtain ⟨h1, h2, h3⟩ := hw.own q hq r hr
        refine ⟨h1, h2, ?_⟩
        intro a b h
        rcases setSym_some _ _ _ _ _ _ _ h with h' | h'
        · cases h'
        · exact h3 a b h'
    | some C =>
      obtain ⟨k, hc⟩ := C
      simp only [World.step, Store.allocClo]
      refine ⟨⟨?_, ?_, ?_⟩, fun _ h => h, ?_⟩
      · intro a b r h; have := hw.sysPot a b r h; simp; omega
      · intro a b r h
        rcases setSym_some _ _ _ _ _ _ _ h with h' | h'
        · cases h'; simp
        · have := hw.sysClo a b r h'; simp; omega
      · intro q hq r hr
        obtain ⟨h1, h2, h3⟩ := hw.own q hq r hr
        refine ⟨by simp; omega, h2, ?_⟩
        intro a b h
        rcases setSym_some _ _ _ _ _ _ _ h with h' | h'
        · cases h'; omega
        · exact h3 a b h'
      · intro q hq r hr
        have := (hw.own q hq r hr).1
        have hne : r ≠ w.st.next := by omega
        constructor <;> simp [upd, hne]
  | editPotSigma i j v =>
    simp only [World.step]
    split
    · exact ⟨hw, fun _ h => h, fun _ _ _ _ => ⟨rfl, rfl⟩⟩
    · rename_i r hr
      split
      · exact ⟨hw, fun _ h => h, fun _ _ _ _ => ⟨rfl, rfl⟩⟩
      · rename_i P hP
        refine ⟨⟨hw.sysPot, hw.sysClo, hw.own⟩, fun _ h => h, ?_⟩
        intro q hq r' hr'
        have hne : r' ≠ r := fun e => (hw.own q hq r' hr').2.1 i j (e ▸ hr)
        constructor <;> simp [upd, hne]
  | create =>
    simp only [World.step]
    split
    · rename_i core d hcore hd
      have hf := copyFold_spec w.sys d (upperPairs w.sys.n) ⟨w.st, fun _ _ => 0, fun _ _ => 0, []⟩
      simp only at hf
      obtain ⟨f1, f2, f3⟩ := hf
      refine ⟨⟨?_, ?_, ?_⟩, ?_, ?_⟩
      · intro a b r h; exact lt_of_lt_of_le (hw.sysPot a b r h) f1
      · intro a b r h; exact lt_of_lt_of_le (hw.sysClo a b r h) f1
      · intro q hq r hr
        rcases List.mem_append.mp hq with hq' | hq'
        · obtain ⟨h1, h2, h3⟩ := hw.own q hq' r hr
          exact ⟨lt_of_lt_of_le h1 f1, h2, h3⟩
        · simp only [List.mem_singleton] at hq'
          subst hq'
          rcases f3 r hr with h | ⟨h, h'⟩
          · cases h
          · refine ⟨h', ?_, ?_⟩
            · intro a b e; have := hw.sysPot a b r e; omega
            · intro a b e; have := hw.sysClo a b r e; omega
      · intro q hq; exact List.mem_append.mpr (Or.inl hq)
      · intro q hq r hr
        exact f2 r (hw.own q hq r hr).1
    · exact ⟨hw, fun _ h => h, fun _ _ _ _ => ⟨rfl, rfl⟩⟩

/-- **later edits do not reach an existing PRISM object**: along any operation sequence every cell owned by a
PRISM object that exists now keeps its content (its `U.sigma`, `closure.sigma`, `closure.potential`) -/
theorem later_edits_do_not_reach_prism (ops : List (SOp ℝ)) (w : World ℝ) (hw : WInv w) :
    WInv (w.run ops) ∧ ∀ q ∈ w.prisms, q ∈ (w.run ops).prisms ∧
      ∀ r ∈ q.owned, (w.run ops).st.pot r = w.st.pot r ∧ (w.run ops).st.clo r = w.st.clo r := by
  induction ops generalizing w with
  | nil => exact ⟨hw, fun q hq => ⟨hq, fun _ _ => ⟨rfl, rfl⟩⟩⟩
  | cons op ops ih =>
    obtain ⟨h1, h2, h3⟩ := step_isolated w hw op
    obtain ⟨g1, g2⟩ := ih (w.step op).1 h1
    refine ⟨g1, ?_⟩
    intro q hq
    obtain ⟨a, b⟩ := g2 q (h2 q hq)
    refine ⟨a, fun r hr => ?_⟩
    obtain ⟨b1, b2⟩ := b r hr
    obtain ⟨c1, c2⟩ := h3 q hq r hr
    exact ⟨b1.trans c1, b2.trans c2⟩

/-- every reachable world satisfies the invariant -/
theorem reachable_inv (n : ℕ) (kT : ℝ) (ops : List (SOp ℝ)) : WInv ((World.init n kT).run ops) :=
  (later_edits_do_not_reach_prism ops _ (winv_init n kT)).1

/-- **creating a PRISM object does not modify the System**: its record is untouched and every object it
references is unchanged, so its meaning (`absSys`) is the same before and after -/
theorem create_does_not_write_system (w : World ℝ) (hw : WInv w) :
    (w.step .create).1.sys = w.sys ∧ absSys (w.step .create).1.st (w.step .create).1.sys = absSys w.st w.sys := by
  simp only [World.step]
  split
  · rename_i core d hcore hd
    have hf := copyFold_spec w.sys d (upperPairs w.sys.n) ⟨w.st, fun _ _ => 0, fun _ _ => 0, []⟩
    simp only at hf
    obtain ⟨_, f2, _⟩ := hf
    refine ⟨rfl, ?_⟩
    unfold absSys
    simp only
    congr 1
    · funext i j
      cases h : w.sys.potR i j with
      | none => rfl
      | some r => simp only [Option.bind]; exact (f2 r (hw.sysPot i j r h)).1
    · funext i j
      cases h : w.sys.cloR i j with
      | none => rfl
      | some r => simp only [Option.bind]; rw [(f2 r (hw.sysClo i j r h)).2]
  · exact ⟨rfl, rfl⟩

/-- **the PRISM object created after any history is the one of a fresh System with the current parameters**:
its value-level state is `createPRISM` of the System's current meaning, whatever happened before (earlier
`createPRISM` calls included) -/
theorem sweep_equals_fresh (w : World ℝ) (core : Prism ℝ) (h : (absSys w.st w.sys).createPRISM = .ok core) (d : Dom ℝ) (hd : w.sys.dom = some d) :
    ∃ q, (w.step .create).1.prisms = w.prisms ++ [q] ∧ q.core = core := by
  simp only [World.step, h, hd]
  exact ⟨_, rfl, rfl⟩

/-- and a partial System never yields a PRISM object -/
theorem create_refused_iff (w : World ℝ) : (w.step .create).2 = false → (w.step .create).1 = w := by
  simp only [World.step]
  split <;> simp

/-! ## refinement: the System's meaning evolves like the plain value-level specification -/

/-- the value-level specification of one System operation (what the operation means for a System whose objects are
plain values) -/
noncomputable def specStep (s : Sys ℝ) : SOp ℝ → Sys ℝ
  | .setKT v => { s with kT := v }
  | .setDom d => { s with dom := d }
  | .setDens ts v => { s with dens := s.dens.set ts v }
  | .setDiam ts v => { s with diam := s.diam.set ts v }
  | .setPot i j P => { s with pot := setSym s.pot i j P }
  | .setClo i j C => { s with clo := setSym s.clo i j C }
  | .setOm i j O => { s with om := setSym s.om i j O }
  | .editPotSigma i j v =>
      match s.pot i j with
      | none => s
      | some P => { s with pot := setSym s.pot i j (some { P with sigma := v }) }
  | .create => s

/-- distinct unordered pairs of the System never share a potential object -/
def PotInj (w : World ℝ) : Prop :=
  ∀ a b c d r, w.sys.potR a b = some r → w.sys.potR c d = some r → (a = c ∧ b = d) ∨ (a = d ∧ b = c)

theorem setSym_apply {β} (f : ℕ → ℕ → β) (i j : ℕ) (v : β) (a b : ℕ) :
    setSym f i j v a b = if (a = i ∧ b = j) ∨ (a = j ∧ b = i) then v else f a b := rfl

/-- … and the table is symmetric as a table of references -/
def PotSymm (w : World ℝ) : Prop := ∀ a b, w.sys.potR a b = w.sys.potR b a

theorem potSymm_init (n : ℕ) (kT : ℝ) : PotSymm (World.init n kT) := fun _ _ => rfl

theorem potSymm_step (w : World ℝ) (hs : PotSymm w) (op : SOp ℝ) : PotSymm (w.step op).1 := by
  cases op with
  | setKT v => exact hs
  | setDom d => exact hs
  | setDens ts v => exact hs
  | setDiam ts v => exact hs
  | setOm i j O => exact hs
  | setClo i j C =>
    cases C with
    | none => exact hs
    | some C => obtain ⟨k, hc⟩ := C; exact hs
  | editPotSigma i j v =>
    simp only [World.step]
    split
    · exact hs
    · split <;> exact hs
  | create =>
    simp only [World.step]
    split <;> exact hs
  | setPot i j P =>
    intro a b
    cases P with
    | none =>
      simp only [World.step, setSym_apply]
      by_cases h : (a = i ∧ b = j) ∨ (a = j ∧ b = i)
      · have h' : (b = i ∧ a = j) ∨ (b = j ∧ a = i) := by tauto
        rw [if_pos h, if_pos h']
      · have h' : ¬ ((b = i ∧ a = j) ∨ (b = j ∧ a = i)) := by tauto
        rw [if_neg h, if_neg h']; exact hs a b
    | some P =>
      simp only [World.step, Store.allocPot, setSym_apply]
      by_cases h : (a = i ∧ b = j) ∨ (a = j ∧ b = i)
      · have h' : (b = i ∧ a = j) ∨ (b = j ∧ a = i) := by tauto
        rw [if_pos h, if_pos h']
      · have h' : ¬ ((b = i ∧ a = j) ∨ (b = j ∧ a = i)) := by tauto
        rw [if_neg h, if_neg h']; exact hs a b

theorem potInj_init (n : ℕ) (kT : ℝ) : PotInj (World.init n kT) := by
  intro a b c d r h; simp [World.init, SysH.init] at h

theorem potInj_step (w : World ℝ) (hw : WInv w) (hi : PotInj w) (op : SOp ℝ) : PotInj (w.step op).1 := by
  cases op with
  | setKT v => exact hi
  | setDom d => exact hi
  | setDens ts v => exact hi
  | setDiam ts v => exact hi
  | setOm i j O => exact hi
  | setClo i j C =>
    cases C with
    | none => exact hi
    | some C => obtain ⟨k, hc⟩ := C; exact hi
  | editPotSigma i j v =>
    simp only [World.step]
    split
    · exact hi
    · split
      · exact hi
      · exact hi
  | create =>
    simp only [World.step]
    split
    · exact hi
    · exact hi
  | setPot i j P =>
    cases P with
    | none =>
      intro a b c d r h1 h2
      simp only [World.step, setSym_apply] at h1 h2
      split at h1
      · cases h1
      · split at h2
        · cases h2
        · exact hi a b c d r h1 h2
    | some P =>
      intro a b c d r h1 h2
      simp only [World.step, Store.allocPot, setSym_apply] at h1 h2
      split at h1
      · rename_i hab
        cases h1
        split at h2
        · rename_i hcd
          rcases hab with ⟨rfl, rfl⟩ | ⟨rfl, rfl⟩ <;> rcases hcd with ⟨rfl, rfl⟩ | ⟨rfl, rfl⟩ <;> simp
        · have := hw.sysPot c d _ h2; omega
      · split at h2
        · cases h2; have := hw.sysPot a b _ h1; omega
        · exact hi a b c d r h1 h2

/-- **one operation on the object store means exactly the value-level operation** -/
theorem step_abs (w : World ℝ) (hw : WInv w) (hi : PotInj w) (hs : PotSymm w) (op : SOp ℝ) :
    absSys (w.step op).1.st (w.step op).1.sys = specStep (absSys w.st w.sys) op := by
  cases op with
  | setKT v => rfl
  | setDom d => rfl
  | setDens ts v => rfl
  | setDiam ts v => rfl
  | setOm i j O => rfl
  | create => exact (create_does_not_write_system w hw).2
  | setPot i j P =>
    cases P with
    | none =>
      simp only [World.step, specStep, absSys]
      congr 1
      funext a b
      simp only [setSym_apply]
      split <;> rfl
    | some P =>
      simp only [World.step, Store.allocPot, specStep, absSys]
      congr 1
      · funext a b
        simp only [setSym_apply]
        split
        · simp [upd]
        · cases h : w.sys.potR a b with
          | none => rfl
          | some r =>
            have := hw.sysPot a b r h
            have hne : r ≠ w.st.next := by omega
            simp [Option.bind, upd, hne]
  | setClo i j C =>
    cases C with
    | none =>
      simp only [World.step, specStep, absSys]
      congr 1
      funext a b
      simp only [setSym_apply]
      split <;> rfl
    | some C =>
      obtain ⟨k, hc⟩ := C
      simp only [World.step, Store.allocClo, specStep, absSys]
      congr 1
      funext a b
      simp only [setSym_apply]
      split
      · simp [upd]
      · cases h : w.sys.cloR a b with
        | none => rfl
        | some r =>
          have := hw.sysClo a b r h
          have hne : r ≠ w.st.next := by omega
          simp [Option.bind, upd, hne]
  | editPotSigma i j v =>
    simp only [World.step, specStep]
    cases hr : w.sys.potR i j with
    | none => simp [absSys, hr]
    | some r =>
      simp only
      cases hP : w.st.pot r with
      | none => simp [absSys, hr, hP, Option.bind]
      | some P =>
        have habs : (absSys w.st w.sys).pot i j = some P := by simp [absSys, hr, hP, Option.bind]
        simp only [habs]
        simp only [absSys]
        congr 1
        funext a b
        simp only [setSym_apply]
        split
        · rename_i hab
          have : w.sys.potR a b = some r := by
            rcases hab with ⟨rfl, rfl⟩ | ⟨rfl, rfl⟩
            · exact hr
            · rw [hs a b]; exact hr
          simp [this, Option.bind, upd]
        · rename_i hab
          cases h : w.sys.potR a b with
          | none => rfl
          | some r' =>
            have hne : r' ≠ r := by
              intro e; subst e
              rcases hi a b i j r' h hr with ⟨rfl, rfl⟩ | ⟨rfl, rfl⟩
              · exact hab (Or.inl ⟨rfl, rfl⟩)
              · exact hab (Or.inr ⟨rfl, rfl⟩)
            simp [Option.bind, upd, hne]

/-- **sweeps**: for EVERY operation history on one System object, the System's meaning is the value-level specification
run on the same history (`create` is the identity there), so by `sweep_equals_fresh` the PRISM object created at any point
is `createPRISM` of a System that was simply *built* with the current parameters -/
theorem history_refines_spec (n : ℕ) (kT : ℝ) (ops : List (SOp ℝ)) :
    absSys ((World.init n kT).run ops).st ((World.init n kT).run ops).sys = ops.foldl specStep (Sys.init n kT) := by
  have key : ∀ (ops : List (SOp ℝ)) (w : World ℝ), WInv w → PotInj w → PotSymm w →
      absSys (w.run ops).st (w.run ops).sys = ops.foldl specStep (absSys w.st w.sys) := by
    intro ops
    induction ops with
    | nil => intro w _ _ _; rfl
    | cons op ops ih =>
      intro w hw hi hs
      simp only [World.run, List.foldl_cons]
      have := ih (w.step op).1 (step_isolated w hw op).1 (potInj_step w hw hi op) (potSymm_step w hs op)
      simp only [World.run] at this
      rw [this, step_abs w hw hi hs op]
  have h0 : absSys (World.init n kT : World ℝ).st (World.init n kT : World ℝ).sys = Sys.init n kT := by
    simp [absSys, World.init, SysH.init, Sys.init, Store.empty]
  rw [key ops _ (winv_init n kT) (potInj_init n kT) (potSymm_init n kT), h0]

/-! ## the private objects of a PRISM object carry exactly its value-level state, for ever -/

/-- the cells PRISM object `q` refers to are its own, and hold what its value-level state `q.core` (the state `cost` works
with) says: `U.sigma`, `closure.sigma`, `closure.potential`, closure class and flag -/
def CellsAgree (h : Store ℝ) (q : PrismH ℝ) : Prop :=
  ∀ i j, i ≤ j → j < q.core.n →
    q.potR i j ∈ q.owned ∧ q.cloR i j ∈ q.owned ∧
    (∃ P, h.pot (q.potR i j) = some P ∧ P.sigma = some (q.core.potSigma i j)) ∧
    (∃ C, h.clo (q.cloR i j) = some C ∧ C.sigma = some (q.core.cloSigma i j) ∧ C.potential = some (q.core.u i j) ∧
      (C.kind, C.hc) = q.core.cloK i j)

theorem eval_with_sigma (P : PotSpec ℝ) (x : Option ℝ) (σ r : ℝ) : PotSpec.eval { P with sigma := x } σ r = P.eval σ r := rfl

/-- the per-pair fields of the value-level state `createPRISM` returns (no symmetry hypothesis needed for these) -/
theorem createPRISM_fields (s : Sys ℝ) (p : Prism ℝ) (d : Dom ℝ) (hd : s.dom = some d) (h : s.createPRISM = .ok p) :
    p.n = s.n ∧ s.check = true ∧ ∀ i j, i ≤ j →
      p.cloSigma i j = (s.diam.sigma i j).getD 0 ∧
      p.cloK i j = (s.clo i j).getD (.py, false) ∧
      (∀ P, s.pot i j = some P →
        p.potSigma i j = (match P.sigma with | some v => v | none => (s.diam.sigma i j).getD 0) ∧
        p.u i j = tab d.length fun l => P.eval (p.potSigma i j) (d.r[l]!) / s.kT) := by
  unfold Sys.createPRISM at h
  split at h
  · rename_i hc
    rw [hd] at h
    simp only at h
    split at h
    · cases h
    · cases h
      refine ⟨rfl, hc, ?_⟩
      intro i j hij
      simp only [loI_of_le hij, hiI_of_le hij, Lit_ofNat, Nat.cast_zero, true_and]
      intro P hP
      simp [hP] <;> (cases P.sigma <;> simp)
  · cases h

/-- **an explicitly given σ is used as it is — also the value 0** (a core-less pair); only a potential without σ gets the mean of
the two site diameters.  (The implementation tests `U.sigma is None`; a truthiness test would treat 0 as "not given".) -/
theorem explicit_sigma_kept (s : Sys ℝ) (p : Prism ℝ) (d : Dom ℝ) (hd : s.dom = some d) (h : s.createPRISM = .ok p)
    (i j : ℕ) (hij : i ≤ j) (P : PotSpec ℝ) (hP : s.pot i j = some P) :
    (∀ v, P.sigma = some v → p.potSigma i j = v) ∧ (P.sigma = none → p.potSigma i j = (s.diam.sigma i j).getD 0) := by
  obtain ⟨_, _, hf⟩ := createPRISM_fields s p d hd h
  obtain ⟨g1, _⟩ := (hf i j hij).2.2 P hP
  constructor
  · intro v hv; rw [g1, hv]
  · intro hn; rw [g1, hn]

/-- **a non-additive contact distance written into the sigma table is what the PRISM object uses**: after
`sys.diameter.sigma[i,j] = v` the closure of that pair gets `v` as its core edge, a potential without its own σ is evaluated with
`v`, and every other pair keeps the value it had -/
theorem sigma_table_override_used (s : Sys ℝ) (p : Prism ℝ) (d : Dom ℝ) (i j : ℕ) (hij : i ≤ j) (v : ℝ)
    (hd : s.dom = some d) (h : ({ s with diam := s.diam.setSigma i j v } : Sys ℝ).createPRISM = .ok p) :
    p.cloSigma i j = v ∧
    (∀ P, s.pot i j = some P → P.sigma = none → p.potSigma i j = v) ∧
    (∀ a b, a ≤ b → ¬ ((a = i ∧ b = j) ∨ (a = j ∧ b = i)) → p.cloSigma a b = (s.diam.sigma a b).getD 0) := by
  obtain ⟨_, _, hf⟩ := createPRISM_fields _ p d (by exact hd) h
  refine ⟨?_, ?_, ?_⟩
  · rw [(hf i j hij).1]; simp [Diam.setSigma, setSym]
  · intro P hP hn
    obtain ⟨g1, _⟩ := (hf i j hij).2.2 P hP
    rw [g1, hn]; simp [Diam.setSigma, setSym]
  · intro a b hab hne
    rw [(hf a b hab).1]; simp [Diam.setSigma, setSym, hne]

/-- **`createPRISM` leaves, for every pair, private potential / closure objects that agree with the value-level state it
returns** (the object-level and the value-level descriptions of the same constructor coincide) -/
theorem create_cells_agree (w : World ℝ) (hw : WInv w) (core : Prism ℝ) (d : Dom ℝ)
    (hcore : (absSys w.st w.sys).createPRISM = .ok core) (hd : w.sys.dom = some d) :
    ∃ q, (w.step .create).1.prisms = w.prisms ++ [q] ∧ q.core = core ∧ CellsAgree (w.step .create).1.st q := by
  obtain ⟨hn, hchk, hf⟩ := createPRISM_fields (absSys w.st w.sys) core d hd hcore
  simp only [World.step, hcore, hd]
  refine ⟨_, rfl, rfl, ?_⟩
  intro i j hij hj
  have hj' : j < w.sys.n := by
    have e : core.n = w.sys.n := hn
    simpa [e] using hj
  unfold Sys.check at hchk
  simp only [Bool.and_eq_true] at hchk
  obtain ⟨⟨⟨⟨⟨_, hpot⟩, hclo⟩, _⟩, _⟩, _⟩ := hchk
  have hP := (tableFull_iff _ _).mp hpot i j (lt_of_le_of_lt hij hj') hj' hij
  have hC := (tableFull_iff _ _).mp hclo i j (lt_of_le_of_lt hij hj') hj' hij
  obtain ⟨P, hPe⟩ : ∃ P, (w.sys.potR i j).bind w.st.pot = some P := Option.ne_none_iff_exists'.mp hP
  obtain ⟨C, hCe⟩ : ∃ C, (w.sys.cloR i j).bind w.st.clo = some C := by
    cases e : (w.sys.cloR i j).bind w.st.clo with
    | none =>
      exfalso; apply hC
      show Option.map _ ((w.sys.cloR i j).bind w.st.clo) = none
      rw [e]; rfl
    | some C => exact ⟨C, rfl⟩
  obtain ⟨f1, f2, f3⟩ := hf i j hij
  obtain ⟨g1, g2⟩ := f3 P hPe
  obtain ⟨c1, c2, c3, c4⟩ := copyFold_cells w.sys d (upperPairs w.sys.n) ⟨w.st, fun _ _ => 0, fun _ _ => 0, []⟩
    (upperPairs_nodup _) (fun p hp => ((mem_upperPairs _ p.1 p.2).mp hp).1) hw.sysPot hw.sysClo (i, j)
    ((mem_upperPairs _ i j).mpr ⟨hij, hj'⟩)
  simp only at c1 c2 c3 c4
  have hsig : (potOf w.sys w.st i j).sigma = some (core.potSigma i j) := by
    simp only [potOf, hPe, Option.getD_some, Lit_ofNat, Nat.cast_zero]
    rw [g1]; simp only [absSys]
    cases P.sigma <;> rfl
  refine ⟨c3, c4, ⟨_, c1, hsig⟩, ⟨_, c2, ?_, ?_, ?_⟩⟩
  · simp only [cloOf, Lit_ofNat, Nat.cast_zero]
    rw [f1]; rfl
  · simp only [cloOf, hPe, Option.getD_some, Lit_ofNat, Nat.cast_zero]
    rw [g2, g1]
    simp only [absSys]
    congr 1
  · simp only [cloOf, hCe, Option.getD_some]
    rw [f2]
    show _ = (Option.map (fun c : CloObj ℝ => (c.kind, c.hc)) ((w.sys.cloR i j).bind w.st.clo)).getD (CKind.py, false)
    rw [hCe]; rfl

/-- one operation keeps the agreement for every PRISM object that exists, and establishes it for a new one -/
theorem prisms_agree_step (w : World ℝ) (hw : WInv w) (ha : ∀ q ∈ w.prisms, CellsAgree w.st q) (op : SOp ℝ) :
    ∀ q ∈ (w.step op).1.prisms, CellsAgree (w.step op).1.st q := by
  obtain ⟨_, _, h3⟩ := step_isolated w hw op
  have keep : ∀ q ∈ w.prisms, CellsAgree (w.step op).1.st q := by
    intro q hq i j hij hj
    obtain ⟨a1, a2, ⟨P, a3, a4⟩, ⟨C, a5, a6⟩⟩ := ha q hq i j hij hj
    refine ⟨a1, a2, ⟨P, ?_, a4⟩, ⟨C, ?_, a6⟩⟩
    · rw [(h3 q hq _ a1).1]; exact a3
    · rw [(h3 q hq _ a2).2]; exact a5
  have same : (w.step op).1.prisms = w.prisms → ∀ q ∈ (w.step op).1.prisms, CellsAgree (w.step op).1.st q := by
    intro e q hq; rw [e] at hq; exact keep q hq
  cases op with
  | setKT v => exact same rfl
  | setDom d => exact same rfl
  | setDens ts v => exact same rfl
  | setDiam ts v => exact same rfl
  | setOm i j O => exact same rfl
  | setPot i j P => cases P <;> exact same rfl
  | setClo i j C =>
    cases C with
    | none => exact same rfl
    | some C => obtain ⟨k, hc⟩ := C; exact same rfl
  | editPotSigma i j v =>
    apply same
    simp only [World.step]
    split
    · rfl
    · split <;> rfl
  | create =>
    cases hcore : (absSys w.st w.sys).createPRISM with
    | error e => apply same; simp only [World.step, hcore]
    | ok core =>
      cases hd : w.sys.dom with
      | none => apply same; simp only [World.step, hcore, hd]
      | some d =>
        obtain ⟨q0, e1, _, e3⟩ := create_cells_agree w hw core d hcore hd
        intro q hq
        rw [e1] at hq
        rcases List.mem_append.mp hq with hq' | hq'
        · exact keep q hq'
        · rw [List.mem_singleton.mp hq']; exact e3

/-- **every PRISM object, at every moment of every history, holds in its private objects exactly what its value-level state
says** — so what an existing PRISM object computes (its `cost` uses `closure.sigma`, `closure.potential`, `U.sigma` of these
objects) can never change through later operations on the System -/
theorem prism_objects_always_agree (n : ℕ) (kT : ℝ) (ops : List (SOp ℝ)) :
    ∀ q ∈ ((World.init n kT).run ops).prisms, CellsAgree ((World.init n kT).run ops).st q := by
  have gen : ∀ (ops : List (SOp ℝ)) (w : World ℝ), WInv w → (∀ q ∈ w.prisms, CellsAgree w.st q) →
      ∀ q ∈ (w.run ops).prisms, CellsAgree (w.run ops).st q := by
    intro ops
    induction ops with
    | nil => intro w _ ha; exact ha
    | cons op ops ih =>
      intro w hw ha
      exact ih (w.step op).1 (step_isolated w hw op).1 (prisms_agree_step w hw ha op)
  exact gen ops _ (winv_init n kT) (fun q hq => by simp [World.init] at hq)

/-- a complete one-component System whose potential and closure objects are cells 0 and 1 -/
noncomputable def exWorld : World ℝ :=
  ⟨⟨2, upd (fun _ => none) 0 (some ⟨.hs, #[1000000], none⟩), upd (fun _ => none) 1 (some ⟨.py, true, none, none⟩)⟩,
   ⟨1, 1, some ⟨2, 1, 1⟩, ⟨1, fun _ => some 1, 1, fun _ _ => 1, fun _ _ => 1⟩, ⟨1, fun _ => some 1, fun _ => some 1, fun _ _ => some 1⟩,
    fun _ _ => some 0, fun _ _ => some 1, fun _ _ => some ⟨.single, 1, #[]⟩⟩, []⟩

/-- non-vacuity: the premises of `create_cells_agree` are satisfiable, so a PRISM object that `CellsAgree` speaks about exists -/
example : ∃ q, (exWorld.step .create).1.prisms = [q] ∧ CellsAgree (exWorld.step .create).1.st q := by
  have hw : WInv exWorld := by
    refine ⟨?_, ?_, ?_⟩
    · intro i j r h; simp [exWorld] at h; subst h; simp [exWorld]
    · intro i j r h; simp [exWorld] at h; subst h; simp [exWorld]
    · intro q hq; simp [exWorld] at hq
  have hc : (absSys exWorld.st exWorld.sys).check = true := by
    rw [check_iff_complete]
    simp [absSys, exWorld, upd]
  obtain ⟨core, hcore⟩ := (createPRISM_error_iff _).2 hc
  obtain ⟨q, e1, _, e3⟩ := create_cells_agree exWorld hw core ⟨2, 1, 1⟩ hcore rfl
  exact ⟨q, by simpa [exWorld] using e1, e3⟩

/-- negation witness for the aliased variant (iterating the caller's `sys.potential` in `PRISM.__init__`):
it changes the System's own potential object -/
theorem aliased_create_changes_system :
    let w0 : World ℝ := ((World.init 1 1).run [.setDiam [0] 1, .setPot 0 0 (some ⟨.hs, #[1000000], none⟩)])
    absSys (World.createAliased w0).st (World.createAliased w0).sys ≠ absSys w0.st w0.sys := by
  intro w0 h
  have h2 := congrArg (fun s => (s.pot 0 0).map (·.sigma)) h
  simp [w0, World.run, World.step, World.createAliased, absSys, World.init, SysH.init, Store.empty, Store.allocPot,
    upperPairs, setSym, upd] at h2

end C16
