import Proofs.RealInst
/-!
# C17 — UnitConverter conversions agree with SI constants and dimensional analysis

Formula level (`Model/UnitConv.lean`); pint's unit algebra and registry are in the trusted base and are
compared numerically with these formulas on every run.
-/
open Real

namespace C17

theorem kelvin_formula (ecJ kB T : ℝ) : ucKelvin ecJ kB T = T * ecJ / kB := rfl

/-- `toKelvin` is linear in its argument -/
theorem kelvin_linear (ecJ kB a x y : ℝ) : ucKelvin ecJ kB (a * x + y) = a * ucKelvin ecJ kB x + ucKelvin ecJ kB y := by
  unfold ucKelvin; ring

/-- `T[°C] = T[K] − 273.15`, affine -/
theorem celsius_offset (ecJ kB T : ℝ) : ucCelsius ecJ kB T = ucKelvin ecJ kB T - 273.15 := by
  unfold ucCelsius; simp; norm_num

theorem celsius_affine (ecJ kB a x y : ℝ) :
    ucCelsius ecJ kB (a * x + (1 - a) * y) = a * ucCelsius ecJ kB x + (1 - a) * ucCelsius ecJ kB y := by
  unfold ucCelsius ucKelvin; ring

/-- `k[1/nm] = 10 · k[1/Å]` -/
theorem inv_nanometer_is_ten_inv_angstrom (dcM k : ℝ) (h : dcM ≠ 0) : ucInvNanometer dcM k = 10 * ucInvAngstrom dcM k := by
  unfold ucInvNanometer ucInvAngstrom
  simp only [Lit_ofNat]; push_cast; field_simp; ring

/-- `k[1/Å] = k* / d_c[Å]`, linear -/
theorem inv_angstrom_formula (dcM k : ℝ) : ucInvAngstrom dcM k = k / (dcM * 1e10) := by
  unfold ucInvAngstrom; simp only [Lit_ofNat]; push_cast; norm_num

theorem inv_angstrom_linear (dcM a x y : ℝ) : ucInvAngstrom dcM (a * x + y) = a * ucInvAngstrom dcM x + ucInvAngstrom dcM y := by
  unfold ucInvAngstrom; ring

/-- `c[mol/L] = rho* / (d_c^3 N_A)` with `d_c` in decimetres, linear -/
theorem concentration_formula (dcM NA rho : ℝ) : ucConcentration dcM NA rho = rho / ((dcM * 10) ^ 3 * NA) := by
  unfold ucConcentration; simp

theorem concentration_linear (dcM NA a x y : ℝ) :
    ucConcentration dcM NA (a * x + y) = a * ucConcentration dcM NA x + ucConcentration dcM NA y := by
  unfold ucConcentration; ring

/-- `phi = rho* · (4/3) pi (d/2)^3 = rho* pi d^3 / 6`, linear in `rho*` -/
theorem volume_fraction_formula (rho d : ℝ) : ucVolumeFraction rho d = rho * π * d ^ 3 / 6 := by
  unfold ucVolumeFraction; simp; ring

theorem volume_fraction_linear (a x y d : ℝ) :
    ucVolumeFraction (a * x + y) d = a * ucVolumeFraction x d + ucVolumeFraction y d := by
  unfold ucVolumeFraction; ring

/-- arrays are converted element by element -/
theorem elementwise (f : ℝ → ℝ) (x : Array ℝ) (i : ℕ) (hi : i < x.size) : (x.map f)[i]! = f x[i]! := by
  simp [hi]

example : ucInvNanometer (1e-9 : ℝ) 1 = 1 := by
  unfold ucInvNanometer; simp only [Lit_ofNat]; push_cast; norm_num

end C17
