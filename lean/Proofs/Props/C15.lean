import Proofs.Lemmas.RowFold
/-!
# C15 — Density and Diameter keep derived quantities consistent under any history

Model: `Model/Density.lean` (loop-for-loop transcription of `Density.__setitem__`,
`Diameter.__setitem__`, `check`).  All theorems are about the model at `α := ℝ` and
quantify over **every** finite sequence of assignments (single types or lists, any order,
re-assignment included) — induction over the operation list, no bound.
-/
open Finset

namespace C15

/-! ## helper facts about the transcribed loops (not property theorems: `lemma`) -/

lemma dens_inner_rho (t1 : ℕ) (v : ℝ) (e : Dens ℝ) (t2 : ℕ) :
    (Dens.inner t1 v e t2).rho = e.rho ∧ (Dens.inner t1 v e t2).n = e.n := by
  unfold Dens.inner; split <;> simp


lemma dens_inner_pair (t1 : ℕ) (v : ℝ) (e : Dens ℝ) (k : ℕ) :
    (Dens.inner t1 v e k).pair = (match e.rho k with | none => e.pair | some r2 => setSym e.pair t1 k (v * r2)) := by
  unfold Dens.inner; cases e.rho k <;> rfl

lemma dens_inner_site (t1 : ℕ) (v : ℝ) (e : Dens ℝ) (k : ℕ) :
    (Dens.inner t1 v e k).site =
      (match e.rho k with | none => e.site | some r2 => setSym e.site t1 k (if t1 = k then v else v + r2)) := by
  unfold Dens.inner; cases e.rho k <;> rfl

lemma dens_inner_total (t1 : ℕ) (v : ℝ) (e : Dens ℝ) (k : ℕ) :
    (Dens.inner t1 v e k).total = e.total + (e.rho k).getD 0 := by
  unfold Dens.inner; cases e.rho k <;> simp

lemma dens_fold_rho (t1 : ℕ) (v : ℝ) (l : List ℕ) (e : Dens ℝ) :
    (l.foldl (Dens.inner t1 v) e).rho = e.rho ∧ (l.foldl (Dens.inner t1 v) e).n = e.n := by
  induction l generalizing e with
  | nil => simp
  | cons x xs ih =>
    simp only [List.foldl_cons]
    rw [(ih _).1, (ih _).2]; exact dens_inner_rho t1 v e x

lemma dens_fold_pair (t1 : ℕ) (v : ℝ) (e : Dens ℝ) (k : ℕ) :
    ((List.range k).foldl (Dens.inner t1 v) e).pair =
      rowFold (fun t2 => (e.rho t2).map (v * ·)) t1 e.pair k := by
  induction k with
  | zero => simp [rowFold]
  | succ k ih =>
    rw [rowFold_succ, List.range_succ, List.foldl_append]
    simp only [List.foldl_cons, List.foldl_nil]
    have hr := (dens_fold_rho t1 v (List.range k) e).1
    rw [dens_inner_pair, hr, ih]
    cases h : e.rho k <;> simp

lemma dens_fold_site (t1 : ℕ) (v : ℝ) (e : Dens ℝ) (k : ℕ) :
    ((List.range k).foldl (Dens.inner t1 v) e).site =
      rowFold (fun t2 => (e.rho t2).map (fun r2 => if t1 = t2 then v else v + r2)) t1 e.site k := by
  induction k with
  | zero => simp [rowFold]
  | succ k ih =>
    rw [rowFold_succ, List.range_succ, List.foldl_append]
    simp only [List.foldl_cons, List.foldl_nil]
    have hr := (dens_fold_rho t1 v (List.range k) e).1
    rw [dens_inner_site, hr, ih]
    cases h : e.rho k <;> simp

lemma dens_fold_total (t1 : ℕ) (v : ℝ) (e : Dens ℝ) (k : ℕ) :
    ((List.range k).foldl (Dens.inner t1 v) e).total = e.total + ∑ t ∈ range k, (e.rho t).getD 0 := by
  induction k with
  | zero => simp
  | succ k ih =>
    rw [List.range_succ, List.foldl_append, Finset.sum_range_succ]
    simp only [List.foldl_cons, List.foldl_nil]
    have hr := (dens_fold_rho t1 v (List.range k) e).1
    rw [dens_inner_total, hr, ih]; ring

/-- The consistency invariant of a `Density` object. -/
structure DInv (d : Dens ℝ) : Prop where
  pair_ok : ∀ a b x y, a < d.n → b < d.n → d.rho a = some x → d.rho b = some y → d.pair a b = x * y
  site_ok : ∀ a b x y, a < d.n → b < d.n → d.rho a = some x → d.rho b = some y →
      d.site a b = if a = b then x else x + y
  total_ok : d.total = ∑ t ∈ range d.n, (d.rho t).getD 0
  untouched : ∀ a b, (d.rho a = none ∨ d.rho b = none) → d.pair a b = 0 ∧ d.site a b = 0

/-! ## property theorems -/

/-- the value table behaves as a map: one assignment changes exactly the assigned type -/
theorem density_setOne_rho (d : Dens ℝ) (t1 : ℕ) (v : ℝ) :
    (d.setOne t1 v).rho = upd d.rho t1 (some v) ∧ (d.setOne t1 v).n = d.n := by
  unfold Dens.setOne
  exact dens_fold_rho t1 v _ _

/-- one assignment step preserves the invariant -/
theorem density_setOne_inv (d : Dens ℝ) (h : DInv d) (t1 : ℕ) (ht : t1 < d.n) (v : ℝ) :
    DInv (d.setOne t1 v) := by
  have hrho := (density_setOne_rho d t1 v).1
  have hn := (density_setOne_rho d t1 v).2
  have hpair : (d.setOne t1 v).pair = rowFold (fun t2 => ((upd d.rho t1 (some v)) t2).map (v * ·)) t1 d.pair d.n := by
    unfold Dens.setOne; rw [dens_fold_pair]
  have hsite : (d.setOne t1 v).site =
      rowFold (fun t2 => ((upd d.rho t1 (some v)) t2).map (fun r2 => if t1 = t2 then v else v + r2)) t1 d.site d.n := by
    unfold Dens.setOne; rw [dens_fold_site]
  have htot : (d.setOne t1 v).total = ∑ t ∈ range d.n, ((upd d.rho t1 (some v)) t).getD 0 := by
    unfold Dens.setOne; rw [dens_fold_total]; simp
  refine ⟨?_, ?_, ?_, ?_⟩
  · intro a b x y ha hb hx hy
    rw [hn] at ha hb
    rw [hrho] at hx hy
    rw [hpair, rowFold_apply]
    unfold upd at hx hy ⊢
    by_cases h1 : a = t1
    · subst h1; simp at hx; subst hx
      simp [hb, hy]
    · simp only [h1, if_false] at hx
      by_cases h2 : b = t1
      · subst h2; simp at hy; subst hy
        simp [h1, ha, hx]; ring
      · simp only [h2, if_false] at hy
        simp only [h1, h2, false_and, if_false]
        exact h.pair_ok a b x y ha hb hx hy
  · intro a b x y ha hb hx hy
    rw [hn] at ha hb
    rw [hrho] at hx hy
    rw [hsite, rowFold_apply]
    unfold upd at hx hy ⊢
    by_cases h1 : a = t1
    · subst h1; simp at hx; subst hx
      simp [hb, hy]
    · simp only [h1, if_false] at hx
      by_cases h2 : b = t1
      · subst h2; simp at hy; subst hy
        simp [h1, ha, hx]
        have : ¬ b = a := fun e => h1 e.symm
        simp [this]; ring
      · simp only [h2, if_false] at hy
        simp only [h1, h2, false_and, if_false]
        exact h.site_ok a b x y ha hb hx hy
  · rw [htot, hn, hrho]
  · intro a b hab
    rw [hrho] at hab
    rw [hpair, hsite, rowFold_apply, rowFold_apply]
    unfold upd at hab ⊢
    have hold : d.rho a = none ∨ d.rho b = none := by
      rcases hab with h' | h'
      · left; by_cases e : a = t1 <;> simp [e] at h'; exact h'
      · right; by_cases e : b = t1 <;> simp [e] at h'; exact h'
    have := h.untouched a b hold
    rcases hab with h' | h'
    · have e : a ≠ t1 := by intro e; simp [e] at h'
      simp only [e, if_false] at h'
      simp [e, h', this]
    · have e : b ≠ t1 := by intro e; simp [e] at h'
      simp only [e, if_false] at h'
      simp [e, h', this]

theorem density_init_inv (n : ℕ) : DInv (Dens.init n : Dens ℝ) := by
  refine ⟨?_, ?_, ?_, ?_⟩ <;> simp [Dens.init]

/-- `density[list] = v` preserves the invariant and never changes the type list -/
theorem density_set_inv (d : Dens ℝ) (h : DInv d) (ts : List ℕ) (hts : ∀ t ∈ ts, t < d.n) (v : ℝ) :
    DInv (d.set ts v) ∧ (d.set ts v).n = d.n := by
  unfold Dens.set
  induction ts generalizing d with
  | nil => exact ⟨h, rfl⟩
  | cons t ts ih =>
    simp only [List.foldl_cons]
    have ht : t < d.n := hts t (by simp)
    have hn := (density_setOne_rho d t v).2
    have := ih (d.setOne t v) (density_setOne_inv d h t ht v) (by intro t' h'; rw [hn]; exact hts t' (by simp [h']))
    exact ⟨this.1, by rw [this.2, hn]⟩

/-- **C15 (Density)**: after *any* sequence of assignments (single types or lists, any order,
re-assignment included) the pair density is `ρ_a ρ_b`, the site density is `ρ_a` on the
diagonal and `ρ_a+ρ_b` off it, `total` is the sum of all assigned densities, and entries
of unassigned types are untouched. -/
theorem density_inv (n : ℕ) (ops : List (List ℕ × ℝ)) (hops : ∀ op ∈ ops, ∀ t ∈ op.1, t < n) :
    DInv (ops.foldl (fun d op => d.set op.1 op.2) (Dens.init n)) ∧
    (ops.foldl (fun d op => d.set op.1 op.2) (Dens.init n : Dens ℝ)).n = n := by
  suffices H : ∀ d : Dens ℝ, DInv d → d.n = n →
      DInv (ops.foldl (fun d op => d.set op.1 op.2) d) ∧ (ops.foldl (fun d op => d.set op.1 op.2) d).n = n from
    H _ (density_init_inv n) rfl
  induction ops with
  | nil => intro d h hn; exact ⟨h, hn⟩
  | cons op ops ih =>
    intro d h hn
    simp only [List.foldl_cons]
    have := density_set_inv d h op.1 (by intro t ht; rw [hn]; exact hops op (by simp) t ht) op.2
    exact ih (fun op' h' => hops op' (by simp [h'])) _ this.1 (by rw [this.2, hn])

/-- a list assignment assigns exactly the listed types (nothing is stale, nothing else moves) -/
theorem density_set_rho (d : Dens ℝ) (ts : List ℕ) (v : ℝ) (t : ℕ) :
    (d.set ts v).rho t = if t ∈ ts then some v else d.rho t := by
  unfold Dens.set
  induction ts generalizing d with
  | nil => simp
  | cons s ts ih =>
    simp only [List.foldl_cons]
    rw [ih, (density_setOne_rho d s v).1]
    unfold upd
    by_cases h1 : t ∈ ts
    · simp [h1]
    · by_cases h2 : t = s <;> simp [h1, h2]

/-- `check()` raises exactly while some type is unassigned -/
theorem density_check_iff (d : Dens ℝ) : d.check = true ↔ ∀ t, t < d.n → d.rho t ≠ none := by
  unfold Dens.check
  simp only [List.all_eq_true, List.mem_range]
  constructor
  · intro h t ht e; have := h t ht; simp [e] at this
  · intro h t ht; cases e : d.rho t with
    | none => exact absurd e (h t ht)
    | some _ => rfl

/-! ### Diameter -/

lemma diam_inner_diam (t1 : ℕ) (v : ℝ) (e : Diam ℝ) (t2 : ℕ) :
    (Diam.inner t1 v e t2).diam = e.diam ∧ (Diam.inner t1 v e t2).n = e.n ∧
    (Diam.inner t1 v e t2).volume = e.volume := by
  unfold Diam.inner; split <;> simp

lemma diam_inner_sigma (t1 : ℕ) (v : ℝ) (e : Diam ℝ) (k : ℕ) :
    (Diam.inner t1 v e k).sigma =
      (match e.diam k with | none => e.sigma | some d2 => setSym e.sigma t1 k (some ((v + d2) / 2))) := by
  unfold Diam.inner; cases e.diam k <;> simp

lemma diam_fold_diam (t1 : ℕ) (v : ℝ) (l : List ℕ) (e : Diam ℝ) :
    (l.foldl (Diam.inner t1 v) e).diam = e.diam ∧ (l.foldl (Diam.inner t1 v) e).n = e.n ∧
    (l.foldl (Diam.inner t1 v) e).volume = e.volume := by
  induction l generalizing e with
  | nil => simp
  | cons x xs ih =>
    simp only [List.foldl_cons]
    rw [(ih _).1, (ih _).2.1, (ih _).2.2]; exact diam_inner_diam t1 v e x

lemma diam_fold_sigma (t1 : ℕ) (v : ℝ) (e : Diam ℝ) (k : ℕ) :
    ((List.range k).foldl (Diam.inner t1 v) e).sigma =
      rowFold (fun t2 => (e.diam t2).map (fun d2 => some ((v + d2) / 2))) t1 e.sigma k := by
  induction k with
  | zero => simp [rowFold]
  | succ k ih =>
    rw [rowFold_succ, List.range_succ, List.foldl_append]
    simp only [List.foldl_cons, List.foldl_nil]
    have hr := (diam_fold_diam t1 v (List.range k) e).1
    rw [diam_inner_sigma, hr, ih]
    cases h : e.diam k <;> simp

structure SInv (d : Diam ℝ) : Prop where
  sigma_ok : ∀ a b x y, a < d.n → b < d.n → d.diam a = some x → d.diam b = some y →
      d.sigma a b = some ((x + y) / 2)
  volume_ok : ∀ a x, d.diam a = some x → d.volume a = some (Real.pi * x ^ 3 / 6)
  untouched : ∀ a b, (d.diam a = none ∨ d.diam b = none) → d.sigma a b = none
  vol_untouched : ∀ a, d.diam a = none → d.volume a = none

/-- the shipped `(4/3)·π·(d/2)³` is the sphere volume `π d³/6` -/
theorem sphereVol_eq (d : ℝ) : sphereVol d = Real.pi * d ^ 3 / 6 := by
  simp [sphereVol]; ring

theorem diameter_setOne_diam (d : Diam ℝ) (t1 : ℕ) (v : ℝ) :
    (d.setOne t1 v).diam = upd d.diam t1 (some v) ∧ (d.setOne t1 v).n = d.n ∧
    (d.setOne t1 v).volume = upd d.volume t1 (some (sphereVol v)) := by
  unfold Diam.setOne
  exact diam_fold_diam t1 v _ _

theorem diameter_setOne_inv (d : Diam ℝ) (h : SInv d) (t1 : ℕ) (ht : t1 < d.n) (v : ℝ) :
    SInv (d.setOne t1 v) := by
  obtain ⟨hd, hn, hv⟩ := diameter_setOne_diam d t1 v
  have hs : (d.setOne t1 v).sigma =
      rowFold (fun t2 => ((upd d.diam t1 (some v)) t2).map (fun d2 => some ((v + d2) / 2))) t1 d.sigma d.n := by
    unfold Diam.setOne; rw [diam_fold_sigma]
  refine ⟨?_, ?_, ?_, ?_⟩
  · intro a b x y ha hb hx hy
    rw [hn] at ha hb
    rw [hd] at hx hy
    rw [hs, rowFold_apply]
    unfold upd at hx hy ⊢
    by_cases h1 : a = t1
    · subst h1; simp at hx; subst hx
      simp [hb, hy]
    · simp only [h1, if_false] at hx
      by_cases h2 : b = t1
      · subst h2; simp at hy; subst hy
        simp [h1, ha, hx]; ring
      · simp only [h2, if_false] at hy
        simp only [h1, h2, false_and, if_false]
        exact h.sigma_ok a b x y ha hb hx hy
  · intro a x hx
    rw [hd] at hx; rw [hv]
    unfold upd at hx ⊢
    by_cases h1 : a = t1
    · subst h1; simp at hx; subst hx; simp [sphereVol_eq]
    · simp only [h1, if_false] at hx ⊢; exact h.volume_ok a x hx
  · intro a b hab
    rw [hd] at hab
    rw [hs, rowFold_apply]
    unfold upd at hab ⊢
    have hold : d.diam a = none ∨ d.diam b = none := by
      rcases hab with h' | h'
      · left; by_cases e : a = t1 <;> simp [e] at h'; exact h'
      · right; by_cases e : b = t1 <;> simp [e] at h'; exact h'
    have := h.untouched a b hold
    rcases hab with h' | h'
    · have e : a ≠ t1 := by intro e; simp [e] at h'
      simp only [e, if_false] at h'
      simp [e, h', this]
    · have e : b ≠ t1 := by intro e; simp [e] at h'
      simp only [e, if_false] at h'
      simp [e, h', this]
  · intro a ha
    rw [hd] at ha; rw [hv]
    unfold upd at ha ⊢
    have e : a ≠ t1 := by intro e; simp [e] at ha
    simp only [e, if_false] at ha ⊢
    exact h.vol_untouched a ha

theorem diameter_init_inv (n : ℕ) : SInv (Diam.init n : Diam ℝ) := by
  refine ⟨?_, ?_, ?_, ?_⟩ <;> simp [Diam.init]

theorem diameter_set_inv (d : Diam ℝ) (h : SInv d) (ts : List ℕ) (hts : ∀ t ∈ ts, t < d.n) (v : ℝ) :
    SInv (d.set ts v) ∧ (d.set ts v).n = d.n := by
  unfold Diam.set
  induction ts generalizing d with
  | nil => exact ⟨h, rfl⟩
  | cons t ts ih =>
    simp only [List.foldl_cons]
    have ht : t < d.n := hts t (by simp)
    have hn := (diameter_setOne_diam d t v).2.1
    have := ih (d.setOne t v) (diameter_setOne_inv d h t ht v) (by intro t' h'; rw [hn]; exact hts t' (by simp [h']))
    exact ⟨this.1, by rw [this.2, hn]⟩

/-- **C15 (Diameter)**: after any assignment history `σ_ab = (d_a+d_b)/2` for every pair of
assigned types (from either order), the site volume is `π d³/6`, and nothing is stale. -/
theorem diameter_inv (n : ℕ) (ops : List (List ℕ × ℝ)) (hops : ∀ op ∈ ops, ∀ t ∈ op.1, t < n) :
    SInv (ops.foldl (fun d op => d.set op.1 op.2) (Diam.init n)) := by
  suffices H : ∀ d : Diam ℝ, SInv d → d.n = n →
      SInv (ops.foldl (fun d op => d.set op.1 op.2) d) from H _ (diameter_init_inv n) rfl
  induction ops with
  | nil => intro d h _; exact h
  | cons op ops ih =>
    intro d h hn
    simp only [List.foldl_cons]
    have := diameter_set_inv d h op.1 (by intro t ht; rw [hn]; exact hops op (by simp) t ht) op.2
    exact ih (fun op' h' => hops op' (by simp [h'])) _ this.1 (by rw [this.2, hn])

theorem diameter_set_diam (d : Diam ℝ) (ts : List ℕ) (v : ℝ) (t : ℕ) :
    (d.set ts v).diam t = if t ∈ ts then some v else d.diam t := by
  unfold Diam.set
  induction ts generalizing d with
  | nil => simp
  | cons s ts ih =>
    simp only [List.foldl_cons]
    rw [ih, (diameter_setOne_diam d s v).1]
    unfold upd
    by_cases h1 : t ∈ ts
    · simp [h1]
    · by_cases h2 : t = s <;> simp [h1, h2]

theorem diameter_check_iff (d : Diam ℝ) : d.check = true ↔ ∀ t, t < d.n → d.diam t ≠ none := by
  unfold Diam.check
  simp only [List.all_eq_true, List.mem_range]
  constructor
  · intro h t ht e; have := h t ht; simp [e] at this
  · intro h t ht; cases e : d.diam t with
    | none => exact absurd e (h t ht)
    | some _ => rfl

/-! ### non-vacuity: a concrete 3-type history with a re-assignment and a list assignment -/
example : ∀ op ∈ [([0], (0.5:ℝ)), ([1, 2], 0.25), ([0], 0.75)], ∀ t ∈ op.1, t < 3 := by
  intro op h t ht; simp at h; rcases h with rfl | rfl | rfl <;> simp at ht <;> omega

example : ((Dens.init 3 : Dens ℝ).set [0, 1] 2).rho 1 = some 2 := by
  rw [density_set_rho]; simp

/-! ### a contact distance written straight into the sigma table (non-additive mixtures) -/

/-- `diameter.sigma[i,j] = v` is read back from both orders … -/
theorem setSigma_read (d : Diam ℝ) (i j : ℕ) (v : ℝ) :
    (d.setSigma i j v).sigma i j = some v ∧ (d.setSigma i j v).sigma j i = some v := by
  simp [Diam.setSigma, setSym]

/-- … touches no other pair, no diameter and no volume … -/
theorem setSigma_frame (d : Diam ℝ) (i j a b : ℕ) (v : ℝ) (h : ¬ ((a = i ∧ b = j) ∨ (a = j ∧ b = i))) :
    (d.setSigma i j v).sigma a b = d.sigma a b ∧ (d.setSigma i j v).diam = d.diam ∧ (d.setSigma i j v).volume = d.volume := by
  simp [Diam.setSigma, setSym, h]

/-- … and stays until one of the two diameters is assigned again, when the arithmetic mean comes back -/
theorem setSigma_overwritten_by_diameter (d : Diam ℝ) (i j : ℕ) (v w dj : ℝ) (hj : j < d.n)
    (hdj : d.diam j = some dj) (hne : i ≠ j) :
    ((d.setSigma i j v).setOne i w).sigma i j = some ((w + dj) / 2) := by
  have hs : ((d.setSigma i j v).setOne i w).sigma =
      rowFold (fun t2 => ((upd d.diam i (some w)) t2).map (fun d2 => some ((w + d2) / 2))) i (d.setSigma i j v).sigma d.n := by
    unfold Diam.setOne; rw [diam_fold_sigma]; rfl
  rw [hs, rowFold_apply]
  simp [upd, hne.symm, hj, hdj]

end C15
