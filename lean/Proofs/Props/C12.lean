import Proofs.RealInst
/-!
# C12 — Tabulated omega is used verbatim on a matching grid and rejected otherwise

Model: `Model/FromData.lean`.  "Rejected" = `Except.error`; "verbatim" = the very array that
was stored (`=` on `Array ℝ`, i.e. same length, same order, same values).
-/
namespace C12

/-- NumPy's closeness test, exactly: `|a-b| ≤ 1e-8 + 1e-5·|b|` -/
theorem isclose_iff (a b : ℝ) : iscloseS a b = true ↔ |a - b| ≤ 1 / 10 ^ 8 + 1 / 10 ^ 5 * |b| := by
  unfold iscloseS atolC rtolC
  simp only [Bool.and_eq_true, decide_eq_true_eq, dec_eq, absS_eq, not_lt, Nat.cast_one, beq_self_eq_true, and_true]

theorem allclose_iff (a b : Array ℝ) :
    allclose a b = true ↔ a.size = b.size ∧ ∀ i, i < a.size → |a[i]! - b[i]!| ≤ 1 / 10 ^ 8 + 1 / 10 ^ 5 * |b[i]!| := by
  unfold allclose
  simp only [Bool.and_eq_true, beq_iff_eq, List.all_eq_true, List.mem_range, isclose_iff]

/-- the same grid always matches itself -/
theorem allclose_refl (a : Array ℝ) : allclose a a = true := by
  rw [allclose_iff]; refine ⟨rfl, fun i _ => ?_⟩
  simp; positivity

/-- **array input**: evaluation succeeds exactly when the number of points matches and, if a k
column was given, it has the same length and is `allclose` to the domain's grid … -/
theorem fromArray_ok_iff (o : FromArr ℝ) (kd : Array ℝ) :
    (∃ v, o.calculate kd = .ok v) ↔
      o.value.size = kd.size ∧ ∀ ks, o.k = some ks → ks.size = kd.size ∧ allclose ks kd = true := by
  unfold FromArr.calculate
  by_cases h1 : o.value.size = kd.size
  · simp only [h1, ne_eq, not_true_eq_false, if_false, true_and]
    cases hk : o.k with
    | none => simp
    | some ks =>
      by_cases h2 : ks.size = kd.size
      · by_cases h3 : allclose ks kd = true <;> simp [h2, h3]
      · simp [h2]
  · simp [h1]

/-- … and then returns the stored values unchanged, in order -/
theorem fromArray_verbatim (o : FromArr ℝ) (kd v : Array ℝ) (h : o.calculate kd = .ok v) : v = o.value := by
  unfold FromArr.calculate at h
  split at h
  · cases h
  · split at h
    · cases h; rfl
    · split at h
      · cases h
      · split at h
        · cases h; rfl
        · cases h

/-- truncated / extended data are always rejected (no result from mismatched lengths) -/
theorem fromArray_wrong_length_rejected (o : FromArr ℝ) (kd : Array ℝ) (h : o.value.size ≠ kd.size) :
    o.calculate kd = .error .assertion := by
  unfold FromArr.calculate; simp [h]

/-- a k column differing in a single point beyond the tolerance is rejected -/
theorem fromArray_k_mismatch_rejected (o : FromArr ℝ) (kd ks : Array ℝ) (hk : o.k = some ks) (i : ℕ)
    (hi : i < ks.size) (hbad : 1 / 10 ^ 8 + 1 / 10 ^ 5 * |kd[i]!| < |ks[i]! - kd[i]!|) :
    ∃ e, o.calculate kd = .error e := by
  by_contra hne
  have hok : ∃ v, o.calculate kd = .ok v := by
    cases hc : o.calculate kd with
    | ok v => exact ⟨v, rfl⟩
    | error e => exact absurd ⟨e, hc⟩ hne
  have := ((fromArray_ok_iff o kd).mp hok).2 ks hk
  have := ((allclose_iff ks kd).mp this.2).2 i hi
  linarith

/-- **file input, two columns** (any number of rows, single-row files included) -/
theorem fromFile_twocol_ok_iff (rows : Array (Array ℝ)) (kd : Array ℝ) (hc : (rows[0]!).size ≥ 2) :
    (∃ v, fromFileCalc rows kd = .ok v) ↔
      rows.size = kd.size ∧ allclose (rows.map fun r => r[0]!) kd = true := by
  unfold fromFileCalc
  simp only [hc, if_true]
  by_cases h1 : rows.size = kd.size
  · by_cases h2 : allclose (rows.map fun r => r[0]!) kd = true <;> simp [h1, h2]
  · simp [h1]

theorem fromFile_verbatim (rows : Array (Array ℝ)) (kd v : Array ℝ) (h : fromFileCalc rows kd = .ok v) :
    v = if (rows[0]!).size ≥ 2 then rows.map (fun r => r[1]!) else rows.map (fun r => r[0]!) := by
  unfold fromFileCalc at h
  split at h
  · rename_i hc
    simp only [hc, if_true]
    split at h
    · cases h
    · split at h
      · cases h; rfl
      · cases h
  · rename_i hc
    simp only [hc, if_false]
    split at h
    · cases h
    · cases h; rfl

/-- a file (either layout) whose number of rows differs from the grid is rejected by `calculate` -/
theorem fromFile_wrong_length_rejected (rows : Array (Array ℝ)) (kd : Array ℝ) (h : rows.size ≠ kd.size) :
    fromFileCalc rows kd = .error .assertion := by
  unfold fromFileCalc; split <;> simp [h]

/-- negation witness for the as-shipped reader (finding F11, repaired by a `fix:` commit):
a single-row `(k, ω)` file was returned as the two-point "ω" `[k₀, ω₀]` -/
theorem shipped_single_row_accepted (k0 w0 : ℝ) (kd : Array ℝ) :
    fromFileCalcShipped #[#[k0, w0]] kd = .ok #[k0, w0] := by
  unfold fromFileCalcShipped; simp

/-! non-vacuity -/
example : ∃ v, (⟨#[1, 2], some #[0.5, 1.0]⟩ : FromArr ℝ).calculate #[0.5, 1.0] = .ok v := by
  rw [fromArray_ok_iff]
  refine ⟨rfl, ?_⟩
  intro ks hks; cases hks
  exact ⟨rfl, allclose_refl _⟩

end C12
