import Proofs.Lemmas.HeapFold
/-!
# C14 — PairTable and ValueTable behave as symmetric keyed maps with isolated values

`Model/Tables.lean` is a heap-level model (deepcopy = fresh cell, in-place change = write
through a reference, caller-held objects are cells too).  The main theorem is a
**refinement**: for every finite operation history the heap machine simulates the
abstract specification `Spec` — a plain symmetric map from (table, unordered pair) to
immutable values plus the list of the caller's objects — so that every read returns the last
value assigned to the unordered pair, from either order, and no in-place change of any
object (stored or caller-held) is visible anywhere else.
-/
open Classical

namespace C14
variable {V : Type}

/-- machine state: object store + tables, and the handles of the objects the caller created -/
structure M (V : Type) where
  s : TS V
  objs : List Nat

inductive Op (V : Type)
  | newObj (v : V)
  | mutObj (k : Nat) (g : V → V)
  | set (T : Nat) (ii jj : List Nat) (k : Nat)
  | setUnset (T : Nat) (k : Nat)
  | applyIn (T : Nat) (f : V → V)
  | applyOut (T : Nat) (f : V → V)
  | mutate (T i j : Nat) (g : V → V)

def step (m : M V) : Op V → M V
  | .newObj v => ⟨m.s.newObj v, m.objs ++ [m.s.next]⟩
  | .mutObj k g => match m.objs[k]? with | none => m | some c => ⟨m.s.mutRef c g, m.objs⟩
  | .set T ii jj k => match m.objs[k]? with | none => m | some c => ⟨m.s.setFrom T ii jj c, m.objs⟩
  | .setUnset T k => match m.objs[k]? with | none => m | some c => ⟨m.s.setUnsetFrom T c, m.objs⟩
  | .applyIn T f => ⟨m.s.applyIn T f, m.objs⟩
  | .applyOut T f => ⟨m.s.applyOut T f, m.objs⟩
  | .mutate T i j g => ⟨m.s.mutate T i j g, m.objs⟩

/-- the abstract specification: immutable values in a map keyed by table and pair -/
structure Spec (V : Type) where
  n : Nat
  ntab : Nat
  tab : Nat → Nat → Nat → Option V
  objs : List (Option V)

def specStep (a : Spec V) : Op V → Spec V
  | .newObj v => { a with objs := a.objs ++ [some v] }
  | .mutObj k g => { a with objs := a.objs.modify k (Option.map g) }
  | .set T ii jj k =>
    match a.objs[k]? with
    | some (some v) => { a with tab := fun T' x y =>
        if T' = T ∧ (∃ i ∈ ii, ∃ j ∈ jj, um i j x y) then some v else a.tab T' x y }
    | _ => a
  | .setUnset T k =>
    match a.objs[k]? with
    | some (some v) => { a with tab := fun T' x y =>
        if T' = T ∧ x < a.n ∧ y < a.n ∧ a.tab T x y = none then some v else a.tab T' x y }
    | _ => a
  | .applyIn T f => { a with tab := fun T' x y =>
        if T' = T ∧ x < a.n ∧ y < a.n then (a.tab T x y).map f else a.tab T' x y }
  | .applyOut T f => { a with ntab := a.ntab + 1, tab := fun T' x y =>
        if T' = a.ntab ∧ x < a.n ∧ y < a.n then (a.tab T x y).map f else a.tab T' x y }
  | .mutate T i j g => { a with tab := fun T' x y =>
        if (T' = T ∧ um i j x y) then (a.tab T' x y).map g else a.tab T' x y }

/-- abstraction map: what reads see -/
def abs (m : M V) : Spec V :=
  { n := m.s.n, ntab := m.s.ntab, tab := m.s.get, objs := m.objs.map m.s.cell }

structure MInv (m : M V) : Prop where
  inv : TInv m.s
  ext : ∀ c ∈ m.objs, m.s.ext c = true
  nodup : m.objs.Nodup

/-- table indices used by an operation exist -/
def Op.wf (m : M V) : Op V → Prop
  | .set T _ _ _ => T < m.s.ntab
  | .setUnset T _ => T < m.s.ntab
  | .applyIn T _ => T < m.s.ntab
  | .applyOut T _ => T < m.s.ntab
  | .mutate T _ _ _ => T < m.s.ntab
  | _ => True

/-! helper lemmas -/

lemma objs_frame (m : M V) (hm : MInv m) (s' : TS V) (f : Frame m.s s') : m.objs.map s'.cell = m.objs.map m.s.cell := by
  apply List.map_congr_left
  intro c hc
  exact f.cell c (hm.inv.extlt c (hm.ext c hc))

lemma minv_frame (m : M V) (hm : MInv m) (s' : TS V) (hi : TInv s') (f : Frame m.s s') : MInv ⟨s', m.objs⟩ :=
  ⟨hi, by intro c hc; show s'.ext c = true; rw [f.ext]; exact hm.ext c hc, hm.nodup⟩

lemma setUnset_eq (s : TS V) (T : Nat) (v : V) :
    s.setUnset T v = (iterpairs s.n false true).foldl
      (stepP T T (fun o => match o with | none => some v | some _ => none)) s := by
  unfold TS.setUnset
  congr 1; funext s' p; unfold stepP
  cases s'.get T p.1 p.2 <;> rfl

lemma applyIn_eq (s : TS V) (T : Nat) (f : V → V) :
    s.applyIn T f = (iterpairs s.n false true).foldl (stepP T T (Option.map f)) s := by
  unfold TS.applyIn
  congr 1; funext s' p; unfold stepP
  cases s'.get T p.1 p.2 <;> rfl

lemma applyOut_eq (s : TS V) (T : Nat) (f : V → V) :
    s.applyOut T f = (iterpairs s.n false true).foldl (stepP T s.ntab (Option.map f)) { s with ntab := s.ntab + 1 } := by
  unfold TS.applyOut
  congr 1; funext s' p; unfold stepP
  cases s'.get T p.1 p.2 <;> rfl

lemma map_modify_nodup (l : List Nat) (hl : l.Nodup) (k c : Nat) (hk : l[k]? = some c)
    (f : Nat → Option V) (g : V → V) :
    l.map (fun r => if r = c then (f r).map g else f r) = (l.map f).modify k (Option.map g) := by
  apply List.ext_getElem?
  intro i
  rw [List.getElem?_modify]
  simp only [List.getElem?_map]
  by_cases hik : k = i
  · subst hik; simp [hk]
  · simp only [hik, if_false]
    cases hi : l[i]? with
    | none => simp
    | some r =>
      have : r ≠ c := by
        intro e; subst e
        have h1 := List.getElem?_eq_some_iff.mp hk
        have h2 := List.getElem?_eq_some_iff.mp hi
        obtain ⟨hk', e1⟩ := h1; obtain ⟨hi', e2⟩ := h2
        exact hik ((List.Nodup.getElem_inj_iff hl).mp (e1.trans e2.symm))
      simp [this]

/-! ## property theorems -/

/-- **C14 refinement, one step**: every operation preserves the machine invariant and
commutes with the abstraction map. -/
theorem refine_step (m : M V) (hm : MInv m) (op : Op V) (hw : op.wf m) :
    MInv (step m op) ∧ abs (step m op) = specStep (abs m) op := by
  cases op with
  | newObj v =>
    refine ⟨⟨inv_newObj _ hm.inv v, ?_, ?_⟩, ?_⟩
    · intro c hc
      simp only [step, List.mem_append, List.mem_singleton] at hc
      show (upd m.s.ext m.s.next true) c = true
      unfold upd
      rcases hc with hc | rfl
      · have := hm.ext c hc; split <;> simp [this]
      · simp
    · simp only [step]
      rw [List.nodup_append]
      refine ⟨hm.nodup, List.nodup_singleton _, ?_⟩
      intro a ha b hb
      simp at hb; subst hb
      have := hm.inv.extlt a (hm.ext a ha); omega
    · simp only [step, abs, specStep, List.map_append, List.map_singleton]
      congr 1
      · funext T a b; exact get_newObj _ hm.inv v T a b
      · congr 1
        · apply List.map_congr_left
          intro c hc
          have := hm.inv.extlt c (hm.ext c hc)
          have hne : c ≠ m.s.next := by omega
          simp [TS.newObj, upd, hne]
        · simp [TS.newObj, upd]
  | mutObj k g =>
    simp only [step]
    cases hk : m.objs[k]? with
    | none =>
      refine ⟨hm, ?_⟩
      simp only [abs, specStep]
      congr 1
      rw [List.modify_eq_self]
      simp; exact List.getElem?_eq_none_iff.mp hk
    | some c =>
      have hc : c ∈ m.objs := List.mem_of_getElem? hk
      refine ⟨⟨inv_mutRef _ hm.inv c g, hm.ext, hm.nodup⟩, ?_⟩
      simp only [abs, specStep]
      congr 1
      · funext T a b; exact get_mutRef_ext _ hm.inv c (hm.ext c hc) g T a b
      · exact map_modify_nodup m.objs hm.nodup k c hk m.s.cell g
  | set T ii jj k =>
    simp only [step]
    cases hk : m.objs[k]? with
    | none => exact ⟨hm, by simp [abs, specStep, hk]⟩
    | some c =>
      simp only [TS.setFrom]
      cases hc : m.s.cell c with
      | none => exact ⟨hm, by simp [abs, specStep, hk, hc]⟩
      | some v =>
        obtain ⟨i1, f1, g1⟩ := setList_spec m.s hm.inv T hw ii jj v
        refine ⟨minv_frame m hm _ i1 f1, ?_⟩
        simp only [abs, specStep, List.getElem?_map, hk, Option.map_some, hc]
        rw [objs_frame m hm _ f1, f1.n, f1.ntab]
        congr 1
        funext T' a b; exact g1 T' a b
  | setUnset T k =>
    simp only [step]
    cases hk : m.objs[k]? with
    | none => exact ⟨hm, by simp [abs, specStep, hk]⟩
    | some c =>
      simp only [TS.setUnsetFrom]
      cases hc : m.s.cell c with
      | none => exact ⟨hm, by simp [abs, specStep, hk, hc]⟩
      | some v =>
        show MInv ⟨m.s.setUnset T v, m.objs⟩ ∧ abs ⟨m.s.setUnset T v, m.objs⟩ = _
        rw [setUnset_eq]
        obtain ⟨i1, f1, g1⟩ := foldP_spec T T (fun o => match o with | none => some v | some _ => none)
          (iterpairs m.s.n false true) m.s hm.inv hw (Or.inr (iterpairs_upper_pairwise _))
        refine ⟨minv_frame m hm _ i1 f1, ?_⟩
        simp only [abs, specStep, List.getElem?_map, hk, Option.map_some, hc]
        rw [objs_frame m hm _ f1, f1.n, f1.ntab]
        congr 1
        funext T' a b
        rw [g1, memU_iterpairs_upper]
        by_cases hg : m.s.get T a b = none
        · by_cases c : T' = T ∧ a < m.s.n ∧ b < m.s.n
          · simp [c.1, c.2.1, c.2.2, hg]
          · simp only [hg]
            have c' : ¬ (T' = T ∧ a < m.s.n ∧ b < m.s.n ∧ True) := by simpa using c
            simp only [Option.isSome_some, and_true]
        · obtain ⟨w, hw⟩ := Option.ne_none_iff_exists'.mp hg
          simp [hw]
  | applyIn T f =>
    simp only [step]
    rw [applyIn_eq]
    obtain ⟨i1, f1, g1⟩ := foldP_spec T T (Option.map f)
      (iterpairs m.s.n false true) m.s hm.inv hw (Or.inr (iterpairs_upper_pairwise _))
    refine ⟨minv_frame m hm _ i1 f1, ?_⟩
    simp only [abs, specStep]
    rw [objs_frame m hm _ f1, f1.n, f1.ntab]
    congr 1
    funext T' a b
    rw [g1, memU_iterpairs_upper]
    cases hg : m.s.get T a b with
    | none =>
      by_cases c : T' = T ∧ a < m.s.n ∧ b < m.s.n
      · simp [c.1, c.2.1, c.2.2, hg]
      · simp [c]
    | some w =>
      by_cases c : T' = T ∧ a < m.s.n ∧ b < m.s.n
      · simp [c]
      · simp [c]
  | applyOut T f =>
    simp only [step]
    rw [applyOut_eq]
    have hw' : T < m.s.ntab := hw
    have hi0 : TInv ({ m.s with ntab := m.s.ntab + 1 } : TS V) :=
      ⟨hm.inv.lt, hm.inv.sym, hm.inv.inj, hm.inv.noext, hm.inv.extlt, hm.inv.live,
       fun T' a b h => hm.inv.fresh T' a b (by show m.s.ntab ≤ T'; have : m.s.ntab + 1 ≤ T' := h; omega)⟩
    obtain ⟨i1, f1, g1⟩ := foldP_spec T m.s.ntab (Option.map f)
      (iterpairs m.s.n false true) ({ m.s with ntab := m.s.ntab + 1 } : TS V) hi0
      (by show m.s.ntab < m.s.ntab + 1; omega) (Or.inl (by omega))
    have f0 : Frame m.s ({ m.s with ntab := m.s.ntab + 1 } : TS V) → False → True := fun _ _ => trivial
    refine ⟨⟨i1, ?_, hm.nodup⟩, ?_⟩
    · intro c hc; show TS.ext _ c = true; rw [f1.ext]; exact hm.ext c hc
    · simp only [abs, specStep]
      have hobjs : m.objs.map (List.foldl (stepP T m.s.ntab (Option.map f)) ({ m.s with ntab := m.s.ntab + 1 } : TS V)
          (iterpairs m.s.n false true)).cell = m.objs.map m.s.cell := by
        apply List.map_congr_left
        intro c hc
        exact f1.cell c (hm.inv.extlt c (hm.ext c hc))
      rw [hobjs, f1.n, f1.ntab]
      congr 1
      funext T' a b
      rw [g1, memU_iterpairs_upper]
      show _ = if T' = m.s.ntab ∧ a < m.s.n ∧ b < m.s.n then (m.s.get T a b).map f else m.s.get T' a b
      have hget : ∀ T'' x y, TS.get ({ m.s with ntab := m.s.ntab + 1 } : TS V) T'' x y = m.s.get T'' x y := fun _ _ _ => rfl
      rw [hget, hget]
      cases hg : m.s.get T a b with
      | none =>
        by_cases c : T' = m.s.ntab ∧ a < m.s.n ∧ b < m.s.n
        · have : m.s.get m.s.ntab a b = none := by
            simp [TS.get, hm.inv.fresh m.s.ntab a b (Nat.le_refl _)]
          simp [c.1, c.2.1, c.2.2]
          exact this
        · simp [c]
      | some w =>
        by_cases c : T' = m.s.ntab ∧ a < m.s.n ∧ b < m.s.n
        · simp [c]
        · simp [c]
  | mutate T i j g =>
    refine ⟨⟨inv_mutate _ hm.inv T i j g, ?_, hm.nodup⟩, ?_⟩
    · intro c hc
      show (m.s.mutate T i j g).ext c = true
      have : (m.s.mutate T i j g).ext = m.s.ext := by
        unfold TS.mutate; split <;> rfl
      rw [this]; exact hm.ext c hc
    · simp only [step, abs, specStep]
      have h1 : (m.s.mutate T i j g).n = m.s.n := by unfold TS.mutate; split <;> rfl
      have h2 : (m.s.mutate T i j g).ntab = m.s.ntab := by unfold TS.mutate; split <;> rfl
      rw [h1, h2]
      congr 1
      · funext T' a b; exact get_mutate _ hm.inv T i j g T' a b
      · apply List.map_congr_left
        intro c hc
        exact cell_mutate_ext _ hm.inv T i j g c (hm.ext c hc)

/-! ### whole histories -/

def init (n : Nat) : M V := ⟨TS.init n, []⟩

/-- every operation of the history addresses an existing table -/
def WfRun : M V → List (Op V) → Prop
  | _, [] => True
  | m, op :: ops => op.wf m ∧ WfRun (step m op) ops

theorem init_inv (n : Nat) : MInv (init n : M V) :=
  ⟨inv_init n, by intro c hc; simp [init] at hc, by simp [init]⟩

/-- **C14 (PairTable), all histories**: after *any* finite sequence of operations the heap
machine is in the state the abstract symmetric map predicts: `abs (run ops) = specRun ops`. -/
theorem refines_abstract_map (m : M V) (hm : MInv m) (ops : List (Op V)) (hw : WfRun m ops) :
    MInv (ops.foldl step m) ∧ abs (ops.foldl step m) = ops.foldl specStep (abs m) := by
  induction ops generalizing m with
  | nil => exact ⟨hm, rfl⟩
  | cons op ops ih =>
    simp only [List.foldl_cons]
    obtain ⟨h1, h2⟩ := refine_step m hm op hw.1
    have := ih (step m op) h1 hw.2
    rw [h2] at this; exact this

/-- reads are the same from `(a,b)` and `(b,a)` in every reachable state -/
theorem read_symmetric (n : Nat) (ops : List (Op V)) (hw : WfRun (init n) ops) (T a b : Nat) :
    (ops.foldl step (init n : M V)).s.get T a b = (ops.foldl step (init n : M V)).s.get T b a :=
  get_symm _ (refines_abstract_map _ (init_inv n) ops hw).1.inv T a b

/-- values assigned to several pairs in one statement are independent copies: an in-place
change of the object stored at `(i,j)` is seen at exactly that unordered pair of that table,
and at none of the caller's objects. -/
theorem broadcast_isolated (m : M V) (hm : MInv m) (T i j : Nat) (g : V → V) :
    (∀ T' a b, (step m (.mutate T i j g)).s.get T' a b =
        if T' = T ∧ um i j a b then (m.s.get T' a b).map g else m.s.get T' a b) ∧
    (∀ c ∈ m.objs, (step m (.mutate T i j g)).s.cell c = m.s.cell c) :=
  ⟨fun T' a b => get_mutate _ hm.inv T i j g T' a b,
   fun c hc => cell_mutate_ext _ hm.inv T i j g c (hm.ext c hc)⟩

/-- later changes to the caller's object do not leak into any table -/
theorem caller_mutation_invisible (m : M V) (hm : MInv m) (k : Nat) (g : V → V) (T a b : Nat) :
    (step m (.mutObj k g)).s.get T a b = m.s.get T a b := by
  simp only [step]
  cases hk : m.objs[k]? with
  | none => rfl
  | some c => exact get_mutRef_ext _ hm.inv c (hm.ext c (List.mem_of_getElem? hk)) g T a b

/-- **`setUnset` fills only pairs never assigned**: every pair that already holds a value keeps referring to the very same
object (the same cell, with the same content) — a reference the user read back from the table stays live.  Holds for every table
`T'`, also the one being filled. -/
theorem setUnset_keeps_assigned (s : TS V) (hi : TInv s) (T : Nat) (hT : T < s.ntab) (v : V) (T' a b r : Nat) (v0 : V)
    (hs : s.slot T' a b = some r) (hc : s.cell r = some v0) :
    (s.setUnset T v).slot T' a b = some r ∧ (s.setUnset T v).cell r = some v0 := by
  unfold TS.setUnset
  have hn : ∀ (l : List (Nat × Nat)) (t : TS V), TInv t → T < t.ntab → t.slot T' a b = some r → t.cell r = some v0 →
      let u := l.foldl (fun s p => match s.get T p.1 p.2 with | none => s.setOne T p.1 p.2 v | some _ => s) t
      u.slot T' a b = some r ∧ u.cell r = some v0 := by
    intro l
    induction l with
    | nil => intro t _ _ h1 h2; exact ⟨h1, h2⟩
    | cons p l ih =>
      intro t ht hTt h1 h2
      simp only [List.foldl_cons]
      cases hg : t.get T p.1 p.2 with
      | some _ => simpa [hg] using ih t ht hTt h1 h2
      | none =>
        simp only [hg]
        apply ih (t.setOne T p.1 p.2 v) (inv_setOne t ht T p.1 p.2 hTt v) (by rw [(meta_setOne t T p.1 p.2 v).2.1]; exact hTt)
        · rw [setOne_slot]
          by_cases c : T' = T ∧ um p.1 p.2 a b
          · -- the pair being filled would be the assigned pair itself: impossible, its `get` is not `none`
            exfalso
            have hslot : t.slot T p.1 p.2 = none := (get_none_iff t ht T p.1 p.2).mp hg
            obtain ⟨rfl, hu⟩ := c
            rcases hu with ⟨e1, e2⟩ | ⟨e1, e2⟩
            · subst e1; subst e2; rw [hslot] at h1; cases h1
            · subst e1; subst e2; rw [ht.sym, hslot] at h1; cases h1
          · rw [if_neg c]; exact h1
        · rw [cell_setOne t T p.1 p.2 v r (ht.lt _ _ _ _ h1)]; exact h2
  exact hn _ s hi hT hs hc

/-- `check()` passes exactly when no pair (in either order) is unset -/
theorem check_iff_unset (s : TS V) (hi : TInv s) (T : Nat) :
    s.check T = true ↔ ∀ a b, a < s.n → b < s.n → s.get T a b ≠ none := by
  unfold TS.check
  simp only [List.all_eq_true]
  constructor
  · intro h a b ha hb
    by_cases hab : a ≤ b
    · have := h (a, b) ((mem_iterpairs s.n false true a b).mpr ⟨ha, hb, by simp [hab]⟩)
      intro e; simp [e] at this
    · have := h (b, a) ((mem_iterpairs s.n false true b a).mpr ⟨hb, ha, by simp; omega⟩)
      intro e; rw [get_symm s hi] at e; simp [e] at this
  · rintro h ⟨a, b⟩ hp
    obtain ⟨ha, hb, _⟩ := (mem_iterpairs s.n false true a b).mp hp
    have := h a b ha hb
    cases hg : s.get T a b with
    | none => exact absurd hg this
    | some _ => rfl

/-- `iterpairs` visits exactly the index pairs selected by the flags … -/
theorem iterpairs_exact (n : Nat) (full diagonal : Bool) (i j : Nat) :
    (i, j) ∈ iterpairs n full diagonal ↔
      i < n ∧ j < n ∧ (full = true ∨ (diagonal = true ∧ i ≤ j) ∨ (diagonal = false ∧ i < j)) :=
  mem_iterpairs n full diagonal i j

/-- … each exactly once and in type-list (row-major) order -/
theorem iterpairs_sorted (n : Nat) (full diagonal : Bool) :
    (iterpairs n full diagonal).Pairwise (fun p q => p.1 < q.1 ∨ (p.1 = q.1 ∧ p.2 < q.2)) := by
  unfold iterpairs
  rw [List.pairwise_flatMap]
  constructor
  · intro i _
    rw [List.pairwise_map]
    have : ((List.range n).filter fun j => if full = true then true else if diagonal = true then decide (i ≤ j) else decide (i < j)).Pairwise (· < ·) :=
      (List.pairwise_lt_range (n := n)).filter _
    exact this.imp (fun h => Or.inr ⟨rfl, h⟩)
  · refine (List.pairwise_lt_range (n := n)).imp ?_
    intro i i' hii' p hp q hq
    simp only [List.mem_map, List.mem_filter, List.mem_range] at hp hq
    obtain ⟨j, _, rfl⟩ := hp
    obtain ⟨j', _, rfl⟩ := hq
    exact Or.inl hii'

theorem iterpairs_nodup (n : Nat) (full diagonal : Bool) : (iterpairs n full diagonal).Nodup := by
  refine (iterpairs_sorted n full diagonal).imp ?_
  rintro ⟨a, b⟩ ⟨c, d⟩ h e
  cases e; simp at h

/-! ### ValueTable -/

theorem valuetable_set (f : Nat → Option V) (ts : List Nat) (v : V) (t : Nat) :
    vtSet f ts v t = if t ∈ ts then some v else f t := by
  unfold vtSet
  induction ts generalizing f with
  | nil => simp
  | cons s ts ih =>
    simp only [List.foldl_cons]
    rw [ih]; unfold upd
    by_cases h1 : t ∈ ts
    · simp [h1]
    · by_cases h2 : t = s <;> simp [h1, h2]

theorem valuetable_setUnset (n : Nat) (f : Nat → Option V) (v : V) (t : Nat) :
    vtSetUnset n f v t = if t < n ∧ f t = none then some v else f t := by
  unfold vtSetUnset
  induction n with
  | zero => simp
  | succ n ih =>
    rw [List.range_succ, List.foldl_append]
    simp only [List.foldl_cons, List.foldl_nil]
    generalize hF : List.foldl _ f (List.range n) = F at ih ⊢
    have ihn := ih
    by_cases htn : t = n
    · subst htn
      have hFt : F t = f t := by rw [ih]; simp
      cases hf : f t with
      | none => rw [hFt] at *; simp [hf, upd]
      | some w => simp [hFt, hf]
    · have h1 : (t < n + 1) = (t < n) := by simp; omega
      cases hFn : F n with
      | none => simp only [upd, htn, if_false, h1]; exact ih
      | some w => simp only [h1]; exact ih

theorem valuetable_check_iff (n : Nat) (f : Nat → Option V) :
    vtCheck n f = true ↔ ∀ t, t < n → f t ≠ none := by
  unfold vtCheck
  simp only [List.all_eq_true, List.mem_range]
  constructor
  · intro h t ht e; have := h t ht; simp [e] at this
  · intro h t ht; cases e : f t with
    | none => exact absurd e (h t ht)
    | some _ => rfl

theorem valuetable_iter (n : Nat) (f : Nat → Option V) :
    vtIter n f = (List.range n).map fun t => (t, f t) := rfl

/-! ### non-vacuity: a concrete history satisfies `WfRun`, and exercises isolation -/
example : WfRun (init 2 : M (List Nat))
    [.newObj [1], .set 0 [0, 1] [0, 1] 0, .mutate 0 0 1 (· ++ [9]), .applyOut 0 id, .setUnset 1 0] := by
  simp only [WfRun, Op.wf, and_true]
  decide

end C14
