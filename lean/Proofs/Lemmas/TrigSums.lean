import Mathlib.Analysis.SpecialFunctions.Trigonometric.Complex
import Mathlib.Tactic

open Finset Real

namespace TrigSums

/-- full cosine sum Σ_{m=1}^{N} cos(m a), multiplied by sin(a/2) -/
theorem cos_sum_full (N : ℕ) (a : ℝ) :
    sin (a / 2) * ∑ m ∈ range N, cos ((m + 1 : ℝ) * a)
      = (sin (N * a + a / 2) - sin (a / 2)) / 2 := by
  have h := Real.sin_mul_sum_cos N a a
  have e : ∀ m : ℕ, cos ((m + 1 : ℝ) * a) = cos (a * m + a) := by intro m; congr 1; ring
  simp_rw [e]
  rw [h]
  have := Real.sin_sub_sin (N * a + a / 2) (a / 2)
  rw [this]
  have e1 : (↑N * a + a / 2 - a / 2) / 2 = ↑N * a / 2 := by ring
  have e2 : (↑N * a + a / 2 + a / 2) / 2 = (↑N - 1) * a / 2 + a := by ring
  rw [e1, e2]; ring

/-- if N a = p π then Σ_{m=1}^{N} cos(m a) = ((-1)^p - 1)/2 provided sin(a/2) ≠ 0 -/
theorem cos_sum_at (N : ℕ) (p : ℤ) (a : ℝ) (ha : (N : ℝ) * a = p * π) (hs : sin (a / 2) ≠ 0) :
    ∑ m ∈ range N, cos ((m + 1 : ℝ) * a) = ((-1 : ℝ) ^ p - 1) / 2 := by
  have h := cos_sum_full N a
  rw [ha] at h
  have h2 : sin (↑p * π + a / 2) = (-1 : ℝ) ^ p * sin (a / 2) := by
    rw [add_comm, Real.sin_add_int_mul_pi]
  rw [h2] at h
  have : sin (a / 2) * ∑ m ∈ range N, cos ((m + 1 : ℝ) * a) = sin (a / 2) * (((-1 : ℝ) ^ p - 1) / 2) := by
    rw [h]; ring
  exact mul_left_cancel₀ hs this

/-- weights: last term half -/
noncomputable def w (N k : ℕ) : ℝ := if k + 1 = N then 1 / 2 else 1

/-- half-weighted cosine sum equals -1/2 -/
theorem wcos_sum (N : ℕ) (hN : 0 < N) (p : ℤ) (a : ℝ) (ha : (N : ℝ) * a = p * π)
    (hs : sin (a / 2) ≠ 0) :
    ∑ k ∈ range N, w N k * cos ((k + 1 : ℝ) * a) = -1 / 2 := by
  obtain ⟨M, rfl⟩ : ∃ M, N = M + 1 := ⟨N - 1, by omega⟩
  have hfull := cos_sum_at (M + 1) p a ha hs
  rw [Finset.sum_range_succ] at hfull ⊢
  have hlast : cos (((M : ℝ) + 1) * a) = (-1 : ℝ) ^ p := by
    have : ((M : ℝ) + 1) * a = p * π := by simpa using ha
    rw [this, mul_comm]; exact Real.cos_int_mul_pi p |> fun h => by simpa [mul_comm] using h
  have hw : ∀ k ∈ range M, w (M + 1) k * cos ((k + 1 : ℝ) * a) = cos ((k + 1 : ℝ) * a) := by
    intro k hk
    have : k + 1 ≠ M + 1 := by have := mem_range.mp hk; omega
    unfold w; rw [if_neg this, one_mul]
  rw [Finset.sum_congr rfl hw]
  simp only [w, if_true]
  rw [hlast] at hfull ⊢
  linarith

end TrigSums

namespace TrigSums

theorem sin_mul_sin' (x y : ℝ) : sin x * sin y = (cos (x - y) - cos (x + y)) / 2 := by
  rw [Real.cos_sub, Real.cos_add]; ring

theorem sin_half_ne_zero_of (N : ℕ) (hN : 0 < N) (q : ℤ) (h1 : 0 < q) (h2 : q < 2 * N) :
    sin ((q : ℝ) * π / N / 2) ≠ 0 := by
  have hNr : (0 : ℝ) < N := by exact_mod_cast hN
  have hq1 : (0 : ℝ) < q := by exact_mod_cast h1
  have hq2 : (q : ℝ) < 2 * N := by exact_mod_cast h2
  apply ne_of_gt
  apply Real.sin_pos_of_pos_of_lt_pi
  · positivity
  · have : (q : ℝ) * π / N / 2 = π * (q / (2 * N)) := by field_simp
    rw [this]
    have : (q : ℝ) / (2 * N) < 1 := by rw [div_lt_one (by positivity)]; exact hq2
    nlinarith [Real.pi_pos]

theorem sin_half_ne_zero_of' (N : ℕ) (hN : 0 < N) (q : ℤ) (h0 : q ≠ 0) (h1 : -(2 * N : ℤ) < q) (h2 : q < 2 * N) :
    sin ((q : ℝ) * π / N / 2) ≠ 0 := by
  rcases lt_or_gt_of_ne h0 with h | h
  · have := sin_half_ne_zero_of N hN (-q) (by omega) (by omega)
    intro hz
    apply this
    have : ((-q : ℤ) : ℝ) * π / N / 2 = -((q : ℝ) * π / N / 2) := by push_cast; ring
    rw [this, Real.sin_neg, hz, neg_zero]
  · exact sin_half_ne_zero_of N hN q h h2

theorem w_sum (N : ℕ) (hN : 0 < N) : ∑ k ∈ range N, w N k = N - 1 / 2 := by
  obtain ⟨M, rfl⟩ : ∃ M, N = M + 1 := ⟨N - 1, by omega⟩
  rw [Finset.sum_range_succ]
  have hw : ∀ k ∈ range M, w (M + 1) k = 1 := by
    intro k hk
    have : k + 1 ≠ M + 1 := by have := mem_range.mp hk; omega
    unfold w; rw [if_neg this]
  rw [Finset.sum_congr rfl hw]
  simp [w]; ring

/-- first discrete orthogonality relation (sum over the DST-III index) -/
theorem ortho1 (N : ℕ) (hN : 0 < N) (i n : ℕ) (hi : i < N) (hn : n < N) :
    ∑ k ∈ range N, w N k * (sin ((2 * i + 1 : ℝ) * (k + 1) * (π / (2 * N))) *
        sin ((2 * n + 1 : ℝ) * (k + 1) * (π / (2 * N))))
      = if i = n then (N : ℝ) / 2 else 0 := by
  have hNr : (0 : ℝ) < N := by exact_mod_cast hN
  set a : ℝ := (((i : ℤ) - n : ℤ) : ℝ) * π / N with ha
  set b : ℝ := (((i : ℤ) + n + 1 : ℤ) : ℝ) * π / N with hb
  have hterm : ∀ k : ℕ, w N k * (sin ((2 * i + 1 : ℝ) * (k + 1) * (π / (2 * N))) *
        sin ((2 * n + 1 : ℝ) * (k + 1) * (π / (2 * N))))
      = (w N k * cos ((k + 1 : ℝ) * a) - w N k * cos ((k + 1 : ℝ) * b)) / 2 := by
    intro k
    rw [sin_mul_sin']
    have e1 : (2 * (i : ℝ) + 1) * (k + 1) * (π / (2 * N)) - (2 * n + 1) * (k + 1) * (π / (2 * N))
        = (k + 1 : ℝ) * a := by
      rw [ha]; push_cast; field_simp; ring
    have e2 : (2 * (i : ℝ) + 1) * (k + 1) * (π / (2 * N)) + (2 * n + 1) * (k + 1) * (π / (2 * N))
        = (k + 1 : ℝ) * b := by
      rw [hb]; push_cast; field_simp; ring
    rw [e1, e2]; ring
  simp_rw [hterm]
  rw [← Finset.sum_div, Finset.sum_sub_distrib]
  have hbsum : ∑ k ∈ range N, w N k * cos ((k + 1 : ℝ) * b) = -1 / 2 := by
    apply wcos_sum N hN ((i : ℤ) + n + 1) b
    · rw [hb]; field_simp
    · rw [hb]; exact sin_half_ne_zero_of N hN _ (by omega) (by omega)
  rw [hbsum]
  by_cases h : i = n
  · subst h
    have : a = 0 := by rw [ha]; simp
    simp only [this, mul_zero, Real.cos_zero, mul_one, if_true]
    rw [w_sum N hN]; ring
  · have hasum : ∑ k ∈ range N, w N k * cos ((k + 1 : ℝ) * a) = -1 / 2 := by
      apply wcos_sum N hN ((i : ℤ) - n) a
      · rw [ha]; field_simp
      · rw [ha]; exact sin_half_ne_zero_of' N hN _ (by omega) (by omega) (by omega)
    rw [hasum, if_neg h]; ring

end TrigSums

namespace TrigSums

/-- odd-multiple cosine sum: sin φ · Σ_{n<N} cos((2n+1)φ) = sin(2Nφ)/2 -/
theorem odd_cos_sum (N : ℕ) (φ : ℝ) :
    sin φ * ∑ n ∈ range N, cos ((2 * n + 1 : ℝ) * φ) = sin (2 * N * φ) / 2 := by
  have h := Real.sin_mul_sum_cos N (2 * φ) φ
  have e : ∀ n : ℕ, cos ((2 * n + 1 : ℝ) * φ) = cos (2 * φ * n + φ) := by intro n; congr 1; ring
  simp_rw [e]
  have e0 : 2 * φ / 2 = φ := by ring
  rw [e0] at h
  rw [h]
  have e1 : (N : ℝ) * (2 * φ) / 2 = N * φ := by ring
  have e2 : ((N : ℝ) - 1) * (2 * φ) / 2 + φ = N * φ := by ring
  rw [e1, e2]
  have : sin (2 * N * φ) = 2 * sin (N * φ) * cos (N * φ) := by
    rw [← Real.sin_two_mul]; ring_nf
  rw [this]; ring

theorem odd_cos_sum_zero (N : ℕ) (hN : 0 < N) (q : ℤ) (h0 : q ≠ 0) (h1 : -(2 * N : ℤ) < q) (h2 : q < 2 * N) :
    ∑ n ∈ range N, cos ((2 * n + 1 : ℝ) * ((q : ℝ) * π / (2 * N))) = 0 := by
  have hNr : (0 : ℝ) < N := by exact_mod_cast hN
  have hs : sin ((q : ℝ) * π / (2 * N)) ≠ 0 := by
    have := sin_half_ne_zero_of' N hN q h0 h1 h2
    have e : (q : ℝ) * π / N / 2 = (q : ℝ) * π / (2 * N) := by field_simp
    rwa [e] at this
  have h := odd_cos_sum N ((q : ℝ) * π / (2 * N))
  have e : 2 * (N : ℝ) * ((q : ℝ) * π / (2 * N)) = q * π := by field_simp
  rw [e, Real.sin_int_mul_pi, zero_div] at h
  exact (mul_eq_zero.mp h).resolve_left hs

/-- second discrete orthogonality relation (sum over the DST-II sample index) -/
theorem ortho2 (N : ℕ) (hN : 0 < N) (j l : ℕ) (hj : j < N) (hl : l < N) :
    ∑ n ∈ range N, (sin ((2 * n + 1 : ℝ) * (j + 1) * (π / (2 * N))) *
        sin ((2 * n + 1 : ℝ) * (l + 1) * (π / (2 * N))))
      = if j = l then (if j + 1 = N then (N : ℝ) else N / 2) else 0 := by
  have hNr : (0 : ℝ) < N := by exact_mod_cast hN
  have hterm : ∀ n : ℕ, sin ((2 * n + 1 : ℝ) * (j + 1) * (π / (2 * N))) *
        sin ((2 * n + 1 : ℝ) * (l + 1) * (π / (2 * N)))
      = (cos ((2 * n + 1 : ℝ) * ((((j : ℤ) - l : ℤ) : ℝ) * π / (2 * N)))
          - cos ((2 * n + 1 : ℝ) * ((((j : ℤ) + l + 2 : ℤ) : ℝ) * π / (2 * N)))) / 2 := by
    intro n
    rw [sin_mul_sin']
    congr 2
    · congr 1; push_cast; field_simp; ring
    · congr 1; push_cast; field_simp; ring
  simp_rw [hterm]
  rw [← Finset.sum_div, Finset.sum_sub_distrib]
  by_cases h : j = l
  · subst h
    rw [if_pos rfl]
    have ha : ∑ n ∈ range N, cos ((2 * n + 1 : ℝ) * ((((j : ℤ) - j : ℤ) : ℝ) * π / (2 * N))) = N := by
      simp
    rw [ha]
    by_cases hlast : j + 1 = N
    · rw [if_pos hlast]
      have hb : ∀ n ∈ range N, cos ((2 * n + 1 : ℝ) * ((((j : ℤ) + j + 2 : ℤ) : ℝ) * π / (2 * N))) = -1 := by
        intro n _
        have : (((j : ℤ) + j + 2 : ℤ) : ℝ) = 2 * N := by
          have : (j : ℤ) + j + 2 = 2 * N := by omega
          rw [this]; push_cast; ring
        rw [this]
        have : (2 * n + 1 : ℝ) * (2 * N * π / (2 * N)) = π + n * (2 * π) := by field_simp; ring
        rw [this, Real.cos_add_nat_mul_two_pi, Real.cos_pi]
      rw [Finset.sum_congr rfl hb]; simp
    · rw [if_neg hlast]
      rw [odd_cos_sum_zero N hN _ (by omega) (by omega) (by omega)]; ring
  · rw [if_neg h]
    rw [odd_cos_sum_zero N hN _ (by omega) (by omega) (by omega),
        odd_cos_sum_zero N hN _ (by omega) (by omega) (by omega)]; ring

end TrigSums
