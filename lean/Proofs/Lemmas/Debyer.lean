import Proofs.RealInst

/-! Helper lemmas for the Debyer model: `accRange` as a finite sum, the chunk rows as a partition of `range n`,
the strict-upper-triangle sum of a symmetric function. -/
open Finset

theorem accRange_shift {β : Type} (lo n : ℕ) (f : β → ℕ → β) (a : β) :
    accRange lo n f a = accRange 0 n (fun a d => f a (lo + d)) a := by
  induction n with
  | zero => rfl
  | succ n ih => simp [accRange, ih]

/-- threading `a ↦ a + t j` through `lo … lo+n-1` adds the finite sum -/
theorem accRange_add (lo n : ℕ) (t : ℕ → ℝ) (a : ℝ) :
    accRange lo n (fun a j => a + t j) a = a + ∑ j ∈ Ico lo (lo + n), t j := by
  induction n with
  | zero => simp [accRange]
  | succ n ih =>
    simp only [accRange, ih]
    rw [← Nat.add_assoc, Finset.sum_Ico_succ_top (by omega)]
    ring

/-- threading `a ↦ g i a` where each `g i` adds something independent of `a` -/
theorem accRange_add_fun (lo n : ℕ) (g : ℕ → ℝ → ℝ) (s : ℕ → ℝ) (hg : ∀ i a, g i a = a + s i) (a : ℝ) :
    accRange lo n (fun a i => g i a) a = a + ∑ i ∈ Ico lo (lo + n), s i := by
  have : (fun a i => g i a) = (fun a i => a + s i) := by funext a i; exact hg i a
  rw [this, accRange_add]

theorem Ico_add_sub (a b : ℕ) : Ico a (a + (b - a)) = Ico a b := by
  ext x; simp only [mem_Ico]; omega

theorem chunkSize_pos {n c : ℕ} (hn : 0 < n) (hc : 0 < c) : 0 < chunkSize n c := by
  unfold chunkSize
  apply Nat.div_pos <;> omega

theorem chunkSize_mul_ge (n c : ℕ) (hc : 0 < c) : n ≤ c * chunkSize n c := by
  unfold chunkSize
  have h := Nat.div_add_mod (n + c - 1) c
  have h2 := Nat.mod_lt (n + c - 1) hc
  generalize (n + c - 1) % c = m at h h2
  generalize c * ((n + c - 1) / c) = p at h ⊢
  omega

/-- the rows of `_chunk(n, c)` split `range n` into consecutive pieces: summing any `f` row by row gives the sum over `range n` -/
theorem chunk_rows_sum {M : Type} [AddCommMonoid M] (n c : ℕ) (hc : 0 < c) (f : ℕ → M) :
    ∑ t ∈ range c, ∑ i ∈ Ico (chunkRow n c t).1 (chunkRow n c t).2, f i = ∑ i ∈ range n, f i := by
  have key : ∀ c' : ℕ, ∑ t ∈ range c', ∑ i ∈ Ico (chunkRow n c t).1 (chunkRow n c t).2, f i
      = ∑ i ∈ range (min (c' * chunkSize n c) n), f i := by
    intro c'
    induction c' with
    | zero => simp
    | succ c' ih =>
      rw [Finset.sum_range_succ, ih]
      unfold chunkRow
      by_cases h : c' * chunkSize n c < n
      · simp only [h, if_true]
        rw [Nat.min_eq_left (le_of_lt h), Finset.range_eq_Ico,
          Finset.sum_Ico_consecutive f (Nat.zero_le _) (by
            apply le_min
            · exact Nat.mul_le_mul_right _ (Nat.le_succ _)
            · exact le_of_lt h), ← Finset.range_eq_Ico]
      · simp only [h, if_false]
        have h1 : min (c' * chunkSize n c) n = n := Nat.min_eq_right (not_lt.mp h)
        have h2 : min ((c' + 1) * chunkSize n c) n = n :=
          Nat.min_eq_right (le_trans (not_lt.mp h) (Nat.mul_le_mul_right _ (Nat.le_succ _)))
        simp [h1, h2]
  rw [key c, Nat.min_eq_right (chunkSize_mul_ge n c hc)]

/-- strict upper triangle of a symmetric function, doubled, is the sum over all ordered pairs `i ≠ j` -/
theorem two_mul_upper_eq_offdiag (n : ℕ) (t : ℕ → ℕ → ℝ) (hs : ∀ i j, t i j = t j i) :
    2 * ∑ i ∈ range n, ∑ j ∈ Ico (i + 1) n, t i j = ∑ i ∈ range n, ∑ j ∈ (range n).erase i, t i j := by
  have hsplit : ∀ i ∈ range n, ∑ j ∈ (range n).erase i, t i j = ∑ j ∈ range i, t i j + ∑ j ∈ Ico (i + 1) n, t i j := by
    intro i hi
    have hi' : i < n := mem_range.mp hi
    rw [Finset.sum_erase_eq_sub hi, Finset.range_eq_Ico,
      ← Finset.sum_Ico_consecutive (fun j => t i j) (Nat.zero_le i) (le_of_lt hi'),
      Finset.sum_eq_sum_Ico_succ_bot hi', ← Finset.range_eq_Ico]
    ring
  rw [Finset.sum_congr rfl hsplit, Finset.sum_add_distrib]
  have hswap : ∑ i ∈ range n, ∑ j ∈ range i, t i j = ∑ i ∈ range n, ∑ j ∈ Ico (i + 1) n, t i j := by
    rw [Finset.sum_comm' (s := range n) (t := fun i => range i) (t' := range n) (s' := fun j => Ico (j + 1) n)]
    · apply Finset.sum_congr rfl; intro j _
      apply Finset.sum_congr rfl; intro i _
      exact hs i j
    · intro x y
      simp only [mem_range, mem_Ico]
      omega
  rw [hswap]; ring
