import Proofs.RealInst
import Mathlib.Algebra.BigOperators.Intervals
/-! Generic rearrangement of a pair sum `Σ_{i,j<N} w_{|i-j|}` into a sum over separations,
and the row-sum lemma for ring-symmetric weights. -/
open Finset

/-- `Σ_{i,j<N} w(|i-j|)` -/
noncomputable def pairSumW (N : ℕ) (w : ℕ → ℝ) : ℝ :=
  ∑ i ∈ range N, ∑ j ∈ range N, w (if i ≤ j then j - i else i - j)

theorem pairSumW_succ (N : ℕ) (w : ℕ → ℝ) :
    pairSumW (N + 1) w = pairSumW N w + 2 * ∑ t ∈ range N, w (t + 1) + w 0 := by
  unfold pairSumW
  rw [Finset.sum_range_succ]
  simp_rw [Finset.sum_range_succ]
  rw [Finset.sum_add_distrib]
  have h1 : ∑ x ∈ range N, w (if x ≤ N then N - x else x - N) = ∑ t ∈ range N, w (t + 1) := by
    rw [← Finset.sum_range_reflect]
    apply Finset.sum_congr rfl
    intro j hj
    have hj' := mem_range.mp hj
    have : (N - 1 - j) ≤ N := by omega
    rw [if_pos this]
    congr 1; omega
  have h2 : ∑ j ∈ range N, w (if N ≤ j then j - N else N - j) = ∑ t ∈ range N, w (t + 1) := by
    rw [← Finset.sum_range_reflect]
    apply Finset.sum_congr rfl
    intro j hj
    have hj' := mem_range.mp hj
    have : ¬ (N ≤ N - 1 - j) := by omega
    rw [if_neg this]
    congr 1; omega
  rw [h1, h2]
  simp
  ring

/-- sum over separations: `N w₀ + 2 Σ_{τ=1}^{N-1} (N-τ) w_τ` -/
theorem pairSumW_eq (N : ℕ) (w : ℕ → ℝ) :
    pairSumW N w = N * w 0 + 2 * ∑ t ∈ range (N - 1), ((N - (t + 1) : ℕ) : ℝ) * w (t + 1) := by
  induction N with
  | zero => simp [pairSumW]
  | succ N ih =>
    rw [pairSumW_succ, ih]
    have e : ∑ t ∈ range (N + 1 - 1), ((N + 1 - (t + 1) : ℕ) : ℝ) * w (t + 1)
        = ∑ t ∈ range (N - 1), ((N - (t + 1) : ℕ) : ℝ) * w (t + 1) + ∑ t ∈ range N, w (t + 1) := by
      simp only [Nat.add_sub_cancel]
      have hx : ∑ t ∈ range (N - 1), ((N - (t + 1) : ℕ) : ℝ) * w (t + 1) = ∑ t ∈ range N, ((N - (t + 1) : ℕ) : ℝ) * w (t + 1) := by
        cases N with
        | zero => simp
        | succ M =>
          simp only [Nat.add_sub_cancel]
          rw [Finset.sum_range_succ]
          simp
      rw [hx, ← Finset.sum_add_distrib]
      apply Finset.sum_congr rfl
      intro t ht
      have ht' := mem_range.mp ht
      have : ((N + 1 - (t + 1) : ℕ) : ℝ) = ((N - (t + 1) : ℕ) : ℝ) + 1 := by
        have : N + 1 - (t + 1) = (N - (t + 1)) + 1 := by omega
        rw [this]; push_cast; ring
      rw [this]; ring
    rw [e]; push_cast; ring

/-- row sums of ring-symmetric weights (`g t = g (N-t)` for `0 < t < N`) do not depend on the row -/
theorem ring_row_sum (N : ℕ) (g : ℕ → ℝ) (hsym : ∀ t, 0 < t → t < N → g t = g (N - t)) (i : ℕ) (hi : i < N) :
    ∑ j ∈ range N, g (if i ≤ j then j - i else i - j) = ∑ t ∈ range N, g t := by
  rw [← Finset.sum_range_add_sum_Ico _ (le_of_lt hi)]
  -- left part: j < i
  have hA : ∑ j ∈ range i, g (if i ≤ j then j - i else i - j) = ∑ t ∈ range i, g (t + 1) := by
    rw [← Finset.sum_range_reflect]
    apply Finset.sum_congr rfl
    intro j hj
    have hj' := mem_range.mp hj
    have : ¬ (i ≤ i - 1 - j) := by omega
    rw [if_neg this]; congr 1; omega
  -- right part: j ≥ i
  have hB : ∑ j ∈ Ico i N, g (if i ≤ j then j - i else i - j) = ∑ t ∈ range (N - i), g t := by
    rw [Finset.sum_Ico_eq_sum_range]
    apply Finset.sum_congr rfl
    intro t _
    have : i ≤ i + t := by omega
    rw [if_pos this]; congr 1; omega
  rw [hA, hB]
  -- Σ_{t<N-i} g t = g 0 + Σ_{k<N-i-1} g (k+1), and by symmetry the latter is Σ_{k<N-i-1} g (i+1+k)
  have hC : ∑ t ∈ range (N - i), g t = g 0 + ∑ k ∈ range (N - i - 1), g (i + 1 + k) := by
    have : N - i = (N - i - 1) + 1 := by omega
    rw [this, Finset.sum_range_succ']
    simp only [Nat.add_sub_cancel]
    rw [add_comm]
    congr 1
    rw [← Finset.sum_range_reflect]
    apply Finset.sum_congr rfl
    intro k hk
    have hk' := mem_range.mp hk
    rw [hsym (N - i - 1 - 1 - k + 1) (by omega) (by omega)]
    congr 1; omega
  rw [hC]
  have hD : ∑ t ∈ range N, g t = ∑ t ∈ range (i + 1), g t + ∑ k ∈ range (N - i - 1), g (i + 1 + k) := by
    rw [← Finset.sum_range_add_sum_Ico _ (show i + 1 ≤ N by omega), Finset.sum_Ico_eq_sum_range]
    have : N - (i + 1) = N - i - 1 := by omega
    rw [this]
  rw [hD, Finset.sum_range_succ' _ i]
  ring
