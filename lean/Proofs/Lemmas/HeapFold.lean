import Proofs.Lemmas.Heap
/-! Closed forms for the loops of `PairTable` (`__setitem__` with lists, `setUnset`, `apply`). -/

variable {V : Type}
open Classical

/-- frame: what a sequence of `setOne`s cannot change -/
structure Frame (s s' : TS V) : Prop where
  n : s'.n = s.n
  ntab : s'.ntab = s.ntab
  ext : s'.ext = s.ext
  next : s.next ≤ s'.next
  cell : ∀ c, c < s.next → s'.cell c = s.cell c

theorem Frame.refl (s : TS V) : Frame s s := ⟨rfl, rfl, rfl, Nat.le_refl _, fun _ _ => rfl⟩
theorem Frame.trans {s s' s'' : TS V} (a : Frame s s') (b : Frame s' s'') : Frame s s'' :=
  ⟨b.n.trans a.n, b.ntab.trans a.ntab, b.ext.trans a.ext, Nat.le_trans a.next b.next,
   fun c hc => (b.cell c (Nat.lt_of_lt_of_le hc a.next)).trans (a.cell c hc)⟩
theorem frame_setOne (s : TS V) (T i j : Nat) (v : V) : Frame s (s.setOne T i j v) :=
  ⟨rfl, rfl, rfl, Nat.le_succ _, fun c hc => cell_setOne s T i j v c hc⟩

/-- some pair of the list matches `(a,b)` up to order -/
def memU (l : List (Nat × Nat)) (a b : Nat) : Prop := ∃ p ∈ l, um p.1 p.2 a b

/-- one conditional write: `dst[p] = x` when `h (src[p]) = some x` -/
def stepP (src dst : Nat) (h : Option V → Option V) (s : TS V) (p : Nat × Nat) : TS V :=
  match h (s.get src p.1 p.2) with
  | none => s
  | some x => s.setOne dst p.1 p.2 x

theorem stepP_facts (src dst : Nat) (h : Option V → Option V) (s : TS V) (hi : TInv s) (hd : dst < s.ntab)
    (p : Nat × Nat) :
    TInv (stepP src dst h s p) ∧ Frame s (stepP src dst h s p) ∧
    ∀ T a b, (stepP src dst h s p).get T a b =
      if T = dst ∧ um p.1 p.2 a b ∧ (h (s.get src p.1 p.2)).isSome then h (s.get src p.1 p.2) else s.get T a b := by
  unfold stepP
  cases hh : h (s.get src p.1 p.2) with
  | none => exact ⟨hi, Frame.refl s, by intro T a b; simp⟩
  | some x =>
    refine ⟨inv_setOne s hi dst p.1 p.2 hd x, frame_setOne s dst p.1 p.2 x, ?_⟩
    intro T a b
    rw [get_setOne s hi]
    by_cases c : T = dst ∧ um p.1 p.2 a b
    · simp [c]
    · have : ¬ (T = dst ∧ um p.1 p.2 a b ∧ True) := by simpa using c
      simp only [Option.isSome_some]
      rw [if_neg c, if_neg this]

/-- closed form of `for p in l: if h(src[p]) is some x: dst[p] = x`, valid when reads are not
disturbed by earlier writes (`src ≠ dst`, or the pairs of `l` are pairwise distinct up to order). -/
theorem foldP_spec (src dst : Nat) (h : Option V → Option V) (l : List (Nat × Nat)) (s : TS V) (hi : TInv s)
    (hd : dst < s.ntab)
    (hl : src ≠ dst ∨ l.Pairwise (fun p q => ¬ um p.1 p.2 q.1 q.2)) :
    TInv (l.foldl (stepP src dst h) s) ∧ Frame s (l.foldl (stepP src dst h) s) ∧
    ∀ T a b, (l.foldl (stepP src dst h) s).get T a b =
      if T = dst ∧ memU l a b ∧ (h (s.get src a b)).isSome then h (s.get src a b) else s.get T a b := by
  induction l generalizing s with
  | nil => exact ⟨hi, Frame.refl s, by intro T a b; simp [memU]⟩
  | cons p l ih =>
    simp only [List.foldl_cons]
    obtain ⟨i1, f1, g1⟩ := stepP_facts src dst h s hi hd p
    have hl' : src ≠ dst ∨ l.Pairwise (fun p q => ¬ um p.1 p.2 q.1 q.2) := by
      rcases hl with hl | hl
      · exact Or.inl hl
      · exact Or.inr (List.pairwise_cons.mp hl).2
    obtain ⟨i2, f2, g2⟩ := ih (stepP src dst h s p) i1 (by rw [f1.ntab]; exact hd) hl'
    refine ⟨i2, f1.trans f2, ?_⟩
    intro T a b
    rw [g2]
    by_cases hm : memU l a b
    · -- some later pair matches (a,b): the read of src at (a,b) was not disturbed by the write at p
      have hsrc : (stepP src dst h s p).get src a b = s.get src a b := by
        rw [g1]
        rcases hl with hne | hpw
        · simp [hne]
        · obtain ⟨q, hq, hqm⟩ := hm
          have hnpq := (List.pairwise_cons.mp hpw).1 q hq
          have : ¬ um p.1 p.2 a b := by
            intro hpm; apply hnpq; unfold um at *; omega
          simp [this]
      have hm' : memU (p :: l) a b := by
        obtain ⟨q, hq, hqm⟩ := hm; exact ⟨q, List.mem_cons_of_mem _ hq, hqm⟩
      rw [hsrc]
      by_cases c : T = dst ∧ (h (s.get src a b)).isSome
      · simp [c.1, c.2, hm, hm']
      · have c1 : ¬ (T = dst ∧ memU l a b ∧ (h (s.get src a b)).isSome) := fun x => c ⟨x.1, x.2.2⟩
        have c2 : ¬ (T = dst ∧ memU (p :: l) a b ∧ (h (s.get src a b)).isSome) := fun x => c ⟨x.1, x.2.2⟩
        rw [if_neg c1, if_neg c2, g1]
        have c3 : ¬ (T = dst ∧ um p.1 p.2 a b ∧ (h (s.get src p.1 p.2)).isSome) := by
          rintro ⟨x, y, z⟩
          apply c; refine ⟨x, ?_⟩
          have : s.get src p.1 p.2 = s.get src a b := by
            rcases y with ⟨rfl, rfl⟩ | ⟨rfl, rfl⟩
            · rfl
            · exact get_symm s hi _ _ _
          rw [← this]; exact z
        rw [if_neg c3]
    · have c1 : ¬ (T = dst ∧ memU l a b ∧ (h ((stepP src dst h s p).get src a b)).isSome) := fun x => hm x.2.1
      rw [if_neg c1, g1]
      have hmm : memU (p :: l) a b ↔ um p.1 p.2 a b := by
        constructor
        · rintro ⟨q, hq, hqm⟩
          rcases List.mem_cons.mp hq with rfl | hq'
          · exact hqm
          · exact absurd ⟨q, hq', hqm⟩ hm
        · intro x; exact ⟨p, by simp, x⟩
      by_cases hu : um p.1 p.2 a b
      · have : s.get src p.1 p.2 = s.get src a b := by
          rcases hu with ⟨rfl, rfl⟩ | ⟨rfl, rfl⟩
          · rfl
          · exact get_symm s hi _ _ _
        rw [this]
        simp [hmm, hu]
      · simp [hmm, hu]

/-! ### `__setitem__` with list keys (constant value: duplicates in the key lists are harmless) -/

theorem setRow_spec (s : TS V) (hi : TInv s) (T : Nat) (hd : T < s.ntab) (i : Nat) (js : List Nat) (v : V) :
    TInv (js.foldl (fun s j => s.setOne T i j v) s) ∧ Frame s (js.foldl (fun s j => s.setOne T i j v) s) ∧
    ∀ T' a b, (js.foldl (fun s j => s.setOne T i j v) s).get T' a b =
      if T' = T ∧ ∃ j ∈ js, um i j a b then some v else s.get T' a b := by
  induction js generalizing s with
  | nil => exact ⟨hi, Frame.refl s, by intro T' a b; simp⟩
  | cons j js ih =>
    simp only [List.foldl_cons]
    have i1 := inv_setOne s hi T i j hd v
    have f1 := frame_setOne s T i j v
    obtain ⟨i2, f2, g2⟩ := ih (s.setOne T i j v) i1 (by rw [f1.ntab]; exact hd)
    refine ⟨i2, f1.trans f2, ?_⟩
    intro T' a b
    rw [g2, get_setOne s hi]
    by_cases c1 : T' = T ∧ ∃ j' ∈ js, um i j' a b
    · have c2 : T' = T ∧ ∃ j' ∈ j :: js, um i j' a b := by
        obtain ⟨x, j', hj', hu⟩ := c1; exact ⟨x, j', List.mem_cons_of_mem _ hj', hu⟩
      rw [if_pos c1, if_pos c2]
    · rw [if_neg c1]
      by_cases c3 : T' = T ∧ um i j a b
      · have c2 : T' = T ∧ ∃ j' ∈ j :: js, um i j' a b := ⟨c3.1, j, by simp, c3.2⟩
        rw [if_pos c3, if_pos c2]
      · have c2 : ¬ (T' = T ∧ ∃ j' ∈ j :: js, um i j' a b) := by
          rintro ⟨x, j', hj', hu⟩
          rcases List.mem_cons.mp hj' with rfl | hj''
          · exact c3 ⟨x, hu⟩
          · exact c1 ⟨x, j', hj'', hu⟩
        rw [if_neg c3, if_neg c2]

theorem setList_spec (s : TS V) (hi : TInv s) (T : Nat) (hd : T < s.ntab) (is js : List Nat) (v : V) :
    TInv (s.setList T is js v) ∧ Frame s (s.setList T is js v) ∧
    ∀ T' a b, (s.setList T is js v).get T' a b =
      if T' = T ∧ ∃ i ∈ is, ∃ j ∈ js, um i j a b then some v else s.get T' a b := by
  unfold TS.setList
  induction is generalizing s with
  | nil => exact ⟨hi, Frame.refl s, by intro T' a b; simp⟩
  | cons i is ih =>
    simp only [List.foldl_cons]
    obtain ⟨i1, f1, g1⟩ := setRow_spec s hi T hd i js v
    obtain ⟨i2, f2, g2⟩ := ih (js.foldl (fun s j => s.setOne T i j v) s) i1 (by rw [f1.ntab]; exact hd)
    refine ⟨i2, f1.trans f2, ?_⟩
    intro T' a b
    rw [g2, g1]
    by_cases c1 : T' = T ∧ ∃ i' ∈ is, ∃ j ∈ js, um i' j a b
    · have c2 : T' = T ∧ ∃ i' ∈ i :: is, ∃ j ∈ js, um i' j a b := by
        obtain ⟨x, i', hi', r⟩ := c1; exact ⟨x, i', List.mem_cons_of_mem _ hi', r⟩
      rw [if_pos c1, if_pos c2]
    · rw [if_neg c1]
      by_cases c3 : T' = T ∧ ∃ j ∈ js, um i j a b
      · have c2 : T' = T ∧ ∃ i' ∈ i :: is, ∃ j ∈ js, um i' j a b := ⟨c3.1, i, by simp, c3.2⟩
        rw [if_pos c3, if_pos c2]
      · have c2 : ¬ (T' = T ∧ ∃ i' ∈ i :: is, ∃ j ∈ js, um i' j a b) := by
          rintro ⟨x, i', hi', r⟩
          rcases List.mem_cons.mp hi' with rfl | hi''
          · exact c3 ⟨x, r⟩
          · exact c1 ⟨x, i', hi'', r⟩
        rw [if_neg c3, if_neg c2]

/-! ### the iteration list -/

theorem mem_iterpairs (n : Nat) (full diagonal : Bool) (i j : Nat) :
    (i, j) ∈ iterpairs n full diagonal ↔
      i < n ∧ j < n ∧ (full = true ∨ (diagonal = true ∧ i ≤ j) ∨ (diagonal = false ∧ i < j)) := by
  unfold iterpairs
  simp only [List.mem_flatMap, List.mem_range, List.mem_map, List.mem_filter, Prod.mk.injEq]
  constructor
  · rintro ⟨i', hi', j', ⟨hj', ht⟩, rfl, rfl⟩
    refine ⟨hi', hj', ?_⟩
    cases full <;> cases diagonal <;> simp_all
  · rintro ⟨hi, hj, ht⟩
    refine ⟨i, hi, j, ⟨hj, ?_⟩, rfl, rfl⟩
    cases full <;> cases diagonal <;> simp_all

theorem iterpairs_upper_pairwise (n : Nat) :
    (iterpairs n false true).Pairwise (fun p q => ¬ um p.1 p.2 q.1 q.2) := by
  unfold iterpairs
  rw [List.pairwise_flatMap]
  constructor
  · intro i _
    rw [List.pairwise_map]
    have : ((List.range n).filter fun j => if false = true then true else if true = true then decide (i ≤ j) else decide (i < j)).Pairwise (· ≠ ·) :=
      (List.nodup_range (n := n)).filter _
    refine this.imp ?_
    intro a b hab; unfold um; simp; omega
  · refine (List.pairwise_lt_range (n := n)).imp ?_
    intro i i' hii' p hp q hq
    simp only [List.mem_map, List.mem_filter, List.mem_range] at hp hq
    obtain ⟨j, ⟨_, hj⟩, rfl⟩ := hp
    obtain ⟨j', ⟨_, hj'⟩, rfl⟩ := hq
    simp at hj hj'
    unfold um; simp; omega

theorem memU_iterpairs_upper (n a b : Nat) : memU (iterpairs n false true) a b ↔ a < n ∧ b < n := by
  unfold memU
  constructor
  · rintro ⟨⟨i, j⟩, hp, hu⟩
    have := (mem_iterpairs n false true i j).mp hp
    unfold um at hu; simp at hu; omega
  · rintro ⟨ha, hb⟩
    by_cases h : a ≤ b
    · exact ⟨(a, b), (mem_iterpairs n false true a b).mpr ⟨ha, hb, by simp [h]⟩, Or.inl ⟨rfl, rfl⟩⟩
    · exact ⟨(b, a), (mem_iterpairs n false true b a).mpr ⟨hb, ha, by simp; omega⟩, Or.inr ⟨rfl, rfl⟩⟩
