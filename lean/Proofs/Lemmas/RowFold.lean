import Proofs.RealInst
/-! Generic lemma about "write the row and mirrored column of type `t1`" loops
(`Density.__setitem__`, `Diameter.__setitem__`). -/

/-- fold over `t2 = 0 … k-1` writing `setSym f t1 t2 w` whenever `val t2 = some w` -/
def rowFold {β} (val : Nat → Option β) (t1 : Nat) (f : Nat → Nat → β) (k : Nat) : Nat → Nat → β :=
  (List.range k).foldl (fun f t2 => match val t2 with | none => f | some w => setSym f t1 t2 w) f

theorem rowFold_succ {β} (val : Nat → Option β) (t1 : Nat) (f : Nat → Nat → β) (k : Nat) :
    rowFold val t1 f (k+1) =
      (match val k with | none => rowFold val t1 f k | some w => setSym (rowFold val t1 f k) t1 k w) := by
  simp [rowFold, List.range_succ, List.foldl_append]

/-- closed form of the row/column update -/
theorem rowFold_apply {β} (val : Nat → Option β) (t1 : Nat) (f : Nat → Nat → β) (k a b : Nat) :
    rowFold val t1 f k a b =
      if a = t1 ∧ b < k ∧ (val b).isSome then (val b).getD (f a b)
      else if b = t1 ∧ a < k ∧ (val a).isSome then (val a).getD (f a b)
      else f a b := by
  induction k with
  | zero => simp [rowFold]
  | succ k ih =>
    rw [rowFold_succ]
    cases hk : val k with
    | none =>
      simp only [ih]
      by_cases hb : b = k
      · subst hb; simp [hk]
        by_cases ha : a = b
        · subst ha; simp [hk]
        · grind
      · by_cases ha : a = k
        · subst ha; simp [hk]; grind
        · have h1 : (b < k + 1) = (b < k) := by simp; omega
          have h2 : (a < k + 1) = (a < k) := by simp; omega
          simp only [h1, h2]
    | some w =>
      simp only [setSym, ih]
      by_cases h1 : a = t1 ∧ b = k
      · obtain ⟨rfl, rfl⟩ := h1; simp [hk]
      · by_cases h2 : a = k ∧ b = t1
        · obtain ⟨rfl, rfl⟩ := h2
          simp [hk]
          grind
        · simp only [h1, h2, or_self, if_false]
          have e1 : (a = t1 ∧ b < k + 1 ∧ (val b).isSome) = (a = t1 ∧ b < k ∧ (val b).isSome) := by
            apply propext; constructor
            · rintro ⟨x, y, z⟩; exact ⟨x, by grind, z⟩
            · rintro ⟨x, y, z⟩; exact ⟨x, by omega, z⟩
          have e2 : (b = t1 ∧ a < k + 1 ∧ (val a).isSome) = (b = t1 ∧ a < k ∧ (val a).isSome) := by
            apply propext; constructor
            · rintro ⟨x, y, z⟩; exact ⟨x, by grind, z⟩
            · rintro ⟨x, y, z⟩; exact ⟨x, by omega, z⟩
          simp only [e1, e2]
