import Proofs.RealInst
/-! What the copying loop of `PRISM.__init__` (`copyPair`, `Model/SysHeap.lean`) leaves in the store: for every pair of the
upper triangle a private potential cell and a private closure cell whose contents are functions of the System's own cells. -/

/-- the potential object `PRISM.__init__` leaves for pair `(i,j)`: the System's, with `sigma` defaulted -/
noncomputable def potOf (s : SysH ℝ) (h : Store ℝ) (i j : ℕ) : PotSpec ℝ :=
  let P0 : PotSpec ℝ := ((s.potR i j).bind h.pot).getD default
  { P0 with sigma := some (match P0.sigma with | some v => v | none => (s.diam.sigma i j).getD (Lit.ofNat 0)) }

/-- the closure object it leaves: the System's, with the contact distance and `U(r)/kT` written in -/
noncomputable def cloOf (s : SysH ℝ) (d : Dom ℝ) (h : Store ℝ) (i j : ℕ) : CloObj ℝ :=
  let sig : ℝ := (s.diam.sigma i j).getD (Lit.ofNat 0)
  let P0 : PotSpec ℝ := ((s.potR i j).bind h.pot).getD default
  let psig : ℝ := match P0.sigma with | some v => v | none => sig
  let P1 : PotSpec ℝ := { P0 with sigma := some psig }
  let C0 : CloObj ℝ := ((s.cloR i j).bind h.clo).getD default
  { C0 with sigma := some sig, potential := some (tab d.length fun l => P1.eval psig d.r[l]! / s.kT) }

theorem copyPair_writes (s : SysH ℝ) (d : Dom ℝ) (acc : CopyAcc ℝ) (i j : ℕ) :
    (copyPair s d acc (i, j)).st.pot acc.st.next = some (potOf s acc.st i j) ∧
    (copyPair s d acc (i, j)).st.clo (acc.st.next + 1) = some (cloOf s d acc.st i j) ∧
    (copyPair s d acc (i, j)).potR i j = acc.st.next ∧ (copyPair s d acc (i, j)).cloR i j = acc.st.next + 1 ∧
    (copyPair s d acc (i, j)).st.next = acc.st.next + 2 ∧
    (copyPair s d acc (i, j)).owned = (acc.st.next + 1) :: acc.st.next :: acc.owned := by
  unfold copyPair Store.allocPot Store.allocClo potOf cloOf
  simp [upd, setSym]
  constructor <;> (cases (((s.potR i j).bind acc.st.pot).getD default).sigma <;> rfl)

theorem copyPair_refs_other (s : SysH ℝ) (d : Dom ℝ) (acc : CopyAcc ℝ) (i j a b : ℕ)
    (h : ¬ ((a = i ∧ b = j) ∨ (a = j ∧ b = i))) :
    (copyPair s d acc (i, j)).potR a b = acc.potR a b ∧ (copyPair s d acc (i, j)).cloR a b = acc.cloR a b := by
  unfold copyPair Store.allocPot Store.allocClo
  simp [setSym, h]

theorem copyPair_below (s : SysH ℝ) (d : Dom ℝ) (acc : CopyAcc ℝ) (ij : ℕ × ℕ) (r : ℕ) (hr : r < acc.st.next) :
    (copyPair s d acc ij).st.pot r = acc.st.pot r ∧ (copyPair s d acc ij).st.clo r = acc.st.clo r := by
  obtain ⟨i, j⟩ := ij
  unfold copyPair Store.allocPot Store.allocClo
  have h1 : r ≠ acc.st.next := by omega
  have h2 : r ≠ acc.st.next + 1 := by omega
  constructor <;> simp [upd, h1, h2]

/-- what the System's cells say does not depend on cells allocated later -/
theorem potOf_stable (s : SysH ℝ) (h h' : Store ℝ) (n : ℕ) (hs : ∀ i j r, s.potR i j = some r → r < n)
    (hh : ∀ r, r < n → h'.pot r = h.pot r) (i j : ℕ) : potOf s h' i j = potOf s h i j := by
  unfold potOf
  cases e : s.potR i j with
  | none => rfl
  | some r => simp only [Option.bind]; rw [hh r (hs i j r e)]

theorem cloOf_stable (s : SysH ℝ) (d : Dom ℝ) (h h' : Store ℝ) (n : ℕ) (hsP : ∀ i j r, s.potR i j = some r → r < n)
    (hsC : ∀ i j r, s.cloR i j = some r → r < n)
    (hh : ∀ r, r < n → h'.pot r = h.pot r ∧ h'.clo r = h.clo r) (i j : ℕ) : cloOf s d h' i j = cloOf s d h i j := by
  unfold cloOf
  have e1 : (s.potR i j).bind h'.pot = (s.potR i j).bind h.pot := by
    cases e : s.potR i j with
    | none => rfl
    | some r => simp only [Option.bind]; exact (hh r (hsP i j r e)).1
  have e2 : (s.cloR i j).bind h'.clo = (s.cloR i j).bind h.clo := by
    cases e : s.cloR i j with
    | none => rfl
    | some r => simp only [Option.bind]; exact (hh r (hsC i j r e)).2
  rw [e1, e2]

/-- fold facts: the store only grows, cells below the starting `next` keep their contents, `owned` only grows -/
theorem copyFold_grow (s : SysH ℝ) (d : Dom ℝ) (l : List (ℕ × ℕ)) (acc : CopyAcc ℝ) :
    acc.st.next ≤ (l.foldl (copyPair s d) acc).st.next ∧
    (∀ r, r < acc.st.next → (l.foldl (copyPair s d) acc).st.pot r = acc.st.pot r ∧ (l.foldl (copyPair s d) acc).st.clo r = acc.st.clo r) ∧
    (∀ r ∈ acc.owned, r ∈ (l.foldl (copyPair s d) acc).owned) := by
  induction l generalizing acc with
  | nil => exact ⟨Nat.le_refl _, fun _ _ => ⟨rfl, rfl⟩, fun _ h => h⟩
  | cons ij l ih =>
    simp only [List.foldl_cons]
    obtain ⟨g1, g2, g3⟩ := ih (copyPair s d acc ij)
    obtain ⟨i, j⟩ := ij
    obtain ⟨_, _, _, _, hn, ho⟩ := copyPair_writes s d acc i j
    refine ⟨by omega, ?_, ?_⟩
    · intro r hr
      obtain ⟨a, b⟩ := g2 r (by omega)
      obtain ⟨a', b'⟩ := copyPair_below s d acc (i, j) r hr
      exact ⟨a.trans a', b.trans b'⟩
    · intro r hr
      apply g3
      rw [ho]; simp [hr]

/-- references of a pair that is not copied (again) stay what they are -/
theorem copyFold_refs_other (s : SysH ℝ) (d : Dom ℝ) (l : List (ℕ × ℕ)) (acc : CopyAcc ℝ) (a b : ℕ)
    (h : ∀ p ∈ l, ¬ ((a = p.1 ∧ b = p.2) ∨ (a = p.2 ∧ b = p.1))) :
    (l.foldl (copyPair s d) acc).potR a b = acc.potR a b ∧ (l.foldl (copyPair s d) acc).cloR a b = acc.cloR a b := by
  induction l generalizing acc with
  | nil => exact ⟨rfl, rfl⟩
  | cons ij l ih =>
    simp only [List.foldl_cons]
    obtain ⟨g1, g2⟩ := ih (copyPair s d acc ij) (fun p hp => h p (List.mem_cons_of_mem _ hp))
    obtain ⟨i, j⟩ := ij
    obtain ⟨c1, c2⟩ := copyPair_refs_other s d acc i j a b (h (i, j) (List.mem_cons_self ..))
    exact ⟨g1.trans c1, g2.trans c2⟩

/-- **after the copying loop every copied pair refers to its own private cells, whose contents are those functions of the
System's cells** -/
theorem copyFold_cells (s : SysH ℝ) (d : Dom ℝ) (l : List (ℕ × ℕ)) (acc : CopyAcc ℝ) (hnd : l.Nodup) (hle : ∀ p ∈ l, p.1 ≤ p.2)
    (hsP : ∀ i j r, s.potR i j = some r → r < acc.st.next) (hsC : ∀ i j r, s.cloR i j = some r → r < acc.st.next) :
    ∀ p ∈ l,
      (l.foldl (copyPair s d) acc).st.pot ((l.foldl (copyPair s d) acc).potR p.1 p.2) = some (potOf s acc.st p.1 p.2) ∧
      (l.foldl (copyPair s d) acc).st.clo ((l.foldl (copyPair s d) acc).cloR p.1 p.2) = some (cloOf s d acc.st p.1 p.2) ∧
      (l.foldl (copyPair s d) acc).potR p.1 p.2 ∈ (l.foldl (copyPair s d) acc).owned ∧
      (l.foldl (copyPair s d) acc).cloR p.1 p.2 ∈ (l.foldl (copyPair s d) acc).owned := by
  induction l generalizing acc with
  | nil => intro p hp; cases hp
  | cons ij l ih =>
    intro p hp
    simp only [List.foldl_cons]
    obtain ⟨i, j⟩ := ij
    obtain ⟨w1, w2, w3, w4, wn, wo⟩ := copyPair_writes s d acc i j
    have hnd' := (List.nodup_cons.mp hnd)
    rcases List.mem_cons.mp hp with hp' | hp'
    · -- the head pair: written now, never touched again
      subst hp'
      have hij : i ≤ j := hle (i, j) (List.mem_cons_self ..)
      have hother : ∀ q ∈ l, ¬ ((i = q.1 ∧ j = q.2) ∨ (i = q.2 ∧ j = q.1)) := by
        intro q hq hc
        have hq' := hle q (List.mem_cons_of_mem _ hq)
        rcases hc with ⟨e1, e2⟩ | ⟨e1, e2⟩
        · exact hnd'.1 (by rw [show (i, j) = q from by ext <;> simp [e1, e2]]; exact hq)
        · have : i = j := by omega
          exact hnd'.1 (by rw [show (i, j) = q from by ext <;> simp <;> omega]; exact hq)
      obtain ⟨r1, r2⟩ := copyFold_refs_other s d l (copyPair s d acc (i, j)) i j hother
      obtain ⟨g1, g2, g3⟩ := copyFold_grow s d l (copyPair s d acc (i, j))
      simp only
      rw [r1, r2, w3, w4]
      refine ⟨?_, ?_, ?_, ?_⟩
      · rw [(g2 acc.st.next (by omega)).1]; exact w1
      · rw [(g2 (acc.st.next + 1) (by omega)).2]; exact w2
      · apply g3; rw [wo]; simp
      · apply g3; rw [wo]; simp
    · -- a later pair: induction hypothesis; the System's cells are still what they were
      have hs1 : ∀ a b r, s.potR a b = some r → r < (copyPair s d acc (i, j)).st.next := fun a b r e => by
        have := hsP a b r e; omega
      have hs2 : ∀ a b r, s.cloR a b = some r → r < (copyPair s d acc (i, j)).st.next := fun a b r e => by
        have := hsC a b r e; omega
      obtain ⟨a1, a2, a3, a4⟩ := ih (copyPair s d acc (i, j)) hnd'.2 (fun q hq => hle q (List.mem_cons_of_mem _ hq)) hs1 hs2 p hp'
      have hst : ∀ r, r < acc.st.next → (copyPair s d acc (i, j)).st.pot r = acc.st.pot r ∧ (copyPair s d acc (i, j)).st.clo r = acc.st.clo r :=
        fun r hr => copyPair_below s d acc (i, j) r hr
      refine ⟨?_, ?_, a3, a4⟩
      · rw [a1, potOf_stable s acc.st _ acc.st.next hsP (fun r hr => (hst r hr).1)]
      · rw [a2, cloOf_stable s d acc.st _ acc.st.next hsP hsC hst]

theorem upperPairs_nodup (n : ℕ) : (upperPairs n).Nodup := by
  unfold upperPairs
  rw [List.nodup_flatMap]
  refine ⟨?_, ?_⟩
  · intro i _
    exact (List.nodup_range.filter _).map (fun a b h => by simpa using h)
  · apply List.Pairwise.imp _ List.nodup_range
    intro a b hab
    simp only [Function.onFun, List.disjoint_left, List.mem_map, List.mem_filter, List.mem_range, decide_eq_true_eq]
    rintro ⟨x, y⟩ ⟨j, _, e1⟩ ⟨j', _, e2⟩
    simp only [Prod.mk.injEq] at e1 e2
    exact hab (e1.1.trans e2.1.symm)

theorem mem_upperPairs (n i j : ℕ) : (i, j) ∈ upperPairs n ↔ i ≤ j ∧ j < n := by
  unfold upperPairs
  simp only [List.mem_flatMap, List.mem_map, List.mem_filter, List.mem_range, decide_eq_true_eq, Prod.mk.injEq]
  constructor
  · rintro ⟨a, _, b, ⟨hb, hab⟩, rfl, rfl⟩; exact ⟨hab, hb⟩
  · rintro ⟨h1, h2⟩; exact ⟨i, by omega, j, ⟨h2, h1⟩, rfl, rfl⟩
