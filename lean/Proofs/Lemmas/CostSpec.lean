import Proofs.Props.C07
import Proofs.PrismAlg
import Mathlib.Data.Matrix.Mul
/-!
Element-wise description of everything `Prism.cost` computes (helper lemmas for C01–C04).
-/
open Finset Real

theorem loI_lt {n i j : ℕ} (hi : i < n) (hj : j < n) : loI i j < n := by unfold loI; split <;> assumption
theorem hiI_lt {n i j : ℕ} (hi : i < n) (hj : j < n) : hiI i j < n := by unfold hiI; split <;> assumption
theorem loI_le_hiI (i j : ℕ) : loI i j ≤ hiI i j := by unfold loI hiI; split <;> omega
theorem loI_comm (i j : ℕ) : loI i j = loI j i := by unfold loI; split <;> split <;> omega
theorem hiI_comm (i j : ℕ) : hiI i j = hiI j i := by unfold hiI; split <;> split <;> omega
theorem loI_of_le {i j : ℕ} (h : i ≤ j) : loI i j = i := by unfold loI; rw [if_pos h]
theorem hiI_of_le {i j : ℕ} (h : i ≤ j) : hiI i j = j := by unfold hiI; rw [if_pos h]
theorem loI_eq_min (i j : ℕ) : loI i j = min i j := by unfold loI; split <;> omega
theorem hiI_eq_max (i j : ℕ) : hiI i j = max i j := by unfold hiI; split <;> omega

theorem ofPairs_at (L n : ℕ) (sp : Space) (f : ℕ → ℕ → Array ℝ) {l i j : ℕ} (hl : l < L) (hi : i < n) (hj : j < n) :
    (MA.ofPairs L n sp f).at l i j = (f (loI i j) (hiI i j))[l]! := by
  unfold MA.ofPairs
  simp only
  rw [build_at _ _ _ _ hl hi hj]
  rw [tab_get _ _ _ (flat2_lt (loI_lt hi hj) (hiI_lt hi hj)), flat2_div (hiI_lt hi hj), flat2_mod (hiI_lt hi hj),
    if_pos (loI_le_hiI i j)]

@[simp] theorem ofPairs_length (L n : ℕ) (sp : Space) (f : ℕ → ℕ → Array ℝ) : (MA.ofPairs L n sp f).length = L := rfl
@[simp] theorem ofPairs_rank (L n : ℕ) (sp : Space) (f : ℕ → ℕ → Array ℝ) : (MA.ofPairs L n sp f).rank = n := rfl
@[simp] theorem ofPairs_space (L n : ℕ) (sp : Space) (f : ℕ → ℕ → Array ℝ) : (MA.ofPairs L n sp f).space = sp := rfl

theorem ofPairs_symm (L n : ℕ) (sp : Space) (f : ℕ → ℕ → Array ℝ) : C07.MA.Symm (MA.ofPairs L n sp f) := by
  intro l i j hl hi hj
  simp only [ofPairs_length, ofPairs_rank] at hl hi hj
  rw [ofPairs_at L n sp f hl hi hj, ofPairs_at L n sp f hl hj hi, loI_comm, hiI_comm]

/-- the intermediates of one `cost` evaluation -/
structure CostTrace (inv : ℕ → Array ℝ → Array ℝ) (p q : Prism ℝ) (x : Array ℝ) where
  gin : MA ℝ
  cR : MA ℝ
  cF : MA ℝ
  oc : MA ℝ
  ioc : MA ℝ
  t1 : MA ℝ
  t2 : MA ℝ
  h : MA ℝ
  goF : MA ℝ
  go : MA ℝ
  hgin : gin = MA.build p.dom.length p.n .real fun l i j => x[(l * p.n + i) * p.n + j]! / p.dom.r[l]!
  hcR : cR = p.closureStep gin
  hcF : p.dom.maToFourier cR = .ok cF
  hoc : p.omega.dot cF = .ok oc
  hioc : (MA.identity p.dom.length p.n .fourier : MA ℝ).binop (· - ·) (.ma oc) = .ok ioc
  ht1 : (ioc.invert inv).dot oc = .ok t1
  ht2 : t1.dot p.omega = .ok t2
  hh : t2.binop (· / ·) (.ma p.pairD) = .ok h
  hgoF : h.binop (· - ·) (.ma cF) = .ok goF
  hgo : p.dom.maToReal goF = .ok go
  hq_c : q.directCorr = cF
  hq_h : q.totalCorr = h
  hq_gi : q.gammaIn = gin
  hq_go : q.gammaOut = go
  hq_x : q.x = x
  hq_y : q.y = tab (p.dom.length * p.n * p.n) fun idx => p.dom.r[idx / (p.n * p.n)]! * (go.data[idx]! - gin.data[idx]!)
  hq_om : q.omega = p.omega
  hq_dom : q.dom = p.dom
  hq_n : q.n = p.n
  hq_pair : q.pairD = p.pairD

/-- a successful `cost` evaluation went through every step -/
theorem cost_trace (inv : ℕ → Array ℝ → Array ℝ) (p q : Prism ℝ) (x : Array ℝ) (h : p.cost inv x = .ok q) :
    Nonempty (CostTrace inv p q x) := by
  unfold Prism.cost at h
  simp only [bind, Except.bind, pure, Except.pure] at h
  split at h; · cases h
  rename_i cF hcF
  split at h; · cases h
  rename_i oc hoc
  split at h; · cases h
  rename_i ioc hioc
  split at h; · cases h
  rename_i t1 ht1
  split at h; · cases h
  rename_i t2 ht2
  split at h; · cases h
  rename_i hh hhh
  split at h; · cases h
  rename_i goF hgoF
  split at h; · cases h
  rename_i go hgo
  cases h
  exact ⟨{ gin := _, cR := _, cF := cF, oc := oc, ioc := ioc, t1 := t1, t2 := t2, h := hh, goF := goF, go := go,
           hgin := rfl, hcR := rfl, hcF := hcF, hoc := hoc, hioc := hioc, ht1 := ht1, ht2 := ht2, hh := hhh,
           hgoF := hgoF, hgo := hgo, hq_c := rfl, hq_h := rfl, hq_gi := rfl, hq_go := rfl, hq_x := rfl, hq_y := rfl,
           hq_om := rfl, hq_dom := rfl, hq_n := rfl, hq_pair := rfl }⟩

/-! ### results of the MatrixArray operations as `MA.build` terms -/

theorem dot_eq {A B R : MA ℝ} (h : A.dot B = .ok R) :
    R = MA.build A.length A.rank A.space fun l i k => sumTo A.rank fun j => A.at l i j * B.at l j k := by
  unfold MA.dot at h; split at h
  · cases h; rfl
  · cases h

theorem binop_eq {f : ℝ → ℝ → ℝ} {A R : MA ℝ} {o : Operand ℝ} (h : A.binop f o = .ok R) :
    R = MA.build A.length A.rank A.space fun l i j => f (A.at l i j) (o.at A.rank l i j) := by
  unfold MA.binop at h; split at h
  · cases h; rfl
  · cases h

theorem maToFourier_eq {d : Dom ℝ} {A R : MA ℝ} (h : d.maToFourier A = .ok R) : R = A.mapPairs .fourier d.toFourier := by
  unfold Dom.maToFourier at h; split at h
  · cases h
  · cases h; rfl

theorem maToReal_eq {d : Dom ℝ} {A R : MA ℝ} (h : d.maToReal A = .ok R) : R = A.mapPairs .real d.toReal := by
  unfold Dom.maToReal at h; split at h
  · cases h
  · cases h; rfl

theorem bcast_idx {B : MA ℝ} {l : ℕ} (hl : l < B.length) : (if B.length = 1 then 0 else l) = l := by
  split <;> omega

/-- flattened `n × n` matrix of a function, as `MA.invert` hands it to `inv` -/
noncomputable def flatF (n : ℕ) (f : ℕ → ℕ → ℝ) : Array ℝ := tab (n * n) fun idx => f (idx / n) (idx % n)

theorem flatF_congr (n : ℕ) (f g : ℕ → ℕ → ℝ) (h : ∀ i j, i < n → j < n → f i j = g i j) : flatF n f = flatF n g := by
  unfold flatF
  apply tab_congr
  intro idx hidx
  have hn : 0 < n := by
    rcases Nat.eq_zero_or_pos n with h0 | h0
    · subst h0; simp at hidx
    · exact h0
  apply h
  · exact Nat.div_lt_of_lt_mul (by rwa [Nat.mul_comm] at hidx)
  · exact Nat.mod_lt _ hn

/-- the external inverse's specification at one matrix: `inv(A)·A = 1` -/
def InvOn (inv : ℕ → Array ℝ → Array ℝ) (n : ℕ) (f : ℕ → ℕ → ℝ) : Prop :=
  (Matrix.of fun (i j : Fin n) => (inv n (flatF n f))[i.1 * n + j.1]!) * (Matrix.of fun (i j : Fin n) => f i.1 j.1) = 1

theorem invert_at (inv : ℕ → Array ℝ → Array ℝ) (A : MA ℝ) {l i j : ℕ} (hl : l < A.length) (hi : i < A.rank) (hj : j < A.rank) :
    (A.invert inv).at l i j = (inv A.rank (flatF A.rank (A.at l)))[i * A.rank + j]! := by
  unfold MA.invert
  rw [build_at _ _ _ _ hl hi hj]
  rfl

/-- well-formed PRISM state: shapes of the stored arrays agree with the domain and the rank -/
structure PWf (p : Prism ℝ) : Prop where
  om_len : p.omega.length = p.dom.length
  om_rank : p.omega.rank = p.n
  pair_len : p.pairD.length = 1
  pair_rank : p.pairD.rank = p.n

namespace CostTrace
variable {inv : ℕ → Array ℝ → Array ℝ} {p q : Prism ℝ} {x : Array ℝ} (T : CostTrace inv p q x)

theorem gin_at {l i j : ℕ} (hl : l < p.dom.length) (hi : i < p.n) (hj : j < p.n) :
    T.gin.at l i j = x[(l * p.n + i) * p.n + j]! / (((l : ℝ) + 1) * p.dom.dr) := by
  rw [T.hgin, build_at _ _ _ _ hl hi hj, C07.grid_r p.dom l hl]

theorem gin_meta : T.gin.length = p.dom.length ∧ T.gin.rank = p.n := by rw [T.hgin]; exact ⟨rfl, rfl⟩

theorem cR_meta : T.cR.length = p.dom.length ∧ T.cR.rank = p.n ∧ T.cR.space = .real := by
  rw [T.hcR]; exact ⟨rfl, rfl, rfl⟩

/-- the closure step: every entry is the pair's own closure at that grid point -/
theorem cR_at {l i j : ℕ} (hl : l < p.dom.length) (hi : i < p.n) (hj : j < p.n) :
    T.cR.at l i j = closureAt (p.cloK (loI i j) (hiI i j)).1 (p.cloK (loI i j) (hiI i j)).2 (p.cloSigma (loI i j) (hiI i j))
      (((l : ℝ) + 1) * p.dom.dr) (T.gin.at l (loI i j) (hiI i j)) ((p.u (loI i j) (hiI i j))[l]!) := by
  rw [T.hcR]
  unfold Prism.closureStep
  simp only
  rw [ofPairs_at _ _ _ _ hl hi hj]
  unfold closureArr
  have hsz : (T.gin.pair (loI i j) (hiI i j)).size = p.dom.length := by
    unfold MA.pair; rw [tab_size]; exact T.gin_meta.1
  rw [hsz, tab_get _ _ _ hl, C07.grid_r p.dom l hl, C07.pair_get _ _ _ _ (by rw [T.gin_meta.1]; exact hl)]

theorem cR_symm : C07.MA.Symm T.cR := by
  rw [T.hcR]; unfold Prism.closureStep; exact ofPairs_symm _ _ _ _

theorem cF_meta : T.cF.length = p.dom.length ∧ T.cF.rank = p.n ∧ T.cF.space = .fourier := by
  rw [maToFourier_eq T.hcF]
  obtain ⟨a, b, c⟩ := C07.mapPairs_meta T.cR .fourier p.dom.toFourier
  rw [a, b, c]; exact ⟨T.cR_meta.1, T.cR_meta.2.1, rfl⟩

/-- the stored Fourier-space direct correlation is the transform of the closure output, pair by pair -/
theorem cF_at {l i j : ℕ} (hl : l < p.dom.length) (hi : i < p.n) (hj : j < p.n) :
    T.cF.at l i j = (p.dom.toFourier (T.cR.pair i j))[l]! := by
  have := (C07.maToFourier_spec p.dom T.cR T.cF T.cR_symm T.hcF (l := l) (i := i) (j := j)
    (by rw [T.cR_meta.1]; exact hl) (by rw [T.cR_meta.2.1]; exact hi) (by rw [T.cR_meta.2.1]; exact hj)).1
  exact this

theorem cF_symm {l i j : ℕ} (hl : l < p.dom.length) (hi : i < p.n) (hj : j < p.n) : T.cF.at l i j = T.cF.at l j i := by
  exact (C07.maToFourier_spec p.dom T.cR T.cF T.cR_symm T.hcF (l := l) (i := i) (j := j)
    (by rw [T.cR_meta.1]; exact hl) (by rw [T.cR_meta.2.1]; exact hi) (by rw [T.cR_meta.2.1]; exact hj)).2.2.2.2

theorem oc_at (w : PWf p) {l i k : ℕ} (hl : l < p.dom.length) (hi : i < p.n) (hk : k < p.n) :
    T.oc.at l i k = ∑ j ∈ range p.n, p.omega.at l i j * T.cF.at l j k := by
  rw [dot_eq T.hoc, build_at _ _ _ _ (by rw [w.om_len]; exact hl) (by rw [w.om_rank]; exact hi) (by rw [w.om_rank]; exact hk),
    sumTo_eq_sum, w.om_rank]

theorem oc_meta (w : PWf p) : T.oc.length = p.dom.length ∧ T.oc.rank = p.n := by
  rw [dot_eq T.hoc]; exact ⟨w.om_len, w.om_rank⟩

theorem ioc_at (w : PWf p) {l i j : ℕ} (hl : l < p.dom.length) (hi : i < p.n) (hj : j < p.n) :
    T.ioc.at l i j = (if i = j then 1 else 0) - T.oc.at l i j := by
  rw [binop_eq T.hioc]
  have hL : (MA.identity p.dom.length p.n Space.fourier : MA ℝ).length = p.dom.length := rfl
  have hn : (MA.identity p.dom.length p.n Space.fourier : MA ℝ).rank = p.n := rfl
  rw [hL, hn, build_at _ _ _ _ hl hi hj]
  simp only [Operand.at]
  rw [bcast_idx (by rw [(T.oc_meta w).1]; exact hl)]
  unfold MA.identity
  rw [build_at _ _ _ _ hl hi hj]
  split <;> simp

theorem ioc_meta : T.ioc.length = p.dom.length ∧ T.ioc.rank = p.n := by
  rw [binop_eq T.hioc]; exact ⟨rfl, rfl⟩

theorem t1_at (w : PWf p) {l i k : ℕ} (hl : l < p.dom.length) (hi : i < p.n) (hk : k < p.n) :
    T.t1.at l i k = ∑ j ∈ range p.n, (T.ioc.invert inv).at l i j * T.oc.at l j k := by
  have hL : (T.ioc.invert inv).length = p.dom.length := T.ioc_meta.1
  have hn : (T.ioc.invert inv).rank = p.n := T.ioc_meta.2
  rw [dot_eq T.ht1, build_at _ _ _ _ (by rw [hL]; exact hl) (by rw [hn]; exact hi) (by rw [hn]; exact hk), sumTo_eq_sum, hn]

theorem t1_meta : T.t1.length = p.dom.length ∧ T.t1.rank = p.n := by
  rw [dot_eq T.ht1]; exact ⟨T.ioc_meta.1, T.ioc_meta.2⟩

theorem t2_at {l i k : ℕ} (hl : l < p.dom.length) (hi : i < p.n) (hk : k < p.n) :
    T.t2.at l i k = ∑ j ∈ range p.n, T.t1.at l i j * p.omega.at l j k := by
  rw [dot_eq T.ht2, build_at _ _ _ _ (by rw [T.t1_meta.1]; exact hl) (by rw [T.t1_meta.2]; exact hi) (by rw [T.t1_meta.2]; exact hk),
    sumTo_eq_sum, T.t1_meta.2]

theorem t2_meta : T.t2.length = p.dom.length ∧ T.t2.rank = p.n := by
  rw [dot_eq T.ht2]; exact ⟨T.t1_meta.1, T.t1_meta.2⟩

/-- `totalCorr /= density.pair` -/
theorem h_at (w : PWf p) {l i j : ℕ} (hl : l < p.dom.length) (hi : i < p.n) (hj : j < p.n) :
    T.h.at l i j = T.t2.at l i j / p.pairD.at 0 i j := by
  rw [binop_eq T.hh, build_at _ _ _ _ (by rw [T.t2_meta.1]; exact hl) (by rw [T.t2_meta.2]; exact hi) (by rw [T.t2_meta.2]; exact hj)]
  simp only [Operand.at, w.pair_len, if_true]

theorem h_meta : T.h.length = p.dom.length ∧ T.h.rank = p.n := by
  rw [binop_eq T.hh]; exact ⟨T.t2_meta.1, T.t2_meta.2⟩

theorem goF_at {l i j : ℕ} (hl : l < p.dom.length) (hi : i < p.n) (hj : j < p.n) :
    T.goF.at l i j = T.h.at l i j - T.cF.at l i j := by
  rw [binop_eq T.hgoF, build_at _ _ _ _ (by rw [T.h_meta.1]; exact hl) (by rw [T.h_meta.2]; exact hi) (by rw [T.h_meta.2]; exact hj)]
  simp only [Operand.at]
  rw [bcast_idx (by rw [T.cF_meta.1]; exact hl)]

theorem goF_meta : T.goF.length = p.dom.length ∧ T.goF.rank = p.n := by
  rw [binop_eq T.hgoF]; exact ⟨T.h_meta.1, T.h_meta.2⟩

/-- `GammaOut` in real space: transform of the upper-triangle entry of `H - C` -/
theorem go_at {l i j : ℕ} (hl : l < p.dom.length) (hi : i < p.n) (hj : j < p.n) :
    T.go.at l i j = (p.dom.toReal (T.goF.pair (loI i j) (hiI i j)))[l]! := by
  rw [maToReal_eq T.hgo, C07.mapPairs_at _ _ _ (by rw [T.goF_meta.1]; exact hl) (by rw [T.goF_meta.2]; exact hi) (by rw [T.goF_meta.2]; exact hj),
    loI_eq_min, hiI_eq_max]

theorem go_meta : T.go.length = p.dom.length ∧ T.go.rank = p.n ∧ T.go.space = .real := by
  rw [maToReal_eq T.hgo]
  obtain ⟨a, b, c⟩ := C07.mapPairs_meta T.goF .real p.dom.toReal
  rw [a, b, c]; exact ⟨T.goF_meta.1, T.goF_meta.2, rfl⟩

theorem data_at (A : MA ℝ) (l i j : ℕ) : A.data[(l * A.rank + i) * A.rank + j]! = A.at l i j := rfl

/-- the returned residual `y = r (γ_out − γ_in)` -/
theorem y_at {l i j : ℕ} (hl : l < p.dom.length) (hi : i < p.n) (hj : j < p.n) :
    q.y[(l * p.n + i) * p.n + j]! = (((l : ℝ) + 1) * p.dom.dr) * (T.go.at l i j - T.gin.at l i j) := by
  rw [T.hq_y, tab_get _ _ _ (flat_lt hl hi hj), flat_div_sq hi hj, C07.grid_r p.dom l hl]
  have h1 : T.go.data[(l * p.n + i) * p.n + j]! = T.go.at l i j := by
    have := data_at T.go l i j; rw [T.go_meta.2.1] at this; exact this
  have h2 : T.gin.data[(l * p.n + i) * p.n + j]! = T.gin.at l i j := by
    have := data_at T.gin l i j; rw [T.gin_meta.2] at this; exact this
  rw [h1, h2]

end CostTrace
