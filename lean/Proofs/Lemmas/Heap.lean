import Proofs.RealInst
/-! Heap-level lemmas for `Model/Tables.lean`: the invariant, and what each primitive does
to every read `get T a b` and to every caller-held cell. -/

variable {V : Type}

/-- unordered match of the pair `(a,b)` with `(i,j)` -/
def um (i j a b : Nat) : Prop := (a = i ∧ b = j) ∨ (a = j ∧ b = i)
instance (i j a b : Nat) : Decidable (um i j a b) := by unfold um; infer_instance

theorem um_symm {i j a b : Nat} : um i j a b ↔ um i j b a := by unfold um; omega
theorem um_swap {i j a b : Nat} : um i j a b ↔ um j i a b := by unfold um; omega
theorem um_comm {i j a b : Nat} : um i j a b ↔ um a b i j := by unfold um; omega

/-- invariant of the object store + tables -/
structure TInv (s : TS V) : Prop where
  lt : ∀ T a b r, s.slot T a b = some r → r < s.next
  sym : ∀ T a b, s.slot T a b = s.slot T b a
  inj : ∀ T a b T' c d r, s.slot T a b = some r → s.slot T' c d = some r → T = T' ∧ um a b c d
  noext : ∀ T a b r, s.slot T a b = some r → s.ext r = false
  extlt : ∀ r, s.ext r = true → r < s.next
  live : ∀ T a b r, s.slot T a b = some r → (s.cell r).isSome = true
  fresh : ∀ T a b, s.ntab ≤ T → s.slot T a b = none

theorem inv_init (n : Nat) : TInv (TS.init n : TS V) := by
  refine ⟨?_, ?_, ?_, ?_, ?_, ?_, ?_⟩ <;> simp [TS.init]

theorem get_symm (s : TS V) (h : TInv s) (T a b : Nat) : s.get T a b = s.get T b a := by
  simp [TS.get, h.sym T a b]

theorem get_none_iff (s : TS V) (h : TInv s) (T a b : Nat) : s.get T a b = none ↔ s.slot T a b = none := by
  unfold TS.get
  cases hs : s.slot T a b with
  | none => simp
  | some r =>
    have := h.live T a b r hs
    cases hc : s.cell r with
    | none => simp [hc] at this
    | some v => simp [hc]

/-! ### setOne -/
theorem setOne_slot (s : TS V) (T i j : Nat) (v : V) (T' a b : Nat) :
    (s.setOne T i j v).slot T' a b = if T' = T ∧ um i j a b then some s.next else s.slot T' a b := rfl

theorem inv_setOne (s : TS V) (h : TInv s) (T i j : Nat) (hT : T < s.ntab) (v : V) : TInv (s.setOne T i j v) := by
  refine ⟨?_, ?_, ?_, ?_, ?_, ?_, ?_⟩
  · intro T' a b r hr
    rw [setOne_slot] at hr
    show r < s.next + 1
    split at hr
    · cases hr; omega
    · have := h.lt _ _ _ _ hr; omega
  · intro T' a b
    rw [setOne_slot, setOne_slot]
    by_cases c : T' = T ∧ um i j a b
    · have c' : T' = T ∧ um i j b a := ⟨c.1, um_symm.mp c.2⟩
      rw [if_pos c, if_pos c']
    · have c' : ¬ (T' = T ∧ um i j b a) := fun x => c ⟨x.1, um_symm.mp x.2⟩
      rw [if_neg c, if_neg c']; exact h.sym _ _ _
  · intro T1 a b T2 c d r h1 h2
    rw [setOne_slot] at h1 h2
    by_cases c1 : T1 = T ∧ um i j a b <;> by_cases c2 : T2 = T ∧ um i j c d
    · refine ⟨c1.1.trans c2.1.symm, ?_⟩
      have := c1.2; have := c2.2; unfold um at *; omega
    · rw [if_pos c1] at h1; rw [if_neg c2] at h2
      cases h1; have := h.lt _ _ _ _ h2; omega
    · rw [if_neg c1] at h1; rw [if_pos c2] at h2
      cases h2; have := h.lt _ _ _ _ h1; omega
    · rw [if_neg c1] at h1; rw [if_neg c2] at h2
      exact h.inj _ _ _ _ _ _ _ h1 h2
  · intro T' a b r hr
    rw [setOne_slot] at hr
    show s.ext r = false
    split at hr
    · cases hr
      cases he : s.ext s.next with
      | false => rfl
      | true => have := h.extlt _ he; omega
    · exact h.noext _ _ _ _ hr
  · intro r hr
    have := h.extlt r hr
    show r < s.next + 1
    omega
  · intro T' a b r hr
    rw [setOne_slot] at hr
    show ((upd s.cell s.next (some v)) r).isSome = true
    unfold upd
    split at hr
    · cases hr; simp
    · have h1 := h.lt _ _ _ _ hr
      have h2 := h.live _ _ _ _ hr
      have : r ≠ s.next := by omega
      simp [this, h2]
  · intro T' a b hT'
    rw [setOne_slot]
    have : T' ≠ T := by
      have : s.ntab ≤ T' := hT'
      omega
    simp [this]; exact h.fresh _ _ _ hT'

theorem get_setOne (s : TS V) (h : TInv s) (T i j : Nat) (v : V) (T' a b : Nat) :
    (s.setOne T i j v).get T' a b = if T' = T ∧ um i j a b then some v else s.get T' a b := by
  unfold TS.get
  rw [setOne_slot]
  by_cases c : T' = T ∧ um i j a b
  · rw [if_pos c, if_pos c]; simp [TS.setOne, upd]
  · rw [if_neg c, if_neg c]
    cases hs : s.slot T' a b with
    | none => simp
    | some r =>
      have := h.lt _ _ _ _ hs
      have hne : r ≠ s.next := by omega
      simp [TS.setOne, upd, hne]

/-- `setOne` never writes a cell that existed before (in particular no caller-held cell) -/
theorem cell_setOne (s : TS V) (T i j : Nat) (v : V) (c : Nat) (hc : c < s.next) :
    (s.setOne T i j v).cell c = s.cell c := by
  have : c ≠ s.next := by omega
  simp [TS.setOne, upd, this]

theorem meta_setOne (s : TS V) (T i j : Nat) (v : V) :
    (s.setOne T i j v).n = s.n ∧ (s.setOne T i j v).ntab = s.ntab ∧ (s.setOne T i j v).ext = s.ext ∧
    s.next ≤ (s.setOne T i j v).next := by
  simp [TS.setOne]

/-! ### mutRef -/
theorem inv_mutRef (s : TS V) (h : TInv s) (c : Nat) (g : V → V) : TInv (s.mutRef c g) := by
  refine ⟨h.lt, h.sym, h.inj, h.noext, h.extlt, ?_, h.fresh⟩
  intro T a b r hr
  have := h.live T a b r hr
  show (if r = c then (s.cell r).map g else s.cell r).isSome = true
  split <;> simp [this]

/-- changing the caller's own object changes no table entry -/
theorem get_mutRef_ext (s : TS V) (h : TInv s) (c : Nat) (hc : s.ext c = true) (g : V → V) (T a b : Nat) :
    (s.mutRef c g).get T a b = s.get T a b := by
  unfold TS.get
  show (s.slot T a b).bind (fun r => if r = c then (s.cell r).map g else s.cell r) = _
  cases hs : s.slot T a b with
  | none => rfl
  | some r =>
    have := h.noext _ _ _ _ hs
    have hne : r ≠ c := by intro e; rw [e, hc] at this; cases this
    simp [hne]

theorem cell_mutRef (s : TS V) (c : Nat) (g : V → V) (r : Nat) :
    (s.mutRef c g).cell r = if r = c then (s.cell r).map g else s.cell r := rfl

/-! ### mutate -/
theorem inv_mutate (s : TS V) (h : TInv s) (T i j : Nat) (g : V → V) : TInv (s.mutate T i j g) := by
  unfold TS.mutate; split
  · exact h
  · exact inv_mutRef s h _ g

/-- mutating the object stored at `(i,j)` of table `T` changes exactly that unordered pair of that table -/
theorem get_mutate (s : TS V) (h : TInv s) (T i j : Nat) (g : V → V) (T' a b : Nat) :
    (s.mutate T i j g).get T' a b =
      if T' = T ∧ um i j a b then (s.get T' a b).map g else s.get T' a b := by
  unfold TS.mutate
  cases hij : s.slot T i j with
  | none =>
    simp only
    split
    · rename_i hc
      obtain ⟨rfl, hc⟩ := hc
      have : s.slot T' a b = none := by
        rcases hc with ⟨rfl, rfl⟩ | ⟨rfl, rfl⟩
        · exact hij
        · rw [h.sym]; exact hij
      simp [TS.get, this]
    · rfl
  | some r =>
    simp only [TS.get]
    show (s.slot T' a b).bind (fun r' => if r' = r then (s.cell r').map g else s.cell r') = _
    cases hab : s.slot T' a b with
    | none => simp
    | some r' =>
      by_cases hr : r' = r
      · subst hr
        have := h.inj _ _ _ _ _ _ _ hab hij
        have c : T' = T ∧ um i j a b := ⟨this.1, um_comm.mp this.2⟩
        simp [c]
      · have c : ¬ (T' = T ∧ um i j a b) := by
          rintro ⟨rfl, hc⟩
          apply hr
          rcases hc with ⟨rfl, rfl⟩ | ⟨rfl, rfl⟩
          · rw [hij] at hab; cases hab; rfl
          · rw [h.sym, hij] at hab; cases hab; rfl
        simp [hr, c]

/-- mutating a stored object never changes a caller-held object -/
theorem cell_mutate_ext (s : TS V) (h : TInv s) (T i j : Nat) (g : V → V) (c : Nat) (hc : s.ext c = true) :
    (s.mutate T i j g).cell c = s.cell c := by
  unfold TS.mutate
  cases hij : s.slot T i j with
  | none => rfl
  | some r =>
    have := h.noext _ _ _ _ hij
    have hne : c ≠ r := by intro e; rw [e] at hc; rw [hc] at this; cases this
    simp [TS.mutRef, hne]

/-! ### newObj -/
theorem inv_newObj (s : TS V) (h : TInv s) (v : V) : TInv (s.newObj v) := by
  refine ⟨?_, h.sym, h.inj, ?_, ?_, ?_, h.fresh⟩
  · intro T a b r hr; have := h.lt T a b r hr; show r < s.next + 1; omega
  · intro T a b r hr
    have h1 := h.lt T a b r hr; have h2 := h.noext T a b r hr
    have : r ≠ s.next := by omega
    simp [TS.newObj, upd, this, h2]
  · intro r hr
    show r < s.next + 1
    simp only [TS.newObj, upd] at hr
    split at hr
    · omega
    · have := h.extlt r hr; omega
  · intro T a b r hr
    have h1 := h.lt T a b r hr; have h2 := h.live T a b r hr
    have : r ≠ s.next := by omega
    simp [TS.newObj, upd, this, h2]

theorem get_newObj (s : TS V) (h : TInv s) (v : V) (T a b : Nat) : (s.newObj v).get T a b = s.get T a b := by
  unfold TS.get
  show (s.slot T a b).bind (upd s.cell s.next (some v)) = _
  cases hs : s.slot T a b with
  | none => rfl
  | some r =>
    have := h.lt _ _ _ _ hs
    have hne : r ≠ s.next := by omega
    simp [upd, hne]
