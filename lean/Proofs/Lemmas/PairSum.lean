import Mathlib.Algebra.Ring.GeomSum
import Mathlib.Data.Real.Basic
import Mathlib.Tactic

open Finset

/-- pair sum Σ_{i,j<N} E^{|i-j|} -/
noncomputable def pairSum (N : ℕ) (E : ℝ) : ℝ :=
  ∑ i ∈ range N, ∑ j ∈ range N, E ^ (if i ≤ j then j - i else i - j)

theorem row_new (N : ℕ) (E : ℝ) :
    ∑ j ∈ range N, E ^ (if N ≤ j then j - N else N - j) = ∑ t ∈ range N, E ^ (t + 1) := by
  rw [← Finset.sum_range_reflect]
  apply Finset.sum_congr rfl
  intro j hj
  have hj' := mem_range.mp hj
  have : ¬ (N ≤ N - 1 - j) := by omega
  rw [if_neg this]
  congr 1; omega

theorem pairSum_succ (N : ℕ) (E : ℝ) :
    pairSum (N + 1) E = pairSum N E + 2 * ∑ t ∈ range N, E ^ (t + 1) + 1 := by
  unfold pairSum
  rw [Finset.sum_range_succ]
  simp_rw [Finset.sum_range_succ]
  rw [Finset.sum_add_distrib]
  have h1 : ∑ x ∈ range N, E ^ (if x ≤ N then N - x else x - N) = ∑ t ∈ range N, E ^ (t + 1) := by
    rw [← Finset.sum_range_reflect]
    apply Finset.sum_congr rfl
    intro j hj
    have hj' := mem_range.mp hj
    have : (N - 1 - j) ≤ N := by omega
    rw [if_pos this]
    congr 1; omega
  rw [h1, row_new]
  simp
  ring

theorem pairSum_closed (N : ℕ) (E : ℝ) :
    pairSum N E * (1 - E) ^ 2 = N * (1 - E ^ 2) - 2 * E + 2 * E ^ (N + 1) := by
  induction N with
  | zero => simp [pairSum]
  | succ N ih =>
    rw [pairSum_succ, add_mul, add_mul, ih]
    have hg : (∑ t ∈ range N, E ^ (t + 1)) * (1 - E) = E - E ^ (N + 1) := by
      have h := mul_neg_geom_sum E N
      have e : ∑ t ∈ range N, E ^ (t + 1) = E * ∑ i ∈ range N, E ^ i := by
        rw [Finset.mul_sum]; apply Finset.sum_congr rfl; intro t _; ring
      rw [e, mul_assoc, mul_comm (∑ i ∈ range N, E ^ i) (1 - E), h]; ring
    have : 2 * (∑ t ∈ range N, E ^ (t + 1)) * (1 - E) ^ 2 = 2 * (E - E ^ (N + 1)) * (1 - E) := by
      rw [← hg]; ring
    rw [this]; push_cast; ring

/-- closed form of the Gaussian / freely-jointed chain omega equals the defining pair sum -/
theorem closed_form_eq_pair_sum (N : ℕ) (hN : 0 < N) (E : ℝ) (hE : E ≠ 1) :
    (1 - E * E - 2 * E / N + 2 * E ^ (N + 1) / N) / (1 - E) ^ 2 = pairSum N E / N := by
  have hNr : (N : ℝ) ≠ 0 := by exact_mod_cast hN.ne'
  have h1 : (1 - E) ^ 2 ≠ 0 := pow_ne_zero 2 (sub_ne_zero.mpr (Ne.symm hE))
  rw [div_eq_div_iff h1 hNr]
  have := pairSum_closed N E
  field_simp
  nlinarith [this]
