import Proofs.RealInst
/-! Index arithmetic of the flattened `(length, rank, rank)` array. -/

theorem flat_lt {L n l i j : ℕ} (hl : l < L) (hi : i < n) (hj : j < n) : (l * n + i) * n + j < L * n * n := by
  have h1 : l * n + i + 1 ≤ L * n := by
    have : (l + 1) * n ≤ L * n := Nat.mul_le_mul_right n hl
    have : l * n + n ≤ L * n := by rw [Nat.add_mul, Nat.one_mul] at this; exact this
    omega
  have h2 : (l * n + i + 1) * n ≤ L * n * n := Nat.mul_le_mul_right n h1
  have h3 : (l * n + i + 1) * n = (l * n + i) * n + n := by rw [Nat.add_mul, Nat.one_mul]
  omega

theorem flat_div_sq {n l i j : ℕ} (hi : i < n) (hj : j < n) : ((l * n + i) * n + j) / (n * n) = l := by
  have hn : 0 < n := by omega
  have h : (l * n + i) * n + j = (i * n + j) + l * (n * n) := by ring
  have hlt : i * n + j < n * n := by
    have : (i + 1) * n ≤ n * n := Nat.mul_le_mul_right n hi
    have : i * n + n ≤ n * n := by rw [Nat.add_mul, Nat.one_mul] at this; exact this
    omega
  rw [h, Nat.add_mul_div_right _ _ (Nat.mul_pos hn hn), Nat.div_eq_of_lt hlt, Nat.zero_add]

theorem flat_div_mod {n l i j : ℕ} (hi : i < n) (hj : j < n) : ((l * n + i) * n + j) / n % n = i := by
  have hn : 0 < n := by omega
  have h : (l * n + i) * n + j = j + (l * n + i) * n := by ring
  rw [h, Nat.add_mul_div_right _ _ hn, Nat.div_eq_of_lt hj, Nat.zero_add]
  have : l * n + i = i + l * n := by ring
  rw [this, Nat.add_mul_mod_self_right, Nat.mod_eq_of_lt hi]

theorem flat_mod {n l i j : ℕ} (hj : j < n) : ((l * n + i) * n + j) % n = j := by
  have h : (l * n + i) * n + j = j + (l * n + i) * n := by ring
  rw [h, Nat.add_mul_mod_self_right, Nat.mod_eq_of_lt hj]

theorem flat2_div {n i j : ℕ} (hj : j < n) : (i * n + j) / n = i := by
  have hn : 0 < n := by omega
  have h : i * n + j = j + i * n := by ring
  rw [h, Nat.add_mul_div_right _ _ hn, Nat.div_eq_of_lt hj, Nat.zero_add]

theorem flat2_mod {n i j : ℕ} (hj : j < n) : (i * n + j) % n = j := by
  have h : i * n + j = j + i * n := by ring
  rw [h, Nat.add_mul_mod_self_right, Nat.mod_eq_of_lt hj]

theorem flat2_lt {n i j : ℕ} (hi : i < n) (hj : j < n) : i * n + j < n * n := by
  have : (i + 1) * n ≤ n * n := Nat.mul_le_mul_right n hi
  have : i * n + n ≤ n * n := by rw [Nat.add_mul, Nat.one_mul] at this; exact this
  omega

variable {α : Type} [Inhabited α]

/-- reading back an element of a freshly built MatrixArray -/
theorem build_at (L n : ℕ) (s : Space) (f : ℕ → ℕ → ℕ → α) {l i j : ℕ} (hl : l < L) (hi : i < n) (hj : j < n) :
    (MA.build L n s f).at l i j = f l i j := by
  unfold MA.at MA.build
  simp only
  rw [tab_get _ _ _ (flat_lt hl hi hj), flat_div_sq hi hj, flat_div_mod hi hj, flat_mod hj]

@[simp] theorem build_length (L n : ℕ) (s : Space) (f : ℕ → ℕ → ℕ → α) : (MA.build L n s f).length = L := rfl
@[simp] theorem build_rank (L n : ℕ) (s : Space) (f : ℕ → ℕ → ℕ → α) : (MA.build L n s f).rank = n := rfl
@[simp] theorem build_space (L n : ℕ) (s : Space) (f : ℕ → ℕ → ℕ → α) : (MA.build L n s f).space = s := rfl
