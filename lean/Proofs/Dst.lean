import Proofs.RealInst
import Proofs.Lemmas.TrigSums

open Finset Real TrigSums

theorem neg_one_pow_sin (i N : ℕ) (hN : 0 < N) :
    sin ((2 * i + 1 : ℝ) * ((N - 1 : ℕ) + 1 : ℝ) * (π / (2 * N))) = if i % 2 = 0 then 1 else -1 := by
  have hNr : (0 : ℝ) < N := by exact_mod_cast hN
  have hc : (((N - 1 : ℕ) : ℝ) + 1) = N := by
    have : N - 1 + 1 = N := by omega
    exact_mod_cast this
  rw [hc]
  have : (2 * (i : ℝ) + 1) * N * (π / (2 * N)) = π / 2 + i * π := by field_simp; ring
  rw [this, Real.sin_add_nat_mul_pi, Real.sin_pi_div_two]
  rcases Nat.even_or_odd i with h | h
  · rw [if_pos (Nat.even_iff.mp h), Even.neg_one_pow h]; ring
  · rw [if_neg (by rw [Nat.odd_iff] at h; omega), Odd.neg_one_pow h]; ring

/-- DST-III ∘ DST-II = 2N · id, for every length N ≥ 1 and every real array of that length. -/
theorem dst3_dst2 (N : ℕ) (hN : 0 < N) (x : Array ℝ) (i : ℕ) (hi : i < N) :
    (dst3 N (dst2 N x))[i]! = 2 * N * x[i]! := by
  have hNr : (0 : ℝ) < N := by exact_mod_cast hN
  unfold dst3
  rw [tab_get _ _ _ hi]
  -- rewrite entries of dst2
  have hy : ∀ k, k < N → (dst2 N x)[k]! =
      2 * ∑ n ∈ range N, x[n]! * sin ((2 * n + 1 : ℝ) * (k + 1) * (π / (2 * N))) := by
    intro k hk
    unfold dst2
    rw [tab_get _ _ _ hk]
    simp only [Lit_ofNat, Transc_sin, Transc_pi, sumTo_eq_sum, Nat.cast_ofNat]
    congr 1
    apply Finset.sum_congr rfl
    intro n _
    congr 2
    push_cast; field_simp
  simp only [Lit_ofNat, Transc_sin, Transc_pi, sumTo_eq_sum, Nat.cast_ofNat]
  -- unify the separate last term with the sum using weights
  have hlast : (if i % 2 = 0 then (dst2 N x)[N - 1]! else -(dst2 N x)[N - 1]!) =
      2 * (w N (N - 1) * ((dst2 N x)[N - 1]! * sin ((2 * i + 1 : ℝ) * ((N - 1 : ℕ) + 1 : ℝ) * (π / (2 * N))))) := by
    rw [neg_one_pow_sin i N hN]
    have : N - 1 + 1 = N := by omega
    simp only [w, this, if_true]
    split <;> ring
  have hsum : (2 : ℝ) * ∑ n ∈ range (N - 1), (dst2 N x)[n]! * sin (π * ((2 * i + 1) * (n + 1) : ℕ) / ((2 * N : ℕ) : ℝ)) =
      2 * ∑ k ∈ range (N - 1), w N k * ((dst2 N x)[k]! * sin ((2 * i + 1 : ℝ) * (k + 1) * (π / (2 * N)))) := by
    congr 1
    apply Finset.sum_congr rfl
    intro k hk
    have hk' : k + 1 ≠ N := by have := mem_range.mp hk; omega
    unfold w; rw [if_neg hk', one_mul]
    congr 2
    push_cast; field_simp
  rw [hlast, hsum, ← mul_add]
  have hsplit : ∑ k ∈ range (N - 1), w N k * ((dst2 N x)[k]! * sin ((2 * i + 1 : ℝ) * (k + 1) * (π / (2 * N))))
      + w N (N - 1) * ((dst2 N x)[N - 1]! * sin ((2 * i + 1 : ℝ) * ((N - 1 : ℕ) + 1 : ℝ) * (π / (2 * N))))
      = ∑ k ∈ range N, w N k * ((dst2 N x)[k]! * sin ((2 * i + 1 : ℝ) * (k + 1) * (π / (2 * N)))) := by
    conv_rhs => rw [show N = (N - 1) + 1 by omega, Finset.sum_range_succ]
    simp only [show N - 1 + 1 = N by omega]
  rw [add_comm, hsplit]
  -- substitute dst2 entries and swap sums
  have hsub : ∑ k ∈ range N, w N k * ((dst2 N x)[k]! * sin ((2 * i + 1 : ℝ) * (k + 1) * (π / (2 * N))))
      = ∑ n ∈ range N, 2 * x[n]! * ∑ k ∈ range N, w N k * (sin ((2 * i + 1 : ℝ) * (k + 1) * (π / (2 * N))) *
          sin ((2 * n + 1 : ℝ) * (k + 1) * (π / (2 * N)))) := by
    have : ∀ k ∈ range N, w N k * ((dst2 N x)[k]! * sin ((2 * i + 1 : ℝ) * (k + 1) * (π / (2 * N))))
        = ∑ n ∈ range N, 2 * x[n]! * (w N k * (sin ((2 * i + 1 : ℝ) * (k + 1) * (π / (2 * N))) *
          sin ((2 * n + 1 : ℝ) * (k + 1) * (π / (2 * N))))) := by
      intro k hk
      rw [hy k (mem_range.mp hk), Finset.mul_sum, Finset.sum_mul, Finset.mul_sum]
      apply Finset.sum_congr rfl; intro n _; ring
    rw [Finset.sum_congr rfl this, Finset.sum_comm]
    apply Finset.sum_congr rfl; intro n _
    rw [Finset.mul_sum]
  rw [hsub]
  have hort : ∀ n ∈ range N, 2 * x[n]! * ∑ k ∈ range N, w N k * (sin ((2 * i + 1 : ℝ) * (k + 1) * (π / (2 * N))) *
          sin ((2 * n + 1 : ℝ) * (k + 1) * (π / (2 * N)))) = if i = n then 2 * x[n]! * (N / 2) else 0 := by
    intro n hn
    rw [ortho1 N hN i n hi (mem_range.mp hn)]
    split <;> simp
  rw [Finset.sum_congr rfl hort, Finset.sum_ite_eq (range N) i]
  rw [if_pos (mem_range.mpr hi)]; ring

#print axioms dst3_dst2
