import Mathlib.MeasureTheory.Integral.IntervalIntegral.Basic
import Mathlib.Analysis.SpecialFunctions.Trigonometric.Bounds
import Mathlib.Tactic

open Finset MeasureTheory intervalIntegral

/-- cell-wise Riemann-sum bound: if on every cell [n h,(n+1) h] the integrand stays within ε of the
    sample value `s n`, the integral over [0, N h] differs from `h Σ s n` by at most `N h ε`. -/
theorem riemann_cell_bound (φ : ℝ → ℝ) (hφ : Continuous φ) (N : ℕ) (h ε : ℝ) (hh : 0 < h)
    (s : ℕ → ℝ)
    (hs : ∀ n < N, ∀ x, (n : ℝ) * h ≤ x → x ≤ ((n : ℝ) + 1) * h → |φ x - s n| ≤ ε) :
    |(∫ x in (0 : ℝ)..(N * h), φ x) - h * ∑ n ∈ range N, s n| ≤ N * h * ε := by
  set a : ℕ → ℝ := fun n => (n : ℝ) * h with ha
  have hint : ∀ k < N, IntervalIntegrable φ volume (a k) (a (k + 1)) :=
    fun k _ => hφ.intervalIntegrable _ _
  have hsum := sum_integral_adjacent_intervals (μ := volume) (f := φ) (a := a) (n := N) hint
  have ha0 : a 0 = 0 := by simp [ha]
  have haN : a N = N * h := by simp [ha]
  rw [ha0, haN] at hsum
  rw [← hsum, Finset.mul_sum, ← Finset.sum_sub_distrib]
  have hcell : ∀ n ∈ range N, |(∫ x in a n..a (n + 1), φ x) - h * s n| ≤ h * ε := by
    intro n hn
    have hn' := mem_range.mp hn
    have hlen : a (n + 1) - a n = h := by simp [ha]; ring
    have hconst : (∫ _ in a n..a (n + 1), s n) = h * s n := by
      rw [intervalIntegral.integral_const, hlen, smul_eq_mul]
    rw [← hconst, ← intervalIntegral.integral_sub (hint n hn') intervalIntegrable_const]
    have hb := norm_integral_le_of_norm_le_const (a := a n) (b := a (n + 1)) (C := ε)
      (f := fun x => φ x - s n) (by
        intro x hx
        have hle : a n ≤ a (n + 1) := by rw [← sub_nonneg, hlen]; exact hh.le
        rw [Set.uIoc_of_le hle] at hx
        rw [Real.norm_eq_abs]
        apply hs n hn' x
        · exact hx.1.le
        · have := hx.2; simpa [ha] using this)
    rw [Real.norm_eq_abs, hlen, abs_of_pos hh] at hb
    linarith
  calc |∑ n ∈ range N, ((∫ x in a n..a (n + 1), φ x) - h * s n)|
      ≤ ∑ n ∈ range N, |(∫ x in a n..a (n + 1), φ x) - h * s n| := Finset.abs_sum_le_sum_abs _ _
    _ ≤ ∑ _n ∈ range N, h * ε := Finset.sum_le_sum hcell
    _ = N * h * ε := by simp; ring
#print axioms riemann_cell_bound

/-- first-order accuracy of the half-cell-offset sine quadrature that `to_fourier` performs:
    for `g = r·f` bounded by `M0` and `M1`-Lipschitz,
    `| ∫₀^{N h} g(r) sin(k r) dr − h Σ_n g(r_n) sin(k (r_n − h/2)) | ≤ (N h)·(M1 + M0 k / 2)·h`,
    `r_n = (n+1) h`. -/
theorem sine_quadrature_first_order (g : ℝ → ℝ) (hg : Continuous g) (M0 M1 k h : ℝ) (N : ℕ)
    (hh : 0 < h) (hk : 0 ≤ k) (hM0 : ∀ x, |g x| ≤ M0) (hM1 : ∀ x y, |g x - g y| ≤ M1 * |x - y|) :
    |(∫ r in (0 : ℝ)..(N * h), g r * Real.sin (k * r))
        - h * ∑ n ∈ range N, g (((n : ℝ) + 1) * h) * Real.sin (k * (((n : ℝ) + 1) * h - h / 2))|
      ≤ N * h * ((M1 + M0 * k / 2) * h) := by
  have hM0' : 0 ≤ M0 := le_trans (abs_nonneg _) (hM0 0)
  have hM1' : 0 ≤ M1 := by
    have := hM1 0 1; simp at this; exact le_trans (abs_nonneg _) this
  apply riemann_cell_bound (fun r => g r * Real.sin (k * r))
    (hg.mul (Real.continuous_sin.comp (continuous_const.mul continuous_id))) N h _ hh
  intro n _ x hx1 hx2
  set rn : ℝ := ((n : ℝ) + 1) * h with hrn
  have e : g x * Real.sin (k * x) - g rn * Real.sin (k * (rn - h / 2))
      = (g x - g rn) * Real.sin (k * x) + g rn * (Real.sin (k * x) - Real.sin (k * (rn - h / 2))) := by
    ring
  rw [e]
  have hx_rn : |x - rn| ≤ h := by
    rw [abs_le]; constructor <;> [nlinarith; nlinarith]
  have hx_mid : |x - (rn - h / 2)| ≤ h / 2 := by
    rw [abs_le]; constructor <;> [nlinarith; nlinarith]
  have t1 : |(g x - g rn) * Real.sin (k * x)| ≤ M1 * h := by
    rw [abs_mul]
    calc |g x - g rn| * |Real.sin (k * x)| ≤ (M1 * |x - rn|) * 1 :=
          mul_le_mul (hM1 x rn) (Real.abs_sin_le_one _) (abs_nonneg _) (by positivity)
      _ ≤ M1 * h := by nlinarith
  have t2 : |g rn * (Real.sin (k * x) - Real.sin (k * (rn - h / 2)))| ≤ M0 * (k * (h / 2)) := by
    rw [abs_mul]
    have hs : |Real.sin (k * x) - Real.sin (k * (rn - h / 2))| ≤ k * (h / 2) := by
      calc |Real.sin (k * x) - Real.sin (k * (rn - h / 2))| ≤ |k * x - k * (rn - h / 2)| :=
            Real.abs_sin_sub_sin_le _ _
        _ = k * |x - (rn - h / 2)| := by rw [← mul_sub, abs_mul, abs_of_nonneg hk]
        _ ≤ k * (h / 2) := by nlinarith
    exact mul_le_mul (hM0 rn) hs (abs_nonneg _) hM0'
  calc |(g x - g rn) * Real.sin (k * x) + g rn * (Real.sin (k * x) - Real.sin (k * (rn - h / 2)))|
      ≤ |(g x - g rn) * Real.sin (k * x)| + |g rn * (Real.sin (k * x) - Real.sin (k * (rn - h / 2)))| :=
        abs_add_le _ _
    _ ≤ M1 * h + M0 * (k * (h / 2)) := add_le_add t1 t2
    _ = (M1 + M0 * k / 2) * h := by ring
#print axioms sine_quadrature_first_order
