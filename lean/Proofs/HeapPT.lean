/-! Prototype: heap-level PairTable refines an abstract symmetric map; broadcast assignment is isolated. -/

abbrev Ref := Nat

structure St (V : Type) where
  next : Nat
  cell : Nat → Option V
  slot : Nat → Nat → Option Nat

variable {V : Type}

def St.init : St V := ⟨0, fun _ => none, fun _ _ => none⟩

/-- `self.values[t1][t2] = deepcopy(value)` (+ mirrored write) -/
def St.setOne (s : St V) (i j : Nat) (v : V) : St V :=
  { next := s.next + 1
    cell := fun r => if r = s.next then some v else s.cell r
    slot := fun a b => if (a = i ∧ b = j) ∨ (a = j ∧ b = i) then some s.next else s.slot a b }

def St.setRow (s : St V) (i : Nat) (js : List Nat) (v : V) : St V :=
  js.foldl (fun s j => s.setOne i j v) s

def St.set (s : St V) (is js : List Nat) (v : V) : St V :=
  is.foldl (fun s i => s.setRow i js v) s

/-- in-place mutation of the object stored at (i,j) -/
def St.mutate (s : St V) (i j : Nat) (f : V → V) : St V :=
  match s.slot i j with
  | none => s
  | some r => { s with cell := fun r' => if r' = r then (s.cell r).map f else s.cell r' }

def St.get (s : St V) (i j : Nat) : Option V := (s.slot i j).bind s.cell

/-- invariant: refs are allocated, symmetric, and shared only between (a,b) and (b,a) -/
structure PTInv {V : Type} (s : St V) : Prop where
  lt : ∀ a b r, s.slot a b = some r → r < s.next
  sym : ∀ a b, s.slot a b = s.slot b a
  inj : ∀ a b c d r, s.slot a b = some r → s.slot c d = some r → (a = c ∧ b = d) ∨ (a = d ∧ b = c)

theorem inv_init : PTInv (St.init : St V) := ⟨by simp [St.init], by simp [St.init], by simp [St.init]⟩

theorem inv_setOne (s : St V) (h : PTInv s) (i j : Nat) (v : V) : PTInv (s.setOne i j v) := by
  refine ⟨?_, ?_, ?_⟩
  · intro a b r hr
    simp only [St.setOne] at hr ⊢
    split at hr
    · cases hr; omega
    · have := h.lt a b r hr; omega
  · intro a b
    simp only [St.setOne]
    by_cases c1 : (a = i ∧ b = j) ∨ (a = j ∧ b = i)
    · have c2 : (b = i ∧ a = j) ∨ (b = j ∧ a = i) := by
        rcases c1 with ⟨h1, h2⟩ | ⟨h1, h2⟩
        · exact Or.inr ⟨h2, h1⟩
        · exact Or.inl ⟨h2, h1⟩
      rw [if_pos c1, if_pos c2]
    · have c2 : ¬ ((b = i ∧ a = j) ∨ (b = j ∧ a = i)) := by
        intro hc; apply c1
        rcases hc with ⟨h1, h2⟩ | ⟨h1, h2⟩
        · exact Or.inr ⟨h2, h1⟩
        · exact Or.inl ⟨h2, h1⟩
      rw [if_neg c1, if_neg c2]; exact h.sym a b
  · intro a b c d r h1 h2
    simp only [St.setOne] at h1 h2
    by_cases c1 : (a = i ∧ b = j) ∨ (a = j ∧ b = i) <;> by_cases c2 : (c = i ∧ d = j) ∨ (c = j ∧ d = i)
    · rcases c1 with ⟨rfl, rfl⟩ | ⟨rfl, rfl⟩ <;> rcases c2 with ⟨rfl, rfl⟩ | ⟨rfl, rfl⟩ <;> simp
    · rw [if_pos c1] at h1; rw [if_neg c2] at h2
      cases h1; have := h.lt c d _ h2; omega
    · rw [if_neg c1] at h1; rw [if_pos c2] at h2
      cases h2; have := h.lt a b _ h1; omega
    · rw [if_neg c1] at h1; rw [if_neg c2] at h2
      exact h.inj a b c d r h1 h2

theorem get_setOne (s : St V) (h : PTInv s) (i j : Nat) (v : V) (a b : Nat) :
    (s.setOne i j v).get a b = if (a = i ∧ b = j) ∨ (a = j ∧ b = i) then some v else s.get a b := by
  simp only [St.get, St.setOne]
  by_cases c1 : (a = i ∧ b = j) ∨ (a = j ∧ b = i)
  · rw [if_pos c1, if_pos c1]; simp
  · rw [if_neg c1, if_neg c1]
    cases hs : s.slot a b with
    | none => simp
    | some r =>
      have := h.lt a b r hs
      have hne : r ≠ s.next := by omega
      simp [Option.bind, hne]

theorem inv_mutate (s : St V) (h : PTInv s) (i j : Nat) (f : V → V) : PTInv (s.mutate i j f) := by
  unfold St.mutate; split
  · exact h
  · exact ⟨h.lt, h.sym, h.inj⟩

/-- mutating the object stored at (i,j) changes exactly the unordered pair {i,j} -/
theorem get_mutate (s : St V) (h : PTInv s) (i j : Nat) (f : V → V) (a b : Nat) :
    (s.mutate i j f).get a b =
      if (a = i ∧ b = j) ∨ (a = j ∧ b = i) then (s.get a b).map f else s.get a b := by
  unfold St.mutate
  cases hij : s.slot i j with
  | none =>
    simp only
    split
    · rename_i hc
      have : s.slot a b = none := by
        rcases hc with ⟨rfl, rfl⟩ | ⟨rfl, rfl⟩
        · exact hij
        · rw [h.sym]; exact hij
      simp [St.get, this]
    · rfl
  | some r =>
    simp only [St.get]
    cases hab : s.slot a b with
    | none => simp
    | some r' =>
      simp only [Option.bind]
      by_cases hr : r' = r
      · subst hr
        have := h.inj a b i j r' hab hij
        simp [this]
      · simp only [hr, if_false]
        split
        · rename_i hc
          exfalso; apply hr
          rcases hc with ⟨rfl, rfl⟩ | ⟨rfl, rfl⟩
          · rw [hij] at hab; cases hab; rfl
          · rw [h.sym, hij] at hab; cases hab; rfl
        · rfl
#print axioms get_mutate
