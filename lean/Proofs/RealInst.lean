import Model
import Mathlib.Analysis.SpecialFunctions.Trigonometric.Complex
import Mathlib.Analysis.SpecialFunctions.Log.Basic
import Mathlib.Analysis.SpecialFunctions.Sqrt
import Mathlib.Analysis.SpecialFunctions.Pow.Real
import Mathlib.Tactic

/-! `ℝ` instances of the scalar classes, and the bridge lemmas from the model's own
combinators (`sumTo`, `powN`, `tab`, `dec`, `absS`) to Mathlib notions. -/

noncomputable instance : Transc ℝ := ⟨Real.exp, Real.log, Real.sin, Real.cos, Real.sqrt, Real.pi, (2:ℝ) ^ ((1:ℝ)/6)⟩
noncomputable instance : Lit ℝ := ⟨fun n => (n : ℝ)⟩

@[simp] theorem Transc_exp (x : ℝ) : Transc.exp x = Real.exp x := rfl
@[simp] theorem Transc_log (x : ℝ) : Transc.log x = Real.log x := rfl
@[simp] theorem Transc_sin (x : ℝ) : Transc.sin x = Real.sin x := rfl
@[simp] theorem Transc_cos (x : ℝ) : Transc.cos x = Real.cos x := rfl
@[simp] theorem Transc_sqrt (x : ℝ) : Transc.sqrt x = Real.sqrt x := rfl
@[simp] theorem Transc_root6two : (Transc.root6two : ℝ) = (2:ℝ) ^ ((1:ℝ)/6) := rfl
@[simp] theorem Transc_pi : (Transc.pi : ℝ) = Real.pi := rfl
@[simp] theorem Lit_ofNat (n : ℕ) : (Lit.ofNat n : ℝ) = (n : ℝ) := rfl

open Finset

theorem sumTo_eq_sum (n : ℕ) (f : ℕ → ℝ) : sumTo n f = ∑ i ∈ range n, f i := by
  induction n with
  | zero => simp [sumTo]
  | succ n ih => simp [sumTo, ih, Finset.sum_range_succ]

@[simp] theorem powN_real (x : ℝ) (n : ℕ) : powN x n = x ^ n := by
  induction n with
  | zero => simp [powN]
  | succ n ih => simp [powN, ih, pow_succ]

@[simp] theorem dec_eq (m e : ℕ) : (dec m e : ℝ) = (m : ℝ) / (10 : ℝ) ^ e := by
  simp [dec]

@[simp] theorem absS_eq (x : ℝ) : absS x = |x| := by
  unfold absS
  simp only [Lit_ofNat, Nat.cast_zero]
  split
  · rw [abs_of_neg ‹_›]
  · rw [abs_of_nonneg (not_lt.mp ‹_›)]

@[simp] theorem tab_size {α} (n : ℕ) (f : ℕ → α) : (tab n f).size = n := by simp [tab]

theorem tab_get {α} [Inhabited α] (n : ℕ) (f : ℕ → α) (i : ℕ) (h : i < n) : (tab n f)[i]! = f i := by
  simp [tab, h]

theorem tab_congr {α} (n : ℕ) (f g : ℕ → α) (h : ∀ i < n, f i = g i) : tab n f = tab n g := by
  apply Array.ext
  · simp [tab]
  · intro i h1 h2
    simp only [tab, Array.getElem_map, Array.getElem_range]
    apply h
    simpa [tab] using h1

noncomputable instance : HasFloor ℝ := ⟨fun x => (⌊x⌋ : ℝ)⟩
@[simp] theorem HasFloor_floor (x : ℝ) : HasFloor.floor x = (⌊x⌋ : ℝ) := rfl
