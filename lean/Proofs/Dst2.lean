import Proofs.Dst

open Finset Real TrigSums

/-- every DST-III output entry as one half-weighted sine sum -/
theorem dst3_entry (N : ℕ) (hN : 0 < N) (y : Array ℝ) (i : ℕ) (hi : i < N) :
    (dst3 N y)[i]! = 2 * ∑ k ∈ range N, w N k * (y[k]! * sin ((2 * i + 1 : ℝ) * (k + 1) * (π / (2 * N)))) := by
  have hNr : (0 : ℝ) < N := by exact_mod_cast hN
  unfold dst3
  rw [tab_get _ _ _ hi]
  simp only [Lit_ofNat, Transc_sin, Transc_pi, sumTo_eq_sum, Nat.cast_ofNat]
  have hlast : (if i % 2 = 0 then y[N - 1]! else -y[N - 1]!) =
      2 * (w N (N - 1) * (y[N - 1]! * sin ((2 * i + 1 : ℝ) * ((N - 1 : ℕ) + 1 : ℝ) * (π / (2 * N))))) := by
    rw [neg_one_pow_sin i N hN]
    have : N - 1 + 1 = N := by omega
    simp only [w, this, if_true]
    split <;> ring
  have hsum : (2 : ℝ) * ∑ n ∈ range (N - 1), y[n]! * sin (π * ((2 * i + 1) * (n + 1) : ℕ) / ((2 * N : ℕ) : ℝ)) =
      2 * ∑ k ∈ range (N - 1), w N k * (y[k]! * sin ((2 * i + 1 : ℝ) * (k + 1) * (π / (2 * N)))) := by
    congr 1
    apply Finset.sum_congr rfl
    intro k hk
    have hk' : k + 1 ≠ N := by have := mem_range.mp hk; omega
    unfold w; rw [if_neg hk', one_mul]
    congr 2
    push_cast; field_simp
  rw [hlast, hsum, ← mul_add]
  congr 1
  rw [add_comm]
  conv_rhs => rw [show N = (N - 1) + 1 by omega, Finset.sum_range_succ]
  simp only [show N - 1 + 1 = N by omega]

/-- every DST-II output entry in the same normal form -/
theorem dst2_entry (N : ℕ) (x : Array ℝ) (k : ℕ) (hk : k < N) :
    (dst2 N x)[k]! = 2 * ∑ n ∈ range N, x[n]! * sin ((2 * n + 1 : ℝ) * (k + 1) * (π / (2 * N))) := by
  unfold dst2
  rw [tab_get _ _ _ hk]
  simp only [Lit_ofNat, Transc_sin, Transc_pi, sumTo_eq_sum, Nat.cast_ofNat]
  congr 1
  apply Finset.sum_congr rfl
  intro n _
  congr 2
  push_cast; field_simp

/-- DST-II ∘ DST-III = 2N · id, for every length N ≥ 1 and every real array. -/
theorem dst2_dst3 (N : ℕ) (hN : 0 < N) (x : Array ℝ) (k : ℕ) (hk : k < N) :
    (dst2 N (dst3 N x))[k]! = 2 * N * x[k]! := by
  have hNr : (0 : ℝ) < N := by exact_mod_cast hN
  rw [dst2_entry N _ k hk]
  have h1 : ∀ n ∈ range N, (dst3 N x)[n]! * sin ((2 * n + 1 : ℝ) * (k + 1) * (π / (2 * N)))
      = ∑ m ∈ range N, 2 * (w N m * x[m]!) * (sin ((2 * n + 1 : ℝ) * (m + 1) * (π / (2 * N))) *
          sin ((2 * n + 1 : ℝ) * (k + 1) * (π / (2 * N)))) := by
    intro n hn
    rw [dst3_entry N hN x n (mem_range.mp hn), Finset.mul_sum, Finset.sum_mul]
    apply Finset.sum_congr rfl; intro m _; ring
  rw [Finset.sum_congr rfl h1, Finset.sum_comm]
  have h2 : ∀ m ∈ range N, ∑ n ∈ range N, 2 * (w N m * x[m]!) * (sin ((2 * n + 1 : ℝ) * (m + 1) * (π / (2 * N))) *
          sin ((2 * n + 1 : ℝ) * (k + 1) * (π / (2 * N))))
      = if m = k then 2 * (w N m * x[m]!) * (if m + 1 = N then (N : ℝ) else N / 2) else 0 := by
    intro m hm
    rw [← Finset.mul_sum, ortho2 N hN m k (mem_range.mp hm) hk]
    split <;> simp
  rw [Finset.sum_congr rfl h2, Finset.sum_ite_eq' (range N) k, if_pos (mem_range.mpr hk)]
  unfold w
  split <;> ring

/-- DST-III is homogeneous: a common factor can be pulled out of the input -/
theorem dst3_smul (N : ℕ) (hN : 0 < N) (a : ℝ) (y z : Array ℝ) (h : ∀ k < N, z[k]! = a * y[k]!) (i : ℕ) (hi : i < N) :
    (dst3 N z)[i]! = a * (dst3 N y)[i]! := by
  rw [dst3_entry N hN z i hi, dst3_entry N hN y i hi, Finset.mul_sum, Finset.mul_sum, Finset.mul_sum]
  apply Finset.sum_congr rfl; intro k hk
  rw [h k (mem_range.mp hk)]; ring

theorem dst2_smul (N : ℕ) (a : ℝ) (y z : Array ℝ) (h : ∀ k < N, z[k]! = a * y[k]!) (i : ℕ) (hi : i < N) :
    (dst2 N z)[i]! = a * (dst2 N y)[i]! := by
  rw [dst2_entry N z i hi, dst2_entry N y i hi, Finset.mul_sum, Finset.mul_sum, Finset.mul_sum]
  apply Finset.sum_congr rfl; intro k hk
  rw [h k (mem_range.mp hk)]; ring

theorem dst3_add (N : ℕ) (hN : 0 < N) (y z s : Array ℝ) (h : ∀ k < N, s[k]! = y[k]! + z[k]!) (i : ℕ) (hi : i < N) :
    (dst3 N s)[i]! = (dst3 N y)[i]! + (dst3 N z)[i]! := by
  rw [dst3_entry N hN s i hi, dst3_entry N hN y i hi, dst3_entry N hN z i hi, ← mul_add, ← Finset.sum_add_distrib]
  congr 1; apply Finset.sum_congr rfl; intro k hk
  rw [h k (mem_range.mp hk)]; ring

theorem dst2_add (N : ℕ) (y z s : Array ℝ) (h : ∀ k < N, s[k]! = y[k]! + z[k]!) (i : ℕ) (hi : i < N) :
    (dst2 N s)[i]! = (dst2 N y)[i]! + (dst2 N z)[i]! := by
  rw [dst2_entry N s i hi, dst2_entry N y i hi, dst2_entry N z i hi, ← mul_add, ← Finset.sum_add_distrib]
  congr 1; apply Finset.sum_congr rfl; intro k hk
  rw [h k (mem_range.mp hk)]; ring

/-- the transforms only read the first `N` entries -/
theorem dst2_congr (N : ℕ) (y z : Array ℝ) (h : ∀ k < N, z[k]! = y[k]!) (i : ℕ) (hi : i < N) :
    (dst2 N z)[i]! = (dst2 N y)[i]! := by
  have := dst2_smul N 1 y z (by intro k hk; rw [h k hk]; ring) i hi
  rw [this]; ring

theorem dst3_congr (N : ℕ) (hN : 0 < N) (y z : Array ℝ) (h : ∀ k < N, z[k]! = y[k]!) (i : ℕ) (hi : i < N) :
    (dst3 N z)[i]! = (dst3 N y)[i]! := by
  have := dst3_smul N hN 1 y z (by intro k hk; rw [h k hk]; ring) i hi
  rw [this]; ring
