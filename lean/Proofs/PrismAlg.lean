import Mathlib.LinearAlgebra.Matrix.NonsingularInverse
import Mathlib.Data.Real.Basic
import Mathlib.Tactic

open Matrix

variable {n : Type} [Fintype n] [DecidableEq n]

/-- The arrays produced by `cost` satisfy the PRISM equation exactly:
    with `M (1 - ΩC) = 1` and `H = M (ΩC) Ω`, we have `H = ΩC (Ω + H)`. -/
theorem prism_equation (Ω C M : Matrix n n ℝ) (hM : M * (1 - Ω * C) = 1) :
    let H := M * (Ω * C) * Ω
    H = Ω * C * (Ω + H) := by
  intro H
  have hM' : (1 - Ω * C) * M = 1 := mul_eq_one_comm.mp hM
  -- M = 1 + (ΩC) M
  have h1 : M = 1 + Ω * C * M := by
    have : M - Ω * C * M = 1 := by rw [← hM']; noncomm_ring
    rw [← this]; abel
  -- M = 1 + M (ΩC)
  have h2 : M = 1 + M * (Ω * C) := by
    have : M - M * (Ω * C) = 1 := by rw [← hM]; noncomm_ring
    rw [← this]; abel
  have hcomm : M * (Ω * C) = Ω * C * M := by
    have a : M * (Ω * C) = M - 1 := by rw [eq_sub_iff_add_eq, add_comm]; exact h2.symm
    have b : Ω * C * M = M - 1 := by rw [eq_sub_iff_add_eq, add_comm]; exact h1.symm
    rw [a, b]
  show M * (Ω * C) * Ω = Ω * C * (Ω + M * (Ω * C) * Ω)
  calc M * (Ω * C) * Ω = (1 + Ω * C * M) * (Ω * C) * Ω := by rw [← h1]
    _ = Ω * C * Ω + Ω * C * (M * (Ω * C)) * Ω := by noncomm_ring
    _ = Ω * C * (Ω + M * (Ω * C) * Ω) := by noncomm_ring

/-- structure factor identity on self-consistent objects -/
theorem sf_selfconsistent (Ω C M : Matrix n n ℝ) (hM : M * (1 - Ω * C) = 1) :
    Ω + M * (Ω * C) * Ω = M * Ω := by
  have h2 : M - M * (Ω * C) = 1 := by rw [← hM]; noncomm_ring
  have : M = 1 + M * (Ω * C) := by rw [← h2]; abel
  conv_rhs => rw [this]
  noncomm_ring
#print axioms prism_equation
