import Model
/-!
Line-protocol driver: one operation per input line, one canonical line out.
Floats travel as 16-hex-digit IEEE bit patterns.  `N` is `None`.
-/

def hexToFloat (s : String) : Float :=
  let n := s.foldl (fun acc c =>
    acc * 16 + (if c.isDigit then c.toNat - 48 else if c.toNat ≥ 97 then c.toNat - 87 else c.toNat - 55)) 0
  Float.ofBits n.toUInt64

def floatToHex (x : Float) : String :=
  let s := (Nat.toDigits 16 x.toBits.toNat)
  String.ofList (List.replicate (16 - s.length) '0' ++ s)

def fl (xs : List Float) : String := " ".intercalate (xs.map floatToHex)
def optHex : Option Float → String
  | none => "N"
  | some x => floatToHex x
def nats (xs : List String) : List Nat := xs.map String.toNat!

def vshow (v : List Nat) : String := if v.isEmpty then "e" else ",".intercalate (v.map toString)
def optV : Option (List Nat) → String
  | none => "N"
  | some v => vshow v
/-- split a token list at "|" -/
def splitBar (xs : List String) : List (List String) :=
  xs.foldr (fun x acc => if x = "|" then [] :: acc else match acc with | [] => [[x]] | a :: r => (x :: a) :: r) [[]]
/-- the two in-place mutators / pure functions the harness uses -/
def mutOf (kind : String) (k : Nat) : List Nat → List Nat :=
  if kind = "same" then id else if kind = "push" then fun v => v ++ [k] else if kind = "set0" then fun v => match v with | [] => [] | _ :: r => k :: r
  else fun v => v.map (· + k)

def spaceOf (s : String) : Space := if s = "R" then .real else if s = "F" then .fourier else .nonspatial
def spaceTok : Space → String
  | .real => "R" | .fourier => "F" | .nonspatial => "N"
def errTok : Err → String
  | .spaceMismatch => "ERR rejected" | .valueError => "ERR ValueError" | .assertion => "ERR rejected" | .shape => "ERR shape"
def binOf (s : String) : BinOp := if s = "add" then .add else if s = "sub" then .sub else if s = "mul" then .mul else .div
def hexs (xs : List String) : Array Float := (xs.map hexToFloat).toArray
def rhsOf (toks : List String) : Rhs Float :=
  match toks with
  | ["obj", k] => .obj k.toNat!
  | ["scalar", x] => .lit (.scalar (hexToFloat x))
  | "pp" :: xs => .lit (.perPoint (hexs xs))
  | "pm" :: xs => .lit (.perMatrix (hexs xs))
  | "vec" :: xs => .lit (.perCol (hexs xs))
  | "full" :: xs => .lit (.full (hexs xs))
  | _ => .lit (.scalar 0)
def mhStep (h : MH Float) (op : MOp Float) : MH Float × String :=
  match h.step gaussInv op with
  | .ok h' => (h', "ok")
  | .error e => (h, errTok e)

/-- the materialised ValueTable map as the function the model's operations take -/
def vtFun (a : Array (Option Nat)) : Nat → Option Nat := fun i => (a[i]?).join
/-- evaluate the map once at every key the driver can name -/
def vtFreeze (m : Nat) (f : Nat → Option Nat) : Array (Option Nat) := (Array.range m).map f

structure DState where
  mh : MH Float := MH.init
  dens : Dens Float := Dens.init 0
  diam : Diam Float := Diam.init 0
  ts : TS (List Nat) := TS.init 0
  objs : Array Nat := #[]
  vt : Array (Option Nat) := #[]     -- the ValueTable map, materialised after every operation (a chain of closures would re-run every earlier fold)
  vtn : Nat := 0
  dom : Dom Float := ⟨0, 0, 0⟩
  sys : Sys Float := Sys.init 0 1
  prism : Prism Float := default
  world : World Float := World.init 0 1

def grid (n : Nat) (f : Nat → Nat → String) : String :=
  " ".intercalate ((List.range n).flatMap fun i => (List.range n).map fun j => f i j)

def ckindOf (kind : String) : CKind :=
  if kind = "py" then .py else if kind = "hnc" then .hnc else if kind = "msa" then .msa
  else if kind = "ms" then .ms else if kind = "msA" then .msA else .msB
def pkindOf (k : String) : PotKind :=
  if k = "hs" then .hs else if k = "exp" then .exp else if k = "lj" then .lj else if k = "ljcut" then .ljcut
  else if k = "ljshift" then .ljshift else if k = "hclj" then .hclj else .wca
def okindOf (k : String) : OmKind :=
  if k = "gauss" then .gauss else if k = "fjc" then .fjc else if k = "ring" then .ring else if k = "single" then .single
  else if k = "nointra" then .nointra else .arr
def maTok (A : MA Float) : String := s!"{spaceTok A.space} {A.length} {A.rank} {fl A.data.toList}"
def outTok : Out Float → String
  | .ma A => "ma " ++ maTok A
  | .table n t => "table " ++ " ".intercalate ((List.range n).flatMap fun i => (List.range n).map fun j =>
      match t i j with | none => "N" | some v => s!"[ {v.size} {fl v.toList} ]")
def stateTok (p : Prism Float) : String :=
  s!"om {maTok p.omega} h {maTok p.totalCorr} c {maTok p.directCorr}"
def calcRes (s : DState) (r : Except Err (Prism Float × String)) : DState × String :=
  match r with
  | .ok (p, o) => ({ s with prism := p }, s!"ok {o} | {stateTok p}")
  | .error e => (s, errTok e)

def step (s : DState) (toks : List String) : DState × String :=
  match toks with
  -- ---------------- C11 DiscreteKoyama constructor logic and kernel parameters
  | ["koyama.ctor", sg, l, lp] =>
      let σ := hexToFloat sg; let l := hexToFloat l; let lp := hexToFloat lp
      (s, s!"{koyamaCtorOK σ l lp} {if koyamaCtorOK σ l lp then toString (koyamaLinearised σ l lp) else "-"} {floatToHex (koyamaLpMin σ l)}")
  | "koyama.base" :: l :: c1 :: c2 :: ns =>
      let l := hexToFloat l; let c1 := hexToFloat c1; let c2 := hexToFloat c2
      (s, " ".intercalate ((nats ns).map fun n =>
        let (r2, r4) := koyamaBase l c1 c2 n
        let (C, B, A) := koyamaParams r2 r4
        s!"{floatToHex r2} {floatToHex r4} {floatToHex C} {floatToHex B} {floatToHex A}"))
  -- ---------------- C02 analytic references: wt eta | r...
  | "wt" :: eta :: rs =>
      let η := hexToFloat eta
      (s, s!"{floatToHex (wtContact η)} {floatToHex (wtS0 η)} c {fl ((hexs rs).map (wtC η)).toList}")
  -- ---------------- C17 unit conversions: uc <method> dcM ecJ kB NA | x...
  | "uc" :: meth :: dcM :: ecJ :: kB :: NA :: xs =>
      let dcM := hexToFloat dcM; let ecJ := hexToFloat ecJ; let kB := hexToFloat kB; let NA := hexToFloat NA
      let x := hexs xs
      let f : Float → Float :=
        if meth = "K" then ucKelvin ecJ kB else if meth = "C" then ucCelsius ecJ kB
        else if meth = "invA" then ucInvAngstrom dcM else if meth = "invnm" then ucInvNanometer dcM
        else ucConcentration dcM NA
      (s, fl (x.map f).toList)
  | "uc.phi" :: d :: xs => (s, fl ((hexs xs).map fun rho => ucVolumeFraction rho (hexToFloat d)).toList)
  -- ---------------- object-identity model of System -> PRISM (C16)
  | ["w.new", n, kT] => ({ s with world := World.init n.toNat! (hexToFloat kT) }, "ok")
  | "w.op" :: rest =>
      let op : Option (SOp Float) :=
        match rest with
        | ["kT", v] => some (.setKT (hexToFloat v))
        | ["dom", "none"] => some (.setDom none)
        | ["dom", L, dr] => some (.setDom (some (Dom.ofDr L.toNat! (hexToFloat dr))))
        | "dens" :: v :: ts => some (.setDens (nats ts) (hexToFloat v))
        | "diam" :: v :: ts => some (.setDiam (nats ts) (hexToFloat v))
        | ["pot", i, j, "none"] => some (.setPot i.toNat! j.toNat! none)
        | "pot" :: i :: j :: kind :: sg :: ps => some (.setPot i.toNat! j.toNat! (some ⟨pkindOf kind, hexs ps, if sg = "N" then none else some (hexToFloat sg)⟩))
        | ["clo", i, j, "none"] => some (.setClo i.toNat! j.toNat! none)
        | ["clo", i, j, kind, hc] => some (.setClo i.toNat! j.toNat! (some (ckindOf kind, hc = "1")))
        | ["om", i, j, "none"] => some (.setOm i.toNat! j.toNat! none)
        | "om" :: i :: j :: kind :: N :: ps => some (.setOm i.toNat! j.toNat! (some ⟨okindOf kind, N.toNat!, hexs ps⟩))
        | ["potsigma", i, j, v] => some (.editPotSigma i.toNat! j.toNat! (if v = "N" then none else some (hexToFloat v)))
        | ["create"] => some .create
        | _ => none
      match op with
      | none => (s, "bad-op")
      | some o =>
        let (w', ok) := s.world.step o
        ({ s with world := w' }, if ok then (match o with | .create => s!"ok {w'.prisms.length - 1}" | _ => "ok") else (match o with | .create => "ERR ValueError" | _ => "ERR rejected"))
  | ["w.obs"] =>
      let w := s.world
      let prs := upperPairs w.sys.n
      let sysPart := prs.map fun (i, j) =>
        let us := match (w.sys.potR i j).bind w.st.pot with | none => "-" | some P => optHex P.sigma
        let cs := match (w.sys.cloR i j).bind w.st.clo with
          | none => "- -"
          | some C => s!"{optHex C.sigma} {match C.potential with | none => "N" | some u => toString u.size}"
        s!"P{i}{j} {us} {cs}"
      let qs := (List.range w.prisms.length).map fun k =>
        let q := w.prisms[k]!
        s!"Q{k} " ++ " ".intercalate (prs.map fun (i, j) =>
          let P := (w.st.pot (q.potR i j)).getD default
          let C := (w.st.clo (q.cloR i j)).getD default
          s!"P{i}{j} {optHex P.sigma} {optHex C.sigma} {fl (C.potential.getD #[]).toList}")
      (s, "S " ++ " ".intercalate sysPart ++ " | " ++ " | ".intercalate qs)
  | ["w.prism", k] => ({ s with prism := (s.world.prisms[k.toNat!]!).core }, "ok")
  | ["w.check"] => (s, toString (absSys s.world.st s.world.sys).check)
  -- ---------------- System / PRISM / calculate (C01-C06, C16)
  | ["sys.new", n, kT] => ({ s with sys := Sys.init n.toNat! (hexToFloat kT) }, "ok")
  | ["sys.kT", kT] => ({ s with sys := { s.sys with kT := hexToFloat kT } }, "ok")
  | ["sys.dom", "none"] => ({ s with sys := { s.sys with dom := none } }, "ok")
  | ["sys.dom", L, dr] => ({ s with sys := { s.sys with dom := some (Dom.ofDr L.toNat! (hexToFloat dr)) } }, "ok")
  | "sys.dens" :: v :: ts => ({ s with sys := { s.sys with dens := s.sys.dens.set (nats ts) (hexToFloat v) } }, "ok")
  | "sys.diam" :: v :: ts => ({ s with sys := { s.sys with diam := s.sys.diam.set (nats ts) (hexToFloat v) } }, "ok")
  | ["sys.sigma", i, j, v] => ({ s with sys := { s.sys with diam := s.sys.diam.setSigma i.toNat! j.toNat! (hexToFloat v) } }, "ok")
  | ["sys.pot", i, j, "none"] => ({ s with sys := { s.sys with pot := setSym s.sys.pot i.toNat! j.toNat! none } }, "ok")
  | "sys.pot" :: i :: j :: kind :: sg :: ps =>
      let P : PotSpec Float := ⟨pkindOf kind, hexs ps, if sg = "N" then none else some (hexToFloat sg)⟩
      ({ s with sys := { s.sys with pot := setSym s.sys.pot i.toNat! j.toNat! (some P) } }, "ok")
  | ["sys.clo", i, j, "none"] => ({ s with sys := { s.sys with clo := setSym s.sys.clo i.toNat! j.toNat! none } }, "ok")
  | ["sys.clo", i, j, kind, hc] =>
      ({ s with sys := { s.sys with clo := setSym s.sys.clo i.toNat! j.toNat! (some (ckindOf kind, hc = "1")) } }, "ok")
  | ["sys.om", i, j, "none"] => ({ s with sys := { s.sys with om := setSym s.sys.om i.toNat! j.toNat! none } }, "ok")
  | "sys.om" :: i :: j :: kind :: N :: ps =>
      ({ s with sys := { s.sys with om := setSym s.sys.om i.toNat! j.toNat! (some ⟨okindOf kind, N.toNat!, hexs ps⟩) } }, "ok")
  | ["sys.check"] => (s, toString s.sys.check)
  | ["prism.create"] =>
      match s.sys.createPRISM with
      | .ok p => ({ s with prism := p }, "ok")
      | .error e => (s, errTok e)
  | ["prism.wiring"] =>
      let p := s.prism
      let pairs := (List.range p.n).flatMap fun i => ((List.range p.n).filter (i ≤ ·)).map fun j => (i, j)
      (s, " ".intercalate (pairs.map fun (i, j) =>
        s!"P{i}{j} {floatToHex (p.cloSigma i j)} {floatToHex (p.potSigma i j)} {fl (p.u i j).toList}") ++ s!" om {maTok p.omega}")
  | "prism.cost" :: xs =>
      match s.prism.cost gaussInv (hexs xs) with
      | .ok p => ({ s with prism := p }, s!"ok y {fl p.y.toList} c {maTok p.directCorr} h {maTok p.totalCorr} gi {fl p.gammaIn.data.toList} go {fl p.gammaOut.data.toList}")
      | .error e => (s, errTok e)
  | "prism.aftersolve" :: xs =>
      match s.prism.afterSolve gaussInv (hexs xs) with
      | .ok p => ({ s with prism := p }, s!"ok {stateTok p}")
      | .error e => (s, errTok e)
  | "prism.set" :: which :: sp :: xs =>
      let p := s.prism
      let A : MA Float := ⟨p.dom.length, p.n, spaceOf sp, hexs xs⟩
      let p' := if which = "om" then { p with omega := A } else if which = "h" then { p with totalCorr := A } else { p with directCorr := A }
      ({ s with prism := p' }, "ok")
  | ["prism.flip", which] =>
      let p := s.prism
      let A := if which = "om" then p.omega else if which = "h" then p.totalCorr else p.directCorr
      match (if A.space = .real then p.dom.maToFourier A else p.dom.maToReal A) with
      | .ok B =>
          let p' := if which = "om" then { p with omega := B } else if which = "h" then { p with totalCorr := B } else { p with directCorr := B }
          ({ s with prism := p' }, s!"ok {stateTok p'}")
      | .error e => (s, errTok e)
  | ["prism.state"] => (s, stateTok s.prism)
  | ["calc.pc"] => calcRes s (s.prism.pairCorrelation.map fun (p, o) => (p, "ma " ++ maTok o))
  | ["calc.sf", nz] => calcRes s ((s.prism.structureFactor (nz = "1")).map fun (p, o) => (p, "ma " ++ maTok o))
  | ["calc.pmf"] => calcRes s (s.prism.pmf.map fun (p, o) => (p, "ma " ++ maTok o))
  | ["calc.b2", ex] => calcRes s ((s.prism.secondVirial (ex = "1")).map fun (p, o) => (p, outTok o))
  | ["calc.chi", ex] => calcRes s ((s.prism.chi (ex = "1")).map fun (p, o) => (p, outTok o))
  | ["calc.spin"] => calcRes s (s.prism.spinodal.map fun (p, o) => (p, outTok o))
  | ["calc.solv", hnc] => calcRes s ((s.prism.solvation (hnc = "1")).map fun (p, o) => (p, "ma " ++ maTok o))
  -- ---------------- C15 Density / Diameter
  | ["dens.new", n] => ({ s with dens := Dens.init n.toNat! }, "ok")
  | "dens.set" :: v :: ts => ({ s with dens := s.dens.set (nats ts) (hexToFloat v) }, "ok")
  | ["dens.obs"] =>
      let d := s.dens
      (s, s!"rho {" ".intercalate ((List.range d.n).map fun t => optHex (d.rho t))} total {floatToHex d.total} pair {grid d.n fun i j => floatToHex (d.pair i j)} site {grid d.n fun i j => floatToHex (d.site i j)} check {d.check}")
  | ["diam.new", n] => ({ s with diam := Diam.init n.toNat! }, "ok")
  | "diam.set" :: v :: ts => ({ s with diam := s.diam.set (nats ts) (hexToFloat v) }, "ok")
  | ["diam.sigma", a, b, v] => ({ s with diam := s.diam.setSigma a.toNat! b.toNat! (hexToFloat v) }, "ok")
  | ["diam.obs"] =>
      let d := s.diam
      (s, s!"diam {" ".intercalate ((List.range d.n).map fun t => optHex (d.diam t))} volume {" ".intercalate ((List.range d.n).map fun t => optHex (d.volume t))} sigma {grid d.n fun i j => optHex (d.sigma i j)} check {d.check}")
  -- ---------------- C14 PairTable (heap level) / ValueTable
  | ["pt.new", n] => ({ s with ts := TS.init n.toNat!, objs := #[] }, "ok")
  | "pt.obj" :: vs => ({ s with ts := s.ts.newObj (nats vs), objs := s.objs.push s.ts.next }, s!"{s.objs.size}")
  | ["pt.mutobj", k, kind, x] => ({ s with ts := s.ts.mutRef (s.objs[k.toNat!]!) (mutOf kind x.toNat!) }, "ok")
  | "pt.set" :: T :: k :: rest =>
      match splitBar rest with
      | [_, is, js] => ({ s with ts := s.ts.setFrom T.toNat! (nats is) (nats js) (s.objs[k.toNat!]!) }, "ok")
      | _ => (s, "bad-op")
  | ["pt.unset", T, k] => ({ s with ts := s.ts.setUnsetFrom T.toNat! (s.objs[k.toNat!]!) }, "ok")
  | ["pt.applyin", T, kind, x] => ({ s with ts := s.ts.applyIn T.toNat! (mutOf kind x.toNat!) }, "ok")
  | ["pt.applyout", T, kind, x] => ({ s with ts := s.ts.applyOut T.toNat! (mutOf kind x.toNat!) }, s!"{s.ts.ntab}")
  | ["pt.mutate", T, i, j, kind, x] => ({ s with ts := s.ts.mutate T.toNat! i.toNat! j.toNat! (mutOf kind x.toNat!) }, "ok")
  | ["pt.obs"] =>
      let t := s.ts
      let tabs := (List.range t.ntab).map fun T =>
        s!"T{T} {grid t.n fun i j => optV (t.get T i j)} check {t.check T}"
      let objs := s.objs.toList.map fun r => optV (t.cell r)
      (s, s!"{" ".intercalate tabs} objs {" ".intercalate objs}")
  | ["pt.iter", n, full, diag] =>
      (s, " ".intercalate ((iterpairs n.toNat! (full = "1") (diag = "1")).map fun p => s!"{p.1}:{p.2}"))
  | ["vt.new", n] => ({ s with vt := Array.replicate (n.toNat! + 8) none, vtn := n.toNat! }, "ok")
  | "vt.set" :: v :: ts => ({ s with vt := vtFreeze s.vt.size (vtSet (vtFun s.vt) (nats ts) v.toNat!) }, "ok")
  | ["vt.unset", v] => ({ s with vt := vtFreeze s.vt.size (vtSetUnset s.vtn (vtFun s.vt) v.toNat!) }, "ok")
  | ["vt.obs"] =>
      (s, s!"{" ".intercalate ((vtIter s.vtn (vtFun s.vt)).map fun p => s!"{p.1}:{match p.2 with | none => "N" | some v => toString v}")} check {vtCheck s.vtn (vtFun s.vt)}")
  -- ---------------- C13 MatrixArray objects
  | ["ma.reset"] => ({ s with mh := MH.init }, "ok")
  | "ma.new" :: L :: n :: sp :: xs =>
      let (h, o) := mhStep s.mh (.new ⟨L.toNat!, n.toNat!, spaceOf sp, hexs xs⟩); ({ s with mh := h }, o)
  | "ma.binop" :: op :: k :: ip :: rest =>
      let (h, o) := mhStep s.mh (.binop (binOf op) k.toNat! (rhsOf rest) (ip = "1")); ({ s with mh := h }, o)
  | ["ma.dot", k1, k2, ip] => let (h, o) := mhStep s.mh (.dot k1.toNat! k2.toNat! (ip = "1")); ({ s with mh := h }, o)
  | ["ma.inv", k, ip] => let (h, o) := mhStep s.mh (.invert k.toNat! (ip = "1")); ({ s with mh := h }, o)
  | ["ma.copy", k] => let (h, o) := mhStep s.mh (.getCopy k.toNat!); ({ s with mh := h }, o)
  | "ma.setpair" :: k :: i :: j :: xs =>
      let (h, o) := mhStep s.mh (.setPair k.toNat! i.toNat! j.toNat! (hexs xs)); ({ s with mh := h }, o)
  | ["ma.getpair", k, i, j] =>
      match s.mh.view k.toNat! with
      | none => (s, "ERR shape")
      | some A => match A.getPair i.toNat! j.toNat! with
        | .ok v => (s, fl v.toList)
        | .error e => (s, errTok e)
  | ["ma.obs"] =>
      let h := s.mh
      let refs := h.objs.map (·.ref)
      let parts := (List.range h.objs.length).map fun k =>
        match h.objs[k]?, h.view k with
        | some o, some A => s!"O{k} {A.length} {A.rank} {spaceTok A.space} a{(refs.idxOf o.ref)} {fl A.data.toList}"
        | _, _ => s!"O{k} dead"
      (s, " ".intercalate parts)
  -- ---------------- C12 tabulated omega
  | "fa.calc" :: rest =>
      match splitBar rest with
      | [_, v, k, kd] =>
          let o : FromArr Float := ⟨hexs v, if k = ["none"] then none else some (hexs k)⟩
          match o.calculate (hexs kd) with
          | .ok r => (s, "ok " ++ fl r.toList)
          | .error e => (s, errTok e)
      | _ => (s, "bad-op")
  | "ff.calc" :: variant :: r :: c :: rest =>
      match splitBar rest with
      | [_, d, kd] =>
          let d := hexs d; let R := r.toNat!; let C := c.toNat!
          let rows : Array (Array Float) := tab R fun i => tab C fun j => d[i * C + j]!
          match (if variant = "shipped" then fromFileCalcShipped rows (hexs kd) else fromFileCalc rows (hexs kd)) with
          | .ok r => (s, "ok " ++ fl r.toList)
          | .error e => (s, errTok e)
      | _ => (s, "bad-op")
  | "allclose" :: rest =>
      match splitBar rest with
      | [_, a, b] => (s, toString (allclose (hexs a) (hexs b)))
      | _ => (s, "bad-op")
  -- ---------------- C09 / C10 / C11 element-wise formulas
  | "clos" :: kind :: hc :: sg :: rest =>
      match splitBar rest with
      | [_, r, g, u] =>
          let kd : CKind := if kind = "py" then .py else if kind = "hnc" then .hnc else if kind = "msa" then .msa
            else if kind = "ms" then .ms else if kind = "msA" then .msA else .msB
          (s, fl (closureArr kd (hc = "1") (hexToFloat sg) (hexs r) (hexs g) (hexs u)).toList)
      | _ => (s, "bad-op")
  | "pot" :: name :: rest =>
      match splitBar rest with
      | [ps, r] =>
          let p := hexs ps; let r := hexs r
          let f : Float → Float :=
            if name = "hs" then hardSphere p[0]! p[1]!
            else if name = "exp" then exponentialPot p[0]! p[1]! p[2]! p[3]!
            else if name = "lj" then lennardJones p[0]! p[1]! none false
            else if name = "ljcut" then lennardJones p[0]! p[1]! (some p[2]!) false
            else if name = "ljshift" then lennardJones p[0]! p[1]! (some p[2]!) true
            else if name = "hclj" then hcLennardJones p[0]! p[1]! p[2]!
            else wca p[0]! p[1]!
          (s, fl (r.map f).toList)
      | _ => (s, "bad-op")
  | "om" :: name :: N :: rest =>
      match splitBar rest with
      | [ps, k] =>
          let p := hexs ps; let k := hexs k; let N := N.toNat!
          let f : Float → Float :=
            if name = "gauss" then omegaGaussian p[0]! N
            else if name = "gauss.sum" then fun k => chainPairSum N (gaussianE p[0]! k)
            else if name = "fjc" then omegaFJC p[0]! N
            else if name = "fjc.sum" then fun k => chainPairSum N (fjcE p[0]! k)
            else if name = "ring" then omegaRing p[0]! N
            else if name = "ring.sum" then ringPairSum p[0]! N
            else if name = "single" then omegaSingleSite
            else omegaNoIntra
          (s, fl (k.map f).toList)
      | [_, bs, as, k] =>
          let B := hexs bs; let A := hexs as; let k := hexs k; let N := N.toNat!
          let f : Float → Float :=
            if name = "koyama" then omegaKoyama N (fun t => B[t-1]!) (fun t => A[t-1]!)
            else omegaKoyamaShipped N (fun t => B[t-1]!) (fun t => A[t-1]!)
          (s, fl (k.map f).toList)
      | _ => (s, "bad-op")
  -- ---------------- C07 / C08 Domain
  | ["dom.new", L, dr, dk] =>
      let o : String → Option Float := fun t => if t = "N" then none else some (hexToFloat t)
      match Dom.construct L.toNat! (o dr) (o dk) with
      | .ok d => ({ s with dom := d }, "ok")
      | .error e => (s, errTok e)
  | ["dom.set", "dr", v] => ({ s with dom := s.dom.step (.setDr (hexToFloat v)) }, "ok")
  | ["dom.set", "dk", v] => ({ s with dom := s.dom.step (.setDk (hexToFloat v)) }, "ok")
  | ["dom.set", "length", n] => ({ s with dom := s.dom.step (.setLength n.toNat!) }, "ok")
  | ["dom.obs"] =>
      let d := s.dom
      (s, s!"{d.length} {floatToHex d.dr} {floatToHex d.dk} r {fl d.r.toList} k {fl d.k.toList}")
  | ["dom.coef"] =>
      let d := s.dom
      (s, s!"c2 {fl ((List.range d.length).map d.c2)} c3 {fl ((List.range d.length).map d.c3)}")
  | "dom.tf" :: xs => (s, fl (s.dom.toFourier (hexs xs)).toList)
  | "dom.tr" :: xs => (s, fl (s.dom.toReal (hexs xs)).toList)
  | "dst2" :: xs => let x := hexs xs; (s, fl (dst2 x.size x).toList)
  | "dst3" :: xs => let x := hexs xs; (s, fl (dst3 x.size x).toList)
  | "dom.ma" :: dir :: L :: n :: sp :: xs =>
      let A : MA Float := ⟨L.toNat!, n.toNat!, spaceOf sp, hexs xs⟩
      match (if dir = "F" then s.dom.maToFourier A else s.dom.maToReal A) with
      | .ok B => (s, s!"{spaceTok B.space} {fl B.data.toList}")
      | .error e => (s, errTok e)
  -- ---------------- C18 Debyer: deb.chunk n c ; deb.calc self c nbins dk F n1 n2 | M1.. | M2.. | (L(3) R1(3 n1) R2(3 n2)) per frame, each after a bar
  | ["deb.chunk", n, c] =>
      let n := n.toNat!; let c := c.toNat!
      if chunkOK n c then (s, " ".intercalate ((List.range c).map fun t => s!"{(chunkRow n c t).1} {(chunkRow n c t).2}")) else (s, "ERR rejected")
  | "deb.calc" :: self :: c :: nbins :: dk :: nF :: n1 :: n2 :: rest =>
      let self := self = "1"; let c := c.toNat!; let n1 := n1.toNat!; let n2 := n2.toNat!; let nF := nF.toNat!
      match splitBar rest with
      | _ :: m1 :: m2 :: frames =>
        if !chunkOK n1 c then (s, "ERR rejected") else
        let M1 := (nats m1).toArray; let M2 := (nats m2).toArray
        let fr := (frames.map hexs).toArray
        let frame : Nat → DebFrame Float := fun f =>
          let a := fr[f]!
          { n1 := n1, n2 := n2, M1 := fun i => M1[i]!, M2 := fun j => M2[j]!, L := fun x => a[x]!,
            R1 := fun i x => a[3 + 3 * i + x]!, R2 := fun j x => a[3 + 3 * n1 + 3 * j + x]! }
        (s, fl ((List.range nbins.toNat!).map fun q => debyer self c (hexToFloat dk) nF frame q))
      | _ => (s, "bad-op")
  | ["deb.mi", a, b, L] => (s, floatToHex (miComp (hexToFloat a) (hexToFloat b) (hexToFloat L)))
  | _ => (s, "bad-op")

partial def loop (h : IO.FS.Stream) (out : IO.FS.Stream) (s : DState) : IO Unit := do
  let line ← h.getLine
  if line.isEmpty then return ()
  let toks := (line.trimAscii.toString.splitOn " ").filter (· ≠ "")
  let (s', o) := step s toks
  out.putStrLn o
  out.flush
  loop h out s'

def main : IO Unit := do
  let out ← IO.getStdout
  loop (← IO.getStdin) out {}
