import Model
/-!
Line-protocol driver: one operation per input line, one canonical line out.
Floats travel as 16-hex-digit IEEE bit patterns.  `N` is `None`.
-/

def hexToFloat (s : String) : Float :=
  let n := s.foldl (fun acc c =>
    acc * 16 + (if c.isDigit then c.toNat - 48 else if c.toNat ≥ 97 then c.toNat - 87 else c.toNat - 55)) 0
  Float.ofBits n.toUInt64

def floatToHex (x : Float) : String :=
  let s := (Nat.toDigits 16 x.toBits.toNat)
  String.ofList (List.replicate (16 - s.length) '0' ++ s)

def fl (xs : List Float) : String := " ".intercalate (xs.map floatToHex)
def optHex : Option Float → String
  | none => "N"
  | some x => floatToHex x
def nats (xs : List String) : List Nat := xs.map String.toNat!

structure DState where
  dens : Dens Float := Dens.init 0
  diam : Diam Float := Diam.init 0

def grid (n : Nat) (f : Nat → Nat → String) : String :=
  " ".intercalate ((List.range n).flatMap fun i => (List.range n).map fun j => f i j)

def step (s : DState) (toks : List String) : DState × String :=
  match toks with
  -- ---------------- C15 Density / Diameter
  | ["dens.new", n] => ({ s with dens := Dens.init n.toNat! }, "ok")
  | "dens.set" :: v :: ts => ({ s with dens := s.dens.set (nats ts) (hexToFloat v) }, "ok")
  | ["dens.obs"] =>
      let d := s.dens
      (s, s!"rho {" ".intercalate ((List.range d.n).map fun t => optHex (d.rho t))} total {floatToHex d.total} pair {grid d.n fun i j => floatToHex (d.pair i j)} site {grid d.n fun i j => floatToHex (d.site i j)} check {d.check}")
  | ["diam.new", n] => ({ s with diam := Diam.init n.toNat! }, "ok")
  | "diam.set" :: v :: ts => ({ s with diam := s.diam.set (nats ts) (hexToFloat v) }, "ok")
  | ["diam.obs"] =>
      let d := s.diam
      (s, s!"diam {" ".intercalate ((List.range d.n).map fun t => optHex (d.diam t))} volume {" ".intercalate ((List.range d.n).map fun t => optHex (d.volume t))} sigma {grid d.n fun i j => optHex (d.sigma i j)} check {d.check}")
  | _ => (s, "bad-op")

partial def loop (h : IO.FS.Stream) (out : IO.FS.Stream) (s : DState) : IO Unit := do
  let line ← h.getLine
  if line.isEmpty then return ()
  let toks := (line.trimAscii.toString.splitOn " ").filter (· ≠ "")
  let (s', o) := step s toks
  out.putStrLn o
  out.flush
  loop h out s'

def main : IO Unit := do
  let out ← IO.getStdout
  loop (← IO.getStdin) out {}
