import Proofs.RealInst
import Proofs.Lemmas.TrigSums
import Proofs.Lemmas.RowFold
import Proofs.Dst
import Proofs.PairSum
import Proofs.PrismAlg
import Proofs.HeapPT
import Proofs.Props.C15
