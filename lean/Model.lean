import Model.Scalar
import Model.Domain
import Model.Density
import Model.Tables
import Model.MatrixArray
import Model.MAHeap
import Model.FromData
