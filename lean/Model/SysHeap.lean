import Model.Prism
/-!
# Object-identity model of `System` → `PRISM` (isolation clauses of C16)

Potential and closure objects are *cells* in an explicit store; the System's pair tables and
every PRISM object hold references.  `PairTable.__setitem__` deep-copies (a fresh cell),
`PRISM.__init__` deep-copies the whole System (fresh cells for every pair) and then writes
`U.sigma`, `closure.sigma`, `closure.potential` **on the copies**.  `createAliased` is the variant
that iterates the caller's `sys.potential` instead of `self.sys.potential` (the write of `U.sigma`
lands in the System's own object) — used for the negation witness.
-/
open Lit Transc

variable {α : Type} [Add α] [Sub α] [Mul α] [Div α] [Neg α] [Lit α] [Transc α] [Inhabited α] [LT α] [DecidableLT α]

/-- a closure object: class, hard-core flag, and the two attributes `PRISM.__init__` fills in -/
structure CloObj (α : Type) where
  kind : CKind
  hc : Bool
  sigma : Option α
  potential : Option (Array α)
  deriving Inhabited

structure Store (α : Type) where
  next : Nat
  pot : Nat → Option (PotSpec α)
  clo : Nat → Option (CloObj α)

def Store.empty : Store α := ⟨0, fun _ => none, fun _ => none⟩
def Store.allocPot (h : Store α) (P : PotSpec α) : Store α × Nat :=
  ({ h with next := h.next + 1, pot := upd h.pot h.next (some P) }, h.next)
def Store.allocClo (h : Store α) (C : CloObj α) : Store α × Nat :=
  ({ h with next := h.next + 1, clo := upd h.clo h.next (some C) }, h.next)

/-- the System: value fields plus references for the two tables of mutable objects -/
structure SysH (α : Type) where
  n : Nat
  kT : α
  dom : Option (Dom α)
  dens : Dens α
  diam : Diam α
  potR : Nat → Nat → Option Nat
  cloR : Nat → Nat → Option Nat
  om : Nat → Nat → Option (OmSpec α)

def SysH.init (n : Nat) (kT : α) : SysH α :=
  ⟨n, kT, none, Dens.init n, Diam.init n, fun _ _ => none, fun _ _ => none, fun _ _ => none⟩

/-- a PRISM object: references to *its own* potential / closure objects + the value-level state -/
structure PrismH (α : Type) where
  potR : Nat → Nat → Nat
  cloR : Nat → Nat → Nat
  owned : List Nat            -- every cell this object allocated (its private potential / closure objects)
  core : Prism α
  deriving Inhabited

/-- accumulator of the copying loop of `PRISM.__init__` -/
structure CopyAcc (α : Type) where
  st : Store α
  potR : Nat → Nat → Nat
  cloR : Nat → Nat → Nat
  owned : List Nat

structure World (α : Type) where
  st : Store α
  sys : SysH α
  prisms : List (PrismH α)

def World.init (n : Nat) (kT : α) : World α := ⟨Store.empty, SysH.init n kT, []⟩

/-- what the System *means*: the value-level `Sys` obtained by reading its objects through the references -/
def absSys (h : Store α) (s : SysH α) : Sys α :=
  { n := s.n, kT := s.kT, dom := s.dom, dens := s.dens, diam := s.diam,
    pot := fun i j => (s.potR i j).bind h.pot,
    clo := fun i j => ((s.cloR i j).bind h.clo).map fun c => (c.kind, c.hc),
    om := s.om }

inductive SOp (α : Type)
  | setKT (v : α)
  | setDom (d : Option (Dom α))
  | setDens (ts : List Nat) (v : α)
  | setDiam (ts : List Nat) (v : α)
  | setPot (i j : Nat) (P : Option (PotSpec α))          -- `sys.potential[a,b] = U` (deep copy) / left unset
  | setClo (i j : Nat) (C : Option (CKind × Bool))
  | setOm (i j : Nat) (O : Option (OmSpec α))
  | editPotSigma (i j : Nat) (v : Option α)              -- in-place: `sys.potential[a,b].sigma = v`
  | create                                               -- `sys.createPRISM()`

/-- pairs `i ≤ j < n` in table order -/
def upperPairs (n : Nat) : List (Nat × Nat) :=
  (List.range n).flatMap fun i => ((List.range n).filter (i ≤ ·)).map fun j => (i, j)

/-- `deepcopy(sys)` for the two object tables + the writes of `PRISM.__init__`, one pair at a time -/
def copyPair (s : SysH α) (d : Dom α) (acc : CopyAcc α) (ij : Nat × Nat) : CopyAcc α :=
  let h := acc.st
  let (i, j) := ij
  let sig : α := (s.diam.sigma i j).getD (ofNat 0)
  let P0 : PotSpec α := ((s.potR i j).bind h.pot).getD default
  let psig : α := match P0.sigma with | some v => v | none => sig
  let P1 : PotSpec α := { P0 with sigma := some psig }
  let r := d.r
  let u : Array α := tab d.length fun l => P1.eval psig r[l]! / s.kT
  let C0 : CloObj α := ((s.cloR i j).bind h.clo).getD default
  let C1 : CloObj α := { C0 with sigma := some sig, potential := some u }
  let (h1, rp) := h.allocPot P1
  let (h2, rc) := h1.allocClo C1
  ⟨h2, setSym acc.potR i j rp, setSym acc.cloR i j rc, rc :: rp :: acc.owned⟩

def World.step (w : World α) : SOp α → World α × Bool
  | .setKT v => ({ w with sys := { w.sys with kT := v } }, true)
  | .setDom d => ({ w with sys := { w.sys with dom := d } }, true)
  | .setDens ts v => ({ w with sys := { w.sys with dens := w.sys.dens.set ts v } }, true)
  | .setDiam ts v => ({ w with sys := { w.sys with diam := w.sys.diam.set ts v } }, true)
  | .setPot i j none => ({ w with sys := { w.sys with potR := setSym w.sys.potR i j none } }, true)
  | .setPot i j (some P) =>
      let (h, r) := w.st.allocPot P
      ({ w with st := h, sys := { w.sys with potR := setSym w.sys.potR i j (some r) } }, true)
  | .setClo i j none => ({ w with sys := { w.sys with cloR := setSym w.sys.cloR i j none } }, true)
  | .setClo i j (some (k, hc)) =>
      let (h, r) := w.st.allocClo ⟨k, hc, none, none⟩
      ({ w with st := h, sys := { w.sys with cloR := setSym w.sys.cloR i j (some r) } }, true)
  | .setOm i j O => ({ w with sys := { w.sys with om := setSym w.sys.om i j O } }, true)
  | .editPotSigma i j v =>
      match w.sys.potR i j with
      | none => (w, false)
      | some r =>
        match w.st.pot r with
        | none => (w, false)
        | some P => ({ w with st := { w.st with pot := upd w.st.pot r (some { P with sigma := v }) } }, true)
  | .create =>
      match (absSys w.st w.sys).createPRISM, w.sys.dom with
      | .ok core, some d =>
        let acc := (upperPairs w.sys.n).foldl (copyPair w.sys d) ⟨w.st, fun _ _ => 0, fun _ _ => 0, []⟩
        ({ w with st := acc.st, prisms := w.prisms ++ [⟨acc.potR, acc.cloR, acc.owned, core⟩] }, true)
      | _, _ => (w, false)

def World.run (w : World α) (ops : List (SOp α)) : World α := ops.foldl (fun w op => (w.step op).1) w

/-- the defective variant: the default `U.sigma` is written into the System's own potential object -/
def World.createAliased (w : World α) : World α :=
  (upperPairs w.sys.n).foldl (fun w ij =>
    match w.sys.potR ij.1 ij.2 with
    | some r =>
      match w.st.pot r with
      | some P =>
        (match P.sigma with
         | none => { w with st := { w.st with pot := upd w.st.pot r (some { P with sigma := some ((w.sys.diam.sigma ij.1 ij.2).getD (ofNat 0)) }) } }
         | some _ => w)
      | none => w
    | none => w) w
