import Model.Scalar
open Transc Lit
variable {α : Type} [Add α] [Sub α] [Mul α] [Div α] [Neg α] [Transc α] [Lit α] [Inhabited α]

def dst2 (N : Nat) (x : Array α) : Array α :=
  tab N fun k => ofNat 2 * sumTo N fun n => x[n]! * sin (pi * ofNat ((k+1)*(2*n+1)) / ofNat (2*N))

def dst3 (N : Nat) (x : Array α) : Array α :=
  tab N fun k => (if k % 2 = 0 then x[N-1]! else -(x[N-1]!)) +
    ofNat 2 * sumTo (N-1) fun n => x[n]! * sin (pi * ofNat ((2*k+1)*(n+1)) / ofNat (2*N))
