import Model.Scalar
import Model.MatrixArray
/-!
# `Domain` (pyPRISM/core/Domain.py)

`dst2` / `dst3` are SciPy's *documented* unnormalised DST-II / DST-III direct sums
(`scipy.fftpack.dst(type=2/3)`); the correspondence check validates them against SciPy
on every run.  `Dom` carries the three stored scalars `_length, _dr, _dk`; the grids and
coefficient arrays are functions of them (`build_grid` is called by every setter).
-/
open Transc Lit
variable {α : Type} [Add α] [Sub α] [Mul α] [Div α] [Neg α] [Transc α] [Lit α] [Inhabited α]

def dst2 (N : Nat) (x : Array α) : Array α :=
  tab N fun k => ofNat 2 * sumTo N fun n => x[n]! * sin (pi * ofNat ((k+1)*(2*n+1)) / ofNat (2*N))

def dst3 (N : Nat) (x : Array α) : Array α :=
  tab N fun k => (if k % 2 = 0 then x[N-1]! else -(x[N-1]!)) +
    ofNat 2 * sumTo (N-1) fun n => x[n]! * sin (pi * ofNat ((2*k+1)*(n+1)) / ofNat (2*N))

structure Dom (α : Type) where
  length : Nat
  dr : α
  dk : α
  deriving Inhabited

/-- `np.pi/(spacing*length)`: the conjugate spacing -/
def conj (length : Nat) (s : α) : α := pi / (s * ofNat length)

/-- `Domain(length, dr=dr)` -/
def Dom.ofDr (length : Nat) (dr : α) : Dom α := ⟨length, dr, conj length dr⟩
/-- `Domain(length, dk=dk)` -/
def Dom.ofDk (length : Nat) (dk : α) : Dom α := ⟨length, conj length dk, dk⟩

/-- the constructor's argument check: exactly one spacing must be given -/
def Dom.construct (length : Nat) (dr dk : Option α) : Except Err (Dom α) :=
  match dr, dk with
  | none, none => .error .valueError
  | some _, some _ => .error .valueError
  | some a, none => .ok (Dom.ofDr length a)
  | none, some b => .ok (Dom.ofDk length b)

inductive DomOp (α : Type)
  | setDr (v : α)
  | setDk (v : α)
  | setLength (n : Nat)

/-- the three property setters (after the repair of finding F1: `length` recomputes `dk`) -/
def Dom.step (d : Dom α) : DomOp α → Dom α
  | .setDr v => ⟨d.length, v, conj d.length v⟩
  | .setDk v => ⟨d.length, conj d.length v, v⟩
  | .setLength n => ⟨n, d.dr, conj n d.dr⟩

/-- the `length` setter as shipped before the repair: `dk` stays at the old length's value -/
def Dom.stepShipped (d : Dom α) : DomOp α → Dom α
  | .setLength n => ⟨n, d.dr, d.dk⟩
  | op => d.step op

def Dom.run (d : Dom α) (ops : List (DomOp α)) : Dom α := ops.foldl Dom.step d

/-- `self.r = np.arange(1,length+1)*dr` -/
def Dom.r (d : Dom α) : Array α := tab d.length fun i => ofNat (i + 1) * d.dr
/-- `self.k = np.arange(1,length+1)*dk` -/
def Dom.k (d : Dom α) : Array α := tab d.length fun j => ofNat (j + 1) * d.dk
/-- `DST_II_coeffs = 2.0*np.pi*r*dr` -/
def Dom.c2 (d : Dom α) (i : Nat) : α := ofNat 2 * pi * (ofNat (i + 1) * d.dr) * d.dr
/-- `DST_III_coeffs = k*dk/(4.0*np.pi*np.pi)` -/
def Dom.c3 (d : Dom α) (j : Nat) : α := (ofNat (j + 1) * d.dk) * d.dk / (ofNat 4 * pi * pi)

/-- `dst(DST_II_coeffs*array, type=2)/k` -/
def Dom.toFourier (d : Dom α) (f : Array α) : Array α :=
  let t := dst2 d.length (tab d.length fun i => d.c2 i * f[i]!)
  tab d.length fun j => t[j]! / (ofNat (j + 1) * d.dk)

/-- `dst(DST_III_coeffs*array, type=3)/r` -/
def Dom.toReal (d : Dom α) (F : Array α) : Array α :=
  let t := dst3 d.length (tab d.length fun j => d.c3 j * F[j]!)
  tab d.length fun i => t[i]! / (ofNat (i + 1) * d.dr)

/-- the pair function `marray[t_i,t_j]` as a 1-d array over the grid -/
def MA.pair (A : MA α) (i j : Nat) : Array α := tab A.length fun l => A.at l i j

/-- the common body of `MatrixArray_to_fourier/_to_real`: the loop runs over `iterpairs()`
(`i ≤ j`), reads the upper entry and `__setitem__` writes both `[i,j]` and `[j,i]` -/
def MA.mapPairs (A : MA α) (sp : Space) (T : Array α → Array α) : MA α :=
  let tr : Array (Array α) := tab (A.rank * A.rank) fun idx =>
    let i := idx / A.rank; let j := idx % A.rank
    if i ≤ j then T (A.pair i j) else #[]
  MA.build A.length A.rank sp fun l i j =>
    (tr[(if i ≤ j then i else j) * A.rank + (if i ≤ j then j else i)]!)[l]!

/-- `Domain.MatrixArray_to_fourier`: `ValueError` iff already marked Fourier -/
def Dom.maToFourier (d : Dom α) (A : MA α) : Except Err (MA α) :=
  if A.space = .fourier then .error .valueError else .ok (A.mapPairs .fourier d.toFourier)

/-- `Domain.MatrixArray_to_real`: `ValueError` iff already marked Real -/
def Dom.maToReal (d : Dom α) (A : MA α) : Except Err (MA α) :=
  if A.space = .real then .error .valueError else .ok (A.mapPairs .real d.toReal)
