import Model.Scalar
/-!
# Analytic reference functions (Wertheim–Thiele solution of the PY equation for hard spheres, σ = 1)

Used by the C02 validation runs as the numbers the solved functions are compared with; C02's theorems
show that these reference values are mutually consistent.
-/
open Lit

variable {α : Type} [Add α] [Sub α] [Mul α] [Div α] [Neg α] [Lit α]

def wtLam1 (η : α) : α := powN (ofNat 1 + ofNat 2 * η) 2 / powN (ofNat 1 - η) 4
def wtLam2 (η : α) : α := -(powN (ofNat 1 + η / ofNat 2) 2) / powN (ofNat 1 - η) 4
/-- `c(r)` inside the core (`r < 1`); zero outside -/
def wtC (η r : α) : α := -(wtLam1 η + ofNat 6 * η * wtLam2 η * r + η * wtLam1 η / ofNat 2 * powN r 3)
/-- contact value `g(1⁺) = (1 + η/2)/(1-η)²` -/
def wtContact (η : α) : α := (ofNat 1 + η / ofNat 2) / powN (ofNat 1 - η) 2
/-- `S(0) = (1-η)⁴/(1+2η)²` -/
def wtS0 (η : α) : α := powN (ofNat 1 - η) 4 / powN (ofNat 1 + ofNat 2 * η) 2
