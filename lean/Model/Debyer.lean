import Model.Scalar
/-!
# `pyPRISM.trajectory.Debyer` (pyPRISM/trajectory/Debyer.pyx)

The Cython class splits the sites of the first trajectory into `num_chunks` consecutive chunks (`_chunk`), lets one OpenMP
thread per chunk accumulate `sin(k r)/r` over the intramolecular pairs of its chunk into ITS OWN row of `thread_omega`
(`prange(num_chunks, schedule='static', chunksize=1)`), gathers the rows in chunk order, rescales by `1/(k N)` and, for a
self correlation, doubles and adds one; frames are averaged.  The model below is that computation, written once for any
scalar type; positions, molecule labels and boxes are functions of the site / axis / frame index.

What an executable model does not exhibit: the OpenMP runtime itself (which thread runs which chunk, when).  The model's
`execSchedule` executes an ARBITRARY interleaving of the per-chunk update streams on the shared table, which is the
logical content of "every thread writes only its own row".
-/
open Lit

/-- `floor` (libc `floor` on the implementation side) -/
class HasFloor (α : Type) where
  floor : α → α
instance : HasFloor Float := ⟨Float.floor⟩

/-- `accRange lo n f a`: thread the accumulator `a` through the indices `lo, lo+1, …, lo+n-1` in that order -/
def accRange {β : Type} (lo : Nat) : Nat → (β → Nat → β) → β → β
  | 0, _, a => a
  | n+1, f, a => f (accRange lo n f a) (lo + n)

/-! ### `_chunk` -/

/-- `int(ceil(n / float(c)))` -/
def chunkSize (n c : Nat) : Nat := (n + c - 1) / c

/-- row `t` of the array `_chunk(n, c)` returns: `(start, stop)` of chunk `t`; rows after the last non-empty chunk stay `(0, 0)` -/
def chunkRow (n c t : Nat) : Nat × Nat :=
  if t * chunkSize n c < n then (t * chunkSize n c, min ((t + 1) * chunkSize n c) n) else (0, 0)

/-- `_chunk` fails for no indices (`range(0, 0, 0)`) and for no chunks (`float` division by zero) -/
def chunkOK (n c : Nat) : Bool := decide (0 < n) && decide (0 < c)

section
variable {α : Type} [Add α] [Sub α] [Mul α] [Div α] [Neg α] [Lit α] [Transc α] [HasFloor α] [LT α] [DecidableLT α]

/-- one Cartesian component of a separation, folded to the nearest periodic image -/
def miComp (a b L : α) : α :=
  let d := absS (a - b)
  d - L * HasFloor.floor (d / L + dec 5 1)

/-- scalar distance of two sites under the minimum-image convention (`p`, `q`, `L`: axis ↦ value) -/
def miDist (p q L : Nat → α) : α :=
  let dx := miComp (p 0) (q 0) (L 0)
  let dy := miComp (p 1) (q 1) (L 1)
  let dz := miComp (p 2) (q 2) (L 2)
  Transc.sqrt (dx * dx + dy * dy + dz * dz)

/-- `sin(k r)/r`, and its limit `k` for coincident sites -/
def sincTerm (k r : α) : α := if ofNat 0 < r then Transc.sin (k * r) / r else k

/-- the data of one frame and one pair of site selections -/
structure DebFrame (α : Type) where
  n1 : Nat
  n2 : Nat
  M1 : Nat → Nat
  M2 : Nat → Nat
  R1 : Nat → Nat → α      -- site, axis
  R2 : Nat → Nat → α
  L : Nat → α

/-- what the pair `(i, j)` adds at wavenumber `k` (`continue` for sites of different molecules) -/
def pairTerm (F : DebFrame α) (k : α) (i j : Nat) : α :=
  if F.M1 i = F.M2 j then sincTerm k (miDist (F.R1 i) (F.R2 j) F.L) else ofNat 0

/-- first partner index: `i+1` for a self correlation (no double counting), `0` otherwise -/
def jStart (self : Bool) (i : Nat) : Nat := if self then i + 1 else 0

/-- the inner `j` loop of site `i`, continuing from the accumulator `a` -/
def rowAcc (self : Bool) (F : DebFrame α) (k : α) (i : Nat) (a : α) : α :=
  accRange (jStart self i) (F.n2 - jStart self i) (fun a j => a + pairTerm F k i j) a

/-- what the thread of chunk `[i0, i1)` leaves in its row of `thread_omega` -/
def chunkAcc (self : Bool) (F : DebFrame α) (k : α) (i0 i1 : Nat) : α :=
  accRange i0 (i1 - i0) (fun a i => rowAcc self F k i a) (ofNat 0)

/-- `_calculate` for one frame at wavenumber index `q` with `c` chunks -/
def frameOmega (self : Bool) (c : Nat) (dk : α) (F : DebFrame α) (q : Nat) : α :=
  let k := dk * ofNat (q + 1)
  let gathered := accRange 0 c (fun a t => a + chunkAcc self F k (chunkRow F.n1 c t).1 (chunkRow F.n1 c t).2) (ofNat 0)
  let tot := if self then F.n1 else F.n1 + F.n2
  let v := gathered / (k * ofNat tot)
  if self then ofNat 2 * v + ofNat 1 else v

/-- `calculate`: average over the frames -/
def debyer (self : Bool) (c : Nat) (dk : α) (nframes : Nat) (frame : Nat → DebFrame α) (q : Nat) : α :=
  accRange 0 nframes (fun a f => a + frameOmega self c dk (frame f) q) (ofNat 0) / ofNat nframes

/-! ### schedules: any interleaving of the per-chunk update streams -/

/-- one update of the shared table: thread/chunk `t` adds `x` to its own row -/
def schedStep (tbl : Nat → α) (u : Nat × α) : Nat → α := fun t => if t = u.1 then tbl t + u.2 else tbl t

/-- execute a schedule (a list of `(chunk, increment)` updates in the order the runtime happened to perform them) -/
def execSchedule (tbl : Nat → α) (us : List (Nat × α)) : Nat → α := us.foldl schedStep tbl

/-- the update stream of chunk `t` in program order: the pair terms of its sites -/
def chunkStream (self : Bool) (F : DebFrame α) (k : α) (t i0 i1 : Nat) : List (Nat × α) :=
  (List.range (i1 - i0)).flatMap fun di =>
    (List.range (F.n2 - jStart self (i0 + di))).map fun dj => (t, pairTerm F k (i0 + di) (jStart self (i0 + di) + dj))
end
