import Model.Density
/-!
# `PairTable` / `ValueTable` over an explicit object store (pyPRISM/core/PairTable.py,
ValueTable.py, Table.py)

A pure value model would make "independent copies" true by typing.  Here stored values
live in heap cells; a table maps (table id, type index, type index) to a *reference*.
`copy.deepcopy(value)` allocates a fresh cell; an in-place change of a stored or
caller-held Python object is a write through its reference.  `ext r = true` marks cells the
*caller* holds (the object passed to `table[a,b] = obj`).
Types are positions `0 … n-1`; several tables share one heap so that
`apply(inplace=False)` (a second table built from the first) can be stated.
-/

structure TS (V : Type) where
  n : Nat
  next : Nat
  cell : Nat → Option V
  ext : Nat → Bool
  ntab : Nat
  slot : Nat → Nat → Nat → Option Nat

variable {V : Type}

def TS.init (n : Nat) : TS V := ⟨n, 0, fun _ => none, fun _ => false, 1, fun _ _ _ => none⟩

/-- `for (i,t1),(j,t2) in product(enumerate(types),enumerate(types)): if test(i,j): yield` -/
def iterpairs (n : Nat) (full diagonal : Bool) : List (Nat × Nat) :=
  (List.range n).flatMap fun i => ((List.range n).filter fun j =>
    if full then true else if diagonal then i ≤ j else i < j).map fun j => (i, j)

/-- the caller creates an object (a list, a dict, an array …); returns the new state, ref = old `next` -/
def TS.newObj (s : TS V) (v : V) : TS V :=
  { s with next := s.next + 1, cell := upd s.cell s.next (some v), ext := upd s.ext s.next true }

/-- in-place change of the object behind reference `c` -/
def TS.mutRef (s : TS V) (c : Nat) (g : V → V) : TS V :=
  { s with cell := fun r => if r = c then (s.cell r).map g else s.cell r }

/-- `value_copy = copy.deepcopy(value); values[t1][t2] = value_copy; if symmetric and t1!=t2: values[t2][t1] = value_copy` -/
def TS.setOne (s : TS V) (T i j : Nat) (v : V) : TS V :=
  { s with next := s.next + 1
           cell := upd s.cell s.next (some v)
           slot := fun T' a b =>
             if T' = T ∧ ((a = i ∧ b = j) ∨ (a = j ∧ b = i)) then some s.next else s.slot T' a b }

/-- `table[types1,types2] = value` with both keys listified -/
def TS.setList (s : TS V) (T : Nat) (is js : List Nat) (v : V) : TS V :=
  is.foldl (fun s i => js.foldl (fun s j => s.setOne T i j v) s) s

/-- `table[types1,types2] = obj` where `obj` is the caller's object behind `c` -/
def TS.setFrom (s : TS V) (T : Nat) (is js : List Nat) (c : Nat) : TS V :=
  match s.cell c with
  | none => s
  | some v => s.setList T is js v

/-- what a read `table[a,b]` sees -/
def TS.get (s : TS V) (T a b : Nat) : Option V := (s.slot T a b).bind s.cell

/-- `setUnset(value)` -/
def TS.setUnset (s : TS V) (T : Nat) (v : V) : TS V :=
  (iterpairs s.n false true).foldl
    (fun s p => match s.get T p.1 p.2 with | none => s.setOne T p.1 p.2 v | some _ => s) s

def TS.setUnsetFrom (s : TS V) (T : Nat) (c : Nat) : TS V :=
  match s.cell c with
  | none => s
  | some v => s.setUnset T v

/-- `apply(func, inplace=True)` for a pure `func` (unset entries stay unset) -/
def TS.applyIn (s : TS V) (T : Nat) (f : V → V) : TS V :=
  (iterpairs s.n false true).foldl
    (fun s p => match s.get T p.1 p.2 with | none => s | some v => s.setOne T p.1 p.2 (f v)) s

/-- `apply(func, inplace=False)`: builds table number `ntab` from table `T` -/
def TS.applyOut (s : TS V) (T : Nat) (f : V → V) : TS V :=
  (iterpairs s.n false true).foldl
    (fun s' p => match s'.get T p.1 p.2 with | none => s' | some v => s'.setOne s.ntab p.1 p.2 (f v))
    { s with ntab := s.ntab + 1 }

/-- in-place change of the object stored at `(i,j)` (e.g. `table[a,b].append(x)`) -/
def TS.mutate (s : TS V) (T i j : Nat) (g : V → V) : TS V :=
  match s.slot T i j with
  | none => s
  | some r => s.mutRef r g

/-- `check()` passes iff no pair of the upper triangle is `None` -/
def TS.check (s : TS V) (T : Nat) : Bool :=
  (iterpairs s.n false true).all fun p => (s.get T p.1 p.2).isSome

/-! ### ValueTable: a plain keyed map (`values[t] = value`, no copy) -/

def vtSet {β} (f : Nat → Option β) (ts : List Nat) (v : β) : Nat → Option β :=
  ts.foldl (fun f t => upd f t (some v)) f

def vtSetUnset {β} (n : Nat) (f : Nat → Option β) (v : β) : Nat → Option β :=
  (List.range n).foldl (fun f t => match f t with | none => upd f t (some v) | some _ => f) f

def vtCheck {β} (n : Nat) (f : Nat → Option β) : Bool := (List.range n).all fun t => (f t).isSome

def vtIter {β} (n : Nat) (f : Nat → Option β) : List (Nat × Option β) := (List.range n).map fun t => (t, f t)
