import Model.Scalar
/-!
# `UnitConverter` (pyPRISM/util/UnitConverter.py), formula level

`dcM` is the characteristic length in metres, `ecJ` the characteristic energy **per particle** in joules
(a molar `ec` is divided by `N_A` by the converter), `kB`, `NA` the 2019 SI constants.
-/
open Lit

variable {α : Type} [Add α] [Sub α] [Mul α] [Div α] [Neg α] [Lit α] [Transc α]

/-- `toKelvin`: `T* e_c / k_B` -/
def ucKelvin (ecJ kB T : α) : α := T * ecJ / kB
/-- `toCelcius`: kelvin − 273.15 -/
def ucCelsius (ecJ kB T : α) : α := ucKelvin ecJ kB T - dec 27315 2
/-- `toInvAngstrom`: `k* / d_c` with `d_c` in ångström (`1 Å = 1e-10 m`) -/
def ucInvAngstrom (dcM k : α) : α := k / (dcM * ofNat (10 ^ 10))
/-- `toInvNanometer`: `k* / d_c` with `d_c` in nanometres -/
def ucInvNanometer (dcM k : α) : α := k / (dcM * ofNat (10 ^ 9))
/-- `toConcentration`: `rho* / (d_c^3 N_A)` in mol/L (`d_c` in decimetres) -/
def ucConcentration (dcM NA rho : α) : α := rho / (powN (dcM * ofNat 10) 3 * NA)
/-- `toVolumeFraction`: `rho* · 4/3 · pi · (d/2)^3` -/
def ucVolumeFraction (rho d : α) : α := rho * ofNat 4 / ofNat 3 * Transc.pi * powN (d / ofNat 2) 3
