import Model.Scalar
/-!
# Analytic intra-molecular correlation functions ω(k) (pyPRISM/omega/*.py), value at one `k`
-/
open Lit Transc

variable {α : Type} [Add α] [Sub α] [Mul α] [Div α] [Neg α] [Lit α] [Transc α] [Inhabited α]

/-- the shared closed form `(1 - E² - 2E/N + 2E^{N+1}/N) / (1-E)²` -/
def chainClosedForm (N : Nat) (E : α) : α :=
  (ofNat 1 - E * E - ofNat 2 * E / ofNat N + (ofNat 2 * powN E (N + 1)) / ofNat N) / powN (ofNat 1 - E) 2

/-- the defining pair sum `(1/N) Σ_{i,j<N} E^{|i-j|}` -/
def chainPairSum (N : Nat) (E : α) : α :=
  (sumTo N fun i => sumTo N fun j => powN E (if i ≤ j then j - i else i - j)) / ofNat N

def gaussianE (σ k : α) : α := exp (-k * k * σ * σ / ofNat 6)
def fjcE (l k : α) : α := sin (k * l) / (k * l)

def omegaGaussian (σ : α) (N : Nat) (k : α) : α := chainClosedForm N (gaussianE σ k)
def omegaFJC (l : α) (N : Nat) (k : α) : α := chainClosedForm N (fjcE l k)

/-- `GaussianRing.calculate`: the shipped single loop over `i` with `j = 0` -/
def ringTerm (σ : α) (N : Nat) (k : α) (t : Nat) : α :=
  exp (-(σ * σ) * (k * k) * ofNat t * ofNat (N - t) / (ofNat 6 * ofNat N))
def omegaRing (σ : α) (N : Nat) (k : α) : α := sumTo N fun i => ringTerm σ N k i
/-- the defining double sum `(1/N) Σ_{i,j} w_{|i-j|}` of the ring -/
def ringPairSum (σ : α) (N : Nat) (k : α) : α :=
  (sumTo N fun i => sumTo N fun j => ringTerm σ N k (if i ≤ j then j - i else i - j)) / ofNat N

def omegaSingleSite (_k : α) : α := ofNat 1
def omegaNoIntra (_k : α) : α := ofNat 0

/-- Koyama kernel `sin(Bk)/(Bk) · exp(-A² k²)` for given `B`, `A²` -/
def koyamaKernel (B Asq k : α) : α := sin (B * k) / (B * k) * exp (-Asq * k * k)

/-- `DiscreteKoyama.calculate`: `1 + (2/N) Σ_{1≤i<j≤N} w_{j-i}` (sites numbered `1…N`),
as a loop over separations `τ = 1 … N-1` with multiplicity `N-τ`; `B τ`, `Asq τ` are the kernel
parameters the constructor derives from `(sigma, l, lp)` (taken from the implementation) -/
def omegaKoyama (N : Nat) (B Asq : Nat → α) (k : α) : α :=
  (sumTo (N - 1) fun t => ofNat (N - (t + 1)) * koyamaKernel (B (t + 1)) (Asq (t + 1)) k) * (ofNat 2 / ofNat N) + ofNat 1

/-- the loop as shipped before the repair (finding F8): `i ∈ 1…N-2`, `j ∈ i+1…N-1`
covers only `N-1` sites: separation `τ` occurs `N-1-τ` times -/
def omegaKoyamaShipped (N : Nat) (B Asq : Nat → α) (k : α) : α :=
  (sumTo (N - 2) fun t => ofNat (N - 1 - (t + 1)) * koyamaKernel (B (t + 1)) (Asq (t + 1)) k) * (ofNat 2 / ofNat N) + ofNat 1

/-- NFJC: `ω_id + (2/N) Σ_{τ=2}^{N-1} (N-τ)(ω_τ - e^τ)` with `e = sin(k)/k`, the ideal-chain value
`ω_id` and the quadrature values `ω_τ` as parameters -/
def omegaNFJC (N : Nat) (wτ : Nat → α) (e base : α) : α :=
  (sumTo (N - 2) fun t => ofNat (N - (t + 2)) * (wτ (t + 2) - powN e (t + 2))) * (ofNat 2 / ofNat N) + base
