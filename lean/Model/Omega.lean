import Model.Scalar
/-!
# Analytic intra-molecular correlation functions ω(k) (pyPRISM/omega/*.py), value at one `k`
-/
open Lit Transc

variable {α : Type} [Add α] [Sub α] [Mul α] [Div α] [Neg α] [Lit α] [Transc α] [Inhabited α]

/-- the shared closed form `(1 - E² - 2E/N + 2E^{N+1}/N) / (1-E)²` -/
def chainClosedForm (N : Nat) (E : α) : α :=
  (ofNat 1 - E * E - ofNat 2 * E / ofNat N + (ofNat 2 * powN E (N + 1)) / ofNat N) / powN (ofNat 1 - E) 2

/-- the defining pair sum `(1/N) Σ_{i,j<N} E^{|i-j|}` -/
def chainPairSum (N : Nat) (E : α) : α :=
  (sumTo N fun i => sumTo N fun j => powN E (if i ≤ j then j - i else i - j)) / ofNat N

def gaussianE (σ k : α) : α := exp (-k * k * σ * σ / ofNat 6)
def fjcE (l k : α) : α := sin (k * l) / (k * l)

def omegaGaussian (σ : α) (N : Nat) (k : α) : α := chainClosedForm N (gaussianE σ k)
def omegaFJC (l : α) (N : Nat) (k : α) : α := chainClosedForm N (fjcE l k)

/-- `GaussianRing.calculate`: the shipped single loop over `i` with `j = 0` -/
def ringTerm (σ : α) (N : Nat) (k : α) (t : Nat) : α :=
  exp (-(σ * σ) * (k * k) * ofNat t * ofNat (N - t) / (ofNat 6 * ofNat N))
def omegaRing (σ : α) (N : Nat) (k : α) : α := sumTo N fun i => ringTerm σ N k i
/-- the defining double sum `(1/N) Σ_{i,j} w_{|i-j|}` of the ring -/
def ringPairSum (σ : α) (N : Nat) (k : α) : α :=
  (sumTo N fun i => sumTo N fun j => ringTerm σ N k (if i ≤ j then j - i else i - j)) / ofNat N

def omegaSingleSite (_k : α) : α := ofNat 1
def omegaNoIntra (_k : α) : α := ofNat 0

/-- Koyama kernel `sin(Bk)/(Bk) · exp(-A² k²)` for given `B`, `A²` -/
def koyamaKernel (B Asq k : α) : α := sin (B * k) / (B * k) * exp (-Asq * k * k)

/-- `DiscreteKoyama.calculate`: `1 + (2/N) Σ_{1≤i<j≤N} w_{j-i}` (sites numbered `1…N`),
as a loop over separations `τ = 1 … N-1` with multiplicity `N-τ`; `B τ`, `Asq τ` are the kernel
parameters the constructor derives from `(sigma, l, lp)` (taken from the implementation) -/
def omegaKoyama (N : Nat) (B Asq : Nat → α) (k : α) : α :=
  (sumTo (N - 1) fun t => ofNat (N - (t + 1)) * koyamaKernel (B (t + 1)) (Asq (t + 1)) k) * (ofNat 2 / ofNat N) + ofNat 1

/-- the loop as shipped before the repair (finding F8): `i ∈ 1…N-2`, `j ∈ i+1…N-1`
covers only `N-1` sites: separation `τ` occurs `N-1-τ` times -/
def omegaKoyamaShipped (N : Nat) (B Asq : Nat → α) (k : α) : α :=
  (sumTo (N - 2) fun t => ofNat (N - 1 - (t + 1)) * koyamaKernel (B (t + 1)) (Asq (t + 1)) k) * (ofNat 2 / ofNat N) + ofNat 1

/-- NFJC: `ω_id + (2/N) Σ_{τ=2}^{N-1} (N-τ)(ω_τ - e^τ)` with `e = sin(k)/k`, the ideal-chain value
`ω_id` and the quadrature values `ω_τ` as parameters -/
def omegaNFJC (N : Nat) (wτ : Nat → α) (e base : α) : α :=
  (sumTo (N - 2) fun t => ofNat (N - (t + 2)) * (wτ (t + 2) - powN e (t + 2))) * (ofNat 2 / ofNat N) + base

/-! ### DiscreteKoyama: constructor decision and kernel parameters (`__init__`, `kernel_base`, `koyama_kernel_fourier`)
The bending-energy root solve (`cos_avg`, `scipy.optimize.root`) is external: `cos1 = l/lp - 1` and `cos2` enter as values. -/

/-- `lp_min = 4 l^3 / (4 l^2 - sigma^2)` -/
def koyamaLpMin (σ l : α) : α := (ofNat 4 * powN l 3) / (ofNat 4 * powN l 2 - powN σ 2)

section
variable [LT α] [DecidableLT α]
/-- the constructor's checks: `ValueError` iff `l <= sigma/2` or `lp < lp_min`; `true` = accepted -/
def koyamaCtorOK (σ l lp : α) : Bool :=
  if σ / ofNat 2 < l then (if lp < koyamaLpMin σ l then false else true) else false
/-- the near-freely-jointed branch is taken iff `(lp - lp_min)/lp_min < 0.001` -/
def koyamaLinearised (σ l lp : α) : Bool := if (lp - koyamaLpMin σ l) / koyamaLpMin σ l < dec 1 3 then true else false
end

/-- `kernel_base(n)`: second and fourth moments `(r2, r4)` of the separation of two sites `n` bonds apart -/
def koyamaBase (l cos1 cos2 : α) (n : Nat) : α × α :=
  let q := -cos1
  let p := (ofNat 3 * cos2 - ofNat 1) / ofNat 2
  let nn : α := ofNat n
  let one : α := ofNat 1
  let r1q := (one + q) / (one - q)
  let D0 := nn * nn * powN r1q 2
  let D1 := D0 - nn * (one + (ofNat 2 * q / powN (one - q) 3) * (ofNat 6 + ofNat 5 * q + ofNat 3 * q * q) - ofNat 4 * p / (one - p) * powN r1q 2)
  let D2 := D1 + ofNat 2 * q / powN (one - q) 4 * (ofNat 4 + ofNat 11 * q + ofNat 12 * q * q)
  let D3 := D2 - ofNat 4 * p / (one - p) * (one + ofNat 8 * q / powN (one - q) 3 + p / (one - p) * powN r1q 2)
  let c8 := powN q n * ofNat 8 * q / powN (one - q) 3
  let D4 := D3 - c8 * (nn * (one + ofNat 3 * q))
  let D5 := D4 - c8 * ((one + ofNat 2 * q + ofNat 3 * q * q) / (one - q))
  let D6 := D5 - c8 * (-(ofNat 2) * p / powN (q - p) 2 * (nn * (one - q) * (q - p) + ofNat 2 * q * q - q * p - p))
  let D7 := D6 - ofNat 6 * powN q (2 * n + 2) / powN (one - q) 4
  let D8 := D7 + powN p n * (ofNat 4 / (one - p) * (one + ofNat 8 * q / powN (one - q) 3 - powN r1q 2 * (one - p / (one - p))))
  let D9 := D8 - powN p n * (ofNat 16 * q * q / powN (one - q) 3 * (one / powN (q - p) 2) * (q + q * q - ofNat 2 * p))
  let D := D9 * (ofNat 2 / ofNat 3)
  let r2 := nn * l * l * ((one - cos1) / (one + cos1) + ofNat 2 * cos1 / nn * (one - powN (-cos1) n) / powN (one + cos1) 2)
  (r2, r2 * r2 + l * l * l * l * D)

/-- `C`, `B`, `A²` of `koyama_kernel_fourier` from the two moments -/
def koyamaParams (r2 r4 : α) : α × α × α :=
  let C := sqrt (dec 5 1 * (ofNat 5 - ofNat 3 * r4 / (r2 * r2)))
  (C, sqrt (C * r2), r2 * (ofNat 1 - C) / ofNat 6)
