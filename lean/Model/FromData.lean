import Model.MatrixArray
/-!
# Tabulated ω: `FromArray`, `FromFile` (pyPRISM/omega/FromArray.py, FromFile.py)

`np.allclose(a, b)` is modelled from NumPy's documentation:
`|a - b| <= atol + rtol * |b|` element-wise with `rtol = 1e-5`, `atol = 1e-8`; a NaN on either side is never close
(`equal_nan=False`): the `x == x` test below is false exactly for NaN on `Float` and always true on `ℝ`.
`np.loadtxt` is outside the model: the model starts from the parsed rows.
-/
open Lit

variable {α : Type} [Add α] [Sub α] [Mul α] [Div α] [Neg α] [Lit α] [Inhabited α] [LT α] [DecidableLT α] [BEq α]

def rtolC : α := dec 1 5
def atolC : α := dec 1 8

/-- one element of `np.isclose` -/
def iscloseS (a b : α) : Bool := decide (¬ (atolC + rtolC * absS b < absS (a - b))) && (absS (a - b) == absS (a - b))

def allclose (a b : Array α) : Bool :=
  a.size == b.size && (List.range a.size).all fun i => iscloseS a[i]! b[i]!

structure FromArr (α : Type) where
  value : Array α
  k : Option (Array α)

/-- `FromArray.calculate(k)` -/
def FromArr.calculate (o : FromArr α) (kd : Array α) : Except Err (Array α) :=
  if o.value.size ≠ kd.size then .error .assertion
  else match o.k with
    | none => .ok o.value
    | some ks =>
      if ks.size ≠ kd.size then .error .assertion
      else if allclose ks kd then .ok o.value else .error .assertion

/-- `FromFile.calculate(k)` on the parsed file `rows` (each row a list of columns).
`loadtxt(..., ndmin=2)`: a file with ≥ 2 columns is a (k, ω) table whatever its number of rows;
a one-column file is ω itself and must have the domain's length. -/
def fromFileCalc (rows : Array (Array α)) (kd : Array α) : Except Err (Array α) :=
  if (rows[0]!).size ≥ 2 then
    if rows.size ≠ kd.size then .error .assertion
    else if allclose (rows.map fun r => r[0]!) kd then .ok (rows.map fun r => r[1]!) else .error .assertion
  else if rows.size ≠ kd.size then .error .assertion
  else .ok (rows.map fun r => r[0]!)

/-- the as-shipped variant (before the fix of finding F11): `loadtxt` without `ndmin`
squeezes a single-row file into a 1-d array, which is then taken as ω itself -/
def fromFileCalcShipped (rows : Array (Array α)) (kd : Array α) : Except Err (Array α) :=
  if rows.size ≥ 2 ∧ (rows[0]!).size ≥ 2 then
    if rows.size ≠ kd.size then .error .assertion
    else if allclose (rows.map fun r => r[0]!) kd then .ok (rows.map fun r => r[1]!) else .error .assertion
  else if rows.size = 1 then .ok rows[0]!
  else .ok (rows.map fun r => r[0]!)
