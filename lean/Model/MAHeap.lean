import Model.MatrixArray
import Model.Density
/-!
# MatrixArray objects over an object store (aliasing claims of C13)

`cell r` is the numpy buffer behind reference `r`; a Python-level MatrixArray object is a
record `(ref, length, rank, space)`.  Out-of-place operators and `get_copy` allocate a
fresh buffer and a new object; element-wise in-place operators (`+= -= *= /=`,
`A[a,b] = v`) write the left operand's buffer; `dot(inplace=True)`, `@=` and
`invert(inplace=True)` *rebind* `self.data` to a fresh buffer.
-/

structure MObj where
  ref : Nat
  length : Nat
  rank : Nat
  space : Space
  deriving Inhabited

structure MH (α : Type) where
  next : Nat
  cell : Nat → Option (Array α)
  objs : List MObj

inductive BinOp | add | sub | mul | div
  deriving DecidableEq, Repr

inductive Rhs (α : Type)
  | obj (k : Nat)
  | lit (o : Operand α)

inductive MOp (α : Type)
  | new (A : MA α)
  | binop (op : BinOp) (k : Nat) (rhs : Rhs α) (inplace : Bool)
  | dot (k1 k2 : Nat) (inplace : Bool)
  | invert (k : Nat) (inplace : Bool)
  | getCopy (k : Nat)
  | setPair (k i j : Nat) (v : Array α)

variable {α : Type} [Add α] [Sub α] [Mul α] [Div α] [Neg α] [Lit α] [Inhabited α]

def BinOp.fn : BinOp → α → α → α
  | .add => (· + ·) | .sub => (· - ·) | .mul => (· * ·) | .div => (· / ·)

def MH.init : MH α := ⟨0, fun _ => none, []⟩

/-- the MatrixArray value currently seen through object `k` -/
def MH.view (h : MH α) (k : Nat) : Option (MA α) :=
  match h.objs[k]? with
  | none => none
  | some o => (h.cell o.ref).map fun d => ⟨o.length, o.rank, o.space, d⟩

/-- a new Python object with a freshly allocated buffer -/
def MH.alloc (h : MH α) (A : MA α) : MH α :=
  { next := h.next + 1, cell := upd h.cell h.next (some A.data),
    objs := h.objs ++ [⟨h.next, A.length, A.rank, A.space⟩] }

/-- element-wise in-place result: written into the existing buffer of object `k` -/
def MH.writeBuf (h : MH α) (k : Nat) (A : MA α) : MH α :=
  match h.objs[k]? with
  | none => h
  | some o => { h with cell := upd h.cell o.ref (some A.data) }

/-- `self.data = <new array>`: object `k` is rebound to a fresh buffer -/
def MH.rebind (h : MH α) (k : Nat) (A : MA α) : MH α :=
  { next := h.next + 1, cell := upd h.cell h.next (some A.data),
    objs := h.objs.modify k fun o => { o with ref := h.next } }

def MH.rhs (h : MH α) : Rhs α → Option (Operand α)
  | .lit o => some o
  | .obj k => (h.view k).map Operand.ma

def MH.step (inv : Nat → Array α → Array α) (h : MH α) : MOp α → Except Err (MH α)
  | .new A => .ok (h.alloc A)
  | .binop op k rhs inplace =>
    match h.view k, h.rhs rhs with
    | some A, some o =>
      if inplace then
        -- `a op= b` with a length-1 `a` and a longer `b`: numpy refuses ("non-broadcastable output operand")
        if A.length = 1 ∧ 1 < o.len A.rank then .error .valueError
        else match A.binop op.fn o with
          | .error e => .error e
          | .ok R => .ok (h.writeBuf k R)
      else
        -- out of place a length-1 left operand is broadcast over the right operand's grid
        match (A.stretch (o.len A.rank)).binop op.fn o with
        | .error e => .error e
        | .ok R => .ok (h.alloc R)
    | _, _ => .error .shape
  | .dot k1 k2 inplace =>
    match h.view k1, h.view k2 with
    | some A, some B =>
      match A.dot B with
      | .error e => .error e
      | .ok R => .ok (if inplace then h.rebind k1 R else h.alloc R)
    | _, _ => .error .shape
  | .invert k inplace =>
    match h.view k with
    | some A => .ok (if inplace then h.rebind k (A.invert inv) else h.alloc (A.invert inv))
    | none => .error .shape
  | .getCopy k =>
    match h.view k with
    | some A => .ok (h.alloc A)
    | none => .error .shape
  | .setPair k i j v =>
    match h.view k with
    | some A =>
      match A.setPair i j v with
      | .error e => .error e
      | .ok R => .ok (h.writeBuf k R)
    | none => .error .shape
