import Model.Scalar
/-!
# Atomic closures (pyPRISM/closure/*.py)

`closureAt kind hc σ r γ u` is the value the closure returns at one grid point; the array
version is the element-wise map.  `mask = r > sigma` selects the points *outside* the
core; with `apply_hard_core` the points with `¬ (σ < r)` get `-1 - γ`.
`u` is the closure's `potential` attribute, i.e. already `U(r)/kT`.
-/
open Lit Transc

inductive CKind | py | hnc | msa | ms | msA | msB
  deriving DecidableEq, Repr, Inhabited

variable {α : Type} [Add α] [Sub α] [Mul α] [Div α] [Neg α] [Lit α] [Transc α] [Inhabited α] [LT α] [DecidableLT α]

/-- the closure relation outside the core / with the hard-core flag off -/
def closureFormula (kind : CKind) (γ u : α) : α :=
  match kind with
  | .py  => (exp (-u) - ofNat 1) * (ofNat 1 + γ)
  | .hnc => exp (γ - u) - ofNat 1 - γ
  | .msa => -u
  | .ms  => exp (sqrt (γ - u + dec 5 1) - ofNat 1) - ofNat 1 - γ          -- as shipped
  | .msA => exp (-u + sqrt (ofNat 1 + ofNat 2 * γ) - ofNat 1) - ofNat 1 - γ    -- Martynov–Sarkisov 1983
  | .msB => exp (sqrt (ofNat 1 + ofNat 2 * (γ - u)) - ofNat 1) - ofNat 1 - γ   -- γ* = γ - u variant

def closureAt (kind : CKind) (hc : Bool) (σ r γ u : α) : α :=
  if hc = true ∧ ¬ (σ < r) then -(ofNat 1) - γ else closureFormula kind γ u

/-- `closure.calculate(r, gamma)` -/
def closureArr (kind : CKind) (hc : Bool) (σ : α) (r γ u : Array α) : Array α :=
  tab γ.size fun i => closureAt kind hc σ r[i]! γ[i]! u[i]!
