import Model.Prism
/-!
# `pyPRISM.calculate.*` as operations on a `Prism` state

Every function first moves the stored arrays it needs into the space it works in (in
place — the object's arrays change space), then evaluates its formula.  The result type
`Out` is a MatrixArray or a (symmetric) pair table of arrays / scalars (scalars are
1-element arrays).
-/
open Lit Transc

variable {α : Type} [Add α] [Sub α] [Mul α] [Div α] [Neg α] [Lit α] [Transc α] [Inhabited α] [LT α] [DecidableLT α]

inductive Out (α : Type)
  | ma (A : MA α)
  | table (n : Nat) (t : Nat → Nat → Option (Array α))

/-- `if X.space == Space.Real: domain.MatrixArray_to_fourier(X)` -/
def ensureFourier (d : Dom α) (A : MA α) : Except Err (MA α) :=
  if A.space = .real then d.maToFourier A else .ok A

/-- `if X.space == Space.Fourier: domain.MatrixArray_to_real(X)` -/
def ensureReal (d : Dom α) (A : MA α) : Except Err (MA α) :=
  if A.space = .fourier then d.maToReal A else .ok A

/-- value at 0 of the quadratic through `(k0,y0), (k1,y1), (k2,y2)` — what
`np.poly1d(np.polyfit(k[:3], y[:3], 2))(0)` computes for three distinct abscissae -/
def quadAt0 (k0 k1 k2 y0 y1 y2 : α) : α :=
  y0 * (k1 * k2) / ((k0 - k1) * (k0 - k2)) + y1 * (k0 * k2) / ((k1 - k0) * (k1 - k2))
    + y2 * (k0 * k1) / ((k2 - k0) * (k2 - k1))

def extrap0 (d : Dom α) (y : Array α) : α :=
  let k := d.k
  quadAt0 k[0]! k[1]! k[2]! y[0]! y[1]! y[2]!

/-- `pair_correlation`: `totalCorr` to real space (in place), result `h + 1` -/
def Prism.pairCorrelation (p : Prism α) : Except Err (Prism α × MA α) := do
  let h ← ensureReal p.dom p.totalCorr
  let g ← h.binop (· + ·) (.scalar (ofNat 1))
  return ({ p with totalCorr := h }, g)

/-- `structure_factor(normalize)` -/
def Prism.structureFactor (p : Prism α) (normalize : Bool) : Except Err (Prism α × MA α) := do
  let h ← ensureFourier p.dom p.totalCorr
  let om ← ensureFourier p.dom p.omega
  let a ← h.binop (· * ·) (.ma p.pairD)
  let s ← a.binop (· + ·) (.ma om)
  let s' ← if normalize then s.binop (· / ·) (.ma p.siteD) else pure s
  return ({ p with totalCorr := h, omega := om }, s')

/-- `pmf`: `-1.0*kT*log(g)` element-wise on `pair_correlation` -/
def Prism.pmf (p : Prism α) : Except Err (Prism α × MA α) := do
  let (p', g) ← p.pairCorrelation
  return (p', MA.build g.length g.rank .real fun l i j => -(ofNat 1) * p.kT * log (g.at l i j))

/-- `second_virial(extrapolate)`: all ordered pairs -/
def Prism.secondVirial (p : Prism α) (extrapolate : Bool) : Except Err (Prism α × Out α) := do
  let h ← ensureFourier p.dom p.totalCorr
  let t : Nat → Nat → Option (Array α) := fun i j =>
    if i < p.n ∧ j < p.n then
      let y := tab 3 fun l => -(dec 5 1) * h.at l i j
      some #[if extrapolate then extrap0 p.dom y else y[0]!]
    else none
  return ({ p with totalCorr := h }, .table p.n t)

/-- the wavenumber-dependent χ of one pair `a < b` at grid point `l` -/
def Prism.chiAt (p : Prism α) (c : MA α) (a b l : Nat) : α :=
  let vA := sphereVol (p.diam a); let vB := sphereVol (p.diam b)
  let phiA := p.rho a / (p.rho a + p.rho b); let phiB := p.rho b / (p.rho a + p.rho b)
  let R := vA / vB
  (ofNat 1 / (phiA / sqrt R + sqrt R * phiB)) * dec 5 1 * p.total *
    (c.at l a a / R + R * c.at l b b - ofNat 2 * c.at l a b)

/-- `chi(extrapolate)`: pairs `i < j` (mirrored by the symmetric table), refused for rank 1 -/
def Prism.chi (p : Prism α) (extrapolate : Bool) : Except Err (Prism α × Out α) := do
  if p.n ≤ 1 then throw .assertion
  let c ← ensureFourier p.dom p.directCorr
  let t : Nat → Nat → Option (Array α) := fun i j =>
    if i < p.n ∧ j < p.n ∧ i ≠ j then
      let a := loI i j; let b := hiI i j
      if extrapolate then some #[extrap0 p.dom (tab 3 fun l => p.chiAt c a b l)]
      else some (tab c.length fun l => p.chiAt c a b l)
    else none
  return ({ p with directCorr := c }, .table p.n t)

/-- the eight-term spinodal expression of one pair `a < b` at grid point `l`;
`om` is the stored (site-density scaled) ω, `ρ` the site-density matrix -/
def Prism.spinodalAt (p : Prism α) (c om : MA α) (a b l : Nat) : α :=
  let rAA := p.siteD.at 0 a a; let rAB := p.siteD.at 0 a b; let rBB := p.siteD.at 0 b b
  let wAA := om.at l a a * (ofNat 1 / rAA); let wAB := om.at l a b * (ofNat 1 / rAB); let wBB := om.at l b b * (ofNat 1 / rBB)
  let cAA := c.at l a a; let cAB := c.at l a b; let cBB := c.at l b b
  ofNat 1 + -(ofNat 1) * cAA * rAA * wAA + -(ofNat 2) * cAB * rAB * wAB + -(ofNat 1) * cBB * rBB * wBB
    + cAB * cAB * rAB * rAB * wAB * wAB + -cAA * cBB * rAB * rAB * wAB * wAB
    + -cAB * cAB * rAA * rBB * wAA * wBB + cAA * cBB * rAA * rBB * wAA * wBB

/-- `spinodal_condition` (always extrapolated), pairs `i < j`, after the repair of finding F4:
the stored ω is only read -/
def Prism.spinodal (p : Prism α) : Except Err (Prism α × Out α) := do
  if p.n ≤ 1 then throw .assertion
  let c ← ensureFourier p.dom p.directCorr
  let om ← ensureFourier p.dom p.omega
  let t : Nat → Nat → Option (Array α) := fun i j =>
    if i < p.n ∧ j < p.n ∧ i ≠ j then
      some #[extrap0 p.dom (tab 3 fun l => p.spinodalAt c om (loI i j) (hiI i j) l)]
    else none
  return ({ p with directCorr := c, omega := om }, .table p.n t)

/-- the in-place rescaling `omega_AA *= 1.0/rho_AA` (and AB, BB) that the shipped
`spinodal_condition` performed on views of `PRISM.omega` for the pair `a < b` -/
def rescaleOmega (om siteD : MA α) (a b : Nat) : MA α :=
  MA.build om.length om.rank om.space fun l i j =>
    if (i = a ∧ j = a) ∨ (i = b ∧ j = b) ∨ (i = a ∧ j = b) then om.at l i j * (ofNat 1 / siteD.at 0 i j)
    else om.at l i j

/-- `spinodal_condition` as shipped before the repair (finding F4): every pair leaves ω rescaled -/
def Prism.spinodalShipped (p : Prism α) : Except Err (Prism α × Out α) := do
  let (q, out) ← p.spinodal
  let pairs := (List.range p.n).flatMap fun i => ((List.range p.n).filter (i < ·)).map fun j => (i, j)
  return ({ q with omega := pairs.foldl (fun om ab => rescaleOmega om p.siteD ab.1 ab.2) q.omega }, out)

/-- `solvation_potential(closure)`: `closure = true` is `'HNC'`, `false` is `'PY'` -/
def Prism.solvation (p : Prism α) (hnc : Bool) : Except Err (Prism α × MA α) := do
  if p.n ≤ 1 then throw .assertion
  let c ← ensureFourier p.dom p.directCorr
  let h ← ensureFourier p.dom p.totalCorr
  let om ← ensureFourier p.dom p.omega
  let p1 : Prism α := { p with directCorr := c, totalCorr := h, omega := om }
  let (p2, s) ← p1.structureFactor true
  let cs ← c.dot s
  let csc ← cs.dot c
  let psi : MA α :=
    if hnc then MA.build csc.length csc.rank csc.space fun l i j => csc.at l i j * -p.kT
    else MA.build csc.length csc.rank csc.space fun l i j => log (ofNat 1 + csc.at l i j) * -p.kT
  let out ← p.dom.maToReal psi
  return (p2, out)
