import Model.Scalar
/-!
# `MatrixArray` (pyPRISM/core/MatrixArray.py, IdentityMatrixArray.py, Space.py)

Value level: `data` is the flattened `(length, rank, rank)` numpy array, index
`(l*rank + i)*rank + j`.  Operations return `Except` so that refused operations (the
`assert` on the space flags, unknown type names) are explicit.
`np.linalg.inv` is a *parameter* (`inv : rank → flattened matrix → flattened inverse`).
-/
open Lit

inductive Space | real | fourier | nonspatial
  deriving DecidableEq, Repr, Inhabited

inductive Err | spaceMismatch | valueError | assertion | shape
  deriving DecidableEq, Repr, Inhabited

/-- `(self.space == other.space) or (Space.NonSpatial in (self.space, other.space))` -/
def spaceOK (a b : Space) : Bool := a == b || a == .nonspatial || b == .nonspatial

structure MA (α : Type) where
  length : Nat
  rank : Nat
  space : Space
  data : Array α
  deriving Inhabited

variable {α : Type} [Add α] [Sub α] [Mul α] [Div α] [Neg α] [Lit α] [Inhabited α]

def MA.at (A : MA α) (l i j : Nat) : α := A.data[(l * A.rank + i) * A.rank + j]!

/-- build from an element function (a freshly allocated numpy array) -/
def MA.build (length rank : Nat) (space : Space) (f : Nat → Nat → Nat → α) : MA α :=
  ⟨length, rank, space,
   tab (length * rank * rank) fun idx => f (idx / (rank * rank)) (idx / rank % rank) (idx % rank)⟩

/-- `MatrixArray(length, rank)`: zeros -/
def MA.zeros (length rank : Nat) (space : Space) : MA α := MA.build length rank space fun _ _ _ => ofNat 0

/-- `IdentityMatrixArray(length, rank)` -/
def MA.identity (length rank : Nat) (space : Space) : MA α :=
  MA.build length rank space fun _ i j => if i = j then ofNat 1 else ofNat 0

/-- right operands of `+ - * /` -/
inductive Operand (α : Type)
  | scalar (x : α)
  | perPoint (v : Array α)      -- ndarray of shape (length,1,1), e.g. `domain.long_r`
  | perMatrix (m : Array α)     -- ndarray of shape (rank,rank)
  | perCol (v : Array α)        -- 1-d ndarray of shape (rank,): numpy broadcasts it along the LAST axis
  | full (d : Array α)          -- ndarray of shape (length,rank,rank)
  | ma (B : MA α)               -- another MatrixArray (same length, or length 1: `density.pair`)

def Operand.at (o : Operand α) (rank l i j : Nat) : α :=
  match o with
  | .scalar x => x
  | .perPoint v => v[l]!
  | .perMatrix m => m[i * rank + j]!
  | .perCol v => v[j]!
  | .full d => d[(l * rank + i) * rank + j]!
  | .ma B => B.at (if B.length = 1 then 0 else l) i j

def Operand.spaceOK (A : MA α) : Operand α → Bool
  | .ma B => _root_.spaceOK A.space B.space
  | _ => true

/-- number of grid points an operand spans (1 for scalars, per-matrix and per-column arrays) -/
def Operand.len (o : Operand α) (rank : Nat) : Nat :=
  match o with
  | .ma B => B.length
  | .perPoint v => v.size
  | .full d => d.size / (rank * rank)
  | _ => 1

/-- numpy broadcasting of a length-1 left operand (e.g. `density.pair`) against a longer right operand -/
def MA.stretch (A : MA α) (n : Nat) : MA α :=
  if A.length = 1 ∧ 1 < n then MA.build n A.rank A.space fun _ i j => A.at 0 i j else A

/-- `A ∘ other` for `∘ ∈ {+,-,*,/}`; refused iff `other` is a MatrixArray in the other space -/
def MA.binop (f : α → α → α) (A : MA α) (o : Operand α) : Except Err (MA α) :=
  if o.spaceOK A then
    .ok (MA.build A.length A.rank A.space fun l i j => f (A.at l i j) (o.at A.rank l i j))
  else .error .spaceMismatch

/-- `np.einsum('lij,ljk->lik', self.data, other.data)` -/
def MA.dot (A B : MA α) : Except Err (MA α) :=
  if spaceOK A.space B.space then
    .ok (MA.build A.length A.rank A.space fun l i k => sumTo A.rank fun j => A.at l i j * B.at l j k)
  else .error .spaceMismatch

/-- `np.linalg.inv(self.data)`: matrix by matrix, through the external `inv` -/
def MA.invert (inv : Nat → Array α → Array α) (A : MA α) : MA α :=
  MA.build A.length A.rank A.space fun l i j =>
    (inv A.rank (tab (A.rank * A.rank) fun idx => A.at l (idx / A.rank) (idx % A.rank)))[i * A.rank + j]!

/-- `A[t1,t2] = val` (type names are positions; an unknown name is an index `≥ rank`) -/
def MA.setPair (A : MA α) (i j : Nat) (v : Array α) : Except Err (MA α) :=
  if i < A.rank ∧ j < A.rank then
    .ok (MA.build A.length A.rank A.space fun l a b =>
      if (a = i ∧ b = j) ∨ (a = j ∧ b = i) then v[l]! else A.at l a b)
  else .error .valueError

/-- `A[t1,t2]` -/
def MA.getPair (A : MA α) (i j : Nat) : Except Err (Array α) :=
  if i < A.rank ∧ j < A.rank then .ok (tab A.length fun l => A.at l i j) else .error .valueError

/-! ### Gauss–Jordan inverse with partial pivoting (what the driver passes for `inv`) -/
section gauss
variable [LT α] [DecidableLT α]

/-- augmented matrix `[A | I]` as `n` rows of `2n` entries; returns the right half after elimination -/
def gaussInv (n : Nat) (a : Array α) : Array α := Id.run do
  let w := 2 * n
  let mut m : Array α := tab (n * w) fun idx =>
    let i := idx / w; let j := idx % w
    if j < n then a[i * n + j]! else if j - n = i then ofNat 1 else ofNat 0
  for c in [0:n] do
    -- pivot search
    let mut p := c
    for r in [c+1:n] do
      if absS (m[p * w + c]!) < absS (m[r * w + c]!) then p := r
    -- swap rows p and c
    if p ≠ c then
      for j in [0:w] do
        let t := m[c * w + j]!
        m := m.set! (c * w + j) (m[p * w + j]!)
        m := m.set! (p * w + j) t
    let piv := m[c * w + c]!
    for j in [0:w] do
      m := m.set! (c * w + j) (m[c * w + j]! / piv)
    for r in [0:n] do
      if r ≠ c then
        let fac := m[r * w + c]!
        for j in [0:w] do
          m := m.set! (r * w + j) (m[r * w + j]! - fac * m[c * w + j]!)
  return tab (n * n) fun idx => m[(idx / n) * w + n + idx % n]!
end gauss
