import Model.Domain
import Model.Density
import Model.Closure
import Model.Potential
import Model.Omega
/-!
# `System` → `PRISM` wiring and the self-consistency function
(pyPRISM/core/System.py, pyPRISM/core/PRISM.py)

Value-level model.  Types are positions `0 … n-1`.  The pair tables of a `System` are
symmetric maps to *specifications* (what the user's objects say); `createPRISM` turns them
into the arrays a `PRISM` object holds (`closure.potential = U(r)/kT`, `closure.sigma`,
`omega(k)·ρ_site`), `cost` is `PRISM.cost` statement for statement.  `np.linalg.inv` is the
parameter `inv`.
-/
open Lit Transc

variable {α : Type} [Add α] [Sub α] [Mul α] [Div α] [Neg α] [Lit α] [Transc α] [Inhabited α] [LT α] [DecidableLT α]

inductive PotKind | hs | exp | lj | ljcut | ljshift | hclj | wca
  deriving DecidableEq, Repr, Inhabited

/-- a potential object: its kind, numeric parameters (`epsilon, alpha, high_value, rcut` as the
kind needs them) and its own `sigma` attribute (`None` = to be defaulted) -/
structure PotSpec (α : Type) where
  kind : PotKind
  p : Array α
  sigma : Option α
  deriving Inhabited

/-- `U.calculate(r)` at one distance, with the contact distance `σ` the object carries by then -/
def PotSpec.eval (s : PotSpec α) (σ r : α) : α :=
  match s.kind with
  | .hs => hardSphere σ s.p[0]! r
  | .exp => exponentialPot s.p[0]! s.p[1]! σ s.p[2]! r
  | .lj => lennardJones s.p[0]! σ none false r
  | .ljcut => lennardJones s.p[0]! σ (some s.p[1]!) false r
  | .ljshift => lennardJones s.p[0]! σ (some s.p[1]!) true r
  | .hclj => hcLennardJones s.p[0]! σ s.p[1]! r
  | .wca => wca s.p[0]! σ r

inductive OmKind | gauss | fjc | ring | single | nointra | arr
  deriving DecidableEq, Repr, Inhabited

/-- an ω object: analytic kind with parameters, or (`arr`) values tabulated on the k grid -/
structure OmSpec (α : Type) where
  kind : OmKind
  N : Nat
  p : Array α
  deriving Inhabited

def OmSpec.eval (s : OmSpec α) (k : α) (j : Nat) : α :=
  match s.kind with
  | .gauss => omegaGaussian s.p[0]! s.N k
  | .fjc => omegaFJC s.p[0]! s.N k
  | .ring => omegaRing s.p[0]! s.N k
  | .single => omegaSingleSite k
  | .nointra => omegaNoIntra k
  | .arr => s.p[j]!

structure Sys (α : Type) where
  n : Nat
  kT : α
  dom : Option (Dom α)
  dens : Dens α
  diam : Diam α
  pot : Nat → Nat → Option (PotSpec α)
  clo : Nat → Nat → Option (CKind × Bool)
  om : Nat → Nat → Option (OmSpec α)

def Sys.init (n : Nat) (kT : α) : Sys α :=
  ⟨n, kT, none, Dens.init n, Diam.init n, fun _ _ => none, fun _ _ => none, fun _ _ => none⟩

/-- `PairTable.check()` on a symmetric table: every upper-triangle entry is set -/
def tableFull {β} (n : Nat) (t : Nat → Nat → Option β) : Bool :=
  (List.range n).all fun i => (List.range n).all fun j => i > j || (t i j).isSome

/-- `System.check()` succeeds -/
def Sys.check (s : Sys α) : Bool :=
  s.dens.check && tableFull s.n s.pot && tableFull s.n s.clo && tableFull s.n s.om && s.diam.check && s.dom.isSome

structure Prism (α : Type) where
  n : Nat
  kT : α
  dom : Dom α
  pairD : MA α              -- `sys.density.pair`  (length 1, NonSpatial)
  siteD : MA α              -- `sys.density.site`
  total : α                 -- `sys.density.total`
  rho : Nat → α
  diam : Nat → α
  cloK : Nat → Nat → CKind × Bool
  cloSigma : Nat → Nat → α         -- `closure[a,b].sigma`
  potSigma : Nat → Nat → α         -- `potential[a,b].sigma` after defaulting
  u : Nat → Nat → Array α          -- `closure[a,b].potential`  = U_ab(r)/kT
  omega : MA α
  directCorr : MA α
  totalCorr : MA α
  gammaIn : MA α
  gammaOut : MA α
  x : Array α
  y : Array α
  deriving Inhabited

def loI (i j : Nat) : Nat := if i ≤ j then i else j
def hiI (i j : Nat) : Nat := if i ≤ j then j else i

/-- a length-1 NonSpatial MatrixArray from a matrix of scalars -/
def MA.ofMat (n : Nat) (f : Nat → Nat → α) : MA α := MA.build 1 n .nonspatial fun _ i j => f i j

/-- build a symmetric MatrixArray from per-pair arrays given for `i ≤ j`
(`PairTable.exportToMatrixArray`, the `directCorr[t1,t2] = …` loop) -/
def MA.ofPairs (L n : Nat) (sp : Space) (f : Nat → Nat → Array α) : MA α :=
  let tr : Array (Array α) := tab (n * n) fun idx => if idx / n ≤ idx % n then f (idx / n) (idx % n) else #[]
  MA.build L n sp fun l i j => (tr[loI i j * n + hiI i j]!)[l]!

/-- `PRISM.__init__` after `System.check()` -/
def Sys.createPRISM (s : Sys α) : Except Err (Prism α) :=
  if s.check = true then
    match s.dom with
    | none => .error .valueError
    | some d =>
      let n := s.n
      let sig : Nat → Nat → α := fun i j => (s.diam.sigma (loI i j) (hiI i j)).getD (ofNat 0)
      let psig : Nat → Nat → α := fun i j =>
        match s.pot (loI i j) (hiI i j) with
        | some P => (match P.sigma with | some v => v | none => sig i j)
        | none => sig i j
      let r := d.r
      let u : Nat → Nat → Array α := fun i j =>
        match s.pot (loI i j) (hiI i j) with
        | some P => tab d.length fun l => P.eval (psig i j) r[l]! / s.kT
        | none => #[]
      let k := d.k
      let om0 : MA α := MA.ofPairs d.length n .fourier fun i j =>
        match s.om i j with
        | some O => tab d.length fun l => O.eval k[l]! l
        | none => #[]
      let siteD : MA α := MA.ofMat n s.dens.site
      let pairD : MA α := MA.ofMat n s.dens.pair
      match om0.binop (· * ·) (.ma siteD) with
      | .error e => .error e
      | .ok om =>
        let L := d.length
        .ok { n := n, kT := s.kT, dom := d, pairD := pairD, siteD := siteD, total := s.dens.total,
              rho := fun t => (s.dens.rho t).getD (ofNat 0), diam := fun t => (s.diam.diam t).getD (ofNat 0),
              cloK := fun i j => (s.clo (loI i j) (hiI i j)).getD (.py, false),
              cloSigma := sig, potSigma := psig, u := u, omega := om,
              directCorr := MA.zeros L n .real, totalCorr := MA.zeros L n .fourier,
              gammaIn := MA.zeros L n .real, gammaOut := MA.zeros L n .real,
              x := tab (L * n * n) fun _ => ofNat 0, y := tab (L * n * n) fun _ => ofNat 0 }
  else .error .valueError

/-- the closure step of `cost`: `directCorr[t1,t2] = closure.calculate(r, GammaIn[t1,t2])` for `i ≤ j` -/
def Prism.closureStep (p : Prism α) (gin : MA α) : MA α :=
  let r := p.dom.r
  MA.ofPairs p.dom.length p.n .real fun i j =>
    closureArr (p.cloK i j).1 (p.cloK i j).2 (p.cloSigma i j) r (gin.pair i j) (p.u i j)

/-- `PRISM.cost(x)`; every intermediate that the object keeps is kept -/
def Prism.cost (inv : Nat → Array α → Array α) (p : Prism α) (x : Array α) : Except Err (Prism α) := do
  let n := p.n; let L := p.dom.length
  let r := p.dom.r
  let gin : MA α := MA.build L n .real fun l i j => x[(l * n + i) * n + j]! / r[l]!
  let cR := p.closureStep gin
  let cF ← p.dom.maToFourier cR
  let oc ← p.omega.dot cF
  let ioc ← (MA.identity L n .fourier : MA α).binop (· - ·) (.ma oc)
  let m := ioc.invert inv
  let t1 ← m.dot oc
  let t2 ← t1.dot p.omega
  let h ← t2.binop (· / ·) (.ma p.pairD)
  let goF ← h.binop (· - ·) (.ma cF)
  let go ← p.dom.maToReal goF
  let y := tab (L * n * n) fun idx => r[idx / (n * n)]! * (go.data[idx]! - gin.data[idx]!)
  return { p with x := x, y := y, gammaIn := gin, directCorr := cF, totalCorr := h, gammaOut := go }

/-- the tail of `solve`: `if totalCorr.space == Fourier: MatrixArray_to_real(totalCorr)` -/
def Prism.totalToReal (q : Prism α) : Except Err (Prism α) :=
  if q.totalCorr.space = .fourier then do
    let h ← q.dom.maToReal q.totalCorr
    return { q with totalCorr := h }
  else return q

/-- `solve`: `scipy.optimize.root` is an arbitrary oracle — it evaluates `cost` at some finite
trace of points (every evaluation overwrites the arrays on the object) and returns a point `x*`; the
(repaired, finding F18) code then evaluates `cost x*` itself, so the trace handed to this function
always ENDS with the returned point; then `totalCorr` is moved to real space -/
def Prism.solve (inv : Nat → Array α → Array α) (p : Prism α) (trace : List (Array α)) : Except Err (Prism α) := do
  let q ← trace.foldlM (fun s x => s.cost inv x) p
  q.totalToReal

/-- the state a single evaluation at `xstar` followed by the tail of `solve` leaves -/
def Prism.afterSolve (inv : Nat → Array α → Array α) (p : Prism α) (xstar : Array α) : Except Err (Prism α) := do
  let q ← p.cost inv xstar
  q.totalToReal
