import Model.Scalar
/-!
# Pair potentials (pyPRISM/potential/*.py), value at one distance `r`
-/
open Lit Transc

variable {α : Type} [Add α] [Sub α] [Mul α] [Div α] [Neg α] [Lit α] [Transc α] [Inhabited α] [LT α] [DecidableLT α]

/-- `HardSphere`: `np.where(r>sigma, 0.0, high_value)` -/
def hardSphere (σ high r : α) : α := if σ < r then ofNat 0 else high

/-- `Exponential`: `np.where(r>sigma, -epsilon*exp(-(r-sigma)/alpha), high_value)` -/
def exponentialPot (ε αw σ high r : α) : α := if σ < r then -ε * exp (-(r - σ) / αw) else high

/-- `4*epsilon*((s/r)**12 - (s/r)**6)` -/
def ljCore (ε σ r : α) : α := ofNat 4 * ε * (powN (σ / r) 12 - powN (σ / r) 6)

/-- `LennardJones.calculate`: optional cut (and shift) -/
def lennardJones (ε σ : α) (rcut : Option α) (shift : Bool) (r : α) : α :=
  match rcut with
  | none => ljCore ε σ r
  | some rc =>
    if rc < r then ofNat 0
    else if shift then ljCore ε σ r - ljCore ε σ rc else ljCore ε σ r

/-- `HardCoreLennardJones`: `epsilon*((s/r)**12 - 2 (s/r)**6)`, `high_value` where `r <= sigma` -/
def hcLennardJones (ε σ high r : α) : α :=
  if σ < r then ε * (powN (σ / r) 12 - ofNat 2 * powN (σ / r) 6) else high

/-- `WeeksChandlerAndersen`: LJ cut and shifted at `rcut = sigma * 2**(1/6)` -/
def wca (ε σ r : α) : α := lennardJones ε σ (some (σ * root6two)) true r
