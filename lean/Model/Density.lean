import Model.Scalar
/-!
# `Density` and `Diameter` containers (pyPRISM/core/Density.py, Diameter.py)

Types are positions `0 … n-1` in the type list.  `Density.__setitem__` is transcribed
loop for loop: the value table is written, `total` is reset to `0.` and re-accumulated over
*all* types in type-list order, and the pair / site matrices get the row and the mirrored
column of the assigned type (`MatrixArray.__setitem__` writes `(a,b)` and `(b,a)`).
-/
open Lit

variable {α : Type} [Add α] [Sub α] [Mul α] [Div α] [Neg α] [Lit α] [Transc α]

/-- `MatrixArray.__setitem__` / symmetric `PairTable.__setitem__` on one pair. -/
def setSym {β} (f : Nat → Nat → β) (i j : Nat) (v : β) : Nat → Nat → β :=
  fun a b => if (a = i ∧ b = j) ∨ (a = j ∧ b = i) then v else f a b

def upd {β} (f : Nat → β) (i : Nat) (v : β) : Nat → β := fun a => if a = i then v else f a

structure Dens (α : Type) where
  n : Nat
  rho : Nat → Option α
  total : α
  pair : Nat → Nat → α
  site : Nat → Nat → α

def Dens.init (n : Nat) : Dens α :=
  ⟨n, fun _ => none, ofNat 0, fun _ _ => ofNat 0, fun _ _ => ofNat 0⟩

/-- body of `for t2 in self.types:` -/
def Dens.inner (t1 : Nat) (v : α) (d : Dens α) (t2 : Nat) : Dens α :=
  match d.rho t2 with
  | none => d
  | some r2 =>
    { d with total := d.total + r2
             pair := setSym d.pair t1 t2 (v * r2)
             site := setSym d.site t1 t2 (if t1 = t2 then v else v + r2) }

/-- body of `for t1 in listify(types1):` -/
def Dens.setOne (d : Dens α) (t1 : Nat) (v : α) : Dens α :=
  (List.range d.n).foldl (Dens.inner t1 v) { d with rho := upd d.rho t1 (some v), total := ofNat 0 }

/-- `density[types1] = value` (`types1` a single type or a list of types) -/
def Dens.set (d : Dens α) (ts : List Nat) (v : α) : Dens α := ts.foldl (fun d t => d.setOne t v) d

/-- `check()` succeeds (true) iff no type is unassigned -/
def Dens.check (d : Dens α) : Bool := (List.range d.n).all fun t => (d.rho t).isSome

structure Diam (α : Type) where
  n : Nat
  diam : Nat → Option α
  volume : Nat → Option α
  sigma : Nat → Nat → Option α

def Diam.init (n : Nat) : Diam α := ⟨n, fun _ => none, fun _ => none, fun _ _ => none⟩

def Diam.inner (t1 : Nat) (v : α) (d : Diam α) (t2 : Nat) : Diam α :=
  match d.diam t2 with
  | none => d
  | some d2 => { d with sigma := setSym d.sigma t1 t2 (some ((v + d2) / ofNat 2)) }

/-- `(4.0/3.0) * np.pi * (d1/2.0)**(3.0)` -/
def sphereVol (d : α) : α := (ofNat 4 / ofNat 3) * Transc.pi * powN (d / ofNat 2) 3

def Diam.setOne (d : Diam α) (t1 : Nat) (v : α) : Diam α :=
  (List.range d.n).foldl (Diam.inner t1 v)
    { d with diam := upd d.diam t1 (some v), volume := upd d.volume t1 (some (sphereVol v)) }

def Diam.set (d : Diam α) (ts : List Nat) (v : α) : Diam α := ts.foldl (fun d t => d.setOne t v) d

/-- `diameter.sigma[t1,t2] = v`: a contact distance written straight into the (symmetric) sigma table, e.g. a non-additive mixture;
it stays until one of the two diameters is assigned again -/
def Diam.setSigma (d : Diam α) (t1 t2 : Nat) (v : α) : Diam α := { d with sigma := setSym d.sigma t1 t2 (some v) }

def Diam.check (d : Diam α) : Bool := (List.range d.n).all fun t => (d.diam t).isSome
