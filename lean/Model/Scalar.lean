/-!
# Scalar layer of the pyPRISM model

The numeric model is written once, polymorphically in the scalar type `α`.  It uses the
*core* arithmetic classes (`Add Sub Mul Div Neg`, `LT` + `DecidableLT`) plus the two small
classes below.  `Float` instances live here (executed by the driver); `ℝ` instances live
in `Proofs/RealInst.lean` (used by the theorems).  No Mathlib import in `Model/`.
-/

class Transc (α : Type) where
  exp : α → α
  log : α → α
  sin : α → α
  cos : α → α
  sqrt : α → α
  pi : α
  /-- `2**(1.0/6.0)` -/
  root6two : α

class Lit (α : Type) where
  ofNat : Nat → α

instance : Transc Float := ⟨Float.exp, Float.log, Float.sin, Float.cos, Float.sqrt, 3.141592653589793, 1.122462048309373⟩
instance : Lit Float := ⟨Float.ofNat⟩

/-- `tab n f` is the array `[f 0, …, f (n-1)]` (numpy: a freshly allocated 1-d array). -/
def tab {α} (n : Nat) (f : Nat → α) : Array α := (Array.range n).map f

/-- left-to-right finite sum `f 0 + f 1 + … + f (n-1)` starting from `0`. -/
def sumTo {α} [Add α] [Lit α] : Nat → (Nat → α) → α
  | 0, _ => Lit.ofNat 0
  | n+1, f => sumTo n f + f n

/-- natural power by repeated multiplication (`x**3.0`, `(s/r)**12.0`, `E**(N+1)`). -/
def powN {α} [Mul α] [Lit α] (x : α) : Nat → α
  | 0 => Lit.ofNat 1
  | n+1 => powN x n * x

section
variable {α : Type} [Add α] [Sub α] [Mul α] [Div α] [Neg α] [Lit α]

/-- decimal literal `m / 10^e` (e.g. `0.5 = dec 5 1`, `273.15 = dec 27315 2`). -/
def dec (m e : Nat) : α := Lit.ofNat m / Lit.ofNat (10 ^ e)

def absS [LT α] [DecidableLT α] (x : α) : α := if x < Lit.ofNat 0 then -x else x
end
